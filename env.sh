# sourced by every script: offline Go environment for /repo (needs go1.25)
GOTC=/root/go/pkg/mod/golang.org/toolchain@v0.0.1-go1.25.0.linux-amd64
if [ -x "$GOTC/bin/go" ]; then
  export GOROOT="$GOTC" PATH="$GOTC/bin:$PATH" GOTOOLCHAIN=local GOSUMDB=off
fi
export GOFLAGS=-mod=mod GOPROXY=off CGO_ENABLED=1
export VERIF=/verif
