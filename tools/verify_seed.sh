#!/bin/bash
# tools/verify_seed.sh <name> <go-test-pkgs> <demo-run-regex>
# Confirms a seeded break in a scratch worktree of /repo HEAD: the demonstration passes without
# the change, fails with it, and the unedited tests of the given packages still pass with it.
set -u
NAME="$1"; PKGS="$2"; RUN="$3"
D=/verif/seeded/$NAME
. /verif/env.sh
W=/tmp/lead/vs-$NAME; rm -rf "$W"; git -C /repo worktree prune
git -C /repo worktree add --detach "$W" HEAD -q || exit 3
trap 'git -C /repo worktree remove --force "$W" >/dev/null 2>&1' EXIT
cd "$W"; cp -r "$D/demo/." .
DEMOPKGS=$(cd "$D/demo" && find . -name '*.go' -exec dirname {} \; | sort -u | sed 's|$|/|' | tr '\n' ' ')
r1=$(go test -vet=off -count=1 -timeout 60m -run "$RUN" $DEMOPKGS 2>&1 | grep -E "^(ok|FAIL|---)" | head -3 | tr '\n' ' ')
git apply "$D/patch.diff" || { echo "PATCH DOES NOT APPLY"; exit 3; }
go build ./... || { echo "BUILD FAILS"; exit 3; }
r2=$(go test -vet=off -count=1 -timeout 60m -run "$RUN" $DEMOPKGS 2>&1 | grep -E "^(ok|FAIL|--- FAIL)" | head -3 | tr '\n' ' ')
# unedited tests: remove the demo files, run packages
(cd "$D/demo" && find . -type f) | while read f; do rm -f "$f"; done
r3=$(go test -vet=off -count=1 -timeout 90m $PKGS 2>&1 | grep -E "^(ok|FAIL|--- FAIL)" | tr '\n' ' ')
echo "$NAME | demo without change: $r1 | demo with change: $r2 | suite with change: $r3"
