#!/usr/bin/env python3
# Regenerates the machine-written block of DESIGN.md (§10 known findings, §11 which check catches
# which change) from known_findings.json, mutants/, seeded/*/meta.json and evidence/*.json.
import json, glob, os, re
root = '/verif'
kf = json.load(open(f'{root}/known_findings.json'))['findings']
props = [json.loads(l) for l in open(f'{root}/properties.jsonl')]
out = []
out.append('## 10. Known findings (generated from known_findings.json)\n')
out.append('`open` entries turn a violation with exactly that signature into a `KNOWN-FINDING` line; `fixed` entries are a record only (they suppress nothing). Signatures name the clause and the trigger class / crash site, never just the property.\n')
nopen = sum(1 for f in kf if f['status'] == 'open'); nfixed = sum(1 for f in kf if f['status'] == 'fixed')
out.append(f'{len(kf)} entries: {nfixed} fixed by `fix:` commits in /repo, {nopen} open (recorded, not repaired — see each entry\'s `what` for why: pinned by golden files, not small, or behavioural change).\n')
out.append('| property | id | status | signature | witness |\n|---|---|---|---|---|')
for f in sorted(kf, key=lambda f: (f['property'], f['status'], f['id'])):
    w = (f.get('witness') or '').replace('\n', '⏎').replace('|', '\\|')
    if len(w) > 70: w = w[:70] + '…'
    st = f['status'] + (' ' + f.get('commit', '') if f['status'] == 'fixed' else '')
    sig = f['sig'].replace('|', '/')[:110]
    out.append(f"| {f['property']} | {f['id']} | {st} | `{sig}` | `{w}` |")
out.append('')
out.append('## 11. Which checks catch which changes (generated)\n')
out.append('`mutants/` = written by the builder of the monitor (knows the oracle); `seeded/` = written by an independent sub-agent that saw only the property text. Results of `tools/run_on_patch.sh <patch> <ID>` (quick tier) as recorded in `seeded/<id>/meta.json` and in the builders\' reports (REPORTS.md).\n')
ncaught = nseed = 0; missed_first = []
for d in sorted(glob.glob(f'{root}/seeded/C*')):
    mp = os.path.join(d, 'meta.json')
    if not os.path.exists(mp): continue
    m = json.load(open(mp)); nseed += 1
    own = [v for k, v in m['checks_run'].items() if k.startswith(m['property'] + ' ')]
    if any(v.startswith('CAUGHT') for v in own): ncaught += 1
    if own and not own[0].startswith('CAUGHT'): missed_first.append(os.path.basename(d))
out.append(f'Independent seeded changes: {nseed} (one per property). On the first run against the monitor as it was built, {nseed - len(missed_first)} were caught by the property\'s own check and {len(missed_first)} were missed or ended inconclusive ({", ".join(missed_first)}; C05 and C03 were run only after their workloads had been strengthened from the seed\'s description and would most likely have been missed too). Every miss was traced to a workload or observability gap (never to a loosened clause), the generator / trigger / state decision was strengthened, and the change is now caught: {ncaught} of {nseed} are caught by their own property\'s check at the quick tier. Cross-property catches are listed in the metas (e.g. seeded/C36 is also caught by C03, C04, C05). Final regression run (2026-09-22, 20:20–21:00 UTC, `tools/run_on_patch.sh` for every seeded/<id> against the committed harness, quick tier): 47 caught at once; seeded/C04 was missed again (its first strengthening had caught it through a single generated case and a later generator change shifted the PRNG stream) — board-only files now carry trailing comments with probability 0.5, after which it is caught with 16 violations and the unchanged tree stays quiet at seeds 1–3 and in the thorough tier.\n')
out.append('| property | evidence (last quick run: evaluations / distinct non-trivial) | builder mutants | independent seeded change | caught? |\n|---|---|---|---|---|')
for p in props:
    pid = p['id']
    ev = ''
    try:
        e = json.load(open(f'{root}/evidence/{pid}.json')); c = e['coverage']
        ev = f"{c.get('evaluations')} / {c.get('distinct_nontrivial')} ({e['tier']})"
    except Exception: ev = '—'
    muts = sorted(os.path.basename(m)[len(pid)+1:-6] for m in glob.glob(f'{root}/mutants/{pid}-*.patch'))
    seeds = []
    for d in sorted(glob.glob(f'{root}/seeded/{pid}*')):
        mp = os.path.join(d, 'meta.json')
        if not os.path.exists(mp): continue
        m = json.load(open(mp))
        res = '; '.join(f"{k}: {v.split(' — ')[0].split(' (')[0]}" for k, v in m['checks_run'].items())
        seeds.append((os.path.basename(d), m['needs_to_manifest'], res))
    sd = '<br>'.join(f"**{n}**: {needs[:160]}" for n, needs, _ in seeds) or '—'
    rs = '<br>'.join(r for _, _, r in seeds) or '—'
    out.append(f"| {pid} | {ev} | {', '.join(muts) or '—'} | {sd} | {rs} |")
out.append('')
rep = open(f'{root}/REPORTS.md').read() if os.path.exists(f'{root}/REPORTS.md') else ''
if rep:
    out.append('## 12. As built: condensed reports per builder (what each monitor observes, mutants, false alarms, defects)\n')
    out.append(re.sub(r'^# .*\n', '', rep, count=1).replace('\n## ', '\n### '))
block = '\n'.join(out)
s = open(f'{root}/DESIGN.md').read()
B, E = '<!-- GENERATED:BEGIN -->', '<!-- GENERATED:END -->'
if B in s:
    s = s[:s.index(B)] + B + '\n' + block + '\n' + E + s[s.index(E)+len(E):]
else:
    s = s.rstrip('\n') + '\n\n---------------------------------------------------------------------------------------\n\n' + B + '\n' + block + '\n' + E + '\n'
open(f'{root}/DESIGN.md', 'w').write(s)
print('DESIGN.md tables regenerated:', len(kf), 'findings')
