#!/bin/bash
# tools/verify_seed_demo.sh <name> [run-regex]  — light confirmation: demo passes on /repo HEAD, fails with patch.diff, build ok.
NAME="$1"; RUN="${2:-Seeded}"
D=/verif/seeded/$NAME
. /verif/env.sh
W=/tmp/lead/vd-$NAME; rm -rf "$W"; git -C /repo worktree prune
git -C /repo worktree add --detach "$W" HEAD -q || exit 3
trap 'git -C /repo worktree remove --force "$W" >/dev/null 2>&1' EXIT
cd "$W"; cp -r "$D/demo/." .
PK=$(cd "$D/demo" && find . -name '*.go' -exec dirname {} \; | sort -u | sed 's|$|/|' | tr '\n' ' ')
r1=$(go test -vet=off -count=1 -timeout 60m -run "$RUN" $PK 2>&1 | grep -E "^(ok|FAIL|--- FAIL)" | head -2 | tr '\n' ' ')
git apply "$D/patch.diff" || { echo "$NAME PATCH DOES NOT APPLY"; exit 3; }
go build ./... || { echo "$NAME BUILD FAILS"; exit 3; }
r2=$(go test -vet=off -count=1 -timeout 60m -run "$RUN" $PK 2>&1 | grep -E "^(ok|FAIL|--- FAIL)" | head -2 | tr '\n' ' ')
echo "$NAME | without: $r1 | with: $r2"
