#!/bin/bash
# tools/run_on_patch.sh <patch.diff> <ID> [tier]   — run a check against /repo HEAD + patch
# in a scratch worktree (does not touch /repo's working tree). Prints the VIOLATION lines.
# Exit 0 = the check fired (caught), 1 = silent (missed), 3 = patch/build problem.
set -u
PATCH=$(readlink -f "$1"); ID="$2"; TIER="${3:-quick}"
. /verif/env.sh
W=${SCRATCH:-/tmp/lead-patch-$$}
mkdir -p "$W/root"
git -C /repo worktree add --detach "$W/wt" HEAD -q || exit 3
cleanup() { git -C /repo worktree remove --force "$W/wt" >/dev/null 2>&1; rm -rf "$W"; }
trap cleanup EXIT
( cd "$W/wt" && git apply "$PATCH" ) || { echo "PATCH DOES NOT APPLY"; exit 3; }
sed "s|=> /repo|=> $W/wt|" ${HARNESS:-/verif/harness}/go.mod > "$W/go.mod"; cp ${HARNESS:-/verif/harness}/go.sum "$W/go.sum"
cp /verif/known_findings.json "$W/root/"; cp /verif/properties.jsonl "$W/root/" 2>/dev/null
RACE=""; BIN="$W/vd"
( cd ${HARNESS:-/verif/harness} && go build -tags verif -modfile="$W/go.mod" -o "$W/vd" ./cmd/vd ) || { echo "BUILD FAILED"; exit 3; }
for need in $("$W/vd" needs "$ID"); do
  case "$need" in
    race) ( cd ${HARNESS:-/verif/harness} && go build -race -tags verif -modfile="$W/go.mod" -o "$W/vd-race" ./cmd/vd ) || exit 3; BIN="$W/vd-race" ;;
    d2) mkdir -p "$W/root/bin"; ( cd "$W/wt" && go build -tags verif -o "$W/root/bin/d2" . ) || exit 3 ;;
    tools) mkdir -p "$W/root/bin"; ( cd ${HARNESS:-/verif/harness} && go build -tags verif -modfile="$W/go.mod" -o "$W/root/bin/" ./tools/... ) || exit 3 ;;
  esac
done
export VERIF_ROOT="$W/root" VERIF_REPO="$W/wt" GORACE="halt_on_error=0 log_path=$W/root/replays/race-$ID"
mkdir -p "$W/root/replays"
"$BIN" run "$ID" "$TIER" > "$W/out.txt" 2> "$W/err.txt"; rc=$?
grep -E "^(VIOLATION|KNOWN-FINDING|INCONCLUSIVE)|clause=" "$W/out.txt" | head -12
tail -1 "$W/err.txt"
if [ $rc -eq 1 ]; then echo "CAUGHT ($ID, rc=1)"; exit 0; fi
echo "MISSED ($ID, rc=$rc)"; exit 1
