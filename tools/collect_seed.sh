#!/bin/bash
# tools/collect_seed.sh <ID> <worktree> [name]  — store a sub-agent's seeded break under /verif/seeded/<name>/
set -e
ID="$1"; WT="$2"; NAME="${3:-$ID}"
D=/verif/seeded/$NAME; mkdir -p "$D"
cd "$WT"
# demonstration = untracked files (excluding SEEDED.md); source change = tracked modifications
git diff > "$D/patch.diff"
mkdir -p "$D/demo"
git ls-files --others --exclude-standard | grep '\.go$' | while read f; do mkdir -p "$D/demo/$(dirname "$f")"; cp "$f" "$D/demo/$f"; done
cp SEEDED.md "$D/SEEDED.md" 2>/dev/null || true
echo "stored $D: $(wc -l < "$D/patch.diff") patch lines; demo files: $(cd "$D/demo" && find . -type f | tr '\n' ' ')"
