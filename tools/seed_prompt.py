#!/usr/bin/env python3
# tools/seed_prompt.py <ID> <worktree>  — print the prompt for an independent seeded-break sub-agent
import json, sys
pid, wt = sys.argv[1], sys.argv[2]
tpl = open('/verif/seeded/PROMPT_TEMPLATE.md').read()
tpl = tpl[tpl.index('You are a Go engineer'):]
for line in open('/verif/properties.jsonl'):
    p = json.loads(line)
    if p['id'] == pid:
        out = (tpl.replace('{WT}', wt).replace('{ID}', pid).replace('{TITLE}', p['title'])
               .replace('{STATEMENT}', p['statement']).replace('{QUANTIFIER}', p['quantifier']['text']))
        print(out)
        break
