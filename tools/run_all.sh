#!/bin/bash
# tools/run_all.sh [tier] [ids...]  — run checks sequentially, summarise exit codes (VERIF_SEED honoured)
cd /verif
TIER="${1:-quick}"; shift
IDS="$@"; [ -z "$IDS" ] && IDS=$(jq -r '.checks[].property_id' MANIFEST.json)
mkdir -p /tmp/lead/runall
for id in $IDS; do
  s=$(date +%s)
  ./check $id $TIER > /tmp/lead/runall/$id.$TIER.log 2>&1; rc=$?
  e=$(( $(date +%s) - s ))
  echo "$id rc=$rc ${e}s $(grep -c '^KNOWN-FINDING' /tmp/lead/runall/$id.$TIER.log) known $(grep -c '^VIOLATION' /tmp/lead/runall/$id.$TIER.log) viol $(grep -o 'evaluations=[0-9]* distinct_nontrivial=[0-9]*' /tmp/lead/runall/$id.$TIER.log | tail -1)"
done
