#!/usr/bin/env python3
# tools/seed_meta.py <name> <property> <key>=<result> [...] [--note text]  — write/merge seeded/<name>/meta.json
import json, os, re, sys
name, prop = sys.argv[1], sys.argv[2]
d = f'/verif/seeded/{name}'
mp = f'{d}/meta.json'
m = json.load(open(mp)) if os.path.exists(mp) else {}
sd = open(f'{d}/SEEDED.md').read() if os.path.exists(f'{d}/SEEDED.md') else ''
title = next((l.lstrip('# ').strip() for l in sd.split('\n') if l.startswith('#')), name)
needs = ''
mm = re.search(r'##\s*What is needed[^\n]*\n(.*?)(\n## |\Z)', sd, re.S)
if mm:
    needs = re.sub(r'\s+', ' ', mm.group(1)).strip()[:600]
m.setdefault('property', prop)
m.setdefault('breaks', title)
m.setdefault('needs_to_manifest', needs)
m.setdefault('author', 'independent sub-agent given only the property text and a private worktree')
m.setdefault('lead_verification', '')
m.setdefault('checks_run', {})
m.setdefault('notes', '')
args = sys.argv[3:]
while args:
    a = args.pop(0)
    if a == '--note': m['notes'] = (m['notes'] + ' ' + args.pop(0)).strip()
    elif a == '--verified': m['lead_verification'] = args.pop(0)
    elif '=' in a:
        k, v = a.split('=', 1); m['checks_run'][k] = v
json.dump(m, open(mp, 'w'), indent=1)
print('meta', name, m['checks_run'])
