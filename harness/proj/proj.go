// Package proj computes π(g): a canonical, pointer-free and range-free projection of a
// compiled d2graph.Graph (boards, objects, edges, attributes, config), used by the
// metamorphic monitors to compare two compilations.
package proj

import (
	"encoding/json"
	"fmt"
	"sort"
	"strings"

	"oss.terrastruct.com/d2/d2graph"
	"oss.terrastruct.com/d2/d2target"
)

type Obj struct {
	AbsID    string         `json:"abs_id"`
	ID       string         `json:"id"`
	IDVal    string         `json:"id_val"`
	Parent   string         `json:"parent"`
	Attrs    map[string]any `json:"attrs"`
	Near     string         `json:"near,omitempty"`
	Class    any            `json:"class,omitempty"`
	SQLTable any            `json:"sql_table,omitempty"`
	Geo      *Geo           `json:"geo,omitempty"`
}

type Geo struct {
	X, Y, W, H    float64
	LabelPosition string `json:",omitempty"`
	IconPosition  string `json:",omitempty"`
	ZIndex        int
}

type Edge struct {
	AbsID    string         `json:"abs_id"`
	Src      string         `json:"src"`
	Dst      string         `json:"dst"`
	SrcArrow bool           `json:"src_arrow"`
	DstArrow bool           `json:"dst_arrow"`
	Index    int            `json:"index"`
	Attrs    map[string]any `json:"attrs"`
	SrcHead  map[string]any `json:"src_arrowhead,omitempty"`
	DstHead  map[string]any `json:"dst_arrowhead,omitempty"`
	Route    [][2]float64   `json:"route,omitempty"`
	Extra    map[string]any `json:"extra,omitempty"`
}

type Board struct {
	Name         string   `json:"name"`
	IsFolderOnly bool     `json:"is_folder_only"`
	RootAttrs    map[string]any `json:"root_attrs"`
	Objects      []Obj    `json:"objects"`
	Edges        []Edge   `json:"edges"`
	Layers       []*Board `json:"layers,omitempty"`
	Scenarios    []*Board `json:"scenarios,omitempty"`
	Steps        []*Board `json:"steps,omitempty"`
	Legend       any      `json:"legend,omitempty"`
}

type Opts struct {
	Geometry bool // include boxes, routes, label positions (π⁺)
	NoDims   bool // drop labelDimensions (differs before/after SetDimensions)
}

func attrs(a *d2graph.Attributes, o Opts) (map[string]any, string) {
	b, err := json.Marshal(a)
	if err != nil {
		return map[string]any{"marshal_error": err.Error()}, ""
	}
	var m map[string]any
	json.Unmarshal(b, &m)
	delete(m, "near_key")
	if o.NoDims {
		delete(m, "labelDimensions")
	}
	near := ""
	if a.NearKey != nil {
		var parts []string
		for _, p := range a.NearKey.Path {
			if p != nil && p.Unbox() != nil {
				parts = append(parts, p.Unbox().ScalarString())
			} else {
				parts = append(parts, "<nil>")
			}
		}
		near = strings.Join(parts, "\x1f")
		if near == "" {
			near = "<empty>"
		}
	}
	return m, near
}

func Object(o *d2graph.Object, op Opts) Obj {
	a, near := attrs(&o.Attributes, op)
	po := Obj{AbsID: o.AbsID(), ID: o.ID, IDVal: o.IDVal, Attrs: a, Near: near}
	if o.Parent != nil {
		po.Parent = o.Parent.AbsID()
	}
	if o.Class != nil {
		po.Class = jsonAny(o.Class)
	}
	if o.SQLTable != nil {
		po.SQLTable = jsonAny(o.SQLTable)
	}
	if op.Geometry {
		g := &Geo{ZIndex: o.ZIndex}
		if o.Box != nil && o.TopLeft != nil {
			g.X, g.Y, g.W, g.H = o.TopLeft.X, o.TopLeft.Y, o.Width, o.Height
		}
		if o.LabelPosition != nil {
			g.LabelPosition = *o.LabelPosition
		}
		if o.IconPosition != nil {
			g.IconPosition = *o.IconPosition
		}
		po.Geo = g
	}
	return po
}

func jsonAny(v any) any {
	b, _ := json.Marshal(v)
	var x any
	json.Unmarshal(b, &x)
	return x
}

func EdgeOf(e *d2graph.Edge, op Opts) Edge {
	a, _ := attrs(&e.Attributes, op)
	pe := Edge{AbsID: e.AbsID(), SrcArrow: e.SrcArrow, DstArrow: e.DstArrow, Index: e.Index, Attrs: a}
	if e.Src != nil {
		pe.Src = e.Src.AbsID()
	}
	if e.Dst != nil {
		pe.Dst = e.Dst.AbsID()
	}
	if e.SrcArrowhead != nil {
		pe.SrcHead, _ = attrs(e.SrcArrowhead, op)
	}
	if e.DstArrowhead != nil {
		pe.DstHead, _ = attrs(e.DstArrowhead, op)
	}
	if op.Geometry {
		for _, p := range e.Route {
			pe.Route = append(pe.Route, [2]float64{p.X, p.Y})
		}
		pe.Extra = map[string]any{"isCurve": e.IsCurve, "zIndex": e.ZIndex}
		if e.LabelPosition != nil {
			pe.Extra["labelPosition"] = *e.LabelPosition
		}
		if e.LabelPercentage != nil {
			pe.Extra["labelPercentage"] = *e.LabelPercentage
		}
		if e.SrcTableColumnIndex != nil {
			pe.Extra["srcCol"] = *e.SrcTableColumnIndex
		}
		if e.DstTableColumnIndex != nil {
			pe.Extra["dstCol"] = *e.DstTableColumnIndex
		}
	}
	return pe
}

// Graph projects a board and, recursively, its nested boards.
func Graph(g *d2graph.Graph, op Opts) *Board {
	if g == nil {
		return nil
	}
	b := &Board{Name: g.Name, IsFolderOnly: g.IsFolderOnly}
	if g.Root != nil {
		b.RootAttrs, _ = attrs(&g.Root.Attributes, op)
	}
	for _, o := range g.Objects {
		b.Objects = append(b.Objects, Object(o, op))
	}
	for _, e := range g.Edges {
		b.Edges = append(b.Edges, EdgeOf(e, op))
	}
	if g.Legend != nil {
		l := map[string]any{"label": g.Legend.Label}
		var lo []Obj
		for _, o := range g.Legend.Objects {
			lo = append(lo, Object(o, op))
		}
		var le []Edge
		for _, e := range g.Legend.Edges {
			le = append(le, EdgeOf(e, op))
		}
		l["objects"], l["edges"] = lo, le
		b.Legend = l
	}
	for _, x := range g.Layers {
		b.Layers = append(b.Layers, Graph(x, op))
	}
	for _, x := range g.Scenarios {
		b.Scenarios = append(b.Scenarios, Graph(x, op))
	}
	for _, x := range g.Steps {
		b.Steps = append(b.Steps, Graph(x, op))
	}
	return b
}

// Sorted returns a copy whose objects and edges are sorted (multiset comparison).
func (b *Board) Sorted() *Board {
	if b == nil {
		return nil
	}
	c := *b
	c.Objects = append([]Obj{}, b.Objects...)
	c.Edges = append([]Edge{}, b.Edges...)
	sort.SliceStable(c.Objects, func(i, j int) bool { return c.Objects[i].AbsID < c.Objects[j].AbsID })
	sort.SliceStable(c.Edges, func(i, j int) bool { return c.Edges[i].AbsID < c.Edges[j].AbsID })
	c.Layers, c.Scenarios, c.Steps = nil, nil, nil
	for _, x := range b.Layers {
		c.Layers = append(c.Layers, x.Sorted())
	}
	for _, x := range b.Scenarios {
		c.Scenarios = append(c.Scenarios, x.Sorted())
	}
	for _, x := range b.Steps {
		c.Steps = append(c.Steps, x.Sorted())
	}
	return &c
}

// String renders the projection canonically (indented JSON; map keys sorted by encoding/json).
func (b *Board) String() string {
	if b == nil {
		return "null"
	}
	x, _ := json.MarshalIndent(b, "", " ")
	return string(x)
}

// Config projects the compiled configuration.
func Config(c *d2target.Config) string {
	if c == nil {
		return "null"
	}
	x, _ := json.MarshalIndent(c, "", " ")
	return string(x)
}

// Diff returns a short description of the first differing lines of two renderings.
func Diff(a, b string) string {
	if a == b {
		return ""
	}
	la, lb := strings.Split(a, "\n"), strings.Split(b, "\n")
	i := 0
	for i < len(la) && i < len(lb) && la[i] == lb[i] {
		i++
	}
	lo := i - 6
	if lo < 0 {
		lo = 0
	}
	var sb strings.Builder
	fmt.Fprintf(&sb, "first difference at line %d\n", i+1)
	for k := lo; k < i; k++ {
		sb.WriteString("   " + la[k] + "\n")
	}
	for k := i; k < i+6 && k < len(la); k++ {
		sb.WriteString(" - " + la[k] + "\n")
	}
	for k := i; k < i+6 && k < len(lb); k++ {
		sb.WriteString(" + " + lb[k] + "\n")
	}
	return sb.String()
}

// Walk calls f for the board and all nested boards with their board path
// ("root", "root.layers.x", ...).
func Walk(g *d2graph.Graph, f func(path string, g *d2graph.Graph)) {
	var rec func(p string, g *d2graph.Graph)
	rec = func(p string, g *d2graph.Graph) {
		f(p, g)
		for _, x := range g.Layers {
			rec(p+".layers."+x.Name, x)
		}
		for _, x := range g.Scenarios {
			rec(p+".scenarios."+x.Name, x)
		}
		for _, x := range g.Steps {
			rec(p+".steps."+x.Name, x)
		}
	}
	rec("root", g)
}
