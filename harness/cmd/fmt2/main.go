package main

import (
	"fmt"
	"os"
	"strings"

	"oss.terrastruct.com/d2/d2ast"
	"oss.terrastruct.com/d2/d2format"
	"oss.terrastruct.com/d2/d2parser"
)

func main() {
	for _, s := range os.Args[1:] {
		m, err := d2parser.Parse("x", strings.NewReader(s), nil)
		t1 := d2format.Format(m)
		m1, err1 := d2parser.Parse("x", strings.NewReader(t1), nil)
		t2 := d2format.Format(m1)
		fmt.Printf("in  %q err=%v\nf1  %q err=%v\nf2  %q\n", s, err, t1, err1, t2)
		d2ast.Walk(m, func(n d2ast.Node) bool {
			if n != nil { r := n.GetRange(); fmt.Printf("   %T %v - %v\n", n, r.Start, r.End) }
			return true
		})
	}
}
