package main

import (
	"fmt"
	"regexp"
	"sort"
	"strings"

	"verif/gen"

	"oss.terrastruct.com/d2/d2compiler"
)

func main() {
	re := regexp.MustCompile(`^[^ ]+ `)
	num := regexp.MustCompile(`"[^"]*"|[0-9]+`)
	for name, prof := range map[string]gen.Opts{"core": gen.ProfileCore, "lang": gen.ProfileLang} {
		r := gen.New(1)
		errs := map[string]int{}
		ok := 0
		for i := 0; i < 2000; i++ {
			s := gen.Program(r.Sub(i), prof)
			func() {
				defer func() { recover() }()
				_, _, err := d2compiler.Compile("x.d2", strings.NewReader(s), nil)
				if err == nil {
					ok++
					return
				}
				first := strings.Split(err.Error(), "\n")[0]
				first = re.ReplaceAllString(first, "")
				first = num.ReplaceAllString(first, "N")
				errs[first]++
			}()
		}
		fmt.Println(name, "ok", ok, "/ 2000")
		type kv struct {
			k string
			v int
		}
		var l []kv
		for k, v := range errs {
			l = append(l, kv{k, v})
		}
		sort.Slice(l, func(i, j int) bool { return l[i].v > l[j].v })
		for i, e := range l {
			if i > 25 {
				break
			}
			fmt.Println("  ", e.v, e.k)
		}
	}
}
