// compile1 compiles the D2 file given as argument with d2compiler.Compile and reports
// errors/panics (triage helper).
package main

import (
	"fmt"
	"os"
	"runtime/debug"
	"strings"

	"oss.terrastruct.com/d2/d2compiler"
)

func main() {
	b, _ := os.ReadFile(os.Args[1])
	defer func() {
		if e := recover(); e != nil {
			fmt.Println("PANIC:", e)
			st := strings.Split(string(debug.Stack()), "\n")
			for _, l := range st {
				if strings.Contains(l, "terrastruct") {
					fmt.Println(l)
				}
			}
			os.Exit(2)
		}
	}()
	g, _, err := d2compiler.Compile("x.d2", strings.NewReader(string(b)), nil)
	if err != nil {
		fmt.Println("ERR:", err)
		os.Exit(1)
	}
	fmt.Println("OK objects:", len(g.Objects), "edges:", len(g.Edges))
}
