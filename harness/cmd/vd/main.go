// vd is the driver+worker binary of the runtime-monitoring harness.
//
//	vd run <ID> <quick|thorough>      driver (VERIF_SEED, VERIF_ROOT)
//	vd worker <ID>                    worker subprocess
//	vd replay <ID> <file>             re-execute a recorded case
//	vd manifest                       print MANIFEST.json from the registered checks
//	vd list
package main

import (
	"fmt"
	"os"
	"strconv"

	_ "verif/mon"
	"verif/run"
)

func main() {
	if len(os.Args) < 2 {
		fmt.Fprintln(os.Stderr, "usage: vd run|worker|replay|manifest|list ...")
		os.Exit(3)
	}
	root := os.Getenv("VERIF_ROOT")
	if root == "" {
		root = "/verif"
	}
	seed := int64(1)
	if s := os.Getenv("VERIF_SEED"); s != "" {
		if n, err := strconv.ParseInt(s, 10, 64); err == nil {
			seed = n
		}
	}
	switch os.Args[1] {
	case "run":
		tier := "quick"
		if len(os.Args) > 3 {
			tier = os.Args[3]
		}
		os.Exit(run.Main(os.Args[2], tier, seed, root))
	case "worker":
		run.WorkerMain(os.Args[2])
	case "replay":
		os.Exit(run.ReplayMain(os.Args[2], os.Args[3]))
	case "shrink":
		os.Exit(run.ShrinkMain(os.Args[2], os.Args[3]))
	case "manifest":
		run.PrintManifest(root)
	case "needs":
		if c := run.Lookup(os.Args[2]); c != nil {
			for _, n := range c.NeedsList() {
				fmt.Println(n)
			}
		}
	case "list":
		for _, c := range run.All() {
			fmt.Println(c.ID, c.Title)
		}
	default:
		fmt.Fprintln(os.Stderr, "unknown command")
		os.Exit(3)
	}
}
