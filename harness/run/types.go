// Package run is the execution substrate: a driver that generates a fixed,
// seed-determined case list and farms it to crash-isolated worker subprocesses,
// CPU-time based hang detection, violation signatures / known findings, replay
// files and the evidence writer.
package run

import (
	"encoding/json"
	"sort"
	"sync"
)

// Case is one execution handed to a worker. In is check specific.
type Case struct {
	ID   string          `json:"id"`
	Kind string          `json:"kind,omitempty"`
	In   json.RawMessage `json:"in"`
}

// Violation is one refuted clause.
//   - Clause: the monitor clause, e.g. "C04.pi-differs".
//   - Sig:    stable signature used for known-finding matching (clause + trigger /
//     innermost d2 frame); never contains the raw input.
//   - Msg:    human readable detail.
type Violation struct {
	Clause string `json:"clause"`
	Sig    string `json:"sig"`
	Msg    string `json:"msg"`
}

// Result is what a worker reports for one case.
type Result struct {
	ID           string         `json:"id"`
	Violations   []Violation    `json:"violations,omitempty"`
	Nontrivial   bool           `json:"nontrivial,omitempty"`
	Digest       string         `json:"digest,omitempty"` // distinctness key; default sha256(In)
	Feat         map[string]int `json:"feat,omitempty"`   // counters summed into evidence
	Sample       any            `json:"sample,omitempty"` // compact display of the case
	Inconclusive string         `json:"inconclusive,omitempty"`
	CrashSkipped string         `json:"crash_skipped,omitempty"` // panic in a check that does not own totality
	// Obs carries per-case observations for a driver-side Post step (e.g. run-to-run
	// determinism across worker processes).
	Obs json.RawMessage `json:"obs,omitempty"`
}

func (r *Result) Viol(clause, sig, msg string) {
	if len(msg) > 4000 {
		msg = msg[:4000] + "…"
	}
	r.Violations = append(r.Violations, Violation{Clause: clause, Sig: sig, Msg: msg})
}

func (r *Result) Inc(k string) { r.Add(k, 1) }
func (r *Result) Add(k string, n int) {
	if r.Feat == nil {
		r.Feat = map[string]int{}
	}
	r.Feat[k] += n
}

// Check describes one property's workload and monitor.
type Check struct {
	ID    string
	Title string
	// manifest text
	Level     string // exploration | fault_enumeration | ...
	LevelText string
	LevelNote string
	Technique string
	DesignRef string
	Rule      string // how cases are generated and what makes one non-trivial

	Race bool // must run in the -race build
	// PanicIsViolation: a crash of the code under test refutes this property (totality
	// properties). Otherwise crashes are counted as skipped (they belong to the
	// totality property that owns that entry point).
	PanicIsViolation bool
	CPUBudget        float64 // CPU seconds one case may burn in its worker before it is a hang
	HangIsViolation  bool
	WallBudget       float64 // wall seconds for one case before the run is inconclusive
	Chunk            int     // cases sent to a worker at a time
	Workers          int     // 0 = GOMAXPROCS
	MinNontrivial    int     // below this the run is inconclusive
	WorkerEnv        []string
	Needs            []string // extra build artefacts: d2, d2race, tools

	// Gen emits the case list; pure function of (seed, tier).
	Gen func(seed int64, tier string, emit func(Case))
	// Exec runs one case in a worker process and judges it.
	Exec func(c Case) Result
	// Post runs in the driver over all results (optional).
	Post func(d *Driver, res []Result)
	// Custom, when set, replaces the worker machinery completely (checks that drive
	// external processes themselves). It must fill d.
	Custom func(d *Driver)
	// Extra assumptions to record in evidence.
	Assumptions []string
}

var (
	regMu    sync.Mutex
	registry = map[string]*Check{}
)

func Register(c *Check) {
	regMu.Lock()
	defer regMu.Unlock()
	if _, dup := registry[c.ID]; dup {
		panic("duplicate check " + c.ID)
	}
	if c.Level == "" {
		c.Level = "exploration"
	}
	if c.CPUBudget == 0 {
		c.CPUBudget = 60
	}
	if c.WallBudget == 0 {
		c.WallBudget = 600
	}
	if c.Chunk == 0 {
		c.Chunk = 16
	}
	if c.MinNontrivial == 0 {
		c.MinNontrivial = 2
	}
	registry[c.ID] = c
}

func Lookup(id string) *Check {
	regMu.Lock()
	defer regMu.Unlock()
	return registry[id]
}

func All() []*Check {
	regMu.Lock()
	defer regMu.Unlock()
	var out []*Check
	for _, c := range registry {
		out = append(out, c)
	}
	sort.Slice(out, func(i, j int) bool { return out[i].ID < out[j].ID })
	return out
}

// MkCase marshals v into a case.
func MkCase(id, kind string, v any) Case {
	b, err := json.Marshal(v)
	if err != nil {
		panic(err)
	}
	return Case{ID: id, Kind: kind, In: b}
}

// Decode unmarshals the case input.
func (c Case) Decode(v any) {
	if err := json.Unmarshal(c.In, v); err != nil {
		panic("harness: bad case input: " + err.Error())
	}
}

// Needs lists extra build artefacts a check requires ("race", "d2", "d2race", "tools").
func (c *Check) NeedsList() []string {
	out := append([]string{}, c.Needs...)
	if c.Race {
		out = append(out, "race")
	}
	return out
}
