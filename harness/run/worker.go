package run

import (
	"bufio"
	"encoding/json"
	"fmt"
	"os"
	"regexp"
	"runtime/debug"
	"strings"
)

type wireMsg struct {
	Begin  string  `json:"begin,omitempty"`
	Result *Result `json:"result,omitempty"`
}

// WorkerMain is `vd worker <ID>`: cases arrive as JSON lines on stdin, results leave
// as JSON lines on fd 3 (stdout/stderr stay free for whatever the code under test prints).
func WorkerMain(id string) {
	chk := Lookup(id)
	if chk == nil {
		fmt.Fprintln(os.Stderr, "unknown check", id)
		os.Exit(3)
	}
	out := os.NewFile(3, "results")
	if out == nil {
		fmt.Fprintln(os.Stderr, "worker: fd 3 missing")
		os.Exit(3)
	}
	w := bufio.NewWriter(out)
	enc := json.NewEncoder(w)
	in := bufio.NewReaderSize(os.Stdin, 1<<20)
	dec := json.NewDecoder(in)
	for {
		var c Case
		if err := dec.Decode(&c); err != nil {
			return
		}
		enc.Encode(wireMsg{Begin: c.ID})
		w.Flush()
		r := SafeExec(chk, c)
		enc.Encode(wireMsg{Result: &r})
		w.Flush()
	}
}

// SafeExec runs the check's Exec with panic recovery.
func SafeExec(chk *Check, c Case) (r Result) {
	defer func() {
		if e := recover(); e != nil {
			st := string(debug.Stack())
			sig, harness := PanicSig(fmt.Sprint(e), st)
			r = Result{ID: c.ID}
			msg := fmt.Sprintf("panic: %v\n%s", e, trimStack(st))
			if harness {
				r.Inconclusive = "harness panic: " + msg
				return
			}
			if chk.PanicIsViolation {
				r.Viol(chk.ID+".crash", sig, msg)
			} else {
				r.CrashSkipped = sig
			}
		}
	}()
	r = chk.Exec(c)
	r.ID = c.ID
	return r
}

var (
	reNum    = regexp.MustCompile(`[0-9]+`)
	reHex    = regexp.MustCompile(`0x[0-9a-f]+`)
	reFrame  = regexp.MustCompile(`^(oss\.terrastruct\.com/d2/[^\s(]+(?:\([^)]*\))?[^\s(]*)\(`)
	reGoFunc = regexp.MustCompile(`\.func[0-9.]+$`)
)

// PanicSig derives "panic:<message class>@<innermost d2 function>" from a panic value
// and a stack. harness=true when no d2 frame is on the stack before a harness frame.
func PanicSig(val, stack string) (sig string, harness bool) {
	fn := innermostD2Frame(stack)
	cls := msgClass(val)
	if fn == "" {
		return "panic:" + cls + "@<no-d2-frame>", true
	}
	return "panic:" + cls + "@" + fn, false
}

func msgClass(v string) string {
	v = strings.TrimSpace(v)
	switch {
	case strings.Contains(v, "nil pointer dereference"):
		return "nil-deref"
	case strings.Contains(v, "index out of range"):
		return "index-out-of-range"
	case strings.Contains(v, "slice bounds out of range"):
		return "slice-bounds"
	case strings.Contains(v, "stack overflow") || strings.Contains(v, "stack exceeds"):
		return "stack-overflow"
	case strings.Contains(v, "concurrent map"):
		return "concurrent-map"
	}
	v = reHex.ReplaceAllString(v, "X")
	v = reNum.ReplaceAllString(v, "N")
	if i := strings.IndexByte(v, '\n'); i >= 0 {
		v = v[:i]
	}
	if len(v) > 60 {
		v = v[:60]
	}
	return strings.ReplaceAll(v, " ", "_")
}

// innermostD2Frame returns the first function from oss.terrastruct.com/d2 in a
// goroutine stack dump (the frame nearest to the panic), or "" when a harness frame
// (module verif/) comes first.
func innermostD2Frame(stack string) string {
	for _, ln := range strings.Split(stack, "\n") {
		ln = strings.TrimSpace(ln)
		if strings.HasPrefix(ln, "verif/") && !strings.HasPrefix(ln, "verif/run.SafeExec") {
			// a harness frame before any d2 frame: the harness itself panicked,
			// unless it is merely the deferred recover plumbing.
			if strings.Contains(ln, "run.SafeExec.func") {
				continue
			}
			return ""
		}
		if m := reFrame.FindStringSubmatch(ln); m != nil {
			fn := strings.TrimPrefix(m[1], "oss.terrastruct.com/d2/")
			fn = reGoFunc.ReplaceAllString(fn, "")
			return fn
		}
	}
	return ""
}

func trimStack(st string) string {
	lines := strings.Split(st, "\n")
	var keep []string
	for i := 0; i < len(lines); i++ {
		if strings.Contains(lines[i], "oss.terrastruct.com/d2/") || strings.HasPrefix(lines[i], "verif/") {
			keep = append(keep, lines[i])
			if i+1 < len(lines) {
				keep = append(keep, lines[i+1])
				i++
			}
		}
		if len(keep) > 24 {
			break
		}
	}
	return strings.Join(keep, "\n")
}
