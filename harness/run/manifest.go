package run

import (
	"bufio"
	"encoding/json"
	"fmt"
	"os"
	"path/filepath"
	"strings"
)

// PrintManifest renders MANIFEST.json from the registered checks, hooks.json and
// not_applicable.json so that the manifest can never drift from what is built.
func PrintManifest(root string) {
	type lvl struct {
		Category  string `json:"category"`
		Text      string `json:"text"`
		DesignRef string `json:"design_ref,omitempty"`
	}
	type chk struct {
		PropertyID  string `json:"property_id"`
		QuickCmd    string `json:"quick_cmd"`
		ThoroughCmd string `json:"thorough_cmd"`
		Evidence    string `json:"evidence_file"`
		Replay      string `json:"replay_cmd_template"`
		Engine      string `json:"engine"`
		Level       lvl    `json:"level_claimed"`
		LevelNote   string `json:"level_note"`
		Technique   string `json:"technique"`
	}
	var hooks struct {
		SourceCommits []string `json:"source_commits"`
	}
	if b, err := os.ReadFile(filepath.Join(root, "hooks.json")); err == nil {
		json.Unmarshal(b, &hooks)
	}
	if hooks.SourceCommits == nil {
		hooks.SourceCommits = []string{}
	}
	na := map[string]string{}
	if b, err := os.ReadFile(filepath.Join(root, "not_applicable.json")); err == nil {
		json.Unmarshal(b, &na)
	}
	var checks []chk
	have := map[string]bool{}
	var ids []string
	for _, c := range All() {
		have[c.ID] = true
		ids = append(ids, c.ID)
		note := c.LevelNote
		if note == "" {
			note = "Trusted base: the Go toolchain, the harness generators/oracles in /verif/harness, and that the executions produced by the seed-determined workload are representative; nothing is claimed about inputs or schedules not executed."
		}
		checks = append(checks, chk{
			PropertyID:  c.ID,
			QuickCmd:    "./check " + c.ID + " quick",
			ThoroughCmd: "./check " + c.ID + " thorough",
			Evidence:    "/verif/evidence/" + c.ID + ".json",
			Replay:      "./check " + c.ID + " --replay {path}",
			Engine:      "vd",
			Level:       lvl{Category: c.Level, Text: c.LevelText, DesignRef: c.DesignRef},
			LevelNote:   note,
			Technique:   c.Technique,
		})
	}
	type naEntry struct {
		PropertyID string `json:"property_id"`
		Reason     string `json:"reason"`
	}
	nas := []naEntry{}
	if f, err := os.Open(filepath.Join(root, "properties.jsonl")); err == nil {
		sc := bufio.NewScanner(f)
		sc.Buffer(make([]byte, 1<<20), 1<<24)
		for sc.Scan() {
			var p struct {
				ID string `json:"id"`
			}
			if json.Unmarshal(sc.Bytes(), &p) == nil && p.ID != "" && !have[p.ID] {
				r := na[p.ID]
				if r == "" {
					r = "no runtime monitor has been built for this property yet (applicable in principle, see DESIGN.md §4); not claimed"
				}
				nas = append(nas, naEntry{p.ID, r})
			}
		}
		f.Close()
	}
	m := map[string]any{
		"version":   1,
		"setup_cmd": "./setup.sh",
		"hooks": map[string]any{
			"guard":            "verif",
			"enable":           "go build -tags verif (the ./check script builds the harness, which imports /repo through a replace directive, and the d2 CLI with -tags verif)",
			"baseline_off_cmd": "cd /repo && . /verif/env.sh && go test -vet=off -count=1 -timeout 25m ./...",
			"source_commits":   hooks.SourceCommits,
			"add_only":         true,
		},
		"engines": []map[string]any{{
			"name":              "vd",
			"path":              "/verif/harness",
			"serves_properties": ids,
			"kind_free_text":    "Go runtime-monitoring harness: seed-determined workload generators, crash-isolated worker subprocesses with CPU-time hang detection, per-property monitors (reference models, metamorphic relations, geometric/XML/font oracles, event-log checkers), Go race detector builds, fault/crash injection",
		}},
		"checks":         checks,
		"not_applicable": nas,
		"notes":          "Every check: `./check <ID> quick|thorough` rebuilds the harness against /repo's working tree (build tag verif), runs the workload, writes evidence/<ID>.json, exits 0 (held on what was observed; KNOWN-FINDING lines allowed), 1 (VIOLATION line with replay file) or 2 (INCONCLUSIVE: watchdog / nothing non-trivial observed). Known findings live in known_findings.json and are matched by violation signature (clause + call site / trigger), never by property.",
	}
	b, _ := json.MarshalIndent(m, "", " ")
	fmt.Println(strings.TrimSpace(string(b)))
}
