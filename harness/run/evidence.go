package run

import (
	"encoding/json"
	"os"
	"path/filepath"
	"sort"
	"time"
)

// WriteEvidence writes evidence/<ID>.json per EVIDENCE.schema.json.
func WriteEvidence(d *Driver, distinct, nNew int, inconclusive string) {
	cov := map[string]any{
		"evaluations":         d.Evaluations,
		"distinct_nontrivial": distinct,
		"rule":                d.Chk.Rule,
		"samples":             d.Samples,
		"observed":            d.Feat,
	}
	if len(d.Samples) == 0 {
		cov["samples"] = []any{"(no case executed)"}
	}
	if len(d.CrashSkipped) > 0 {
		cov["crashes_skipped_owned_by_totality_property"] = d.CrashSkipped
	}
	if len(d.Known) > 0 {
		cov["known_findings_hit"] = d.Known
	}
	if inconclusive != "" {
		cov["verdict"] = "inconclusive: " + inconclusive
	} else if nNew > 0 {
		cov["verdict"] = "violated"
		var sigs []string
		seen := map[string]bool{}
		for _, v := range d.Violations {
			if v.KnownID == "" && !seen[v.Violation.Sig] {
				seen[v.Violation.Sig] = true
				sigs = append(sigs, v.Violation.Sig)
			}
		}
		sort.Strings(sigs)
		cov["violation_signatures"] = sigs
	} else {
		cov["verdict"] = "held on what was observed"
	}
	for k, v := range d.Extra {
		cov[k] = v
	}
	ev := map[string]any{
		"property_id": d.Chk.ID,
		"tier":        d.Tier,
		"seed":        d.Seed,
		"level":       d.Chk.Level,
		"coverage":    cov,
		"assumptions": append([]string{"monitors judge only the executions this run produced"}, d.Chk.Assumptions...),
		"wall_s":      time.Since(d.Start).Seconds(),
		"violations":  nNew,
	}
	dir := filepath.Join(d.Root, "evidence")
	os.MkdirAll(dir, 0o755)
	b, _ := json.MarshalIndent(ev, "", " ")
	os.WriteFile(filepath.Join(dir, d.Chk.ID+".json"), append(b, '\n'), 0o644)
}
