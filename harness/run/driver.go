package run

import (
	"bufio"
	"crypto/sha256"
	"encoding/hex"
	"encoding/json"
	"fmt"
	"io"
	"os"
	"os/exec"
	"os/signal"
	"path/filepath"
	"runtime"
	"sort"
	"strconv"
	"strings"
	"sync"
	"sync/atomic"
	"syscall"
	"time"
)

// Driver holds the state of one check run.
type Driver struct {
	Chk   *Check
	Tier  string
	Seed  int64
	Root  string // /verif
	Self  string // path of this binary (for workers)
	Start time.Time

	mu            sync.Mutex
	Evaluations   int
	digests       map[string]bool
	Feat          map[string]int
	Samples       []any
	Violations    []Reported
	Known         map[string]int // known finding id -> hits
	Inconclusive  []string
	CrashSkipped  map[string]int
	Extra         map[string]any // extra coverage keys
	known         *KnownFile
	sigCount      map[string]int
	newViolations int
	interrupted   atomic.Bool
	planned       int
	replayN       int
	Results       []Result // kept only when Post != nil
}

type Reported struct {
	Case      Case
	Violation Violation
	Replay    string
	KnownID   string
}

func sha(b []byte) string {
	h := sha256.Sum256(b)
	return hex.EncodeToString(h[:8])
}

func (d *Driver) Logf(f string, a ...any) {
	fmt.Fprintf(os.Stderr, "[%s %s] "+f+"\n", append([]any{d.Chk.ID, d.Tier}, a...)...)
}

// Record folds one result into the evidence and reports violations.
func (d *Driver) Record(c Case, r Result) {
	d.mu.Lock()
	defer d.mu.Unlock()
	d.Evaluations++
	dg := r.Digest
	if dg == "" {
		dg = sha(c.In)
	}
	if r.Nontrivial {
		d.digests[dg] = true
	}
	for k, v := range r.Feat {
		d.Feat[k] += v
	}
	if r.CrashSkipped != "" {
		d.CrashSkipped[r.CrashSkipped]++
		if d.CrashSkipped[r.CrashSkipped] == 1 {
			// keep the witness so that the owner of the totality property can be told
			d.writeReplay(c, Violation{Clause: "crash-skipped", Sig: r.CrashSkipped, Msg: "crash of the code under test in a check that does not own totality of this entry point"}, fmt.Sprintf("skipped-%d", len(d.CrashSkipped)))
		}
	}
	if r.Inconclusive != "" {
		if len(d.Inconclusive) < 20 {
			d.Inconclusive = append(d.Inconclusive, c.ID+": "+r.Inconclusive)
		}
		d.Feat["inconclusive_cases"]++
	}
	if len(d.Samples) < 4 || (d.Evaluations%997 == 0 && len(d.Samples) < 8) {
		if r.Sample != nil {
			d.Samples = append(d.Samples, r.Sample)
		} else {
			var v any
			json.Unmarshal(c.In, &v)
			d.Samples = append(d.Samples, truncAny(v))
		}
	}
	for _, v := range r.Violations {
		d.report(c, v)
	}
	if d.Chk.Post != nil {
		r.ID = c.ID
		d.Results = append(d.Results, r)
	}
}

// ReportViolation is for Post/Custom steps.
func (d *Driver) ReportViolation(c Case, v Violation) {
	d.mu.Lock()
	defer d.mu.Unlock()
	d.report(c, v)
}

func (d *Driver) report(c Case, v Violation) {
	kid := d.known.Match(d.Chk.ID, v)
	rep := Reported{Case: c, Violation: v, KnownID: kid}
	if kid != "" {
		d.Known[kid]++
		if d.Known[kid] == 1 {
			fmt.Printf("KNOWN-FINDING: property=%s %s (%s)\n", d.Chk.ID, kid, v.Sig)
			rep.Replay = d.writeReplay(c, v, "known-"+kid)
			d.Violations = append(d.Violations, rep)
		}
		return
	}
	// de-duplicate output by signature: first 5 per signature get a replay file
	if d.sigCount == nil {
		d.sigCount = map[string]int{}
	}
	n := d.sigCount[v.Sig]
	d.sigCount[v.Sig]++
	d.newViolations++
	if n < maxReplays() {
		d.replayN++
		rep.Replay = d.writeReplay(c, v, fmt.Sprintf("v%03d", d.replayN))
		fmt.Printf("VIOLATION property=%s replay=%s\n", d.Chk.ID, rep.Replay)
		fmt.Printf("  clause=%s sig=%s\n  %s\n", v.Clause, v.Sig, strings.ReplaceAll(trunc(v.Msg, 1500), "\n", "\n  "))
		d.Violations = append(d.Violations, rep)
	} else if n < 50 {
		d.Violations = append(d.Violations, rep) // keep a bounded sample per signature
	}
}

func maxReplays() int {
	if v, err := strconv.Atoi(os.Getenv("VERIF_MAXREPLAY")); err == nil && v > 0 {
		return v
	}
	return 5
}

type ReplayFile struct {
	Property  string    `json:"property"`
	Tier      string    `json:"tier"`
	Seed      int64     `json:"seed"`
	Violation Violation `json:"violation"`
	Case      Case      `json:"case"`
}

func (d *Driver) writeReplay(c Case, v Violation, name string) string {
	dir := filepath.Join(d.Root, "replays", d.Chk.ID)
	os.MkdirAll(dir, 0o755)
	p := filepath.Join(dir, name+".json")
	b, _ := json.MarshalIndent(ReplayFile{Property: d.Chk.ID, Tier: d.Tier, Seed: d.Seed, Violation: v, Case: c}, "", " ")
	os.WriteFile(p, b, 0o644)
	return p
}

func trunc(s string, n int) string {
	if len(s) > n {
		return s[:n] + "…"
	}
	return s
}

func truncAny(v any) any {
	switch t := v.(type) {
	case string:
		return trunc(t, 600)
	case map[string]any:
		for k, x := range t {
			t[k] = truncAny(x)
		}
		return t
	case []any:
		if len(t) > 12 {
			t = t[:12]
		}
		for i := range t {
			t[i] = truncAny(t[i])
		}
		return t
	}
	return v
}

// Main is `vd run <ID> <tier>`: returns the process exit code.
func Main(id, tier string, seed int64, root string) int {
	chk := Lookup(id)
	if chk == nil {
		fmt.Fprintln(os.Stderr, "unknown check", id)
		return 3
	}
	self, _ := os.Executable()
	d := &Driver{Chk: chk, Tier: tier, Seed: seed, Root: root, Self: self, Start: time.Now(),
		digests: map[string]bool{}, Feat: map[string]int{}, Known: map[string]int{},
		CrashSkipped: map[string]int{}, Extra: map[string]any{}}
	d.known = LoadKnown(filepath.Join(root, "known_findings.json"))
	os.RemoveAll(filepath.Join(root, "replays", id))
	if chk.Custom != nil {
		chk.Custom(d)
	} else {
		d.runWorkers()
		if chk.Post != nil {
			sort.Slice(d.Results, func(i, j int) bool { return d.Results[i].ID < d.Results[j].ID })
			chk.Post(d, d.Results)
		}
	}
	if chk.Race {
		d.CollectRaces()
	}
	return d.Finish()
}

// Finish writes evidence and decides the exit code.
func (d *Driver) Finish() int {
	nNew := d.newViolations
	distinct := len(d.digests)
	if v, ok := d.Extra["distinct_nontrivial_override"].(int); ok {
		distinct = v
		delete(d.Extra, "distinct_nontrivial_override")
	}
	inconclusive := ""
	if distinct < d.Chk.MinNontrivial && nNew == 0 {
		inconclusive = fmt.Sprintf("only %d distinct non-trivial cases observed (need %d)", distinct, d.Chk.MinNontrivial)
	}
	if d.interrupted.Load() && nNew == 0 {
		inconclusive = fmt.Sprintf("run interrupted after %d of %d planned cases (no violation among the executed ones)", d.Evaluations, d.planned)
	}
	if len(d.Inconclusive) > 0 && nNew == 0 {
		inconclusive = "inconclusive cases: " + strings.Join(d.Inconclusive, "; ")
	}
	WriteEvidence(d, distinct, nNew, inconclusive)
	d.Logf("evaluations=%d distinct_nontrivial=%d violations=%d known=%d crash_skipped=%d wall=%.1fs",
		d.Evaluations, distinct, nNew, len(d.Known), len(d.CrashSkipped), time.Since(d.Start).Seconds())
	if nNew > 0 {
		return 1
	}
	if inconclusive != "" {
		fmt.Printf("INCONCLUSIVE property=%s reason=%s\n", d.Chk.ID, trunc(inconclusive, 800))
		return 2
	}
	return 0
}

// ---------------------------------------------------------------------------------
// worker pool

type workerProc struct {
	cmd    *exec.Cmd
	stdin  io.WriteCloser
	res    *bufio.Reader
	resF   *os.File
	errBuf *tailBuf
}

type tailBuf struct {
	mu sync.Mutex
	b  []byte
}

func (t *tailBuf) Write(p []byte) (int, error) {
	t.mu.Lock()
	defer t.mu.Unlock()
	t.b = append(t.b, p...)
	if len(t.b) > 1<<20 {
		// keep head (fatal error line + first goroutine) and tail
		t.b = append(t.b[:256<<10], t.b[len(t.b)-(256<<10):]...)
	}
	return len(p), nil
}
func (t *tailBuf) String() string { t.mu.Lock(); defer t.mu.Unlock(); return string(t.b) }

func (d *Driver) startWorker() (*workerProc, error) {
	pr, pw, err := os.Pipe()
	if err != nil {
		return nil, err
	}
	cmd := exec.Command(d.Self, "worker", d.Chk.ID)
	cmd.Env = append(os.Environ(), "VERIF_TIER="+d.Tier, fmt.Sprintf("VERIF_SEED=%d", d.Seed), "VERIF_ROOT="+d.Root, "GOTRACEBACK=all")
	cmd.Env = append(cmd.Env, d.Chk.WorkerEnv...)
	cmd.ExtraFiles = []*os.File{pw}
	eb := &tailBuf{}
	cmd.Stderr = eb
	cmd.Stdout = eb
	in, err := cmd.StdinPipe()
	if err != nil {
		return nil, err
	}
	if err := cmd.Start(); err != nil {
		return nil, err
	}
	pw.Close()
	return &workerProc{cmd: cmd, stdin: in, res: bufio.NewReaderSize(pr, 1<<20), resF: pr, errBuf: eb}, nil
}

func (w *workerProc) kill() {
	w.stdin.Close()
	w.cmd.Process.Kill()
	w.cmd.Wait()
	w.resF.Close()
}

func procCPU(pid int) float64 {
	b, err := os.ReadFile(fmt.Sprintf("/proc/%d/stat", pid))
	if err != nil {
		return -1
	}
	s := string(b)
	i := strings.LastIndexByte(s, ')')
	f := strings.Fields(s[i+1:])
	if len(f) < 14 {
		return -1
	}
	ut, _ := strconv.ParseFloat(f[11], 64)
	st, _ := strconv.ParseFloat(f[12], 64)
	return (ut + st) / 100.0
}

func (d *Driver) runWorkers() {
	chk := d.Chk
	var cases []Case
	chk.Gen(d.Seed, d.Tier, func(c Case) { cases = append(cases, c) })
	d.Logf("generated %d cases", len(cases))
	d.planned = len(cases)
	sigc := make(chan os.Signal, 1)
	signal.Notify(sigc, syscall.SIGTERM, syscall.SIGINT)
	go func() {
		<-sigc
		d.Logf("interrupted: finishing cases in flight and writing partial evidence")
		d.interrupted.Store(true)
	}()
	defer signal.Stop(sigc)
	nw := chk.Workers
	if nw == 0 {
		nw = runtime.GOMAXPROCS(0)
	}
	if nw > len(cases) {
		nw = len(cases)
	}
	if nw == 0 {
		return
	}
	chunks := make(chan []Case, len(cases)/chk.Chunk+2)
	for i := 0; i < len(cases); i += chk.Chunk {
		j := i + chk.Chunk
		if j > len(cases) {
			j = len(cases)
		}
		chunks <- cases[i:j]
	}
	close(chunks)
	var wg sync.WaitGroup
	for i := 0; i < nw; i++ {
		wg.Add(1)
		go func() {
			defer wg.Done()
			d.workerLoop(chunks)
		}()
	}
	wg.Wait()
}

func (d *Driver) workerLoop(chunks <-chan []Case) {
	var w *workerProc
	defer func() {
		if w != nil {
			w.kill()
		}
	}()
	for chunk := range chunks {
		if d.interrupted.Load() {
			continue // drain: the run was asked to stop (SIGTERM/SIGINT)
		}
		for len(chunk) > 0 {
			if w == nil {
				var err error
				w, err = d.startWorker()
				if err != nil {
					d.mu.Lock()
					d.Inconclusive = append(d.Inconclusive, "cannot start worker: "+err.Error())
					d.mu.Unlock()
					return
				}
			}
			done, died := d.runChunk(w, chunk)
			chunk = chunk[done:]
			if died {
				w.kill()
				w = nil
			}
		}
	}
}

// runChunk sends the chunk, reads results. Returns how many cases are settled and
// whether the worker must be replaced.
func (d *Driver) runChunk(w *workerProc, chunk []Case) (settled int, died bool) {
	go func() {
		enc := json.NewEncoder(w.stdin)
		for _, c := range chunk {
			if enc.Encode(c) != nil {
				return
			}
		}
	}()
	type line struct {
		m   wireMsg
		err error
	}
	lines := make(chan line, 4)
	stop := make(chan struct{})
	defer close(stop)
	go func() {
		for {
			b, err := w.res.ReadBytes('\n')
			var m wireMsg
			if err == nil {
				err = json.Unmarshal(b, &m)
			}
			select {
			case lines <- line{m, err}:
			case <-stop:
				return
			}
			if err != nil {
				return
			}
			if m.Result != nil && m.Result.ID == chunk[len(chunk)-1].ID {
				return
			}
		}
	}()
	tick := time.NewTicker(300 * time.Millisecond)
	defer tick.Stop()
	cur := -1
	var curStartCPU float64
	var curStartWall time.Time
	for settled < len(chunk) {
		select {
		case ln := <-lines:
			if ln.err != nil {
				// worker died
				w.cmd.Process.Kill()
				w.cmd.Wait()
				idx := settled
				c := chunk[idx]
				st := w.errBuf.String()
				r := Result{ID: c.ID}
				sig, harness := fatalSig(st)
				msg := "worker process died while executing this case\n" + trunc(headStack(st), 3000)
				if harness {
					r.Inconclusive = msg
				} else if d.Chk.PanicIsViolation {
					r.Viol(d.Chk.ID+".crash", sig, msg)
				} else {
					r.CrashSkipped = sig
				}
				d.Record(c, r)
				return settled + 1, true
			}
			if ln.m.Begin != "" {
				cur = settled
				curStartCPU = procCPU(w.cmd.Process.Pid)
				curStartWall = time.Now()
				continue
			}
			if ln.m.Result != nil {
				d.Record(chunk[settled], *ln.m.Result)
				settled++
				cur = -1
			}
		case <-tick.C:
			if cur < 0 {
				continue
			}
			cpu := procCPU(w.cmd.Process.Pid) - curStartCPU
			wall := time.Since(curStartWall).Seconds()
			if cpu > d.Chk.CPUBudget || wall > d.Chk.WallBudget {
				c := chunk[cur]
				w.cmd.Process.Signal(syscall.SIGQUIT)
				time.Sleep(500 * time.Millisecond)
				w.cmd.Process.Kill()
				w.cmd.Wait()
				r := Result{ID: c.ID}
				st := w.errBuf.String()
				if cpu > d.Chk.CPUBudget && d.Chk.HangIsViolation {
					fn := innermostD2FrameAny(st)
					r.Viol(d.Chk.ID+".hang", "hang:cpu-budget@"+fn, fmt.Sprintf("case burned %.1f CPU-s (budget %.1f) without finishing\n%s", cpu, d.Chk.CPUBudget, trunc(headStack(st), 3000)))
				} else if cpu > d.Chk.CPUBudget {
					r.CrashSkipped = "hang:cpu-budget"
				} else {
					r.Inconclusive = fmt.Sprintf("wall-clock watchdog fired after %.0fs (cpu %.1fs)", wall, cpu)
				}
				d.Record(c, r)
				return cur + 1, true
			}
		}
	}
	return settled, false
}

// fatalSig classifies a dead worker from its stderr.
func fatalSig(st string) (string, bool) {
	kind := "died"
	val := ""
	for _, ln := range strings.Split(st, "\n") {
		if strings.HasPrefix(ln, "fatal error: ") {
			kind, val = "fatal", strings.TrimPrefix(ln, "fatal error: ")
			break
		}
		if strings.HasPrefix(ln, "panic: ") {
			kind, val = "panic", strings.TrimPrefix(ln, "panic: ")
			break
		}
		if strings.HasPrefix(ln, "runtime: goroutine stack exceeds") {
			kind, val = "fatal", "stack overflow"
			break
		}
	}
	fn := innermostD2FrameAny(st)
	if fn == "" {
		return kind + ":" + msgClass(val) + "@<no-d2-frame>", true
	}
	return kind + ":" + msgClass(val) + "@" + fn, false
}

// innermostD2FrameAny finds the first d2 frame of the first goroutine that has one.
func innermostD2FrameAny(st string) string {
	for _, ln := range strings.Split(st, "\n") {
		ln = strings.TrimSpace(ln)
		if m := reFrame.FindStringSubmatch(ln); m != nil {
			fn := strings.TrimPrefix(m[1], "oss.terrastruct.com/d2/")
			return reGoFunc.ReplaceAllString(fn, "")
		}
	}
	return ""
}

func headStack(st string) string {
	i := strings.Index(st, "fatal error: ")
	if j := strings.Index(st, "panic: "); j >= 0 && (i < 0 || j < i) {
		i = j
	}
	if j := strings.Index(st, "runtime: goroutine stack exceeds"); j >= 0 && (i < 0 || j < i) {
		i = j
	}
	if j := strings.Index(st, "SIGQUIT"); j >= 0 && i < 0 {
		i = j
	}
	if i < 0 {
		i = 0
		if len(st) > 3000 {
			i = len(st) - 3000
		}
	}
	st = st[i:]
	// drop the repetitive middle of deep recursion dumps
	lines := strings.Split(st, "\n")
	if len(lines) > 60 {
		lines = append(lines[:40], append([]string{"..."}, lines[len(lines)-12:]...)...)
	}
	return strings.Join(lines, "\n")
}

// ReplayMain re-executes a replay file in this process.
func ReplayMain(id, path string) int {
	chk := Lookup(id)
	if chk == nil {
		fmt.Fprintln(os.Stderr, "unknown check", id)
		return 3
	}
	b, err := os.ReadFile(path)
	if err != nil {
		fmt.Fprintln(os.Stderr, err)
		return 3
	}
	var rf ReplayFile
	if err := json.Unmarshal(b, &rf); err != nil {
		fmt.Fprintln(os.Stderr, err)
		return 3
	}
	r := SafeExec(chk, rf.Case)
	out, _ := json.MarshalIndent(r, "", " ")
	fmt.Println(string(out))
	if len(r.Violations) > 0 {
		fmt.Printf("VIOLATION property=%s replay=%s\n", id, path)
		return 1
	}
	return 0
}
