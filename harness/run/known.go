package run

import (
	"encoding/json"
	"os"
	"strings"
)

// KnownFile is /verif/known_findings.json: genuine defects of terrastruct/d2 found by
// the monitors. status "open" entries turn a matching violation into a KNOWN-FINDING
// line; status "fixed" entries are a record only and suppress nothing. The file is
// never written at run time.
type KnownFile struct {
	Findings []KnownFinding `json:"findings"`
}

type KnownFinding struct {
	ID       string `json:"id"`
	Property string `json:"property"`
	Status   string `json:"status"` // open | fixed
	// Sig must equal the violation signature exactly (signatures name the clause and the
	// trigger / call site, never just the property), or, when it ends in '*', be a prefix.
	Sig     string `json:"sig"`
	Witness string `json:"witness,omitempty"`
	What    string `json:"what"`
	Commit  string `json:"commit,omitempty"`
	Line    string `json:"line,omitempty"` // the "fixed: property=<id> <commit> <what failed>" record
}

func LoadKnown(path string) *KnownFile {
	k := &KnownFile{}
	b, err := os.ReadFile(path)
	if err != nil {
		return k
	}
	json.Unmarshal(b, k)
	return k
}

func (k *KnownFile) Match(prop string, v Violation) string {
	if k == nil {
		return ""
	}
	for _, f := range k.Findings {
		if f.Status != "open" || f.Property != prop {
			continue
		}
		if f.Sig == v.Sig || (strings.HasSuffix(f.Sig, "*") && strings.HasPrefix(v.Sig, strings.TrimSuffix(f.Sig, "*"))) {
			return f.ID
		}
	}
	return ""
}
