package run

import (
	"encoding/json"
	"fmt"
	"os"
	"strings"
)

// ShrinkMain: `vd shrink <ID> <replay>`: ddmin over the "text" (string) or "b" (bytes)
// field of the recorded case under "a violation with the same signature still occurs".
func ShrinkMain(id, path string) int {
	chk := Lookup(id)
	b, err := os.ReadFile(path)
	if chk == nil || err != nil {
		fmt.Fprintln(os.Stderr, "shrink: bad args", err)
		return 3
	}
	var rf ReplayFile
	json.Unmarshal(b, &rf)
	var m map[string]json.RawMessage
	if json.Unmarshal(rf.Case.In, &m) != nil {
		fmt.Fprintln(os.Stderr, "shrink: case input is not an object")
		return 3
	}
	field, isBytes := "", false
	var cur string
	if raw, ok := m["text"]; ok {
		field = "text"
		json.Unmarshal(raw, &cur)
	} else if raw, ok := m["b"]; ok {
		field, isBytes = "b", true
		var bb []byte
		json.Unmarshal(raw, &bb)
		cur = string(bb)
	} else {
		fmt.Fprintln(os.Stderr, "shrink: no text/b field")
		return 3
	}
	mk := func(s string) Case {
		mm := map[string]json.RawMessage{}
		for k, v := range m {
			mm[k] = v
		}
		if isBytes {
			mm[field], _ = json.Marshal([]byte(s))
		} else {
			mm[field], _ = json.Marshal(s)
		}
		in, _ := json.Marshal(mm)
		return Case{ID: rf.Case.ID, Kind: rf.Case.Kind, In: in}
	}
	runs := 0
	still := func(s string) bool {
		runs++
		r := SafeExec(chk, mk(s))
		for _, v := range r.Violations {
			if v.Sig == rf.Violation.Sig {
				return true
			}
		}
		return false
	}
	if !still(cur) {
		fmt.Fprintln(os.Stderr, "shrink: does not reproduce in-process")
		return 2
	}
	cur = ddmin(cur, "\n", still)
	cur = ddmin(cur, "", still)
	fmt.Fprintf(os.Stderr, "shrink: %d executions\n", runs)
	rf.Case = mk(cur)
	out, _ := json.MarshalIndent(rf, "", " ")
	os.WriteFile(path+".min.json", out, 0o644)
	fmt.Printf("%q\n", cur)
	return 0
}

// ddmin removes chunks (split on sep; "" = runes) while the predicate holds.
func ddmin(s, sep string, still func(string) bool) string {
	var parts []string
	if sep == "" {
		for _, r := range s {
			parts = append(parts, string(r))
		}
		if strings.Join(parts, "") != s { // invalid utf-8: fall back to bytes
			parts = nil
			for i := 0; i < len(s); i++ {
				parts = append(parts, s[i:i+1])
			}
		}
	} else {
		parts = strings.SplitAfter(s, sep)
	}
	n := 2
	for len(parts) >= 2 {
		chunk := (len(parts) + n - 1) / n
		reduced := false
		for i := 0; i < len(parts); i += chunk {
			j := i + chunk
			if j > len(parts) {
				j = len(parts)
			}
			cand := append(append([]string{}, parts[:i]...), parts[j:]...)
			if still(strings.Join(cand, "")) {
				parts = cand
				if n > 2 {
					n--
				}
				reduced = true
				break
			}
		}
		if !reduced {
			if chunk == 1 {
				break
			}
			n *= 2
			if n > len(parts) {
				n = len(parts)
			}
		}
	}
	return strings.Join(parts, "")
}
