package run

import (
	"fmt"
	"os"
	"path/filepath"
	"sort"
	"strings"
)

// CollectRaces parses the race detector logs written by workers of a Race check
// (GORACE=log_path=<root>/replays/race-<ID>), de-duplicates reports by the pair of
// line-stripped stacks and reports every report that has a d2 frame as a violation.
func (d *Driver) CollectRaces() {
	files, _ := filepath.Glob(filepath.Join(d.Root, "replays", "race-"+d.Chk.ID+".*"))
	sort.Strings(files)
	total := 0
	seen := map[string]bool{}
	for _, f := range files {
		b, err := os.ReadFile(f)
		if err != nil {
			continue
		}
		blocks := strings.Split(string(b), "WARNING: DATA RACE")
		for _, blk := range blocks[1:] {
			total++
			if i := strings.Index(blk, "=================="); i >= 0 {
				blk = blk[:i]
			}
			var d2fns, allfns []string
			for _, ln := range strings.Split(blk, "\n") {
				// function lines of a race report are indented "pkg/path.(*T).method(args)";
				// file lines are indented deeper and contain ".go:"
				t := strings.TrimSpace(ln)
				if !strings.HasPrefix(ln, "  ") || strings.Contains(t, ".go:") || !strings.HasSuffix(t, ")") {
					continue
				}
				i := strings.LastIndex(t, "(")
				if i <= 0 || strings.ContainsAny(t[:i], " \t") {
					continue
				}
				fn := t[:i]
				allfns = append(allfns, fn)
				if strings.HasPrefix(fn, "oss.terrastruct.com/d2/") {
					d2fns = append(d2fns, strings.TrimPrefix(fn, "oss.terrastruct.com/d2/"))
				}
			}
			key := strings.Join(allfns, "|")
			if seen[key] {
				continue
			}
			seen[key] = true
			c := Case{ID: "race-" + filepath.Base(f)}
			if len(d2fns) == 0 {
				d.mu.Lock()
				d.Inconclusive = append(d.Inconclusive, "data race without d2 frames (harness race?): "+trunc(blk, 600))
				d.mu.Unlock()
				continue
			}
			// signature: first d2 frame of each of the two accesses (first two distinct)
			a := d2fns[0]
			bfn := a
			for _, x := range d2fns[1:] {
				if x != a {
					bfn = x
					break
				}
			}
			d.ReportViolation(c, Violation{Clause: d.Chk.ID + ".data-race", Sig: "race:" + reGoFunc.ReplaceAllString(a, "") + "~" + reGoFunc.ReplaceAllString(bfn, ""), Msg: "WARNING: DATA RACE" + trunc(blk, 3500)})
		}
	}
	d.mu.Lock()
	d.Extra["race_reports_total"] = total
	d.Extra["race_reports_distinct"] = len(seen)
	d.Extra["race_detector"] = fmt.Sprintf("go build -race; GORACE=halt_on_error=0 log_path=replays/race-%s; %d log files", d.Chk.ID, len(files))
	d.mu.Unlock()
}
