package mon

// Minimal WOFF 1.0 reader for C47: rebuilds the sfnt (TrueType/OpenType) byte stream from
// a WOFF container so that golang.org/x/image/font/sfnt can parse it. Independent of
// d2's lib/font (which only *writes* WOFF).

import (
	"bytes"
	"compress/zlib"
	"encoding/binary"
	"errors"
	"fmt"
	"io"
	"sort"
)

type c47WoffTable struct {
	tag      uint32
	offset   uint32
	compLen  uint32
	origLen  uint32
	checksum uint32
	data     []byte
}

// c47WoffToSfnt decodes a WOFF1 file. A plain sfnt is passed through unchanged.
func c47WoffToSfnt(b []byte) ([]byte, error) {
	if len(b) < 44 {
		return nil, errors.New("woff: short file")
	}
	if string(b[:4]) != "wOFF" {
		if sig := binary.BigEndian.Uint32(b); sig == 0x00010000 || string(b[:4]) == "OTTO" || string(b[:4]) == "true" {
			return b, nil
		}
		return nil, fmt.Errorf("woff: bad signature %q", b[:4])
	}
	be := binary.BigEndian
	flavor := be.Uint32(b[4:])
	length := be.Uint32(b[8:])
	num := int(be.Uint16(b[12:]))
	if int(length) != len(b) {
		return nil, fmt.Errorf("woff: header length %d != file length %d", length, len(b))
	}
	if 44+20*num > len(b) {
		return nil, errors.New("woff: table directory beyond end of file")
	}
	tabs := make([]c47WoffTable, num)
	for i := range tabs {
		e := b[44+20*i:]
		t := c47WoffTable{tag: be.Uint32(e), offset: be.Uint32(e[4:]), compLen: be.Uint32(e[8:]), origLen: be.Uint32(e[12:]), checksum: be.Uint32(e[16:])}
		if uint64(t.offset)+uint64(t.compLen) > uint64(len(b)) {
			return nil, fmt.Errorf("woff: table %q beyond end of file", c47Tag(t.tag))
		}
		raw := b[t.offset : t.offset+t.compLen]
		switch {
		case t.compLen == t.origLen:
			t.data = raw
		case t.compLen < t.origLen:
			zr, err := zlib.NewReader(bytes.NewReader(raw))
			if err != nil {
				return nil, fmt.Errorf("woff: table %q: %v", c47Tag(t.tag), err)
			}
			d, err := io.ReadAll(zr)
			if err != nil {
				return nil, fmt.Errorf("woff: table %q: %v", c47Tag(t.tag), err)
			}
			if len(d) != int(t.origLen) {
				return nil, fmt.Errorf("woff: table %q inflates to %d bytes, directory says %d", c47Tag(t.tag), len(d), t.origLen)
			}
			t.data = d
		default:
			return nil, fmt.Errorf("woff: table %q compLength > origLength", c47Tag(t.tag))
		}
		tabs[i] = t
	}
	sort.Slice(tabs, func(i, j int) bool { return tabs[i].tag < tabs[j].tag })
	// sfnt header
	es, sr := 0, 1
	for sr*2 <= num {
		sr *= 2
		es++
	}
	var out bytes.Buffer
	w32 := func(v uint32) { binary.Write(&out, be, v) }
	w16 := func(v uint16) { binary.Write(&out, be, v) }
	w32(flavor)
	w16(uint16(num))
	w16(uint16(sr * 16))
	w16(uint16(es))
	w16(uint16(num*16 - sr*16))
	off := uint32(12 + 16*num)
	for _, t := range tabs {
		w32(t.tag)
		w32(t.checksum)
		w32(off)
		w32(t.origLen)
		off += (t.origLen + 3) &^ 3
	}
	for _, t := range tabs {
		out.Write(t.data)
		for p := len(t.data); p%4 != 0; p++ {
			out.WriteByte(0)
		}
	}
	return out.Bytes(), nil
}

func c47Tag(t uint32) string {
	return string([]byte{byte(t >> 24), byte(t >> 16), byte(t >> 8), byte(t)})
}
