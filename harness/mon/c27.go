package mon

// C27 — library level: for every shape type, content size and padding the size chosen by
// GetDimensionsToFit gives an inner box (GetInnerBox) at least as large as the content and
// lying inside the shape's box; a connection end traced onto a shape (TraceToShapeBorder)
// lands on the shape's outline.
//
// Oracle (independent of the code it judges):
//   - fit: plain inequalities on the returned numbers;
//   - trace: the outline is rebuilt from the SVG path data the renderer draws
//     (GetSVGPathData: absolute M/L/H/V/C/Z commands, parsed here) or, for oval/circle, from
//     the parametric ellipse of the box; it is flattened densely with our own de Casteljau
//     evaluation and the traced point's distance to that polyline is measured. Whether "the
//     ray meets the outline" is decided on the same polyline with our own ray/segment
//     intersection — none of lib/geo's intersection code is used.
//
// Legitimate behaviours noted from reading lib/shape:
//   - the result of TraceToShapeBorder is rounded to integers: tolerance 1 px (+ flattening error);
//   - rectangular shapes return the border point unchanged (vacuous for the outline clause);
//   - a ray that does not meet the outline at all (it clips a corner of the bounding box where
//     the shape is not) leaves the point on the box: vacuous;
//   - the cloud's inner box depends on the content aspect ratio: GetInnerBoxForContent(w,h)
//     is the documented accessor, GetInnerBox after SetInnerBoxAspectRatio the renderer's.
//
// No symbolic claim is made (DESIGN §5).

import (
	"fmt"
	"math"
	"sort"
	"strconv"
	"strings"

	"verif/gen"
	"verif/run"

	"oss.terrastruct.com/d2/lib/geo"
	"oss.terrastruct.com/d2/lib/shape"
)

var c27Types = []string{
	shape.SQUARE_TYPE, shape.REAL_SQUARE_TYPE, shape.PARALLELOGRAM_TYPE, shape.DOCUMENT_TYPE,
	shape.CYLINDER_TYPE, shape.QUEUE_TYPE, shape.PAGE_TYPE, shape.PACKAGE_TYPE, shape.STEP_TYPE,
	shape.CALLOUT_TYPE, shape.STORED_DATA_TYPE, shape.PERSON_TYPE, shape.C4_PERSON_TYPE,
	shape.DIAMOND_TYPE, shape.OVAL_TYPE, shape.CIRCLE_TYPE, shape.HEXAGON_TYPE, shape.CLOUD_TYPE,
	shape.TABLE_TYPE, shape.CLASS_TYPE, shape.TEXT_TYPE, shape.CODE_TYPE, shape.IMAGE_TYPE,
}

type c27In struct {
	Kind  string  `json:"kind"` // fit-grid | fit-rand | trace
	Shape string  `json:"shape"`
	Seed  int64   `json:"seed"`
	N     int     `json:"n"`               // fit-rand: samples; trace: boxes
	Ang   int     `json:"ang,omitempty"`   // trace: approach directions per box
	Dense bool    `json:"dense,omitempty"` // fit-grid: the full grid of DESIGN (thorough)
	PX    float64 `json:"px"`
	PY    float64 `json:"py"`
	DefP  bool    `json:"defp,omitempty"` // use the shape's default padding
}

func init() {
	run.Register(&run.Check{
		ID: "C27", Title: "Fitted shapes contain their content; traced ends land on the outline",
		LevelText: "Exploration (library level): every lib/shape type over a dense grid of content sizes × paddings plus random real-valued (w,h,px,py) samples is sized with GetDimensionsToFit and the inner box of the resulting shape compared with the content and the shape's box; for every non-rectangular shape rays from outside through the bounding box (all sides, orthogonal / centre-aimed / random directions, 720 directions × 50 boxes) are traced with TraceToShapeBorder and the result's distance to an independently flattened outline (from the rendered SVG path data / parametric ellipse) is measured. The statement's 'symbolic reasoning over the fit formulas' is not claimed.",
		Technique: "runtime monitoring: inequality oracle over a dense grid + random samples; independent outline reconstruction (SVG path parser + de Casteljau flattening) as distance oracle for traced ends",
		DesignRef: "§4 C27",
		Rule:      "cases: (shape type × padding pair × size grid) / (shape type × random sample block) / (non-rectangular shape × box block × approach directions); distinct by sha256 of the case parameters; non-trivial when ≥1 evaluation had w,h>0 (fit) or ≥1 ray met the outline (trace). Counters: fit_evals, fit_padded_also_fits, trace_rays, trace_hit (ray meets outline), trace_vacuous_miss, trace_vacuous_rect",
		Chunk:     4,
		CPUBudget: 600,
		Gen:       genC27,
		Exec:      execC27,
	})
}

func genC27(seed int64, tier string, emit func(run.Case)) {
	r := gen.New(seed)
	id := 0
	add := func(in c27In) {
		id++
		emit(run.MkCase(fmt.Sprintf("c%05d", id), in.Kind, in))
	}
	thorough := tier == "thorough"
	pads := [][2]float64{{0, 0}, {1, 1}, {10, 40}, {40, 10}, {200, 200}, {0, 200}, {200, 0}}
	if thorough {
		pads = append(pads, [2]float64{5, 5}, [2]float64{20, 20}, [2]float64{40, 40}, [2]float64{100, 3}, [2]float64{3, 100}, [2]float64{0.5, 0.5})
	}
	for _, t := range c27Types {
		add(c27In{Kind: "fit-grid", Shape: t, DefP: true, Dense: thorough})
		for _, p := range pads {
			add(c27In{Kind: "fit-grid", Shape: t, PX: p[0], PY: p[1], Dense: thorough})
		}
		nr := tierN(tier, 2, 60)
		for i := 0; i < nr; i++ {
			add(c27In{Kind: "fit-rand", Shape: t, Seed: r.Int63(), N: tierN(tier, 12000, 100000)})
		}
		nt := tierN(tier, 2, 80)
		for i := 0; i < nt; i++ {
			add(c27In{Kind: "trace", Shape: t, Seed: r.Int63(), N: 25, Ang: 720})
		}
	}
}

func c27GridVals(dense bool) []float64 {
	var v []float64
	for i := 0; i <= 20; i++ {
		v = append(v, float64(i))
	}
	if dense {
		for x := 25; x <= 2000; x += 5 {
			v = append(v, float64(x))
		}
		return v
	}
	for x := 25; x <= 200; x += 5 {
		v = append(v, float64(x))
	}
	for x := 250; x <= 2000; x += 50 {
		v = append(v, float64(x))
	}
	return v
}

// c27Viols aggregates violations per signature within one case (first witness + count).
type c27Viols struct {
	first map[string]string
	count map[string]int
	cl    map[string]string
	max   map[string]float64
}

func (v *c27Viols) add(clause, sig, msg string) {
	if v.first == nil {
		v.first, v.count, v.cl = map[string]string{}, map[string]int{}, map[string]string{}
	}
	if _, ok := v.first[sig]; !ok {
		v.first[sig] = msg
		v.cl[sig] = clause
	}
	v.count[sig]++
}

func (v *c27Viols) addMag(clause, sig, msg string, mag float64) {
	v.add(clause, sig, msg)
	if v.max == nil {
		v.max = map[string]float64{}
	}
	if mag > v.max[sig] {
		v.max[sig] = mag
	}
}

func (v *c27Viols) flush(res *run.Result) {
	var sigs []string
	for s := range v.first {
		sigs = append(sigs, s)
	}
	sort.Strings(sigs)
	for _, s := range sigs {
		m := ""
		if x, ok := v.max[s]; ok {
			m = fmt.Sprintf("; largest magnitude in the case %.3f px", x)
		}
		res.Viol(v.cl[s], s, fmt.Sprintf("%s (first of %d evaluations with this signature in the case%s)", v.first[s], v.count[s], m))
		res.Add("viol_evals", v.count[s])
	}
}

func execC27(c run.Case) (res run.Result) {
	var in c27In
	c.Decode(&in)
	var vs c27Viols
	res.Inc("kind_" + in.Kind)
	switch in.Kind {
	case "fit-grid":
		vals := c27GridVals(in.Dense)
		px, py := in.PX, in.PY
		if in.DefP {
			px, py = shape.NewShape(in.Shape, geo.NewBox(geo.NewPoint(0, 0), 1, 1)).GetDefaultPadding()
		}
		tl := geo.NewPoint(0, 0)
		for _, w := range vals {
			for _, h := range vals {
				c27Fit(&res, &vs, in.Shape, w, h, px, py, tl)
			}
		}
	case "fit-rand":
		q := gen.New(in.Seed)
		for i := 0; i < in.N; i++ {
			w, h := c27RandLen(q, 3000), c27RandLen(q, 3000)
			px, py := c27RandLen(q, 250), c27RandLen(q, 250)
			if q.P(0.3) {
				px, py = shape.NewShape(in.Shape, geo.NewBox(geo.NewPoint(0, 0), 1, 1)).GetDefaultPadding()
			}
			if q.P(0.2) {
				// what d2graph passes: integer text dimensions
				w, h = math.Round(w), math.Round(h)
			}
			tl := geo.NewPoint(0, 0)
			if q.P(0.5) {
				tl = geo.NewPoint(float64(q.Range(-5000, 5000))+q.Float64()*float64(q.Intn(2)), float64(q.Range(-5000, 5000))+q.Float64()*float64(q.Intn(2)))
			}
			c27Fit(&res, &vs, in.Shape, w, h, px, py, tl)
		}
	case "trace":
		c27Trace(&res, &vs, in)
	}
	vs.flush(&res)
	res.Nontrivial = res.Feat["fit_evals_nondegenerate"] > 0 || res.Feat["trace_hit"] > 0
	res.Sample = in
	return
}

func c27CloudClass(ar float64) int {
	switch {
	case ar > shape.CLOUD_WIDE_ASPECT_BOUNDARY:
		return 1
	case ar < shape.CLOUD_TALL_ASPECT_BOUNDARY:
		return -1
	}
	return 0
}

// c27RandLen draws a real-valued length biased towards small values and the occasional 0.
func c27RandLen(q *gen.R, max float64) float64 {
	switch q.Intn(10) {
	case 0:
		return 0
	case 1, 2, 3:
		return q.Float64() * 30
	case 4, 5, 6:
		return q.Float64() * 300
	}
	return q.Float64() * max
}

func c27Aspect(w, h float64) string {
	switch {
	case w == 0 || h == 0:
		return "zero-content"
	case h > 1.5*w:
		return "tall-content"
	case w > 1.5*h:
		return "wide-content"
	}
	return "squarish-content"
}

func c27Fit(res *run.Result, vs *c27Viols, t string, w, h, px, py float64, tl *geo.Point) {
	res.Inc("fit_evals")
	if w > 0 && h > 0 {
		res.Inc("fit_evals_nondegenerate")
	}
	s0 := shape.NewShape(t, geo.NewBox(geo.NewPoint(0, 0), w, h))
	W, H := s0.GetDimensionsToFit(w, h, px, py)
	desc := func() string {
		return fmt.Sprintf("shape=%s content=(%v,%v) padding=(%v,%v) -> fit=(%v,%v)", t, w, h, px, py, W, H)
	}
	if math.IsNaN(W) || math.IsNaN(H) || math.IsInf(W, 0) || math.IsInf(H, 0) || W < 0 || H < 0 {
		vs.add("C27.fit-not-finite", "C27.fit-not-finite:"+t+":"+c27Aspect(w, h), desc())
		return
	}
	s := shape.NewShape(t, geo.NewBox(tl.Copy(), W, H))
	type ib struct {
		how string
		b   *geo.Box
	}
	var inners []ib
	if t == shape.CLOUD_TYPE {
		if w > 0 && h > 0 {
			inners = append(inners, ib{"GetInnerBoxForContent", s.GetInnerBoxForContent(w, h)})
			s2 := shape.NewShape(t, geo.NewBox(tl.Copy(), W, H))
			// what Object.SizeToContent / ToShape do: the aspect ratio of the inner box for the content
			cb := shape.NewShape(t, geo.NewBox(geo.NewPoint(0, 0), w, h)).GetInnerBoxForContent(w, h)
			s2.SetInnerBoxAspectRatio(cb.Width / cb.Height)
			inners = append(inners, ib{"GetInnerBox+ContentAspectRatio", s2.GetInnerBox()})
		} else {
			res.Inc("fit_vacuous_cloud_zero_content")
			return
		}
	} else {
		inners = append(inners, ib{"GetInnerBox", s.GetInnerBox()})
	}
	eps := 1e-6 * (1 + math.Max(math.Abs(tl.X), math.Abs(tl.Y)) + math.Max(W, H))
	for _, in := range inners {
		b := in.b
		if b == nil || b.TopLeft == nil {
			vs.add("C27.inner-box-nil", "C27.inner-box-nil:"+t, desc()+" "+in.how+" returned nil")
			continue
		}
		d := func() string {
			return fmt.Sprintf("%s; %s = {tl=(%v,%v) w=%v h=%v} in box {tl=(%v,%v) w=%v h=%v}", desc(), in.how, b.TopLeft.X, b.TopLeft.Y, b.Width, b.Height, tl.X, tl.Y, W, H)
		}
		// one clause for both axes; the trigger names the magnitude class (the Ceil calls in
		// GetInsidePlacement of oval/circle/cloud cost up to 1 px per side)
		defW, defH := w-b.Width, h-b.Height
		if def := math.Max(defW, defH); def > eps {
			mag := "by-more-than-2px"
			if def <= 2 {
				mag = "by-at-most-2px"
			}
			if t == shape.CLOUD_TYPE && c27CloudClass(w/h) != c27CloudClass((w+px)/(h+py)) {
				// GetDimensionsToFit picks the wide/tall/square inner box by the padded aspect
				// ratio, the inner-box accessors by the content's
				mag = "padding-changes-aspect-class"
			}
			vs.addMag("C27.inner-smaller-than-content", "C27.inner-smaller-than-content:"+t+":"+mag+":"+in.how, d(), def)
		}
		if b.Width >= w+px-eps && b.Height >= h+py-eps {
			res.Inc("fit_padded_also_fits")
		}
		if b.TopLeft.X < tl.X-eps || b.TopLeft.Y < tl.Y-eps || b.TopLeft.X+b.Width > tl.X+W+eps || b.TopLeft.Y+b.Height > tl.Y+H+eps {
			ex := math.Max(math.Max(tl.X-b.TopLeft.X, tl.Y-b.TopLeft.Y), math.Max(b.TopLeft.X+b.Width-tl.X-W, b.TopLeft.Y+b.Height-tl.Y-H))
			mag := "by-more-than-1px"
			if ex <= 1 {
				mag = "by-at-most-1px"
			}
			vs.addMag("C27.inner-outside-box", "C27.inner-outside-box:"+t+":"+mag+":"+in.how, d(), ex)
		}
	}
}

// ---------------------------------------------------------------------------------------
// outline reconstruction

type c27Pt struct{ x, y float64 }

// c27Poly is a flattened outline path; kind[i] names the primitive the piece pts[i]→pts[i+1]
// came from: 'L' straight segment, 'C' cubic Bézier, 'E' ellipse.
type c27Poly struct {
	pts  []c27Pt
	kind []byte
	vtx  []c27Pt // end points of the path commands (outline vertices)
}

// c27Outline returns closed/open polylines approximating the drawn outline of s.
func c27Outline(s shape.Shape) (polys []c27Poly, ok bool) {
	box := s.GetBox()
	t := s.GetType()
	if t == shape.OVAL_TYPE || t == shape.CIRCLE_TYPE {
		return []c27Poly{c27Ellipse(box.TopLeft.X+box.Width/2, box.TopLeft.Y+box.Height/2, box.Width/2, box.Height/2)}, true
	}
	data := s.GetSVGPathData()
	if len(data) == 0 {
		return nil, false
	}
	use := data[:1] // outer path; later paths are inner decorations (cylinder/queue/page)
	if t == shape.C4_PERSON_TYPE {
		use = data // body + head are both outline
	}
	for _, d := range use {
		p, err := c27ParsePath(d)
		if err != nil {
			return nil, false
		}
		polys = append(polys, p)
	}
	return polys, true
}

func c27Ellipse(cx, cy, rx, ry float64) c27Poly {
	const n = 4096
	var out c27Poly
	for i := 0; i <= n; i++ {
		a := 2 * math.Pi * float64(i) / n
		out.pts = append(out.pts, c27Pt{cx + rx*math.Cos(a), cy + ry*math.Sin(a)})
		if i > 0 {
			out.kind = append(out.kind, 'E')
		}
	}
	return out
}

// c27ParsePath flattens an absolute-coordinate SVG path (M L H V C Z) into one polyline.
func c27ParsePath(d string) (c27Poly, error) {
	f := strings.Fields(d)
	var poly c27Poly
	var cur, start c27Pt
	push := func(p c27Pt, k byte) {
		if len(poly.pts) > 0 {
			poly.kind = append(poly.kind, k)
		}
		poly.pts = append(poly.pts, p)
	}
	need := map[string]int{"M": 2, "L": 2, "H": 1, "V": 1, "C": 6, "Z": 0}
	i := 0
	for i < len(f) {
		cmd := f[i]
		i++
		n, known := need[cmd]
		if !known {
			return poly, fmt.Errorf("unknown path command %q", cmd)
		}
		a := make([]float64, n)
		for k := 0; k < n; k++ {
			if i >= len(f) {
				return poly, fmt.Errorf("short path")
			}
			v, err := strconv.ParseFloat(f[i], 64)
			if err != nil {
				return poly, err
			}
			a[k] = v
			i++
		}
		switch cmd {
		case "M":
			if len(poly.pts) > 0 {
				return poly, fmt.Errorf("second subpath")
			}
			cur = c27Pt{a[0], a[1]}
			start = cur
			push(cur, 'L')
		case "L":
			cur = c27Pt{a[0], a[1]}
			push(cur, 'L')
		case "H":
			cur = c27Pt{a[0], cur.y}
			push(cur, 'L')
		case "V":
			cur = c27Pt{cur.x, a[0]}
			push(cur, 'L')
		case "Z":
			cur = start
			push(cur, 'L')
		case "C":
			p0, p1, p2, p3 := cur, c27Pt{a[0], a[1]}, c27Pt{a[2], a[3]}, c27Pt{a[4], a[5]}
			const n = 192
			for k := 1; k <= n; k++ {
				t := float64(k) / n
				u := 1 - t
				push(c27Pt{
					u*u*u*p0.x + 3*u*u*t*p1.x + 3*u*t*t*p2.x + t*t*t*p3.x,
					u*u*u*p0.y + 3*u*u*t*p1.y + 3*u*t*t*p2.y + t*t*t*p3.y,
				}, 'C')
			}
			cur = p3
		}
		poly.vtx = append(poly.vtx, cur)
	}
	return poly, nil
}

func c27DistToSeg(p, a, b c27Pt) float64 {
	dx, dy := b.x-a.x, b.y-a.y
	l2 := dx*dx + dy*dy
	t := 0.0
	if l2 > 0 {
		t = ((p.x-a.x)*dx + (p.y-a.y)*dy) / l2
		t = math.Max(0, math.Min(1, t))
	}
	return math.Hypot(p.x-(a.x+t*dx), p.y-(a.y+t*dy))
}

func c27DistToOutline(p c27Pt, polys []c27Poly) float64 {
	best := math.Inf(1)
	for _, pl := range polys {
		for i := 1; i < len(pl.pts); i++ {
			if d := c27DistToSeg(p, pl.pts[i-1], pl.pts[i]); d < best {
				best = d
			}
		}
	}
	return best
}

// c27RayHits returns the sorted ray parameters t ≥ tmin (in px along unit direction d from o)
// at which the ray crosses the outline.
// c27Inside: even-odd test against every outline path (the shape is their union).
func c27Inside(p c27Pt, polys []c27Poly) bool {
	for _, pl := range polys {
		in := false
		n := len(pl.pts)
		for i := 1; i < n; i++ {
			a, b := pl.pts[i-1], pl.pts[i]
			if (a.y > p.y) != (b.y > p.y) && p.x < (b.x-a.x)*(p.y-a.y)/(b.y-a.y)+a.x {
				in = !in
			}
		}
		if in {
			return true
		}
	}
	return false
}

type c27Hit struct {
	t   float64 // px along the ray
	sin float64 // |sin| of the angle between the ray and the outline piece crossed
	k   byte    // primitive kind crossed: L C E
}

func c27RayHits(o, d c27Pt, polys []c27Poly, tmin float64) []c27Hit {
	var hits []c27Hit
	for _, pl := range polys {
		for i := 1; i < len(pl.pts); i++ {
			a, b := pl.pts[i-1], pl.pts[i]
			ex, ey := b.x-a.x, b.y-a.y
			den := d.x*ey - d.y*ex
			if math.Abs(den) < 1e-12 {
				continue
			}
			// o + t d = a + u e
			t := ((a.x-o.x)*ey - (a.y-o.y)*ex) / den
			u := ((a.x-o.x)*d.y - (a.y-o.y)*d.x) / den
			if u >= -1e-9 && u <= 1+1e-9 && t >= tmin {
				hits = append(hits, c27Hit{t, math.Abs(den) / math.Hypot(ex, ey), pl.kind[i-1]})
			}
		}
	}
	sort.Slice(hits, func(i, j int) bool { return hits[i].t < hits[j].t })
	return hits
}

var c27TraceBoxes = [][2]float64{
	{100, 100}, {200, 100}, {100, 200}, {60, 60}, {300, 80}, {80, 300}, {20, 400}, {400, 20}, {1000, 1000},
	{1500, 90}, {90, 1500}, {53, 66}, {47, 47}, {10, 10}, {5, 5}, {30, 12}, {12, 30}, {128, 128}, {640, 480}, {77, 76.9},
}

func c27Trace(res *run.Result, vs *c27Viols, in c27In) {
	q := gen.New(in.Seed)
	t := in.Shape
	for bi := 0; bi < in.N; bi++ {
		var w, h float64
		if q.P(0.5) {
			wh := gen.Pick(q, c27TraceBoxes)
			w, h = wh[0], wh[1]
		} else {
			w, h = float64(q.Range(4, 600)), float64(q.Range(4, 600))
			if q.P(0.2) {
				w += q.Float64()
				h += q.Float64()
			}
		}
		if t == shape.CIRCLE_TYPE || t == shape.REAL_SQUARE_TYPE {
			h = w
		}
		tl := c27Pt{0, 0}
		switch q.Intn(3) {
		case 1:
			tl = c27Pt{float64(q.Range(-3000, 3000)), float64(q.Range(-3000, 3000))}
		case 2:
			tl = c27Pt{float64(q.Range(-3000, 3000)) + q.Float64(), float64(q.Range(-3000, 3000)) + q.Float64()}
		}
		s := shape.NewShape(t, geo.NewBox(geo.NewPoint(tl.x, tl.y), w, h))
		if s.IsRectangular() {
			// TraceToShapeBorder returns the border point itself: nothing to observe beyond identity
			for k := 0; k < 8; k++ {
				r := geo.NewPoint(tl.x+q.Float64()*w, tl.y)
				p := geo.NewPoint(r.X, r.Y-50)
				got := shape.TraceToShapeBorder(s, r, p)
				res.Inc("trace_rays")
				res.Inc("trace_vacuous_rect")
				if got.X != r.X || got.Y != r.Y {
					vs.add("C27.trace-rect-moved", "C27.trace-rect-moved:"+t, fmt.Sprintf("rectangular shape %s moved border point (%v,%v) to (%v,%v)", t, r.X, r.Y, got.X, got.Y))
				}
			}
			continue
		}
		// lib/shape documents that the fixed-size features (arcs, wedges, page corner, tip)
		// assume a box at least as large as the smallest fitted one; smaller boxes give a
		// collapsed outline, which is not what the statement is about
		if mw, mh := s.GetDimensionsToFit(1, 1, 0, 0); w < mw || h < mh || w < 10 || h < 10 {
			res.Inc("trace_skipped_box_below_min_fit")
			continue
		}
		if (t == shape.C4_PERSON_TYPE || t == shape.PERSON_TYPE) && (h < 0.95*w || h > 1.5*w) {
			res.Inc("trace_skipped_person_aspect")
			continue
		}
		polys, ok := c27Outline(s)
		if !ok {
			res.Inc("trace_vacuous_no_outline")
			continue
		}
		cx, cy := tl.x+w/2, tl.y+h/2
		for k := 0; k < in.Ang; k++ {
			// pick a point r on the box border and a previous point p strictly outside the box
			side := q.Intn(4)
			f := q.Float64()
			switch q.Intn(6) {
			case 0:
				f = 0.5
			case 1:
				f = q.Float64() * 0.08 // near a corner
			case 2:
				f = 1 - q.Float64()*0.08
			}
			var r, nrm c27Pt // nrm: outward normal of the side
			switch side {
			case 0:
				r, nrm = c27Pt{tl.x + f*w, tl.y}, c27Pt{0, -1}
			case 1:
				r, nrm = c27Pt{tl.x + w, tl.y + f*h}, c27Pt{1, 0}
			case 2:
				r, nrm = c27Pt{tl.x + f*w, tl.y + h}, c27Pt{0, 1}
			default:
				r, nrm = c27Pt{tl.x, tl.y + f*h}, c27Pt{-1, 0}
			}
			var dir c27Pt // unit direction of travel p -> r (into the box)
			mode := q.Intn(4)
			switch mode {
			case 0: // orthogonal (ELK, sequence)
				dir = c27Pt{-nrm.x, -nrm.y}
			case 1: // aimed at the centre (dagre)
				l := math.Hypot(cx-r.x, cy-r.y)
				if l == 0 {
					dir = c27Pt{-nrm.x, -nrm.y}
				} else {
					dir = c27Pt{(cx - r.x) / l, (cy - r.y) / l}
				}
			default: // any direction entering through this side: angle in (-89.75°, 89.75°) of the inward normal, 0.25° steps
				a := float64(q.Range(-359, 359)) * math.Pi / 720
				in := c27Pt{-nrm.x, -nrm.y}
				dir = c27Pt{in.x*math.Cos(a) - in.y*math.Sin(a), in.x*math.Sin(a) + in.y*math.Cos(a)}
			}
			dist := []float64{1, 5, 20, 80, 300}[q.Intn(5)] + q.Float64()
			p := c27Pt{r.x - dir.x*dist, r.y - dir.y*dist}
			if mode == 0 {
				// keep exactly axis aligned (prevPoint.X == rectBorderPoint.X is a code path)
				if nrm.x == 0 {
					p.x = r.x
				} else {
					p.y = r.y
				}
			}
			res.Inc("trace_rays")
			got := shape.TraceToShapeBorder(s, geo.NewPoint(r.x, r.y), geo.NewPoint(p.x, p.y))
			if got == nil || math.IsNaN(got.X) || math.IsNaN(got.Y) || math.IsInf(got.X, 0) || math.IsInf(got.Y, 0) {
				vs.add("C27.trace-not-finite", "C27.trace-not-finite:"+t, fmt.Sprintf("shape=%s box=(%v,%v,%v,%v) r=(%v,%v) p=(%v,%v): non-finite result", t, tl.x, tl.y, w, h, r.x, r.y, p.x, p.y))
				continue
			}
			// does the ray from r (slightly before it) meet the outline?
			hits := c27RayHits(r, dir, polys, -1e-6)
			if len(hits) == 0 {
				res.Inc("trace_vacuous_miss")
				continue
			}
			// The drawn outline has integer-rounded control points and the C4 person's head is an
			// exact circle in Perimeter() but a Bézier approximation in the drawing: sub-pixel
			// differences that a grazing ray amplifies without bound. Judge only rays whose first
			// crossing is stable under a 1 px sideways shift; the rest is counted as not judged.
			stable := true
			for _, sh := range []float64{-1, 1} {
				o2 := c27Pt{r.x - dir.y*sh, r.y + dir.x*sh}
				h2 := c27RayHits(o2, dir, polys, -1.5)
				if len(h2) == 0 || math.Abs(h2[0].t-hits[0].t) > 4 {
					stable = false
				}
			}
			if !stable {
				res.Inc("trace_vacuous_grazing")
				continue
			}
			res.Inc("trace_hit")
			g := c27Pt{got.X, got.Y}
			d := c27DistToOutline(g, polys)
			// tolerance: integer rounding of both coordinates (≤ 0.71) + statement's 1 px
			const tol = 1.0 + 0.75
			modeName := []string{"orthogonal", "centre-aimed", "oblique", "oblique"}[mode]
			first := hits[0]
			// trigger classes, all decided on our own outline:
			//   vertex:    the first crossing is (within 0.01 px) a vertex of the outline path
			//   otherwise the kind of outline primitive the ray crosses first (straight segment,
			//   Bézier curve, ellipse) — lib/geo has one intersection routine per kind
			class := map[byte]string{'L': "first-crossing-on-straight-segment", 'C': "first-crossing-on-bezier-curve", 'E': "first-crossing-on-ellipse"}[first.k]
			fp := c27Pt{r.x + dir.x*first.t, r.y + dir.y*first.t}
			for _, pl := range polys {
				for _, v := range pl.vtx {
					if math.Hypot(v.x-fp.x, v.y-fp.y) < 0.01 {
						// lib/geo.IntersectionPoint accepts s,t in the closed interval [0,1]
						// computed in floating point: a ray through a vertex can miss both pieces
						class = "first-crossing-at-outline-vertex"
					}
				}
			}
			desc := func() string {
				return fmt.Sprintf("shape=%s box={tl=(%v,%v) w=%v h=%v} border point r=(%v,%v) prev p=(%v,%v) [%s] -> traced (%v,%v); distance to outline %.2f px; first outline crossing %.2f px after r at %.1f°", t, tl.x, tl.y, w, h, r.x, r.y, p.x, p.y, modeName, got.X, got.Y, d, first.t, math.Asin(math.Min(1, first.sin))*180/math.Pi)
			}
			if d > tol {
				// where the extension chosen by TraceToShapeBorder (box width, or height for a
				// vertical segment) is shorter than the distance to the outline the code cannot
				// find the crossing: name that trigger
				ext := w
				if p.x == r.x {
					ext = h
				}
				if first.t > ext-0.01 {
					class = "crossing-beyond-extension"
				}
				vs.addMag("C27.trace-off-outline", "C27.trace-off-outline:"+class, desc(), d)
				continue
			}
			// "traced onto the shape": the end is where the connection meets the shape, i.e. the
			// first crossing — the last segment must not run on through the shape's interior
			along := (g.x-r.x)*dir.x + (g.y-r.y)*dir.y
			throughInterior := func() bool {
				for _, f := range []float64{0.25, 0.5, 0.75} {
					tt := first.t + (along-first.t)*f
					if !c27Inside(c27Pt{r.x + dir.x*tt, r.y + dir.y*tt}, polys) {
						return false
					}
				}
				return true
			}
			if along > first.t+tol+1 && throughInterior() {
				vs.addMag("C27.trace-not-first-crossing", "C27.trace-not-first-crossing:"+class, desc(), along-first.t)
				continue
			}
			res.Inc("trace_on_outline")
		}
	}
}
