package mon

// C21 — explicit sizes are honoured and automatic sizes fit the label.
//
// Workload: gen.L2SizesBoard — boards of 1–7 leaf shapes cycling through every DSL shape ×
// label kind (empty/short/long/multi-line/CJK/very long/markdown/code) × font size/bold/italic/
// mono × icon × label.near (inside/outside/border) × explicit width/height (both/one/none),
// some inside plain containers, with a few edges; laid out by the real pipeline (dagre and ELK).
//
// Oracle, per leaf object outside grid and sequence diagrams, on the laid-out graph object AND
// the exported shape:
//   explicit   width and height both given:
//                square/circle      → both sides = max(w,h)
//                sql_table/class/code (and every other language block: SizeToContent treats
//                  markdown/latex text the same way) → W ≥ w ∧ H ≥ h, and not larger than
//                  max(given, size of the same object laid out without width/height)
//                  — metamorphic second run
//                everything else    → exactly (w,h)
//   auto-fit   neither given, object has a label (HasLabel) and the final label position is an
//              INSIDE_* one: LabelDimensions fit into GetInnerBox() of a lib/shape shape of the
//              final box (cloud: with the object's ContentAspectRatio, like Object.ToShape);
//              text/code (their label is the content): box ≥ LabelDimensions.
//   Objects with exactly one of width/height are outside the statement (counted, not judged).
//
// Legitimate behaviours (read from d2graph.SetDimensions / SizeToContent / the layouts):
//   - a label that does not fit an explicitly sized shape is moved outside by the layout
//     (positionLabelsIcons) — the explicit clause still demands the size, the fit clause does
//     not apply (not automatic);
//   - person / image labels default to OUTSIDE_BOTTOM_CENTER: fit clause vacuous;
//   - width/height below MIN_SHAPE_SIZE (5) on images are raised to 5: the generator uses ≥ 5.
//
// Signatures: C21.<clause>:<shape>:<where first wrong: set-dimensions | layout-<engine>>[:trigger]

import (
	"fmt"
	"math"
	"strconv"
	"strings"

	"verif/gen"
	"verif/run"

	"oss.terrastruct.com/d2/d2graph"
	"oss.terrastruct.com/d2/d2target"
	"oss.terrastruct.com/d2/lib/geo"
	"oss.terrastruct.com/d2/lib/label"
	"oss.terrastruct.com/d2/lib/shape"
)

type c21In struct {
	Text   string   `json:"text"`
	Engine string   `json:"engine"`
	Feats  []string `json:"feats,omitempty"`
}

func init() {
	run.Register(&run.Check{
		ID: "C21", Title: "Explicit sizes are honoured and automatic sizes fit the label",
		LevelText: "Exploration: generated boards of leaf shapes (every shape type × label kinds incl. multi-line/CJK/markdown/code × font size/bold/italic/mono × icons × label positions × explicit width/height both/one/none) are laid out with dagre and ELK through d2lib.Compile; per leaf outside grid/sequence diagrams the final size is compared with the explicit dimensions (square/circle: larger of the two; table/class/code: never below, checked against a second layout without the dimensions) and, for automatically sized shapes with an inside label, the label dimensions with lib/shape's inner box of the final box.",
		Technique: "runtime monitoring: independent expectation calculator + metamorphic second run (same board without width/height) over generated shape boards, dagre and ELK",
		DesignRef: "§4 C21",
		Rule:      "cases: gen.L2SizesBoard(seed,i) × engine; distinct by sha256(engine,text); non-trivial when ≥1 leaf was judged by the explicit-size clause or the auto-fit clause. Counters: explicit_checked, autofit_checked, vacuous_partial_dims, vacuous_label_outside, per-shape and per-feature histograms",
		Chunk:     8,
		CPUBudget: 120,
		Gen:       genC21,
		Exec:      execC21,
	})
}

func genC21(seed int64, tier string, emit func(run.Case)) {
	r := gen.New(seed*7919 + 21)
	nd, ne := 330, 40
	if tier == "thorough" {
		nd, ne = 6600, 800
	}
	id := 0
	for _, eng := range []string{"dagre", "elk"} {
		n := nd
		if eng == "elk" {
			n = ne
		}
		for i := 0; i < n; i++ {
			q := r.Sub(i)
			text, feats := gen.L2SizesBoard(q, i)
			id++
			emit(run.MkCase(fmt.Sprintf("%s%06d", eng[:1], id), eng, c21In{Text: text, Engine: eng, Feats: feats}))
		}
	}
}

// c21StripDims removes the width:/height: lines of the generated board (second, metamorphic run).
func c21StripDims(text string) string {
	var out []string
	for _, ln := range strings.Split(text, "\n") {
		t := strings.TrimSpace(ln)
		if strings.HasPrefix(t, "width: ") || strings.HasPrefix(t, "height: ") {
			continue
		}
		out = append(out, ln)
	}
	return strings.Join(out, "\n")
}

// c21PreLayout returns the sizes right after Graph.SetDimensions (no layout), by AbsID.
func c21PreLayout(text string) map[string][2]float64 {
	g, _, err := compile(text)
	if err != nil {
		return nil
	}
	if layRuler == nil { // execC21 has run layCompile before: the shared ruler exists
		return nil
	}
	if err := g.SetDimensions(nil, layRuler, nil, nil); err != nil {
		return nil
	}
	m := map[string][2]float64{}
	for _, o := range g.Objects {
		m[o.AbsID()] = [2]float64{o.Width, o.Height}
	}
	return m
}

func c21InGridOrSeq(o *d2graph.Object) bool {
	for p := o.Parent; p != nil; p = p.Parent {
		if p.IsSequenceDiagram() || layIsGrid(p) {
			return true
		}
	}
	return false
}

func execC21(c run.Case) (res run.Result) {
	var in c21In
	c.Decode(&in)
	res.Digest = laySha(in.Engine + "\x00" + in.Text)
	res.Sample = map[string]any{"engine": in.Engine, "text": trunc(in.Text, 600)}
	res.Inc("engine_" + in.Engine)
	d, g, err := layCompile(in.Engine, in.Text)
	if err != nil {
		if layIsCompileError(err) {
			res.Inc("vacuous_compile_error")
			res.Inconclusive = "harness: generated board does not compile: " + trunc(err.Error(), 300)
		} else {
			res.Inc("vacuous_layout_error") // owned by C17
		}
		return
	}
	for _, f := range in.Feats {
		res.Inc("f_" + f)
	}
	var pre map[string][2]float64
	var auto map[string][2]float64 // sizes of the same objects laid out without width/height
	getAuto := func() map[string][2]float64 {
		if auto == nil {
			auto = map[string][2]float64{}
			_, g2, err := layCompile(in.Engine, c21StripDims(in.Text))
			if err == nil {
				for _, o := range g2.Objects {
					auto[o.AbsID()] = [2]float64{o.Width, o.Height}
				}
			}
		}
		return auto
	}
	where := func(id string, ok func(w, h float64) bool) string {
		if pre == nil {
			pre = c21PreLayout(in.Text)
			if pre == nil {
				pre = map[string][2]float64{}
			}
		}
		if p, has := pre[id]; has && !ok(p[0], p[1]) {
			return "set-dimensions"
		}
		return "layout-" + in.Engine
	}
	judged := 0
	for i, o := range g.Objects {
		if len(o.ChildrenArray) > 0 || c21InGridOrSeq(o) || layIsGrid(o) || o.IsSequenceDiagram() {
			continue
		}
		sv := strings.ToLower(o.Shape.Value)
		if sv == "" {
			sv = d2target.ShapeRectangle
		}
		var ex *d2target.Shape
		if i < len(d.Shapes) && d.Shapes[i].ID == o.AbsID() {
			ex = &d.Shapes[i]
		}
		W, H := o.Width, o.Height
		hasW, hasH := o.WidthAttr != nil, o.HeightAttr != nil
		switch {
		case hasW && hasH:
			w, _ := strconv.Atoi(o.WidthAttr.Value)
			h, _ := strconv.Atoi(o.HeightAttr.Value)
			fw, fh := float64(w), float64(h)
			judged++
			res.Inc("explicit_checked")
			res.Inc("explicit_" + sv)
			// trigger: the layouts make room for a label / icon placed at an inside edge position
			// (Object.SpacingOpt "padding": INSIDE_TOP_*, INSIDE_BOTTOM_*, INSIDE_MIDDLE_LEFT/RIGHT)
			// by growing the shape — also a leaf with explicit dimensions
			trig := ":" + sv
			insideEdge := c21InsideEdge(o.HasLabel(), o.LabelPosition) || c21InsideEdge(o.HasIcon(), o.IconPosition)
			iconLabel := o.HasLabel() && o.HasIcon()
			switch {
			case in.Engine == "elk" && iconLabel:
				// d2elklayout: "this gives shapes extra height for their label if they also have an icon"
				trig = ":icon+label"
			case insideEdge:
				trig = ":label-or-icon-at-inside-edge-position"
			case iconLabel:
				trig = ":icon+label"
			}
			switch {
			case sv == d2target.ShapeSquare || sv == d2target.ShapeCircle:
				m := math.Max(fw, fh)
				ok := func(W, H float64) bool { return W == m && H == m }
				if !ok(W, H) {
					res.Viol("C21.explicit-size", "C21.explicit-size:"+where(o.AbsID(), ok)+trig,
						fmt.Sprintf("%s %q: width=%d height=%d given, laid out %vx%v (want %vx%v)", sv, o.AbsID(), w, h, W, H, m, m))
				}
			case sv == d2target.ShapeSQLTable || sv == d2target.ShapeClass || sv == d2target.ShapeCode || o.Language != "":
				res.Inc("explicit_content_floor_class")
				ok := func(W, H float64) bool { return W >= fw && H >= fh }
				if !ok(W, H) {
					res.Viol("C21.explicit-size-floor", "C21.explicit-size-floor:"+sv+":"+where(o.AbsID(), ok),
						fmt.Sprintf("%s %q: width=%d height=%d given, laid out smaller: %vx%v", sv, o.AbsID(), w, h, W, H))
				} else if a, has := getAuto()[o.AbsID()]; has {
					// never larger than max(given, automatic size): growth must come from the content
					if W > math.Max(fw, a[0])+0.5 || H > math.Max(fh, a[1])+0.5 {
						ok2 := func(W, H float64) bool { return W <= math.Max(fw, a[0])+0.5 && H <= math.Max(fh, a[1])+0.5 }
						res.Viol("C21.explicit-size-content", "C21.explicit-size-content:"+where(o.AbsID(), ok2)+trig,
							fmt.Sprintf("%s %q: width=%d height=%d given, automatic size %vx%v, laid out %vx%v (larger than both)", sv, o.AbsID(), w, h, a[0], a[1], W, H))
					}
					// and never below the content: the automatic size minus the inner label padding
					if W < math.Min(a[0]-float64(d2graph.INNER_LABEL_PADDING), fw)-0.5 {
						res.Viol("C21.explicit-size-content", "C21.explicit-size-below-content:"+sv, fmt.Sprintf("%s %q: laid out %vx%v, automatic %vx%v", sv, o.AbsID(), W, H, a[0], a[1]))
					}
				}
			default:
				ok := func(W, H float64) bool { return W == fw && H == fh }
				if !ok(W, H) {
					res.Viol("C21.explicit-size", "C21.explicit-size:"+where(o.AbsID(), ok)+trig,
						fmt.Sprintf("%s %q: width=%d height=%d given, laid out %vx%v", sv, o.AbsID(), w, h, W, H))
				}
			}
			if ex != nil && (float64(ex.Width) != W || float64(ex.Height) != H) {
				res.Viol("C21.export-size", "C21.export-size:"+sv, fmt.Sprintf("%q: graph object %vx%v exported as %dx%d", o.AbsID(), W, H, ex.Width, ex.Height))
			}
		case !hasW && !hasH:
			if sv == d2target.ShapeText || sv == d2target.ShapeCode {
				if o.Label.Value == "" {
					continue
				}
				judged++
				res.Inc("autofit_checked")
				res.Inc("autofit_" + sv)
				lw, lh := float64(o.LabelDimensions.Width), float64(o.LabelDimensions.Height)
				ok := func(W, H float64) bool { return W >= lw && H >= lh }
				if !ok(W, H) {
					res.Viol("C21.auto-fit", "C21.auto-fit:"+sv+":"+where(o.AbsID(), ok), fmt.Sprintf("%s %q: content %vx%v does not fit the automatic box %vx%v", sv, o.AbsID(), lw, lh, W, H))
				}
				continue
			}
			if !o.HasLabel() {
				res.Inc("vacuous_no_label")
				continue
			}
			if o.LabelPosition == nil {
				res.Inc("vacuous_no_label_position")
				continue
			}
			pos := label.FromString(*o.LabelPosition)
			if pos.IsOutside() || pos.IsBorder() {
				res.Inc("vacuous_label_outside")
				continue
			}
			judged++
			res.Inc("autofit_checked")
			res.Inc("autofit_" + sv)
			lw, lh := float64(o.LabelDimensions.Width), float64(o.LabelDimensions.Height)
			inner := c21Inner(sv, W, H, o.ContentAspectRatio)
			if inner.Width < lw || inner.Height < lh {
				ok := func(W, H float64) bool {
					b := c21Inner(sv, W, H, o.ContentAspectRatio)
					return b.Width >= lw && b.Height >= lh
				}
				trig := ""
				if o.Icon != nil {
					trig = ":with-icon"
				}
				mag := "by-at-most-2px"
				if math.Max(lw-inner.Width, lh-inner.Height) > 2 {
					mag = "by-more-than-2px"
				}
				res.Viol("C21.auto-fit", "C21.auto-fit:"+sv+":"+where(o.AbsID(), ok)+trig+":"+mag,
					fmt.Sprintf("%s %q (label position %s): label %vx%v does not fit the text area %vx%v of the automatic box %vx%v", sv, o.AbsID(), *o.LabelPosition, lw, lh, inner.Width, inner.Height, W, H))
			}
			if ex != nil && (float64(ex.Width) != W || float64(ex.Height) != H) {
				res.Viol("C21.export-size", "C21.export-size:"+sv, fmt.Sprintf("%q: graph object %vx%v exported as %dx%d", o.AbsID(), W, H, ex.Width, ex.Height))
			}
		default:
			res.Inc("vacuous_partial_dims")
		}
	}
	res.Add("leaves_judged", judged)
	res.Nontrivial = judged > 0
	return
}

func c21InsideEdge(has bool, pos *string) bool {
	if !has || pos == nil {
		return false
	}
	switch label.FromString(*pos) {
	case label.InsideTopLeft, label.InsideTopCenter, label.InsideTopRight,
		label.InsideBottomLeft, label.InsideBottomCenter, label.InsideBottomRight,
		label.InsideMiddleLeft, label.InsideMiddleRight:
		return true
	}
	return false
}

// c21Inner: the text area of a shape of DSL type sv occupying a WxH box.
func c21Inner(sv string, W, H float64, contentAspect *float64) *geo.Box {
	st, ok := d2target.DSL_SHAPE_TO_SHAPE_TYPE[sv]
	if !ok {
		st = shape.SQUARE_TYPE
	}
	s := shape.NewShape(st, geo.NewBox(geo.NewPoint(0, 0), W, H))
	if st == shape.CLOUD_TYPE && contentAspect != nil {
		s.SetInnerBoxAspectRatio(*contentAspect)
	}
	return s.GetInnerBox()
}
