package mon

import (
	"fmt"
	"strings"

	"verif/run"

	"oss.terrastruct.com/d2/d2ast"
	"oss.terrastruct.com/d2/d2graph"
	"oss.terrastruct.com/d2/d2parser"
	"oss.terrastruct.com/d2/d2target"
)

// Independent recomputation of "order of first appearance in the source" for C09.
//
// c09Walk walks the parsed source of one board in textual order and records, for the
// fragment it models, when an object path is first mentioned and when a connection is
// created. It does not look at anything d2ir / d2compiler produced. Modelled: key paths
// (every non-reserved element is an object), nesting, leading `_`, connections incl. chains
// and `x.(a -> b)` prefixes, case folding, reserved keywords ending a path, `shape: class`
// / `sql_table` (fields are not objects; connections to fields attach to the table).
// Everything else sets `unsupported` or simply yields a different object set, which makes
// the order clause vacuous for that board (see c09CheckOrder).

const c09Sep = "\x1f"

type c09EdgeRec struct {
	src, dst string
	sa, da   bool
}

type c09Walk struct {
	order       []string // object keys in order of first mention
	seen        map[string]bool
	edges       []c09EdgeRec
	shape       map[string]string
	unsupported string
}

func c09Reserved(s d2ast.String) (string, bool) {
	if !s.IsUnquoted() {
		return "", false
	}
	l := strings.ToLower(s.ScalarString())
	_, ok := d2ast.ReservedKeywords[l]
	return l, ok
}

func (w *c09Walk) touch(path []string) {
	k := strings.Join(path, c09Sep)
	if !w.seen[k] {
		w.seen[k] = true
		w.order = append(w.order, k)
	}
}

// resolve walks a key path from scope, touching every object element. It returns the
// object path and the reserved keyword that ended the path ("" if none).
func (w *c09Walk) resolve(kp *d2ast.KeyPath, scope []string) (path []string, kw string, ok bool) {
	cur := append([]string{}, scope...)
	i := 0
	for i < len(kp.Path) {
		s := kp.Path[i].Unbox()
		if s == nil {
			return nil, "", false
		}
		if s.IsUnquoted() && s.ScalarString() == "_" {
			if len(cur) == 0 {
				return nil, "", false
			}
			cur = cur[:len(cur)-1]
			i++
			continue
		}
		break
	}
	for ; i < len(kp.Path); i++ {
		s := kp.Path[i].Unbox()
		if s == nil {
			return nil, "", false
		}
		if l, res := c09Reserved(s); res {
			return cur, l, true
		}
		cur = append(cur, strings.ToLower(s.ScalarString()))
		w.touch(cur)
	}
	return cur, "", true
}

func (w *c09Walk) walkMap(m *d2ast.Map, scope []string) {
	for _, n := range m.Nodes {
		if w.unsupported != "" {
			return
		}
		switch {
		case n.Import != nil:
			w.unsupported = "import"
			return
		case n.Substitution != nil:
			w.unsupported = "spread-substitution"
			return
		case n.MapKey == nil:
			continue
		}
		k := n.MapKey
		switch {
		case k.Ampersand || k.NotAmpersand:
			w.unsupported = "filter"
		case k.HasGlob():
			w.unsupported = "glob"
		case k.Value.Null != nil || k.Primary.Null != nil:
			w.unsupported = "null"
		case k.Value.Suspension != nil || k.Primary.Suspension != nil:
			w.unsupported = "suspend"
		case k.Value.Import != nil:
			w.unsupported = "import"
		}
		if w.unsupported != "" {
			return
		}
		target := append([]string{}, scope...)
		kw := ""
		if k.Key != nil && len(k.Key.Path) > 0 {
			if first := k.Key.Path[0].Unbox(); first != nil {
				if l, res := c09Reserved(first); res {
					switch l {
					case "layers", "scenarios", "steps", "vars", "classes":
						continue // not objects of this board
					}
				}
			}
			var ok bool
			target, kw, ok = w.resolve(k.Key, scope)
			if !ok {
				w.unsupported = "unresolvable-key"
				return
			}
		}
		if len(k.Edges) > 0 {
			if kw != "" || k.EdgeIndex != nil {
				continue // reference to existing connections / malformed: creates nothing
			}
			for _, e := range k.Edges {
				if e.Src == nil || e.Dst == nil {
					w.unsupported = "bad-edge"
					return
				}
				src, skw, ok1 := w.resolve(e.Src, target)
				dst, dkw, ok2 := w.resolve(e.Dst, target)
				if !ok1 || !ok2 || skw != "" || dkw != "" {
					w.unsupported = "unresolvable-edge"
					return
				}
				w.edges = append(w.edges, c09EdgeRec{src: strings.Join(src, c09Sep), dst: strings.Join(dst, c09Sep), sa: e.SrcArrow == "<", da: e.DstArrow == ">"})
			}
			continue
		}
		switch {
		case kw == "" && k.Value.Map != nil:
			w.walkMap(k.Value.Map, target)
		case kw == "shape":
			v := k.Value.ScalarBox().Unbox()
			if v == nil {
				v = k.Primary.Unbox()
			}
			if v != nil {
				w.shape[strings.Join(target, c09Sep)] = strings.ToLower(v.ScalarString())
			}
		case kw == "class":
			w.unsupported = "class-reference" // a class may carry a shape
		}
	}
}

// finish removes what is not an object: descendants of class / sql_table objects;
// connections into them attach to the table.
func (w *c09Walk) finish() {
	special := func(k string) string {
		parts := strings.Split(k, c09Sep)
		for i := 1; i < len(parts); i++ {
			anc := strings.Join(parts[:i], c09Sep)
			if s := w.shape[anc]; s == d2target.ShapeClass || s == d2target.ShapeSQLTable {
				return anc
			}
		}
		return ""
	}
	var keep []string
	for _, k := range w.order {
		if special(k) == "" {
			keep = append(keep, k)
		}
	}
	w.order = keep
	for i := range w.edges {
		if a := special(w.edges[i].src); a != "" {
			w.edges[i].src = a
		}
		if a := special(w.edges[i].dst); a != "" {
			w.edges[i].dst = a
		}
	}
}

func c09ObjKey(o *d2graph.Object) string {
	var parts []string
	for cur := o; cur != nil && cur.Parent != nil; cur = cur.Parent {
		parts = append([]string{strings.ToLower(cur.IDVal)}, parts...)
	}
	return strings.Join(parts, c09Sep)
}

func c09Show(k string) string { return strings.ReplaceAll(k, c09Sep, ".") }

// c09CheckOrder judges the order clause for the root board and for plain layers.
func c09CheckOrder(res *run.Result, g *d2graph.Graph, text string) {
	ast, err := d2parser.Parse("x.d2", strings.NewReader(text), nil)
	if err != nil || ast == nil {
		return
	}
	if strings.Contains(text, "${") {
		res.Inc("vacuous_order_unmodelled_substitution")
		return
	}
	c09OrderBoard(res, g, ast, "root")
	// layers (no inheritance): find `layers: { name: {…} }` at the board's top level
	var layers func(g *d2graph.Graph, m *d2ast.Map, depth int)
	layers = func(g *d2graph.Graph, m *d2ast.Map, depth int) {
		for _, n := range m.Nodes {
			k := n.MapKey
			if k == nil || k.Key == nil || len(k.Key.Path) != 1 || len(k.Edges) > 0 || k.Value.Map == nil {
				continue
			}
			first := k.Key.Path[0].Unbox()
			if first == nil || !first.IsUnquoted() || first.ScalarString() != "layers" {
				continue
			}
			names := map[string]int{}
			for _, ln := range k.Value.Map.Nodes {
				lk := ln.MapKey
				if lk == nil || lk.Key == nil || len(lk.Key.Path) != 1 || lk.Key.Path[0].Unbox() == nil {
					continue
				}
				names[lk.Key.Path[0].Unbox().ScalarString()]++
			}
			for _, ln := range k.Value.Map.Nodes {
				lk := ln.MapKey
				if lk == nil || lk.Key == nil || len(lk.Key.Path) != 1 || len(lk.Edges) > 0 || lk.Value.Map == nil || lk.Key.Path[0].Unbox() == nil {
					continue
				}
				name := lk.Key.Path[0].Unbox().ScalarString()
				if names[name] != 1 {
					continue // re-opened layer: merged declarations, not modelled
				}
				for _, lg := range g.Layers {
					if lg.Name == name {
						c09OrderBoard(res, lg, lk.Value.Map, "layer")
						if depth < 3 {
							layers(lg, lk.Value.Map, depth+1)
						}
					}
				}
			}
		}
	}
	nLayerDecl := 0
	for _, n := range ast.Nodes {
		if k := n.MapKey; k != nil && k.Key != nil && len(k.Key.Path) == 1 && k.Key.Path[0].Unbox() != nil && k.Key.Path[0].Unbox().ScalarString() == "layers" {
			nLayerDecl++
		}
	}
	if nLayerDecl == 1 {
		layers(g, ast, 0)
	}
}

func c09OrderBoard(res *run.Result, g *d2graph.Graph, m *d2ast.Map, kind string) {
	w := &c09Walk{seen: map[string]bool{}, shape: map[string]string{}}
	w.walkMap(m, nil)
	if w.unsupported != "" {
		res.Inc("vacuous_order_" + kind + "_unmodelled_" + w.unsupported)
		return
	}
	w.finish()
	// objects
	var got []string
	gotSet := map[string]bool{}
	for _, o := range g.Objects {
		k := c09ObjKey(o)
		got = append(got, k)
		gotSet[k] = true
	}
	same := len(gotSet) == len(w.order) && len(got) == len(w.order)
	for _, k := range w.order {
		if !gotSet[k] {
			same = false
		}
	}
	if !same {
		res.Inc("vacuous_order_" + kind + "_object_set_differs_from_walk")
	} else {
		res.Inc("clause_order_objects_judged_" + kind)
		if len(got) >= 3 {
			res.Inc("clause_order_objects_judged_3plus_" + kind)
		}
		for i := range got {
			if got[i] != w.order[i] {
				var a, b []string
				for _, k := range got {
					a = append(a, c09Show(k))
				}
				for _, k := range w.order {
					b = append(b, c09Show(k))
				}
				res.Viol("C09.order.objects", "C09.order.objects:"+kind, fmt.Sprintf("%s board %q: objects are not listed in order of first appearance\n listed:           %s\n first appearance: %s", kind, g.Name, strings.Join(a, " "), strings.Join(b, " ")))
				break
			}
		}
	}
	// edges
	var gotE []c09EdgeRec
	count := map[c09EdgeRec]int{}
	for _, e := range g.Edges {
		r := c09EdgeRec{src: c09ObjKey(e.Src), dst: c09ObjKey(e.Dst), sa: e.SrcArrow, da: e.DstArrow}
		gotE = append(gotE, r)
		count[r]++
	}
	for _, r := range w.edges {
		count[r]--
	}
	sameE := len(gotE) == len(w.edges)
	for _, n := range count {
		if n != 0 {
			sameE = false
		}
	}
	if !same || !sameE {
		res.Inc("vacuous_order_" + kind + "_edge_set_differs_from_walk")
		return
	}
	res.Inc("clause_order_edges_judged_" + kind)
	if len(gotE) >= 2 {
		res.Inc("clause_order_edges_judged_2plus_" + kind)
	}
	for i := range gotE {
		if gotE[i] != w.edges[i] {
			show := func(es []c09EdgeRec) string {
				var s []string
				for _, e := range es {
					s = append(s, fmt.Sprintf("%s%s%s", c09Show(e.src), map[bool]string{true: "<", false: ""}[e.sa]+"-"+map[bool]string{true: ">", false: "-"}[e.da], c09Show(e.dst)))
				}
				return strings.Join(s, "  ")
			}
			res.Viol("C09.order.edges", "C09.order.edges:"+kind, fmt.Sprintf("%s board %q: connections are not listed in order of first appearance\n listed:           %s\n first appearance: %s", kind, g.Name, show(gotE), show(w.edges)))
			break
		}
	}
}
