package mon

// Shared machinery of the d2oracle monitors C36–C41 (DESIGN.md §4 "Editing API"):
//   - orcState / orcSnap: a compiled program and a per-board snapshot in which elements are
//     keyed by their unique label tag L<n> (never by ID),
//   - orcResolve: turns a symbolic gen.EditOp into a concrete d2oracle call against the
//     current state (deterministic, so replays are exact),
//   - orcRun: runs a history through the real d2oracle, chaining the returned graphs like an
//     editor does, and calls the property's hooks around every operation.
// Each property registers its own run.Check (c36.go … c41.go) with its own hooks; they
// only share the case list and this runner.

import (
	"encoding/json"
	"fmt"
	"os"
	"regexp"
	"runtime/debug"
	"sort"
	"strconv"
	"strings"
	"testing/fstest"

	"oss.terrastruct.com/d2/d2ast"
	"oss.terrastruct.com/d2/d2compiler"
	"oss.terrastruct.com/d2/d2format"
	"oss.terrastruct.com/d2/d2graph"
	"oss.terrastruct.com/d2/d2oracle"
	"oss.terrastruct.com/d2/d2parser"

	"verif/gen"
	"verif/proj"
	"verif/run"
)

// ---------------------------------------------------------------------------------------
// case list (shared by C36–C41)

func orcGen(seed int64, tier string, emit func(run.Case)) {
	r := gen.New(seed)
	n := tierN(tier, 500, 2500) // thorough = the volume at which the registered root-cause set was stabilised (two seeds); 25 000 was planned
	if v, err := strconv.Atoi(os.Getenv("ORC_N")); err == nil && v > 0 {
		n = v // triage aid only: a prefix of the same case list
	}
	for i := 0; i < n; i++ {
		q := r.Sub(i)
		c := gen.Edits(q, 20)
		emit(run.MkCase(fmt.Sprintf("h%06d", i), "edits", c))
	}
}

// ---------------------------------------------------------------------------------------
// snapshots

type orcObj struct {
	Tag     string // unique label tag "L12", "" when anonymous
	AbsID   string
	ID      string
	IDVal   string
	Path    []string // lower-cased IDVal chain from the board root
	PathKey string
	Parent  int // index into Objs, -1 = board root
	Attrs   map[string]any
	Class   any
	SQL     any
	NearRaw string
	Shape   string
	// LabelKW: the label comes from an explicit `label` keyword (x.label: v / {label: v})
	// rather than from the primary value of a declaration.
	LabelKW bool
	// How the source text refers to the object (trigger predicates for signatures):
	// RefChain: endpoint of a connection chain; RefMid: inner segment of a dotted key
	// (a.THIS.c); RefMulti: declared by more than one non-connection statement;
	// RefEdgeOnly: exists only as a connection endpoint.
	RefChain, RefMid, RefMulti, RefEdgeOnly, RefDotted bool
	// RefChainInner: inner node of a chain (`x -> THIS -> y`: one key shared by two edges)
	RefChainInner bool
	// Foreign: at least one reference lives in another file (imported object).
	Foreign bool
	// RefFlatAttr: a dotted key continues with a reserved keyword right after this object
	// and the object is not the first segment (`p.THIS.label: x`, `p.THIS.style.fill: red`).
	RefFlatAttr bool
	// Inherited (nested boards): some reference is declared outside the addressed board's
	// own AST (the board inherits the element from its base board).
	Inherited bool
	// InheritedKey: a plain-key (non-connection) reference lies outside the board's own AST,
	// i.e. the base board *declares* the object (not merely uses it as a connection endpoint).
	InheritedKey bool
	// DupAttr: one of the object's maps declares the same attribute key twice.
	DupAttr bool
}

type orcEdge struct {
	Tag                string
	AbsID              string
	Src, Dst           int
	SrcArrow, DstArrow bool
	Index              int
	Attrs              map[string]any
	SrcHead, DstHead   map[string]any
	LabelKW            bool
	// RefCount: number of source references (declaration + `(a -> b)[i]…` index references);
	// InChain: declared inside a connection chain; Foreign/Inherited as for objects.
	RefCount  int
	InChain   bool
	// HeadMap: a `(a -> b)[i].source-arrowhead: v {…}` style reference carries a map
	HeadMap bool
	// UnderscoreDecl: declared with `_`-relative endpoints (`_.a -> _.b` inside a container);
	// Scope: index of the object in whose map it is declared (-1 = board root)
	UnderscoreDecl bool
	Scope          int
	Foreign   bool
	Inherited bool
}

type orcSnap struct {
	Objs      []orcObj
	Edges     []orcEdge
	objByTag  map[string]int
	edgeByTag map[string]int
	byPath    map[string]int
	Pi        string // π of this board alone (no nested boards)
	PiSorted  string // the same as a multiset (objects and connections sorted by ID)
	// NearKeyWithMap: some `…near: v {…}` key of the board carries a map next to its value.
	NearKeyWithMap bool
}

var orcTagRe = regexp.MustCompile(`^(L[0-9]+)(\|.*)?$`)

func orcTagOf(attrs map[string]any) string {
	l, _ := attrs["label"].(map[string]any)
	if l == nil {
		return ""
	}
	v, _ := l["value"].(string)
	m := orcTagRe.FindStringSubmatch(v)
	if m == nil {
		return ""
	}
	return m[1]
}

func orcPathKey(p []string) string { return strings.ToLower(strings.Join(p, "\x00")) }

// orcBoardOnly projects one board without its nested boards.
func orcBoardOnly(g *d2graph.Graph) *proj.Board {
	gg := *g
	gg.Layers, gg.Scenarios, gg.Steps = nil, nil, nil
	return proj.Graph(&gg, proj.Opts{})
}

func orcSnapOf(g *d2graph.Graph) *orcSnap {
	s := &orcSnap{objByTag: map[string]int{}, edgeByTag: map[string]int{}, byPath: map[string]int{}}
	pb := orcBoardOnly(g)
	s.Pi = pb.String()
	s.PiSorted = pb.Sorted().String()
	idx := map[*d2graph.Object]int{}
	for i, o := range g.Objects {
		idx[o] = i
	}
	tagCount := map[string]int{}
	for i, o := range g.Objects {
		po := pb.Objects[i]
		oo := orcObj{AbsID: po.AbsID, ID: po.ID, IDVal: po.IDVal, Attrs: po.Attrs, Class: po.Class, SQL: po.SQLTable, NearRaw: po.Near, Parent: -1}
		if o.Parent != nil && o.Parent != g.Root {
			if pi, ok := idx[o.Parent]; ok {
				oo.Parent = pi
			}
		}
		if sh, _ := po.Attrs["shape"].(map[string]any); sh != nil {
			oo.Shape, _ = sh["value"].(string)
		}
		oo.LabelKW = orcLabelViaKeyword(o.Label.MapKey)
		nKey := 0
		for ri, ref := range o.References {
			if ri > 0 && ref.Key != nil && ref.Key == o.References[ri-1].Key && ref.InEdge() {
				oo.RefChainInner = true
			}
			if ref.Key != nil && ref.Key.Range.Path != "index.d2" {
				oo.Foreign = true
			}
			if ref.MapKey == nil {
				continue
			}
			if ref.InEdge() {
				if len(ref.MapKey.Edges) > 1 {
					oo.RefChain = true
				}
			} else if len(ref.MapKey.Edges) == 0 {
				nKey++
			}
			if ref.Key != nil && ref.KeyPathIndex > 0 && !ref.InEdge() {
				oo.RefDotted = true
			}
			if ref.Key != nil && ref.KeyPathIndex < len(ref.Key.Path)-1 {
				if _, res := d2ast.ReservedKeywords[ref.Key.Path[ref.KeyPathIndex+1].Unbox().ScalarString()]; !res {
					oo.RefMid = true
				} else if ref.KeyPathIndex > 0 {
					oo.RefFlatAttr = true
				}
			}
			if g.BaseAST != nil && ref.ScopeAST != nil && ref.ScopeAST != g.BaseAST && g.Parent != nil {
				oo.Inherited = true
				if len(ref.MapKey.Edges) == 0 {
					oo.InheritedKey = true
				}
			}
			if m := ref.MapKey.Value.Map; m != nil && len(ref.MapKey.Edges) == 0 && ref.Key != nil && ref.KeyPathIndex == len(ref.Key.Path)-1 {
				seen := map[string]bool{}
				for _, n := range m.Nodes {
					if n.MapKey == nil || n.MapKey.Key == nil || len(n.MapKey.Edges) > 0 {
						continue
					}
					var parts []string
					for _, sb := range n.MapKey.Key.Path {
						parts = append(parts, sb.Unbox().ScalarString())
					}
					if _, res := d2ast.ReservedKeywords[parts[0]]; !res {
						continue
					}
					ks := strings.Join(parts, ".")
					if seen[ks] {
						oo.DupAttr = true
					}
					seen[ks] = true
				}
			}
			if ref.MapKey.Key != nil && len(ref.MapKey.Key.Path) > 0 && len(ref.MapKey.Edges) == 0 &&
				ref.MapKey.Key.Path[len(ref.MapKey.Key.Path)-1].Unbox().ScalarString() == "near" &&
				(ref.MapKey.Value.Map != nil || ref.MapKey.Primary.Unbox() != nil) {
				s.NearKeyWithMap = true
			}
		}
		oo.RefMulti = nKey > 1
		oo.RefEdgeOnly = nKey == 0
		oo.Tag = orcTagOf(po.Attrs)
		if lv, _ := orcScalar(po.Attrs, "label"); lv == po.IDVal {
			oo.Tag = "" // a label that merely defaults to the ID is not a tag
		}
		if oo.Tag != "" {
			tagCount[oo.Tag]++
		}
		s.Objs = append(s.Objs, oo)
	}
	// paths (parents precede children in g.Objects is not guaranteed: resolve recursively)
	var pathOf func(i int) []string
	pathOf = func(i int) []string {
		if s.Objs[i].Path != nil {
			return s.Objs[i].Path
		}
		var p []string
		if s.Objs[i].Parent >= 0 {
			p = append(p, pathOf(s.Objs[i].Parent)...)
		}
		p = append(p, strings.ToLower(s.Objs[i].IDVal))
		s.Objs[i].Path = p
		return p
	}
	for i := range s.Objs {
		pathOf(i)
		s.Objs[i].PathKey = orcPathKey(s.Objs[i].Path)
		s.byPath[s.Objs[i].PathKey] = i
	}
	for i, e := range g.Edges {
		pe := pb.Edges[i]
		ee := orcEdge{AbsID: pe.AbsID, SrcArrow: pe.SrcArrow, DstArrow: pe.DstArrow, Index: pe.Index, Attrs: pe.Attrs, SrcHead: pe.SrcHead, DstHead: pe.DstHead, Src: -1, Dst: -1}
		if si, ok := idx[e.Src]; ok {
			ee.Src = si
		}
		if di, ok := idx[e.Dst]; ok {
			ee.Dst = di
		}
		ee.LabelKW = orcLabelViaKeyword(e.Label.MapKey)
		ee.RefCount = len(e.References)
		ee.Scope = -1
		for _, ref := range e.References {
			if ref.ScopeObj != nil && ref.ScopeObj != g.Root {
				if si, ok := idx[ref.ScopeObj]; ok && ee.Scope < 0 {
					ee.Scope = si
				}
			}
			if ref.Edge != nil {
				for _, kp := range []*d2ast.KeyPath{ref.Edge.Src, ref.Edge.Dst} {
					if kp != nil && len(kp.Path) > 0 && kp.Path[0].UnquotedString != nil && kp.Path[0].Unbox().ScalarString() == "_" {
						ee.UnderscoreDecl = true
					}
				}
			}
			if ref.MapKey != nil && len(ref.MapKey.Edges) > 1 {
				ee.InChain = true
			}
			if ref.MapKey != nil && ref.MapKey.EdgeKey != nil && len(ref.MapKey.EdgeKey.Path) > 0 && ref.MapKey.Value.Map != nil {
				if h := ref.MapKey.EdgeKey.Path[0].Unbox().ScalarString(); h == "source-arrowhead" || h == "target-arrowhead" {
					ee.HeadMap = true
				}
			}
			if ref.MapKey != nil {
				// label set by an explicit `label` key (index reference or entry of the map)
				if ek := ref.MapKey.EdgeKey; ek != nil && len(ek.Path) > 0 && ek.Path[len(ek.Path)-1].Unbox().ScalarString() == "label" {
					ee.LabelKW = true
				}
				if m := ref.MapKey.Value.Map; m != nil {
					for _, n := range m.Nodes {
						if n.MapKey != nil && n.MapKey.Key != nil && len(n.MapKey.Key.Path) == 1 && n.MapKey.Key.Path[0].Unbox().ScalarString() == "label" {
							ee.LabelKW = true
						}
					}
				}
			}
			if ref.Edge != nil && ref.Edge.Range.Path != "index.d2" {
				ee.Foreign = true
			}
			if g.BaseAST != nil && ref.ScopeAST != nil && ref.ScopeAST != g.BaseAST && g.Parent != nil {
				ee.Inherited = true
			}
		}
		ee.Tag = orcTagOf(pe.Attrs)
		if ee.Tag != "" {
			tagCount[ee.Tag]++
		}
		s.Edges = append(s.Edges, ee)
	}
	for i := range s.Objs {
		if t := s.Objs[i].Tag; t != "" {
			if tagCount[t] == 1 {
				s.objByTag[t] = i
			} else {
				s.Objs[i].Tag = ""
			}
		}
	}
	for i := range s.Edges {
		if t := s.Edges[i].Tag; t != "" {
			if tagCount[t] == 1 {
				s.edgeByTag[t] = i
			} else {
				s.Edges[i].Tag = ""
			}
		}
	}
	return s
}

func orcLabelViaKeyword(mk *d2ast.Key) bool {
	if mk == nil {
		return false
	}
	last := func(kp *d2ast.KeyPath) string {
		if kp == nil || len(kp.Path) == 0 {
			return ""
		}
		return kp.Path[len(kp.Path)-1].Unbox().ScalarString()
	}
	if mk.EdgeKey != nil {
		return last(mk.EdgeKey) == "label"
	}
	return len(mk.Edges) == 0 && last(mk.Key) == "label"
}

// underSpecial: is the path at or below an object whose children are fields, not objects
// (class, sql_table)?
func (s *orcSnap) underSpecial(path []string) bool {
	for i := 1; i <= len(path); i++ {
		if j, ok := s.byPath[orcPathKey(path[:i])]; ok {
			if sh := strings.ToLower(s.Objs[j].Shape); sh == "class" || sh == "sql_table" {
				return true
			}
		}
	}
	return false
}

// ref names an object independently of its ID where possible.
func (s *orcSnap) ref(i int) string {
	if i < 0 {
		return "<root>"
	}
	if s.Objs[i].Tag != "" {
		return s.Objs[i].Tag
	}
	return "anon#" + s.Objs[i].AbsID
}

// nearRef resolves an object-valued near to the referenced object's ref ("" = none,
// "const:…" = constant or unresolvable).
func (s *orcSnap) nearRef(i int) string {
	raw := s.Objs[i].NearRaw
	if raw == "" {
		return ""
	}
	parts := strings.Split(raw, "\x1f")
	if j, ok := s.byPath[orcPathKey(parts)]; ok {
		return "obj:" + s.ref(j)
	}
	return "const:" + raw
}

func (s *orcSnap) isDesc(i, anc int) bool { // strict descendant
	for p := s.Objs[i].Parent; p >= 0; p = s.Objs[p].Parent {
		if p == anc {
			return true
		}
	}
	return false
}

func (s *orcSnap) children(i int) []int {
	var out []int
	for j := range s.Objs {
		if s.Objs[j].Parent == i {
			out = append(out, j)
		}
	}
	return out
}

func orcDeepCopy(v any) any {
	switch t := v.(type) {
	case map[string]any:
		m := make(map[string]any, len(t))
		for k, x := range t {
			m[k] = orcDeepCopy(x)
		}
		return m
	case []any:
		a := make([]any, len(t))
		for i, x := range t {
			a[i] = orcDeepCopy(x)
		}
		return a
	}
	return v
}

// orcJSONWithout renders attrs canonically with the given paths removed.
func orcJSONWithout(attrs map[string]any, drop ...[]string) string {
	m := orcDeepCopy(attrs).(map[string]any)
	for _, p := range drop {
		cur := m
		for i, k := range p {
			if i == len(p)-1 {
				delete(cur, k)
				break
			}
			nx, _ := cur[k].(map[string]any)
			if nx == nil {
				break
			}
			cur = nx
		}
	}
	b, _ := json.Marshal(m)
	return string(b)
}

func orcGet(attrs map[string]any, path ...string) (any, bool) {
	var cur any = attrs
	for _, k := range path {
		m, _ := cur.(map[string]any)
		if m == nil {
			return nil, false
		}
		v, ok := m[k]
		if !ok {
			return nil, false
		}
		cur = v
	}
	return cur, true
}

func orcScalar(attrs map[string]any, path ...string) (string, bool) {
	v, ok := orcGet(attrs, append(path, "value")...)
	if !ok {
		return "", false
	}
	s, ok := v.(string)
	return s, ok
}

// objContent: everything the statements call "labels and attributes" of an object, without
// IDs. dropLabel is used for anonymous objects whose default label is their ID.
func (s *orcSnap) objContent(i int, dropLabel bool, drop ...[]string) string {
	o := s.Objs[i]
	if lv, _ := orcScalar(o.Attrs, "label"); lv == o.IDVal {
		// a label that defaults to the ID is spelled like the ID's first reference, which an
		// edit may legitimately change (see orcUnchanged): not an attribute of its own
		dropLabel = true
	}
	if dropLabel {
		drop = append(drop, []string{"label"})
	}
	c, _ := json.Marshal(o.Class)
	q, _ := json.Marshal(o.SQL)
	return orcJSONWithout(o.Attrs, drop...) + "|near=" + s.nearRef(i) + "|class=" + string(c) + "|sql=" + string(q)
}

func (s *orcSnap) edgeContent(i int, withArrows bool, drop ...[]string) string {
	e := s.Edges[i]
	a, _ := json.Marshal(e.SrcHead)
	b, _ := json.Marshal(e.DstHead)
	out := orcJSONWithout(e.Attrs, drop...) + "|sh=" + string(a) + "|dh=" + string(b)
	if withArrows {
		out += fmt.Sprintf("|arrows=%v,%v", e.SrcArrow, e.DstArrow)
	}
	return out
}

// ---------------------------------------------------------------------------------------
// state

type orcBoard struct {
	Path  []string // board names from the root ([] = root)
	Kinds []string // layers|scenarios|steps per element
	Key   string   // root.layers.x …
	G     *d2graph.Graph
	// Base is the index of the board this one inherits from (scenario → enclosing board,
	// step → previous step or enclosing board for the first; layer → -1), Encl the
	// enclosing board.
	Base, Encl int
}

type orcState struct {
	G      *d2graph.Graph
	Text   string
	Boards []orcBoard
	snaps  map[string]*orcSnap
	glob   int // 0 unknown, 1 no glob keys in the source, 2 glob keys present
}

func orcFS(files map[string]string) fstest.MapFS {
	fs := fstest.MapFS{}
	for k, v := range files {
		fs[k] = &fstest.MapFile{Data: []byte(v)}
	}
	return fs
}

func orcCompile(text string, fs fstest.MapFS) (*d2graph.Graph, error) {
	g, _, err := d2compiler.Compile("index.d2", strings.NewReader(text), &d2compiler.CompileOptions{FS: fs})
	return g, err
}

func orcNewState(g *d2graph.Graph, text string) *orcState {
	st := &orcState{G: g, Text: text, snaps: map[string]*orcSnap{}}
	var rec func(g *d2graph.Graph, path, kinds []string, key string, encl, base int)
	rec = func(g *d2graph.Graph, path, kinds []string, key string, encl, base int) {
		me := len(st.Boards)
		st.Boards = append(st.Boards, orcBoard{Path: path, Kinds: kinds, Key: key, G: g, Base: base, Encl: encl})
		for _, x := range g.Layers {
			rec(x, append(append([]string{}, path...), x.Name), append(append([]string{}, kinds...), "layers"), key+".layers."+x.Name, me, -1)
		}
		for _, x := range g.Scenarios {
			rec(x, append(append([]string{}, path...), x.Name), append(append([]string{}, kinds...), "scenarios"), key+".scenarios."+x.Name, me, me)
		}
		prev := me
		for _, x := range g.Steps {
			idx := len(st.Boards)
			rec(x, append(append([]string{}, path...), x.Name), append(append([]string{}, kinds...), "steps"), key+".steps."+x.Name, me, prev)
			prev = idx
		}
	}
	rec(g, nil, nil, "root", -1, -1)
	return st
}

// hasGlob: the source contains glob keys (they can only get there through hostile
// operation arguments). A glob re-applies to whatever an edit creates, renames or removes,
// so "every other element unchanged" is not what the language promises for such sources;
// the element-level monitors count these operations instead of judging them.
func (st *orcState) hasGlob() bool {
	if st.glob == 0 {
		st.glob = 1
		if st.G != nil && st.G.AST != nil {
			d2ast.Walk(st.G.AST, func(n d2ast.Node) bool {
				if kp, ok := n.(*d2ast.KeyPath); ok && kp.HasGlob() {
					st.glob = 2
				}
				return true
			})
		}
	}
	return st.glob == 2
}

func (st *orcState) snap(i int) *orcSnap {
	b := st.Boards[i]
	if s, ok := st.snaps[b.Key]; ok {
		return s
	}
	s := orcSnapOf(b.G)
	st.snaps[b.Key] = s
	return s
}

func (st *orcState) snapAll() {
	for i := range st.Boards {
		st.snap(i)
	}
}

func (st *orcState) boardIndex(key string) int {
	for i, b := range st.Boards {
		if b.Key == key {
			return i
		}
	}
	return -1
}

// hollow: a scenario/step declared without a map (`s1` instead of `s1: {…}`) compiles to an
// empty board that does not inherit yet; the first edit gives it a map and with it the
// whole inherited content. That is language behaviour (C15), not an effect of the edit, so
// the element-level monitors do not judge edits addressed to such a board.
func (st *orcState) hollow(i int) bool {
	b := st.Boards[i]
	return b.Base >= 0 && len(b.G.Objects) == 0 && len(st.Boards[b.Base].G.Objects) > 0
}

// orcWentHollow: the edit emptied a scenario/step, whose map the formatter then prints as a
// bare key (`s1: {}` -> `s1`); such a board no longer inherits anything (see hollow). The
// board-level consequence belongs to the formatter/compiler pair (C04/C15), so the
// element-level monitors do not judge that edit.
func orcWentHollow(s *orcStep) bool {
	if s.Post == nil || s.Pre.hollow(s.Call.BoardIdx) {
		return false
	}
	i := s.Post.boardIndex(s.Pre.Boards[s.Call.BoardIdx].Key)
	return i >= 0 && s.Post.hollow(i)
}

// inherits: does board x inherit (transitively) from board b?
func (st *orcState) inherits(x, b int) bool {
	for p := st.Boards[x].Base; p >= 0; p = st.Boards[p].Base {
		if p == b {
			return true
		}
	}
	return false
}

// enclosedBy: is board x nested (textually) inside board b?
func (st *orcState) enclosedBy(x, b int) bool {
	for p := st.Boards[x].Encl; p >= 0; p = st.Boards[p].Encl {
		if p == b {
			return true
		}
	}
	return false
}

// ---------------------------------------------------------------------------------------
// concrete calls

type orcCall struct {
	Kind     string   `json:"kind"`
	BoardIdx int      `json:"-"`
	Board    []string `json:"board"`
	Key      string   `json:"key,omitempty"`
	Tag      *string  `json:"tag,omitempty"`
	Value    *string  `json:"value,omitempty"`
	NewName  string   `json:"new_name,omitempty"`
	NewKey   string   `json:"new_key,omitempty"`
	Desc     bool     `json:"desc,omitempty"`
	Src      *string  `json:"src,omitempty"`
	Dst      *string  `json:"dst,omitempty"`
	Path     string   `json:"path,omitempty"`
	NewPath  *string  `json:"new_path,omitempty"`
	Variant  string   `json:"variant"`
}

func (c orcCall) String() string {
	p := func(s *string) string {
		if s == nil {
			return "nil"
		}
		return fmt.Sprintf("%q", *s)
	}
	switch c.Kind {
	case "create":
		return fmt.Sprintf("Create(board=%q, key=%q)", c.Board, c.Key)
	case "set":
		return fmt.Sprintf("Set(board=%q, key=%q, tag=%s, value=%s)", c.Board, c.Key, p(c.Tag), p(c.Value))
	case "delete":
		return fmt.Sprintf("Delete(board=%q, key=%q)", c.Board, c.Key)
	case "rename":
		return fmt.Sprintf("Rename(board=%q, key=%q, newName=%q)", c.Board, c.Key, c.NewName)
	case "move":
		return fmt.Sprintf("Move(board=%q, key=%q, newKey=%q, includeDescendants=%v)", c.Board, c.Key, c.NewKey, c.Desc)
	case "reconnect":
		return fmt.Sprintf("ReconnectEdge(board=%q, edge=%q, src=%s, dst=%s)", c.Board, c.Key, p(c.Src), p(c.Dst))
	case "updateimport":
		return fmt.Sprintf("UpdateImport(path=%q, newPath=%s)", c.Path, p(c.NewPath))
	}
	return c.Kind
}

var orcStyleJSON = map[string]string{"stroke-width": "strokeWidth", "stroke-dash": "strokeDash", "border-radius": "borderRadius",
	"font-size": "fontSize", "font-color": "fontColor", "fill-pattern": "fillPattern", "text-transform": "textTransform", "double-border": "doubleBorder"}

func orcStyleKey(k string) string {
	if j, ok := orcStyleJSON[k]; ok {
		return j
	}
	return k
}

var orcArrows = []string{"->", "<-", "--", "<->"}

func orcSP(s string) *string { return &s }

// orcResolve maps a symbolic op to a concrete call on the current state.
func orcResolve(op gen.EditOp, st *orcState) (orcCall, bool) {
	c := orcCall{Kind: op.Kind, Desc: op.Desc}
	bi := 0
	if op.Board > 0 && len(st.Boards) > 1 {
		bi = 1 + (op.Board-1)%(len(st.Boards)-1)
	}
	c.BoardIdx = bi
	c.Board = st.Boards[bi].Path
	if c.Board == nil {
		c.Board = []string{}
	}
	bg := st.Boards[bi].G
	objs, edges := bg.Objects, bg.Edges
	// On nested boards a third of the object selections prefer objects without a label of
	// their own (they exist only as connection endpoints / path prefixes — typically
	// inherited from the base board that way).
	var bare []*d2graph.Object
	if bi > 0 && (op.Var>>9)%3 == 0 {
		for _, o := range objs {
			if o.Label.Value == o.IDVal {
				bare = append(bare, o)
			}
		}
	}
	obj := func(sel int) *d2graph.Object {
		if len(objs) == 0 {
			return nil
		}
		if len(bare) > 0 {
			return bare[sel%len(bare)]
		}
		return objs[sel%len(objs)]
	}
	edge := func(sel int) *d2graph.Edge {
		if len(edges) == 0 {
			return nil
		}
		return edges[sel%len(edges)]
	}
	rr := gen.New(int64(op.Var)*7919 + int64(op.Sel[2]))
	v := op.Var % 10
	sub := (op.Var >> 4) % 16
	name := gen.EditKey(op.Str[0])
	switch op.Kind {
	case "create":
		switch v {
		case 0, 1:
			c.Key, c.Variant = name, "fresh-root"
		case 2, 3:
			o := obj(op.Sel[0])
			if o == nil {
				c.Key, c.Variant = name, "fresh-root"
			} else {
				c.Key, c.Variant = o.AbsID()+"."+name, "fresh-child"
			}
		case 4:
			o := obj(op.Sel[0])
			if o == nil {
				return c, false
			}
			c.Key, c.Variant = o.AbsID(), "existing-key"
		case 5, 6:
			a, b := obj(op.Sel[0]), obj(op.Sel[1])
			if a == nil {
				return c, false
			}
			c.Key, c.Variant = a.AbsID()+" "+orcArrows[sub%4]+" "+b.AbsID(), "edge-existing"
		case 7:
			a := obj(op.Sel[0])
			if a == nil {
				c.Key = "q -> " + name
			} else if sub%2 == 0 {
				c.Key = a.AbsID() + " -> " + name
			} else {
				c.Key = name + " -> " + a.AbsID()
			}
			c.Variant = "edge-fresh-end"
		case 8:
			c.Key, c.Variant = op.Str[0], "raw-key"
		default:
			if sub%4 == 0 {
				c.Key = []string{"layers", "scenarios", "steps"}[(op.Var>>8)%3] + "." + fmt.Sprintf("nb%d", op.Sel[0]%50)
				c.Variant = "board"
			} else {
				c.Key, c.Variant = name+".q.z"+strings.ToLower(op.Str[1]), "fresh-deep"
			}
		}
	case "set":
		valSel := (op.Var >> 8) % 4
		labelVal := func() string {
			switch valSel {
			case 0:
				return op.Str[1]
			case 1:
				return op.Str[1] + "|" + op.Str[0]
			}
			return op.Str[0]
		}
		switch {
		case v <= 5 || (v <= 8 && len(edges) == 0) || v == 9:
			var base string
			if v == 9 {
				base, c.Variant = name, "obj-fresh"
			} else {
				o := obj(op.Sel[0])
				if o == nil {
					base, c.Variant = name, "obj-fresh"
				} else {
					base, c.Variant = o.AbsID(), "obj"
				}
			}
			switch sub {
			case 0, 1, 2:
				c.Key, c.Value = base, orcSP(labelVal())
				c.Variant += "-label-primary"
			case 3:
				c.Key, c.Value = base+".label", orcSP(labelVal())
				c.Variant += "-label"
			case 4, 5:
				c.Key = base + ".shape"
				c.Value = orcSP(rr.RandCase(gen.Pick(rr, gen.SimpleShapes)))
				if sub == 5 && valSel == 3 {
					c.Value = orcSP(op.Str[0])
				}
				c.Variant += "-shape"
			case 6, 7, 8, 9, 10, 11:
				k := gen.EditStyleObj[op.Sel[1]%len(gen.EditStyleObj)]
				if o := obj(op.Sel[0]); sub <= 8 && v != 9 && o != nil {
					// half of the time address a style the object already has (the in-place
					// update path of _set), otherwise any style (the append path)
					var have []string
					a := proj.Object(o, proj.Opts{}).Attrs
					for _, sk := range gen.EditStyleObj {
						if _, ok := orcGet(a, "style", orcStyleKey(sk)); ok {
							have = append(have, sk)
						}
					}
					if len(have) > 0 {
						k = have[op.Sel[1]%len(have)]
						c.Variant += "-present"
					}
				}
				c.Key, c.Value = base+".style."+k, orcSP(gen.EditStyleValue(rr, k))
				if sub == 11 {
					c.Value = orcSP(rr.RandCase(*c.Value))
				}
				c.Variant += "-style"
			case 12:
				c.Key, c.Value = base+".tooltip", orcSP(op.Str[0])
				c.Variant += "-tooltip"
			case 13:
				switch op.Sel[1] % 5 {
				case 0:
					c.Key, c.Value = base+".link", orcSP("https://example.com/"+op.Str[1])
				case 1:
					c.Key, c.Value = base+".width", orcSP(fmt.Sprint(20+op.Sel[2]%300))
				case 2:
					c.Key, c.Value = base+".height", orcSP(fmt.Sprint(20+op.Sel[2]%300))
				case 3:
					c.Key, c.Value = base+".near", orcSP([]string{"top-left", "top-center", "bottom-right", "center-left"}[op.Sel[2]%4])
				default:
					c.Key, c.Value = base+".label.near", orcSP([]string{"top-left", "outside-top-center", "bottom-right", "center-center"}[op.Sel[2]%4])
				}
				c.Variant += "-other"
			case 14:
				k := gen.EditStyleObj[op.Sel[1]%len(gen.EditStyleObj)]
				c.Key, c.Value = base+".style."+k, orcSP(op.Str[0])
				c.Variant += "-style-hostile"
			default:
				if o2 := obj(op.Sel[1]); o2 != nil && len(st.Boards[bi].Path) == 0 {
					c.Key, c.Value = base+".near", orcSP(o2.AbsID())
					c.Variant += "-near-object"
				} else {
					c.Key, c.Value = base+".icon", orcSP("https://icons.terrastruct.com/essentials/004-picture.svg")
					c.Variant += "-icon"
				}
			}
		default:
			e := edge(op.Sel[0])
			base := e.AbsID()
			c.Variant = "edge"
			switch sub {
			case 0, 1, 2, 3:
				c.Key, c.Value = base, orcSP(labelVal())
				c.Variant += "-label-primary"
			case 4:
				c.Key, c.Value = base+".label", orcSP(labelVal())
				c.Variant += "-label"
			case 5, 6, 7, 8, 9, 10:
				k := gen.EditStyleEdge[op.Sel[1]%len(gen.EditStyleEdge)]
				if sub <= 7 {
					var have []string
					a := proj.EdgeOf(e, proj.Opts{}).Attrs
					for _, sk := range gen.EditStyleEdge {
						if _, ok := orcGet(a, "style", orcStyleKey(sk)); ok {
							have = append(have, sk)
						}
					}
					if len(have) > 0 {
						k = have[op.Sel[1]%len(have)]
						c.Variant += "-present"
					}
				}
				c.Key, c.Value = base+".style."+k, orcSP(gen.EditStyleValue(rr, k))
				c.Variant += "-style"
			case 11, 12:
				c.Key = base + "." + []string{"source-arrowhead", "target-arrowhead"}[op.Sel[1]%2] + ".shape"
				c.Value = orcSP(gen.Pick(rr, gen.Arrowheads[1:]))
				c.Variant += "-arrowhead-shape"
			case 13:
				c.Key = base + "." + []string{"source-arrowhead", "target-arrowhead"}[op.Sel[1]%2] + ".label"
				c.Value = orcSP(op.Str[0])
				c.Variant += "-arrowhead-label"
			case 14:
				k := gen.EditStyleEdge[op.Sel[1]%len(gen.EditStyleEdge)]
				c.Key, c.Value = base+".style."+k, orcSP(op.Str[0])
				c.Variant += "-style-hostile"
			default:
				c.Key = e.Src.AbsID() + " " + orcArrows[op.Sel[1]%4] + " " + e.Dst.AbsID()
				c.Value = orcSP(labelVal())
				c.Variant += "-unindexed"
			}
		}
		if (op.Var>>12)%24 == 0 {
			c.Value = nil
			c.Variant += "-nil"
		} else if (op.Var>>17)%8 == 0 && strings.Contains(c.Variant, "label") {
			c.Tag = orcSP([]string{"md", "txt", "latex", "go"}[op.Sel[2]%4])
			c.Variant += "-blockstring"
		}
	case "delete":
		present := func(attrs map[string]any, styles []string, others []string) []string {
			var out []string
			for _, k := range styles {
				if _, ok := orcGet(attrs, "style", orcStyleKey(k)); ok {
					out = append(out, "style."+k)
				}
			}
			for _, k := range others {
				jk := k
				if k == "label.near" {
					jk = "labelPosition"
				}
				if _, ok := orcGet(attrs, jk); ok {
					out = append(out, k)
				}
			}
			return out
		}
		switch {
		case v <= 3:
			o := obj(op.Sel[0])
			if o == nil {
				return c, false
			}
			c.Key, c.Variant = o.AbsID(), "object"
		case v <= 5:
			e := edge(op.Sel[0])
			if e == nil {
				return c, false
			}
			c.Variant = "edge"
			if sub%2 == 0 {
				// half of the time the first of a group of parallel connections (the later ones
				// must be renumbered, including their explicit index keys)
				var firsts []*d2graph.Edge
				for _, x := range edges {
					if x.Index != 0 {
						continue
					}
					for _, y := range edges {
						if y != x && y.Src == x.Src && y.Dst == x.Dst && y.SrcArrow == x.SrcArrow && y.DstArrow == x.DstArrow {
							firsts = append(firsts, x)
							break
						}
					}
				}
				if len(firsts) > 0 {
					e = firsts[op.Sel[0]%len(firsts)]
					c.Variant = "edge-first-of-parallel-group"
				}
			}
			c.Key = e.AbsID()
		case v <= 7:
			o := obj(op.Sel[0])
			if o == nil {
				return c, false
			}
			a, _ := proj.Object(o, proj.Opts{}).Attrs, 0
			have := present(a, gen.EditStyleObj, []string{"tooltip", "link", "width", "height", "icon", "label.near"})
			if o.NearKey != nil {
				have = append(have, "near")
			}
			var k string
			if len(have) > 0 && sub%4 != 0 {
				k = have[op.Sel[1]%len(have)]
				c.Variant = "obj-attr-present"
			} else {
				all := []string{"style.fill", "style.stroke", "style.opacity", "tooltip", "link", "width", "near", "icon", "label.near", "shape", "label", "style.font-size"}
				k = all[op.Sel[1]%len(all)]
				c.Variant = "obj-attr-any"
			}
			c.Key = o.AbsID() + "." + k
		case v == 8:
			e := edge(op.Sel[0])
			if e == nil {
				return c, false
			}
			pe := proj.EdgeOf(e, proj.Opts{})
			have := present(pe.Attrs, gen.EditStyleEdge, nil)
			if pe.SrcHead != nil {
				have = append(have, "source-arrowhead")
				if _, ok := orcGet(pe.SrcHead, "shape"); ok {
					have = append(have, "source-arrowhead.shape")
				}
			}
			if pe.DstHead != nil {
				have = append(have, "target-arrowhead")
				if _, ok := orcGet(pe.DstHead, "shape"); ok {
					have = append(have, "target-arrowhead.shape")
				}
			}
			var k string
			if len(have) > 0 && sub%4 != 0 {
				k = have[op.Sel[1]%len(have)]
				c.Variant = "edge-attr-present"
			} else {
				all := []string{"style.stroke", "style.opacity", "style.animated", "target-arrowhead", "source-arrowhead.shape", "label"}
				k = all[op.Sel[1]%len(all)]
				c.Variant = "edge-attr-any"
			}
			c.Key = e.AbsID() + "." + k
		default:
			if sub%2 == 0 {
				c.Key, c.Variant = name, "nonexistent"
			} else {
				c.Key, c.Variant = op.Str[0], "raw-key"
			}
		}
	case "rename":
		if v == 9 && len(edges) > 0 {
			e := edge(op.Sel[0])
			c.Key = e.AbsID()
			tmp := *e
			arrows := orcArrows[sub%4]
			tmp.SrcArrow = arrows == "<-" || arrows == "<->"
			tmp.DstArrow = arrows == "->" || arrows == "<->"
			c.NewName = tmp.AbsID()
			c.Variant = "edge-arrows"
			break
		}
		o := obj(op.Sel[0])
		if o == nil {
			return c, false
		}
		c.Key = o.AbsID()
		switch sub % 8 {
		case 0, 1, 2:
			c.NewName, c.Variant = op.Str[0], "literal"
		case 3:
			sib := o.Parent.ChildrenArray[op.Sel[1]%len(o.Parent.ChildrenArray)]
			c.NewName, c.Variant = sib.IDVal, "sibling-name"
		case 4:
			c.NewName, c.Variant = o.IDVal, "same-name"
		case 5:
			c.NewName, c.Variant = strings.ToUpper(o.IDVal), "case-variant"
		case 6:
			c.NewName, c.Variant = "n"+strings.ToLower(op.Str[1]), "fresh-plain"
		default:
			c.NewName, c.Variant = []string{"label", "style", "shape", "near", "layers"}[op.Sel[1]%5], "reserved"
		}
	case "move":
		o := obj(op.Sel[0])
		if o == nil {
			return c, false
		}
		c.Key = o.AbsID()
		parentPrefix := ""
		if o.Parent != nil && o.Parent != bg.Root {
			parentPrefix = o.Parent.AbsID() + "."
		}
		switch v {
		case 0, 1, 2, 3:
			t := obj(op.Sel[1])
			inSub := func(x *d2graph.Object) bool {
				for p := x; p != nil; p = p.Parent {
					if p == o {
						return true
					}
				}
				return false
			}
			c.Variant = "into-container"
			if inSub(t) {
				// destination inside the moved subtree: kept rare (see "into-itself")
				if sub == 0 && op.Sel[2]%4 == 0 {
					c.Variant = "into-own-subtree"
				} else {
					for k := 1; k < len(objs) && inSub(t); k++ {
						t = obj(op.Sel[1] + k)
					}
					if inSub(t) {
						c.NewKey, c.Variant = o.ID, "to-root"
						break
					}
				}
			}
			c.NewKey = t.AbsID() + "." + o.ID
		case 4, 5:
			c.NewKey, c.Variant = o.ID, "to-root"
		case 6:
			c.NewKey, c.Variant = parentPrefix+name, "same-scope-rename"
		case 7:
			// moving an object into its own subtree: rare on purpose — on the pinned tree it
			// either silently drops the object or never returns (see known findings)
			if sub == 0 && op.Sel[2]%2 == 0 {
				c.NewKey, c.Variant = o.AbsID()+"."+o.ID, "into-itself"
			} else {
				c.NewKey, c.Variant = parentPrefix+name+"."+o.ID, "same-scope-missing-parent"
			}
		case 8:
			t := obj(op.Sel[1])
			for k := 1; k < len(objs) && t != o && func() bool {
				for p := t.Parent; p != nil; p = p.Parent {
					if p == o {
						return true
					}
				}
				return false
			}(); k++ {
				t = obj(op.Sel[1] + k) // not onto an own descendant (see "into-itself")
			}
			c.NewKey, c.Variant = t.AbsID(), "onto-existing"
		default:
			c.NewKey, c.Variant = name+"."+o.ID, "missing-parent"
		}
	case "reconnect":
		e := edge(op.Sel[0])
		if e == nil {
			return c, false
		}
		c.Key = e.AbsID()
		a, b := obj(op.Sel[1]), obj(op.Sel[2])
		switch op.Var % 6 {
		case 0, 1:
			c.Src, c.Variant = orcSP(a.AbsID()), "src"
		case 2, 3:
			c.Dst, c.Variant = orcSP(b.AbsID()), "dst"
		case 4:
			c.Src, c.Dst, c.Variant = orcSP(a.AbsID()), orcSP(b.AbsID()), "both"
		default:
			c.Src, c.Variant = orcSP(name), "src-nonexistent"
		}
	case "updateimport":
		switch op.Var % 4 {
		case 0, 1:
			c.Path = "inc"
		case 2:
			c.Path = "inc.d2"
		default:
			c.Path = op.Str[0]
		}
		switch sub % 4 {
		case 0:
			c.NewPath, c.Variant = nil, "remove"
		case 1:
			c.NewPath, c.Variant = orcSP("dir/inc2"), "to-copy"
		case 2:
			c.NewPath, c.Variant = orcSP("inc"), "same"
		default:
			c.NewPath, c.Variant = orcSP(op.Str[0]), "literal"
		}
		c.BoardIdx, c.Board = 0, []string{}
	default:
		return c, false
	}
	return c, true
}

// ---------------------------------------------------------------------------------------
// key parsing (for the monitors: what does a concrete key address?)

type orcKey struct {
	Err      error
	Odd      string   // non-empty: outside the domain the statements speak about
	Obj      []string // lower-cased object path (for edges: the scope prefix)
	ObjRaw   []string
	Attr     []string // reserved suffix of the key path (from the first reserved keyword)
	Edge     bool
	Src, Dst []string // lower-cased absolute endpoint paths
	SrcArrow bool
	DstArrow bool
	Index    *int
	EdgeAttr []string
}

func orcSplitPath(kp *d2ast.KeyPath, k *orcKey) (obj, raw, attr []string) {
	if kp == nil {
		return
	}
	for i, sb := range kp.Path {
		s := sb.Unbox().ScalarString()
		if s == "_" && sb.UnquotedString != nil {
			k.Odd = "underscore"
		}
		if _, ok := d2ast.ReservedKeywords[s]; ok {
			if sb.UnquotedString == nil {
				k.Odd = "keyword-named"
			}
			for _, sb2 := range kp.Path[i:] {
				attr = append(attr, sb2.Unbox().ScalarString())
			}
			return
		}
		if _, ok := d2ast.ReservedKeywords[strings.ToLower(s)]; ok {
			k.Odd = "keyword-named"
		}
		obj = append(obj, strings.ToLower(s))
		raw = append(raw, s)
	}
	return
}

func orcParseKey(key string) (k orcKey) {
	defer func() {
		if e := recover(); e != nil {
			k.Err = fmt.Errorf("key parser panicked: %v", e)
		}
	}()
	mk, err := d2parser.ParseMapKey(key)
	if err != nil {
		k.Err = err
		return
	}
	if mk.HasGlob() {
		k.Odd = "glob"
	}
	if mk.Ampersand || mk.NotAmpersand {
		k.Odd = "ampersand"
	}
	k.Obj, k.ObjRaw, k.Attr = orcSplitPath(mk.Key, &k)
	if len(mk.Edges) > 1 {
		k.Odd = "chain"
		return
	}
	if len(mk.Edges) == 1 {
		k.Edge = true
		if len(k.Attr) > 0 {
			k.Odd = "attr-before-edge"
		}
		e := mk.Edges[0]
		s, _, sa := orcSplitPath(e.Src, &k)
		d, _, da := orcSplitPath(e.Dst, &k)
		if len(sa) > 0 || len(da) > 0 {
			k.Odd = "keyword-endpoint"
		}
		k.Src = append(append([]string{}, k.Obj...), s...)
		k.Dst = append(append([]string{}, k.Obj...), d...)
		k.SrcArrow = e.SrcArrow == "<"
		k.DstArrow = e.DstArrow == ">"
		if mk.EdgeIndex != nil && mk.EdgeIndex.Int != nil {
			i := *mk.EdgeIndex.Int
			k.Index = &i
		}
		if mk.EdgeKey != nil {
			for _, sb := range mk.EdgeKey.Path {
				k.EdgeAttr = append(k.EdgeAttr, sb.Unbox().ScalarString())
			}
		}
	} else if len(k.Obj) == 0 && len(k.Attr) == 0 {
		k.Odd = "empty"
	}
	return
}

func (s *orcSnap) findObj(path []string) int {
	if i, ok := s.byPath[orcPathKey(path)]; ok {
		return i
	}
	return -1
}

func (s *orcSnap) findEdge(k orcKey) int {
	if !k.Edge || k.Index == nil {
		return -1
	}
	si, di := s.findObj(k.Src), s.findObj(k.Dst)
	if si < 0 || di < 0 {
		return -1
	}
	for i, e := range s.Edges {
		if e.Src == si && e.Dst == di && e.SrcArrow == k.SrcArrow && e.DstArrow == k.DstArrow && e.Index == *k.Index {
			return i
		}
	}
	return -1
}

// ---------------------------------------------------------------------------------------
// runner

type orcStep struct {
	I    int
	Op   gen.EditOp
	Call orcCall
	Pre  *orcState
	Post *orcState // nil when refused
	Err  error
	// NewKey is the key returned by Create / the name returned by Rename.
	NewKey string
	// SameGraph: the operation returned the very graph object it was given.
	SameGraph bool
	// Consistency of the returned graph with its own text (judged by C36; the other
	// monitors stop a history when it fails because every later state would be suspect).
	PostCompileErr error
	PiDiff         string
	// After a refusal: the caller's graph (its AST may have been edited in place).
	Refused *d2graph.Graph
	Files   map[string]string
	FS      fstest.MapFS
	// Trigger: the root-cause trigger predicate that holds on (operation, pre-state), ""
	// when none does; Plain: a plain operation (see oracle_trigger.go). Both are evaluated
	// before the edit is applied.
	Trigger string
	Plain   bool
}

func (s *orcStep) describe() string {
	var sb strings.Builder
	fmt.Fprintf(&sb, "op #%d %s [%s]\n--- source before ---\n%s", s.I, s.Call, s.Call.Variant, s.Pre.Text)
	if s.Post != nil {
		fmt.Fprintf(&sb, "--- source after ---\n%s", s.Post.Text)
	}
	if s.Err != nil {
		fmt.Fprintf(&sb, "--- error ---\n%v\n", s.Err)
	}
	if len(s.Files) > 1 {
		var names []string
		for n := range s.Files {
			if n != "index.d2" {
				names = append(names, n)
			}
		}
		sort.Strings(names)
		for _, n := range names {
			fmt.Fprintf(&sb, "--- %s ---\n%s", n, s.Files[n])
		}
	}
	return sb.String()
}

type orcHooks struct {
	ID string
	// Before runs on the pre-state (snapshots already taken) before the edit is applied.
	Before func(s *orcStep, res *run.Result)
	// After runs for a successful edit.
	After func(s *orcStep, res *run.Result)
	// Refused runs for a refused edit.
	Refused func(s *orcStep, res *run.Result)
	// Panic is called with the signature when the edit panicked inside d2.
	Panic func(s *orcStep, res *run.Result, sig, msg string)
	// KeepGoingOnInconsistent: continue a history even when the returned graph does not
	// match its own text (C36 reports it and goes on from the recompiled text).
	OwnsConsistency bool
}

// ORC_TRACE=1 prints every call and the source it is applied to on stderr (for triage of
// hangs and fatal errors, where no result comes back from the worker).
var orcTrace = os.Getenv("ORC_TRACE") != ""

// orcViol reports at most one violation per signature and case.
func orcViol(res *run.Result, clause, sig, msg string) {
	for _, v := range res.Violations {
		if v.Sig == sig {
			res.Inc("violations_suppressed_same_sig_in_case")
			return
		}
	}
	res.Viol(clause, sig, msg)
}

type orcApplied struct {
	g      *d2graph.Graph
	newKey string
	text   string // UpdateImport
	err    error
	panicV string
	stack  string
}

func orcApply(c orcCall, st *orcState) (out orcApplied) {
	defer func() {
		if e := recover(); e != nil {
			out.panicV = fmt.Sprint(e)
			out.stack = string(debug.Stack())
			// drop the recover plumbing above the panic so that the signature names the
			// innermost d2 frame (run.PanicSig treats a leading harness frame as a harness bug)
			if i := strings.Index(out.stack, "\npanic("); i >= 0 {
				out.stack = out.stack[i+1:]
			}
		}
	}()
	g := st.G
	switch c.Kind {
	case "create":
		out.g, out.newKey, out.err = d2oracle.Create(g, c.Board, c.Key)
	case "set":
		out.g, out.err = d2oracle.Set(g, c.Board, c.Key, c.Tag, c.Value)
	case "delete":
		out.g, out.err = d2oracle.Delete(g, c.Board, c.Key)
	case "rename":
		out.g, out.newKey, out.err = d2oracle.Rename(g, c.Board, c.Key, c.NewName)
	case "move":
		out.g, out.err = d2oracle.Move(g, c.Board, c.Key, c.NewKey, c.Desc)
	case "reconnect":
		out.g, out.err = d2oracle.ReconnectEdge(g, c.Board, c.Key, c.Src, c.Dst)
	case "updateimport":
		out.text, out.err = d2oracle.UpdateImport(st.Text, c.Path, c.NewPath)
	}
	return
}

// orcRun executes one history. It returns the number of successful edits.
func orcRun(in gen.EditCase, res *run.Result, h orcHooks) {
	// Runaway recursion (e.g. an object made its own parent) must die fast and with a
	// stack that still names the d2 frame: the default 1 GB limit takes ~30 CPU-s to reach.
	// 64 MB is >100x what compiling and editing these small programs needs.
	debug.SetMaxStack(64 << 20)
	fs := orcFS(in.Files)
	text := in.Files["index.d2"]
	// Histories start from formatted source, like a file an editor has saved before: the
	// generated text is passed through the formatter once, and programs on which the
	// formatter itself is not a fixed point are left to C03 (counted, not judged here).
	if m, ok := parseOK(text); ok {
		t0 := d2format.Format(m)
		m1, ok := parseOK(t0)
		if !ok || d2format.Format(m1) != t0 {
			res.Inc("gen_program_not_formatter_stable_left_to_C03")
			return
		}
		text = t0
	}
	g, err := orcCompile(text, fs)
	if err != nil {
		res.Inc("gen_program_does_not_compile")
		res.Sample = map[string]any{"compile_error": trunc(err.Error(), 200), "text": trunc(text, 300)}
		return
	}
	for _, f := range in.Feat {
		res.Inc("prog_" + f)
	}
	st := orcNewState(g, text)
	st.snapAll()
	nObj, nTagged, nEdge, nEdgeTagged := 0, 0, 0, 0
	for i := range st.Boards {
		s := st.snap(i)
		for _, o := range s.Objs {
			nObj++
			if o.Tag != "" {
				nTagged++
			}
		}
		for _, e := range s.Edges {
			nEdge++
			if e.Tag != "" {
				nEdgeTagged++
			}
		}
	}
	res.Add("initial_objects", nObj)
	res.Add("initial_objects_tagged", nTagged)
	res.Add("initial_edges", nEdge)
	res.Add("initial_edges_tagged", nEdgeTagged)
	res.Add("initial_boards", len(st.Boards))
	if len(st.Boards) > 1 {
		res.Inc("histories_with_nested_boards")
	}
	okOps := 0
	var kinds []string
	for i, op := range in.Ops {
		call, ok := orcResolve(op, st)
		if !ok {
			res.Inc("op_unresolvable_" + op.Kind)
			continue
		}
		st.snapAll()
		step := &orcStep{I: i, Op: op, Call: call, Pre: st, Files: in.Files, FS: fs}
		step.Trigger = orcTrigger(step, h.ID)
		step.Plain = step.Trigger == "" && orcPlain(step)
		if step.Plain {
			res.Inc("plain_ops")
		}
		if step.Trigger != "" {
			res.Inc("trigger_" + step.Trigger)
		}
		if h.Before != nil {
			h.Before(step, res)
		}
		if orcTrace {
			fmt.Fprintf(os.Stderr, "ORC_TRACE op #%d %s [%s]\n--- source ---\n%s\n", i, call, call.Variant, st.Text)
		}
		ap := orcApply(call, st)
		res.Inc("ops_" + call.Kind)
		res.Inc("variant_" + call.Kind + "_" + call.Variant)
		if len(call.Board) > 0 {
			res.Inc("ops_on_nested_board")
		}
		recompilePre := func() bool {
			g, err := orcCompile(st.Text, fs)
			if err != nil {
				res.Inc("harness_pre_text_recompile_failed")
				return false
			}
			st = orcNewState(g, st.Text)
			return true
		}
		if ap.panicV != "" {
			sig, harness := run.PanicSig(ap.panicV, ap.stack)
			if harness {
				panic(fmt.Sprintf("harness panic in op %s: %s\n%s", call, ap.panicV, ap.stack))
			}
			res.Inc("ops_panicked")
			if h.Panic != nil {
				h.Panic(step, res, sig, fmt.Sprintf("panic: %s\n%s\n%s", ap.panicV, step.describe(), trunc(ap.stack, 1800)))
			}
			if !recompilePre() {
				return
			}
			continue
		}
		if ap.err != nil {
			step.Err = ap.err
			step.Refused = st.G
			res.Inc("refused_" + call.Kind)
			if h.Refused != nil {
				h.Refused(step, res)
			}
			if !recompilePre() {
				return
			}
			continue
		}
		// success
		var postText string
		var g2 *d2graph.Graph
		if call.Kind == "updateimport" {
			postText = ap.text
			g2, err = orcCompile(postText, fs)
			if err != nil {
				// text → text operation: the result does not compile (e.g. import removed or
				// pointed at a missing file). Not a graph edit; C36 judges it.
				step.PostCompileErr = err
				step.Post = &orcState{Text: postText}
				res.Inc("updateimport_result_does_not_compile")
				if h.OwnsConsistency && h.After != nil {
					h.After(step, res)
				}
				if !recompilePre() {
					return
				}
				continue
			}
		} else {
			g2 = ap.g
			if g2 == nil {
				res.Inc("harness_nil_graph_without_error")
				if h.Panic != nil {
					h.Panic(step, res, "C36.nil-graph-without-error:"+call.Kind, "operation returned (nil, nil)\n"+step.describe())
				}
				if !recompilePre() {
					return
				}
				continue
			}
			step.SameGraph = g2 == st.G
			postText = d2format.Format(g2.AST)
		}
		step.NewKey = ap.newKey
		step.Post = orcNewState(g2, postText)
		step.Post.snapAll()
		okOps++
		res.Inc("ok_" + call.Kind)
		kinds = append(kinds, call.Kind)
		// consistency of the returned graph with its own text
		consistent := true
		if call.Kind != "updateimport" {
			g3, err := orcCompile(postText, fs)
			if err != nil {
				step.PostCompileErr = err
				consistent = false
			} else {
				pa, pb := proj.Graph(g2, proj.Opts{}), proj.Graph(g3, proj.Opts{})
				a, b := pa.String(), pb.String()
				if a != b {
					if !step.SameGraph && pa.Sorted().String() == pb.Sorted().String() {
						// the recompiled graph lists the same objects in another order: the text
						// was re-formatted between the two compilations (formatter stability is
						// judged separately); not a different diagram
						res.Inc("pi_differs_only_in_listing_order")
					} else {
						step.PiDiff = proj.Diff(a, b)
						consistent = false
					}
				}
			}
		}
		if h.After != nil {
			h.After(step, res)
		}
		if !consistent {
			res.Inc("post_state_inconsistent_with_its_text")
			if !h.OwnsConsistency {
				res.Inc("history_stopped_inconsistent_state")
				break
			}
			// C36 continues from the text the caller would have saved
			g3, err := orcCompile(postText, fs)
			if err != nil {
				break
			}
			st = orcNewState(g3, postText)
			continue
		}
		st = step.Post
	}
	res.Add("ops_successful", okOps)
	res.Nontrivial = okOps >= 2
	sort.Strings(kinds)
	res.Sample = map[string]any{"ops": len(in.Ops), "successful": okOps, "boards": len(st.Boards), "final_text": trunc(st.Text, 300)}
}

// orcDecl names how the source declares an object — the coarse trigger class used in
// signatures (most specific first).
func (s *orcSnap) decl(i int) string {
	if i < 0 {
		return "none"
	}
	o := s.Objs[i]
	switch {
	case o.Foreign:
		return "imported"
	case o.RefChain:
		return "in-chain"
	case o.RefMid:
		return "inner-segment-of-dotted-key"
	case o.RefDotted:
		return "leaf-of-dotted-key"
	case o.RefMulti:
		return "declared-more-than-once"
	case o.RefEdgeOnly:
		return "connection-endpoint-only"
	}
	return "simple"
}

// orcWhere: root or nested board.
func orcWhere(s *orcStep) string {
	if len(s.Call.Board) > 0 {
		return "nested-board"
	}
	return "root-board"
}

// orcTrig classifies the situation of a step for violation signatures (stable, coarse).
func orcTrig(s *orcStep) string {
	var t []string
	if len(s.Call.Board) > 0 {
		t = append(t, "nested-board")
	} else {
		t = append(t, "root-board")
	}
	if len(s.Files) > 1 {
		t = append(t, "imports")
	}
	return strings.Join(t, "+")
}
