package mon

import (
	"crypto/sha256"
	"encoding/hex"
	"encoding/json"
	"errors"
	"fmt"
	"os"
	"runtime"
	"sort"
	"strings"
	"sync"

	"verif/gen"
	"verif/proj"
	"verif/run"

	"oss.terrastruct.com/d2/d2compiler"
	"oss.terrastruct.com/d2/d2graph"
	"oss.terrastruct.com/d2/d2parser"
)

// C08 — compilation is deterministic (-race build).
//
// Every program (with its in-memory import set) is handed to three different chunks of
// the case list, hence normally to three different worker processes (different map hash
// seeds), each with a different GOMAXPROCS (1, 4, 16). A worker compiles it 8× one after
// another and then 12× from 12 goroutines at once while two neighbour programs are being
// compiled concurrently by further goroutines. Oracle:
//   same-process.sequential   all sequential outcomes identical
//   same-process.concurrent   every concurrent outcome identical to the sequential one
//   cross-process             (Post, in the driver) the outcome hashes reported by the
//                             workers for one program are all equal
//   data race                 the substrate collects the race detector's reports; any
//                             report with a d2 frame is a violation.
// Outcome = π(graph)+config rendered canonically, or the ordered list of (range, message)
// of the returned errors.

type c08In struct {
	Prog       int               `json:"prog"` // program number (same for the 3 copies)
	Copy       int               `json:"copy"`
	Text       string            `json:"text"`
	Files      map[string]string `json:"files,omitempty"`
	Neighbours []string          `json:"neighbours,omitempty"`
	Src        string            `json:"src"`
}

type c08Obs struct {
	Prog int `json:"prog"`
	// Out: the outcome itself when it is an error list of modest size (lets the driver
	// name the differing message), else empty.
	Out   string `json:"out,omitempty"`
	Hash  string `json:"hash"`
	PID   int    `json:"pid"`
	Procs int    `json:"procs"`
	Kind  string `json:"kind"` // graph | error | panic
}

func init() {
	run.Register(&run.Check{
		ID: "C08", Title: "Compilation is deterministic",
		LevelText: "Exploration under the race detector: hundreds (quick) to tens of thousands (thorough) of generated programs of the full language (globs, vars, classes, boards, imports from an in-memory file set) and the repository's scripts are each compiled 8× sequentially and 12× concurrently (next to other compilations) in three different worker processes with GOMAXPROCS 1, 4 and 16; all outcomes (canonical projection of the graph and configuration, or the ordered error list) must be identical within a process and across processes, and the race detector must stay silent.",
		Technique: "runtime monitoring: run-to-run / cross-process / concurrent metamorphic oracle + Go race detector",
		DesignRef: "§4 C08",
		Rule:      "cases: gen.Program(lang, with imports) + corpus, each as 3 copies placed in different chunks; distinct by sha256(text+files); non-trivial when the outcome is a graph with ≥3 objects or an error list with ≥2 entries, and the 3 copies were observed",
		Race:      true, Chunk: 5, MinNontrivial: 20, CPUBudget: 120,
		Gen:  genC08,
		Exec: execC08,
		Post: postC08,
	})
}

func genC08(seed int64, tier string, emit func(run.Case)) {
	r := gen.New(seed)
	n := tierN(tier, 60, 1500)
	type prog struct {
		text  string
		files map[string]string
		src   string
	}
	var progs []prog
	cor := Corpus()
	body := func(q *gen.R) string { return gen.Program(q, gen.ProfileLang) }
	for i := 0; len(progs) < n; i++ {
		q := r.Sub(i)
		var p prog
		switch q.Intn(9) {
		case 6, 7, 8:
			p = prog{text: c08OrderSensitive(q), files: map[string]string{"x.d2": "imp1: {shape: circle}\nimp2 -> imp1\nclasses: {hot: {style.stroke: orange}}\n", "y.d2": "s; t; s -> t\n"}, src: "order-sensitive"}
		case 0:
			p = prog{text: gen.Pick(q, cor), src: "corpus"}
			if len(p.text) > 6<<10 {
				continue
			}
		case 1:
			p = prog{text: gen.Diagram(q, gen.DiagramOpts{}), src: "diagram"}
		case 2:
			hl := gen.ProfileLang
			hl.Globs, hl.Vars, hl.Boards, hl.Classes = .3, .3, .3, .3
			p = prog{text: gen.Program(q, hl), src: "lang-dense"}
		case 3:
			p = prog{text: gen.Program(q, gen.ProfileSyntax), files: c07FileSet(q, body), src: "syntax-errors"}
		default:
			lang := gen.ProfileLang
			lang.Imports = []string{"x", "y", "dir/z"}
			p = prog{text: gen.Program(q, lang), files: c07FileSet(q, body), src: "lang-imports"}
		}
		if c07HangTrigger(p.text, p.files) != "" {
			continue // known non-termination triggers belong to C07
		}
		progs = append(progs, p)
	}
	// copy k of every program forms its own block, so the copies land in different chunks
	for k := 0; k < 3; k++ {
		for i, p := range progs {
			nb := []string{progs[(i+1)%len(progs)].text, progs[(i+7)%len(progs)].text}
			emit(run.MkCase(fmt.Sprintf("k%d-p%06d", k, i), p.src, c08In{Prog: i, Copy: k, Text: p.text, Files: p.files, Neighbours: nb, Src: p.src}))
		}
	}
}

// Repetitions per program and process: a construct that picks one of two orders at random
// (a map sneaking into an ordered computation) escapes k comparisons with probability
// 2^-(k-1); 8 sequential + 12 concurrent compilations, in three processes, make a miss
// negligible.
const (
	c08Seq  = 8
	c08Conc = 12
)

// c08OrderSensitive builds programs whose result depends on an order that a map in the
// implementation would randomise: class arrays with repeated names and ≥2 distinct classes
// that set the same attributes to different values (objects and connections, also through
// a spread substitution), many classes / vars / globs matching many objects, duplicate
// keys, boards with many siblings, imports.
func c08OrderSensitive(r *gen.R) string {
	var sb strings.Builder
	cls := []string{"hot", "cold", "warm", "dry", "wet", "big"}
	ncls := r.Range(2, len(cls))
	cls = cls[:ncls]
	colors := []string{"red", "blue", "green", "orange", "purple", "black"}
	sb.WriteString("vars: {\n  common: [" + cls[0] + "; " + cls[1] + "]\n")
	for i := 0; i < r.Range(2, 8); i++ {
		fmt.Fprintf(&sb, "  v%d: %s\n", i, gen.Pick(r, colors))
	}
	sb.WriteString("}\nclasses: {\n")
	for i, c := range cls {
		fmt.Fprintf(&sb, "  %s: {style.fill: %s; style.stroke: %s; style.stroke-width: %d; label: %s; shape: %s}\n", c, colors[i%len(colors)], colors[(i+2)%len(colors)], i+1, "L"+c, gen.Pick(r, gen.SimpleShapes))
	}
	sb.WriteString("}\n")
	list := func() string {
		n := r.Range(2, 5)
		var items []string
		for i := 0; i < n; i++ {
			items = append(items, gen.Pick(r, cls))
		}
		// force a repeat and two distinct names
		items = append(items, items[0])
		if items[1] == items[0] {
			items[1] = cls[(r.Intn(ncls-1)+1+c08IndexOf(cls, items[0]))%ncls]
		}
		if r.P(0.3) {
			items = append([]string{"...${common}"}, items...)
		}
		return "[" + strings.Join(items, "; ") + "]"
	}
	nobj := r.Range(3, 14)
	for i := 0; i < nobj; i++ {
		name := fmt.Sprintf("o%d", i)
		switch r.Intn(5) {
		case 0:
			sb.WriteString(name + ".class: " + list() + "\n")
		case 1:
			sb.WriteString(name + ": {class: " + list() + "; style.fill: ${v0}}\n")
		case 2:
			sb.WriteString(name + ": {a; b; c; a -> b: {class: " + list() + "}}\n")
		case 3:
			sb.WriteString(name + ".class: " + gen.Pick(r, cls) + "\n" + name + ".class: " + list() + "\n")
		default:
			sb.WriteString(name + "\n")
		}
	}
	for i := 0; i < r.Range(1, 6); i++ {
		a, b := fmt.Sprintf("o%d", r.Intn(nobj)), fmt.Sprintf("o%d", r.Intn(nobj))
		sb.WriteString(a + " " + gen.Pick(r, gen.Arrows) + " " + b + ": {class: " + list() + "}\n")
	}
	if r.P(0.6) {
		sb.WriteString("*.style.opacity: 0.5\n**.style.bold: true\n(* -> *)[*].style.animated: true\no*: {&shape: circle; style.shadow: true}\n")
	}
	if r.P(0.5) {
		sb.WriteString("o1: dup1\no1: dup2\nO1.style.fill: ${v1}\no1.style.fill: white\n")
	}
	if r.P(0.4) {
		sb.WriteString("imp: @x\n...@y\n")
	}
	if r.P(0.5) {
		for _, k := range []string{"layers", "scenarios", "steps"} {
			if !r.P(0.6) {
				continue
			}
			sb.WriteString(k + ": {\n")
			for j := 0; j < r.Range(2, 7); j++ {
				fmt.Fprintf(&sb, "  b%d: {n%d.class: %s; n%d -> o0}\n", j, j, list(), j)
			}
			sb.WriteString("}\n")
		}
	}
	return sb.String()
}

func c08IndexOf(xs []string, x string) int {
	for i, v := range xs {
		if v == x {
			return i
		}
	}
	return 0
}

// c08Outcome compiles once and renders the outcome canonically.
func c08Outcome(text string, files map[string]string) (kind, out string, nobj, nerr int) {
	defer func() {
		if e := recover(); e != nil {
			kind, out = "panic", fmt.Sprint("panic: ", e)
		}
	}()
	g, cfg, err := d2compiler.Compile(c07Main, strings.NewReader(text), &d2compiler.CompileOptions{FS: c07FS(files)})
	if err != nil {
		var pe *d2parser.ParseError
		if errors.As(err, &pe) {
			var sb strings.Builder
			for _, e := range pe.Errors {
				fmt.Fprintf(&sb, "%s\t%s\n", c07Range(e.Range), e.Message)
			}
			return "error", sb.String(), 0, len(pe.Errors)
		}
		return "error", err.Error(), 0, 1
	}
	b := proj.Graph(g, proj.Opts{})
	proj.Walk(g, func(_ string, bg *d2graph.Graph) { nobj += len(bg.Objects) })
	return "graph", b.String() + "\n" + proj.Config(cfg), nobj, 0
}

func execC08(c run.Case) (res run.Result) {
	var in c08In
	c.Decode(&in)
	procs := []int{1, 4, 16}[in.Copy%3]
	old := runtime.GOMAXPROCS(procs)
	defer runtime.GOMAXPROCS(old)
	res.Inc("src_" + in.Src)
	res.Inc(fmt.Sprintf("gomaxprocs_%d", procs))

	kind, first, nobj, nerr := c08Outcome(in.Text, in.Files)
	res.Inc("outcome_" + kind)
	for i := 1; i < c08Seq; i++ {
		k2, o2, _, _ := c08Outcome(in.Text, in.Files)
		res.Inc("compilations_sequential")
		if k2 != kind || o2 != first {
			res.Viol("C08.same-process.sequential", "C08.same-process.sequential:"+kind+"-vs-"+k2+":"+c08DiffClass(first, o2), fmt.Sprintf("sequential compilation %d differs from the first one\n%s\ninput:\n%s", i+1, proj.Diff(first, o2), trunc(in.Text, 1500)))
			break
		}
	}
	const conc = c08Conc
	outs := make([]string, conc)
	kinds := make([]string, conc)
	var wg sync.WaitGroup
	start := make(chan struct{})
	for i := 0; i < conc; i++ {
		wg.Add(1)
		go func(i int) {
			defer wg.Done()
			<-start
			kinds[i], outs[i], _, _ = c08Outcome(in.Text, in.Files)
		}(i)
	}
	for _, nb := range in.Neighbours {
		wg.Add(1)
		go func(nb string) {
			defer wg.Done()
			<-start
			c08Outcome(nb, in.Files)
		}(nb)
	}
	close(start)
	wg.Wait()
	res.Add("compilations_concurrent", conc+len(in.Neighbours))
	for i := range outs {
		if kinds[i] != kind || outs[i] != first {
			res.Viol("C08.same-process.concurrent", "C08.same-process.concurrent:"+kind+"-vs-"+kinds[i]+":"+c08DiffClass(first, outs[i]), fmt.Sprintf("concurrent compilation %d (GOMAXPROCS=%d) differs from the sequential outcome\n%s\ninput:\n%s", i, procs, proj.Diff(first, outs[i]), trunc(in.Text, 1500)))
			break
		}
	}
	if kind == "panic" {
		res.CrashSkipped = "panic-during-compile"
	}
	h := sha256.Sum256([]byte(kind + "\x00" + first))
	o := c08Obs{Prog: in.Prog, Hash: hex.EncodeToString(h[:12]), PID: os.Getpid(), Procs: procs, Kind: kind}
	if kind == "error" && len(first) < 4000 {
		o.Out = first
	}
	obs, _ := json.Marshal(o)
	res.Obs = obs
	res.Nontrivial = nobj >= 3 || nerr >= 2
	res.Digest = fmt.Sprintf("%x", sha256.Sum256([]byte(in.Text+fmt.Sprint(in.Files))))[:16]
	res.Sample = map[string]any{"src": in.Src, "text": trunc(in.Text, 240), "outcome": kind, "objects": nobj, "errors": nerr, "gomaxprocs": procs}
	return
}

// c08DiffClass names what differs between two outcomes without quoting the input: for
// error lists the class of the first differing message (leading lower-case words), for
// graphs whether lines are permuted or changed.
func c08DiffClass(a, b string) string {
	la, lb := strings.Split(a, "\n"), strings.Split(b, "\n")
	for i := 0; i < len(la) && i < len(lb); i++ {
		if la[i] != lb[i] {
			if parts := strings.SplitN(la[i], "\t", 2); len(parts) == 2 && strings.Contains(parts[0], ",") {
				msg := parts[1]
				if j := strings.Index(msg, ": "); j >= 0 {
					msg = msg[j+2:]
				}
				var words []string
				for _, w := range strings.Fields(msg) {
					ok := w != ""
					for _, ch := range w {
						if !(ch >= 'a' && ch <= 'z' || ch == '-') {
							ok = false
						}
					}
					if !ok {
						break
					}
					words = append(words, w)
					if len(words) == 5 {
						break
					}
				}
				if len(words) > 0 {
					return "error-message:" + strings.Join(words, "-")
				}
				return "error-message:other"
			}
			break
		}
	}
	if len(la) != len(lb) {
		return "different-length"
	}
	sa, sb := append([]string{}, la...), append([]string{}, lb...)
	sort.Strings(sa)
	sort.Strings(sb)
	if strings.Join(sa, "\n") == strings.Join(sb, "\n") {
		return "same-lines-different-order"
	}
	return "different-content"
}

func postC08(d *run.Driver, results []run.Result) {
	byProg := map[int][]c08Obs{}
	ids := map[int]string{}
	for _, r := range results {
		if r.Obs == nil {
			continue
		}
		var o c08Obs
		if json.Unmarshal(r.Obs, &o) != nil {
			continue
		}
		byProg[o.Prog] = append(byProg[o.Prog], o)
		ids[o.Prog] = r.ID
	}
	multiProc, three, compared := 0, 0, 0
	var progs []int
	for p := range byProg {
		progs = append(progs, p)
	}
	sort.Ints(progs)
	for _, p := range progs {
		os := byProg[p]
		if len(os) < 2 {
			continue
		}
		compared++
		pids := map[int]bool{}
		for _, o := range os {
			pids[o.PID] = true
		}
		if len(pids) >= 2 {
			multiProc++
		}
		if len(pids) >= 3 {
			three++
		}
		for _, o := range os[1:] {
			if o.Hash != os[0].Hash || o.Kind != os[0].Kind {
				cls := "hash"
				if os[0].Out != "" && o.Out != "" {
					cls = c08DiffClass(os[0].Out, o.Out)
				}
				d.ReportViolation(run.Case{ID: ids[p]}, run.Violation{Clause: "C08.cross-process", Sig: "C08.cross-process:" + os[0].Kind + "-vs-" + o.Kind + ":" + cls,
					Msg: fmt.Sprintf("program %d: outcome hash %s (pid %d, GOMAXPROCS %d) differs from %s (pid %d, GOMAXPROCS %d); replay any of the cases k*-p%06d", p, os[0].Hash, os[0].PID, os[0].Procs, o.Hash, o.PID, o.Procs, p)})
				break
			}
		}
	}
	d.Extra["programs_compared_across_copies"] = compared
	d.Extra["programs_seen_by_2plus_processes"] = multiProc
	d.Extra["programs_seen_by_3_processes"] = three
	if compared > 0 && multiProc*2 < compared {
		d.Inconclusive = append(d.Inconclusive, fmt.Sprintf("only %d of %d programs were compiled by more than one worker process", multiProc, compared))
	}
}
