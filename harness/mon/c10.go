package mon

import (
	"encoding/json"
	"fmt"
	"os"
	"sort"
	"strings"

	"verif/gen"
	"verif/model"
	"verif/proj"
	"verif/run"

	"oss.terrastruct.com/d2/d2graph"
)

// C10 — later declarations win; null removes.
//
// Workload: structured programs of the core fragment (gen/core.go): nested keys, labels,
// shapes, style attributes, connections with and without indexes, null assignments, few
// names in several spellings. Oracle: the reference interpreter model/core.go (written
// from the language description) predicts the set of objects with their spelling, label,
// shape and style attributes, and the connections with endpoints, arrows, index, label and
// style attributes, or that the program must be rejected; the compiled graph is compared
// with it element by element (objects keyed by case-folded path, connections by
// endpoints+arrows+index). Order is C09's business and is not compared here.
//
// Not judged (counted): attributes of connections whose index bookkeeping the model flags
// ambiguous (a parallel connection was removed and the class is used by index afterwards;
// C11 owns indexing).

type c10In struct {
	Prog []model.CoreStmt `json:"prog"`
	Text string           `json:"text"`
	Src  string           `json:"src,omitempty"`
}

func init() {
	run.Register(&run.Check{
		ID: "C10", Title: "Later declarations win; null removes",
		LevelText: "Exploration: thousands of generated programs over the core fragment (3-40 statements over ≤5 colliding names in several spellings: nested keys, labels, shapes, style attributes, connections incl. chains, `_`-relative and scoped ones, indexed references, null on objects / attributes / connections, redeclaration after null) are compiled and compared element by element with an independent reference interpreter.",
		Technique: "runtime monitoring: reference-model oracle (independent interpreter of the core fragment) over structured random programs",
		DesignRef: "§4 C10",
		Rule:      "cases: gen.Core(CoreDefault) programs + hand-written seeds; distinct by sha256(text); non-trivial when the model predicts ≥2 objects and the program contains a redeclaration or a null that hit an existing element",
		Chunk:     64, MinNontrivial: 300,
		Gen:  genC10,
		Exec: execC10,
	})
}

var c10Seeds = []string{}

func genC10(seed int64, tier string, emit func(run.Case)) {
	r := gen.New(seed)
	n := tierN(tier, 12000, 300000)
	for i := 0; i < n; i++ {
		q := r.Sub(i)
		o := gen.CoreDefault
		if q.P(0.3) {
			o.MaxStmts = 12
		}
		if q.P(0.2) {
			o.PNull = .25
		}
		prog := gen.Core(q, o)
		emit(run.MkCase(fmt.Sprintf("c%07d", i), "core", c10In{Prog: prog, Text: gen.CoreText(prog), Src: "core"}))
	}
}

// c10Style extracts the style attributes of a projected attribute map by keyword.
func c10Style(attrs map[string]any) map[string]string {
	out := map[string]string{}
	st, _ := attrs["style"].(map[string]any)
	for kw, jn := range c16JSONName {
		if sc, ok := st[jn].(map[string]any); ok {
			if v, ok := sc["value"].(string); ok {
				out[kw] = v
			}
		}
	}
	return out
}

func c10Scalar(attrs map[string]any, name string) string {
	if sc, ok := attrs[name].(map[string]any); ok {
		v, _ := sc["value"].(string)
		return v
	}
	return ""
}

type c10Viol struct {
	prio         int
	clause, trig string
	msg          string
}

func execC10(c run.Case) (res run.Result) {
	var in c10In
	c.Decode(&in)
	res = c10Judge(in)
	if os.Getenv("C10_SHRINK") != "" && len(res.Violations) > 0 {
		// statement-level ddmin on the structured program, preserving the first signature
		want := res.Violations[0].Sig
		prog := c10ShrinkProg(in.Prog, func(p []model.CoreStmt) bool {
			r := c10Judge(c10In{Prog: p, Text: gen.CoreText(p)})
			for _, v := range r.Violations {
				if v.Sig == want {
					return true
				}
			}
			return false
		})
		fmt.Fprintf(os.Stderr, "SHRUNK %s:\n%s\n", want, gen.CoreText(prog))
	}
	return res
}

// c10ShrinkProg removes statements (at any depth) while keep(prog) holds.
func c10ShrinkProg(prog []model.CoreStmt, keep func([]model.CoreStmt) bool) []model.CoreStmt {
	clone := func(p []model.CoreStmt) []model.CoreStmt {
		b, _ := json.Marshal(p)
		var q []model.CoreStmt
		json.Unmarshal(b, &q)
		return q
	}
	// enumerate removable positions as paths of indices
	var paths func(p []model.CoreStmt, pre []int) [][]int
	paths = func(p []model.CoreStmt, pre []int) [][]int {
		var out [][]int
		for i := range p {
			cur := append(append([]int{}, pre...), i)
			out = append(out, cur)
			out = append(out, paths(p[i].Body, cur)...)
		}
		return out
	}
	remove := func(p []model.CoreStmt, path []int) []model.CoreStmt {
		q := clone(p)
		cur := &q
		for _, i := range path[:len(path)-1] {
			cur = &(*cur)[i].Body
		}
		i := path[len(path)-1]
		*cur = append((*cur)[:i:i], (*cur)[i+1:]...)
		return q
	}
	for changed := true; changed; {
		changed = false
		ps := paths(prog, nil)
		for k := len(ps) - 1; k >= 0; k-- {
			cand := remove(prog, ps[k])
			if keep(cand) {
				prog = cand
				changed = true
				break
			}
		}
	}
	// simplify: drop labels / attrs of edges, shorten chains is left to the reader
	return prog
}

func c10Judge(in c10In) (res run.Result) {
	m := model.CoreRun(in.Prog)
	g, _, err := compile(in.Text)
	res.Sample = map[string]any{"text": trunc(in.Text, 400)}
	if m.AmbiguousSeen && (m.Err != "" || err != nil) {
		// an index was re-used after a removal: whether a later indexed reference exists
		// is not well defined (C11 owns indexing)
		res.Inc("vacuous_error_after_index_reuse")
		return
	}
	if m.Err != "" {
		res.Inc("model_predicts_error")
		res.Nontrivial = true
		if err == nil {
			res.Viol("C10.missing-error", "C10.missing-error:"+strings.ReplaceAll(m.Err, " ", "-"), fmt.Sprintf("the model rejects the program (%s) but it compiled\n%s", m.Err, in.Text))
		} else if !strings.Contains(err.Error(), m.Err) {
			res.Inc("error_text_differs")
		}
		return
	}
	if err != nil {
		cls := c10ErrClass(err)
		if cls == "indexed-edge-does-not-exist" && c10HasEdgeAttrNull(in.Prog) {
			cls += ":program-nulls-a-connection-attribute"
		}
		res.Viol("C10.unexpected-error", "C10.unexpected-error:"+cls, fmt.Sprintf("the model accepts the program but compilation failed: %v\n%s", err, in.Text))
		return
	}
	var vs []c10Viol
	// A program that nulls an attribute of a connection (`(a -> b)[0].style.k: null`) is
	// known to lose the whole connection; every disagreement about connections in such a
	// program is named after that trigger (existence, shifted indices, later references).
	edgeAttrNull := c10HasEdgeAttrNull(in.Prog)
	add := func(prio int, clause, trig, msg string) {
		if edgeAttrNull && (strings.HasPrefix(clause, "C10.edge-") || strings.HasPrefix(clause, "C10.last-wins.edge-")) {
			trig = "program-nulls-a-connection-attribute"
		}
		vs = append(vs, c10Viol{prio, clause, trig, msg})
	}

	// ---- objects ----
	got := map[string]*d2graph.Object{}
	for _, o := range g.Objects {
		got[c09ObjKey(o)] = o
	}
	mobjs := m.Objects()
	want := map[string]model.CoreObjOut{}
	for _, o := range mobjs {
		want[o.Key] = o
	}
	res.Add("objects_compared", len(mobjs))
	for k, o := range got {
		if _, ok := want[k]; ok {
			continue
		}
		trig := "never-removed"
		if ro := m.Removed[k]; ro != nil {
			trig = "removed-by-null"
			parts := strings.Split(k, "\x1f")
			for i := len(parts); i > 0; i-- {
				if m.RemovedScopedOut[strings.Join(parts[:i], "\x1f")] {
					trig = "removed-by-null:connection-in-its-scope-leaves-through-underscore"
				}
			}
		}
		add(1, "C10.null-object.survives", trig, fmt.Sprintf("object %q exists in the compiled graph but not in the model (%s)", o.AbsID(), trig))
	}
	for _, w := range mobjs {
		o, ok := got[w.Key]
		if !ok {
			trig := "plain"
			if w.Obj.Recreated {
				trig = "redeclared-after-null"
			}
			add(2, "C10.object-missing", trig, fmt.Sprintf("object %q is predicted by the model but missing in the compiled graph (%s)", c09Show(w.Key), trig))
			continue
		}
		po := proj.Object(o, proj.Opts{})
		trigFor := func(attr string) string {
			if w.Obj.Recreated {
				parts := strings.Split(w.Key, "\x1f")
				for i := len(parts); i > 0; i-- {
					if m.RemovedScopedOut[strings.Join(parts[:i], "\x1f")] {
						return "redeclared-after-null:connection-in-its-scope-leaves-through-underscore"
					}
				}
			}
			switch {
			case attr == "label" && w.Obj.LabelByShorthand && w.Obj.LabelByKeyword:
				return "label-set-by-shorthand-and-by-keyword"
			case w.Obj.Nulled[attr] || (strings.HasPrefix(attr, "style.") && w.Obj.Nulled["style"]):
				return "attribute-was-nulled"
			case w.Obj.Recreated:
				parts := strings.Split(w.Key, "\x1f")
				for i := len(parts); i > 0; i-- {
					if m.RemovedScopedOut[strings.Join(parts[:i], "\x1f")] {
						return "redeclared-after-null:connection-in-its-scope-leaves-through-underscore"
					}
				}
				return "redeclared-after-null"
			}
			return "plain"
		}
		if o.IDVal != w.Name {
			add(4, "C10.merge.spelling", trigFor(""), fmt.Sprintf("object %q: name spelled %q, model (first spelling) %q", c09Show(w.Key), o.IDVal, w.Name))
		}
		if o.Label.Value != w.Label {
			add(3, "C10.last-wins.label", trigFor("label"), fmt.Sprintf("object %q: label %q, model %q", c09Show(w.Key), o.Label.Value, w.Label))
		}
		if sh := c10Scalar(po.Attrs, "shape"); sh != w.Shape {
			add(3, "C10.last-wins.shape", trigFor("shape"), fmt.Sprintf("object %q: shape %q, model %q", c09Show(w.Key), sh, w.Shape))
		}
		c10CmpStyle(c10Style(po.Attrs), w.Style, func(k, a, b string) {
			add(3, "C10.last-wins.style", trigFor("style."+k), fmt.Sprintf("object %q: style.%s %q, model %q", c09Show(w.Key), k, a, b))
		})
	}

	// ---- connections ----
	type ek struct {
		src, dst string
		sa, da   bool
		idx      int
	}
	gotE := map[ek]*d2graph.Edge{}
	for _, e := range g.Edges {
		gotE[ek{c09ObjKey(e.Src), c09ObjKey(e.Dst), e.SrcArrow, e.DstArrow, e.Index}] = e
	}
	if len(gotE) != len(g.Edges) {
		add(1, "C10.edge-id-collision", "compiled", "two compiled connections share endpoints, arrows and index")
	}
	medges := m.EdgesOut()
	res.Add("edges_compared", len(medges))
	wantE := map[ek]model.CoreEdgeOut{}
	for _, e := range medges {
		wantE[ek{e.Src, e.Dst, e.SA, e.DA, e.Index}] = e
	}
	for k, e := range gotE {
		if _, ok := wantE[k]; ok {
			continue
		}
		trig := "other"
		for _, end := range []string{k.src, k.dst} {
			// the endpoint or one of its ancestors was removed by a null
			parts := strings.Split(end, "\x1f")
			for i := len(parts); i > 0; i-- {
				ro := m.Removed[strings.Join(parts[:i], "\x1f")]
				if ro == nil {
					continue
				}
				if trig == "other" {
					trig = "endpoint-removed-by-null"
				}
				if m.RemovedScopedOut[strings.Join(parts[:i], "\x1f")] {
					trig = "endpoint-removed-by-null:connection-in-its-scope-leaves-through-underscore"
				}
			}
		}
		add(1, "C10.null-edge.survives", trig, fmt.Sprintf("connection %s exists in the compiled graph but not in the model (%s)", e.AbsID(), trig))
	}
	for k, w := range wantE {
		e, ok := gotE[k]
		if !ok {
			trig := "plain"
			if len(w.Edge.Nulled) > 0 {
				trig = "an-attribute-of-the-connection-was-nulled"
			}
			add(2, "C10.edge-missing", trig, fmt.Sprintf("connection (%s %v/%v %s)[%d] is predicted by the model but missing (%s)", c09Show(k.src), k.sa, k.da, c09Show(k.dst), k.idx, trig))
			continue
		}
		if w.Edge.Ambiguous {
			res.Inc("vacuous_edge_attrs_ambiguous_index")
			continue
		}
		trigFor := func(attr string) string {
			switch {
			case attr == "label" && w.Edge.LabelByShorthand && w.Edge.LabelByKeyword:
				return "label-set-by-shorthand-and-by-keyword"
			case w.Edge.Nulled[attr]:
				return "attribute-was-nulled"
			}
			return "plain"
		}
		pe := proj.EdgeOf(e, proj.Opts{})
		if e.Label.Value != w.Label {
			add(3, "C10.last-wins.edge-label", trigFor("label"), fmt.Sprintf("connection %s: label %q, model %q", e.AbsID(), e.Label.Value, w.Label))
		}
		c10CmpStyle(c10Style(pe.Attrs), w.Style, func(k, a, b string) {
			add(3, "C10.last-wins.edge-style", trigFor("style."+k), fmt.Sprintf("connection %s: style.%s %q, model %q", e.AbsID(), k, a, b))
		})
	}

	sort.SliceStable(vs, func(i, j int) bool {
		if vs[i].prio != vs[j].prio {
			return vs[i].prio < vs[j].prio
		}
		return vs[i].clause+vs[i].trig+vs[i].msg < vs[j].clause+vs[j].trig+vs[j].msg
	})
	seen := map[string]bool{}
	for _, v := range vs {
		sig := v.clause + ":" + v.trig
		if seen[sig] || len(seen) >= 3 {
			continue
		}
		if v.prio > vs[0].prio && vs[0].prio == 1 {
			// something survived a null: labels, spellings and further elements that
			// differ are consequences (a surviving connection re-creates its endpoints)
			res.Inc("cascade_differences_not_reported")
			continue
		}
		seen[sig] = true
		res.Viol(v.clause, sig, v.msg+"\nprogram:\n"+in.Text)
	}
	// non-trivial: something was redeclared or removed
	hit := len(m.Removed) > 0
	for _, o := range mobjs {
		if o.Obj.Recreated || len(o.Obj.Nulled) > 0 {
			hit = true
		}
	}
	if strings.Count(in.Text, "\n") >= 4 && !hit {
		// redeclaration: some path written at least twice
		hit = c10HasRedeclaration(in.Prog)
	}
	res.Nontrivial = len(mobjs) >= 2 && hit
	if len(m.Removed) > 0 {
		res.Inc("programs_with_effective_object_null")
	}
	res.Inc("programs_compared")
	return
}

func c10HasEdgeAttrNull(prog []model.CoreStmt) bool {
	for _, s := range prog {
		if s.Kind == "eref" {
			for _, a := range s.Attrs {
				if a.Value == nil {
					return true
				}
			}
		}
		if c10HasEdgeAttrNull(s.Body) {
			return true
		}
	}
	return false
}

func c10HasRedeclaration(prog []model.CoreStmt) bool {
	seen := map[string]int{}
	var walk func(ss []model.CoreStmt, pre string)
	walk = func(ss []model.CoreStmt, pre string) {
		for _, s := range ss {
			if len(s.Path) > 0 {
				k := pre + strings.ToLower(strings.Join(s.Path, "\x1f"))
				seen[k]++
				walk(s.Body, k+"\x1f")
			}
		}
	}
	walk(prog, "")
	for _, n := range seen {
		if n > 1 {
			return true
		}
	}
	return false
}

func c10CmpStyle(got, want map[string]string, diff func(k, got, want string)) {
	keys := map[string]bool{}
	for k := range got {
		keys[k] = true
	}
	for k := range want {
		keys[k] = true
	}
	var ks []string
	for k := range keys {
		ks = append(ks, k)
	}
	sort.Strings(ks)
	for _, k := range ks {
		if got[k] != want[k] {
			diff(k, got[k], want[k])
		}
	}
}

func c10ErrClass(err error) string {
	s := err.Error()
	if i := strings.IndexByte(s, '\n'); i >= 0 {
		s = s[:i]
	}
	// drop "x.d2:L:C: "
	if parts := strings.SplitN(s, ": ", 2); len(parts) == 2 {
		s = parts[1]
	}
	var words []string
	for _, w := range strings.Fields(s) {
		ok := true
		for _, ch := range w {
			if !(ch >= 'a' && ch <= 'z' || ch == '-') {
				ok = false
			}
		}
		if !ok {
			if len(words) == 0 {
				continue
			}
			break
		}
		words = append(words, w)
		if len(words) == 6 {
			break
		}
	}
	if len(words) == 0 {
		return "other"
	}
	return strings.Join(words, "-")
}
