package mon

// C24 — constant-near shapes are placed outside the diagram on the requested side.
//
// Workload: gen.L2NearBoard — random main content (gen.Diagram: containers, all shapes, grids,
// sequence diagrams, labels at all positions, edges) plus 1–8 root-level shapes with a constant
// near (leaves, containers with children and edges, grids, sequence diagrams; labels inside /
// outside, icons, explicit sizes), cycling through the 8 constants; dagre and ELK.
//
// Oracle, from the EXPORT only: main box B = extent of all shapes that are not (inside) a
// constant-near shape, their OUTSIDE labels (lib/label placement), and the route points of the
// connections between them — the notion d2near.boundingBox documents ("bounds taking into
// consideration only shapes"), recomputed here. For every near shape N (its box):
//   top-*     N.bottom ≤ B.top      bottom-*  N.top ≥ B.bottom
//   *-left    N.right ≤ B.left      *-right   N.left ≥ B.right
//   top-center / bottom-center: N's centre x = B's centre x;  center-left / center-right:
//   N's centre y = B's centre y (±1.5: integer export)
// The statement says nothing about the distance (d2 uses 20 px) nor about near shapes among
// themselves; neither is demanded.

import (
	"fmt"
	"math"
	"sort"
	"strings"

	"verif/gen"
	"verif/run"

	"oss.terrastruct.com/d2/d2ast"
	"oss.terrastruct.com/d2/d2target"
	"oss.terrastruct.com/d2/lib/geo"
	"oss.terrastruct.com/d2/lib/label"
)

type c24In struct {
	Text   string            `json:"text"`
	Engine string            `json:"engine"`
	Nears  map[string]string `json:"nears"`
	Feats  []string          `json:"feats,omitempty"`
}

func init() {
	run.Register(&run.Check{
		ID: "C24", Title: "Constant-near shapes are placed outside the diagram on the requested side",
		LevelText: "Exploration: generated diagrams (random main content from the shared diagram generator plus 1–8 constant-near root shapes — leaves, containers, grids, sequence diagrams, with inside/outside labels, icons, explicit sizes — over all 8 constants) are laid out with dagre and ELK; from the exported diagram the monitor recomputes the main bounding box (non-near shapes, their outside labels, routes between them) and checks that each near shape lies entirely beyond it on the named side(s) and is centred on it where the constant says center.",
		Technique: "runtime monitoring: geometric oracle with an independently recomputed main bounding box over generated diagrams",
		DesignRef: "§4 C24",
		Rule:      "cases: gen.L2NearBoard(seed,i) × engine; distinct by sha256(engine,text); non-trivial when the main content has ≥1 shape and ≥1 near shape was judged. Counters: nears_judged per constant, side_checks, centre_checks, vacuous_empty_main, feature histogram",
		Chunk:     8,
		CPUBudget: 120,
		Gen:       genC24,
		Exec:      execC24,
	})
}

func genC24(seed int64, tier string, emit func(run.Case)) {
	r := gen.New(seed*7919 + 24)
	nd, ne := 300, 30
	if tier == "thorough" {
		nd, ne = 6000, 600
	}
	id := 0
	for _, eng := range []string{"dagre", "elk"} {
		n := nd
		if eng == "elk" {
			n = ne
		}
		for i := 0; i < n; i++ {
			q := r.Sub(i)
			text, nears, feats := gen.L2NearBoard(q, eng, i)
			id++
			emit(run.MkCase(fmt.Sprintf("%s%06d", eng[:1], id), eng, c24In{Text: text, Engine: eng, Nears: nears, Feats: feats}))
		}
	}
}

func execC24(c run.Case) (res run.Result) {
	var in c24In
	c.Decode(&in)
	res.Digest = laySha(in.Engine + "\x00" + in.Text)
	res.Sample = map[string]any{"engine": in.Engine, "text": trunc(in.Text, 700)}
	res.Inc("engine_" + in.Engine)
	d, g, err := layCompile(in.Engine, in.Text)
	if err != nil {
		if layIsCompileError(err) {
			res.Inc("vacuous_compile_error")
			res.Inconclusive = "harness: generated near board does not compile: " + trunc(err.Error(), 300)
		} else {
			res.Inc("vacuous_layout_error") // C17
		}
		return
	}
	for _, f := range in.Feats {
		res.Inc("f_" + f)
	}
	inNear := func(id string) bool {
		root := id
		if k := strings.Index(id, "."); k >= 0 {
			root = id[:k]
		}
		_, ok := in.Nears[root]
		return ok
	}
	// main box
	x1, y1, x2, y2 := math.Inf(1), math.Inf(1), math.Inf(-1), math.Inf(-1)
	grow := func(r layRect) {
		x1, y1 = math.Min(x1, r.X), math.Min(y1, r.Y)
		x2, y2 = math.Max(x2, r.X2()), math.Max(y2, r.Y2())
	}
	mainShapes := 0
	for i := range d.Shapes {
		s := &d.Shapes[i]
		if inNear(s.ID) {
			continue
		}
		mainShapes++
		b := layShapeRect(s)
		grow(b)
		if s.Label != "" && s.LabelPosition != "" {
			if pos := label.FromString(s.LabelPosition); pos.IsOutside() {
				tl := pos.GetPointOnBox(geo.NewBox(geo.NewPoint(b.X, b.Y), b.W, b.H), label.PADDING, float64(s.LabelWidth), float64(s.LabelHeight))
				grow(layRect{tl.X, tl.Y, float64(s.LabelWidth), float64(s.LabelHeight)})
			}
		}
	}
	for i := range d.Connections {
		cn := &d.Connections[i]
		if inNear(cn.Src) || inNear(cn.Dst) {
			continue
		}
		for _, p := range cn.Route {
			grow(layRect{p.X, p.Y, 0, 0})
		}
	}
	if mainShapes == 0 {
		res.Inc("vacuous_empty_main")
		return
	}
	B := layRect{x1, y1, x2 - x1, y2 - y1}
	// Triggers of known root causes, decided on facts independent of d2near:
	//  (a) d2near.boundingBox runs before nested diagrams (grids, sequence diagrams) are injected
	//      back, so it sees only their containers: main content that overflows its root-level
	//      container (a sequence-diagram note wider than the diagram, a grid with explicit
	//      dimensions smaller than its cells) is not part of its box;
	//  (b) it uses the label position an object has at that moment; d2sequence.Layout later
	//      forces INSIDE_TOP_CENTER on a sequence-diagram container whatever label.near said.
	cause := ""
	rootBox := map[string]layRect{}
	for i := range d.Shapes {
		if s := &d.Shapes[i]; !strings.Contains(s.ID, ".") {
			rootBox[s.ID] = layShapeRect(s)
		}
	}
	rootOf := func(id string) (layRect, bool) {
		k := strings.Index(id, ".")
		if k < 0 {
			return layRect{}, false
		}
		rb, ok := rootBox[id[:k]]
		return rb, ok
	}
	for i := range d.Shapes {
		s := &d.Shapes[i]
		if inNear(s.ID) {
			continue
		}
		rb, ok := rootOf(s.ID)
		if !ok {
			continue
		}
		// the descendant's box or its OUTSIDE label (e.g. the label of a sequence-diagram actor
		// that is wider than the whole diagram) sticks out of the root-level container
		b := layShapeRect(s)
		if !rb.ContainsRect(b, 1) {
			cause = "main-content-overflows-its-root-container"
		}
		if s.Label != "" && s.LabelPosition != "" {
			if pos := label.FromString(s.LabelPosition); pos.IsOutside() {
				tl := pos.GetPointOnBox(geo.NewBox(geo.NewPoint(b.X, b.Y), b.W, b.H), label.PADDING, float64(s.LabelWidth), float64(s.LabelHeight))
				if !rb.ContainsRect(layRect{tl.X, tl.Y, float64(s.LabelWidth), float64(s.LabelHeight)}, 1) {
					cause = "main-content-overflows-its-root-container"
				}
			}
		}
	}
	for i := range d.Connections {
		// … or a route of a nested diagram does (self messages of the last actor)
		cn := &d.Connections[i]
		if inNear(cn.Src) || inNear(cn.Dst) {
			continue
		}
		rs, ok1 := rootOf(cn.Src)
		rd, ok2 := rootOf(cn.Dst)
		if !ok1 || !ok2 || rs != rd {
			continue // an edge between root-level subtrees is laid out by the root layout itself
		}
		for _, p := range cn.Route {
			if !rs.Contains(p.X, p.Y, 1) {
				cause = "main-content-overflows-its-root-container"
			}
		}
	}
	for i := range d.Shapes {
		// … also when dagre/ELK themselves moved the label outside because it is larger than the
		// (then childless) sequence-diagram placeholder (positionLabelsIcons)
		s := &d.Shapes[i]
		if s.Type == d2target.ShapeSequenceDiagram && !inNear(s.ID) && s.Label != "" && (s.LabelWidth > s.Width || s.LabelHeight > s.Height) {
			cause = "main-label-position-overridden-after-near-layout"
		}
	}
	if g != nil {
		for _, o := range g.Objects {
			if inNear(o.AbsID()) || o.Attributes.LabelPosition == nil || o.LabelPosition == nil {
				continue
			}
			if want, ok := d2ast.LabelPositionsMapping[o.Attributes.LabelPosition.Value]; ok && want.String() != *o.LabelPosition && want.IsOutside() {
				cause = "main-label-position-overridden-after-near-layout"
			}
		}
	}
	shapeOf := map[string]*d2target.Shape{}
	for i := range d.Shapes {
		shapeOf[d.Shapes[i].ID] = &d.Shapes[i]
	}
	ids := make([]string, 0, len(in.Nears))
	for id := range in.Nears {
		ids = append(ids, id)
	}
	sort.Strings(ids)
	judged := 0
	sigTail := func(key, kind, lp string) string {
		if cause != "" {
			return cause
		}
		return key + ":" + kind + ":" + lp
	}
	for _, id := range ids {
		key := in.Nears[id]
		s := shapeOf[id]
		if s == nil {
			res.Viol("C24.near-missing", "C24.near-missing", fmt.Sprintf("near shape %q is not among the exported shapes", id))
			continue
		}
		N := layShapeRect(s)
		judged++
		res.Inc("nears_judged_" + key)
		kind := "leaf"
		for i := range d.Shapes {
			if strings.HasPrefix(d.Shapes[i].ID, id+".") {
				kind = "container"
				break
			}
		}
		lp := "label-inside-or-none"
		if s.Label != "" && strings.HasPrefix(s.LabelPosition, "OUTSIDE") {
			lp = "label-outside"
		}
		const tol = 1.0
		desc := func(what string) string {
			return fmt.Sprintf("near shape %q (near: %s, %s, label position %q) box %v: %s; main box %v (engine %s) %s", id, key, kind, s.LabelPosition, N, what, B, in.Engine, cause)
		}
		side := func(ok bool, what string) {
			res.Inc("side_checks")
			if !ok {
				res.Viol("C24.side", "C24.side:"+sigTail(key, kind, lp), desc(what))
			}
		}
		if strings.HasPrefix(key, "top-") {
			side(N.Y2() <= B.Y+tol, "its bottom is below the top of the main box")
		}
		if strings.HasPrefix(key, "bottom-") {
			side(N.Y >= B.Y2()-tol, "its top is above the bottom of the main box")
		}
		if strings.HasSuffix(key, "-left") {
			side(N.X2() <= B.X+tol, "its right side is right of the left side of the main box")
		}
		if strings.HasSuffix(key, "-right") {
			side(N.X >= B.X2()-tol, "its left side is left of the right side of the main box")
		}
		switch key {
		case "top-center", "bottom-center":
			res.Inc("centre_checks")
			if math.Abs((N.X+N.W/2)-(B.X+B.W/2)) > 1.5 {
				res.Viol("C24.centre", "C24.centre:"+sigTail(key, kind, lp), desc(fmt.Sprintf("centre x %g is not the main box's centre x %g", N.X+N.W/2, B.X+B.W/2)))
			}
		case "center-left", "center-right":
			res.Inc("centre_checks")
			if math.Abs((N.Y+N.H/2)-(B.Y+B.H/2)) > 1.5 {
				res.Viol("C24.centre", "C24.centre:"+sigTail(key, kind, lp), desc(fmt.Sprintf("centre y %g is not the main box's centre y %g", N.Y+N.H/2, B.Y+B.H/2)))
			}
		}
	}
	res.Nontrivial = judged > 0
	return
}
