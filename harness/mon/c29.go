package mon

import (
	"fmt"
	"regexp"
	"sort"
	"strings"

	"verif/gen"
	"verif/model"
	"verif/run"

	"oss.terrastruct.com/d2/d2renderers/d2svg"
	"oss.terrastruct.com/d2/d2target"
)

// C29: every shape box (with stroke, shadow, 3D and multiple offsets), outside label, icon,
// connection route point and connection label of a board lies inside Diagram.BoundingBox(),
// and the rendered SVG viewport contains that box plus the requested padding.
//
// Oracle (independent of d2target.BoundingBox / d2svg.dimensions arithmetic):
//   - model.ModelElements: rectangles recomputed from the exported numbers (box ± stroke/2,
//     shadow shift read from the SVG's own filter, 3d / multiple shifts, route points ± stroke/2);
//   - model.ParseSVG: what the rendered document actually draws per shape / connection group:
//     shape geometry (incl. the drawn 3d and multiple copies), icons (<image>), labels (the
//     <text> anchor d2 emits, i.e. label centre-x / first baseline, plus the exported label
//     width/height; <foreignObject> boxes for markdown), connection paths, connection labels and
//     arrowhead labels.
//
// Clauses:
//
//	C29.outside-bbox      an element sticks out of BoundingBox() by more than 1 px (the box is
//	                      integer valued and truncates; 1 px is the statement's rounding slack)
//	C29.viewbox           the SVG viewBox does not contain BoundingBox() inflated by pad
//	C29.outside-viewbox   drawn geometry lies outside the SVG viewBox (clipped)
//
// Legitimately NOT demanded (not in the statement's list): arrowhead markers, the blur halo
// of shadows, connection label background pads, tooltip/link appendix icons, the legend,
// sketch-mode wobble (sketch is off in this check).
func init() {
	run.Register(&run.Check{
		ID: "C29", Title: "Bounding box and SVG viewport enclose everything drawn",
		LevelText: "Exploration: generated diagrams (labels at all 33 positions, icons, shadow/3d/multiple, arrowhead labels, nears, grids, sequence diagrams) are laid out by dagre (and ELK for a share), exported and rendered with random padding; an independent extent calculator (exported numbers + the geometry parsed back from the rendered SVG) is compared with Diagram.BoundingBox() and the SVG viewBox.",
		Technique: "runtime monitoring: independent extent calculator (model/extent.go) over exported diagram and parsed SVG vs. BoundingBox / viewBox",
		DesignRef: "§4 C29",
		Rule:      "cases: gen.Diagram biased to label/icon positions and decorations × {dagre, elk} × pad ∈ {0,1,7,20,100,default} × center; distinct by sha256(case); non-trivial when the board has ≥2 shapes, ≥1 element outside the plain shape boxes (outside/border label, outside icon, shadow/3d/multiple, connection label) was evaluated and the SVG parsed with a viewBox",
		Chunk:     4,
		CPUBudget: 300,
		Gen:       genC29,
		Exec:      execC29,
	})
}

type c29In struct {
	Text   string `json:"text"`
	Engine string `json:"engine"`
	Pad    int64  `json:"pad"` // -1: leave unset (default)
	Center bool   `json:"center"`
}

func c29Opts(r *gen.R) gen.DiagramOpts {
	o := gen.DiagramOpts{MinObjects: 2, MaxObjects: 12, MaxDepth: 3, Latex: -1, Boards: .03,
		Labels: .7, LabelPos: .6, Icons: .35, IconPos: .7, Mods: .45, Styles: .25, Arrowheads: .4, EdgeLabels: .6,
		EdgeStyles: .3, Near: .3, Tooltips: .08, Links: .05}
	if r.P(0.3) {
		o.MaxObjects = 5
	}
	return o
}

func genC29(seed int64, tier string, emit func(run.Case)) {
	r := gen.New(seed)
	n := tierN(tier, 120, 8000)
	pads := []int64{0, 0, 1, 7, 20, 100, -1}
	for i := 0; i < n; i++ {
		q := r.Sub(i)
		eng := "dagre"
		if q.P(0.15) {
			eng = "elk"
		}
		o := c29Opts(q)
		o.Engine = eng
		in := c29In{Text: gen.Diagram(q, o), Engine: eng, Pad: gen.Pick(q, pads), Center: q.P(0.2)}
		if i%4 == 3 {
			// icon / label extremes: few shapes of every type, each with an icon or label at an
			// outside / border position as the outermost thing on its side, pad 0 or tiny
			in.Text = c29ExtremesDiagram(q)
			in.Pad = gen.Pick(q, []int64{0, 0, 1, 3})
			emit(run.MkCase(fmt.Sprintf("c%06d", i), "extremes-"+eng, in))
			continue
		}
		emit(run.MkCase(fmt.Sprintf("c%06d", i), eng, in))
	}
}

var c29Positions = []string{"outside-top-left", "outside-top-center", "outside-top-right", "outside-left-top", "outside-left-center",
	"outside-left-bottom", "outside-right-top", "outside-right-center", "outside-right-bottom", "outside-bottom-left",
	"outside-bottom-center", "outside-bottom-right", "border-top-center", "border-left-center", "border-right-center", "border-bottom-center",
	"top-left", "center-center", "bottom-right"}

// c29ExtremesDiagram: 1–4 unconnected or sparsely connected shapes of random type (every
// simple shape incl. the non-rectangular ones, whose inner box is smaller than the box), each
// with an icon and/or a short label at an outside / border position, optional explicit size
// and decorations. With so few shapes the icon or label is the outermost element on its side.
func c29ExtremesDiagram(r *gen.R) string {
	var sb strings.Builder
	if r.P(0.3) {
		sb.WriteString("direction: " + r.Str("right", "down", "left", "up") + "\n")
	}
	n := r.Range(1, 4)
	for i := 0; i < n; i++ {
		fmt.Fprintf(&sb, "s%d: {\n", i)
		sh := gen.Pick(r, gen.SimpleShapes)
		fmt.Fprintf(&sb, "  shape: %s\n", sh)
		if r.P(0.5) {
			sb.WriteString("  label: \"\"\n")
		} else {
			fmt.Fprintf(&sb, "  label: %s\n", r.Str("x", "label", "a longer label here"))
			if r.P(0.6) {
				fmt.Fprintf(&sb, "  label.near: %s\n", gen.Pick(r, c29Positions))
			}
		}
		if r.P(0.8) {
			sb.WriteString("  icon: https://icons.terrastruct.com/essentials/004-picture.svg\n")
			fmt.Fprintf(&sb, "  icon.near: %s\n", gen.Pick(r, c29Positions[:16]))
		}
		if r.P(0.4) {
			w := r.Range(4, 40) * 10
			h := w
			if sh != "circle" && sh != "square" {
				h = r.Range(4, 40) * 10
			}
			fmt.Fprintf(&sb, "  width: %d\n  height: %d\n", w, h)
		}
		switch r.Intn(6) {
		case 0:
			sb.WriteString("  style.multiple: true\n")
		case 1:
			sb.WriteString("  style.shadow: true\n")
		case 2:
			if sh == "rectangle" || sh == "square" || sh == "hexagon" {
				sb.WriteString("  style.3d: true\n")
			}
		}
		if r.P(0.25) {
			sb.WriteString("  c: inner\n")
		}
		sb.WriteString("}\n")
	}
	if n > 1 && r.P(0.5) {
		fmt.Fprintf(&sb, "s0 -> s%d\n", n-1)
	}
	return sb.String()
}

func c29LabelClass(pos string) string {
	switch {
	case strings.HasPrefix(pos, "OUTSIDE_"):
		return "outside"
	case strings.HasPrefix(pos, "BORDER_"):
		return "border"
	case strings.HasPrefix(pos, "INSIDE_"):
		return "inside"
	case pos == "":
		return "unset"
	}
	return "other"
}

func c29Deco(s *d2target.Shape) string {
	d := ""
	if s.ThreeDee {
		d += "+3d"
	}
	if s.Multiple {
		d += "+multiple"
	}
	return d
}

type c29Elem struct {
	model.Element
	fromSVG bool
	extra   bool // not a plain shape box / route point
	info    bool // observed only (not in the statement's list)
}

func execC29(c run.Case) (res run.Result) {
	var in c29In
	c.Decode(&in)
	ro := &d2svg.RenderOpts{Center: c2rPtr(in.Center), Sketch: c2rPtr(false)}
	if in.Pad >= 0 {
		ro.Pad = c2rPtr(in.Pad)
	}
	diagram, _, err := c2rCompileShared(in.Text, in.Engine, nil, ro)
	if err != nil || diagram == nil {
		res.Inc("vacuous_compile_or_layout_error")
		return
	}
	c2rFeatures(in.Text, res.Inc)
	res.Inc("engine_" + in.Engine)
	pad := int(d2svg.DEFAULT_PADDING)
	if ro.Pad != nil {
		pad = int(*ro.Pad)
	}
	res.Inc(fmt.Sprintf("pad_%d", pad))
	nontrivial := false
	seenSig := map[string]bool{}
	viol := func(clause, sig, msg string) {
		if seenSig[sig] {
			res.Inc("repeat_violations_same_case")
			return
		}
		seenSig[sig] = true
		res.Viol(clause, sig, msg)
	}
	for bi, b := range c2rBoards(diagram) {
		if b.IsFolderOnly {
			continue
		}
		svg, err := d2svg.Render(b, ro)
		if err != nil {
			res.Inc("vacuous_render_error")
			continue
		}
		doc, perr := model.ParseSVG(svg)
		if perr != nil || !doc.HasViewBox {
			res.Inc("vacuous_svg_unparsed")
			continue
		}
		res.Inc("boards_evaluated")
		if len(b.Shapes) == 0 {
			res.Inc("vacuous_empty_board")
			continue
		}
		tl, br := b.BoundingBox()
		bbox := model.Rect{X1: float64(tl.X), Y1: float64(tl.Y), X2: float64(br.X), Y2: float64(br.Y)}
		if c29Absurd(bbox) {
			// int(NaN) / int(±Inf) inside BoundingBox: some coordinate of the export is not finite.
			// Finite geometry is C17's clause; here it makes box and viewport meaningless, which
			// is reported once with the trigger that produced the non-finite number.
			res.Inc("bbox_nonfinite")
			viol("C29.bbox-nonfinite", "C29.bbox-nonfinite:"+c29NonfiniteTrigger(b),
				fmt.Sprintf("board %d engine %s: BoundingBox() = %v (viewBox %v)\n%s", bi, in.Engine, bbox, doc.ViewBox, in.Text))
			continue
		}

		// ---- clause: viewBox ⊇ bbox ± pad
		res.Inc("clause_viewbox_evaluated")
		want := bbox.Grow(float64(pad))
		if ex, side := want.Excess(doc.ViewBox); ex > 1e-9 {
			viol("C29.viewbox", "C29.viewbox:lacks-padded-bbox:"+side,
				fmt.Sprintf("board %d: viewBox %v does not contain BoundingBox %v inflated by pad %d (short by %.2f on the %s)\n%s", bi, doc.ViewBox, bbox, pad, ex, side, in.Text))
		}

		// ---- elements
		shapes := map[string]*d2target.Shape{}
		var ms []model.ExtShape
		for i := range b.Shapes {
			s := &b.Shapes[i]
			shapes[s.ID] = s
			ms = append(ms, model.ExtShape{ID: s.ID, Type: s.Type, X: float64(s.Pos.X), Y: float64(s.Pos.Y), W: float64(s.Width), H: float64(s.Height),
				Stroke: float64(s.StrokeWidth), Shadow: s.Shadow, ThreeDee: s.ThreeDee, Multiple: s.Multiple})
		}
		conns := map[string]*d2target.Connection{}
		var mc []model.ExtConn
		for i := range b.Connections {
			cn := &b.Connections[i]
			conns[cn.ID] = cn
			ec := model.ExtConn{ID: cn.ID, Stroke: float64(cn.StrokeWidth)}
			for _, p := range cn.Route {
				ec.Route = append(ec.Route, [2]float64{p.X, p.Y})
			}
			mc = append(mc, ec)
		}
		if !doc.HasShadowFilter {
			for i := range ms {
				if ms[i].Shadow {
					res.Inc("shadow_flag_without_svg_filter")
					ms[i].Shadow = false
				}
			}
		}
		var elems []c29Elem
		for _, e := range model.ModelElements(ms, mc, doc.ShadowDX, doc.ShadowDY) {
			ex := e.Kind != "shape-box" && e.Kind != "route-point"
			if s := shapes[e.Owner]; s != nil && ex {
				e.Kind += c29DecoOther(e.Kind, s)
			}
			elems = append(elems, c29Elem{Element: e, extra: ex})
		}
		matched := 0
		for _, g := range doc.Groups {
			if s, ok := shapes[g.ID]; ok && g.ID != "" {
				matched++
				labelDone := false
				for _, p := range g.Prims {
					switch {
					case p.InShape && !(p.Elem == "image" && s.Type != d2target.ShapeImage):
						if p.Elem == "text" {
							continue // class / table rows: inside the box by construction of their own layout, anchors only
						}
						k := "shape-geometry:" + s.Type + c29Deco(s)
						if s.Type == d2target.ShapeC4Person || s.Type == d2target.ShapeClass {
							// their own outline / row layout leaves the box whatever the decoration
							k = "shape-geometry:" + s.Type
						}
						elems = append(elems, c29Elem{Element: model.Element{Owner: s.ID, Kind: k, R: p.R}, fromSVG: true, extra: s.ThreeDee || s.Multiple})
					case p.Elem == "image":
						k := "icon:" + c29LabelClass(s.IconPosition)
						elems = append(elems, c29Elem{Element: model.Element{Owner: s.ID, Kind: k, R: p.R}, fromSVG: true, extra: true})
					case p.Elem == "foreignObject":
						cl := c29LabelClass(s.LabelPosition)
						k := "label-md:" + cl + c29Deco(s)
						elems = append(elems, c29Elem{Element: model.Element{Owner: s.ID, Kind: k, R: p.R}, fromSVG: true, extra: true, info: cl == "inside" || cl == "unset"})
					case p.Elem == "text":
						if labelDone || s.Label == "" || s.Language != "" || p.FontSize == 0 {
							continue
						}
						labelDone = true
						// d2 anchors a label's <text> at (left + width/2, top + font-size): invert with the
						// exported label dimensions.
						lw, lh := float64(s.LabelWidth), float64(s.LabelHeight)
						r := model.Rect{X1: p.R.X1 - lw/2, Y1: p.R.Y1 - p.FontSize, X2: p.R.X1 + lw/2, Y2: p.R.Y1 - p.FontSize + lh}
						cl := c29LabelClass(s.LabelPosition)
						if int(p.FontSize) != s.FontSize {
							res.Inc("label_fontsize_mismatch_svg_vs_export")
						}
						elems = append(elems, c29Elem{Element: model.Element{Owner: s.ID, Kind: "label:" + cl + c29Deco(s), R: r}, fromSVG: true, extra: cl != "inside" && cl != "unset", info: cl == "inside" || cl == "unset"})
					default:
						elems = append(elems, c29Elem{Element: model.Element{Owner: s.ID, Kind: "aux-geometry:" + p.Elem, R: p.R}, fromSVG: true})
					}
				}
				continue
			}
			if cn, ok := conns[g.ID]; ok && g.ID != "" {
				matched++
				// texts appear in the order: label, source arrowhead label, destination arrowhead label
				type lab struct {
					kind string
					w, h float64
				}
				var labs []lab
				if cn.Label != "" && cn.Language == "" {
					labs = append(labs, lab{"conn-label", float64(cn.LabelWidth), float64(cn.LabelHeight)})
				}
				if cn.SrcLabel != nil && cn.SrcLabel.Label != "" {
					labs = append(labs, lab{"arrowhead-label", float64(cn.SrcLabel.LabelWidth), float64(cn.SrcLabel.LabelHeight)})
				}
				if cn.DstLabel != nil && cn.DstLabel.Label != "" {
					labs = append(labs, lab{"arrowhead-label", float64(cn.DstLabel.LabelWidth), float64(cn.DstLabel.LabelHeight)})
				}
				ti := 0
				for _, p := range g.Prims {
					switch {
					case p.Elem == "path" && strings.Contains(p.Class, "connection"):
						elems = append(elems, c29Elem{Element: model.Element{Owner: cn.ID, Kind: "route-path", R: p.R}, fromSVG: true})
					case p.Elem == "foreignObject":
						elems = append(elems, c29Elem{Element: model.Element{Owner: cn.ID, Kind: "conn-label-md", R: p.R}, fromSVG: true, extra: true})
					case p.Elem == "text" && p.FontSize > 0:
						if ti >= len(labs) {
							res.Inc("conn_text_unassigned")
							continue
						}
						l := labs[ti]
						ti++
						r := model.Rect{X1: p.R.X1 - l.w/2, Y1: p.R.Y1 - p.FontSize, X2: p.R.X1 + l.w/2, Y2: p.R.Y1 - p.FontSize + l.h}
						elems = append(elems, c29Elem{Element: model.Element{Owner: cn.ID, Kind: l.kind, R: r}, fromSVG: true, extra: true})
					}
				}
				continue
			}
			res.Inc("svg_groups_unmatched")
		}
		res.Add("svg_groups_matched", matched)
		if matched < len(b.Shapes)+len(b.Connections) {
			res.Inc("boards_with_unmatched_export_items")
		}
		res.Add("svg_untracked_elements", doc.Untracked)

		nExtra := 0
		sort.SliceStable(elems, func(i, j int) bool { return elems[i].Kind < elems[j].Kind })
		for _, e := range elems {
			res.Inc("elem_" + strings.SplitN(e.Kind, "+", 2)[0])
			if e.extra {
				nExtra++
			}
			if e.info {
				// inside / unset label positions are not in the statement's list (a label wider than
				// its own shape overflows it): observed, not judged.
				if ex, _ := e.R.Excess(bbox); ex > 1.0+1e-9 {
					res.Inc("info_inside_label_overflows_bbox")
				}
				continue
			}
			// every side is judged on its own: the signature names the root-cause class (which side,
			// bounded by which offset), so that a known finding cannot swallow a different defect of
			// the same element kind
			for _, sd := range c29Sides(e.R, bbox) {
				if sd.ex > 1.0+1e-9 {
					viol("C29.outside-bbox", "C29.outside-bbox:"+e.Kind+c29Trigger(e, shapes[e.Owner], sd.side, sd.ex),
						fmt.Sprintf("board %d engine %s: %s of %q = %v sticks out of BoundingBox %v by %.2f px on the %s\n%s", bi, in.Engine, e.Kind, e.Owner, e.R, bbox, sd.ex, sd.side, in.Text))
				}
			}
			if e.fromSVG {
				for _, sd := range c29Sides(e.R, doc.ViewBox) {
					if sd.ex > 1.0+1e-9 {
						// what matters for the cause is how far the element is outside the bounding box;
						// the viewBox is that box plus pad
						viol("C29.outside-viewbox", "C29.outside-viewbox:"+e.Kind+c29Trigger(e, shapes[e.Owner], sd.side, sd.ex+float64(pad)),
							fmt.Sprintf("board %d engine %s pad %d: drawn %s of %q = %v lies outside the SVG viewBox %v by %.2f px on the %s\n%s", bi, in.Engine, pad, e.Kind, e.Owner, e.R, doc.ViewBox, sd.ex, sd.side, in.Text))
					}
				}
			}
		}
		res.Add("elements_evaluated", len(elems))
		if len(b.Shapes) >= 2 && nExtra > 0 {
			nontrivial = true
		}
	}
	res.Nontrivial = nontrivial
	res.Sample = map[string]any{"engine": in.Engine, "pad": in.Pad, "text": trunc(in.Text, 300)}
	return
}

// c29DecoOther: for model elements other than the decoration itself nothing is appended.
func c29DecoOther(kind string, s *d2target.Shape) string {
	if kind == "shadow" {
		return c29Deco(s)
	}
	return ""
}

func c29Absurd(r model.Rect) bool {
	for _, v := range []float64{r.X1, r.Y1, r.X2, r.Y2} {
		if v != v || v > 1e12 || v < -1e12 {
			return true
		}
	}
	return false
}

// c29NonfiniteTrigger names what in the export makes BoundingBox non-finite.
func c29NonfiniteTrigger(b *d2target.Diagram) string {
	for i := range b.Connections {
		cn := &b.Connections[i]
		zero := len(cn.Route) >= 2
		for j := 1; j < len(cn.Route); j++ {
			if cn.Route[j].X != cn.Route[0].X || cn.Route[j].Y != cn.Route[0].Y {
				zero = false
			}
		}
		for _, p := range cn.Route {
			if p.X != p.X || p.Y != p.Y || p.X > 1e12 || p.X < -1e12 || p.Y > 1e12 || p.Y < -1e12 {
				return "nonfinite-route-point"
			}
		}
		if zero && (cn.Label != "" || (cn.SrcLabel != nil && cn.SrcLabel.Label != "") || (cn.DstLabel != nil && cn.DstLabel.Label != "")) {
			return "zero-length-route-with-label"
		}
		if zero {
			return "zero-length-route"
		}
	}
	return "other"
}

type c29Side struct {
	side string
	ex   float64
}

var c29ReSelfLoop = regexp.MustCompile(`\((\S+) (?:--|->|<-|<->) (\S+)\)\[\d+\]$`)

// c29SelfLoop reports whether a connection id "(a -> a)[0]" joins an object with itself.
func c29SelfLoop(id string) bool {
	m := c29ReSelfLoop.FindStringSubmatch(id)
	return m != nil && m[1] == m[2]
}

func c29Sides(r, outer model.Rect) []c29Side {
	return []c29Side{{"left", outer.X1 - r.X1}, {"top", outer.Y1 - r.Y1}, {"right", r.X2 - outer.X2}, {"bottom", r.Y2 - outer.Y2}}
}

// c29Trigger qualifies a violation signature by the predicate that separates one root cause
// from another for the same element kind (s is the owning shape, nil for connections).
func c29Trigger(e c29Elem, s *d2target.Shape, side string, ex float64) string {
	k := e.Kind
	vertical := side == "top" || side == "bottom"
	switch {
	case s == nil:
		// connection elements: a self loop is drawn as a curve whose control points bulge a
		// few pixels beyond the route points BoundingBox accounts for
		if k == "route-path" && c29SelfLoop(e.Owner) {
			if ex <= 8 {
				return ":self-loop-curve-bulge-by-at-most-8px"
			}
			return ":self-loop-beyond-curve-bulge"
		}
		return ""
	case k == "shape-geometry:page":
		// the page outline draws its folded corner with fixed pixel offsets; on a box narrower
		// than the fold the path leaves the box by a couple of pixels
		if s.Width <= 40 && ex <= 4 {
			return ":box-narrower-than-fold-by-at-most-4px"
		}
		return ":box-not-narrower-than-fold"
	case strings.HasPrefix(k, "icon:outside"):
		mainVertical := strings.HasPrefix(s.IconPosition, "OUTSIDE_TOP") || strings.HasPrefix(s.IconPosition, "OUTSIDE_BOTTOM")
		if vertical == mainVertical {
			return ":main-axis"
		}
		if ex <= 5+1 {
			return ":cross-axis-by-corner-padding"
		}
		return ":cross-axis-beyond-corner-padding"
	case strings.HasPrefix(k, "icon:border"):
		half := (e.R.X2 - e.R.X1) / 2
		if h := (e.R.Y2 - e.R.Y1) / 2; h > half {
			half = h
		}
		if ex <= half+1 {
			return ":by-at-most-half-the-icon"
		}
		return ":beyond-half-the-icon"
	case strings.HasPrefix(k, "label") && strings.Contains(k, "+3d"):
		if ex <= 15+1 {
			return ":by-at-most-3d-offset"
		}
		return ":beyond-3d-offset"
	case strings.HasPrefix(k, "label") && strings.Contains(k, "+multiple"):
		if ex <= 10+1 {
			return ":by-at-most-multiple-offset"
		}
		return ":beyond-multiple-offset"
	case strings.HasPrefix(k, "shape-geometry:c4-person"):
		if s.Width > s.Height {
			return ":box-wider-than-tall"
		}
		return ":box-not-wider-than-tall"
	case strings.HasPrefix(k, "shape-geometry:class"):
		if strings.Contains(s.Label, "\n") {
			return ":multi-line-header"
		}
		return ":single-line-header"
	}
	return ""
}
