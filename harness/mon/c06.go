package mon

import (
	"fmt"
	"strings"

	"verif/gen"
	"verif/proj"
	"verif/run"

	"oss.terrastruct.com/d2/d2ast"
	"oss.terrastruct.com/d2/d2graph"
	"oss.terrastruct.com/d2/d2parser"
)

// C06: object and connection IDs are valid, unambiguous D2 key paths.
//
// Workload: programs built from a pool of hostile names (quotes, dots, spaces, arrows,
// keywords in any case, non-ASCII), always written quoted by the generator's own quoting
// (gen.Quote / gen.SingleQuote, independent of d2format), so the monitor knows the set of
// declared spellings D without trusting the compiler.
//
// Oracle, per board:
//  A  ParseKey(obj.ID) is exactly one segment whose value is a declared spelling (and equals
//     obj.IDVal);
//  B  ParseKey(obj.AbsID()) is the name path from the root (the parsed IDs of the ancestors);
//  C  no two objects have AbsIDs equal ignoring case;
//  D  ParseMapKey(edge.AbsID()) has exactly one edge whose (scope+src, scope+dst) name paths,
//     arrow directions and index equal the edge's; no two edges share an AbsID;
//  E  Root.HasChild(d2graph.Key(ParseKey(AbsID))) returns that very object.

type c06In struct {
	Names []string `json:"names"`
	Text  string   `json:"text"`
}

func init() {
	run.Register(&run.Check{
		ID: "C06", Title: "Object and connection IDs are valid, unambiguous D2 key paths",
		LevelText: "Exploration: compilable programs over pools of hostile names (quotes, dots, spaces, arrows, keywords in any case, non-ASCII, case variants of each other) with nesting, connections (parallel, chained, both directions) and boards; every object's ID/AbsID and every connection's AbsID is parsed back with the real key parser and compared with the declared name paths; uniqueness ignoring case and HasChild lookup are checked per board.",
		Technique: "runtime monitoring: invariant oracle on compiled graphs (IDs parse back to declared name paths; uniqueness; lookup) over generated hostile-name programs",
		DesignRef: "§4 C06",
		Rule:      "cases: generated programs of 3–14 statements over 2–6 hostile names written with the generator's own quoting; distinct by sha256(text); non-trivial when the program compiled and has ≥2 objects of which ≥1 has a name that is not a plain identifier",
		Chunk:     32,
		Gen:       genC06,
		Exec:      execC06,
	})
}

// c06Bare reports whether s may be written unquoted without any escaping: words of
// [A-Za-z0-9_] joined by single spaces or single dashes, optionally one trailing dash; not a
// reserved attribute/board keyword (unquoted those are keywords, not names). The value
// literals null/true/false/suspend are allowed: as a key they are ordinary names.
func c06Bare(s string) bool {
	if s == "" || s == "_" {
		return false
	}
	prevSep := true
	for i, c := range s {
		switch {
		case c >= 'a' && c <= 'z', c >= 'A' && c <= 'Z', c >= '0' && c <= '9', c == '_':
			prevSep = false
		case c == ' ' || c == '-':
			if prevSep || (c == ' ' && i == len(s)-1) {
				return false
			}
			prevSep = true
		default:
			return false
		}
	}
	if _, ok := d2ast.ReservedKeywords[strings.ToLower(s)]; ok {
		return false
	}
	return true
}

func c06Key(r *gen.R, s string) string {
	if c06Bare(s) && r.P(0.5) {
		return s
	}
	if !strings.ContainsAny(s, "\n") && r.P(0.3) {
		return gen.SingleQuote(s)
	}
	if gen.IsPlain(s) && r.P(0.5) {
		return s
	}
	return gen.Quote(s)
}

func genC06(seed int64, tier string, emit func(run.Case)) {
	r := gen.New(seed)
	n := tierN(tier, 6000, 300000)
	for i := 0; i < n; i++ {
		q := r.Sub(i)
		var names []string
		for k := q.Range(2, 6); k > 0; k-- {
			switch q.Intn(6) {
			case 0:
				names = append(names, gen.Name(q, false, 8))
			case 2:
				// names that are legal unquoted but need care: trailing dash, inner dash or
				// space, value literals in any case
				names = append(names, gen.Pick(q, []string{gen.Name(q, false, 6) + "-", gen.Name(q, false, 4) + "-" + gen.Name(q, false, 4),
					gen.Name(q, false, 4) + " " + gen.Name(q, false, 4), q.RandCase("null"), q.RandCase("true"), q.RandCase("false"), q.RandCase("suspend"), "x-1", "1"}))
			case 1:
				if len(names) > 0 {
					names = append(names, q.RandCase(gen.Pick(q, names))) // case variant
					break
				}
				fallthrough
			default:
				nm := gen.Name(q, true, 12)
				if strings.ContainsAny(nm, "\x00") {
					nm = "x"
				}
				names = append(names, nm)
			}
		}
		var sb strings.Builder
		key := func() string { return c06Key(q, gen.Pick(q, names)) }
		// an unquoted name ending in "-" swallows a directly following ":" or "." (the
		// parser's dash look-ahead), so such a spelling is only used where white space follows
		notDash := func() string {
			for {
				if k := key(); !strings.HasSuffix(k, "-") {
					return k
				}
			}
		}
		path := func() string {
			var segs []string
			segs = append(segs, key())
			for q.P(0.3) {
				segs = append(segs, key())
			}
			for i := range segs[:len(segs)-1] {
				if strings.HasSuffix(segs[i], "-") {
					segs[i] = notDash()
				}
			}
			return strings.Join(segs, ".")
		}
		colon := func(p string) string {
			if strings.HasSuffix(p, "-") {
				return p + " :"
			}
			return p + ":"
		}
		var body func(d int)
		body = func(d int) {
			for k := q.Range(1, 5); k > 0; k-- {
				sb.WriteString(strings.Repeat("  ", d))
				switch q.Intn(6) {
				case 0, 1:
					sb.WriteString(path() + "\n")
				case 2:
					sb.WriteString(path() + " " + gen.Pick(q, gen.Arrows) + " " + path() + "\n")
				case 3:
					sb.WriteString(path() + " -> " + path() + " -> " + path() + "\n")
				case 4:
					if d < 3 {
						sb.WriteString(colon(key()) + " {\n")
						body(d + 1)
						sb.WriteString(strings.Repeat("  ", d) + "}\n")
					} else {
						sb.WriteString(key() + "\n")
					}
				default:
					sb.WriteString(colon(path()) + " " + gen.Quote(gen.Name(q, true, 8)) + "\n")
				}
			}
		}
		body(0)
		if q.P(0.15) {
			sb.WriteString("layers: {\n  " + colon(key()) + " {\n")
			body(2)
			sb.WriteString("  }\n}\n")
		}
		emit(run.MkCase(fmt.Sprintf("c%07d", i), "", c06In{Names: names, Text: sb.String()}))
	}
}

func c06NameClass(s string) string {
	switch {
	case s == "":
		return "empty-name"
	case func() bool { _, ok := map[string]bool{"null": true, "true": true, "false": true, "suspend": true, "unsuspend": true}[strings.ToLower(s)]; return ok }():
		return "literal-keyword-name"
	case func() bool {
		for _, k := range gen.Keywords {
			if strings.EqualFold(k, s) {
				return true
			}
		}
		return false
	}():
		return "keyword-name"
	case strings.ContainsAny(s, "\n\r"):
		return "newline-in-name"
	case strings.Contains(s, "\\"):
		return "backslash-in-name"
	case strings.ContainsAny(s, "'\""):
		return "quote-in-name"
	case strings.Contains(s, "."):
		return "dot-in-name"
	case strings.TrimSpace(s) != s:
		return "surrounding-space-in-name"
	case gen.IsPlain(s):
		return "plain-name"
	}
	return "special-character-name"
}

func execC06(c run.Case) (res run.Result) {
	var in c06In
	c.Decode(&in)
	g, _, err := compile(in.Text)
	if err != nil {
		res.Inc("skipped_compile_error")
		return
	}
	declared := map[string]bool{}
	for _, n := range in.Names {
		declared[n] = true
	}
	hostile := false
	nobj := 0
	proj.Walk(g, func(bp string, b *d2graph.Graph) {
		res.Inc("boards_checked")
		parsed := map[*d2graph.Object]string{}
		absSeen := map[string]*d2graph.Object{}
		for _, o := range b.Objects {
			nobj++
			cls := c06NameClass(o.IDVal)
			if cls != "plain-name" {
				hostile = true
			}
			res.Inc("objects_" + cls)
			// A
			kp, err := d2parser.ParseKey(o.ID)
			if err != nil || kp == nil || len(kp.Path) != 1 {
				res.Viol("C06.id-not-one-segment", "C06.id-not-one-segment:"+cls, fmt.Sprintf("object ID %q (name %q) does not parse to one key segment (err %v)\n%s", o.ID, o.IDVal, err, in.Text))
				continue
			}
			v := kp.Path[0].Unbox().ScalarString()
			parsed[o] = v
			if !declared[v] {
				res.Viol("C06.id-not-declared-name", "C06.id-not-declared-name:"+cls, fmt.Sprintf("object ID %q parses to %q which is not a declared spelling %q\n%s", o.ID, v, in.Names, in.Text))
			}
			if v != o.IDVal {
				res.Viol("C06.id-differs-from-idval", "C06.id-differs-from-idval:"+cls, fmt.Sprintf("object ID %q parses to %q but IDVal is %q\n%s", o.ID, v, o.IDVal, in.Text))
			}
			// C
			la := strings.ToLower(o.AbsID())
			if other, dup := absSeen[la]; dup && other != o {
				res.Viol("C06.absid-not-unique", "C06.absid-not-unique:"+cls, fmt.Sprintf("objects %q and %q have the same AbsID ignoring case\n%s", other.AbsID(), o.AbsID(), in.Text))
			}
			absSeen[la] = o
		}
		for _, o := range b.Objects {
			if _, ok := parsed[o]; !ok {
				continue
			}
			cls := c06NameClass(o.IDVal)
			// B
			var want []string
			okChain := true
			for p := o; p != nil && p != b.Root; p = p.Parent {
				v, ok := parsed[p]
				if !ok {
					okChain = false
					break
				}
				want = append([]string{v}, want...)
			}
			if !okChain {
				continue
			}
			kp, err := d2parser.ParseKey(o.AbsID())
			if err != nil || kp == nil {
				res.Viol("C06.absid-does-not-parse", "C06.absid-does-not-parse:"+cls, fmt.Sprintf("AbsID %q does not parse: %v\n%s", o.AbsID(), err, in.Text))
				continue
			}
			var got []string
			for _, sb := range kp.Path {
				got = append(got, sb.Unbox().ScalarString())
			}
			if strings.Join(got, "\x1f") != strings.Join(want, "\x1f") {
				res.Viol("C06.absid-path-mismatch", "C06.absid-path-mismatch:"+cls, fmt.Sprintf("AbsID %q parses to path %q, name path is %q\n%s", o.AbsID(), got, want, in.Text))
				continue
			}
			// E
			found, ok := b.Root.HasChild(d2graph.Key(kp))
			if !ok || found != o {
				fa := "<none>"
				if found != nil {
					fa = found.AbsID()
				}
				res.Viol("C06.lookup-mismatch", "C06.lookup-mismatch:"+cls, fmt.Sprintf("Root.HasChild(Key(%q)) returned %s\n%s", o.AbsID(), fa, in.Text))
			}
			res.Inc("absids_parsed_and_looked_up")
		}
		// D
		edgeSeen := map[string]bool{}
		namePath := func(o *d2graph.Object) []string {
			var p []string
			for x := o; x != nil && x != b.Root; x = x.Parent {
				p = append([]string{parsed[x]}, p...)
			}
			return p
		}
		for _, e := range b.Edges {
			id := e.AbsID()
			if edgeSeen[strings.ToLower(id)] {
				res.Viol("C06.edge-id-not-unique", "C06.edge-id-not-unique", fmt.Sprintf("two connections share the ID %q\n%s", id, in.Text))
			}
			edgeSeen[strings.ToLower(id)] = true
			mk, err := d2parser.ParseMapKey(id)
			if err != nil || mk == nil || len(mk.Edges) != 1 || mk.EdgeIndex == nil || mk.EdgeIndex.Int == nil {
				res.Viol("C06.edge-id-does-not-parse", "C06.edge-id-does-not-parse", fmt.Sprintf("connection ID %q does not parse to one indexed edge (err %v)\n%s", id, err, in.Text))
				continue
			}
			var scope, src, dst []string
			if mk.Key != nil {
				for _, sb := range mk.Key.Path {
					scope = append(scope, sb.Unbox().ScalarString())
				}
			}
			for _, sb := range mk.Edges[0].Src.Path {
				src = append(src, sb.Unbox().ScalarString())
			}
			for _, sb := range mk.Edges[0].Dst.Path {
				dst = append(dst, sb.Unbox().ScalarString())
			}
			j := func(a ...[]string) string {
				var all []string
				for _, x := range a {
					all = append(all, x...)
				}
				return strings.Join(all, "\x1f")
			}
			srcArrow := mk.Edges[0].SrcArrow == "<"
			dstArrow := mk.Edges[0].DstArrow == ">"
			if j(scope, src) != j(namePath(e.Src)) || j(scope, dst) != j(namePath(e.Dst)) || srcArrow != e.SrcArrow || dstArrow != e.DstArrow || *mk.EdgeIndex.Int != e.Index {
				res.Viol("C06.edge-id-mismatch", "C06.edge-id-mismatch", fmt.Sprintf("connection ID %q parses to %q %q->%q arrows %v/%v index %d; connection is %q->%q arrows %v/%v index %d\n%s",
					id, scope, src, dst, srcArrow, dstArrow, *mk.EdgeIndex.Int, namePath(e.Src), namePath(e.Dst), e.SrcArrow, e.DstArrow, e.Index, in.Text))
			}
			res.Inc("edge_ids_parsed")
		}
	})
	res.Nontrivial = nobj >= 2 && hostile
	res.Sample = map[string]any{"names": in.Names, "text": trunc(in.Text, 300)}
	return
}
