package mon

import (
	"fmt"
	"math"
	"sort"
	"strings"

	"oss.terrastruct.com/d2/d2graph"
	"oss.terrastruct.com/d2/lib/label"

	"verif/gen"
	"verif/run"
)

// C19 — containers enclose their children; siblings do not overlap (±1 px).
//
// Oracle, per board, on the boxes (TopLeft, Width, Height) of the laid-out graph — the export
// is checked to mirror them (Pos/Width/Height are their integer truncations):
//
//	containment  every object that is not inside a sequence diagram and whose parent is not the
//	             root lies inside its parent's box grown by 1 px;
//	siblings     two objects with the same parent (neither inside a sequence diagram) have
//	             boxes whose intersection is at most 1 px wide or at most 1 px high.
//
// Exclusions that come from the statement / DESIGN.md:
//   - objects inside sequence diagrams (actors, spans, notes, groups: drawn along lifelines → C23);
//   - constant-near root objects are not compared with the other root objects nor with each
//     other (placement relative to the main content is C24; two objects at the same constant are
//     placed at the same spot by d2near); their subtrees are checked like any other container.
//
// Only boxes are compared — labels, icons, 3d/multiple offsets hanging out of a container are
// not part of the statement.

func init() {
	run.Register(&run.Check{
		ID: "C19", Title: "Containers enclose their children and siblings do not overlap",
		LevelText:        "Exploration: generated compilable diagrams (nested containers ≤4 deep, every shape, all four directions, inside/outside/border label and icon positions on containers and leaves, explicit dimensions, 3d/multiple, grids with gaps and container cells, constant nears with children, edges with labels between containers) are laid out by the real pipeline with dagre and with ELK; an independent geometric checker refutes on a child box leaving its parent's box or two sibling boxes overlapping by more than the statement's 1 px.",
		Technique:        "runtime monitoring: independent geometric predicates (rectangle containment / interior intersection) over the laid-out graph and its export, both engines",
		DesignRef:        "§4 C19",
		Rule:             "cases: gen.Diagram (container-rich profiles; ELK cases add container dimensions and descendant edges); distinct by sha256(engine+text); non-trivial when layout succeeded and ≥1 containment pair and ≥1 sibling pair outside sequence diagrams were evaluated",
		PanicIsViolation: false, CPUBudget: 300, Chunk: 4, MinNontrivial: 50,
		Gen:  genC19,
		Exec: execC19,
		Post: postC19,
	})
}

func c19Opts(engine string, i int, r *gen.R) (gen.DiagramOpts, string) {
	switch i % 6 {
	case 0:
		return gen.DiagramOpts{Engine: engine}, "default"
	case 1:
		return gen.DiagramOpts{Engine: engine, Containers: .5, MinObjects: 8, MaxObjects: 28, LabelPos: .6, Icons: .3, IconPos: .8, Direction: .8, Sequence: .05}, "containers"
	case 2:
		return gen.DiagramOpts{Engine: engine, Containers: .45, Grids: .6, Near: .5, MinObjects: 8, MaxObjects: 30, LabelPos: .5, Dims: .3, Sequence: .05}, "grids-nears"
	case 3:
		return gen.DiagramOpts{Engine: engine, Containers: .4, Edges: 1.6, EdgeLabels: .8, Direction: .9, Mods: .4, Dims: .3, Sequence: -1, Special: .3}, "edges"
	case 4:
		return gen.DiagramOpts{Engine: engine, Hostile: true, Containers: .4, LabelPos: .5}, "hostile"
	}
	return gen.DiagramOpts{Engine: engine, MinObjects: 20, MaxObjects: 50, Containers: .4, Sequence: .03}, "large"
}

func genC19(seed int64, tier string, emit func(run.Case)) {
	layGenCases(seed, tier, 19, 300, 60, 40, c19Opts, emit)
	layNearOnlyCases(seed, tier, 3, emit)
}

func c19LabelClass(o *d2graph.Object) string {
	if o.LabelPosition == nil || o.Label.Value == "" {
		return "nolabel"
	}
	p := label.FromString(*o.LabelPosition)
	switch {
	case p.IsOutside():
		return "label-outside"
	case p.IsBorder():
		return "label-border"
	}
	return "label-inside"
}

func c19Kind(o *d2graph.Object) string {
	switch {
	case layIsGrid(o):
		return "grid"
	case o.IsSequenceDiagram():
		return "sequence-diagram"
	case len(o.ChildrenArray) > 0:
		return "container"
	}
	sv := strings.ToLower(o.Shape.Value)
	if sv == "" {
		sv = "rectangle"
	}
	return "leaf"
}

func c19ParentKind(p *d2graph.Object) string {
	switch {
	case p == nil || p.Parent == nil:
		if p != nil && layIsGrid(p) {
			return "root-grid"
		}
		return "root"
	case layIsGrid(p):
		return "grid"
	}
	return "container"
}

func c19Dir(g *d2graph.Graph) string {
	if g.Root != nil && g.Root.Direction.Value != "" {
		return g.Root.Direction.Value
	}
	return "down"
}

func c19HasDims(o *d2graph.Object) bool { return o.WidthAttr != nil || o.HeightAttr != nil }

func execC19(c run.Case) (res run.Result) {
	var in layCase
	c.Decode(&in)
	res.Digest = laySha(in.Engine + "\x00" + in.Text)
	res.Sample = map[string]any{"engine": in.Engine, "src": in.Src, "text": trunc(in.Text, 400)}
	if g0, _, err := compile(in.Text); err != nil || g0 == nil {
		res.Inc("vacuous_does_not_compile")
		return
	}
	d, g, err := layCompile(in.Engine, in.Text)
	if err != nil || d == nil || g == nil {
		res.Inc("vacuous_layout_error") // totality is C17's
		return
	}
	const tol = 1.0
	contain, sibl := 0, 0
	sigSeen := map[string]bool{}
	viol := func(clause, trig, msg string) {
		if !strings.HasPrefix(trig, "other:") {
			base := strings.TrimSuffix(strings.TrimSuffix(trig, ":container-with-boundary-crossing-edge"), ":container-with-internal-edge")
			res.Inc("fail_" + strings.TrimPrefix(clause, "C19.") + "_" + base)
		}
		sig := clause + ":" + trig
		if sigSeen[sig] {
			res.Inc("additional_violations_same_signature")
			return
		}
		sigSeen[sig] = true
		res.Viol(clause, sig, msg+"\n--- text:\n"+in.Text)
	}
	for _, b := range layBoards(d, g) {
		layFeatures(b.G, res.Add)
		dir := c19Dir(b.G)
		// export mirrors the graph
		if len(b.D.Shapes) == len(b.G.Objects) {
			for i, o := range b.G.Objects {
				s := b.D.Shapes[i]
				if o.TopLeft == nil {
					continue
				}
				if s.ID != o.AbsID() || s.Pos.X != int(o.TopLeft.X) || s.Pos.Y != int(o.TopLeft.Y) || s.Width != int(o.Width) || s.Height != int(o.Height) {
					viol("C19.export-box-differs", in.Engine, fmt.Sprintf("board %s object %q: graph box %v exported as %v (id %q)", b.Path, o.AbsID(), layObjRect(o), layShapeRect(&s), s.ID))
				}
			}
		}
		for _, o := range b.G.Objects {
			if o.TopLeft == nil || o.Parent == nil || layInSequence(o) {
				if layInSequence(o) {
					res.Inc("excluded_in_sequence_diagram")
				}
				continue
			}
			p := o.Parent
			if p.Parent == nil { // root: no box to be contained in
				continue
			}
			if p.TopLeft == nil {
				continue
			}
			contain++
			ro, rp := layObjRect(o), layObjRect(p)
			if !ro.Finite() || !rp.Finite() {
				continue // C17
			}
			if !rp.ContainsRect(ro, tol) {
				side := ""
				if ro.X < rp.X-tol {
					side += "left"
				}
				if ro.X2() > rp.X2()+tol {
					side += "right"
				}
				if ro.Y < rp.Y-tol {
					side += "top"
				}
				if ro.Y2() > rp.Y2()+tol {
					side += "bottom"
				}
				horiz := strings.Contains(side, "left") || strings.Contains(side, "right")
				vert := strings.Contains(side, "top") || strings.Contains(side, "bottom")
				var trig string
				switch {
				case layIsGrid(p) && ((horiz && p.WidthAttr != nil) || (vert && p.HeightAttr != nil)):
					// SizeToContent honours width/height of a grid container even when the cells need more
					trig = "grid-with-explicit-size-smaller-than-content"
				case in.Engine == "dagre" && !layIsGrid(p):
					// d2dagrelayout's spacing adjustments (adjustRankSpacing, adjustCrossRankSpacing →
					// shiftReachableDown) move objects "reachable" through ranks and edges after dagre placed
					// them; a container and its children are not always moved together. Most often the container
					// has a boundary-crossing edge (12 of 12 at seed 1), but a neighbouring container with an
					// internal edge and label padding is enough (seed 3). The class is every dagre containment
					// failure below a non-grid container; its share is bounded by C19.failure-rate.
					trig = "dagre:objects-moved-apart-by-spacing-adjustment"
					if c19CrossingEdge(b.G, p) {
						trig += ":container-with-boundary-crossing-edge"
					}
				case in.Engine == "elk" && !layIsGrid(p) && len(layExtentObj(p)) > 1:
					// the ELK node of a container is grown by its margin only as a MINIMUM size; when the
					// children need more, shrinking the node back by the margin pushes it over them
					trig = "elk:container-with-outside-label-icon-or-offset-margin"
				default:
					trig = fmt.Sprintf("other:%s:parent=%s,%s%s:child=%s%s", in.Engine, c19ParentKind(p), c19LabelClass(p), c19If(c19HasDims(p), ",dims"), c19Kind(o), c19If(c19HasDims(o), ",dims"))
				}
				_ = dir
				viol("C19.child-outside-parent", trig, fmt.Sprintf("board %s: %q %v is not inside its parent %q %v", b.Path, o.AbsID(), ro, p.AbsID(), rp))
			}
		}
		// siblings
		conts := append([]*d2graph.Object{b.G.Root}, b.G.Objects...)
		for _, p := range conts {
			if p == nil || len(p.ChildrenArray) < 2 || p.IsSequenceDiagram() || layInSequence(p) {
				continue
			}
			var kids []*d2graph.Object
			for _, k := range p.ChildrenArray {
				if k.TopLeft == nil || !layObjRect(k).Finite() {
					continue
				}
				if p.Parent == nil && layIsNearConst(k) {
					res.Inc("excluded_constant_near_root_object")
					continue
				}
				kids = append(kids, k)
			}
			sort.SliceStable(kids, func(i, j int) bool { return kids[i].TopLeft.X < kids[j].TopLeft.X })
			for i := 0; i < len(kids); i++ {
				ri := layObjRect(kids[i])
				for j := i + 1; j < len(kids); j++ {
					rj := layObjRect(kids[j])
					if rj.X >= ri.X2() {
						// sorted by X: no later sibling can overlap ri either — but still count the pair
						sibl++
						continue
					}
					sibl++
					w, h := ri.Overlap(rj)
					if w > tol && h > tol {
						a, bb := kids[i], kids[j]
						ka, kb := c19Kind(a), c19Kind(bb)
						if ka > kb {
							ka, kb = kb, ka
						}
						var trig string
						switch {
						case in.Engine == "dagre" && !layIsGrid(p) && (len(a.ChildrenArray) > 0 || len(bb.ChildrenArray) > 0):
							// same family: a container grows / is shifted over a sibling that was not "reachable"
							trig = "dagre:container-grown-over-sibling-by-spacing-adjustment"
							if c19InternalEdge(b.G, a) || c19InternalEdge(b.G, bb) {
								trig += ":container-with-internal-edge"
							}
						default:
							trig = fmt.Sprintf("other:%s:parent=%s:%s+%s", in.Engine, c19ParentKind(p), ka, kb)
							var extra []string
							if c19HasDims(a) || c19HasDims(bb) {
								extra = append(extra, "dims")
							}
							if a.Top != nil || bb.Top != nil || a.Left != nil || bb.Left != nil {
								extra = append(extra, "top-left")
							}
							if layNearRoot(a) != nil {
								extra = append(extra, "in-constant-near")
							}
							if len(extra) > 0 {
								trig += ":" + strings.Join(extra, ",")
							}
						}
						viol("C19.sibling-overlap", trig, fmt.Sprintf("board %s: siblings %q %v and %q %v overlap by %.1f×%.1f px", b.Path, a.AbsID(), ri, bb.AbsID(), rj, w, h))
					}
				}
			}
		}
	}
	res.Add("containment_pairs", contain)
	res.Add("sibling_pairs", sibl)
	res.Add("containment_pairs_"+in.Engine, contain)
	res.Add("sibling_pairs_"+in.Engine, sibl)
	res.Nontrivial = contain >= 1 && sibl >= 1
	if !res.Nontrivial {
		res.Inc("vacuous_no_container_or_no_siblings")
	}
	return
}

// c19RateLimits bounds the share of violating pairs per recorded class (≈ 4× the rate observed
// on the unchanged tree), so that a class matched as a known finding cannot hide a regression
// that makes it the norm.
var c19RateLimits = map[string]struct {
	of    string
	limit float64
}{
	"fail_child-outside-parent_dagre:objects-moved-apart-by-spacing-adjustment":        {"containment_pairs_dagre", 0.03},
	"fail_sibling-overlap_dagre:container-grown-over-sibling-by-spacing-adjustment":    {"sibling_pairs_dagre", 0.01},
	"fail_child-outside-parent_elk:container-with-outside-label-icon-or-offset-margin": {"containment_pairs_elk", 0.04},
}

func postC19(d *run.Driver, results []run.Result) {
	tot := map[string]int{}
	for _, r := range results {
		for k, v := range r.Feat {
			if strings.HasPrefix(k, "fail_") || strings.HasSuffix(k, "_pairs_dagre") || strings.HasSuffix(k, "_pairs_elk") {
				tot[k] += v
			}
		}
	}
	rates := map[string]float64{}
	for k, lim := range c19RateLimits {
		n := tot[lim.of]
		if n < 200 {
			continue
		}
		rate := float64(tot[k]) / float64(n)
		rates[k] = math.Round(rate*10000) / 10000
		if rate > lim.limit {
			d.ReportViolation(run.Case{ID: "rate", Kind: "post"}, run.Violation{Clause: "C19.failure-rate", Sig: "C19.failure-rate:" + strings.TrimPrefix(k, "fail_"),
				Msg: fmt.Sprintf("%d of %d pairs (%.2f%%) fail in class %s; limit %.2f%%", tot[k], n, rate*100, k, lim.limit*100)})
		}
	}
	d.Extra["failure_rates"] = rates
}

func c19If(b bool, s string) string {
	if b {
		return s
	}
	return ""
}

// c19CrossingEdge: an edge has exactly one endpoint in p's subtree (p itself counts as inside).
func c19CrossingEdge(g *d2graph.Graph, p *d2graph.Object) bool {
	for _, e := range g.Edges {
		if e.Src == nil || e.Dst == nil {
			continue
		}
		if e.Src.IsDescendantOf(p) != e.Dst.IsDescendantOf(p) {
			return true
		}
	}
	return false
}

// c19InternalEdge: o is a container and an edge runs between two of its strict descendants.
func c19InternalEdge(g *d2graph.Graph, o *d2graph.Object) bool {
	if len(o.ChildrenArray) == 0 {
		return false
	}
	for _, e := range g.Edges {
		if e.Src == nil || e.Dst == nil || e.Src == o || e.Dst == o {
			continue
		}
		if e.Src.IsDescendantOf(o) && e.Dst.IsDescendantOf(o) {
			return true
		}
	}
	return false
}

// c19Connected: an edge joins the subtrees of a and b.
func c19Connected(g *d2graph.Graph, a, b *d2graph.Object) bool {
	for _, e := range g.Edges {
		if e.Src == nil || e.Dst == nil {
			continue
		}
		if (e.Src.IsDescendantOf(a) && e.Dst.IsDescendantOf(b)) || (e.Src.IsDescendantOf(b) && e.Dst.IsDescendantOf(a)) {
			return true
		}
	}
	return false
}
