package mon

import (
	"fmt"

	"oss.terrastruct.com/d2/d2format"

	"verif/gen"
	"verif/proj"
	"verif/run"
)

// C36 — every successful edit yields source text (Format(returned.AST)) that
//   (a) compiles,
//   (b) compiles to the returned diagram: π(Compile(text)) == π(returned graph),
//   (c) the formatter leaves unchanged: Format(Parse(text)) == text.
// UpdateImport is text → text: (c) always; (a)+(b) when the import is redirected to a
// file with identical content (then π must not change at all).
// A panic inside d2oracle on a compilable diagram is at least a violation of this
// property (crash signature = innermost d2 frame).
//
// Legitimate behaviour noted from edit.go: Delete/Move of a missing key and
// ReconnectEdge to the current endpoints return the input graph unchanged (same
// pointer) — judged like any other success; (nil, nil) is never returned.
func init() {
	run.Register(&run.Check{
		ID: "C36", Title: "Editing produces compilable, formatter-stable source",
		LevelText: "Exploration: random histories of 1–20 d2oracle edits (create, set, delete, rename, move, reconnect, import update) with existing, fresh, hostile and keyword-like arguments on generated labelled programs (containers, connections, chains, imports, layers/scenarios/steps); after every successful edit the formatted AST must compile, compile to the returned graph (π equal) and be a fixed point of the formatter; panics in d2oracle are violations.",
		Technique: "runtime monitoring: metamorphic oracle along edit histories (returned graph vs. recompilation of its own text; format∘parse fixed point)",
		DesignRef: "§4 C36",
		Rule:      "cases: gen.Edits histories (program with unique L<n> labels + 1–20 symbolic ops resolved against the running state); distinct by sha256(case); non-trivial when ≥2 edits of the history succeeded",
		Chunk:     8,
		// a crash or a runaway edit on a compilable diagram refutes "yields source text"
		PanicIsViolation: true,
		HangIsViolation:  true,
		CPUBudget:        30,
		Gen:       orcGen,
		Exec:      execC36,
	})
}

func execC36(c run.Case) (res run.Result) {
	var in gen.EditCase
	c.Decode(&in)
	orcRun(in, &res, orcHooks{
		ID:              "C36",
		OwnsConsistency: true,
		Panic: func(s *orcStep, res *run.Result, sig, msg string) {
			if s.Trigger != "" {
				// tie the crash to its trigger: the same function may crash for other reasons
				sig = "C36." + s.Trigger + ":" + sig
			}
			orcViol(res, "C36.crash", sig, msg)
		},
		After: func(s *orcStep, res *run.Result) {
			k := s.Call.Kind
			orcJudged(s, res, k)
			if k == "updateimport" {
				c36Import(s, res)
			} else {
				if s.PostCompileErr != nil {
					orcViol(res, "C36.does-not-compile", orcSig(s, "C36", "does-not-compile", k),
						fmt.Sprintf("the text of the returned graph does not compile: %v\n%s", s.PostCompileErr, s.describe()))
					return
				}
				if s.PiDiff != "" {
					how := "recompiled"
					if s.SameGraph {
						how = "input-graph-returned"
					}
					orcViol(res, "C36.pi-differs", orcSig(s, "C36", "pi-differs", k+":"+how),
						fmt.Sprintf("the returned graph differs from the compilation of its own text (- returned, + recompiled):\n%s\n%s", s.PiDiff, s.describe()))
				}
			}
			c36Stable(s, res)
		},
	})
	return
}

func c36Stable(s *orcStep, res *run.Result) {
	text := s.Post.Text
	m, ok := parseOK(text)
	if !ok {
		if s.PostCompileErr == nil {
			orcViol(res, "C36.does-not-parse", orcSig(s, "C36", "does-not-parse", s.Call.Kind), "text does not parse\n"+s.describe())
		}
		return
	}
	t2 := d2format.Format(m)
	res.Inc("formatter_fixpoint_checked")
	if t2 != text {
		trig := classifyC03(m, text, text, t2)
		orcViol(res, "C36.not-formatter-stable", "C36.not-formatter-stable:"+trig,
			fmt.Sprintf("Format(Parse(text)) != text\ntext:\n%q\nreformatted:\n%q\n%s", text, t2, s.describe()))
	}
}

// c36Import judges UpdateImport: formatter stability always; when the import is
// redirected to the identical copy the program must compile to the same π.
func c36Import(s *orcStep, res *run.Result) {
	same := s.Call.NewPath != nil && *s.Call.NewPath == "dir/inc2" && s.Files["dir/inc2.d2"] != "" && s.Call.Path == "inc"
	if s.PostCompileErr != nil {
		if same {
			orcViol(res, "C36.does-not-compile", "C36.does-not-compile:updateimport:to-identical-copy",
				fmt.Sprintf("redirecting an import to an identical file breaks compilation: %v\n%s", s.PostCompileErr, s.describe()))
		} else {
			res.Inc("vacuous_updateimport_target_not_equivalent")
		}
		return
	}
	if same || (s.Call.NewPath != nil && *s.Call.NewPath == s.Call.Path) {
		pre := s.Pre.snapPiAll()
		post := s.Post.snapPiAll()
		res.Inc("updateimport_equivalent_target_judged")
		if pre != post {
			orcViol(res, "C36.pi-differs", "C36.pi-differs:updateimport:equivalent-target",
				fmt.Sprintf("redirecting an import to an identical file changed the diagram\n%s\n%s", proj.Diff(pre, post), s.describe()))
		}
	}
}

func (st *orcState) snapPiAll() string {
	out := ""
	for i := range st.Boards {
		// as a multiset: the order in which imported and local objects are listed may depend
		// on the import path and is not part of what C36 states
		out += st.Boards[i].Key + "\n" + st.snap(i).PiSorted + "\n"
	}
	return out
}
