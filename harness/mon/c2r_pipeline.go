package mon

// c2r…: compile→layout→export→render pipeline shared by the render/export monitors
// C25 C26 C28 C29 (builder-render1). It drives the real d2lib.Compile the way d2cli and
// e2etests do: a ruler from textmeasure.NewRuler, the layout chosen by name (or an
// explicitly supplied d2graph.LayoutGraph, e.g. an exec plugin's), d2svg.Render afterwards.

import (
	"bytes"
	"context"
	"io"
	"log/slog"
	"strings"
	"sync"

	"oss.terrastruct.com/d2/d2graph"
	"oss.terrastruct.com/d2/d2layouts/d2dagrelayout"
	"oss.terrastruct.com/d2/d2layouts/d2elklayout"
	"oss.terrastruct.com/d2/d2lib"
	"oss.terrastruct.com/d2/d2renderers/d2svg"
	"oss.terrastruct.com/d2/d2target"
	"oss.terrastruct.com/d2/lib/log"
	"oss.terrastruct.com/d2/lib/textmeasure"
)

func c2rCtx() context.Context {
	// a logger that discards: d2 warns loudly when the context carries none
	return log.With(context.Background(), slog.New(slog.NewTextHandler(io.Discard, nil)))
}

// c2rLayout returns the bundled in-process layout for an engine name.
func c2rLayout(engine string) d2graph.LayoutGraph {
	if strings.EqualFold(engine, "elk") {
		return d2elklayout.DefaultLayout
	}
	return d2dagrelayout.DefaultLayout
}

// c2rCompile runs compile + layout + export with the given core layout (nil: the bundled
// engine named by engine). ro is filled in by d2lib with the diagram's own d2-config and
// defaults, exactly as the CLI does, and must then be handed to d2svg.Render.
func c2rCompile(text, engine string, layout d2graph.LayoutGraph, ro *d2svg.RenderOpts) (*d2target.Diagram, *d2graph.Graph, error) {
	ruler, err := textmeasure.NewRuler() // fresh ruler per compile, as the CLI does
	if err != nil {
		return nil, nil, err
	}
	return c2rCompileWith(ruler, text, engine, layout, ro)
}

var (
	c2rRulerOnce sync.Once
	c2rRuler     *textmeasure.Ruler
	c2rRulerErr  error
)

// c2rCompileShared is c2rCompile with one ruler per worker process (the `d2 --watch` / d2js
// situation: a long-lived process measuring many diagrams with the same ruler). Used by the
// monitors whose relation does not involve text measurement, to save the ~0.2 s font parse.
func c2rCompileShared(text, engine string, layout d2graph.LayoutGraph, ro *d2svg.RenderOpts) (*d2target.Diagram, *d2graph.Graph, error) {
	c2rRulerOnce.Do(func() { c2rRuler, c2rRulerErr = textmeasure.NewRuler() })
	if c2rRulerErr != nil {
		return nil, nil, c2rRulerErr
	}
	return c2rCompileWith(c2rRuler, text, engine, layout, ro)
}

func c2rCompileWith(ruler *textmeasure.Ruler, text, engine string, layout d2graph.LayoutGraph, ro *d2svg.RenderOpts) (*d2target.Diagram, *d2graph.Graph, error) {
	if layout == nil {
		layout = c2rLayout(engine)
	}
	eng := engine
	co := &d2lib.CompileOptions{
		Ruler:          ruler,
		Layout:         &eng,
		LayoutResolver: func(string) (d2graph.LayoutGraph, error) { return layout, nil },
	}
	return d2lib.Compile(c2rCtx(), text, co, ro)
}

// c2rRenderAll renders every board of the diagram tree (root first, then layers,
// scenarios, steps depth first) and joins the documents with a separator line, so that one
// byte string stands for "the output" of a possibly multi-board input.
func c2rRenderAll(d *d2target.Diagram, ro *d2svg.RenderOpts) ([]byte, error) {
	var out bytes.Buffer
	for i, b := range c2rBoards(d) {
		if b.IsFolderOnly {
			continue
		}
		svg, err := d2svg.Render(b, ro)
		if err != nil {
			return nil, err
		}
		if i > 0 {
			out.WriteString("\n<!--board-->\n")
		}
		out.Write(svg)
	}
	return out.Bytes(), nil
}

// c2rBoards flattens a diagram tree (root first).
func c2rBoards(d *d2target.Diagram) []*d2target.Diagram {
	if d == nil {
		return nil
	}
	out := []*d2target.Diagram{d}
	for _, l := range d.Layers {
		out = append(out, c2rBoards(l)...)
	}
	for _, l := range d.Scenarios {
		out = append(out, c2rBoards(l)...)
	}
	for _, l := range d.Steps {
		out = append(out, c2rBoards(l)...)
	}
	return out
}

// c2rGraphs flattens a graph tree in the same order as c2rBoards.
func c2rGraphs(g *d2graph.Graph) []*d2graph.Graph {
	if g == nil {
		return nil
	}
	out := []*d2graph.Graph{g}
	for _, l := range g.Layers {
		out = append(out, c2rGraphs(l)...)
	}
	for _, l := range g.Scenarios {
		out = append(out, c2rGraphs(l)...)
	}
	for _, l := range g.Steps {
		out = append(out, c2rGraphs(l)...)
	}
	return out
}

func c2rPtr[T any](v T) *T { return &v }

// c2rFeatures counts coarse syntactic features of a generated diagram text into the
// evidence histogram (what the workload actually contained).
func c2rFeatures(text string, inc func(string)) {
	for _, kv := range [][2]string{
		{"sequence_diagram", "feat_sequence"}, {"grid-rows", "feat_grid"}, {"grid-columns", "feat_grid"},
		{"sql_table", "feat_sql_table"}, {"shape: class", "feat_class"}, {"icon:", "feat_icon"},
		{"near:", "feat_near"}, {"3d:", "feat_3d"}, {"multiple:", "feat_multiple"}, {"shadow:", "feat_shadow"},
		{"double-border:", "feat_double_border"}, {"|md", "feat_markdown"}, {"|latex", "feat_latex"},
		{"tooltip:", "feat_tooltip"}, {"link:", "feat_link"}, {"arrowhead", "feat_arrowhead"},
		{"layers:", "feat_boards"}, {"scenarios:", "feat_boards"}, {"steps:", "feat_boards"},
		{"direction:", "feat_direction"}, {"width:", "feat_dims"}, {"height:", "feat_dims"},
	} {
		if strings.Contains(text, kv[0]) {
			inc(kv[1])
		}
	}
}
