package mon

import (
	"fmt"
	"strings"

	"verif/gen"
	"verif/proj"
	"verif/run"

	"oss.terrastruct.com/d2/d2ast"
	"oss.terrastruct.com/d2/d2graph"
	"oss.terrastruct.com/d2/d2target"
)

// C09 — compiled graphs are well-formed trees with consistent connection endpoints.
//
// Clauses, per board (root and every nested layer/scenario/step):
//   tree.*   Objects has no duplicate; every object belongs to this board (Graph pointer),
//            reaches Root through Parent in ≤ len(Objects) steps; its parent lists it exactly
//            once in ChildrenArray and under Children[lower(ID)]; len(Children) ==
//            len(ChildrenArray) for Root and every object; every listed child is in Objects.
//   special.* class / sql_table objects have no children (their fields are not objects).
//   edge.*   Src and Dst of every connection are objects of this very board.
//   order.*  Objects and Edges are listed in order of first appearance in the source. The
//            expected order is recomputed by an independent walk over the parsed source
//            (c09_order.go) for the fragment that walk models (explicit keys and
//            connections, nesting, `_`, case folding, reserved keywords, class/sql_table);
//            it is judged only when the walk reproduces exactly the compiled set of objects
//            (resp. connections) — otherwise the program uses something the walk does not
//            model (globs, imports, substitutions, nulls, sequence-diagram scoping,
//            inheritance) and the clause is counted vacuous, never passed.

func init() {
	run.Register(&run.Check{
		ID: "C09", Title: "Compiled graphs are well-formed",
		LevelText: "Exploration: every compilable program out of thousands of generated ones (language profile with globs, vars, classes, boards, special shapes; layout-oriented diagrams with containers, grids, sequence diagrams, class/sql_table; the repository's scripts and mutations) is compiled and every board of the result is checked for the tree, endpoint and source-order invariants; the expected order comes from an independent walk over the source.",
		Technique: "runtime monitoring: structural invariants over compiled graphs + independently recomputed source order",
		DesignRef: "§4 C09",
		Rule:      "cases: gen.Program(lang|core), gen.Diagram, corpus ± mutation; distinct by sha256(text); non-trivial when the program compiled to ≥3 objects and ≥1 connection over all boards",
		Chunk:     48, MinNontrivial: 200,
		Gen:  genC09,
		Exec: execC09,
	})
}

func genC09(seed int64, tier string, emit func(run.Case)) {
	r := gen.New(seed)
	n := tierN(tier, 9000, 200000)
	id := 0
	add := func(s, src string) {
		id++
		emit(run.MkCase(fmt.Sprintf("c%07d", id), src, textCase{Text: s, Src: src}))
	}
	cor := Corpus()
	for _, s := range cor {
		if len(s) < 16<<10 {
			add(s, "corpus")
		}
	}
	for _, s := range c09Targeted {
		add(s, "targeted")
	}
	plain := gen.ProfileCore
	plain.Nulls, plain.EdgeIdx, plain.Underscore, plain.MaxStmts = 0, .05, .1, 40
	plain.Special, plain.Boards = .08, .15
	for i := 0; i < n; i++ {
		q := r.Sub(i)
		switch q.Intn(9) {
		case 8:
			add(c09SpecialProgram(q), "special-fields")
		case 0, 1:
			add(gen.Program(q, gen.ProfileLang), "lang")
		case 2:
			add(gen.Program(q, gen.ProfileCore), "core")
		case 3, 4:
			add(gen.Program(q, plain), "plain")
		case 5, 6:
			add(gen.Diagram(q, gen.DiagramOpts{}), "diagram")
		default:
			add(gen.Mutate(q, gen.Pick(q, cor)), "corpus-mut")
		}
	}
}

// c09SpecialProgram: sql_table / class shapes with ≥2 fields and connections to their
// fields from every kind of scope: the root, sibling containers declared before and after
// the shape, through `_`, nested containers, other tables' columns; plus ordinary content
// around them. (The fields of such shapes are not objects; connections to them attach to
// the shape.)
func c09SpecialProgram(r *gen.R) string {
	var sb strings.Builder
	type special struct {
		name   string
		fields []string
	}
	var specials []special
	names := []string{"users", "orders", "items", "Repo", "svc", "log"}
	r.Shuffle(len(names), func(i, j int) { names[i], names[j] = names[j], names[i] })
	nSpecial := r.Range(1, 3)
	for i := 0; i < nSpecial; i++ {
		sp := special{name: names[i]}
		for j := 0; j < r.Range(2, 5); j++ {
			sp.fields = append(sp.fields, gen.Pick(r, []string{"id", "name", "user_id", "ts", "total", "kind", "ref"})+fmt.Sprint(j))
		}
		specials = append(specials, sp)
	}
	others := names[nSpecial:]
	field := func() string {
		sp := gen.Pick(r, specials)
		return sp.name + "." + gen.Pick(r, sp.fields)
	}
	container := func(name string) {
		// a plain container that refers to fields of the special shapes from inside
		sb.WriteString(name + ": {\n")
		for k := 0; k < r.Range(1, 4); k++ {
			inner := gen.Pick(r, []string{"a", "b", "user_id", "fk"})
			switch r.Intn(5) {
			case 0:
				sb.WriteString("  " + inner + "\n")
			case 1, 2:
				sb.WriteString("  " + inner + " " + gen.Pick(r, gen.Arrows) + " _." + field() + "\n")
			case 3:
				sb.WriteString("  sub: {\n    " + inner + " -> _._." + field() + "\n  }\n")
			default:
				sb.WriteString("  _." + field() + " -> " + inner + ": fk\n")
			}
		}
		sb.WriteString("}\n")
	}
	emitSpecial := func(sp special) {
		shape := r.Str("sql_table", "sql_table", "class")
		sb.WriteString(sp.name + ": {\n  shape: " + shape + "\n")
		for _, f := range sp.fields {
			if shape == "class" && r.P(0.3) {
				sb.WriteString("  " + f + "(): void\n")
				continue
			}
			sb.WriteString("  " + f + ": " + r.Str("int", "string", "uuid"))
			if shape == "sql_table" && r.P(0.3) {
				sb.WriteString(" {constraint: " + r.Str("primary_key", "foreign_key", "unique") + "}")
			}
			sb.WriteString("\n")
		}
		sb.WriteString("}\n")
	}
	// containers before, the special shapes, containers after, root-level connections
	for _, o := range others {
		if r.P(0.4) {
			container(o)
		}
	}
	for i, sp := range specials {
		emitSpecial(sp)
		if r.P(0.5) {
			container(fmt.Sprintf("c%d", i))
		}
	}
	for _, o := range others {
		if r.P(0.6) {
			container(o + "2")
		}
	}
	for k := 0; k < r.Range(1, 4); k++ {
		switch r.Intn(3) {
		case 0:
			sb.WriteString(field() + " " + gen.Pick(r, gen.Arrows) + " " + field() + "\n")
		case 1:
			sb.WriteString(gen.Pick(r, others) + " -> " + field() + "\n")
		default:
			sb.WriteString(field() + " -> " + gen.Pick(r, others) + ".x\n")
		}
	}
	if r.P(0.3) {
		sb.WriteString("layers: {\n  l: {\n")
		sp := gen.Pick(r, specials)
		sb.WriteString("    t: {shape: sql_table; " + sp.fields[0] + ": int; " + sp.fields[1] + ": int}\n    late: {k -> _.t." + sp.fields[0] + "}\n  }\n}\n")
	}
	return sb.String()
}

var c09Targeted = []string{
	"users: {\n  shape: sql_table\n  id: int\n  name: string\n}\norders: {\n  user_id\n  user_id -> _.users.id\n}\n",
	"k: {\n  shape: class\n  +a: int\n  +b: int\n  m(): void\n}\nlater: {\n  sub: {x -> _._.k.a}\n}\n",
	"a.b\nc\na.d\n",
	"layers: {l: {a.b; c; a.d}}\n",
	"x -> y\na -> b\nx -> y\n",
	"layers: {l: {x -> y; a.b -> c; x.z}}\n",
	"t: {shape: sql_table; id: int; name: string}\nu -> t.id\n",
	"c: {shape: class; +f: int; m(): void}\nc.f -> d\n",
	"a: {b: {c -> _._.d}}\nd.e\n",
	"A.b\na.B.c\nA -> a.b\n",
	"s: {shape: sequence_diagram; a -> b; g: {a -> b: hi}}\n",
	"g: {grid-rows: 2; a; b; c -> a}\n",
	"a -> b -> c <- d\n(a -> b)[0].style.stroke: red\ne\n",
	"x: {a -> b}\nx.a -> x.b\nx.(a -> b)[1].label: hi\n",
	"scenarios: {s: {a.d; e -> a}}\na.b; c\n",
	"steps: {1: {p}; 2: {q -> p}}\nz\n",
}

func execC09(c run.Case) (res run.Result) {
	var in textCase
	c.Decode(&in)
	g, _, err := compile(in.Text)
	if err != nil || g == nil {
		res.Inc("skipped_not_compilable_" + in.Src)
		return
	}
	res.Inc("compiled_" + in.Src)
	nobj, nedge, nboards := 0, 0, 0
	proj.Walk(g, func(path string, b *d2graph.Graph) {
		nboards++
		nobj += len(b.Objects)
		nedge += len(b.Edges)
		kind := "root"
		if i := strings.Index(path, "."); i >= 0 {
			kind = strings.SplitN(path[i+1:], ".", 2)[0]
			if strings.Count(path, ".") > 2 {
				kind = "nested-" + kind
			}
		}
		c09CheckBoard(&res, b, kind)
	})
	c09CheckOrder(&res, g, in.Text)
	res.Add("objects", nobj)
	res.Add("edges", nedge)
	res.Add("boards", nboards)
	res.Nontrivial = nobj >= 3 && nedge >= 1
	res.Sample = map[string]any{"src": in.Src, "text": trunc(in.Text, 300), "objects": nobj, "edges": nedge, "boards": nboards}
	return
}

func c09CheckBoard(res *run.Result, g *d2graph.Graph, kind string) {
	viol := func(clause, trig, msg string) {
		res.Viol("C09."+clause, "C09."+clause+":"+trig, "board "+kind+" "+g.Name+": "+msg)
	}
	if g.Root == nil {
		viol("tree.no-root", kind, "Root is nil")
		return
	}
	inObjects := map[*d2graph.Object]int{}
	for _, o := range g.Objects {
		inObjects[o]++
	}
	for o, n := range inObjects {
		if n > 1 {
			viol("tree.duplicate-object", c09ShapeTrig(o), fmt.Sprintf("object %s is listed %d times", o.AbsID(), n))
		}
	}
	res.Add("clause_tree_objects_checked", len(g.Objects))
	checkChildren := func(p *d2graph.Object) {
		if len(p.Children) != len(p.ChildrenArray) {
			viol("tree.children-map-array-mismatch", c09ShapeTrig(p), fmt.Sprintf("%q has %d Children but %d ChildrenArray entries", p.AbsID(), len(p.Children), len(p.ChildrenArray)))
		}
		seen := map[*d2graph.Object]bool{}
		for _, ch := range p.ChildrenArray {
			if seen[ch] {
				viol("tree.child-listed-twice", c09ShapeTrig(p), fmt.Sprintf("%q lists child %q twice", p.AbsID(), ch.ID))
			}
			seen[ch] = true
			if ch.Parent != p {
				viol("tree.child-parent-mismatch", c09ShapeTrig(p), fmt.Sprintf("%q lists child %q whose Parent is %q", p.AbsID(), ch.ID, c09Abs(ch.Parent)))
			}
			if inObjects[ch] == 0 {
				viol("tree.child-not-in-objects", c09ShapeTrig(p), fmt.Sprintf("child %q of %q is not in Objects", ch.ID, p.AbsID()))
			}
		}
	}
	checkChildren(g.Root)
	// every object reachable from Root through ChildrenArray is listed in Objects exactly
	// once, and nothing else is listed
	reach := 0
	var walk func(p *d2graph.Object, depth int)
	walk = func(p *d2graph.Object, depth int) {
		if depth > len(g.Objects)+2 {
			return
		}
		for _, ch := range p.ChildrenArray {
			reach++
			if inObjects[ch] != 1 {
				viol("tree.reachable-not-listed-once", c09ShapeTrig(p), fmt.Sprintf("object %q is reachable from Root through ChildrenArray but is listed %d times in Objects", ch.AbsID(), inObjects[ch]))
			}
			walk(ch, depth+1)
		}
	}
	walk(g.Root, 0)
	if reach != len(g.Objects) {
		viol("tree.objects-vs-reachable-count", kind, fmt.Sprintf("%d objects are reachable from Root through ChildrenArray, Objects lists %d", reach, len(g.Objects)))
	}
	for _, o := range g.Objects {
		if o.Parent != nil && (o.Parent.Shape.Value == d2target.ShapeClass || o.Parent.Shape.Value == d2target.ShapeSQLTable) {
			viol("special.field-listed-as-object", o.Parent.Shape.Value, fmt.Sprintf("%q is listed in Objects although its parent is a %s (its fields are not objects)", o.AbsID(), o.Parent.Shape.Value))
		}
	}
	for _, o := range g.Objects {
		if o.Graph != g {
			viol("tree.foreign-graph", c09ShapeTrig(o), fmt.Sprintf("object %s has a Graph pointer of another board", o.AbsID()))
		}
		// parent chain
		steps, cur := 0, o
		for cur != nil && cur != g.Root && steps <= len(g.Objects)+1 {
			cur = cur.Parent
			steps++
		}
		if cur != g.Root {
			viol("tree.unreachable-from-root", c09ShapeTrig(o), fmt.Sprintf("object %q does not reach Root through Parent (stopped after %d steps)", o.ID, steps))
			continue
		}
		p := o.Parent
		n := 0
		for _, ch := range p.ChildrenArray {
			if ch == o {
				n++
			}
		}
		if n != 1 {
			viol("tree.parent-lists-child-n-times", c09ShapeTrig(p), fmt.Sprintf("parent %q lists %q %d times in ChildrenArray", c09Abs(p), o.ID, n))
		}
		if p.Children[strings.ToLower(o.ID)] != o {
			viol("tree.children-map-key", c09ShapeTrig(p), fmt.Sprintf("parent %q: Children[%q] is not object %q", c09Abs(p), strings.ToLower(o.ID), o.ID))
		}
		checkChildren(o)
		switch o.Shape.Value {
		case d2target.ShapeClass, d2target.ShapeSQLTable:
			res.Inc("clause_special_checked")
			if len(o.ChildrenArray) != 0 || len(o.Children) != 0 {
				viol("special.has-children", o.Shape.Value, fmt.Sprintf("%s object %q has %d children", o.Shape.Value, o.AbsID(), len(o.ChildrenArray)))
			}
		}
	}
	res.Add("clause_edge_endpoints_checked", len(g.Edges))
	seenE := map[*d2graph.Edge]bool{}
	for _, e := range g.Edges {
		if seenE[e] {
			viol("edge.duplicate", kind, "an edge is listed twice")
		}
		seenE[e] = true
		for side, end := range map[string]*d2graph.Object{"src": e.Src, "dst": e.Dst} {
			switch {
			case end == nil:
				viol("edge.nil-endpoint", side, "edge has a nil "+side)
			case end.Graph != g:
				viol("edge.endpoint-of-other-board", side+":"+kind, fmt.Sprintf("edge %s: %s %q belongs to another board", e.AbsID(), side, end.AbsID()))
			case inObjects[end] == 0:
				viol("edge.endpoint-not-in-objects", side+":"+c09ShapeTrig(end.Parent), fmt.Sprintf("edge %s: %s %q is not in Objects of this board", e.AbsID(), side, end.AbsID()))
			}
		}
	}
}

func c09Abs(o *d2graph.Object) string {
	if o == nil {
		return "<nil>"
	}
	if o.Parent == nil {
		return "<root>"
	}
	return o.AbsID()
}

// c09ShapeTrig is the trigger part of a signature: the shape of the object concerned.
func c09ShapeTrig(o *d2graph.Object) string {
	if o == nil {
		return "nil"
	}
	if o.Parent == nil {
		return "root"
	}
	if o.Shape.Value == "" {
		return "no-shape"
	}
	switch o.Shape.Value {
	case d2target.ShapeClass, d2target.ShapeSQLTable, d2target.ShapeSequenceDiagram, d2target.ShapeImage, d2target.ShapeText, d2target.ShapeCode:
		return o.Shape.Value
	}
	if o.OuterSequenceDiagram() != nil {
		return "inside-sequence-diagram"
	}
	return "plain"
}

var _ = d2ast.ReservedKeywords
