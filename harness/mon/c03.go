package mon

import (
	"fmt"
	"strings"

	"oss.terrastruct.com/d2/d2ast"

	"verif/gen"
	"verif/run"

	"oss.terrastruct.com/d2/d2format"
)

func init() {
	run.Register(&run.Check{
		ID: "C03", Title: "Formatting is idempotent",
		LevelText: "Exploration: for every error-free generated or corpus program x the monitor runs t1=Format(Parse(x)), requires Parse(t1) to be error free and Format(Parse(t1)) == t1 byte for byte.",
		Technique: "runtime monitoring: metamorphic oracle format∘format = format over generated programs",
		DesignRef: "§4 C03",
		Rule:      "cases: gen.Program(syntax/lang) with Invalid=0, corpus scripts; distinct by sha256(text); non-trivial when the input parsed error free and formatting changed at least one byte or the text has ≥3 lines",
		Chunk:     64,
		Gen:       genC03,
		Exec:      execC03,
	})
}

func genC03(seed int64, tier string, emit func(run.Case)) {
	r := gen.New(seed)
	n := tierN(tier, 12000, 600000)
	id := 0
	add := func(s, src string) {
		id++
		emit(run.MkCase(fmt.Sprintf("c%07d", id), src, textCase{Text: s, Src: src}))
	}
	cor := Corpus()
	for _, s := range cor {
		add(s, "corpus")
	}
	syn := gen.ProfileSyntax
	syn.Invalid = 0
	for i := 0; i < n; i++ {
		q := r.Sub(i)
		// The property quantifies over grammar-generated programs and the repository's
		// scripts, not over raw byte mutations (those are C01's business).
		switch q.Intn(3) {
		case 0:
			add(gen.Program(q, gen.ProfileLang), "lang")
		default:
			add(gen.Program(q, syn), "syntax")
		}
	}
}

func execC03(c run.Case) (res run.Result) {
	var in textCase
	c.Decode(&in)
	m, ok := parseOK(in.Text)
	if !ok {
		res.Inc("skipped_parse_error")
		return
	}
	res.Inc("parsed_ok_" + in.Src)
	t1 := d2format.Format(m)
	m1, ok := parseOK(t1)
	if !ok {
		res.Viol("C03.formatted-does-not-parse", "C03.formatted-does-not-parse:"+classifyC03(m, in.Text, t1, ""), fmt.Sprintf("input:\n%s\nformatted:\n%s", in.Text, t1))
		return
	}
	t2 := d2format.Format(m1)
	if t2 != t1 {
		res.Viol("C03.not-idempotent", "C03.not-idempotent:"+classifyC03(m, in.Text, t1, t2), fmt.Sprintf("input:\n%q\nfmt1:\n%q\nfmt2:\n%q", in.Text, t1, t2))
	}
	if t1 != in.Text {
		res.Inc("format_changed_text")
	}
	res.Nontrivial = t1 != in.Text || len(t1) > 40
	res.Sample = map[string]any{"src": in.Src, "text": trunc(in.Text, 300)}
	return
}

// classifyC03 names the trigger of a non-idempotent formatting so that known findings
// are matched by cause (a syntactic trigger present in the input AST plus, where cheap,
// the shape of the symptom), not by property. Most specific first; anything without a
// listed trigger is "other" and is never a known finding.
func classifyC03(m *d2ast.Map, in, t1, t2 string) string {
	boardKw, importExt, edgeCharKey, array, wsLineInBlockComment, boardThenMore := false, false, false, false, false, false
	d2ast.Walk(m, func(n d2ast.Node) bool {
		switch t := n.(type) {
		case *d2ast.Key:
			// board keyword used other than as a lower-case, unquoted, single-segment key
			// holding a non-empty map (the only form the printer's board hoisting handles)
			if t.Key != nil {
				for i, sb := range t.Key.Path {
					if sb == nil || sb.Unbox() == nil {
						continue
					}
					k := sb.Unbox().ScalarString()
					lk := strings.ToLower(k)
					if lk != "layers" && lk != "scenarios" && lk != "steps" {
						continue
					}
					_, unq := sb.Unbox().(*d2ast.UnquotedString)
					proper := k == lk && unq && len(t.Key.Path) == 1 && i == 0 && len(t.Edges) == 0 &&
						t.Value.Map != nil && len(t.Value.Map.Nodes) > 0 && t.Primary.Unbox() == nil
					if !proper {
						boardKw = true
					}
				}
			}
		case *d2ast.Map:
			// a board block that shares its line with the previous statement (`r;layers{…}`)
			// a board block followed by anything else in the same map (another statement, or a
			// line comment trailing its closing brace): the printer hoists board blocks to the
			// end of the map, which reorders them relative to what followed
			seenBoard := false
			for _, nb := range t.Nodes {
				if nb.IsBoardNode() {
					seenBoard = true
				} else if seenBoard && nb.Unbox() != nil {
					boardThenMore = true
				}
			}
			for i := 1; i < len(t.Nodes); i++ {
				if t.Nodes[i].IsBoardNode() && t.Nodes[i-1].Unbox() != nil &&
					t.Nodes[i-1].Unbox().GetRange().End.Line == t.Nodes[i].Unbox().GetRange().Start.Line {
					boardKw = true
				}
			}
		case *d2ast.KeyPath:
			for _, sb := range t.Path {
				if sb == nil || sb.Unbox() == nil {
					continue
				}
				k := sb.Unbox().ScalarString()
				if _, unq := sb.Unbox().(*d2ast.UnquotedString); unq && (strings.HasSuffix(k, "-") || strings.HasSuffix(k, " ") || strings.HasPrefix(k, " ")) {
					edgeCharKey = true
				}
			}
		case *d2ast.BlockComment:
			lines := strings.Split(t.Value, "\n")
			for _, l := range lines {
				if !t.Range.OneLine() && l != "" && strings.TrimSpace(l) == "" {
					wsLineInBlockComment = true
				}
			}
		case *d2ast.Array:
			array = true
		case *d2ast.Import:
			if len(t.Path) > 0 && t.Path[len(t.Path)-1] != nil && t.Path[len(t.Path)-1].Unbox() != nil {
				last := t.Path[len(t.Path)-1].Unbox().ScalarString()
				if last == "d2" || strings.HasSuffix(last, ".d2") {
					importExt = true
				}
			}
		}
		return true
	})
	squash := func(s string) string {
		return strings.Map(func(r rune) rune {
			if r == ' ' || r == '\n' || r == ';' || r == '\t' {
				return -1
			}
			return r
		}, s)
	}
	layoutOnly := squash(t1) == squash(t2)
	oneLine := !strings.Contains(strings.TrimSuffix(t1, "\n"), "\n")
	switch {
	case strings.Contains(in, "\x00"):
		return "nul-byte-in-input"
	case strings.Contains(t1, "\\\n") || (edgeCharKey && !layoutOnly):
		return "unquoted-key-with-escaped-edge-space-or-trailing-dash"
	case boardKw:
		return "board-keyword-in-unusual-form"
	case boardThenMore && layoutOnly:
		return "board-block-followed-by-other-content"
	case importExt && !layoutOnly:
		return "import-path-with-d2-extension"
	case wsLineInBlockComment && layoutOnly:
		return "block-comment-with-whitespace-only-line"
	case layoutOnly && oneLine:
		return "one-line-file-map-relayout"
	case layoutOnly && array:
		return "array-range-end-relayout"
	}
	return "other"
}
