package mon

// C22 — grid cells follow declaration order, align, keep gaps and never overlap.
//
// Workload: gen.L2GridBoard — grids with 0–30 cells of random sizes; grid-rows / grid-columns /
// grid-gap / vertical-gap / horizontal-gap in every combination and order, also interleaved with
// the cells; leaves (all shapes, outside labels, icons, 3d/multiple, explicit dims), containers
// and nested grids as cells; root grids, grids beside other shapes, grids inside containers.
//
// Oracle (per grid, from the EXPORTED shape boxes; the grid's settings are read from the
// compiled graph object: values and which of grid-rows / grid-columns was written first):
//   overlap     cells' boxes are pairwise interior-disjoint (±1 px)
//   inside      every cell box lies inside the grid container's box (±1 px; root grids: n/a)
//   order       evenly (rows and columns given): cell k sits in the row/column computed here
//               from k (row-major if grid-rows was written first, else column-major, with the
//               documented continuation when there are more cells than rows×columns): cells of
//               one line are ordered along it, lines are ordered across, nothing interleaves;
//               dynamic (only one given): the declaration sequence splits into ≤ N consecutive
//               runs, each run is one line (common slot start), lines follow each other
//   gap         neighbouring slots along a line and neighbouring lines are separated by the
//               configured gap: ≥ gap − tol always, = gap ± tol when both sides are plain cells
//   align       evenly only: equal slot height within a row, equal slot width within a column
//
// "Slot" is the quantity the grid code documents (sizeForOutsideLabels): the cell box united
// with its outside label, outside icon and 3d/multiple offset copy — recomputed here with
// layExtent (lib/label placement), never with Object.GetMargin. d2 reserves label.PADDING more
// than the drawn label on some sides, centres oversized labels with Ceil and reserves the maximal
// icon size: every slot edge is therefore an interval around the drawn edge (see c22Cell) and the
// clauses are evaluated on intervals — exact (±2 px integer export) for plain cells.

import (
	"fmt"
	"math"
	"strconv"
	"strings"

	"verif/gen"
	"verif/run"

	"oss.terrastruct.com/d2/d2graph"
	"oss.terrastruct.com/d2/d2target"
	"oss.terrastruct.com/d2/lib/label"
)

type c22In struct {
	Text   string   `json:"text"`
	Engine string   `json:"engine"`
	Feats  []string `json:"feats,omitempty"`
}

func init() {
	run.Register(&run.Check{
		ID: "C22", Title: "Grid cells follow declaration order, align, keep gaps and never overlap",
		LevelText: "Exploration: generated grid diagrams (0–30 cells of random sizes; rows/columns/gap settings in every combination and order, interleaved with cells; leaves of all shapes with outside labels/icons/3d, containers and nested grids as cells; root grids, grids in containers) are laid out with dagre and ELK; from the exported boxes the monitor checks pairwise disjointness, containment in the grid container, the expected row/column of every cell (evenly) or the run structure (dynamic), gaps between neighbouring slots and lines, and equal slot heights per row / widths per column when both rows and columns are given.",
		Technique: "runtime monitoring: geometric invariant oracle with an independent slot calculator (lib/label placement) over generated grids",
		DesignRef: "§4 C22",
		Rule:      "cases: gen.L2GridBoard(seed,i) × engine; distinct by sha256(engine,text); non-trivial when ≥1 grid with ≥2 cells was judged. Counters: grids_judged, cells_judged, grids_evenly / grids_dynamic_rows / grids_dynamic_columns, grids_empty, gap_pairs_exact / gap_pairs_interval, feature histogram",
		Chunk:     8,
		CPUBudget: 120,
		Gen:       genC22,
		Exec:      execC22,
	})
}

func genC22(seed int64, tier string, emit func(run.Case)) {
	r := gen.New(seed*7919 + 22)
	nd, ne := 300, 30
	if tier == "thorough" {
		nd, ne = 6000, 600
	}
	id := 0
	for _, eng := range []string{"dagre", "elk"} {
		n := nd
		if eng == "elk" {
			n = ne
		}
		for i := 0; i < n; i++ {
			q := r.Sub(i)
			text, feats := gen.L2GridBoard(q)
			id++
			emit(run.MkCase(fmt.Sprintf("%s%06d", eng[:1], id), eng, c22In{Text: text, Engine: eng, Feats: feats}))
		}
	}
}

type c22Cell struct {
	id    string
	box   layRect
	slot  layRect
	plain bool
	// d2's slot edge lies within [drawn-out, drawn+in] (start edges) / [drawn-in, drawn+out]
	// (end edges) of the drawn extent's edge:
	//   plain cell: in = out = 2 (integer export of float geometry)
	//   outside label: in = out = label.PADDING+3 (GetMargin reserves label+PADDING; OUTSIDE_TOP_LEFT
	//     is drawn PADDING px left of the box without reservation; oversized labels are centred with Ceil)
	//   outside icon: out = MAX_ICON_SIZE+PADDING (GetMargin reserves the maximal icon size, the
	//     drawn icon can be smaller)
	in, out float64
	// an outside label / icon that is larger than the cell's natural size (the size after
	// SetDimensions, before the grid stretches it) in the direction it runs along
	oversized bool
}

func execC22(c run.Case) (res run.Result) {
	var in c22In
	c.Decode(&in)
	res.Digest = laySha(in.Engine + "\x00" + in.Text)
	res.Sample = map[string]any{"engine": in.Engine, "text": trunc(in.Text, 700)}
	res.Inc("engine_" + in.Engine)
	d, g, err := layCompile(in.Engine, in.Text)
	if err != nil {
		if layIsCompileError(err) {
			res.Inc("vacuous_compile_error")
			res.Inconclusive = "harness: generated grid board does not compile: " + trunc(err.Error(), 300)
		} else {
			res.Inc("vacuous_layout_error") // C17
		}
		return
	}
	for _, f := range in.Feats {
		res.Inc("f_" + f)
	}
	shapeOf := map[string]*d2target.Shape{}
	for i := range d.Shapes {
		shapeOf[d.Shapes[i].ID] = &d.Shapes[i]
	}
	grids := []*d2graph.Object{}
	if layIsGrid(g.Root) {
		grids = append(grids, g.Root)
	}
	for _, o := range g.Objects {
		if layIsGrid(o) {
			grids = append(grids, o)
		}
	}
	judged := 0
	natural := c21PreLayout(in.Text) // AbsID -> size after SetDimensions (no layout involved)
	for _, gr := range grids {
		// a grid inside a sequence diagram etc. is still a grid; nothing to exclude
		var cells []c22Cell
		missing := false
		for _, ch := range gr.ChildrenArray {
			s := shapeOf[ch.AbsID()]
			if s == nil {
				missing = true
				break
			}
			// border labels/icons get no reservation in the grid (GetMargin handles OUTSIDE_* only)
			var parts []layPart
			offset := 0.0
			cell := c22Cell{id: ch.AbsID(), box: layShapeRect(s), in: 2, out: 2}
			for _, p := range layExtent(s) {
				if p.Kind == "label" && strings.HasPrefix(s.LabelPosition, "BORDER") || p.Kind == "icon" && strings.HasPrefix(s.IconPosition, "BORDER") {
					continue
				}
				parts = append(parts, p)
				switch p.Kind {
				case "label":
					cell.in, cell.out = math.Max(cell.in, label.PADDING+3), math.Max(cell.out, label.PADDING+3)
				case "icon":
					cell.in, cell.out = math.Max(cell.in, label.PADDING+3), d2target.MAX_ICON_SIZE+label.PADDING+2
				case "3d", "multiple":
					// GetMargin ADDS the offset to the label/icon margin on the top and right; drawn,
					// the offset copy and the label overlap (union, not sum)
					offset = d2target.THREE_DEE_OFFSET
				}
			}
			if len(parts) > 2 {
				cell.out += offset
			}
			cell.slot, cell.plain = layUnion(parts), len(parts) == 1
			{
				// natural size: after SetDimensions for leaves; a container cell's natural size is
				// that of its nested layout, which only shows in the final box — so the final box
				// is tested as well (an outside label still larger than the stretched box)
				nat, hasNat := natural[ch.AbsID()]
				box := layShapeRect(s)
				over := func(pos string, w, h float64) bool {
					switch {
					case strings.HasPrefix(pos, "OUTSIDE_TOP"), strings.HasPrefix(pos, "OUTSIDE_BOTTOM"):
						return hasNat && w+label.PADDING > nat[0] || w+label.PADDING > box.W
					case strings.HasPrefix(pos, "OUTSIDE_LEFT"), strings.HasPrefix(pos, "OUTSIDE_RIGHT"):
						return hasNat && h+label.PADDING > nat[1] || h+label.PADDING > box.H
					}
					return false
				}
				if s.Label != "" && over(s.LabelPosition, float64(s.LabelWidth), float64(s.LabelHeight)) {
					cell.oversized = true
				}
				if s.Icon != nil && s.Type != d2target.ShapeImage && over(s.IconPosition, d2target.MAX_ICON_SIZE, d2target.MAX_ICON_SIZE) {
					cell.oversized = true
				}
			}
			cells = append(cells, cell)
		}
		if missing {
			res.Inc("vacuous_cell_not_exported")
			continue
		}
		res.Inc("grids_judged")
		res.Add("cells_judged", len(cells))
		if len(cells) == 0 {
			res.Inc("grids_empty")
			continue
		}
		if len(cells) >= 2 {
			judged++
		}
		c22Judge(&res, gr, shapeOf[gr.AbsID()], cells, in.Engine)
	}
	res.Nontrivial = judged > 0
	return
}

func c22Atoi(s *d2graph.Scalar, def int) int {
	if s == nil {
		return def
	}
	v, err := strconv.Atoi(s.Value)
	if err != nil {
		return def
	}
	return v
}

func c22Judge(res *run.Result, gr *d2graph.Object, cont *d2target.Shape, cells []c22Cell, engine string) {
	n := len(cells)
	rows, cols := c22Atoi(gr.GridRows, 0), c22Atoi(gr.GridColumns, 0)
	vgap, hgap := 40, 40
	if gr.GridGap != nil {
		vgap = c22Atoi(gr.GridGap, 40)
		hgap = vgap
	}
	vgap = c22Atoi(gr.VerticalGap, vgap)
	hgap = c22Atoi(gr.HorizontalGap, hgap)
	gid := gr.AbsID()
	if gid == "" {
		gid = "(root)"
	}
	mode := "evenly"
	rowDirected := true
	switch {
	case rows > 0 && cols > 0:
		rowDirected = gr.GridRows.MapKey != nil && gr.GridColumns.MapKey != nil && gr.GridRows.MapKey.Range.Before(gr.GridColumns.MapKey.Range)
		res.Inc("grids_evenly")
	case rows > 0:
		mode = "dynamic"
		res.Inc("grids_dynamic_rows")
	case cols > 0:
		mode = "dynamic"
		rowDirected = false
		res.Inc("grids_dynamic_columns")
	default:
		res.Inc("vacuous_grid_without_rows_columns")
		return
	}
	dirName := map[bool]string{true: "row-directed", false: "column-directed"}[rowDirected]
	trig := func(cs ...c22Cell) string {
		t := "plain-cells"
		for _, c := range cs {
			if !c.plain {
				t = "cell-with-outside-label-icon-or-offset"
			}
		}
		for _, c := range cs {
			// an outside label wider (above/below) or taller (beside) than the cell's natural size:
			// the grid's margin bookkeeping (sizeForOutsideLabels / revertAdjustments) is
			// approximate for these (known finding F-C22-outside-label-regrow)
			if c.oversized {
				t = "outside-label-larger-than-cell-natural-size"
			}
		}
		return t
	}
	ctx := func() string {
		return fmt.Sprintf("grid %q (%s, %s, rows=%d columns=%d vertical-gap=%d horizontal-gap=%d, %d cells, engine %s)", gid, mode, dirName, rows, cols, vgap, hgap, n, engine)
	}

	// overlap
	for i := 0; i < n; i++ {
		for j := i + 1; j < n; j++ {
			if w, h := cells[i].box.Overlap(cells[j].box); w > 1 && h > 1 {
				res.Viol("C22.overlap", "C22.overlap:"+trig(cells[i], cells[j])+":"+mode, fmt.Sprintf("%s: cells %q %v and %q %v overlap by %gx%g", ctx(), cells[i].id, cells[i].box, cells[j].id, cells[j].box, w, h))
				i = n
				break
			}
		}
	}
	// inside the container
	if cont != nil {
		cb := layShapeRect(cont)
		for _, c := range cells {
			if !cb.ContainsRect(c.box, 1) {
				res.Viol("C22.outside-container", "C22.outside-container:"+trig(c)+":"+mode, fmt.Sprintf("%s: cell %q %v is not inside the container %v", ctx(), c.id, c.box, cb))
				break
			}
		}
	}

	// along/across accessors: "line" = row when row-directed, column otherwise.
	// Every edge of d2's slot is known only up to an interval around the drawn extent's edge:
	// [edge-out, edge+in] for start edges, [edge-in, edge+out] for end edges (see c22Cell).
	type iv struct{ lo, hi float64 }
	meet := func(a, b iv) iv { return iv{math.Max(a.lo, b.lo), math.Min(a.hi, b.hi)} }
	startIv := func(c c22Cell, v float64) iv { return iv{v - c.out, v + c.in} }
	endIv := func(c c22Cell, v float64) iv { return iv{v - c.in, v + c.out} }
	along := func(r layRect) (float64, float64) { // start, end along the line
		if rowDirected {
			return r.X, r.X2()
		}
		return r.Y, r.Y2()
	}
	across := func(r layRect) (float64, float64) {
		if rowDirected {
			return r.Y, r.Y2()
		}
		return r.X, r.X2()
	}
	gapAlong, gapAcross := float64(hgap), float64(vgap)
	if !rowDirected {
		gapAlong, gapAcross = float64(vgap), float64(hgap)
	}

	// split the declaration sequence into lines
	var lines [][]c22Cell
	if mode == "evenly" {
		// documented continuation: more cells than rows×columns adds rows (row-directed) or columns
		R, C := rows, cols
		for R*C < n {
			if rowDirected {
				R++
			} else {
				C++
			}
		}
		per := C
		if !rowDirected {
			per = R
		}
		for k := 0; k < n; k += per {
			e := k + per
			if e > n {
				e = n
			}
			lines = append(lines, cells[k:e])
		}
	} else {
		// dynamic: the next line starts with the first cell that lies beyond the current line
		// (across); a cell of the same line starts where the line starts
		want := rows
		if !rowDirected {
			want = cols
		}
		if want > n {
			want = n
		}
		cur := []c22Cell{cells[0]}
		_, lineEnd := across(cells[0].slot)
		for k := 1; k < n; k++ {
			s, e := across(cells[k].slot)
			if s >= lineEnd-10 {
				lines = append(lines, cur)
				cur = nil
				lineEnd = e
			}
			cur = append(cur, cells[k])
			lineEnd = math.Max(lineEnd, e)
		}
		lines = append(lines, cur)
		if len(lines) != want {
			res.Viol("C22.order", "C22.order:"+trig(cells...)+":dynamic:line-count", fmt.Sprintf("%s: the declaration sequence forms %d lines, expected %d", ctx(), len(lines), want))
			return
		}
	}

	// order + gaps along each line; the cells of a line share its across-start
	for li, ln := range lines {
		s0, _ := across(ln[0].slot)
		common := startIv(ln[0], s0)
		for k := 1; k < len(ln); k++ {
			a, _ := across(ln[k].slot)
			common = meet(common, startIv(ln[k], a))
			if common.lo > common.hi {
				res.Viol("C22.order", "C22.order:"+trig(ln...)+":"+mode+":line-start", fmt.Sprintf("%s: cell %q (slot %v) does not start where the preceding cells of its line %d start (cell %q slot %v)", ctx(), ln[k].id, ln[k].slot, li, ln[0].id, ln[0].slot))
				return
			}
			_, pe := along(ln[k-1].slot)
			s, _ := along(ln[k].slot)
			g := iv{startIv(ln[k], s).lo - endIv(ln[k-1], pe).hi, startIv(ln[k], s).hi - endIv(ln[k-1], pe).lo}
			pair := trig(ln[k-1], ln[k])
			switch {
			case g.hi < 0:
				res.Viol("C22.order", "C22.order:"+pair+":"+mode+":along-line", fmt.Sprintf("%s: cell %q (slot %v) is not after its predecessor %q (slot %v) in line %d", ctx(), ln[k].id, ln[k].slot, ln[k-1].id, ln[k-1].slot, li))
				return
			case g.hi < gapAlong:
				res.Viol("C22.gap", "C22.gap:"+pair+":"+mode+":along-line-too-small", fmt.Sprintf("%s: gap %g between %q (slot %v) and %q (slot %v) is below the configured %g", ctx(), s-pe, ln[k-1].id, ln[k-1].slot, ln[k].id, ln[k].slot, gapAlong))
				return
			case g.lo > gapAlong && ln[k].plain && ln[k-1].plain:
				// only for plain cells: with outside labels d2 may reserve more than is drawn
				// (sizeForOutsideLabels recomputes the margin before it re-grows the box)
				res.Viol("C22.gap", "C22.gap:"+pair+":"+mode+":along-line-too-large", fmt.Sprintf("%s: gap %g between %q (slot %v) and %q (slot %v) exceeds the configured %g", ctx(), s-pe, ln[k-1].id, ln[k-1].slot, ln[k].id, ln[k].slot, gapAlong))
				return
			}
			if ln[k].plain && ln[k-1].plain {
				res.Inc("gap_pairs_exact")
			} else {
				res.Inc("gap_pairs_interval")
			}
		}
	}
	// lines follow each other across, separated by the across gap
	for li := 1; li < len(lines); li++ {
		prev := iv{math.Inf(-1), math.Inf(-1)} // end of the previous line = max of its cells' ends
		allPlain := true
		for _, c := range lines[li-1] {
			_, e := across(c.slot)
			x := endIv(c, e)
			prev = iv{math.Max(prev.lo, x.lo), math.Max(prev.hi, x.hi)}
			allPlain = allPlain && c.plain
		}
		next := iv{math.Inf(1), math.Inf(1)} // start of this line = min of its cells' starts
		for _, c := range lines[li] {
			s, _ := across(c.slot)
			x := startIv(c, s)
			next = iv{math.Min(next.lo, x.lo), math.Min(next.hi, x.hi)}
			allPlain = allPlain && c.plain
		}
		g := iv{next.lo - prev.hi, next.hi - prev.lo}
		all := append(append([]c22Cell{}, lines[li-1]...), lines[li]...)
		switch {
		case g.hi < 0:
			res.Viol("C22.order", "C22.order:"+trig(all...)+":"+mode+":across-lines", fmt.Sprintf("%s: line %d starts in [%g,%g], before line %d ends in [%g,%g]", ctx(), li, next.lo, next.hi, li-1, prev.lo, prev.hi))
			return
		case g.hi < gapAcross:
			res.Viol("C22.gap", "C22.gap:"+trig(all...)+":"+mode+":across-lines-too-small", fmt.Sprintf("%s: gap between line %d (ends in [%g,%g]) and line %d (starts in [%g,%g]) is below the configured %g", ctx(), li-1, prev.lo, prev.hi, li, next.lo, next.hi, gapAcross))
			return
		case g.lo > gapAcross && allPlain:
			res.Viol("C22.gap", "C22.gap:"+trig(all...)+":"+mode+":across-lines-too-large", fmt.Sprintf("%s: gap between line %d (ends in [%g,%g]) and line %d (starts in [%g,%g]) exceeds the configured %g", ctx(), li-1, prev.lo, prev.hi, li, next.lo, next.hi, gapAcross))
			return
		}
		if allPlain {
			res.Inc("gap_pairs_exact")
		} else {
			res.Inc("gap_pairs_interval")
		}
	}
	// alignment (evenly): the cells of a line share their across-end too (equal height per row /
	// width per column); the cells at position j of every line share start and end along the line
	if mode == "evenly" {
		for li, ln := range lines {
			_, e0 := across(ln[0].slot)
			common := endIv(ln[0], e0)
			for _, c := range ln[1:] {
				_, e := across(c.slot)
				common = meet(common, endIv(c, e))
				if common.lo > common.hi {
					res.Viol("C22.align", "C22.align:"+trig(ln...)+":"+dirName+":within-line", fmt.Sprintf("%s: cell %q (slot %v) of line %d does not end (across the line) where the preceding cells end (cell %q slot %v)", ctx(), c.id, c.slot, li, ln[0].id, ln[0].slot))
					return
				}
			}
		}
		maxLen := 0
		for _, ln := range lines {
			if len(ln) > maxLen {
				maxLen = len(ln)
			}
		}
		for j := 0; j < maxLen; j++ {
			cs, ce := iv{math.Inf(-1), math.Inf(1)}, iv{math.Inf(-1), math.Inf(1)}
			var col []c22Cell
			for li := range lines {
				if j >= len(lines[li]) {
					continue
				}
				c := lines[li][j]
				col = append(col, c)
				s, e := along(c.slot)
				cs, ce = meet(cs, startIv(c, s)), meet(ce, endIv(c, e))
				if cs.lo > cs.hi || ce.lo > ce.hi {
					res.Viol("C22.align", "C22.align:"+trig(col...)+":"+dirName+":across-lines", fmt.Sprintf("%s: cell %q (slot %v) at position %d of line %d is not aligned (start/size along the line) with the cells before it at that position (first: %q slot %v)", ctx(), c.id, c.slot, j, li, col[0].id, col[0].slot))
					return
				}
			}
		}
	}
}
