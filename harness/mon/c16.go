package mon

import (
	"bytes"
	"encoding/json"
	"errors"
	"fmt"
	"strings"

	"verif/gen"
	"verif/model"
	"verif/proj"
	"verif/run"

	"oss.terrastruct.com/d2/d2graph"
	"oss.terrastruct.com/d2/d2parser"
)

// C16 — attribute validation = documented domains.
//
// One case = one attribute assignment `KW: VALUE` in one context (object, connection,
// arrowhead, d2-config, theme override). The reference table model/domains.go says
// In / Out / Unspecified for the value; the monitor compiles the one-assignment program and
// demands:
//   - In  ⇒ compiles, and the compiled attribute equals the input value (equal ignoring
//     letter case for keyword-valued attributes);
//   - Out ⇒ compilation fails, and an error is positioned at the value (its range starts
//     exactly where the value starts in the source text);
//   - Unspecified ⇒ nothing (counted as vacuous_unspecified).
//
// The programs contain nothing else that could fail (shape: image gets an icon), so a
// compile error is attributable to the assignment.

type c16In struct {
	Ctx   string `json:"ctx"` // object | edge | arrowhead | config | override
	KW    string `json:"kw"`
	Value string `json:"value"`
	Class string `json:"class"` // value class (boundary/lexical/special label), part of signatures
	KWSp  string `json:"kwsp"`  // keyword as spelled in the program (letter case variant)
}

func init() {
	run.Register(&run.Check{
		ID: "C16", Title: "Attribute validation matches the documented value domains",
		LevelText: "Exploration: for every style keyword and reserved attribute with a documented domain, in every context it can appear in (object, connection, arrowhead, d2-config, theme overrides), boundary values (min-1, min, max, max+1, 0, -1), lexical variants (+5, 05, 5.0, 1e1, 0x5, full-width digits, padded), specials (NaN, Inf, empty, huge), letter-case variants of every enumerated value, 148 colour names, well- and ill-formed hex and gradient syntaxes and random strings are assigned one at a time and compiled; accept/reject, the stored value and the error position are compared with an independent reference domain table.",
		Technique: "runtime monitoring: reference-model oracle (domain table transcribed from the documentation) over enumerated boundary values and random strings",
		DesignRef: "§4 C16",
		Rule:      "cases: (context, keyword, value) triples from per-domain value lists + random strings; distinct by sha256 of the triple; non-trivial when the reference table judged the value In or Out (Unspecified lexical variants are vacuous)",
		Chunk:     128, MinNontrivial: 500,
		Gen:  genC16,
		Exec: execC16,
	})
}

type c16Val struct{ v, class string }

func c16IntValues(d model.Domain) []c16Val {
	out := []c16Val{
		{fmt.Sprint(d.Min), "min"}, {fmt.Sprint(d.Min - 1), "min-1"}, {fmt.Sprint(d.Min + 1), "min+1"},
		{"0", "zero"}, {"1", "one"}, {"-1", "minus-one"}, {"-5", "negative"}, {"5", "small"}, {"9", "nine"}, {"10", "ten"},
		{"+5", "leading-plus"}, {"05", "leading-zero"}, {"5.0", "decimal-point-zero"}, {"1e1", "exponent"}, {"0x5", "hex"},
		{" 5", "leading-space"}, {"5 ", "trailing-space"}, {"５", "full-width-digit"}, {"5_0", "underscore"}, {"-0", "minus-zero"},
		{"NaN", "nan"}, {"Inf", "inf"}, {"", "empty"}, {"abc", "text"}, {"5px", "unit-suffix"}, {"true", "boolean"},
		{"99999999999999999999", "huge"}, {"-99999999999999999999", "huge-negative"}, {"2147483648", "int32-overflow"},
		{"7.5", "fraction"}, {"-0.5", "negative-fraction"}, {"1,5", "comma"}, {"١٢", "arabic-indic-digits"},
	}
	if d.Max >= 0 {
		out = append(out, c16Val{fmt.Sprint(d.Max), "max"}, c16Val{fmt.Sprint(d.Max + 1), "max+1"}, c16Val{fmt.Sprint(d.Max - 1), "max-1"},
			c16Val{fmt.Sprint(d.Max) + ".5", "max-plus-fraction"}, c16Val{fmt.Sprint(d.Max * 10), "max-times-ten"})
	} else {
		out = append(out, c16Val{"1000", "thousand"}, c16Val{"100000", "large"})
	}
	return out
}

var c16FloatValues = []c16Val{
	{"0", "zero"}, {"1", "one"}, {"0.5", "half"}, {"0.0", "zero-point-zero"}, {"1.0", "one-point-zero"}, {".5", "no-leading-zero"},
	{"0.25", "quarter"}, {"0.999999", "just-below-one"}, {"1.000001", "just-above-one"}, {"1.1", "above-one"}, {"2", "two"},
	{"-0.1", "negative"}, {"-1", "minus-one"}, {"-0", "minus-zero"}, {"+0.5", "leading-plus"}, {"1e-1", "exponent"}, {"1e3", "exponent-large"},
	{"0x1p-1", "hex-float"}, {"NaN", "nan"}, {"nan", "nan-lower"}, {"Inf", "inf"}, {"+Inf", "plus-inf"}, {"-Inf", "minus-inf"}, {"infinity", "infinity"},
	{"", "empty"}, {"abc", "text"}, {"0.5.5", "two-points"}, {"0,5", "comma"}, {"50%", "percent"}, {" 0.5", "leading-space"}, {"０.５", "full-width"},
	{"1_0", "underscore"}, {"0.", "trailing-point"}, {"00.5", "leading-zeros"}, {"true", "boolean"}, {"1e400", "overflow"}, {"1e-400", "underflow"},
}

var c16BoolValues = []c16Val{
	{"true", "true"}, {"false", "false"}, {"TRUE", "upper"}, {"True", "title"}, {"fAlSe", "mixed"}, {"1", "one"}, {"0", "zero"}, {"t", "t"}, {"F", "f-upper"},
	{"yes", "yes"}, {"no", "no"}, {"on", "on"}, {"2", "two"}, {"", "empty"}, {"tru", "prefix"}, {"truee", "suffix"}, {" true", "leading-space"}, {"null-ish", "text"}, {"-1", "minus-one"},
}

func c16EnumValues(r *gen.R, d model.Domain, others ...[]string) []c16Val {
	var out []c16Val
	for _, v := range d.Values {
		out = append(out, c16Val{v, "member"}, c16Val{strings.ToUpper(v), "member-upper"}, c16Val{strings.ToUpper(v[:1]) + v[1:], "member-title"},
			c16Val{v + "s", "member-plus-suffix"}, c16Val{" " + v, "member-leading-space"}, c16Val{v[:len(v)-1], "member-truncated"})
	}
	for _, o := range others {
		for _, v := range o {
			in := false
			for _, m := range d.Values {
				if m == v {
					in = true
				}
			}
			if !in {
				out = append(out, c16Val{v, "member-of-other-enumeration"})
			}
		}
	}
	out = append(out, c16Val{"", "empty"}, c16Val{"nonsense", "text"}, c16Val{"5", "number"}, c16Val{"true", "boolean"}, c16Val{"none ", "trailing-space"})
	return out
}

func c16ColorValues(r *gen.R) []c16Val {
	var out []c16Val
	for _, n := range model.DomNamedColors {
		out = append(out, c16Val{n, "named"})
	}
	for i := 0; i < 12; i++ {
		n := gen.Pick(r, model.DomNamedColors)
		out = append(out, c16Val{strings.ToUpper(n), "named-upper"}, c16Val{r.RandCase(n), "named-mixed-case"}, c16Val{n + "x", "named-plus-suffix"}, c16Val{n[1:], "named-truncated"})
	}
	out = append(out,
		c16Val{"#fff", "hex3"}, c16Val{"#FFF", "hex3-upper"}, c16Val{"#f0ff3a", "hex6"}, c16Val{"#F0FF3A", "hex6-upper"}, c16Val{"#aBc123", "hex6-mixed"},
		c16Val{"#ffff", "hex4"}, c16Val{"#f0ff3a80", "hex8"}, c16Val{"#ff", "hex2"}, c16Val{"#fffff", "hex5"}, c16Val{"#fffffff", "hex7"}, c16Val{"#fffffffff", "hex9"},
		c16Val{"#ggg", "hex-bad-digit"}, c16Val{"#gggggg", "hex6-bad-digit"}, c16Val{"fff", "hex-without-hash"}, c16Val{"f0ff3a", "hex6-without-hash"}, c16Val{"#", "hash-only"},
		c16Val{"# fff", "hash-space"}, c16Val{"#fff ", "hex-trailing-space"}, c16Val{"0xffffff", "c-hex"},
		c16Val{"linear-gradient(red, blue)", "gradient-linear-named"}, c16Val{"linear-gradient(#fff, #000)", "gradient-linear-hex"}, c16Val{"radial-gradient(red, blue)", "gradient-radial-named"},
		c16Val{"linear-gradient(red, white, blue)", "gradient-three-stops"}, c16Val{"linear-gradient(45deg, red, blue)", "gradient-angle"}, c16Val{"linear-gradient(to right, red 10%, blue 90%)", "gradient-direction-percent"},
		c16Val{"linear-gradient(red, notacolor)", "gradient-bad-stop"}, c16Val{"linear-gradient(notacolor, blue)", "gradient-bad-first-stop"}, c16Val{"linear-gradient(red, blue", "gradient-unbalanced"},
		c16Val{"linear-gradient", "gradient-no-parens"}, c16Val{"linear-gradient()", "gradient-empty"}, c16Val{"linear-gradient(red)", "gradient-one-stop"},
		c16Val{"gradient(red, blue)", "gradient-unknown-function"}, c16Val{"rgb(255, 0, 0)", "rgb-function"}, c16Val{"hsl(0, 100%, 50%)", "hsl-function"},
		c16Val{"transparent", "transparent"}, c16Val{"currentcolor", "currentcolor"}, c16Val{"N1", "theme-code"}, c16Val{"B3", "theme-code"}, c16Val{"AA4", "theme-code"}, c16Val{"n1", "theme-code-lower"}, c16Val{"N8", "theme-code-out-of-range"},
		c16Val{"", "empty"}, c16Val{"5", "number"}, c16Val{"true", "boolean"}, c16Val{"reddish", "text"}, c16Val{"red blue", "two-names"}, c16Val{"red;", "trailing-semicolon"}, c16Val{"röd", "non-ascii"},
	)
	return out
}

func c16ThemeIDValues() []c16Val {
	var out []c16Val
	for _, id := range model.DomThemeIDs {
		out = append(out, c16Val{fmt.Sprint(id), "catalog-id"})
	}
	for _, v := range []int{2, 9, 10, 99, 106, 199, 202, 299, 304, 400, 1000, -1} {
		out = append(out, c16Val{fmt.Sprint(v), "not-in-catalog"})
	}
	out = append(out, c16Val{"+1", "leading-plus"}, c16Val{"01", "leading-zero"}, c16Val{"1.0", "decimal-point-zero"}, c16Val{"", "empty"}, c16Val{"abc", "text"}, c16Val{"NaN", "nan"}, c16Val{"99999999999999999999", "huge"}, c16Val{"true", "boolean"})
	return out
}

func genC16(seed int64, tier string, emit func(run.Case)) {
	r := gen.New(seed)
	id := 0
	add := func(ctx string, d model.Domain, v c16Val) {
		id++
		sp := d.Keyword
		emit(run.MkCase(fmt.Sprintf("c%06d", id), ctx+"/"+d.Keyword, c16In{Ctx: ctx, KW: d.Keyword, Value: v.v, Class: v.class, KWSp: sp}))
	}
	nRand := tierN(tier, 12, 400)
	values := func(q *gen.R, d model.Domain) []c16Val {
		var vs []c16Val
		switch d.Kind {
		case model.DomKFloat01:
			vs = append(vs, c16FloatValues...)
			for i := 0; i < nRand; i++ {
				vs = append(vs, c16Val{fmt.Sprintf("%.*f", q.Range(1, 6), q.Float64()*1.4-0.2), "random-decimal"})
			}
		case model.DomKInt, model.DomKAnyInt:
			vs = append(vs, c16IntValues(d)...)
			for i := 0; i < nRand; i++ {
				vs = append(vs, c16Val{fmt.Sprint(q.Range(-20, 130)), "random-integer"})
			}
		case model.DomKBool:
			vs = append(vs, c16BoolValues...)
		case model.DomKEnum:
			vs = append(vs, c16EnumValues(q, d, model.DomShapes, model.DomArrowheadShapes, model.DomFillPatterns, model.DomTextTransforms, model.DomDirections, model.DomFonts)...)
		case model.DomKColor, model.DomKThemeColor:
			vs = append(vs, c16ColorValues(q)...)
			for i := 0; i < nRand; i++ {
				vs = append(vs, c16Val{fmt.Sprintf("#%0*x", q.Range(1, 9), q.Intn(1<<24)), "random-hex"})
			}
		case model.DomKThemeID:
			vs = append(vs, c16ThemeIDValues()...)
			for i := 0; i < nRand; i++ {
				vs = append(vs, c16Val{fmt.Sprint(q.Range(0, 320)), "random-id"})
			}
		}
		for i := 0; i < nRand; i++ {
			switch q.Intn(3) {
			case 0:
				vs = append(vs, c16Val{gen.Name(q, true, 12), "random-hostile-text"})
			case 1:
				vs = append(vs, c16Val{gen.UnicodeText(q, 8), "random-unicode-text"})
			default:
				vs = append(vs, c16Val{gen.Pick(q, gen.Keywords), "random-keyword"})
			}
		}
		return vs
	}
	k := 0
	each := func(ctx string, ds []model.Domain) {
		for _, d := range ds {
			k++
			for _, v := range values(r.Sub(k), d) {
				add(ctx, d, v)
			}
		}
	}
	each("object", model.DomStyle)
	each("edge", model.DomStyle)
	each("arrowhead", model.DomStyle)
	each("object", model.DomObject)
	each("arrowhead", model.DomArrowhead)
	each("config", model.DomConfig)
	for _, code := range model.DomThemeCodes {
		d := model.DomThemeOverride
		d.Keyword = code
		k++
		for _, v := range values(r.Sub(k), d) {
			if tier != "thorough" && v.class == "named" && r.Intn(6) != 0 {
				continue
			}
			id++
			emit(run.MkCase(fmt.Sprintf("c%06d", id), "override/"+code, c16In{Ctx: "override", KW: code, Value: v.v, Class: v.class, KWSp: code}))
		}
	}
}

// c16Render renders the value as D2 source: unquoted when that is unambiguous, else
// double quoted (own quoting, independent of d2format).
func c16Render(v string) string {
	plain := v != "" && strings.TrimSpace(v) == v
	for _, c := range v {
		switch {
		case c >= 'a' && c <= 'z', c >= 'A' && c <= 'Z', c >= '0' && c <= '9', c == '-' && len(v) > 1, c == '.', c == '+', c == '_' && len(v) > 1, c == '%', c == ',':
		case c == '#' || c == '(' || c == ')' || c == ' ':
			plain = false
		default:
			if c < 0x80 {
				plain = false
			}
		}
	}
	switch strings.ToLower(v) {
	case "null", "suspend", "unsuspend", "_":
		plain = false
	}
	if strings.HasPrefix(v, "-") && (strings.HasPrefix(v, "--") || strings.HasPrefix(v, "->")) || strings.HasSuffix(v, "-") || strings.HasPrefix(v, ".") && len(v) == 1 {
		plain = false
	}
	if plain {
		return v
	}
	return gen.Quote(v)
}

// c16Program returns the program and the byte offset at which the value starts.
func c16Program(in c16In) (text string, valueOff int) {
	var pre, post string
	switch in.Ctx {
	case "object":
		styleKW := false
		for _, d := range model.DomStyle {
			if d.Keyword == in.KW {
				styleKW = true
			}
		}
		if styleKW {
			pre = "x.style." + in.KWSp + ": "
		} else {
			if in.KW == "shape" {
				pre = "x.icon: https://icons.terrastruct.com/essentials/004-picture.svg\n"
			}
			pre += "x." + in.KWSp + ": "
		}
	case "edge":
		pre = "a -> b\n(a -> b)[0].style." + in.KWSp + ": "
	case "arrowhead":
		if in.KW == "shape" {
			pre = "a -> b\n(a -> b)[0].target-arrowhead." + in.KWSp + ": "
		} else {
			pre = "a -> b\n(a -> b)[0].source-arrowhead.style." + in.KWSp + ": "
		}
	case "config":
		pre, post = "x\nvars: {\n  d2-config: {\n    "+in.KWSp+": ", "\n  }\n}\n"
	case "override":
		pre, post = "x\nvars: {\n  d2-config: {\n    theme-overrides: {\n      "+in.KWSp+": ", "\n    }\n  }\n}\n"
	}
	return pre + c16Render(in.Value) + post + "\n", len(pre)
}

func c16Domain(in c16In) (model.Domain, bool) {
	var ds []model.Domain
	switch in.Ctx {
	case "object":
		ds = append(append(ds, model.DomStyle...), model.DomObject...)
	case "edge":
		ds = model.DomStyle
	case "arrowhead":
		ds = append(append(ds, model.DomArrowhead...), model.DomStyle...)
	case "config":
		ds = model.DomConfig
	case "override":
		d := model.DomThemeOverride
		d.Keyword = in.KW
		return d, true
	}
	for _, d := range ds {
		if d.Keyword == in.KW {
			return d, true
		}
	}
	return model.Domain{}, false
}

var c16JSONName = map[string]string{
	"opacity": "opacity", "stroke": "stroke", "fill": "fill", "fill-pattern": "fillPattern", "stroke-width": "strokeWidth", "stroke-dash": "strokeDash",
	"border-radius": "borderRadius", "shadow": "shadow", "3d": "3d", "multiple": "multiple", "font": "font", "font-size": "fontSize", "font-color": "fontColor",
	"animated": "animated", "bold": "bold", "italic": "italic", "underline": "underline", "filled": "filled", "double-border": "doubleBorder", "text-transform": "textTransform",
	"shape": "shape", "direction": "direction", "width": "width", "height": "height", "top": "top", "left": "left", "grid-rows": "gridRows", "grid-columns": "gridColumns",
	"grid-gap": "gridGap", "vertical-gap": "verticalGap", "horizontal-gap": "horizontalGap",
}

// c16Compiled extracts the compiled value of the attribute from π(g) / the config.
func c16Compiled(in c16In, g *d2graph.Graph, cfgJSON map[string]any) (string, bool) {
	var attrs map[string]any
	b := proj.Graph(g, proj.Opts{})
	switch in.Ctx {
	case "object":
		for _, o := range b.Objects {
			if o.AbsID == "x" {
				attrs = o.Attrs
			}
		}
	case "edge":
		if len(b.Edges) == 1 {
			attrs = b.Edges[0].Attrs
		}
	case "arrowhead":
		if len(b.Edges) == 1 {
			if in.KW == "shape" {
				attrs = b.Edges[0].DstHead
			} else {
				attrs = b.Edges[0].SrcHead
			}
		}
	case "config":
		key := map[string]string{"theme-id": "themeID", "dark-theme-id": "darkThemeID", "pad": "pad", "sketch": "sketch", "center": "center"}[in.KW]
		v, ok := cfgJSON[key]
		if !ok || v == nil {
			return "", false
		}
		return fmt.Sprint(v), true
	case "override":
		ov, _ := cfgJSON["themeOverrides"].(map[string]any)
		if ov == nil {
			return "", false
		}
		v, ok := ov[strings.ToLower(in.KW)]
		if !ok {
			v, ok = ov[in.KW]
		}
		if !ok || v == nil {
			return "", false
		}
		return fmt.Sprint(v), true
	}
	if attrs == nil {
		return "", false
	}
	name := c16JSONName[in.KW]
	holder := attrs
	if _, isStyle := attrs["style"].(map[string]any)[name]; isStyle {
		holder = attrs["style"].(map[string]any)
	}
	sc, ok := holder[name].(map[string]any)
	if !ok {
		return "", false
	}
	v, ok := sc["value"].(string)
	return v, ok
}

func execC16(c run.Case) (res run.Result) {
	var in c16In
	c.Decode(&in)
	d, ok := c16Domain(in)
	if !ok {
		res.Inconclusive = "harness: no domain for " + in.Ctx + "/" + in.KW
		return
	}
	verdict := d.Judge(in.Value)
	res.Inc("judged_" + verdict.String())
	res.Inc("ctx_" + in.Ctx)
	res.Inc("kw_" + in.KW)
	text, off := c16Program(in)
	res.Sample = map[string]any{"ctx": in.Ctx, "kw": in.KW, "value": in.Value, "class": in.Class, "reference": verdict.String()}
	res.Digest = in.Ctx + "\x00" + in.KW + "\x00" + in.Value
	// sanity of the harness: the text must parse and the value must be where we think
	if _, perr := d2parser.Parse("x.d2", strings.NewReader(text), nil); perr != nil {
		res.Inc("vacuous_value_not_expressible")
		return
	}
	g, cfg, err := compile(text)
	// signature: keyword : value class : context. The value class is the generator's label,
	// except for two classes recognised from the value itself so that every generator
	// reaching them names them alike.
	class := in.Class
	if len(in.Value) > 1 && in.Value[0] == '-' && strings.Trim(in.Value[1:], "0123456789") == "" && strings.Trim(in.Value[1:], "0") != "" {
		class = "negative-integer"
	} else if strings.EqualFold(in.Value, "nan") {
		class = "nan"
	}
	who := in.KW + ":" + class + ":" + in.Ctx
	if verdict == model.DomUnspecified {
		res.Inc("vacuous_unspecified")
		if err == nil {
			res.Inc("unspecified_accepted")
		} else {
			res.Inc("unspecified_rejected")
		}
		return
	}
	res.Nontrivial = true
	switch {
	case verdict == model.DomIn && err != nil:
		res.Viol("C16.rejects-in-domain", "C16.rejects-in-domain:"+who, fmt.Sprintf("%s %s: value %q is in the documented domain (%s) but compilation failed: %v\nprogram:\n%s", in.Ctx, in.KW, in.Value, d.Doc, err, text))
	case verdict == model.DomOut && err == nil:
		got, _ := c16Compiled(in, g, jsonMap(cfg))
		res.Viol("C16.accepts-out-of-domain", "C16.accepts-out-of-domain:"+who, fmt.Sprintf("%s %s: value %q is outside the documented domain (%s) but was accepted (compiled value %q)\nprogram:\n%s", in.Ctx, in.KW, in.Value, d.Doc, got, text))
	case verdict == model.DomIn:
		res.Inc("accepted_in_domain")
		got, found := c16Compiled(in, g, jsonMap(cfg))
		want := in.Value
		same := got == want
		if d.KeywordValued {
			same = strings.EqualFold(got, want)
		}
		if in.Ctx == "config" && (d.Kind == model.DomKBool || d.Kind == model.DomKThemeID || d.Kind == model.DomKAnyInt) {
			same = got == want // typed config: canonical decimal / true|false print identically
		}
		if !found {
			res.Viol("C16.value-lost", "C16.value-lost:"+who, fmt.Sprintf("%s %s: accepted value %q is not present in the compiled diagram\nprogram:\n%s", in.Ctx, in.KW, in.Value, text))
		} else if !same {
			res.Viol("C16.value-changed", "C16.value-changed:"+who, fmt.Sprintf("%s %s: accepted value %q reached the compiled diagram as %q\nprogram:\n%s", in.Ctx, in.KW, in.Value, got, text))
		}
	default: // Out and rejected: position
		res.Inc("rejected_out_of_domain")
		var pe *d2parser.ParseError
		if !errors.As(err, &pe) || len(pe.Errors) == 0 {
			res.Viol("C16.error-type", "C16.error-type", fmt.Sprintf("rejection is not a positioned error list: %T %v", err, err))
			return
		}
		line, col := 0, 0
		for _, ch := range text[:off] {
			if ch == '\n' {
				line++
				col = 0
			} else {
				col++
			}
		}
		at := false
		for _, e := range pe.Errors {
			if e.Range.Start.Byte == off && e.Range.Start.Line == line && e.Range.Start.Column == col {
				at = true
			}
		}
		if !at {
			e := pe.Errors[0]
			res.Viol("C16.error-not-at-value", "C16.error-not-at-value:"+in.Ctx+":"+in.KW, fmt.Sprintf("%s %s: value %q rejected (%q) but no error starts at the value (line %d col %d byte %d); first error range %s\nprogram:\n%s", in.Ctx, in.KW, in.Value, e.Message, line, col, off, c07Range(e.Range), text))
		}
	}
	return
}

func jsonMap(v any) map[string]any {
	b, err := json.Marshal(v)
	if err != nil {
		return nil
	}
	var m map[string]any
	dec := json.NewDecoder(bytes.NewReader(b))
	dec.UseNumber() // keep integers as written (no float64 round trip)
	dec.Decode(&m)
	return m
}
