//go:build !race

package mon

// c25RaceBuild reports whether this binary was built with the race detector.
const c25RaceBuild = false
