package mon

// C31 — themes and theme overrides are applied consistently.
//
// Workload: every catalog theme as light theme × (no dark theme | every catalog theme as
// dark theme) × random subsets of the 18 override codes (named colours in random case,
// 3- and 6-digit hex) for the light and, separately, the dark theme.
//   kind "css":    d2svg.ThemeCSS called directly (cheap; the full theme × theme square);
//   kind "render": a generated diagram carrying the themes/overrides in its d2-config
//                  (compiled by d2lib.Compile, so compileThemeOverrides is in the path) or
//                  in RenderOpts, rendered by d2svg.Render;
//   kind "unknown": theme ids that are not in the catalog, with and without overrides,
//                  through d2lib.Compile, d2svg.Render and d2svg.ThemeCSS.
//
// Oracle: expected(code) = override[code] if the override set names it, else the catalog
// theme's palette entry (the catalog is data; ApplyOverrides / ResolveThemeColor /
// singleThemeRulesets are what is judged). The emitted stylesheet is parsed:
//   - outside the prefers-color-scheme:dark block, for all 18 codes × {fill, stroke,
//     background-color, color} there is exactly one rule `.<hash> .<prop>-<code>{<prop>:<v>;}`
//     and v = expected_light(code);
//   - with a dark theme the same holds inside the dark block with expected_dark; without
//     one there is no dark block;
//   - with no dark theme, every element that carries class `<prop>-<code>` AND an inline
//     attribute <prop> has attribute value = expected_light(code). (Presence of the inline
//     attribute is not demanded: markdown <div>s and sketch-mode paths deliberately rely on
//     the stylesheet alone; they are counted.)
// Unknown theme ids must be rejected (an error from Compile / Render / ThemeCSS).

import (
	"bytes"
	"encoding/xml"
	"fmt"
	"regexp"
	"sort"
	"strings"

	"verif/gen"
	"verif/run"

	"oss.terrastruct.com/d2/d2renderers/d2svg"
	"oss.terrastruct.com/d2/d2target"
	"oss.terrastruct.com/d2/d2themes"
	"oss.terrastruct.com/d2/d2themes/d2themescatalog"
)

var c31Codes = []string{"N1", "N2", "N3", "N4", "N5", "N6", "N7", "B1", "B2", "B3", "B4", "B5", "B6", "AA2", "AA4", "AA5", "AB4", "AB5"}
var c31Props = []string{"fill", "stroke", "background-color", "color"}

type c31In struct {
	Kind    string            `json:"kind"`
	Light   int64             `json:"light"`
	Dark    int64             `json:"dark"` // -1 none
	Ov      map[string]string `json:"ov,omitempty"`
	DarkOv  map[string]string `json:"dark_ov,omitempty"`
	ViaConf bool              `json:"via_config,omitempty"` // themes/overrides written into d2-config
	Sketch  bool              `json:"sketch,omitempty"`
	Text    string            `json:"text,omitempty"`
	Entry   string            `json:"entry,omitempty"` // unknown: compile | render-light | render-dark | css-light | css-dark
}

func init() {
	run.Register(&run.Check{
		ID: "C31", Title: "Themes and theme overrides are applied consistently",
		LevelText: "Exploration: the full square of 20 catalog themes as light theme × (none | 20 themes as dark theme) with random override subsets through d2svg.ThemeCSS, plus generated diagrams rendered under every theme (light, and light+dark) with overrides written in d2-config; the stylesheet is parsed (18 codes × 4 properties × light/dark block) and inline fill/stroke/color attributes of every class-carrying element are compared with an independent resolution (override, else catalog palette); unknown theme ids are fed to Compile, Render and ThemeCSS with and without overrides and must be refused.",
		Technique: "runtime monitoring: CSS/XML parse of real output vs. independent colour resolution over the theme × override matrix",
		DesignRef: "§4 C31",
		Rule:      "cases: (kind, light theme, dark theme, overrides, dark overrides[, diagram]); distinct by sha256 of the case; non-trivial when a stylesheet with ≥72 rules was judged (css/render) or an unknown id was submitted (unknown)",
		Chunk:     16, CPUBudget: 300,
		Gen:  genC31,
		Exec: execC31,
		Assumptions: []string{
			"theme palettes in d2themescatalog are data, not code under test",
			"an element with a theme class but no inline colour attribute (markdown div, sketch mode) is legitimate; only present inline colours are compared",
		},
	})
}

func c31RandColor(q *gen.R) string {
	named := []string{"red", "Blue", "GREEN", "rebeccapurple", "AliceBlue", "black", "white", "orange", "steelblue", "LightGoldenRodYellow"}
	switch q.Intn(3) {
	case 0:
		return gen.Pick(q, named)
	case 1:
		return fmt.Sprintf("#%03x", q.Intn(4096))
	}
	s := fmt.Sprintf("#%06x", q.Intn(1<<24))
	if q.P(0.5) {
		s = strings.ToUpper(s)
	}
	return s
}

func c31RandOv(q *gen.R) map[string]string {
	if q.P(0.2) {
		return nil
	}
	m := map[string]string{}
	p := []float64{0.1, 0.3, 0.6, 1.0}[q.Intn(4)]
	for _, c := range c31Codes {
		if q.P(p) {
			m[c] = c31RandColor(q)
		}
	}
	if len(m) == 0 {
		return nil
	}
	return m
}

func c31ConfigHeader(q *gen.R, in *c31In) string {
	var b strings.Builder
	b.WriteString("vars: {\n  d2-config: {\n")
	fmt.Fprintf(&b, "    theme-id: %d\n", in.Light)
	if in.Dark >= 0 {
		fmt.Fprintf(&b, "    dark-theme-id: %d\n", in.Dark)
	}
	if in.Sketch {
		b.WriteString("    sketch: true\n")
	}
	wr := func(key string, m map[string]string) {
		if len(m) == 0 {
			return
		}
		fmt.Fprintf(&b, "    %s: {\n", key)
		ks := make([]string, 0, len(m))
		for k := range m {
			ks = append(ks, k)
		}
		sort.Strings(ks)
		for _, k := range ks {
			kk := k
			if q.P(0.3) {
				kk = strings.ToLower(k)
			}
			fmt.Fprintf(&b, "      %s: %s\n", kk, gen.Quote(m[k]))
		}
		b.WriteString("    }\n")
	}
	wr("theme-overrides", in.Ov)
	wr("dark-theme-overrides", in.DarkOv)
	b.WriteString("  }\n}\n")
	return b.String()
}

func genC31(seed int64, tier string, emit func(run.Case)) {
	r := gen.New(seed)
	all := c3rThemeIDs(false)
	id := 0
	add := func(in c31In) {
		id++
		emit(run.MkCase(fmt.Sprintf("c%06d", id), in.Kind, in))
	}
	// css: full square, several override draws
	reps := tierN(tier, 2, 40)
	for rep := 0; rep < reps; rep++ {
		for _, l := range all {
			for _, d := range append([]int64{-1}, all...) {
				q := r.Sub(id)
				in := c31In{Kind: "css", Light: l, Dark: d, Ov: c31RandOv(q)}
				if d >= 0 {
					in.DarkOv = c31RandOv(q)
				}
				add(in)
			}
		}
	}
	// render: every theme as light (no dark) and as dark (random light), × diagrams
	nd := tierN(tier, 3, 60)
	for k := 0; k < nd; k++ {
		for _, t := range all {
			for _, asDark := range []bool{false, true} {
				q := r.Sub(1000000 + id)
				in := c31In{Kind: "render", Light: t, Dark: -1, Ov: c31RandOv(q), ViaConf: q.P(0.7), Sketch: q.P(0.1)}
				if asDark {
					in.Light, in.Dark, in.DarkOv = gen.Pick(q, all), t, c31RandOv(q)
				}
				header := ""
				if in.ViaConf {
					header = c31ConfigHeader(q, &in)
				}
				in.Text = gen.ThemeDiagram(q, gen.PlainText(q), header)
				add(in)
			}
		}
	}
	// unknown ids
	unknown := []int64{-1, -2, 2, 9, 99, 106, 199, 202, 299, 304, 1000, 1 << 40}
	for _, u := range unknown {
		for _, e := range []string{"compile", "render-light", "render-dark", "css-light", "css-dark", "config-light", "config-dark"} {
			for _, full := range []bool{false, true} {
				q := r.Sub(2000000 + id)
				in := c31In{Kind: "unknown", Entry: e, Light: u, Dark: -1}
				if strings.HasSuffix(e, "dark") {
					if u < 0 {
						continue // a negative dark id cannot be told from "none" in the case encoding
					}
					in.Light, in.Dark = gen.Pick(q, all), u
				}
				if full {
					ov := map[string]string{}
					for _, c := range c31Codes {
						ov[c] = c31RandColor(q)
					}
					if in.Dark >= 0 {
						in.DarkOv = ov
					} else {
						in.Ov = ov
					}
				}
				add(in)
			}
		}
	}
}

// c31Palette reads a theme's colour for a code (own switch; independent of
// d2themes.ResolveThemeColor).
func c31Palette(t d2themes.Theme, code string) string {
	c := t.Colors
	return map[string]string{
		"N1": c.Neutrals.N1, "N2": c.Neutrals.N2, "N3": c.Neutrals.N3, "N4": c.Neutrals.N4, "N5": c.Neutrals.N5, "N6": c.Neutrals.N6, "N7": c.Neutrals.N7,
		"B1": c.B1, "B2": c.B2, "B3": c.B3, "B4": c.B4, "B5": c.B5, "B6": c.B6,
		"AA2": c.AA2, "AA4": c.AA4, "AA5": c.AA5, "AB4": c.AB4, "AB5": c.AB5,
	}[code]
}

func c31CatalogTheme(id int64) (d2themes.Theme, bool) {
	for _, t := range append(append([]d2themes.Theme{}, d2themescatalog.LightCatalog...), d2themescatalog.DarkCatalog...) {
		if t.ID == id {
			return t, true
		}
	}
	return d2themes.Theme{}, false
}

func c31Expected(id int64, ov map[string]string) map[string]string {
	t, _ := c31CatalogTheme(id)
	m := map[string]string{}
	for _, c := range c31Codes {
		if v, ok := ov[c]; ok {
			m[c] = v
		} else {
			m[c] = c31Palette(t, c)
		}
	}
	return m
}

func c31ToOverrides(m map[string]string) *d2target.ThemeOverrides {
	if len(m) == 0 {
		return nil
	}
	o := &d2target.ThemeOverrides{}
	p := func(c string) *string {
		if v, ok := m[c]; ok {
			return &v
		}
		return nil
	}
	o.N1, o.N2, o.N3, o.N4, o.N5, o.N6, o.N7 = p("N1"), p("N2"), p("N3"), p("N4"), p("N5"), p("N6"), p("N7")
	o.B1, o.B2, o.B3, o.B4, o.B5, o.B6 = p("B1"), p("B2"), p("B3"), p("B4"), p("B5"), p("B6")
	o.AA2, o.AA4, o.AA5, o.AB4, o.AB5 = p("AA2"), p("AA4"), p("AA5"), p("AB4"), p("AB5")
	return o
}

var (
	c31RuleRe  = regexp.MustCompile(`\.([A-Za-z0-9_-]+)\s+\.(fill|stroke|background-color|color)-(N[1-7]|B[1-6]|AA[245]|AB[45])\s*\{\s*([a-z-]+)\s*:\s*([^;}]*);?\s*\}`)
	c31DarkRe  = regexp.MustCompile(`@media\s+screen\s+and\s+\(prefers-color-scheme:\s*dark\)\s*\{`)
	c31ClassRe = regexp.MustCompile(`^(fill|stroke|background-color|color)-(N[1-7]|B[1-6]|AA[245]|AB[45])$`)
)

// c31SplitDark separates css into the part outside and the part inside the
// prefers-color-scheme:dark block (brace matched). n = number of such blocks.
func c31SplitDark(css string) (light, dark string, n int) {
	for {
		loc := c31DarkRe.FindStringIndex(css)
		if loc == nil {
			return light + css, dark, n
		}
		n++
		light += css[:loc[0]]
		depth, i := 1, loc[1]
		for i < len(css) && depth > 0 {
			switch css[i] {
			case '{':
				depth++
			case '}':
				depth--
			}
			i++
		}
		end := i
		if depth == 0 {
			end = i - 1
		}
		dark += css[loc[1]:end]
		css = css[i:]
	}
}

// c31JudgeCSS checks one block of rules against want. where = "light" | "dark".
func c31JudgeCSS(res *run.Result, css, where string, want map[string]string, trig string) int {
	got := map[string][]string{}
	for _, m := range c31RuleRe.FindAllStringSubmatch(css, -1) {
		if m[2] != m[4] {
			res.Viol("C31.stylesheet-property", "C31.stylesheet-property:"+where, fmt.Sprintf("rule .%s-%s sets property %q", m[2], m[3], m[4]))
			continue
		}
		k := m[2] + "-" + m[3]
		got[k] = append(got[k], strings.TrimSpace(m[5]))
	}
	rules := 0
	for _, p := range c31Props {
		for _, c := range c31Codes {
			vs := got[p+"-"+c]
			rules += len(vs)
			switch {
			case len(vs) == 0:
				res.Viol("C31.stylesheet-rule-missing", "C31.stylesheet-rule-missing:"+where, fmt.Sprintf("no %s rule for .%s-%s", where, p, c))
			case len(vs) > 1:
				res.Viol("C31.stylesheet-rule-duplicate", "C31.stylesheet-rule-duplicate:"+where, fmt.Sprintf("%d %s rules for .%s-%s: %v", len(vs), where, p, c, vs))
			}
			for _, v := range vs {
				if v != want[c] {
					res.Viol("C31.stylesheet-colour", fmt.Sprintf("C31.stylesheet-colour:%s:%s", where, trig), fmt.Sprintf("%s rule .%s-%s has %q, expected %q", where, p, c, v, want[c]))
				}
			}
		}
	}
	res.Add("stylesheet_rules_checked_"+where, rules)
	return rules
}

// trigger class for signatures: is the code overridden or from the palette?
func c31Trig(ov map[string]string) string {
	if len(ov) == 0 {
		return "palette"
	}
	return "with-overrides"
}

func c31JudgeSheet(res *run.Result, css string, in c31In) int {
	light, dark, n := c31SplitDark(css)
	rules := c31JudgeCSS(res, light, "light", c31Expected(in.Light, in.Ov), c31Trig(in.Ov))
	switch {
	case in.Dark >= 0 && n != 1:
		res.Viol("C31.dark-block", "C31.dark-block:missing-or-repeated", fmt.Sprintf("dark theme %d requested but the stylesheet has %d prefers-color-scheme:dark blocks", in.Dark, n))
	case in.Dark < 0 && n != 0:
		res.Viol("C31.dark-block", "C31.dark-block:unrequested", "no dark theme requested but the stylesheet has a prefers-color-scheme:dark block")
	}
	if in.Dark >= 0 && n >= 1 {
		rules += c31JudgeCSS(res, dark, "dark", c31Expected(in.Dark, in.DarkOv), c31Trig(in.DarkOv))
	}
	return rules
}

func c31Opts(in c31In) *d2svg.RenderOpts {
	ro := &d2svg.RenderOpts{}
	if !in.ViaConf {
		ro.ThemeID = c3rPtr(in.Light)
		if in.Dark >= 0 {
			ro.DarkThemeID = c3rPtr(in.Dark)
		}
		if in.Sketch {
			ro.Sketch = c3rPtr(true)
		}
	}
	return ro
}

func execC31(c run.Case) (res run.Result) {
	var in c31In
	c.Decode(&in)
	res.Sample = map[string]any{"kind": in.Kind, "light": in.Light, "dark": in.Dark, "ov": len(in.Ov), "dark_ov": len(in.DarkOv), "entry": in.Entry}
	res.Inc("kind_" + in.Kind)
	var darkp *int64
	if in.Dark >= 0 {
		darkp = &in.Dark
	}
	switch in.Kind {
	case "css":
		css, err := d2svg.ThemeCSS("d2-hash", &in.Light, darkp, c31ToOverrides(in.Ov), c31ToOverrides(in.DarkOv))
		if err != nil {
			res.Viol("C31.valid-theme-rejected", "C31.valid-theme-rejected:ThemeCSS", fmt.Sprintf("ThemeCSS(light=%d,dark=%d,ov=%v,darkov=%v): %v", in.Light, in.Dark, in.Ov, in.DarkOv, err))
			return
		}
		res.Nontrivial = c31JudgeSheet(&res, css, in) >= 72
		res.Add("overrides_applied", len(in.Ov)+len(in.DarkOv))
	case "render":
		ro := c31Opts(in)
		// without a d2-config the overrides can only be handed over in RenderOpts (set
		// after Compile, which would overwrite them from a config)
		diagram, _, err := c3rCompile(in.Text, "dagre", ro)
		if err != nil {
			res.Inc("vacuous_compile_error")
			res.Inc("vacuous:" + c30ErrClass(err))
			return
		}
		if !in.ViaConf {
			ro.ThemeOverrides, ro.DarkThemeOverrides = c31ToOverrides(in.Ov), c31ToOverrides(in.DarkOv)
		}
		svg, err := d2svg.Render(diagram, ro)
		if err != nil {
			res.Inc("vacuous_render_error")
			res.Inc("vacuous:" + c30ErrClass(err))
			return
		}
		res.Nontrivial = c31JudgeDoc(&res, svg, in)
		res.Add("overrides_applied", len(in.Ov)+len(in.DarkOv))
		if in.ViaConf {
			res.Inc("render_via_d2_config")
		}
		if in.Sketch {
			res.Inc("render_sketch")
		}
	case "unknown":
		c31Unknown(&res, in)
		res.Nontrivial = true
	}
	return
}

// c31JudgeDoc parses the SVG: stylesheet(s) + inline colours.
func c31JudgeDoc(res *run.Result, svg []byte, in c31In) bool {
	d := xml.NewDecoder(bytes.NewReader(svg))
	d.Strict = true
	var css strings.Builder
	inStyle := 0
	var want map[string]string
	if in.Dark < 0 {
		want = c31Expected(in.Light, in.Ov)
	}
	for {
		tok, err := d.Token()
		if err != nil {
			break // well-formedness is C30's business
		}
		switch t := tok.(type) {
		case xml.StartElement:
			if t.Name.Local == "style" {
				inStyle++
			}
			var class string
			attr := map[string]string{}
			for _, a := range t.Attr {
				if a.Name.Space != "" {
					continue
				}
				if a.Name.Local == "class" {
					class = a.Value
				}
				attr[a.Name.Local] = a.Value
			}
			for _, cl := range strings.Fields(class) {
				m := c31ClassRe.FindStringSubmatch(cl)
				if m == nil {
					continue
				}
				res.Inc("drawing_uses_" + m[2])
				v, has := attr[m[1]]
				if !has {
					res.Inc("class_without_inline_attr:" + t.Name.Local)
					continue
				}
				if want == nil {
					res.Inc("inline_attr_with_dark_theme:" + t.Name.Local)
					continue
				}
				res.Inc("inline_attrs_checked")
				if v != want[m[2]] {
					res.Viol("C31.inline-colour", fmt.Sprintf("C31.inline-colour:%s:%s", t.Name.Local, c31Trig(in.Ov)), fmt.Sprintf("<%s class=%q> has %s=%q, expected %q for %s under theme %d", t.Name.Local, class, m[1], v, want[m[2]], m[2], in.Light))
				}
			}
		case xml.EndElement:
			if t.Name.Local == "style" {
				inStyle--
			}
		case xml.CharData:
			if inStyle > 0 {
				css.Write(t)
				css.WriteByte('\n')
			}
		}
	}
	return c31JudgeSheet(res, css.String(), in) >= 72
}

func c31Unknown(res *run.Result, in c31In) {
	if _, ok := c31CatalogTheme(in.Light); ok && in.Dark < 0 {
		res.Inconclusive = "harness: id is in the catalog"
		return
	}
	ov, dov := c31ToOverrides(in.Ov), c31ToOverrides(in.DarkOv)
	with := "no-overrides"
	if ov != nil || dov != nil {
		with = "full-overrides"
	}
	var darkp *int64
	if in.Dark >= 0 {
		darkp = &in.Dark
	}
	var err error
	switch in.Entry {
	case "compile":
		ro := &d2svg.RenderOpts{ThemeID: &in.Light}
		_, _, err = c3rCompile("a -> b", "dagre", ro)
	case "render-light", "render-dark":
		ro := &d2svg.RenderOpts{}
		diagram, _, cerr := c3rCompile("a -> b: hi\nc: {d}", "dagre", ro)
		if cerr != nil {
			res.Inconclusive = "harness: " + cerr.Error()
			return
		}
		ro = &d2svg.RenderOpts{ThemeID: &in.Light, DarkThemeID: darkp, ThemeOverrides: ov, DarkThemeOverrides: dov}
		_, err = d2svg.Render(diagram, ro)
	case "css-light", "css-dark":
		_, err = d2svg.ThemeCSS("d2-hash", &in.Light, darkp, ov, dov)
	case "config-light", "config-dark":
		// the id (and overrides) come from the diagram's own d2-config, nothing from flags
		in.ViaConf = true
		ro := &d2svg.RenderOpts{}
		var diagram *d2target.Diagram
		diagram, _, err = c3rCompile(c31ConfigHeader(gen.New(1), &in)+"a -> b: hi\nc: {d}", "dagre", ro)
		if err == nil {
			_, err = d2svg.Render(diagram, ro)
		}
	}
	res.Inc("unknown_ids_submitted")
	if err == nil {
		bad := in.Light
		if in.Dark >= 0 {
			bad = in.Dark
		}
		res.Viol("C31.unknown-theme-accepted", fmt.Sprintf("C31.unknown-theme-accepted:%s:%s", in.Entry, with), fmt.Sprintf("theme id %d is not in the catalog but %s succeeded (%s)", bad, in.Entry, with))
	} else {
		res.Inc("unknown_ids_rejected")
	}
}
