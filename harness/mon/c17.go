package mon

import (
	"fmt"
	"regexp"
	"strings"
	"time"

	"oss.terrastruct.com/d2/d2graph"

	"verif/gen"
	"verif/run"
)

// C17 — layout succeeds with finite geometry for every compilable diagram, both engines.
//
// Oracle (totality + well-formedness of the result, nothing about *where* things are):
//   - a program that d2compiler.Compile accepts must come out of the real pipeline
//     (d2lib.Compile: SetDimensions → LayoutNested(dagre|elk) → export, every board) without
//     error and without panic (PanicIsViolation; a worker death is attributed to the case);
//   - afterwards every object of every board has a non-nil TopLeft with finite coordinates and
//     finite Width, Height ≥ 0; every edge has a route of ≥ 2 finite points;
//   - d2svg.Render of every exported board succeeds and returns a non-empty document.
//
// Legitimate behaviour noted while reading the code: d2lib.Compile does not apply
// d2plugin.FeatureSupportCheck (the CLI does, *after* layout), so `top/left`, `near: <object>`,
// container dimensions under dagre and container→descendant edges under dagre reach the
// engines; they are generated in a separate sub-workload ("unsupported") whose violations carry
// the suffix `:engine-undeclared-feature` so that they are triaged separately — an engine that
// *errors* on a feature it does not declare is documented behaviour of the CLI, a *panic* is not.

func init() {
	run.Register(&run.Check{
		ID: "C17", Title: "Layout succeeds with finite geometry for every compilable diagram",
		LevelText:        "Exploration: generated compilable diagrams (gen.Diagram: containers ≤4 deep, all shapes, directions, label/icon positions, dimensions, 3d/multiple, grids, sequence diagrams, constant nears, class/sql_table, markdown/code/latex, arrowheads; half of them with hostile names: backtick, ${, quotes, backslashes, newlines, dots, arrows, RTL/astral/combining), a systematic hostile-symbol × position matrix, boards consisting only of constant-near shapes (every subset of the 8 constants up to size 3) and compilable repository scripts are laid out by the real pipeline with dagre and with ELK in crash-isolated workers; the monitor refutes on panic, worker death, layout/export/render error, nil or non-finite positions, negative or non-finite sizes, routes with fewer than two finite points.",
		Technique:        "runtime monitoring: totality oracle (panic / error / worker death) plus finiteness predicates over the laid-out graph and exported diagram, both bundled engines",
		DesignRef:        "§4 C17",
		Rule:             "cases: gen.Diagram programs (default, hostile, elk-only features, engine-undeclared features), hostile-symbol matrix, near-only boards (every root shape a constant near: all subsets of the 8 constants up to size 3 + larger random sets, as leaves/containers/grids/sequence diagrams, as root board and as layer), compilable corpus scripts; each under dagre or ELK; distinct by sha256(engine+text); non-trivial when the program compiled, layout ran on ≥2 objects and every finiteness predicate was evaluated",
		PanicIsViolation: true, HangIsViolation: true, CPUBudget: 300, Chunk: 4, MinNontrivial: 50,
		Gen:  genC17,
		Exec: execC17,
	})
}

func c17Opts(engine string, i int, r *gen.R) (gen.DiagramOpts, string) {
	switch i % 10 {
	case 0, 1, 2:
		return gen.DiagramOpts{}, "default"
	case 3, 4, 5, 6:
		return gen.DiagramOpts{Hostile: true}, "hostile"
	case 7:
		return gen.DiagramOpts{Hostile: true, Engine: engine, Grids: .4, Sequence: .25, Near: .5, RootSpecial: .2, SeqCross: .2, Boards: .15}, "special"
	case 8:
		return gen.DiagramOpts{Engine: engine, MinObjects: 15, MaxObjects: 45}, "large"
	}
	return gen.DiagramOpts{Hostile: r.P(0.5), Unsupported: true}, "unsupported"
}

func genC17(seed int64, tier string, emit func(run.Case)) {
	// systematic matrix: every hostile symbol inside an object name at three positions
	// (edge endpoint, container, grid cell), both engines.
	id := 0
	for _, eng := range []string{"dagre", "elk"} {
		syms := gen.HostileAlphabet
		for si, s := range syms {
			if eng == "elk" && tier != "thorough" && si%4 != int(seed%4+4)%4 {
				continue // ELK is 7× dearer: a quarter of the matrix per seed in the quick tier
			}
			n := gen.Quote("a" + s + "b")
			texts := []string{
				n + " -> c: " + gen.Quote("l"+s),
				"k: {" + n + " -> d\n}\n" + "k." + n + " -> e",
				"g: {grid-rows: 2\n" + n + "\nz\n}\n",
			}
			for _, t := range texts {
				id++
				emit(run.MkCase(fmt.Sprintf("m%s%04d", eng[:1], id), eng+"/matrix", layCase{Text: t, Engine: eng, Src: "matrix"}))
			}
		}
	}
	// escape-like names (what a JS string/template literal would interpret; with a double quote the
	// id is rendered single-quoted, i.e. with a raw backslash) and the witnesses of the
	// recorded findings as sentinels: if the way they fail changes, the signature changes
	for _, eng := range []string{"dagre", "elk"} {
		for _, s := range []string{"\\1", "\\x", "\\u12", "\\x\"", "\\1\"", "\\u\"z", "\\\"", "\\`", "${", "${1+1}", "\\${", "\\", "\\\\", "\r", "\u2028"} {
			id++
			emit(run.MkCase(fmt.Sprintf("x%s%04d", eng[:1], id), eng+"/matrix", layCase{Text: gen.Quote("a"+s) + " -> " + gen.Quote(s+"b") + "\n", Engine: eng, Src: "matrix"}))
		}
		if eng == "elk" && tier != "thorough" {
			continue
		}
		for _, t := range []string{"shape: sequence_diagram\ns -> k.p.k\n", "x: {\n shape: sequence_diagram\n h; e\n \"q.n\"\n g: {i: {e -> \"q.n\"}}\n}\n"} {
			id++
			emit(run.MkCase(fmt.Sprintf("s%s%04d", eng[:1], id), eng+"/sentinel", layCase{Text: t, Engine: eng, Src: "sentinel"}))
		}
	}
	layGenCases(seed, tier, 17, 330, 70, 40, c17Opts, emit)
	layNearOnlyCases(seed, tier, 1, emit)
	// repository scripts that compile (dagre only in quick; thorough adds ELK on a sample)
	r := gen.New(seed*31 + 17)
	cor := Corpus()
	nc := tierN(tier, 150, 2500)
	for i := 0; i < nc && len(cor) > 0; i++ {
		s := cor[r.Intn(len(cor))]
		if len(s) > 6000 {
			continue
		}
		eng := "dagre"
		if tier == "thorough" && i%8 == 0 {
			eng = "elk"
		}
		id++
		emit(run.MkCase(fmt.Sprintf("r%s%05d", eng[:1], id), eng+"/corpus", layCase{Text: s, Engine: eng, Src: "corpus"}))
	}
}

var (
	c17NumRe   = regexp.MustCompile(`[0-9]+`)
	c17QuoteRe = regexp.MustCompile("\"[^\"]*\"|'[^']*'|`[^`]*`")
)

// c17ErrClass reduces an error message to a stable class (no numbers, no quoted input).
func c17ErrClass(msg string) string {
	if i := strings.IndexByte(msg, '\n'); i >= 0 {
		msg = msg[:i]
	}
	if i := strings.Index(msg, "has invalid position with infinity value"); i >= 0 {
		msg = msg[:i] + "has invalid position with infinity value" // drop the coordinates (sign / Inf vary)
	}
	msg = c17QuoteRe.ReplaceAllString(msg, "Q")
	msg = c17NumRe.ReplaceAllString(msg, "N")
	msg = strings.Join(strings.Fields(msg), "-")
	if len(msg) > 90 {
		msg = msg[:90]
	}
	return msg
}

// c17HasUndeclared: the graph uses a feature the engine's plugin does not declare
// (independent re-statement of d2plugin.FeatureSupportCheck's rules).
func c17HasUndeclared(engine string, g *d2graph.Graph) bool {
	found := false
	var walk func(g *d2graph.Graph)
	walk = func(g *d2graph.Graph) {
		for _, o := range g.Objects {
			if o.Top != nil || o.Left != nil {
				found = true
			}
			if o.NearKey != nil && !layIsNearConst(o) {
				found = true
			}
			if engine == "dagre" && (o.WidthAttr != nil || o.HeightAttr != nil) && len(o.ChildrenArray) > 0 && !layIsGrid(o) {
				found = true
			}
		}
		if engine == "dagre" {
			for _, e := range g.Edges {
				if layIsSequenceEdge(e) || e.Src == nil || e.Dst == nil {
					continue
				}
				if len(e.Src.ChildrenArray) == 0 && len(e.Dst.ChildrenArray) == 0 {
					continue
				}
				if e.Src == e.Dst || e.Src.IsDescendantOf(e.Dst) || e.Dst.IsDescendantOf(e.Src) {
					found = true
				}
			}
		}
		for _, l := range [][]*d2graph.Graph{g.Layers, g.Scenarios, g.Steps} {
			for _, s := range l {
				walk(s)
			}
		}
	}
	walk(g)
	return found
}

// c17EdgeIDTrigger: some edge id (what dagre embeds in a JS template literal) contains a
// backtick or `${`.
func c17EdgeIDTrigger(g *d2graph.Graph) bool {
	hit := false
	var walk func(g *d2graph.Graph)
	walk = func(g *d2graph.Graph) {
		for _, e := range g.Edges {
			id := e.AbsID()
			if strings.Contains(id, "`") || strings.Contains(id, "${") {
				hit = true
			}
		}
		for _, l := range [][]*d2graph.Graph{g.Layers, g.Scenarios, g.Steps} {
			for _, s := range l {
				walk(s)
			}
		}
	}
	walk(g)
	return hit
}

// c17SpanWithoutMessage: a sequence diagram contains a span (descendant of an actor that is
// neither note nor group) with no children at which no message starts or ends. It arises when
// an edge path runs through a span and ends in a key that the compiler resolves to an actor
// (`s -> k.p.k`: the last k is the actor k, k.p is left behind).
func c17SpanWithoutMessage(g *d2graph.Graph) bool {
	hit := false
	c17Walk(g, func(g *d2graph.Graph) {
		for _, o := range g.Objects {
			if !layInSequence(o) || o.Parent == nil || o.Parent.IsSequenceDiagram() || len(o.ChildrenArray) > 0 {
				continue
			}
			if o.IsSequenceDiagramNote() || o.IsSequenceDiagramGroup() {
				continue
			}
			used := false
			for _, e := range g.Edges {
				if e.Src == o || e.Dst == o {
					used = true
				}
			}
			if !used {
				hit = true
			}
		}
	})
	return hit
}

// c17ActorCopyInGroup: inside a sequence diagram an edge endpoint below a group has the id
// of a top-level actor but is a different object, and the id needs quoting (hoistActor's
// DeleteField(f.Name.ScalarString()) re-parses the raw name as a key path).
func c17ActorCopyInGroup(g *d2graph.Graph) bool {
	hit := false
	c17Walk(g, func(g *d2graph.Graph) {
		for _, e := range g.Edges {
			for _, o := range []*d2graph.Object{e.Src, e.Dst} {
				if o == nil || !layInSequence(o) {
					continue
				}
				sd := o.OuterSequenceDiagram()
				if sd == nil || o.Parent == sd {
					continue
				}
				for _, a := range sd.ChildrenArray {
					if a != o && strings.EqualFold(a.ID, o.ID) && strings.ContainsAny(o.ID, "'\".") {
						hit = true
					}
				}
			}
		}
	})
	return hit
}

func c17Walk(g *d2graph.Graph, f func(*d2graph.Graph)) {
	f(g)
	for _, l := range [][]*d2graph.Graph{g.Layers, g.Scenarios, g.Steps} {
		for _, s := range l {
			c17Walk(s, f)
		}
	}
}

func c17ObjClass(o *d2graph.Object) string {
	switch {
	case layInSequence(o):
		return "in-sequence-diagram"
	case layNearRoot(o) != nil:
		return "in-constant-near"
	case layIsGridCell(o):
		return "grid-cell"
	case len(o.ChildrenArray) > 0:
		return "container"
	}
	return "leaf"
}

func execC17(c run.Case) (res run.Result) {
	var in layCase
	c.Decode(&in)
	res.Digest = laySha(in.Engine + "\x00" + in.Text)
	res.Sample = map[string]any{"engine": in.Engine, "src": in.Src, "text": trunc(in.Text, 400)}
	g0, _, err := compile(in.Text)
	if err != nil || g0 == nil {
		res.Inc("vacuous_does_not_compile_" + in.Src)
		return
	}
	res.Inc("compiled_" + in.Engine + "_" + in.Src)
	undeclared := c17HasUndeclared(in.Engine, g0)
	suffix := ""
	if undeclared {
		suffix = ":engine-undeclared-feature"
		res.Inc("with_engine_undeclared_feature")
	}
	nObj := len(g0.Objects)

	t0 := time.Now()
	d, g, err := layCompile(in.Engine, in.Text)
	res.Add("ms_layout_"+in.Engine+"_"+in.Src, int(time.Since(t0)/time.Millisecond))
	if err != nil {
		class := c17ErrClass(err.Error())
		scope := in.Engine // d2sequence runs before (and independently of) the core engine
		switch {
		case in.Engine == "dagre" && c17EdgeIDTrigger(g0) && (strings.Contains(err.Error(), "SyntaxError") || strings.Contains(err.Error(), "ReferenceError") || strings.Contains(err.Error(), "TypeError")):
			class = "edge-id-with-backtick-or-dollar-brace-in-js-template-literal"
		case strings.Contains(err.Error(), "invalid position with infinity value") && c17SpanWithoutMessage(g0):
			scope, class = "sequence", "infinite-position:span-without-message-or-child"
		case strings.Contains(err.Error(), "could not find center of") && c17ActorCopyInGroup(g0):
			scope, class = "sequence", "actor-not-found:quoted-actor-id-referenced-in-nested-edge-group"
		}
		res.Viol("C17.layout-error", "C17.layout-error:"+scope+":"+class+suffix,
			fmt.Sprintf("engine=%s: program compiles but the pipeline returned an error: %v\n--- text:\n%s", in.Engine, err, in.Text))
		return
	}
	if d == nil || g == nil {
		res.Viol("C17.nil-result", "C17.nil-result:"+in.Engine+suffix, "d2lib.Compile returned nil diagram/graph without error\n"+in.Text)
		return
	}
	boards := layBoards(d, g)
	checked := 0
	for _, b := range boards {
		layFeatures(b.G, res.Add)
		for _, o := range b.G.Objects {
			checked++
			if o.TopLeft == nil {
				res.Viol("C17.object-without-position", "C17.object-without-position:"+in.Engine+":"+c17ObjClass(o)+suffix,
					fmt.Sprintf("board %s object %q has nil TopLeft\n%s", b.Path, o.AbsID(), in.Text))
				continue
			}
			r := layObjRect(o)
			if !r.Finite() {
				res.Viol("C17.object-nonfinite", "C17.object-nonfinite:"+in.Engine+":"+c17ObjClass(o)+suffix,
					fmt.Sprintf("board %s object %q box %v\n%s", b.Path, o.AbsID(), r, in.Text))
			} else if r.W < 0 || r.H < 0 {
				res.Viol("C17.object-negative-size", "C17.object-negative-size:"+in.Engine+":"+c17ObjClass(o)+suffix,
					fmt.Sprintf("board %s object %q box %v\n%s", b.Path, o.AbsID(), r, in.Text))
			}
		}
		for _, e := range b.G.Edges {
			checked++
			kind := "edge"
			if layIsSequenceEdge(e) {
				kind = "sequence-message"
			}
			if len(e.Route) < 2 {
				res.Viol("C17.route-too-short", "C17.route-too-short:"+in.Engine+":"+kind+suffix,
					fmt.Sprintf("board %s edge %q has %d route points\n%s", b.Path, e.AbsID(), len(e.Route), in.Text))
				continue
			}
			for _, p := range e.Route {
				if p == nil || !layFinite(p.X) || !layFinite(p.Y) {
					res.Viol("C17.route-nonfinite", "C17.route-nonfinite:"+in.Engine+":"+kind+suffix,
						fmt.Sprintf("board %s edge %q has a nil/non-finite route point\n%s", b.Path, e.AbsID(), in.Text))
					break
				}
			}
		}
		// the export must mirror the graph one to one
		if len(b.D.Shapes) != len(b.G.Objects) || len(b.D.Connections) != len(b.G.Edges) {
			res.Viol("C17.export-count", "C17.export-count:"+in.Engine+suffix,
				fmt.Sprintf("board %s: %d objects/%d edges exported as %d shapes/%d connections", b.Path, len(b.G.Objects), len(b.G.Edges), len(b.D.Shapes), len(b.D.Connections)))
		}
		svg, err := layRender(b.D)
		if err != nil {
			res.Viol("C17.render-error", "C17.render-error:"+c17ErrClass(err.Error())+suffix,
				fmt.Sprintf("board %s: d2svg.Render failed: %v\n%s", b.Path, err, in.Text))
		} else if len(svg) == 0 || !strings.Contains(string(svg[:min(len(svg), 300)]), "<svg") {
			res.Viol("C17.render-empty", "C17.render-empty"+suffix, fmt.Sprintf("board %s: render returned %d bytes without <svg", b.Path, len(svg)))
		} else {
			res.Inc("rendered_boards")
		}
	}
	res.Add("boards", len(boards))
	res.Add("finiteness_predicates_evaluated", checked)
	res.Nontrivial = nObj >= 2 && checked > 0
	if !res.Nontrivial {
		res.Inc("vacuous_fewer_than_two_objects")
	}
	return
}
