package mon

// C32 — ASCII rendering is total and keeps labels visible.
//
// Workload: generated diagrams (gen.Diagram with the ELK feature set: all shapes,
// containers, grids, sequence diagrams, near objects, class/sql_table/code/markdown,
// connections with labels and arrowheads, self loops, layers; gen.ThemeDiagram with ASCII
// or Unicode text; small dense "plain" programs) laid out with ELK — the CLI switches to
// ELK for text output (d2cli/main.go compile: `if ext == TXT { layout = "elk" }`) — and
// rendered by d2ascii.NewASCIIartist().Render in both character sets, every board.
//
// Oracle:
//   - totality: a panic raised below d2ascii.(*ASCIIartist).Render is a violation (own
//     recover around the call, so that a panic in compile/layout — another property's
//     business — is only counted); a nil error is not demanded, an error return is counted;
//   - standard charset: every non-ASCII rune of the output occurs in some text of the
//     diagram (shape labels, class fields/methods, table columns, connection and arrowhead
//     labels) — "every character that is not part of a label is 7-bit ASCII"; with
//     ASCII-only texts this is: every output byte < 0x80;
//   - label visibility: for every leaf shape of type rectangle/square that was auto-sized
//     (no width/height), has the default label position, and whose label is one line of
//     printable ASCII: the label is a substring of some output line, in both charsets.
//     Containers, other shape types, explicit sizes/positions, multi-line and non-ASCII
//     labels (the canvas is indexed by byte offsets) are not judged (counted).
//
// Signatures of label failures carry a trigger class evaluated on the diagram (label wider
// than the laid-out box / label made of line-art characters / board has non-ASCII text /
// board has connection labels / board has connections / none) and the shape context
// (root / in-container / grid-cell / sequence) so that findings stay distinguishable.

import (
	"bytes"
	"fmt"
	"math"
	"runtime"
	"sort"
	"strings"
	"unicode/utf8"

	"verif/gen"
	"verif/run"

	"oss.terrastruct.com/d2/d2graph"
	"oss.terrastruct.com/d2/d2renderers/d2ascii"
	"oss.terrastruct.com/d2/d2renderers/d2ascii/charset"
	"oss.terrastruct.com/d2/d2renderers/d2svg"
	"oss.terrastruct.com/d2/d2target"
)

type c32In struct {
	Text string `json:"text"`
	Src  string `json:"src"`
}

func init() {
	run.Register(&run.Check{
		ID: "C32", Title: "ASCII rendering is total and keeps labels visible",
		LevelText:        "Exploration: generated diagrams (all shapes, containers, grids, sequence diagrams, class/sql_table/code/markdown, connections with labels and arrowheads, self loops, layers; ASCII and Unicode text) are laid out with ELK as the CLI does for text output and every board is rendered by d2ascii in the standard and the extended character set; the monitor refutes on a panic below d2ascii.Render, on a non-ASCII output rune in the standard set that occurs in no text of the diagram, and on a single-line ASCII label of an auto-sized rectangle/square leaf that is not a substring of any output line.",
		Technique:        "runtime monitoring: totality + output-alphabet + label-substring oracle over real ELK layouts rendered by d2ascii",
		DesignRef:        "§4 C32",
		Rule:             "cases: D2 programs from gen.Diagram(elk), gen.ThemeDiagram and a dense plain-shape generator; distinct by sha256 of the text; non-trivial when the diagram compiled, was laid out and rendered with ≥3 shapes and ≥1 connection",
		PanicIsViolation: true, Chunk: 4, CPUBudget: 600,
		Gen:  genC32,
		Exec: execC32,
		Assumptions: []string{
			"'plain shape' is read as a rectangle/square leaf with automatic size and default label position",
			"a panic during compile or ELK layout belongs to C07/C17 and is only counted here",
		},
	})
}

func c32Plain(q *gen.R) string {
	// many plain rectangles with varied single-line labels, chains and fans of edges
	var b strings.Builder
	n := q.Range(3, 12)
	if q.P(0.5) {
		fmt.Fprintf(&b, "direction: %s\n", q.Str("right", "down", "left", "up"))
	}
	label := func() string {
		switch q.Intn(6) {
		case 0:
			return strings.Repeat(q.Str("i", "l", ".", "W", "m", "1"), q.Range(1, 40))
		case 1:
			return gen.Name(q, false, 8) + " " + gen.Name(q, false, 8) + " " + gen.Name(q, false, 8)
		case 2:
			return q.Str("a", "-", "|", "+", "x y", "A.B", "(q)", "[z]", "100%", "a_b", "v", ">", "<", "^")
		}
		return gen.Name(q, false, 8)
	}
	for i := 0; i < n; i++ {
		fmt.Fprintf(&b, "p%d: %s", i, gen.Quote(label()))
		if q.P(0.2) {
			fmt.Fprintf(&b, " {shape: %s}", q.Str("square", "rectangle"))
		}
		if q.P(0.1) {
			fmt.Fprintf(&b, "\np%d.style.font-size: %d", i, q.Range(8, 40))
		}
		b.WriteByte('\n')
	}
	ne := q.Range(0, n+2)
	for i := 0; i < ne; i++ {
		fmt.Fprintf(&b, "p%d %s p%d", q.Intn(n), q.Str("->", "--", "<->", "<-"), q.Intn(n))
		if q.P(0.4) {
			fmt.Fprintf(&b, ": %s", gen.Quote(label()))
		}
		b.WriteByte('\n')
	}
	return b.String()
}

func genC32(seed int64, tier string, emit func(run.Case)) {
	r := gen.New(seed)
	n := tierN(tier, 240, 6000)
	for i := 0; i < n; i++ {
		q := r.Sub(i)
		var in c32In
		switch q.Intn(8) {
		case 0, 1, 2:
			in = c32In{Src: "diagram", Text: gen.Diagram(q, gen.DiagramOpts{Engine: "elk", Latex: -1, MaxObjects: 12})}
		case 3:
			in = c32In{Src: "diagram-small", Text: gen.Diagram(q, gen.DiagramOpts{Engine: "elk", Latex: -1, MaxObjects: 6, Boards: -1, Grids: -1, Sequence: -1})}
		case 4:
			in = c32In{Src: "theme-ascii", Text: gen.ThemeDiagram(q, gen.PlainText(q), "")}
		case 5:
			in = c32In{Src: "theme-unicode", Text: gen.ThemeDiagram(q, c47TextFn(q), "")}
		default:
			in = c32In{Src: "plain", Text: c32Plain(q)}
		}
		emit(run.MkCase(fmt.Sprintf("c%06d", i), in.Src, in))
	}
	for i, t := range []string{"a", "a -> b", "a -> a", "a: {b -> c}", "a: \"\"", "x: {shape: document}", "a -> b: hello\nb -> a: world", "a.b.c.d -> a.b.e"} {
		emit(run.MkCase(fmt.Sprintf("e%03d", i), "edge", c32In{Src: "edge", Text: t}))
	}
}

// c32Call runs f and converts a panic into (stack summary, innermost d2 frame).
func c32Call(f func()) (panicked bool, msg, frame string) {
	defer func() {
		if p := recover(); p != nil {
			panicked = true
			msg = fmt.Sprint(p)
			pcs := make([]uintptr, 64)
			k := runtime.Callers(3, pcs)
			fr := runtime.CallersFrames(pcs[:k])
			for {
				f, more := fr.Next()
				if strings.Contains(f.Function, "oss.terrastruct.com/d2/") && frame == "" {
					frame = f.Function[strings.LastIndex(f.Function, "/")+1:]
				}
				if !more {
					break
				}
			}
		}
	}()
	f()
	return
}

func c32PanicClass(msg string) string {
	switch {
	case strings.Contains(msg, "index out of range"):
		return "index-out-of-range"
	case strings.Contains(msg, "slice bounds"):
		return "slice-bounds"
	case strings.Contains(msg, "nil pointer"):
		return "nil-deref"
	case strings.Contains(msg, "makeslice"):
		return "makeslice"
	case strings.Contains(msg, "divide"):
		return "divide"
	}
	return "other"
}

func c32ASCIIPrintable(s string) bool {
	for i := 0; i < len(s); i++ {
		if s[i] < 0x20 || s[i] > 0x7e {
			return false
		}
	}
	return true
}

func execC32(c run.Case) (res run.Result) {
	var in c32In
	c.Decode(&in)
	res.Inc("src_" + in.Src)
	res.Sample = map[string]any{"src": in.Src, "text": trunc(in.Text, 300)}
	var root *d2target.Diagram
	var g *d2graph.Graph
	var err error
	if p, msg, frame := c32Call(func() { root, g, err = c3rCompile(in.Text, "elk", &d2svg.RenderOpts{}) }); p {
		res.Inc("crash_skipped_in_compile_or_layout")
		res.CrashSkipped = "compile/layout panic: " + trunc(msg, 100) + " @ " + frame
		return
	}
	if err != nil {
		res.Inc("vacuous_compile_error")
		res.Inc("vacuous:" + c30ErrClass(err))
		return
	}
	graphs := map[string]*d2graph.Graph{}
	var walk func(g *d2graph.Graph, d *d2target.Diagram)
	walk = func(g *d2graph.Graph, d *d2target.Diagram) {
		if g == nil || d == nil {
			return
		}
		graphs[fmt.Sprintf("%p", d)] = g
		for i := range d.Layers {
			if i < len(g.Layers) {
				walk(g.Layers[i], d.Layers[i])
			}
		}
		for i := range d.Scenarios {
			if i < len(g.Scenarios) {
				walk(g.Scenarios[i], d.Scenarios[i])
			}
		}
		for i := range d.Steps {
			if i < len(g.Steps) {
				walk(g.Steps[i], d.Steps[i])
			}
		}
	}
	walk(g, root)
	for bi, d := range c3rBoards(root) {
		if bi > 6 {
			break
		}
		c32Board(&res, d, graphs[fmt.Sprintf("%p", d)])
	}
	return
}

func c32Board(res *run.Result, d *d2target.Diagram, g *d2graph.Graph) {
	res.Inc("boards_rendered")
	if len(d.Shapes) >= 3 && len(d.Connections) >= 1 {
		res.Nontrivial = true
	}
	for _, s := range d.Shapes {
		res.Inc("shape_" + s.Type)
	}
	res.Add("connections", len(d.Connections))
	// texts of the diagram
	texts := map[rune]bool{}
	addText := func(s string) {
		for _, r := range s {
			texts[r] = true
		}
	}
	for _, s := range d.Shapes {
		addText(s.Label)
		for _, f := range s.Fields {
			addText(f.Name + f.Type + f.Visibility)
		}
		for _, m := range s.Methods {
			addText(m.Name + m.Return + m.Visibility)
		}
		for _, col := range s.Columns {
			addText(col.Name.Label + col.Type.Label + col.ConstraintAbbr())
		}
	}
	for _, cn := range d.Connections {
		addText(cn.Label)
		if cn.SrcLabel != nil {
			addText(cn.SrcLabel.Label)
		}
		if cn.DstLabel != nil {
			addText(cn.DstLabel.Label)
		}
	}
	outs := map[string][]byte{}
	for _, cs := range []struct {
		name string
		t    charset.Type
	}{{"standard", charset.ASCII}, {"extended", charset.Unicode}} {
		var out []byte
		var err error
		p, msg, frame := c32Call(func() {
			out, err = d2ascii.NewASCIIartist().Render(c3rCtx(), d, &d2ascii.RenderOpts{Charset: cs.t})
		})
		if p {
			res.Viol("C32.panic", fmt.Sprintf("C32.panic:%s@%s", c32PanicClass(msg), frame), fmt.Sprintf("d2ascii Render (%s charset) panicked: %s @ %s", cs.name, trunc(msg, 200), frame))
			continue
		}
		if err != nil {
			res.Inc("render_error_returned")
			continue
		}
		res.Inc("renders_" + cs.name)
		res.Add("output_bytes", len(out))
		outs[cs.name] = out
	}
	// standard charset alphabet
	if out, ok := outs["standard"]; ok {
		hasNonASCIIText := false
		for r := range texts {
			if r >= 0x80 {
				hasNonASCIIText = true
			}
		}
		bad := map[rune]int{}
		for i := 0; i < len(out); {
			r, sz := utf8.DecodeRune(out[i:])
			i += sz
			if r == utf8.RuneError {
				// a label cut in the middle of a multi-byte rune (e.g. a truncated column
				// type; the canvas then stores U+FFFD or the raw bytes): still part of a
				// label — counted, not judged — unless the diagram has no non-ASCII text
				if hasNonASCIIText {
					res.Inc("invalid_utf8_bytes_from_cut_labels")
					continue
				}
			}
			if r >= 0x80 && !texts[r] {
				bad[r]++
			}
		}
		if len(bad) > 0 {
			rs := make([]rune, 0, len(bad))
			for r := range bad {
				rs = append(rs, r)
			}
			sort.Slice(rs, func(i, j int) bool { return rs[i] < rs[j] })
			types := c32ShapeTypes(d)
			for _, r := range rs {
				sig := fmt.Sprintf("C32.non-ascii-in-standard-charset:U+%04X", r)
				if r == 0xE2 && strings.Contains(","+types+",", ",document,") {
					sig = "C32.non-ascii-in-standard-charset:document-shape-curve"
				}
				res.Viol("C32.non-ascii-in-standard-charset", sig, fmt.Sprintf("standard charset output contains %q (U+%04X) %d× which occurs in no text of the diagram; shapes present: %s", r, r, bad[r], types))
			}
		} else {
			res.Inc("standard_outputs_alphabet_ok")
		}
	}
	// label visibility
	if g == nil {
		res.Inc("vacuous_no_graph_for_board")
		return
	}
	boardNonASCII, boardConnLabels := false, false
	for r := range texts {
		if r >= 0x80 {
			boardNonASCII = true
		}
	}
	for _, cn := range d.Connections {
		if cn.Label != "" || cn.SrcLabel != nil && cn.SrcLabel.Label != "" || cn.DstLabel != nil && cn.DstLabel.Label != "" {
			boardConnLabels = true
		}
	}
	objs := map[string]*d2graph.Object{}
	for _, o := range g.Objects {
		objs[o.AbsID()] = o
	}
	for _, s := range d.Shapes {
		o := objs[s.ID]
		switch {
		case o == nil:
			res.Inc("label_unjudged:no-object")
			continue
		case s.Type != d2target.ShapeRectangle && s.Type != d2target.ShapeSquare:
			res.Inc("label_unjudged:other-shape")
			continue
		case len(o.ChildrenArray) > 0:
			res.Inc("label_unjudged:container")
			continue
		case s.Label == "":
			res.Inc("label_unjudged:empty")
			continue
		case strings.Contains(s.Label, "\n"):
			res.Inc("label_unjudged:multi-line")
			continue
		case !c32ASCIIPrintable(s.Label):
			res.Inc("label_unjudged:non-ascii")
			continue
		case o.WidthAttr != nil || o.HeightAttr != nil:
			res.Inc("label_unjudged:explicit-size")
			continue
		case o.LabelPosition != nil && s.LabelPosition != "INSIDE_MIDDLE_CENTER":
			res.Inc("label_unjudged:label-position")
			continue
		}
		ctx := "root"
		switch {
		case o.OuterSequenceDiagram() != nil:
			ctx = "in-sequence-diagram"
		case o.Parent != nil && o.Parent.IsGridDiagram():
			ctx = "grid-cell"
		case o.Parent != nil && o.Parent != g.Root:
			ctx = "in-container"
		}
		if o.Language != "" {
			ctx += "+language"
		}
		if s.Multiple {
			ctx += "+multiple"
		}
		if s.Icon != nil {
			ctx += "+icon"
		}
		// trigger class of a failure (evaluated on the diagram, not on the output)
		// trigger class of a failure: predicates on the diagram (not on the output), in
		// priority order
		trigger := "none:" + ctx
		switch {
		case len(s.Label)+2 > int(math.Round(float64(s.Width)/9.75)):
			// the renderer widens the box to len(label)+2 cells beyond its laid-out width
			trigger = "label-wider-than-laid-out-box"
		case strings.Trim(s.Label, "|-+<>^v.'`_/\\*oO@X~ ") == "":
			// the route drawer treats such cells as line art and redraws them
			trigger = "label-of-line-art-characters"
		case boardNonASCII:
			// the canvas is indexed by byte offsets: multi-byte text shifts/damages cells
			trigger = "board-has-non-ascii-text"
		case boardConnLabels:
			trigger = "board-has-connection-labels:" + ctx
		case len(d.Connections) > 0:
			trigger = "board-has-connections:" + ctx
		}
		names := make([]string, 0, len(outs))
		for name := range outs {
			names = append(names, name)
		}
		sort.Strings(names)
		for _, name := range names {
			out := outs[name]
			res.Inc("labels_judged_" + name)
			found := false
			for _, line := range bytes.Split(out, []byte("\n")) {
				if bytes.Contains(line, []byte(s.Label)) {
					found = true
					break
				}
			}
			if !found {
				how, where := c32Overwriter(out, s.Label, d)
				res.Viol("C32.label-missing", "C32.label-missing:"+trigger, fmt.Sprintf("label %q of %s %s (%dx%d at %d,%d; %s) is not a substring of any %s output line; best partial match %s (%s):\n%s", s.Label, s.Type, s.ID, s.Width, s.Height, s.Pos.X, s.Pos.Y, ctx, name, where, how, trunc(string(out), 1500)))
				break // one report per shape; the other charset fails alike
			}
		}
	}
}

// c32Overwriter explains a missing label from the output: the best alignment of the label
// against any output line and what stands in the cells that differ.
func c32Overwriter(out []byte, label string, d *d2target.Diagram) (how, where string) {
	lab := []rune(label)
	best, bestLine, bestPos := 0, -1, 0
	lines := strings.Split(string(out), "\n")
	for li, line := range lines {
		rs := []rune(line)
		for p := -len(lab) + 1; p < len(rs); p++ {
			m := 0
			for i, c := range lab {
				if p+i >= 0 && p+i < len(rs) && rs[p+i] == c && c != ' ' {
					m++
				}
			}
			if m > best {
				best, bestLine, bestPos = m, li, p
			}
		}
	}
	nonSpace := 0
	for _, c := range lab {
		if c != ' ' {
			nonSpace++
		}
	}
	if bestLine < 0 || best*2 < nonSpace {
		return "absent", "none"
	}
	rs := []rune(lines[bestLine])
	var diff []rune
	var got strings.Builder
	for i, c := range lab {
		ch := ' '
		if bestPos+i >= 0 && bestPos+i < len(rs) {
			ch = rs[bestPos+i]
		}
		got.WriteRune(ch)
		if ch != c {
			diff = append(diff, ch)
		}
	}
	where = fmt.Sprintf("line %d col %d reads %q", bestLine+1, bestPos+1, got.String())
	art := true
	for _, c := range diff {
		if !strings.ContainsRune("|-+<>^v.'`_/\\*oO@X~ ", c) && (c < 0x2190 || c > 0x25FF) {
			art = false
		}
	}
	if art {
		return "overwritten-by-line-art", where
	}
	var texts []string
	for _, cn := range d.Connections {
		texts = append(texts, cn.Label)
		if cn.SrcLabel != nil {
			texts = append(texts, cn.SrcLabel.Label)
		}
		if cn.DstLabel != nil {
			texts = append(texts, cn.DstLabel.Label)
		}
	}
	inConn := true
	for _, c := range diff {
		ok := strings.ContainsRune("|-+<>^v.'`_/\\ ", c) || c >= 0x2190 && c <= 0x25FF
		for _, t := range texts {
			if strings.ContainsRune(t, c) {
				ok = true
			}
		}
		if !ok {
			inConn = false
		}
	}
	if inConn {
		return "overwritten-by-connection-label", where
	}
	return "overwritten-by-other-text", where
}

func c32ShapeTypes(d *d2target.Diagram) string {
	m := map[string]bool{}
	for _, s := range d.Shapes {
		m[s.Type] = true
	}
	ks := make([]string, 0, len(m))
	for k := range m {
		ks = append(ks, k)
	}
	sort.Strings(ks)
	return strings.Join(ks, ",")
}
