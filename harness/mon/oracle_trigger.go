package mon

// Root-cause triggers for the d2oracle monitors (C36–C41).
//
// A known finding is identified by the *cause* that provokes it, not by its symptoms: a
// trigger is a predicate over the operation, its arguments and the pre-state element it
// addresses, evaluated BEFORE the edit is applied (orcRun stores it in orcStep.Trigger).
// Signatures are
//
//	<Cxx>.<trigger>:<clause>[:detail]        when a trigger holds (most specific first), or
//	<Cxx>.<clause>:no-known-trigger[:detail] otherwise — this form is never a known finding.
//
// known_findings.json has one entry per (property, root cause): "sig": "<Cxx>.<trigger>:*".
// Operations on which no trigger holds and that use plain arguments on the root board of a
// single-file program are "plain" (counted as plain_ops / plain_ops_judged): they are always
// judged strictly.

import (
	"strings"

	"verif/gen"
	"verif/run"
)

// orcSig renders a violation signature for a step.
func orcSig(s *orcStep, prop, clause, detail string) string {
	var sig string
	if s.Trigger != "" {
		sig = prop + "." + s.Trigger + ":" + clause
	} else {
		sig = prop + "." + clause + ":no-known-trigger"
	}
	if detail != "" {
		sig += ":" + detail
	}
	return sig
}

// orcJudged counts a judged operation (and plain ones separately).
func orcJudged(s *orcStep, res *run.Result, what string) {
	res.Inc("judged_" + what)
	if s.Plain {
		res.Inc("plain_ops_judged")
	}
}

func orcPlainText(v string) bool { return gen.IsPlainText(v) }

// orcPlain: root board, single file, every argument is a plain unquoted name / plain text.
func orcPlain(s *orcStep) bool {
	c := s.Call
	if len(c.Board) > 0 || len(s.Files) > 1 || c.Kind == "updateimport" {
		return false
	}
	plainKey := func(key string) bool {
		k := orcParseKey(key)
		if k.Err != nil || k.Odd != "" {
			return false
		}
		for _, seg := range [][]string{k.ObjRaw} {
			for _, x := range seg {
				if !gen.IsPlain(x) {
					return false
				}
			}
		}
		if k.Edge {
			for _, x := range append(append([]string{}, k.Src...), k.Dst...) {
				if !gen.IsPlain(x) {
					return false
				}
			}
		}
		return true
	}
	if !plainKey(c.Key) {
		return false
	}
	if c.Kind == "move" && !plainKey(c.NewKey) {
		return false
	}
	if c.Kind == "rename" && !strings.Contains(c.NewName, "(") && !gen.IsPlain(c.NewName) {
		return false
	}
	if c.Value != nil && !orcPlainText(*c.Value) && !orcNumberOrColor(*c.Value) {
		return false
	}
	if c.Tag != nil {
		return false
	}
	return true
}

func orcNumberOrColor(v string) bool {
	if v == "" {
		return false
	}
	for _, r := range v {
		switch {
		case r >= '0' && r <= '9', r == '.', r == '#', r >= 'a' && r <= 'z', r >= 'A' && r <= 'Z', r == '-', r == '/', r == ':':
		default:
			return false
		}
	}
	return true
}

// orcTrigger evaluates the trigger predicates in a fixed priority order (most specific
// first) and returns the first that holds. prop selects the few predicates that only
// concern one property.
func orcTrigger(s *orcStep, prop string) string {
	c := s.Call
	if c.Kind == "updateimport" {
		return ""
	}
	pre := s.Pre.snap(c.BoardIdx)
	nested := len(c.Board) > 0
	k := orcParseKey(c.Key)
	if k.Err != nil {
		return "key-does-not-parse"
	}
	if k.Odd != "" {
		// glob, `_`, ampersand, chain, keyword-named segment, empty …
		return "key-outside-addressable-domain"
	}
	if !k.Edge && len(k.Obj) == 0 {
		return "key-starts-with-reserved-keyword"
	}
	if c.Kind == "create" && (len(k.Attr) > 0 || len(k.EdgeAttr) > 0) {
		return "create-key-with-reserved-segment"
	}
	if k.Edge && k.Index == nil && c.Kind != "set" && c.Kind != "create" {
		return "key-is-connection-without-index"
	}
	t, te := -1, -1
	if k.Edge {
		te = pre.findEdge(k)
	} else {
		t = pre.findObj(k.Obj)
	}
	inSub := func(i int) bool { return t >= 0 && (i == t || pre.isDesc(i, t)) }

	// --- destination / new name -------------------------------------------------------
	var nk orcKey
	if c.Kind == "move" {
		nk = orcParseKey(c.NewKey)
		if nk.Err != nil || nk.Odd != "" || len(nk.Attr) > 0 || (!nk.Edge && len(nk.Obj) == 0) {
			return "reserved-or-unaddressable-segment-in-destination"
		}
		if !k.Edge && !nk.Edge && orcHasPrefix(nk.Obj, k.Obj) && len(nk.Obj) > len(k.Obj) {
			return "dst-inside-own-subtree"
		}
	}
	if c.Kind == "move" && !nk.Edge && len(nk.Obj) > 0 {
		norm := func(x string) string {
			return strings.ToLower(strings.NewReplacer("\"", "", "'", "").Replace(strings.TrimSpace(x)))
		}
		for _, ln := range strings.Split(s.Pre.Text, "\n") {
			tl := strings.TrimSpace(ln)
			if strings.HasSuffix(tl, ": null") && norm(strings.TrimSuffix(tl, ": null")) == norm(c.NewKey) {
				// the destination key is erased by a later `key: null` statement of the file
				return "destination-key-is-nulled-in-source"
			}
		}
		if len(nk.Obj) > 1 {
			if p := pre.findObj(nk.Obj[:len(nk.Obj)-1]); p >= 0 {
				if sh := strings.ToLower(pre.Objs[p].Shape); sh == "class" || sh == "sql_table" {
					// children of a class / table are fields: the moved object stops being an object
					return "destination-parent-is-class-or-sql-table"
				}
			}
		}
	}
	// --- imported / inherited ---------------------------------------------------------
	foreignUp := func(i int) bool { // the object or one of its containers is imported
		for ; i >= 0; i = pre.Objs[i].Parent {
			if pre.Objs[i].Foreign {
				return true
			}
		}
		return false
	}
	if (c.Kind == "create" || (c.Kind == "set" && t < 0)) && !k.Edge && len(k.Obj) > 1 {
		// a new object under an existing container that this file / board does not own
		for i := len(k.Obj) - 1; i >= 1; i-- {
			if p := pre.findObj(k.Obj[:i]); p >= 0 {
				if foreignUp(p) {
					return "parent-container-imported"
				}
				if nested && pre.Objs[p].Inherited {
					return "parent-container-inherited-from-base-board"
				}
				break
			}
		}
	}
	if t >= 0 {
		if foreignUp(t) {
			return "target-imported"
		}
		for i := range pre.Objs {
			if inSub(i) && pre.Objs[i].Foreign {
				return "target-imported"
			}
		}
	}
	if te >= 0 {
		e := pre.Edges[te]
		if e.Foreign || foreignUp(e.Src) || foreignUp(e.Dst) {
			return "endpoint-imported"
		}
	}
	if k.Edge && te < 0 {
		// new connection (Create / Set on an unindexed key) between objects this file does not own
		for _, pth := range [][]string{k.Src, k.Dst} {
			for i := len(pth); i >= 1; i-- {
				if p := pre.findObj(pth[:i]); p >= 0 {
					if foreignUp(p) {
						return "endpoint-imported"
					}
					break
				}
			}
		}
	}
	if c.Kind == "move" && !nk.Edge && len(nk.Obj) > 1 {
		if p := pre.findObj(nk.Obj[:len(nk.Obj)-1]); p >= 0 && pre.Objs[p].Foreign {
			return "destination-parent-imported"
		}
	}
	if c.Kind == "reconnect" {
		for _, p := range []*string{c.Src, c.Dst} {
			if p != nil {
				if pk := orcParseKey(*p); pk.Err == nil && !pk.Edge {
					if i := pre.findObj(pk.Obj); i >= 0 && pre.Objs[i].Foreign {
						return "endpoint-imported"
					}
				}
			}
		}
	}
	if nested {
		inh := false
		if t >= 0 {
			for i := range pre.Objs {
				if inSub(i) && pre.Objs[i].Inherited {
					inh = true
				}
			}
		}
		if te >= 0 && (pre.Edges[te].Inherited || pre.Objs[pre.Edges[te].Src].Inherited || pre.Objs[pre.Edges[te].Dst].Inherited) {
			inh = true
		}
		if inh {
			if prop == "C41" {
				// the cause differs per operation (each has its own unguarded write path) and per
				// way of inheriting: declared by a key of the base board, used there only as a
				// connection endpoint, or only a descendant of the target is inherited
				how := "descendant-inherited"
				switch {
				case t >= 0 && pre.Objs[t].InheritedKey:
					how = "element-declared-in-base-board"
				case t >= 0 && pre.Objs[t].Inherited:
					how = "element-only-connection-endpoint-in-base-board"
				case te >= 0:
					how = "connection-inherited-from-base-board"
				}
				return c.Kind + "-of-" + how
			}
			return "target-inherited-from-base-board"
		}
	}
	if nested && c.Kind == "move" && !nk.Edge && len(nk.Obj) > 1 {
		if p := pre.findObj(nk.Obj[:len(nk.Obj)-1]); p >= 0 && pre.Objs[p].Inherited {
			// the landing map of the destination container lies in the base board's AST
			return "move-into-container-inherited-from-base-board"
		}
	}
	// --- a new connection parallel to an existing one ------------------------------------
	if (c.Kind == "create" || (c.Kind == "set" && k.Index == nil)) && k.Edge {
		si, di := pre.findObj(k.Src), pre.findObj(k.Dst)
		for _, e := range pre.Edges {
			if si >= 0 && e.Src == si && e.Dst == di && e.SrcArrow == k.SrcArrow && e.DstArrow == k.DstArrow {
				// _set appends the new connection to the map of the common container, which may lie
				// above an existing parallel connection declared elsewhere: indices are reassigned
				return "create-of-connection-parallel-to-existing-one"
			}
		}
	}
	// --- label.near / icon.near vs near ---------------------------------------------------
	if c.Kind == "delete" && t >= 0 && len(k.Attr) >= 1 && k.Attr[len(k.Attr)-1] == "near" {
		_, lp := orcGet(pre.Objs[t].Attrs, "labelPosition")
		_, ip := orcGet(pre.Objs[t].Attrs, "iconPosition")
		n := 0
		if pre.Objs[t].NearRaw != "" {
			n++
		}
		if lp {
			n++
		}
		if ip {
			n++
		}
		if n >= 2 || (len(k.Attr) == 2 && pre.Objs[t].NearRaw != "") {
			// deleteMapField("near") removes every key named near: `near`, `label.near`, `icon.near`
			return "delete-of-near-attribute-while-another-near-exists"
		}
	}
	// --- attribute deletes that the API does not implement ----------------------------
	if c.Kind == "delete" {
		a := k.Attr
		if k.Edge {
			a = k.EdgeAttr
		}
		if len(a) == 1 && (a[0] == "label" || (a[0] == "shape" && !k.Edge)) {
			return "delete-of-label-or-shape-attribute"
		}
	}
	// --- names -------------------------------------------------------------------------
	if c.Kind == "rename" && t >= 0 {
		own := pre.Objs[t].IDVal
		if c.NewName != own && strings.EqualFold(c.NewName, own) {
			return "new-name-is-case-variant-of-own-name"
		}
		if !gen.IsPlain(c.NewName) {
			return "new-name-needs-quoting"
		}
		if len(k.Obj) > 1 && pre.findObj([]string{strings.ToLower(c.NewName)}) >= 0 {
			// Rename asks generateUniqueKey about the bare new name, i.e. at the board root
			return "rename-of-nested-object-to-name-that-exists-at-root"
		}
	}
	if c.Kind == "move" && t >= 0 && len(nk.ObjRaw) > 0 {
		last := nk.ObjRaw[len(nk.ObjRaw)-1]
		own := pre.Objs[t].IDVal
		if last != own && strings.EqualFold(last, own) {
			return "new-name-is-case-variant-of-own-name"
		}
		if !gen.IsPlain(last) && !strings.EqualFold(last, own) {
			return "new-name-needs-quoting"
		}
	}
	// --- rename-like Move of a container whose child's name is taken one level up ------------
	if c.Kind == "move" && t >= 0 && !c.Desc && len(nk.Obj) == len(k.Obj) && orcPathKey(nk.Obj[:len(nk.Obj)-1]) == orcPathKey(k.Obj[:len(k.Obj)-1]) {
		for _, ch := range pre.children(t) {
			for _, sib := range pre.children(pre.Objs[t].Parent) {
				if sib != t && strings.EqualFold(pre.Objs[sib].IDVal, pre.Objs[ch].IDVal) {
					// MoveIDDeltas computes hoisting conflicts whenever !includeDescendants, also
					// for a move within the same container, where the children stay with the object
					return "same-container-move-of-container-whose-child-name-is-taken-in-parent"
				}
			}
		}
	}
	// --- special shapes ----------------------------------------------------------------
	if t >= 0 && (c.Kind == "move" || c.Kind == "rename") {
		if sh := strings.ToLower(pre.Objs[t].Shape); sh == "class" || sh == "sql_table" {
			// move() treats the fields of a class / table as child objects
			return "target-is-class-or-sql-table"
		}
	}
	if t >= 0 && pre.Objs[t].DupAttr && (c.Kind == "set" || (c.Kind == "delete" && len(k.Attr) > 0)) {
		return "attribute-key-declared-twice-in-one-map"
	}
	// --- labels ------------------------------------------------------------------------
	if c.Kind == "set" && !k.Edge && len(k.Attr) == 0 && t >= 0 && pre.Objs[t].LabelKW {
		return "primary-label-shadowed-by-label-key"
	}
	if c.Kind == "set" && k.Edge && te >= 0 && pre.Edges[te].LabelKW &&
		(len(k.EdgeAttr) == 0 || (len(k.EdgeAttr) == 1 && k.EdgeAttr[0] == "label")) {
		return "connection-label-declared-by-label-key"
	}
	// --- connections -------------------------------------------------------------------
	if te >= 0 && c.Kind == "delete" && len(k.EdgeAttr) == 2 && (k.EdgeAttr[0] == "source-arrowhead" || k.EdgeAttr[0] == "target-arrowhead") {
		other := pre.Edges[te].DstHead
		if k.EdgeAttr[0] == "target-arrowhead" {
			other = pre.Edges[te].SrcHead
		}
		if v, ok := orcScalar(other, k.EdgeAttr[1]); ok && v != "" {
			// deleteMapField(field) removes `field` from every arrowhead map / flat arrowhead key
			return "delete-of-arrowhead-attribute-that-the-other-arrowhead-also-has"
		}
	}
	if te >= 0 {
		e := pre.Edges[te]
		if c.Kind == "set" || c.Kind == "delete" {
			if e.RefCount > 1 {
				return "connection-has-index-references"
			}
			if e.HeadMap {
				// _set takes "the first reference with a map" as the connection's own map
				return "connection-has-arrowhead-reference-with-map"
			}
		}
		if c.Kind == "reconnect" || c.Kind == "rename" || c.Kind == "move" {
			pairs := [][2]int{{e.Src, e.Dst}}
			if c.Kind == "reconnect" {
				ns, nd := e.Src, e.Dst
				if c.Src != nil {
					if pk := orcParseKey(*c.Src); pk.Err == nil {
						if i := pre.findObj(pk.Obj); i >= 0 {
							ns = i
						}
					}
				}
				if c.Dst != nil {
					if pk := orcParseKey(*c.Dst); pk.Err == nil {
						if i := pre.findObj(pk.Obj); i >= 0 {
							nd = i
						}
					}
				}
				pairs = append(pairs, [2]int{ns, nd})
				if orcIsAncestor(pre, ns, nd) || orcIsAncestor(pre, nd, ns) {
					return "reconnect-to-own-container-or-descendant"
				}
				if (c.Src != nil && ns == e.Src && *c.Src != pre.Objs[e.Src].AbsID) || (c.Dst != nil && nd == e.Dst && *c.Dst != pre.Objs[e.Dst].AbsID) {
					// the "new" endpoint is the current one, spelled differently (letter case)
					return "reconnect-to-current-endpoint-spelled-differently"
				}
				if len(k.Obj) > 0 {
					// the connection is declared inside a container: new endpoints are rewritten as
					// paths relative to that scope (pathFromScopeObj), the prediction uses absolute IDs
					return "reconnect-of-connection-scoped-in-container"
				}
			}
			for i, o := range pre.Edges {
				if i == te {
					continue
				}
				for _, p := range pairs {
					if (o.Src == p[0] && o.Dst == p[1]) || (o.Src == p[1] && o.Dst == p[0]) {
						return "parallel-connections-exist"
					}
				}
			}
			if e.InChain {
				return "connection-in-chain"
			}
			if e.RefCount > 1 {
				return "connection-has-index-references"
			}
		}
	}
	// --- connections declared with `_`-relative endpoints ---------------------------------
	if te >= 0 && pre.Edges[te].UnderscoreDecl && (c.Kind == "reconnect" || c.Kind == "rename" || c.Kind == "move") {
		// new endpoints are re-expressed relative to the declaring scope (pathFromScopeObj)
		return "connection-declared-with-underscore-endpoints"
	}
	if t >= 0 && (c.Kind == "move" || c.Kind == "rename" || c.Kind == "delete") && len(k.Attr) == 0 {
		for _, e := range pre.Edges {
			if e.UnderscoreDecl && e.Scope >= 0 && inSub(e.Scope) {
				// move()/hoistRefChildren recompute the `_` prefixes of statements inside the
				// relocated map (ResolveUnderscoreKey + pathFromScopeKey / bumpChildrenUnderscores)
				return "subtree-declares-connection-with-underscore-endpoints"
			}
		}
	}
	// --- objects named like a keyword ------------------------------------------------------
	if t >= 0 && (c.Kind == "move" || c.Kind == "rename" || c.Kind == "delete") && len(k.Attr) == 0 {
		for i := range pre.Objs {
			if strings.EqualFold(pre.Objs[i].IDVal, "near") {
				// updateNear treats every key whose last segment is `near` as a near attribute,
				// also the declaration of an object that is literally named "near"
				return "board-has-object-named-near"
			}
		}
	}
	// --- a quoted "_" as a name ----------------------------------------------------------
	if t >= 0 && (c.Kind == "delete" || c.Kind == "move" || c.Kind == "rename") {
		for i := range pre.Objs {
			if inSub(i) && pre.Objs[i].IDVal == "_" {
				// bumpChildrenUnderscores strips a leading `_` segment even when it is a quoted name
				return "subtree-has-object-named-underscore"
			}
		}
	}
	// --- near --------------------------------------------------------------------------
	if t >= 0 && (c.Kind == "delete" || c.Kind == "rename" || c.Kind == "move") && len(k.Attr) == 0 {
		if pre.NearKeyWithMap {
			return "near-key-with-map-in-board"
		}
		for i := range pre.Objs {
			if raw := pre.Objs[i].NearRaw; raw != "" {
				if j, ok := pre.byPath[orcPathKey(strings.Split(raw, "\x1f"))]; ok && inSub(j) {
					return "near-references-target"
				}
			}
		}
		// also a near statement that a later one overrides (updateNear walks the statements)
		for _, ln := range strings.Split(s.Pre.Text, "\n") {
			if i := strings.Index(ln, "near: "); i >= 0 {
				v := strings.Trim(strings.TrimSpace(ln[i+6:]), "'\"")
				if strings.EqualFold(v, pre.Objs[t].AbsID) || strings.EqualFold(v, pre.Objs[t].IDVal) {
					return "near-references-target"
				}
			}
		}
	}
	// --- how the source declares the target ---------------------------------------------
	if t >= 0 && (c.Kind == "delete" || c.Kind == "rename" || c.Kind == "move") && len(k.Attr) == 0 {
		to := pre.Objs[t]
		for _, ch := range pre.children(t) {
			if strings.EqualFold(pre.Objs[ch].IDVal, to.IDVal) {
				return "child-named-like-target"
			}
		}
		if c.Kind == "delete" {
			for _, e := range pre.Edges {
				if (e.Src == t && pre.isDesc(e.Dst, t)) || (e.Dst == t && pre.isDesc(e.Src, t)) {
					return "connection-between-target-and-own-descendant"
				}
			}
		}
		if p := to.Parent; p >= 0 && pre.Objs[p].RefEdgeOnly && len(pre.children(p)) == 1 {
			// the container exists only as the path prefix of the target inside connections
			return "parent-exists-only-as-path-prefix-of-target"
		}
		switch {
		case to.RefFlatAttr:
			return "target-has-flat-attribute-keys"
		case to.RefChainInner:
			return "target-inner-node-of-chain"
		case to.RefChain:
			return "target-in-chain"
		case to.RefMid:
			return "target-inner-segment-of-dotted-key"
		case to.RefDotted:
			return "target-leaf-of-dotted-key"
		case to.RefMulti:
			return "target-declared-more-than-once"
		case to.RefEdgeOnly:
			return "target-only-connection-endpoint"
		}
		// the same for the subtree that moves / is hoisted
		for i := range pre.Objs {
			if i != t && inSub(i) {
				o := pre.Objs[i]
				if o.RefFlatAttr || o.RefChain || o.RefMid || o.RefDotted || o.RefMulti || o.RefEdgeOnly {
					return "target-subtree-declared-by-dotted-or-repeated-keys"
				}
			}
		}
		if c.Kind == "move" && len(nk.Obj) > 1 {
			if p := pre.findObj(nk.Obj[:len(nk.Obj)-1]); p >= 0 {
				po := pre.Objs[p]
				if po.RefFlatAttr || po.RefChain || po.RefMid || po.RefDotted || po.RefMulti || po.RefEdgeOnly {
					return "destination-parent-declared-by-dotted-or-repeated-keys"
				}
			}
		}
	}
	// attribute edits (set / delete attribute) on unusually declared objects
	if t >= 0 && (c.Kind == "set" || (c.Kind == "delete" && len(k.Attr) > 0)) {
		to := pre.Objs[t]
		if to.ID != to.IDVal {
			return "object-id-needs-quoting"
		}
		if to.RefFlatAttr || to.RefChain || to.RefMid || to.RefDotted || to.RefMulti || to.RefEdgeOnly {
			return "attribute-edit-on-object-declared-by-dotted-or-repeated-keys"
		}
	}
	// --- `key: null` statements in the source --------------------------------------------
	// a `x: null` line for the target / an endpoint or one of their containers: what is
	// declared above that line is erased and partly resurrected by later references; the
	// reference lists d2oracle works on (obj.References, ensureNode's "persisting reference")
	// still contain the erased statements
	{
		var paths [][]string
		if t >= 0 {
			paths = append(paths, pre.Objs[t].Path)
		}
		if te >= 0 {
			paths = append(paths, pre.Objs[pre.Edges[te].Src].Path, pre.Objs[pre.Edges[te].Dst].Path)
		}
		if t < 0 && te < 0 && !k.Edge {
			paths = append(paths, k.Obj)
		}
		for _, ln := range strings.Split(s.Pre.Text, "\n") {
			tl := strings.TrimSpace(ln)
			if !strings.HasSuffix(tl, ": null") {
				continue
			}
			nkk := orcParseKey(strings.TrimSuffix(tl, ": null"))
			if nkk.Err != nil || nkk.Edge || len(nkk.Obj) == 0 {
				continue
			}
			last := nkk.Obj[len(nkk.Obj)-1]
			for _, pth := range paths {
				for _, seg := range pth {
					if seg == last {
						return "null-statement-for-target-or-its-container"
					}
				}
			}
		}
	}
	// --- quoting -----------------------------------------------------------------------
	for _, x := range k.ObjRaw {
		if !gen.IsPlain(x) {
			return "key-has-segment-that-needs-quoting"
		}
	}
	if k.Edge {
		for _, x := range append(append([]string{}, k.Src...), k.Dst...) {
			if !gen.IsPlain(x) {
				return "key-has-segment-that-needs-quoting"
			}
		}
	}
	if c.Kind == "set" && (c.Value == nil || c.Tag != nil) {
		return "set-with-nil-value-or-block-string-tag"
	}
	// --- boards ------------------------------------------------------------------------
	if nested && prop != "C41" {
		kinds := s.Pre.Boards[c.BoardIdx].Kinds
		if kd := kinds[len(kinds)-1]; kd == "scenarios" || kd == "steps" {
			return "addressed-board-is-scenario-or-step"
		}
		return "addressed-board-is-layer"
	}
	return ""
}

func orcIsAncestor(s *orcSnap, a, b int) bool { // a is a strict ancestor of b
	return a >= 0 && b >= 0 && s.isDesc(b, a)
}
