package mon

// C48 — files rewritten in place are never left partially written.
//
// Workload: the real `d2` binary (bin/d2) driven under tools/crashinj (ptrace, all
// threads, one global counter of file-system syscalls after execve):
//
//	fmt:    `d2 fmt f.d2` on unformatted inputs of 10 B … 1 MB (thorough 4 MB), also with
//	        two files on one command line, a directory argument and non-default modes;
//	render: `d2 --layout dagre in.d2 out.svg` (single board, no browser, no network)
//	        over an existing out.svg, incl. an output name so long that the temp-file
//	        name of the atomic write exceeds NAME_MAX (the documented non-atomic fallback).
//
// Per scenario: (0) two plain runs establish the complete new content (and that it is
// deterministic); (1) a recording pass lists the k file-system syscalls of the run;
// (2) for EVERY i in 1..k the scenario is set up afresh and the process is SIGKILLed
// while its i-th file-system syscall sits at the syscall-entry stop (it never executes).
// The pass is only judged if the (syscall, normalised path) sequence it produced up to i
// equals the recorded one (Go's scheduler / glibc can reorder start-up reads); a diverging
// pass is retried and finally counted inconclusive.
//
// Oracle: after the kill every target file is byte-equal to its complete old or its
// complete new content (a missing, empty, truncated or mixed file refutes).
//
// Signature: C48.partial:<cmd>:killed-before-<syscall>-<state>, state ∈ after-truncate
// (empty file), partial-new (strict prefix of the new content), missing, garbled.
// `cmd` distinguishes fmt / render / render-fallback.

import (
	"bytes"
	"encoding/json"
	"fmt"
	"os"
	"os/exec"
	"path/filepath"
	"regexp"
	"runtime"
	"sort"
	"strings"
	"sync"

	"verif/gen"
	"verif/run"
)

func init() {
	run.Register(&run.Check{
		ID: "C48", Title: "Files rewritten in place are never left partially written",
		Level:         "fault_enumeration",
		LevelText:     "Crash-point enumeration: for each generated scenario of `d2 fmt <file(s)>` (inputs 10 B…1 MB, thorough 4 MB) and of a single-board `d2 in.d2 out.svg` over an existing out.svg, the complete list of file-system syscalls of the run (openat, write, pwrite64, writev, close, rename*, unlink*, (f)truncate, f(data)sync, (f)chmod*, mkdir*, link*, symlink*) is recorded by a ptrace injector that follows all threads with one global counter, and the run is repeated once per syscall with the whole process SIGKILLed at that syscall's entry stop — every crash point of the observed run, not a sample. After each kill the target file must equal its complete old or complete new content.",
		LevelNote:     "Complete over the crash points 'just before the i-th file-system syscall' of the observed runs; a pass is judged only when its syscall sequence up to the kill point equals the recorded one. Not covered: kills between syscalls that are not file-system calls (equivalent for file content), power loss (page cache / fsync semantics), other inputs. Trusted base: ptrace semantics (a tracee killed at a syscall-entry stop does not execute the call), /proc fd links, the harness.",
		Technique:     "runtime monitoring: ptrace-based crash-point enumeration of the real d2 binary + old-or-new content oracle",
		DesignRef:     "§1, §4 C48",
		Rule:          "cases: one per (scenario, crash point i); scenarios are a fixed list per (seed, tier); distinct by (scenario, i); non-trivial when the process was killed at the planned syscall with an unchanged syscall prefix and the target content was judged",
		Needs:         []string{"d2", "tools"},
		Custom:        customC48,
		Exec:          execC48, // replay of one crash point
		MinNontrivial: 30,
		Assumptions: []string{
			"MALLOC_ARENA_MAX=1 and PATH=<empty dir> are set for the d2 process so that start-up reads (glibc arena sizing, plugin search in PATH) are the same in every pass",
		},
	})
}

type c48File struct {
	Name string      `json:"name"`
	Old  []byte      `json:"old"`
	Mode os.FileMode `json:"mode"`
}

type c48Scenario struct {
	ID      string    `json:"id"`
	Cmd     string    `json:"cmd"` // fmt | render | render-fallback
	Args    []string  `json:"args"`
	Files   []c48File `json:"files"`   // files written before the run
	Targets []string  `json:"targets"` // files judged (names relative to the scenario dir)
}

type c48Point struct {
	Scenario c48Scenario `json:"scenario"`
	I        int         `json:"i"`
	Call     string      `json:"call"` // recorded "name path" of the i-th syscall
}

// ---------------------------------------------------------------------------------
// scenario generator

func c48UnformattedD2(r *gen.R, size int) []byte {
	var sb strings.Builder
	i := 0
	for sb.Len() < size {
		i++
		switch r.Intn(6) {
		case 0:
			fmt.Fprintf(&sb, "a%d   ->  b%d:   lbl %d\n", i, r.Intn(50), i)
		case 1:
			fmt.Fprintf(&sb, "n%d:{shape:circle;   style.opacity:0.4}\n", i)
		case 2:
			fmt.Fprintf(&sb, "c%d:    {\n        x%d ->y%d\n  z\n}\n", i, i, i)
		case 3:
			fmt.Fprintf(&sb, "q%d ---> r%d ; s%d--t%d\n", i, i, i, i)
		case 4:
			fmt.Fprintf(&sb, "# comment   %d\n\n\n\nk%d.w:  'v %d'\n", i, i, i)
		default:
			fmt.Fprintf(&sb, "m%d: |md\n  # title %d\n|\n", i, i)
		}
	}
	b := []byte(sb.String())
	if size < 20 {
		b = []byte("a  ->b\n")
		if size <= 10 {
			b = []byte("a ---> b")
		}
	}
	return b
}

func c48DiagramD2(r *gen.R, shapes int) []byte {
	var sb strings.Builder
	for i := 0; i < shapes; i++ {
		switch r.Intn(4) {
		case 0:
			fmt.Fprintf(&sb, "s%d: Shape %d {shape: %s}\n", i, i, r.Str("rectangle", "circle", "diamond", "cylinder", "hexagon"))
		case 1:
			fmt.Fprintf(&sb, "g%d: {\n  a -> b: e%d\n  c\n}\n", i, i)
		default:
			fmt.Fprintf(&sb, "s%d -> s%d: l%d\n", r.Intn(shapes), r.Intn(shapes), i)
		}
	}
	return []byte(sb.String())
}

func c48Scenarios(seed int64, tier string) []c48Scenario {
	r := gen.New(seed)
	var out []c48Scenario
	fmtSizes := []int{10, 8 << 10, 1 << 20}
	renderShapes := []int{12}
	if tier == "thorough" {
		fmtSizes = []int{8, 10, 40, 300, 1000, 4095, 4096, 4097, 8 << 10, 32 << 10, 64 << 10, 65537, 200 << 10, 1 << 20, 4 << 20}
		renderShapes = []int{1, 3, 10, 40, 120}
	}
	for k, sz := range fmtSizes {
		q := r.Sub(k)
		mode := os.FileMode(0o644)
		if k%3 == 1 {
			mode = 0o600
		}
		if k%3 == 2 {
			mode = 0o755
		}
		out = append(out, c48Scenario{
			ID: fmt.Sprintf("fmt-%dB", sz), Cmd: "fmt", Args: []string{"fmt", "f.d2"},
			Files: []c48File{{Name: "f.d2", Old: c48UnformattedD2(q, sz), Mode: mode}}, Targets: []string{"f.d2"},
		})
	}
	{
		q := r.Sub(100)
		out = append(out, c48Scenario{
			ID: "fmt-two-files", Cmd: "fmt", Args: []string{"fmt", "a.d2", "sub/b.d2"},
			Files:   []c48File{{Name: "a.d2", Old: c48UnformattedD2(q, 500), Mode: 0o644}, {Name: "sub/b.d2", Old: c48UnformattedD2(q, 3000), Mode: 0o644}},
			Targets: []string{"a.d2", "sub/b.d2"},
		})
		if tier == "thorough" {
			out = append(out, c48Scenario{
				ID: "fmt-dir-index", Cmd: "fmt", Args: []string{"fmt", "proj"},
				Files:   []c48File{{Name: "proj/index.d2", Old: c48UnformattedD2(q, 700), Mode: 0o644}},
				Targets: []string{"proj/index.d2"},
			})
		}
	}
	for k, n := range renderShapes {
		q := r.Sub(200 + k)
		old := []byte("<svg>OLD CONTENT " + strings.Repeat("x", q.Range(10, 30000)) + "</svg>\n")
		out = append(out, c48Scenario{
			ID: fmt.Sprintf("render-%dshapes", n), Cmd: "render", Args: []string{"--layout", "dagre", "in.d2", "out.svg"},
			Files:   []c48File{{Name: "in.d2", Old: c48DiagramD2(q, n), Mode: 0o644}, {Name: "out.svg", Old: old, Mode: 0o644}},
			Targets: []string{"out.svg"},
		})
	}
	{
		q := r.Sub(300)
		// NAME_MAX is 255: "tmp-" + base + "-" + digits does not fit → AtomicWritePath
		// fails with ENAMETOOLONG and d2cli.Write falls back to a plain WriteFile.
		long := strings.Repeat("o", 246) + ".svg"
		out = append(out, c48Scenario{
			ID: "render-long-output-name", Cmd: "render-fallback", Args: []string{"--layout", "dagre", "in.d2", long},
			Files:   []c48File{{Name: "in.d2", Old: c48DiagramD2(q, 4), Mode: 0o644}, {Name: long, Old: []byte("<svg>OLD</svg>\n"), Mode: 0o644}},
			Targets: []string{long},
		})
	}
	return out
}

// ---------------------------------------------------------------------------------
// running

type c48Call struct {
	I     int    `json:"i"`
	Tid   int    `json:"tid"`
	Name  string `json:"name"`
	Path  string `json:"path"`
	Path2 string `json:"path2"`
	FdTo  string `json:"fd_to"`
	Flags uint64 `json:"flags"`
	Len   uint64 `json:"len"`
}

type c48Trace struct {
	Calls    []c48Call `json:"calls"`
	KilledAt int       `json:"killed_at"`
	Exit     int       `json:"exit"`
	Signal   int       `json:"signal"`
	Threads  int       `json:"threads"`
	Stops    int       `json:"syscall_stops"`
	Error    string    `json:"error"`
}

var (
	c48RePid = regexp.MustCompile(`/proc/[0-9]+`)
	c48ReTmp = regexp.MustCompile(`[0-9]{6,}`) // os.CreateTemp random suffixes
)

func (c c48Call) key(dir string) string {
	p := c.Path
	if p == "" {
		p = c.FdTo
	}
	if c.Path2 != "" {
		p += " -> " + c.Path2
	}
	p = strings.ReplaceAll(p, dir, "{D}")
	p = c48RePid.ReplaceAllString(p, "/proc/PID")
	p = c48ReTmp.ReplaceAllString(p, "N")
	p = strings.TrimSuffix(p, " (deleted)")
	return c.Name + " " + p
}

type c48Env struct {
	d2, inj, emptyPath, base string
}

func (e *c48Env) setup(sc *c48Scenario) (string, error) {
	dir, err := os.MkdirTemp(e.base, "s-")
	if err != nil {
		return "", err
	}
	for _, f := range sc.Files {
		p := filepath.Join(dir, f.Name)
		os.MkdirAll(filepath.Dir(p), 0o755)
		if err := os.WriteFile(p, f.Old, f.Mode); err != nil {
			return dir, err
		}
		os.Chmod(p, f.Mode)
	}
	return dir, nil
}

func (e *c48Env) env() []string {
	return []string{"PATH=" + e.emptyPath, "HOME=" + e.base, "BROWSER=0", "MALLOC_ARENA_MAX=1", "NO_COLOR=1", "TZ=UTC", "D2_LAYOUT=dagre"}
}

// plain runs the command without the injector.
func (e *c48Env) plain(sc *c48Scenario, dir string) error {
	cmd := exec.Command(e.d2, sc.Args...)
	cmd.Dir = dir
	cmd.Env = e.env()
	out, err := cmd.CombinedOutput()
	if err != nil {
		return fmt.Errorf("%v: %s", err, trunc(string(out), 400))
	}
	return nil
}

func (e *c48Env) inject(sc *c48Scenario, dir string, kill int) (*c48Trace, error) {
	tf := filepath.Join(dir, ".trace.json")
	args := []string{"-out", tf, "-dir", dir}
	if kill > 0 {
		args = append(args, "-kill", fmt.Sprint(kill))
	}
	args = append(args, "--", e.d2)
	args = append(args, sc.Args...)
	cmd := exec.Command(e.inj, args...)
	cmd.Env = e.env()
	cmd.Dir = dir
	out, err := cmd.CombinedOutput()
	b, rerr := os.ReadFile(tf)
	os.Remove(tf)
	if rerr != nil {
		return nil, fmt.Errorf("crashinj: %v %s", err, trunc(string(out), 300))
	}
	var t c48Trace
	if jerr := json.Unmarshal(b, &t); jerr != nil {
		return nil, jerr
	}
	if t.Error != "" {
		return &t, fmt.Errorf("crashinj: %s", t.Error)
	}
	return &t, nil
}

func c48ReadTargets(dir string, sc *c48Scenario) map[string][]byte {
	m := map[string][]byte{}
	for _, t := range sc.Targets {
		b, err := os.ReadFile(filepath.Join(dir, t))
		if err != nil {
			m[t] = nil
			continue
		}
		if b == nil {
			b = []byte{}
		}
		m[t] = b
	}
	return m
}

func c48Old(sc *c48Scenario, name string) []byte {
	for _, f := range sc.Files {
		if f.Name == name {
			return f.Old
		}
	}
	return nil
}

func customC48(d *run.Driver) {
	e := &c48Env{d2: filepath.Join(d.Root, "bin", "d2"), inj: filepath.Join(d.Root, "bin", "crashinj")}
	for _, b := range []string{e.d2, e.inj} {
		if _, err := os.Stat(b); err != nil {
			d.Inconclusive = append(d.Inconclusive, "missing binary "+b+" (run through ./check, which builds it)")
			return
		}
	}
	base, err := os.MkdirTemp("", "c48-")
	if err != nil {
		d.Inconclusive = append(d.Inconclusive, err.Error())
		return
	}
	defer os.RemoveAll(base)
	e.base = base
	e.emptyPath = filepath.Join(base, "emptybin")
	os.MkdirAll(e.emptyPath, 0o755)

	scs := c48Scenarios(d.Seed, d.Tier)
	workers := runtime.GOMAXPROCS(0)
	if workers > 16 {
		workers = 16
	}
	type job struct {
		sc   *c48Scenario
		i    int
		rec  []string // recorded keys
		news map[string][]byte
		call c48Call
	}
	var jobs []job
	scInfo := map[string]any{}
	// phase 0/1 per scenario (in parallel over scenarios)
	var wg sync.WaitGroup
	sem := make(chan struct{}, workers)
	var jmu sync.Mutex
	for si := range scs {
		sc := &scs[si]
		wg.Add(1)
		sem <- struct{}{}
		go func() {
			defer func() { <-sem; wg.Done() }()
			var sres run.Result
			feat := func(k string, n int) { sres.Add(k, n) }
			scase := run.MkCase(sc.ID+"/record", sc.Cmd, c48Point{Scenario: *sc})
			fail := func(msg string) {
				sres.Inconclusive = sc.ID + ": " + msg
				d.Record(scase, sres)
			}
			// (0) complete new content, twice
			var news [2]map[string][]byte
			for k := 0; k < 2; k++ {
				dir, err := e.setup(sc)
				if err != nil {
					fail("setup: " + err.Error())
					return
				}
				if err := e.plain(sc, dir); err != nil {
					fail("plain run failed: " + err.Error())
					os.RemoveAll(dir)
					return
				}
				news[k] = c48ReadTargets(dir, sc)
				os.RemoveAll(dir)
			}
			for _, t := range sc.Targets {
				if news[0][t] == nil || !bytes.Equal(news[0][t], news[1][t]) {
					fail("new content of " + t + " is not deterministic across two complete runs")
					return
				}
				if bytes.Equal(news[0][t], c48Old(sc, t)) {
					feat("vacuous_target_not_rewritten", 1)
				}
			}
			// (1) recording pass (twice: the list itself must be reproducible)
			var rec []string
			var calls []c48Call
			okRec := false
			for try := 0; try < 4 && !okRec; try++ {
				var lists [2][]string
				for k := 0; k < 2; k++ {
					dir, _ := e.setup(sc)
					tr, err := e.inject(sc, dir, 0)
					if err != nil || tr.Exit != 0 {
						fail(fmt.Sprintf("recording pass failed: %v", err))
						os.RemoveAll(dir)
						return
					}
					got := c48ReadTargets(dir, sc)
					for _, t := range sc.Targets {
						if !bytes.Equal(got[t], news[0][t]) {
							fail("recording pass produced different content for " + t)
							os.RemoveAll(dir)
							return
						}
					}
					for _, c := range tr.Calls {
						lists[k] = append(lists[k], c.key(dir))
					}
					if k == 0 {
						calls = tr.Calls
					}
					os.RemoveAll(dir)
				}
				if strings.Join(lists[0], "\n") == strings.Join(lists[1], "\n") {
					rec, okRec = lists[0], true
				} else {
					feat("recording_passes_diverged", 1)
				}
			}
			if !okRec {
				fail("the file-system syscall list is not reproducible across recording passes")
				return
			}
			feat("scenarios_recorded", 1)
			feat("syscalls_enumerated", len(rec))
			feat("syscalls_enumerated_"+sc.Cmd, len(rec))
			hist := map[string]int{}
			for _, c := range calls {
				hist[c.Name]++
				feat("syscall_"+c.Name, 1)
			}
			sres.Sample = map[string]any{"scenario": sc.ID, "fs_syscalls": len(rec), "list_tail": c48Tail(rec, 6)}
			d.Record(scase, sres)
			jmu.Lock()
			scInfo[sc.ID] = map[string]any{"fs_syscalls": len(rec), "by_name": hist, "targets": c48TruncNames(sc.Targets)}
			for i := 1; i <= len(rec); i++ {
				jobs = append(jobs, job{sc: sc, i: i, rec: rec, news: news[0], call: calls[i-1]})
			}
			jmu.Unlock()
		}()
	}
	wg.Wait()
	sort.Slice(jobs, func(a, b int) bool {
		if jobs[a].sc.ID != jobs[b].sc.ID {
			return jobs[a].sc.ID < jobs[b].sc.ID
		}
		return jobs[a].i < jobs[b].i
	})
	d.Logf("%d scenarios, %d crash points", len(scs), len(jobs))

	// (2) one kill pass per crash point
	jc := make(chan job)
	for w := 0; w < workers; w++ {
		wg.Add(1)
		go func() {
			defer wg.Done()
			for j := range jc {
				c, res := c48KillPass(e, j.sc, j.i, j.rec, j.news, j.call)
				d.Record(c, res)
			}
		}()
	}
	for _, j := range jobs {
		jc <- j
	}
	close(jc)
	wg.Wait()
	d.Extra["scenarios"] = scInfo
	d.Extra["strace_crosscheck"] = c48StraceCrossCheck(e, scs, scInfo)
	d.Extra["injector"] = "tools/crashinj: ptrace (TRACECLONE|TRACEFORK|TRACEVFORK|TRACEEXEC|TRACESYSGOOD|EXITKILL), PTRACE_GET_SYSCALL_INFO entry stops, one global counter over all threads; SIGKILL of the thread group at the entry stop of call i"
}

func c48TruncNames(xs []string) []string {
	var out []string
	for _, x := range xs {
		out = append(out, trunc(x, 40))
	}
	return out
}

func c48KillPass(e *c48Env, sc *c48Scenario, i int, rec []string, news map[string][]byte, call c48Call) (run.Case, run.Result) {
	c := run.MkCase(fmt.Sprintf("%s/%03d", sc.ID, i), sc.Cmd, c48Point{Scenario: *sc, I: i, Call: rec[i-1]})
	var res run.Result
	res.Digest = fmt.Sprintf("%s/%03d", sc.ID, i)
	var lastDiv string
	for try := 0; try < 5; try++ {
		dir, err := e.setup(sc)
		if err != nil {
			res.Inconclusive = "setup: " + err.Error()
			return c, res
		}
		tr, err := e.inject(sc, dir, i)
		if err != nil {
			os.RemoveAll(dir)
			res.Inconclusive = err.Error()
			return c, res
		}
		// the pass is judged only if it reproduced the recorded prefix and was killed at i
		div := ""
		if tr.KilledAt != i || len(tr.Calls) != i {
			div = fmt.Sprintf("killed_at=%d calls=%d exit=%d (wanted kill at %d)", tr.KilledAt, len(tr.Calls), tr.Exit, i)
		} else {
			for k := 0; k < i; k++ {
				if got := tr.Calls[k].key(dir); got != rec[k] {
					div = fmt.Sprintf("call %d is %q, recorded %q", k+1, got, rec[k])
					break
				}
			}
		}
		if div != "" {
			lastDiv = div
			res.Inc("kill_passes_diverged_retried")
			os.RemoveAll(dir)
			continue
		}
		res.Inc("kill_passes_judged")
		res.Inc("killed_before_" + call.Name)
		got := c48ReadTargets(dir, sc)
		// stray temp files (evidence only)
		if ents, err := os.ReadDir(dir); err == nil {
			for _, en := range ents {
				if strings.HasPrefix(en.Name(), "tmp-") || strings.Contains(en.Name(), ".tmp") {
					res.Inc("stray_temp_file_left")
				}
			}
		}
		os.RemoveAll(dir)
		for _, t := range sc.Targets {
			old, nw, g := c48Old(sc, t), news[t], got[t]
			switch {
			case g != nil && bytes.Equal(g, old):
				res.Inc("outcome_old")
			case g != nil && bytes.Equal(g, nw):
				res.Inc("outcome_new")
			default:
				state := "garbled"
				switch {
				case g == nil:
					state = "missing"
				case len(g) == 0:
					state = "after-truncate"
				case len(g) < len(nw) && bytes.HasPrefix(nw, g):
					state = "partial-new"
				}
				res.Inc("outcome_" + state)
				res.Viol("C48.partial", fmt.Sprintf("C48.partial:%s:killed-before-%s-%s", sc.Cmd, call.Name, state),
					fmt.Sprintf("scenario %s (d2 %s): killed at the entry of file-system syscall #%d of %d [%s] (tid %d, flags %#x, len %d); afterwards %s has %d bytes — neither the complete old (%d bytes) nor the complete new content (%d bytes).\nsyscalls before the kill:\n  %s",
						sc.ID, strings.Join(c48TruncNames(sc.Args), " "), i, len(rec), rec[i-1], call.Tid, call.Flags, call.Len, trunc(t, 40), len(g), len(old), len(nw), strings.Join(c48Tail(rec[:i], 8), "\n  ")))
			}
		}
		res.Nontrivial = true
		res.Sample = map[string]any{"scenario": sc.ID, "kill_at": i, "of": len(rec), "call": trunc(rec[i-1], 120)}
		return c, res
	}
	res.Inconclusive = fmt.Sprintf("%s crash point %d: syscall sequence diverged from the recording in 5 attempts (%s)", sc.ID, i, lastDiv)
	return c, res
}

func c48Tail(xs []string, n int) []string {
	if len(xs) > n {
		xs = xs[len(xs)-n:]
	}
	var out []string
	for _, x := range xs {
		out = append(out, trunc(x, 160))
	}
	return out
}

// execC48 replays one recorded crash point (./check C48 --replay f): it re-establishes
// the new content and the syscall list of the scenario and runs the one kill pass.
func execC48(c run.Case) (res run.Result) {
	var pt c48Point
	c.Decode(&pt)
	root := os.Getenv("VERIF_ROOT")
	if root == "" {
		root = "/verif"
	}
	e := &c48Env{d2: filepath.Join(root, "bin", "d2"), inj: filepath.Join(root, "bin", "crashinj")}
	base, err := os.MkdirTemp("", "c48r-")
	if err != nil {
		res.Inconclusive = err.Error()
		return
	}
	defer os.RemoveAll(base)
	e.base = base
	e.emptyPath = filepath.Join(base, "emptybin")
	os.MkdirAll(e.emptyPath, 0o755)
	sc := &pt.Scenario
	dir, err := e.setup(sc)
	if err != nil {
		res.Inconclusive = err.Error()
		return
	}
	if err := e.plain(sc, dir); err != nil {
		res.Inconclusive = "plain run: " + err.Error()
		return
	}
	news := c48ReadTargets(dir, sc)
	dir, _ = e.setup(sc)
	tr, err := e.inject(sc, dir, 0)
	if err != nil {
		res.Inconclusive = "recording pass: " + err.Error()
		return
	}
	var rec []string
	for _, cl := range tr.Calls {
		rec = append(rec, cl.key(dir))
	}
	if pt.I < 1 || pt.I > len(rec) {
		res.Inconclusive = fmt.Sprintf("crash point %d outside the recorded list (%d calls)", pt.I, len(rec))
		return
	}
	_, res = c48KillPass(e, sc, pt.I, rec, news, tr.Calls[pt.I-1])
	return
}

// c48StraceCrossCheck compares (evidence only, never a verdict) the per-name histogram of
// the injector's list with what `strace -f` reports for the first scenario.
func c48StraceCrossCheck(e *c48Env, scs []c48Scenario, scInfo map[string]any) string {
	st, err := exec.LookPath("strace")
	if err != nil || len(scs) == 0 {
		return "strace not available"
	}
	sc := &scs[0]
	info, ok := scInfo[sc.ID].(map[string]any)
	if !ok {
		return "first scenario was not recorded"
	}
	dir, err := e.setup(sc)
	if err != nil {
		return err.Error()
	}
	defer os.RemoveAll(dir)
	out := filepath.Join(e.base, "strace.txt")
	args := []string{"-f", "-qq", "-o", out, "-e", "trace=open,openat,openat2,creat,write,pwrite64,writev,pwritev,close,rename,renameat,renameat2,unlink,unlinkat,rmdir,truncate,ftruncate,fsync,fdatasync,chmod,fchmod,fchmodat,mkdir,mkdirat,link,linkat,symlink,symlinkat", e.d2}
	cmd := exec.Command(st, append(args, sc.Args...)...)
	cmd.Dir = dir
	cmd.Env = e.env()
	if err := cmd.Run(); err != nil {
		return "strace run failed: " + err.Error()
	}
	b, _ := os.ReadFile(out)
	hist := map[string]int{}
	for _, ln := range strings.Split(string(b), "\n") {
		f := strings.SplitN(strings.TrimSpace(ln), " ", 2)
		if len(f) < 2 {
			continue
		}
		rest := strings.TrimSpace(f[1])
		i := strings.IndexByte(rest, '(')
		if i <= 0 || strings.HasPrefix(rest, "<") || strings.HasPrefix(rest, "+") || strings.HasPrefix(rest, "-") {
			continue
		}
		if strings.Contains(rest, "anon_inode") {
			continue
		}
		hist[rest[:i]]++
	}
	want, _ := info["by_name"].(map[string]int)
	// strace cannot tell eventfd writes from file writes; compare the path-based calls and report both
	same := true
	for _, k := range []string{"openat", "rename", "renameat", "renameat2", "unlink", "unlinkat", "mkdir", "mkdirat", "fsync", "fchmod", "ftruncate"} {
		if hist[k] != want[k] {
			same = false
		}
	}
	return fmt.Sprintf("scenario %s: strace -f %v, injector %v, path-based calls agree=%v", sc.ID, hist, want, same)
}
