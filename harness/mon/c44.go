package mon

// C44 — watch mode always delivers the latest result to every client.
//
// Workload: the REAL d2cli watcher (built like d2cli.Run builds it: d2plugin.ListPlugins,
// layout unset => dagre, default render options), real fsnotify on a temp dir, real HTTP
// server on 127.0.0.1:0, real websocket clients, BROWSER=0. A history is a plan derived
// from the seed: version-stamped writes in three styles (truncate+write in one call,
// truncate … write with a gap, write-temp+rename), planned client connects/disconnects,
// failpoint delays, and three structured scenarios (a client held before its select while
// two broadcasts happen; a write landing while a compile is running; a client connecting
// after the last broadcast).
//
// Oracle: an event model over the totally ordered trace log (hooks, DESIGN.md §2.3) and
// the client-side receives. Nothing is decided on elapsed time: waits are for logged
// events, quiescence is a predicate over event counts
//   (#req-enter = #req-sent + #req-coalesced, #req-sent = #cl-wake, compile loop's last
//    event is cl-park; per registered client #sig-sent = #wl-wake and last event wl-park;
//    every connected client registered and #received = #written),
// and the wall-clock watchdog only makes a history inconclusive.
//
// Legitimate behaviours noted from watch.go:
//   - a client may be sent the same result twice (woken after it already read the new slot);
//   - a compile may read an empty file between truncate and write: such untagged results
//     are delivered like any other and are skipped by the version-order clause;
//   - the 10 s poll re-requests a compile after every change (lastModified is only
//     refreshed by the poll): extra compiles of the same content are fine.

import (
	"context"
	"encoding/json"
	"fmt"
	"sort"
	"strings"
	"time"

	"verif/gen"
	"verif/run"

	"oss.terrastruct.com/d2/d2cli"
)

func init() {
	run.Register(&run.Check{
		ID: "C44", Title: "Watch mode always delivers the latest result to every client",
		LevelText: "Exploration: seeded histories (5–30 version-stamped writes in 3 file-replacement styles, 1–6 real websocket clients connecting/disconnecting, failpoint sleeps/yields/gates between the watcher's critical sections) against the real watcher under the race detector; the interleavings seen are counted, not enumerated.",
		Technique: "runtime monitoring: event-log model checker (slot, wake-up and request accounting, per-client order, convergence at event-defined quiescence) + client-side receive order + goroutine-state stall oracle + race detector",
		DesignRef: "§4 C44, §2.3",
		Rule:      "one case = one history; non-trivial when ≥3 distinct versions were delivered to some client and ≥1 compile request was coalesced; distinct by plan",
		Race:      true, Needs: []string{"d2race"}, Chunk: 1, Workers: 10, CPUBudget: 3600, WallBudget: 6000, MinNontrivial: 3,
		Gen: genC44, Exec: execC44, Post: postC44,
		Assumptions: []string{
			"verdicts are decided on the logged event order and event-count quiescence, never on elapsed time; the watchdog (no event logged for 900 s, or one wait longer than 40 min) only yields inconclusive",
			"'eventually' is restated as: delivered by the time the system is quiescent after a compile request that follows the last completed write",
			"interleavings are those produced by the stress plan and failpoints; their number is reported, all interleavings are not claimed",
		},
	})
}

type c44Step struct {
	Op    string             `json:"op"` // write connect disconnect sleep arm release quiesce
	K     int                `json:"k,omitempty"`
	Kind  string             `json:"kind,omitempty"`  // err | ok
	Style string             `json:"style,omitempty"` // plain | trunc | rename
	Gap   int                `json:"gap,omitempty"`   // ms inside a trunc write
	After string             `json:"after,omitempty"` // await after a write: compile-begin compile-end bc-end hold
	C     int                `json:"c,omitempty"`
	Mode  string             `json:"mode,omitempty"` // close | abort
	Ms    int                `json:"ms,omitempty"`
	Point string             `json:"point,omitempty"`
	Act   *d2cli.VerifAction `json:"act,omitempty"`
	Late  bool               `json:"late,omitempty"`
}

type c44Plan struct {
	Init   string                       `json:"init"` // kind of v0
	Points map[string]d2cli.VerifAction `json:"points,omitempty"`
	Steps  []c44Step                    `json:"steps"`
	Rename bool                         `json:"rename,omitempty"`
	Proc   bool                         `json:"proc,omitempty"` // drive a real `d2 --watch` process (thorough)
	Tags   []string                     `json:"tags,omitempty"`
}

var c44PointNames = []string{"cl-after-wake", "bc-between", "wl-before-select", "hw-admitted", "hw-before-register", "hw-enter"}

func genC44(seed int64, tier string, emit func(run.Case)) {
	r := gen.New(seed)
	n := tierN(tier, 20, 400)
	for i := 0; i < n; i++ {
		q := r.Sub(i)
		p := c44GenPlan(q, tier, i, false)
		emit(run.MkCase(fmt.Sprintf("h%04d", i), strings.Join(p.Tags, "+"), p))
	}
	// thorough: the same plans (minus failpoints) against a real `d2 --watch` process
	// built with -race -tags verif that streams its trace to a file
	for i := 0; i < tierN(tier, 0, 48); i++ {
		q := r.Sub(100000 + i)
		p := c44GenPlan(q, tier, i, true)
		emit(run.MkCase(fmt.Sprintf("p%04d", i), strings.Join(p.Tags, "+"), p))
	}
}

func c44GenPlan(q *gen.R, tier string, i int, proc bool) c44Plan {
	p := c44Plan{Init: "err", Points: map[string]d2cli.VerifAction{}, Proc: proc}
	if q.P(0.2) {
		p.Init = "ok"
	}
	p.Rename = i%4 == 3 // a quarter of the histories use atomic-rename saves
	maxOK := 1
	nW := q.Range(5, 16)
	if tier == "thorough" {
		maxOK = 3
		nW = q.Range(5, 30)
	}
	for _, name := range c44PointNames {
		if q.P(0.35) && !proc {
			a := d2cli.VerifAction{Kind: "sleep", Ms: []int{1, 5, 20, 50}[q.Intn(4)], Every: 1 + q.Intn(3)}
			if q.P(0.25) {
				a = d2cli.VerifAction{Kind: "yield", Ms: 1 + q.Intn(4)}
			}
			p.Points[name] = a
		}
	}
	nCl := q.Range(1, 6)
	// client c connects before write index conAt[c]; optionally disconnects later
	type clPlan struct{ con, dis int }
	cls := make([]clPlan, nCl)
	for c := range cls {
		cls[c].con = q.Intn(nW)
		if c == 0 {
			cls[c].con = 0
		}
		cls[c].dis = -1
		if q.P(0.4) && c != 0 {
			cls[c].dis = cls[c].con + 1 + q.Intn(nW-cls[c].con)
		}
	}
	gateAt := -1
	if q.P(0.45) && nW >= 6 && !proc {
		gateAt = 1 + q.Intn(nW-4)
		p.Tags = append(p.Tags, "gate")
	}
	inflightAt := -1
	if q.P(0.6) && nW >= 6 && !proc {
		inflightAt = 1 + q.Intn(nW-2)
		if inflightAt == gateAt {
			inflightAt = gateAt + 1
		}
		p.Tags = append(p.Tags, "inflight")
	}
	okLeft := maxOK
	k := 0
	style := func() (string, int) {
		x := q.Intn(100)
		switch {
		case p.Rename && x < 50:
			return "rename", 0
		case x < 70:
			return "plain", 0
		case x < 85:
			return "trunc", 0
		default:
			return "trunc", []int{1, 5}[q.Intn(2)]
		}
	}
	kind := func() string {
		if okLeft > 0 && q.P(0.12) {
			okLeft--
			return "ok"
		}
		return "err"
	}
	after := func() (string, int) {
		switch q.Intn(10) {
		case 0:
			return "compile-begin", 0
		case 1:
			return "compile-end", 0
		case 2:
			return "bc-end", 0
		case 3:
			return "", 0
		case 4, 5:
			return "", 1
		case 6, 7:
			return "", 16
		default:
			return "", 50
		}
	}
	for w := 0; w < nW; w++ {
		for c := range cls {
			if cls[c].con == w {
				p.Steps = append(p.Steps, c44Step{Op: "connect", C: c})
			}
			if cls[c].dis == w {
				p.Steps = append(p.Steps, c44Step{Op: "disconnect", C: c, Mode: []string{"close", "abort"}[q.Intn(2)]})
			}
		}
		if w == inflightAt {
			// A broadcast lands while a client's write of the previous result is in flight:
			// hold one write loop between its slot read and its write, compile and broadcast
			// a newer version (its wake-up is queued), release. The client must go on to
			// read the slot again and deliver the newer version. Atomic-rename saves, so
			// that the 10 s poll does not re-broadcast by itself.
			p.Steps = append(p.Steps, c44Step{Op: "quiesce"})
			p.Steps = append(p.Steps, c44Step{Op: "arm", Point: "wl-before-write", Act: &d2cli.VerifAction{Kind: "gate", Count: 1}})
			k++
			p.Steps = append(p.Steps, c44Step{Op: "write", K: k, Kind: "err", Style: "rename", After: "hold-write"})
			k++
			p.Steps = append(p.Steps, c44Step{Op: "write", K: k, Kind: "err", Style: "rename", After: "bc-end"})
			p.Steps = append(p.Steps, c44Step{Op: "release", Point: "wl-before-write"})
			p.Steps = append(p.Steps, c44Step{Op: "quiesce"})
			continue
		}
		if w == gateAt {
			// client 0 is connected and never disconnects: somebody reaches the gate.
			// Hold one write loop before its select, broadcast twice (the second wake-up
			// must be coalesced, never block), release, converge.
			p.Steps = append(p.Steps, c44Step{Op: "quiesce"})
			p.Steps = append(p.Steps, c44Step{Op: "arm", Point: "wl-before-select", Act: &d2cli.VerifAction{Kind: "gate", Count: 1}})
			for j := 0; j < 3; j++ {
				k++
				st, g := style()
				a := "bc-end"
				if j == 0 {
					a = "hold"
				}
				p.Steps = append(p.Steps, c44Step{Op: "write", K: k, Kind: "err", Style: st, Gap: g, After: a})
			}
			p.Steps = append(p.Steps, c44Step{Op: "release", Point: "wl-before-select"})
			if a, ok := p.Points["wl-before-select"]; ok {
				aa := a
				p.Steps = append(p.Steps, c44Step{Op: "arm", Point: "wl-before-select", Act: &aa})
			}
			p.Steps = append(p.Steps, c44Step{Op: "quiesce"})
			continue
		}
		k++
		st, g := style()
		a, ms := after()
		p.Steps = append(p.Steps, c44Step{Op: "write", K: k, Kind: kind(), Style: st, Gap: g, After: a})
		if ms > 0 {
			p.Steps = append(p.Steps, c44Step{Op: "sleep", Ms: ms})
		}
		if q.P(0.12) {
			p.Steps = append(p.Steps, c44Step{Op: "quiesce"})
		}
	}
	// tail: a write that lands while the compile of the previous one is running
	if q.P(0.6) {
		p.Tags = append(p.Tags, "tail")
		kd := "err"
		if okLeft > 0 && q.P(0.5) {
			kd = "ok"
			okLeft--
		} else if _, has := p.Points["cl-after-wake"]; !has && !proc {
			p.Steps = append(p.Steps, c44Step{Op: "arm", Point: "cl-after-wake", Act: &d2cli.VerifAction{Kind: "sleep", Ms: 50}})
		}
		k++
		st, g := style()
		p.Steps = append(p.Steps, c44Step{Op: "write", K: k, Kind: kd, Style: st, Gap: g, After: "compile-begin"})
		k++
		st, g = style()
		fk := "err"
		if okLeft > 0 && q.P(0.3) {
			fk = "ok"
		}
		p.Steps = append(p.Steps, c44Step{Op: "write", K: k, Kind: fk, Style: st, Gap: g})
	}
	p.Steps = append(p.Steps, c44Step{Op: "quiesce"})
	if q.P(0.6) {
		p.Tags = append(p.Tags, "late")
		p.Steps = append(p.Steps, c44Step{Op: "connect", C: nCl, Late: true}, c44Step{Op: "quiesce"})
	}
	if p.Rename {
		p.Tags = append(p.Tags, "rename")
	}
	if proc {
		p.Tags = append(p.Tags, "proc")
	}
	if len(p.Tags) == 0 {
		p.Tags = []string{"plain"}
	}
	return p
}

type c44Obs struct {
	Cycles []string `json:"cycles"`
	Hist   string   `json:"hist"`
}

func execC44(c run.Case) (res run.Result) {
	var p c44Plan
	c.Decode(&p)
	var h *c44Env
	var err error
	if p.Proc {
		h, err = c44StartProc(&res, c44Content(0, p.Init))
		if h == nil && err == nil {
			res.Inc("vacuous_no_d2_race_binary")
			return
		}
	} else {
		h, err = c44Start("C44", &res, c44Content(0, p.Init), true)
	}
	if err != nil {
		res.Inconclusive = "cannot start watcher: " + err.Error()
		return
	}
	if !p.Proc {
		for name, a := range p.Points {
			d2cli.VerifSetPoint(name, a)
		}
		h.goRun()
	}
	quiesces, finalChecks := 0, 0
	knownDead := false
	blockedButCurrent := 0

	// watchLoop is inside ensureAddWatch("") (fsnotify event with an empty name): stat ""
	// always fails, so it retries for ever and processes no further event or poll tick.
	watchBlocked := func() bool { return h.m.watchRetry[""] > 0 || h.m.watchRetry["."] > 0 }

	// checkQuiescent waits for quiescence after a request that follows the last write and
	// evaluates the convergence clauses.
	checkQuiescent := func() {
		h.pump() // the h-write-done of the last write is in the log: consume it first
		want := fmt.Sprintf("v%d", h.m.lastWriteK)
		if h.m.lastWriteK < 0 {
			want = "v0"
		}
		blocked := false
		ok := h.waitFor("quiescence after the last write", func() bool {
			m := h.m
			if watchBlocked() {
				// watchLoop is inside ensureAddWatch("") which can never succeed
				// (stat "" always fails): it is blocked for good. State, not time.
				if q, _ := h.quiescent(); q {
					blocked = true
					return true
				}
				return false
			}
			q, _ := h.quiescent()
			if !q {
				return false
			}
			reqAfterWrite := m.lastReqEnterSeq > m.lastWriteSeq
			return reqAfterWrite || m.lastCompileTag == want
		})
		if !ok {
			return
		}
		quiesces++
		m := h.m
		// model self check against the real channel state
		if h.proc != nil {
			// no access to the channel state of another process
		} else if st := h.vw.State(); st.CompilePending != 0 {
			h.pump()
			if q, _ := h.quiescent(); q && h.vw.State().CompilePending != 0 {
				h.inconclusive("harness model says quiescent but compileCh is not empty")
				return
			}
		}
		if blocked {
			if m.lastCompileTag != want {
				res.Viol("C44.final-not-compiled", "C44.final-not-compiled:watchloop-blocked-retrying-empty-path",
					fmt.Sprintf("after the last write (%s) the system is quiescent with last compiled content %s: fsnotify delivered an event with an empty name (%d seen) and watchLoop is stuck in ensureAddWatch(\"\") retrying forever, so no further change or poll is ever processed.\nlast events:\n%s\nd2 log tail:\n%s", want, m.lastCompileTag, m.emptyNameEvents, h.tailEvents(25), h.tailLog(8)))
				knownDead = true
				h.aborted = true
			} else {
				// The last write happened to be compiled before the loop blocked; the
				// history goes on and a later write will show the loss.
				blockedButCurrent++
			}
			return
		}
		finalChecks++
		if m.lastReqEnterSeq > m.lastCompileBeginSeq {
			res.Viol("C44.request-lost", "C44.request-lost:no-compile-after-request", fmt.Sprintf("compile request (event #%d) was never followed by a compile (last compile-begin #%d) although the compile loop is parked with nothing pending\n%s", m.lastReqEnterSeq, m.lastCompileBeginSeq, h.tailEvents(30)))
		}
		if m.lastCompileTag != want {
			res.Viol("C44.final-not-compiled", "C44.final-not-compiled:request-after-last-write-did-not-compile-latest", fmt.Sprintf("input stopped changing at %s (write done at event #%d, request at #%d) but the last compile used %s\n%s", want, m.lastWriteSeq, m.lastReqEnterSeq, m.lastCompileTag, h.tailEvents(30)))
		}
		if c44ResTag(m.slot) != m.lastCompileTag {
			res.Viol("C44.slot-model", "C44.slot-model:slot-not-last-compile", fmt.Sprintf("slot holds %s, last compile produced %s", m.slot, m.lastCompileTag))
		}
		for _, cl := range h.connectedClients() {
			sc := m.byAddr[cl.addr]
			if sc == nil || sc.unreg {
				continue
			}
			rc := m.hrecv[cl.hid]
			last := "nothing"
			if len(rc) > 0 {
				last = rc[len(rc)-1]
			}
			if last != c44ResTag(m.slot) {
				trig := "connected-before-last-broadcast"
				if sc.regSlot == m.slot {
					trig = "connected-after-last-broadcast"
				}
				if sc.swallowed {
					// decided on state: write loop blocked in its select, resultsCh empty,
					// yet a wake-up sent after its last slot read was never followed by a read
					trig = "wakeup-consumed-without-slot-read"
				}
				res.Viol("C44.client-missed-final", "C44.client-missed-final:"+trig, fmt.Sprintf("at quiescence client %s (%s) last received %s but the latest result is %s\n%s", cl.hid, sc.id, last, m.slot, h.tailEvents(40)))
			}
			// trace vs boundary: what the server logged as written is what arrived
			if strings.Join(rc, ",") != strings.Join(sc.writes, ",") {
				res.Viol("C44.trace-mismatch", "C44.trace-mismatch:client-received-differs-from-server-writes", fmt.Sprintf("client %s received [%s], server wrote [%s]", cl.hid, strings.Join(rc, ","), strings.Join(sc.writes, ",")))
			}
		}
	}

	for _, st := range p.Steps {
		if h.aborted {
			break
		}
		switch st.Op {
		case "write":
			h.pump()
			baseBegin, baseEnd, baseBC := h.m.compileBegin, h.m.compileEnd, h.m.bcEnd
			if err := h.write(st.K, st.Kind, st.Style, st.Gap); err != nil {
				h.inconclusive("write failed: " + err.Error())
				break
			}
			res.Inc("writes_" + st.Style)
			res.Inc("writes_kind_" + st.Kind)
			switch st.After {
			case "compile-begin":
				h.waitFor("next compile-begin", func() bool { return h.m.compileBegin > baseBegin || watchBlocked() })
			case "compile-end":
				h.waitFor("next compile-end", func() bool { return h.m.compileEnd > baseEnd || watchBlocked() })
			case "bc-end":
				h.waitFor("next broadcast end", func() bool { return h.m.bcEnd > baseBC || watchBlocked() })
			case "hold", "hold-write":
				pt := "wl-before-select"
				if st.After == "hold-write" {
					pt = "wl-before-write"
				}
				h.waitFor("a write loop held at the "+pt+" gate and the compile loop parked", func() bool { return h.m.held[pt] > 0 && h.m.compileIdle() || watchBlocked() })
			}
		case "connect":
			cl, status, err := c44Dial(context.Background(), h.addr(), st.C, h.trace)
			if err != nil {
				h.inconclusive(fmt.Sprintf("dial failed (status %d): %v", status, err))
				break
			}
			h.clients[st.C] = cl
			res.Inc("client_connects")
			if st.Late {
				res.Inc("late_connects")
			}
		case "disconnect":
			if cl := h.clients[st.C]; cl != nil && !cl.isClosed() {
				cl.disconnect(st.Mode)
				res.Inc("client_disconnects_" + st.Mode)
			}
		case "sleep":
			time.Sleep(time.Duration(st.Ms) * time.Millisecond)
		case "arm":
			if !p.Proc {
				d2cli.VerifSetPoint(st.Point, *st.Act)
			}
		case "release":
			if !p.Proc {
				n := d2cli.VerifRelease(st.Point)
				res.Add("gate_holds", n)
			}
		case "quiesce":
			checkQuiescent()
		}
	}
	h.pump()
	hits := map[string]int{}
	if !p.Proc {
		hits = d2cli.VerifPointHits()
	}
	h.shutdown()
	h.flushViolations()

	m := h.m
	delivered := map[string]bool{}
	recvN := 0
	for _, rc := range m.hrecv {
		for _, t := range rc {
			if c44Ver(t) >= 0 {
				delivered[t] = true
			}
			recvN++
		}
	}
	versionsCompiled := 0
	for t := range m.compiled {
		if c44Ver(t) >= 0 {
			versionsCompiled++
		}
	}
	sigC := 0
	sigS := 0
	for _, c := range m.cls {
		sigC += c.sigCoal
		sigS += c.sigSent
	}
	res.Inc("histories")
	if p.Proc {
		res.Inc("histories_real_d2_watch_process")
	}
	res.Add("versions_written", m.writesDone)
	res.Add("versions_compiled_distinct", versionsCompiled)
	res.Add("versions_delivered_distinct", len(delivered))
	res.Add("versions_coalesced_away", max(0, m.writesDone+1-versionsCompiled))
	res.Add("compiles", m.compileEnd)
	res.Add("compiles_untagged_empty_file", m.compiled["-"])
	res.Add("requests", m.reqEnter)
	res.Add("requests_coalesced", m.reqCoal)
	res.Add("broadcasts", m.bcEnd)
	res.Add("wakeups_sent", sigS)
	res.Add("wakeups_coalesced", sigC)
	res.Add("slot_reads_checked", m.slotReads)
	res.Add("client_receives", recvN)
	res.Add("quiescence_points", quiesces)
	res.Add("convergence_checks", finalChecks)
	res.Add("fs_events", m.fsEvents)
	res.Add("fs_events_empty_name", m.emptyNameEvents)
	res.Add("poll_ticks", m.pollTicks)
	res.Add("events_logged", int(m.n))
	for k, v := range hits {
		res.Add("failpoint_hits_"+k, v)
	}
	res.Add("quiescence_with_watchloop_blocked_but_latest_compiled", blockedButCurrent)
	if knownDead {
		res.Inc("histories_cut_short_by_known_watchloop_block")
	}
	if finalChecks == 0 {
		res.Inc("vacuous_no_convergence_check")
	}
	res.Nontrivial = len(delivered) >= 3 && m.reqCoal >= 1 && finalChecks > 0
	var cyc []string
	for k := range m.cycles {
		cyc = append(cyc, k)
	}
	sort.Strings(cyc)
	ob, _ := json.Marshal(c44Obs{Cycles: cyc, Hist: c44Hash(strings.Join(m.hist, " "))})
	res.Obs = ob
	res.Sample = map[string]any{"tags": p.Tags, "steps": len(p.Steps), "failpoints": p.Points, "written": m.writesDone, "compiled": m.compileEnd,
		"coalesced_requests": m.reqCoal, "clients": len(h.clients), "delivered_versions": len(delivered), "events": m.n}
	return
}

func postC44(d *run.Driver, results []run.Result) {
	cycles := map[string]bool{}
	hists := map[string]bool{}
	for _, r := range results {
		var o c44Obs
		if json.Unmarshal(r.Obs, &o) != nil {
			continue
		}
		for _, c := range o.Cycles {
			cycles[c] = true
		}
		if o.Hist != "" {
			hists[o.Hist] = true
		}
	}
	d.Extra["distinct_interleaving_fingerprints_per_compile_cycle"] = len(cycles)
	d.Extra["distinct_interleaving_fingerprints_whole_history"] = len(hists)
	d.Extra["fingerprint_definition"] = "sequence of {req-sent/coalesced, cl-wake/park, compile-begin/end, bc-store, sig-sent/coalesced, bc-end, slot-read, wl-wake/park/write-end, register/unregister, admit, handler-exit} with clients renamed by first appearance and versions dropped; per compile cycle = from cl-wake to the next cl-park"
}
