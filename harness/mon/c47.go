package mon

// C47 — embedded font subsets cover every character drawn with them.
//
// Workload: gen.ThemeDiagram programs whose every text-bearing place (shape / container /
// edge / arrowhead / sequence labels, class fields and types, sql_table columns and types,
// code, markdown incl. headings/bold/italic/inline code, text shapes, titles, tooltips)
// holds random Unicode text (Latin-1, Latin Extended, Greek, Cyrillic, Hebrew, Arabic,
// Devanagari, Thai, punctuation, arrows, math, box drawing, CJK, Hangul, full-width, emoji,
// combining marks) mixed with ASCII; × text-transform, bold/italic/underline, font: mono ×
// themes (incl. Terminal = mono + caps-lock) × sketch (hand-drawn font); plus markdown
// with character entities.
//
// Oracle (independent of d2fonts / lib/font): the SVG is parsed; the embedded style sheets
// are parsed by a small CSS reader (font-family rules with tag/.class compound selectors
// and descendant/child combinators, specificity, source order, inheritance) and every
// @font-face data: URI is decoded (base64 → own WOFF1 reader → x/image/font/sfnt). For each
// drawn text node (character data below an SVG <text>, or below a <foreignObject>) the
// font family is resolved through the cascade. For every rune r drawn in an embedded
// family F: if the full font that F was cut from (d2fonts.FontFaces, identified by the
// family suffix -font-regular/-bold/-italic/-semibold/-mono/-mono-bold/-mono-italic and
// the diagram's font families) maps r to a glyph, the embedded subset must map r to a
// glyph too, and to a non-empty outline when the full font's outline is non-empty.
// XML white space (U+0020, tab, CR, LF) needs no glyph and is skipped. Text whose resolved
// family has no @font-face in the document is not "drawn with an embedded font" (counted).

import (
	"bytes"
	"encoding/base64"
	"encoding/xml"
	"fmt"
	"html"
	"regexp"
	"sort"
	"strings"
	"unicode"

	"golang.org/x/image/font"
	"golang.org/x/image/font/sfnt"
	"golang.org/x/image/math/fixed"

	"verif/gen"
	"verif/run"

	"oss.terrastruct.com/d2/d2renderers/d2fonts"
	"oss.terrastruct.com/d2/d2renderers/d2svg"
)

type c47In struct {
	Text   string `json:"text"`
	Theme  int64  `json:"theme"`
	Sketch bool   `json:"sketch,omitempty"`
	Dark   bool   `json:"dark,omitempty"`
}

func init() {
	run.Register(&run.Check{
		ID: "C47", Title: "Embedded fonts cover every character drawn with them",
		LevelText: "Exploration: generated diagrams with random Unicode text (20 script/symbol ranges mixed with ASCII) in every text-bearing place, with text transforms, bold/italic/mono styles, Terminal/mono themes and sketch mode, are compiled and rendered; every embedded @font-face is decoded (own WOFF1 reader → sfnt) and, for every drawn text node, the font family is resolved through an independent CSS cascade; each drawn rune that the full font maps to a glyph must be mapped (to a non-empty outline) by the embedded subset.",
		Technique: "runtime monitoring: independent WOFF/sfnt/CSS decode of real d2svg.Render output vs. the runes actually drawn per font family",
		DesignRef: "§4 C47",
		Rule:      "cases: (diagram text, theme, sketch, dark); distinct by sha256 of the case; non-trivial when ≥1 embedded font was decoded and ≥20 drawn runes (≥1 non-ASCII) were compared against it",
		Chunk:     8, CPUBudget: 300,
		Gen:  genC47,
		Exec: execC47,
		Assumptions: []string{
			"family suffix → font style mapping (-font-regular/-bold/-italic/-semibold/-mono…) identifies the full font a subset was cut from",
			"U+0020, tab, CR, LF need no glyph",
		},
	})
}

func c47TextFn(q *gen.R) gen.TextFn {
	return func(place string) string {
		switch q.Intn(10) {
		case 0, 1:
			return gen.PlainText(q)(place)
		case 2:
			return gen.PlainText(q)(place) + " " + gen.UnicodeText(q, 6)
		case 3:
			// characters the Latin fonts do have
			pool := []rune("ÀÉÎÕÜßçñøåæœŁłŠšŽžĞğİıΑΒΓΔΩαβγδπЖЩЫЯжщыя€£¥©®™°±×÷«»“”‘’–—…•→←↑↓≤≥≠∞√∑∂")
			n := q.Range(1, 10)
			var sb strings.Builder
			for i := 0; i < n; i++ {
				sb.WriteRune(pool[q.Intn(len(pool))])
			}
			return sb.String()
		}
		return gen.UnicodeText(q, 12)
	}
}

func genC47(seed int64, tier string, emit func(run.Case)) {
	r := gen.New(seed)
	n := tierN(tier, 260, 8000)
	themes := c3rThemeIDs(false)
	for i := 0; i < n; i++ {
		q := r.Sub(i)
		in := c47In{Theme: gen.Pick(q, themes)}
		switch q.Intn(6) {
		case 0:
			in.Theme = 300 // Terminal: mono + caps lock
		case 1:
			in.Theme = 301
		case 2:
			in.Sketch = true
		}
		in.Dark = q.P(0.15)
		in.Text = gen.ThemeDiagram(q, c47TextFn(q), "")
		if q.P(0.25) {
			in.Text += "ent: |md\n  # caf&eacute; &copy;\n  price &euro;5 &#x3a9; &#169; **&Uuml;ber** *na&iuml;ve* `&lt;&para;`\n|\n"
		}
		if q.P(0.2) {
			in.Text += fmt.Sprintf("lnk: %s {link: %s; tooltip: %s}\n", gen.Quote(gen.UnicodeText(q, 8)), gen.Quote("https://x.test/"+gen.UnicodeText(q, 6)), gen.Quote(gen.UnicodeText(q, 8)))
		}
		emit(run.MkCase(fmt.Sprintf("c%06d", i), "diagram", in))
	}
}

// ---------------------------------------------------------------- CSS (small subset)

type c47Compound struct {
	tag     string
	classes []string
	child   bool // combinator to the *previous* (left) compound is '>'
}

type c47FontRule struct {
	sel    []c47Compound // left → right
	spec   int           // specificity: classes*100 + tags
	order  int
	family string
}

var c47CommentRe = regexp.MustCompile(`(?s)/\*.*?\*/`)

// c47ParseCSS extracts font-family rules and @font-face sources.
func c47ParseCSS(css string, rules *[]c47FontRule, faces map[string]string, unparsed *int) {
	css = c47CommentRe.ReplaceAllString(css, "")
	i := 0
	for i < len(css) {
		ob := strings.IndexByte(css[i:], '{')
		if ob < 0 {
			return
		}
		prelude := strings.TrimSpace(css[i : i+ob])
		// matching close brace
		depth, j := 1, i+ob+1
		for j < len(css) && depth > 0 {
			switch css[j] {
			case '{':
				depth++
			case '}':
				depth--
			}
			j++
		}
		body := css[i+ob+1 : j-1]
		if depth != 0 {
			body = css[i+ob+1:]
		}
		i = j
		if k := strings.LastIndexAny(prelude, ";}"); k >= 0 {
			prelude = strings.TrimSpace(prelude[k+1:])
		}
		switch {
		case strings.HasPrefix(prelude, "@font-face"):
			fam, src := "", ""
			for _, d := range c47SplitDecls(body) {
				k, v, _ := strings.Cut(d, ":")
				switch strings.TrimSpace(k) {
				case "font-family":
					fam = c47Family(v)
				case "src":
					if a := strings.Index(v, "url("); a >= 0 {
						u := v[a+4:]
						if b := strings.IndexByte(u, ')'); b >= 0 {
							src = strings.Trim(strings.TrimSpace(u[:b]), `"'`)
						}
					}
				}
			}
			if fam != "" {
				faces[fam] = src
			}
		case strings.HasPrefix(prelude, "@media"):
			c47ParseCSS(body, rules, faces, unparsed)
		case strings.HasPrefix(prelude, "@"):
			// @keyframes etc.
		default:
			fam := ""
			for _, d := range c47SplitDecls(body) {
				k, v, _ := strings.Cut(d, ":")
				if strings.TrimSpace(k) == "font-family" {
					fam = c47Family(v)
				}
			}
			if fam == "" || fam == "inherit" {
				continue
			}
			for _, s := range strings.Split(prelude, ",") {
				sel, ok := c47ParseSelector(s)
				if !ok {
					*unparsed++
					continue
				}
				sp := 0
				for _, c := range sel {
					sp += 100 * len(c.classes)
					if c.tag != "" {
						sp++
					}
				}
				*rules = append(*rules, c47FontRule{sel: sel, spec: sp, order: len(*rules), family: fam})
			}
		}
	}
}

// c47SplitDecls splits declarations at ';' outside parentheses/quotes (data: URIs hold ';').
func c47SplitDecls(body string) []string {
	var out []string
	depth, start := 0, 0
	var quote byte
	for i := 0; i < len(body); i++ {
		c := body[i]
		switch {
		case quote != 0:
			if c == quote {
				quote = 0
			}
		case c == '"' || c == '\'':
			quote = c
		case c == '(':
			depth++
		case c == ')':
			depth--
		case c == ';' && depth == 0:
			out = append(out, body[start:i])
			start = i + 1
		}
	}
	return append(out, body[start:])
}

func c47Family(v string) string {
	v = strings.TrimSpace(v)
	v = strings.TrimSuffix(v, "!important")
	first, _, _ := strings.Cut(v, ",")
	return strings.Trim(strings.TrimSpace(first), `"'`)
}

func c47ParseSelector(s string) ([]c47Compound, bool) {
	s = strings.TrimSpace(s)
	if s == "" || strings.ContainsAny(s, ":[*#+~") {
		return nil, false
	}
	s = strings.ReplaceAll(s, ">", " > ")
	var out []c47Compound
	child := false
	for _, tok := range strings.Fields(s) {
		if tok == ">" {
			child = true
			continue
		}
		parts := strings.Split(tok, ".")
		c := c47Compound{tag: strings.ToLower(parts[0]), child: child}
		for _, p := range parts[1:] {
			if p == "" {
				return nil, false
			}
			c.classes = append(c.classes, p)
		}
		out = append(out, c)
		child = false
	}
	return out, len(out) > 0
}

type c47El struct {
	tag     string
	classes map[string]bool
}

func (c c47Compound) matches(e c47El) bool {
	if c.tag != "" && c.tag != e.tag {
		return false
	}
	for _, k := range c.classes {
		if !e.classes[k] {
			return false
		}
	}
	return true
}

// c47Match: does selector sel match the last element of stack?
func c47Match(sel []c47Compound, stack []c47El) bool {
	if len(sel) == 0 || len(stack) == 0 || !sel[len(sel)-1].matches(stack[len(stack)-1]) {
		return false
	}
	if len(sel) == 1 {
		return true
	}
	rest, anc := sel[:len(sel)-1], stack[:len(stack)-1]
	if sel[len(sel)-1].child {
		return c47Match(rest, anc)
	}
	for k := len(anc); k >= 1; k-- {
		if c47Match(rest, anc[:k]) {
			return true
		}
	}
	return false
}

// c47Resolve returns the font family of text directly inside the last element of stack.
func c47Resolve(rules []c47FontRule, stack []c47El) string {
	for k := len(stack); k >= 1; k-- {
		best := -1
		for i, r := range rules {
			if !c47Match(r.sel, stack[:k]) {
				continue
			}
			if best < 0 || r.spec > rules[best].spec || r.spec == rules[best].spec && r.order > rules[best].order {
				best = i
			}
		}
		if best >= 0 {
			return rules[best].family
		}
	}
	return ""
}

// ---------------------------------------------------------------- fonts

type c47Font struct {
	f   *sfnt.Font
	buf sfnt.Buffer
}

func c47ParseFont(b []byte) (*c47Font, error) {
	f, err := sfnt.Parse(b)
	if err != nil {
		return nil, err
	}
	return &c47Font{f: f}, nil
}

// glyph reports whether r is mapped and whether the mapped outline is non-empty.
func (f *c47Font) glyph(r rune) (mapped, outline bool) {
	gi, err := f.f.GlyphIndex(&f.buf, r)
	if err != nil || gi == 0 {
		return false, false
	}
	segs, err := f.f.LoadGlyph(&f.buf, gi, fixed.I(64), nil)
	return true, err == nil && len(segs) > 0
}

func (f *c47Font) name() string {
	n, err := f.f.Name(&f.buf, sfnt.NameIDFull)
	if err != nil {
		return ""
	}
	return n
}

var _ = font.HintingNone

// c47FullFont returns the full face a family name stands for.
func c47FullFont(family string, base, mono d2fonts.FontFamily) (d2fonts.Font, bool) {
	i := strings.LastIndex(family, "-font-")
	if i < 0 {
		return d2fonts.Font{}, false
	}
	switch family[i+len("-font-"):] {
	case "regular":
		return base.Font(0, d2fonts.FONT_STYLE_REGULAR), true
	case "bold":
		return base.Font(0, d2fonts.FONT_STYLE_BOLD), true
	case "italic":
		return base.Font(0, d2fonts.FONT_STYLE_ITALIC), true
	case "semibold":
		return base.Font(0, d2fonts.FONT_STYLE_SEMIBOLD), true
	case "mono":
		return mono.Font(0, d2fonts.FONT_STYLE_REGULAR), true
	case "mono-bold":
		return mono.Font(0, d2fonts.FONT_STYLE_BOLD), true
	case "mono-italic":
		return mono.Font(0, d2fonts.FONT_STYLE_ITALIC), true
	}
	return d2fonts.Font{}, false
}

var c47EntityRe = regexp.MustCompile(`&(#[xX]?[0-9a-fA-F]+|[A-Za-z][A-Za-z0-9]*);`)

func c47RuneClass(r rune) string {
	switch {
	case r >= 0x10000:
		return "astral"
	case r == 0xA0:
		return "nbsp"
	case unicode.IsSpace(r):
		return "space"
	case unicode.Is(unicode.Cf, r):
		return "format"
	case unicode.IsControl(r):
		return "control"
	case unicode.IsLetter(r):
		if r < 0x80 {
			return "ascii-letter"
		}
		return "letter"
	case unicode.IsDigit(r):
		return "digit"
	case unicode.IsMark(r):
		return "mark"
	case unicode.IsPunct(r):
		return "punct"
	case unicode.IsSymbol(r):
		return "symbol"
	}
	return "other"
}

func execC47(c run.Case) (res run.Result) {
	var in c47In
	c.Decode(&in)
	res.Sample = map[string]any{"theme": in.Theme, "sketch": in.Sketch, "text": trunc(in.Text, 300)}
	ro := &d2svg.RenderOpts{ThemeID: c3rPtr(in.Theme)}
	if in.Sketch {
		ro.Sketch = c3rPtr(true)
	}
	if in.Dark {
		ro.DarkThemeID = c3rPtr(int64(200))
	}
	diagram, _, err := c3rCompile(in.Text, "dagre", ro)
	if err != nil {
		res.Inc("vacuous_compile_error")
		res.Inc("vacuous:" + c30ErrClass(err))
		return
	}
	svg, err := d2svg.Render(diagram, ro)
	if err != nil {
		res.Inc("vacuous_render_error")
		res.Inc("vacuous:" + c30ErrClass(err))
		return
	}
	base, mono := d2fonts.SourceSansPro, d2fonts.SourceCodePro
	if diagram.FontFamily != nil {
		base = *diagram.FontFamily
	}
	if diagram.MonoFontFamily != nil {
		mono = *diagram.MonoFontFamily
	}
	c47Judge(&res, svg, base, mono, in.Text, in.Theme == 300 || in.Theme == 301 || strings.Contains(in.Text, "text-transform"))
	return
}

type c47Drawn struct {
	place string // element path class for messages
	runes map[rune]bool
}

func c47Judge(res *run.Result, svg []byte, base, mono d2fonts.FontFamily, source string, foldCase bool) {
	// pass 1: style sheets
	var rules []c47FontRule
	faces := map[string]string{}
	unparsed := 0
	{
		d := xml.NewDecoder(bytes.NewReader(svg))
		d.Strict = true
		inStyle := 0
		for {
			tok, err := d.Token()
			if err != nil {
				break
			}
			switch t := tok.(type) {
			case xml.StartElement:
				if t.Name.Local == "style" {
					inStyle++
				}
			case xml.EndElement:
				if t.Name.Local == "style" {
					inStyle--
				}
			case xml.CharData:
				if inStyle > 0 {
					c47ParseCSS(string(t), &rules, faces, &unparsed)
				}
			}
		}
	}
	res.Add("css_font_rules", len(rules))
	res.Add("css_selectors_unsupported", unparsed)
	res.Add("font_faces_embedded", len(faces))
	// pass 2: drawn text per family
	drawn := map[string]*c47Drawn{}
	{
		d := xml.NewDecoder(bytes.NewReader(svg))
		d.Strict = true
		var stack []c47El
		inText, inForeign, skip := 0, 0, 0
		for {
			tok, err := d.Token()
			if err != nil {
				if err.Error() != "EOF" {
					res.Inc("vacuous_svg_not_wellformed")
				}
				break
			}
			switch t := tok.(type) {
			case xml.StartElement:
				e := c47El{tag: strings.ToLower(t.Name.Local), classes: map[string]bool{}}
				for _, a := range t.Attr {
					if a.Name.Local == "class" && a.Name.Space == "" {
						for _, k := range strings.Fields(a.Value) {
							e.classes[k] = true
						}
					}
				}
				stack = append(stack, e)
				switch e.tag {
				case "text":
					if inForeign == 0 {
						inText++
					}
				case "foreignobject":
					inForeign++
				case "style", "title", "desc", "script", "metadata":
					skip++
				}
			case xml.EndElement:
				switch strings.ToLower(t.Name.Local) {
				case "text":
					if inForeign == 0 {
						inText--
					}
				case "foreignobject":
					inForeign--
				case "style", "title", "desc", "script", "metadata":
					skip--
				}
				if len(stack) > 0 {
					stack = stack[:len(stack)-1]
				}
			case xml.CharData:
				if skip > 0 || (inText == 0 && inForeign == 0) || len(bytes.TrimSpace(t)) == 0 {
					continue
				}
				fam := c47Resolve(rules, stack)
				res.Inc("text_nodes_drawn")
				if fam == "" {
					res.Inc("text_nodes_without_font_rule")
					continue
				}
				dr := drawn[fam]
				if dr == nil {
					dr = &c47Drawn{runes: map[rune]bool{}}
					drawn[fam] = dr
				}
				if dr.place == "" {
					dr.place = stack[len(stack)-1].tag
				}
				for _, r := range string(t) {
					dr.runes[r] = true
				}
			}
		}
	}
	entityRunes := map[rune]bool{}
	for _, m := range c47EntityRe.FindAllString(source, -1) {
		for _, r := range html.UnescapeString(m) {
			if r != '&' {
				entityRunes[r] = true
			}
		}
	}
	fams := make([]string, 0, len(drawn))
	for f := range drawn {
		fams = append(fams, f)
	}
	sort.Strings(fams)
	compared, nonASCII, decoded := 0, 0, 0
	for _, fam := range fams {
		dr := drawn[fam]
		suffix := fam
		if i := strings.LastIndex(fam, "-font-"); i >= 0 {
			suffix = fam[i+1:]
		}
		src, ok := faces[fam]
		if !ok {
			res.Inc("family_not_embedded:" + suffix)
			continue
		}
		const pfx = "data:application/font-woff;base64,"
		if !strings.HasPrefix(src, pfx) {
			res.Viol("C47.font-face-src", "C47.font-face-src:"+suffix, fmt.Sprintf("@font-face %s: src is not a base64 WOFF data URI: %q", fam, trunc(src, 60)))
			continue
		}
		raw, err := base64.StdEncoding.DecodeString(src[len(pfx):])
		if err != nil {
			res.Viol("C47.font-face-src", "C47.font-face-src:"+suffix, fmt.Sprintf("@font-face %s: bad base64: %v", fam, err))
			continue
		}
		ttf, err := c47WoffToSfnt(raw)
		if err != nil {
			res.Viol("C47.subset-unparsable", "C47.subset-unparsable:woff:"+suffix, fmt.Sprintf("@font-face %s: %v", fam, err))
			continue
		}
		sub, err := c47ParseFont(ttf)
		if err != nil {
			res.Viol("C47.subset-unparsable", "C47.subset-unparsable:sfnt:"+suffix, fmt.Sprintf("@font-face %s: sfnt.Parse: %v", fam, err))
			continue
		}
		full, ok := c47FullFont(fam, base, mono)
		if !ok {
			res.Inc("family_unknown_suffix:" + suffix)
			continue
		}
		fullBytes := d2fonts.FontFaces.Get(full)
		if len(fullBytes) == 0 {
			res.Inc("full_font_missing:" + suffix)
			continue
		}
		fullF, err := c47ParseFont(fullBytes)
		if err != nil {
			res.Inconclusive = "harness: full font does not parse: " + err.Error()
			return
		}
		decoded++
		res.Inc("fonts_decoded:" + suffix)
		if a, b := sub.name(), fullF.name(); a != "" && b != "" && a != b {
			res.Inc("subset_name_differs_from_full:" + suffix)
		}
		rs := make([]rune, 0, len(dr.runes))
		for r := range dr.runes {
			rs = append(rs, r)
		}
		sort.Slice(rs, func(i, j int) bool { return rs[i] < rs[j] })
		miss := map[string][]rune{}
		for _, r := range rs {
			if r == ' ' || r == '\t' || r == '\n' || r == '\r' {
				continue
			}
			fm, fo := fullF.glyph(r)
			if !fm {
				res.Inc("runes_not_in_full_font")
				continue
			}
			compared++
			if r >= 0x80 {
				nonASCII++
			}
			sm, so := sub.glyph(r)
			// trigger: where does the rune come from? written literally in the diagram
			// source / produced by a character entity in markdown / the other letter case
			// of a source rune while a text-transform or caps-lock theme is in play /
			// introduced by the renderer (e.g. &#160; for spaces in code).
			origin := "renderer-introduced"
			switch {
			case strings.ContainsRune(source, r):
				origin = "in-source"
			case entityRunes[r]:
				origin = "from-entity"
			case foldCase && (strings.ContainsRune(source, unicode.ToLower(r)) || strings.ContainsRune(source, unicode.ToUpper(r))):
				origin = "in-source"
			}
			switch {
			case !sm:
				k := origin + ":" + c47RuneClass(r) + ":" + suffix + ":unmapped"
				miss[k] = append(miss[k], r)
			case fo && !so:
				k := origin + ":" + c47RuneClass(r) + ":" + suffix + ":empty-outline"
				miss[k] = append(miss[k], r)
			}
		}
		ks := make([]string, 0, len(miss))
		for k := range miss {
			ks = append(ks, k)
		}
		sort.Strings(ks)
		for _, k := range ks {
			res.Viol("C47.glyph-missing", "C47.glyph-missing:"+k, fmt.Sprintf("family %s (first seen in <%s>): the full font has glyphs for %s but the embedded subset does not (%s)", fam, dr.place, c47RuneList(miss[k]), k))
		}
	}
	res.Add("runes_compared", compared)
	res.Add("runes_compared_non_ascii", nonASCII)
	res.Nontrivial = decoded >= 1 && compared >= 20 && nonASCII >= 1
}

func c47RuneList(rs []rune) string {
	var sb strings.Builder
	for i, r := range rs {
		if i == 12 {
			fmt.Fprintf(&sb, " … (%d)", len(rs))
			break
		}
		if i > 0 {
			sb.WriteByte(' ')
		}
		fmt.Fprintf(&sb, "U+%04X", r)
	}
	return sb.String()
}
