package mon

// Black-box mode of C44 (thorough tier): the real `d2 --watch` binary, built with
// -race -tags verif, started exactly as a user would start it. With D2_VERIF_TRACE set the
// verif hooks stream every trace event to a file; the harness tails that file into the same
// event model. Harness events (write completed, client received) are merged conservatively:
// a harness event is ordered after everything the process had logged when the harness
// looked, so "a request after the last write" is never claimed too early.

import (
	"bufio"
	"fmt"
	"io"
	"os"
	"os/exec"
	"path/filepath"
	"regexp"
	"strconv"
	"strings"
	"sync"
	"syscall"
	"time"

	"verif/run"

	"oss.terrastruct.com/d2/d2cli"
)

type c44Proc struct {
	cmd   *exec.Cmd
	addr  string
	tf    *os.File
	rest  []byte
	done  chan struct{}
	mu    sync.Mutex
	queue []d2cli.VerifEvent // harness events waiting to be merged
	last  int64              // last process sequence number read
}

var c44ListenRE = regexp.MustCompile(`listening on http://([0-9.]+:[0-9]+)`)

// c44StartProc returns (nil, nil) when the d2-race binary is not there.
func c44StartProc(res *run.Result, initial []byte) (*c44Env, error) {
	root := os.Getenv("VERIF_ROOT")
	if root == "" {
		root = "/verif"
	}
	bin := filepath.Join(root, "bin", "d2-race")
	if _, err := os.Stat(bin); err != nil {
		return nil, nil
	}
	dir, err := os.MkdirTemp("", "verif-watchproc-")
	if err != nil {
		return nil, err
	}
	h := &c44Env{dir: dir, in: filepath.Join(dir, "in.d2"), out: filepath.Join(dir, "out.svg"), m: c44NewModel("C44"), res: res,
		clients: map[int]*c44Client{}, logBuf: &c44SyncBuf{}, runDone: make(chan error, 1)}
	if err := os.WriteFile(h.in, initial, 0o644); err != nil {
		return nil, err
	}
	tpath := filepath.Join(dir, "trace.log")
	if err := os.WriteFile(tpath, nil, 0o644); err != nil {
		return nil, err
	}
	pr := &c44Proc{done: make(chan struct{})}
	pr.cmd = exec.Command(bin, "--watch", "--host", "127.0.0.1", "--port", "0", h.in, h.out)
	pr.cmd.Dir = dir
	pr.cmd.Env = append(os.Environ(), "BROWSER=0", "HOME="+dir, "D2_VERIF_TRACE="+tpath, "D2_VERIF_TAGRE="+c44TagRE.String())
	stderr, err := pr.cmd.StderrPipe()
	if err != nil {
		return nil, err
	}
	pr.cmd.Stdout = h.logBuf
	if err := pr.cmd.Start(); err != nil {
		os.RemoveAll(dir)
		return nil, err
	}
	addrCh := make(chan string, 1)
	go func() {
		sc := bufio.NewScanner(stderr)
		sc.Buffer(make([]byte, 1<<20), 1<<20)
		sent := false
		for sc.Scan() {
			ln := sc.Text()
			fmt.Fprintln(h.logBuf, ln)
			if m := c44ListenRE.FindStringSubmatch(ln); m != nil && !sent {
				sent = true
				addrCh <- m[1]
			}
		}
		pr.cmd.Wait()
		close(pr.done)
	}()
	select {
	case pr.addr = <-addrCh:
	case <-pr.done:
		os.RemoveAll(dir)
		return nil, fmt.Errorf("d2 --watch exited before listening: %s", h.tailLog(5))
	case <-time.After(c44Watchdog):
		pr.cmd.Process.Kill()
		os.RemoveAll(dir)
		return nil, fmt.Errorf("d2 --watch did not start listening")
	}
	pr.tf, err = os.Open(tpath)
	if err != nil {
		pr.cmd.Process.Kill()
		return nil, err
	}
	h.proc = pr
	return h, nil
}

// harnessEvent queues a harness event; it is merged at the next read, after everything
// the process has logged by then.
func (p *c44Proc) harnessEvent(ev string, args ...any) {
	e := d2cli.VerifEvent{Ev: ev}
	for _, a := range args {
		e.Args = append(e.Args, fmt.Sprint(a))
	}
	p.mu.Lock()
	p.queue = append(p.queue, e)
	p.mu.Unlock()
}

// read returns the new process events followed by the queued harness events.
func (p *c44Proc) read(after int64) []d2cli.VerifEvent {
	p.mu.Lock()
	q := p.queue
	p.queue = nil
	p.mu.Unlock()
	var out []d2cli.VerifEvent
	buf, _ := io.ReadAll(p.tf)
	p.rest = append(p.rest, buf...)
	for {
		i := strings.IndexByte(string(p.rest), '\n')
		if i < 0 {
			break
		}
		ln := string(p.rest[:i])
		p.rest = p.rest[i+1:]
		f := strings.Split(ln, " ")
		if len(f) < 2 {
			continue
		}
		seq, err := strconv.ParseInt(f[0], 10, 64)
		if err != nil {
			continue
		}
		p.last = seq
		out = append(out, d2cli.VerifEvent{Seq: seq, Ev: f[1], Args: f[2:]})
	}
	for _, e := range q {
		e.Seq = p.last
		out = append(out, e)
	}
	return out
}

func (p *c44Proc) stop(h *c44Env) {
	p.cmd.Process.Signal(syscall.SIGTERM)
	select {
	case <-p.done:
		h.runReturned = true
	case <-time.After(90 * time.Second):
		p.cmd.Process.Kill()
		<-p.done
		if h.res.Inconclusive == "" && len(h.res.Violations) == 0 {
			h.res.Inconclusive = "d2 --watch did not exit within 90 s after SIGTERM"
		}
	}
	if p.tf != nil {
		h.pump()
		p.tf.Close()
	}
}
