package mon

import (
	"context"
	"fmt"
	"sort"
	"strconv"
	"strings"

	"verif/gen"
	"verif/run"

	"oss.terrastruct.com/d2/d2graph"
	"oss.terrastruct.com/d2/d2renderers/d2svg"
	"oss.terrastruct.com/d2/d2target"
	"oss.terrastruct.com/d2/d2themes"
	"oss.terrastruct.com/d2/d2themes/d2themescatalog"
	"oss.terrastruct.com/d2/lib/geo"
)

// C28: the exported diagram contains exactly one shape per object (with the object's
// absolute ID) and one connection per connection (with its source and destination IDs), and
// every style value the user set appears unchanged in the export under every theme,
// including themes with special rules (Terminal, Terminal Grayscale, Origami, C4).
//
// Reference: the graph d2compiler.Compile produces for the same text (no theme, no layout):
// its objects / edges are "the objects / connections", its non-nil Style fields are "the
// style values the user set". The exported d2target.Diagram of d2lib.Compile (theme applied,
// dimensions set, laid out, exported) is compared with that reference per board.
//
// Documented, legitimate behaviour the monitor does not flag:
//   - sequence diagrams add one "lifeline" connection per actor (Dst = "<actor>-lifeline-end-N",
//     not an object); they are counted and set aside;
//   - `circle`→`oval`, `square`→`rectangle` type synonyms, text-transform / CapsLock change the
//     label text, not an exported style field (not checked);
//   - numeric styles are exported after the documented conversion (strconv: "0.40"→0.4, "3"→3);
//   - `filled` (arrowheads) has no exported field of its own (folded into the arrowhead type).
//
// Layout: the style/one-to-one relation does not depend on where things are placed, so the
// sweep over all 20 themes uses a trivial core layout (objects in a row, straight routes)
// plugged into the real d2lib.Compile through its LayoutResolver — grids, sequence diagrams,
// nears, nested boards, SetDimensions, ApplyTheme and d2exporter.Export are all the real
// code. One theme per case (seed-chosen) is additionally run with the real dagre layout.
func init() {
	run.Register(&run.Check{
		ID: "C28", Title: "Export is one-to-one and user styles override theme defaults",
		LevelText: "Exploration: generated diagrams with random explicit style attributes on objects and connections (added by key path after generation so that every style keyword is covered) are exported under every theme of d2themescatalog (18 light, 2 dark; incl. Terminal, Terminal Grayscale, Origami, C4); the export is compared with the compile-only graph: bijection of object ids ↔ shape ids and edges ↔ connections (src, dst), and every user-set style field equals the exported field after type conversion.",
		Technique: "runtime monitoring: invariant between compiled graph and exported d2target.Diagram under all themes",
		DesignRef: "§4 C28",
		Rule:      "cases: gen.Diagram with dense styles + up to 14 extra `<abs id>.style.<k>: <v>` lines on random objects/edges; every theme; distinct by sha256(text); non-trivial when ≥2 objects, ≥1 connection and ≥3 user-set style values were compared under ≥20 themes",
		Chunk:     4,
		CPUBudget: 300,
		Gen:       genC28,
		Exec:      execC28,
	})
}

type c28In struct {
	Text       string `json:"text"`
	DagreTheme int64  `json:"dagre_theme"` // theme additionally run with the real dagre layout
}

var c28ObjStyles = []string{"opacity", "stroke", "fill", "fill-pattern", "stroke-width", "stroke-dash", "border-radius",
	"shadow", "multiple", "font", "font-size", "font-color", "animated", "bold", "italic", "underline", "text-transform",
	"3d", "double-border"}
var c28EdgeStyles = []string{"opacity", "stroke", "fill", "stroke-width", "stroke-dash", "border-radius", "font", "font-size",
	"font-color", "animated", "bold", "italic", "underline", "text-transform"}

func c28StyleValue(r *gen.R, k string) string {
	switch k {
	case "opacity":
		return r.Str("0", "0.1", "0.40", "0.5", "0.75", "1", "1.0")
	case "stroke", "fill", "font-color":
		return gen.Quote(r.Str("red", "blue", "#fff", "#00ff00", "#123456", "honeydew", "transparent", "N1", "N7", "B1", "B3", "B6", "AA2", "AA4", "AB5",
			"linear-gradient(#fff, #000)", "PapayaWhip", "#AbCdEf"))
	case "fill-pattern":
		return r.Str("dots", "lines", "grain", "paper", "none")
	case "stroke-width":
		return strconv.Itoa(r.Range(0, 15))
	case "stroke-dash":
		return strconv.Itoa(r.Range(0, 10))
	case "border-radius":
		return strconv.Itoa(r.Range(0, 30))
	case "font":
		return "mono"
	case "font-size":
		return strconv.Itoa(r.Range(8, 100))
	case "text-transform":
		return r.Str("uppercase", "lowercase", "capitalize", "none")
	}
	return r.Str("true", "false", "true")
}

func genC28(seed int64, tier string, emit func(run.Case)) {
	r := gen.New(seed)
	n := tierN(tier, 100, 6000)
	themes := c28Themes()
	for i := 0; i < n; i++ {
		q := r.Sub(i)
		o := gen.DiagramOpts{MinObjects: 2, MaxObjects: 12, MaxDepth: 3, Latex: -1, Styles: .5, EdgeStyles: .5, Mods: .3, Arrowheads: .3,
			Sequence: .15, Boards: .05}
		text := gen.Diagram(q, o)
		text = c28Augment(q, text)
		emit(run.MkCase(fmt.Sprintf("c%06d", i), "", c28In{Text: text, DagreTheme: gen.Pick(q, themes).ID}))
	}
}

// c28Augment appends explicit style statements addressed by absolute key path to objects
// and edges of the root board (only lines that keep the program compilable are kept).
func c28Augment(r *gen.R, text string) string {
	g, _, err := compile(text)
	if err != nil || g == nil {
		return text
	}
	var lines []string
	k := r.Range(2, 14)
	for i := 0; i < k; i++ {
		if len(g.Edges) > 0 && r.P(0.4) {
			e := gen.Pick(r, g.Edges)
			st := gen.Pick(r, c28EdgeStyles)
			lines = append(lines, fmt.Sprintf("%s.style.%s: %s", e.AbsID(), st, c28StyleValue(r, st)))
		} else if len(g.Objects) > 0 {
			o := gen.Pick(r, g.Objects)
			st := gen.Pick(r, c28ObjStyles)
			lines = append(lines, fmt.Sprintf("%s.style.%s: %s", o.AbsID(), st, c28StyleValue(r, st)))
		}
	}
	if !strings.HasSuffix(text, "\n") {
		text += "\n"
	}
	// insert before the first board block so that the lines belong to the root board
	head, tail := text, ""
	for _, kw := range []string{"\nlayers:", "\nscenarios:", "\nsteps:"} {
		if i := strings.Index(head, kw); i >= 0 {
			head, tail = head[:i+1], head[i+1:]+tail
		}
	}
	cur := head
	for _, ln := range lines {
		try := cur + ln + "\n"
		if _, _, err := compile(try + tail); err == nil {
			cur = try
		}
	}
	return cur + tail
}

func c28Themes() []d2themes.Theme {
	var out []d2themes.Theme
	out = append(out, d2themescatalog.LightCatalog...)
	out = append(out, d2themescatalog.DarkCatalog...)
	return out
}

// c28TrivialLayout is a core layout that places the graph's objects in a row (containers
// around their children) and routes edges centre to centre. Positions are irrelevant to C28.
func c28TrivialLayout(ctx context.Context, g *d2graph.Graph) error {
	var place func(o *d2graph.Object, x, y float64) (w, h float64)
	place = func(o *d2graph.Object, x, y float64) (float64, float64) {
		if len(o.ChildrenArray) == 0 {
			o.TopLeft = geo.NewPoint(x, y)
			if o.Width <= 0 {
				o.Width = 10
			}
			if o.Height <= 0 {
				o.Height = 10
			}
			return o.Width, o.Height
		}
		cx, maxh := x+20, 0.0
		for _, c := range o.ChildrenArray {
			w, h := place(c, cx, y+40)
			cx += w + 20
			if h > maxh {
				maxh = h
			}
		}
		o.TopLeft = geo.NewPoint(x, y)
		o.Width, o.Height = cx-x, maxh+60
		return o.Width, o.Height
	}
	x := 0.0
	for _, o := range g.Root.ChildrenArray {
		w, _ := place(o, x, 0)
		x += w + 30
	}
	// like every real engine: default label / icon positions for whatever has none
	for _, o := range g.Objects {
		if o.TopLeft == nil {
			o.TopLeft = geo.NewPoint(0, 0)
		}
		if o.HasLabel() && o.LabelPosition == nil {
			if len(o.ChildrenArray) > 0 {
				o.LabelPosition = c2rPtr("OUTSIDE_TOP_CENTER")
			} else {
				o.LabelPosition = c2rPtr("INSIDE_MIDDLE_CENTER")
			}
		}
		if o.Icon != nil && o.IconPosition == nil {
			o.IconPosition = c2rPtr("INSIDE_MIDDLE_CENTER")
		}
	}
	for _, e := range g.Edges {
		e.Route = []*geo.Point{e.Src.Center(), e.Dst.Center()}
		if e.Label.Value != "" && e.LabelPosition == nil {
			e.LabelPosition = c2rPtr("INSIDE_MIDDLE_CENTER")
		}
	}
	return nil
}

func c28ThemeClass(t d2themes.Theme) string {
	sr := t.SpecialRules
	if sr == (d2themes.SpecialRules{}) {
		return "plain-theme"
	}
	return "theme-" + strings.ToLower(strings.ReplaceAll(t.Name, " ", "-"))
}

func c28ObjClass(o *d2graph.Object) string {
	switch {
	case o.OuterSequenceDiagram() != nil && o.IsSequenceDiagramGroup():
		return "sequence-group"
	case o.OuterSequenceDiagram() != nil && o.IsSequenceDiagramNote():
		return "sequence-note"
	case o.OuterSequenceDiagram() != nil:
		return "in-sequence"
	case o.IsSequenceDiagram():
		return "sequence-diagram"
	case o.IsGridDiagram():
		return "grid"
	case len(o.ChildrenArray) > 0:
		return "container"
	case o.Shape.Value != "":
		sv := strings.ToLower(o.Shape.Value)
		switch sv {
		case "class", "sql_table", "text", "code", "image", "person", "c4-person":
			return sv
		}
	}
	return "leaf"
}

type c28Cmp struct{ key, want, got string }

func c28Bool(s *d2graph.Scalar) string {
	b, _ := strconv.ParseBool(s.Value)
	return strconv.FormatBool(b)
}

func c28Float(s *d2graph.Scalar) string {
	f, _ := strconv.ParseFloat(s.Value, 64)
	return strconv.FormatFloat(f, 'g', -1, 64)
}

func c28Int(s *d2graph.Scalar) string {
	i, _ := strconv.Atoi(s.Value)
	return strconv.Itoa(i)
}

func c28ShapeCmps(st d2graph.Style, s *d2target.Shape) (out []c28Cmp, unchecked int) {
	f := func(v float64) string { return strconv.FormatFloat(v, 'g', -1, 64) }
	if st.Opacity != nil {
		out = append(out, c28Cmp{"opacity", c28Float(st.Opacity), f(s.Opacity)})
	}
	if st.Stroke != nil {
		out = append(out, c28Cmp{"stroke", st.Stroke.Value, s.Stroke})
	}
	if st.Fill != nil {
		out = append(out, c28Cmp{"fill", st.Fill.Value, s.Fill})
	}
	if st.FillPattern != nil {
		out = append(out, c28Cmp{"fill-pattern", st.FillPattern.Value, s.FillPattern})
	}
	if st.StrokeWidth != nil {
		out = append(out, c28Cmp{"stroke-width", c28Int(st.StrokeWidth), strconv.Itoa(s.StrokeWidth)})
	}
	if st.StrokeDash != nil {
		out = append(out, c28Cmp{"stroke-dash", c28Float(st.StrokeDash), f(s.StrokeDash)})
	}
	if st.BorderRadius != nil {
		out = append(out, c28Cmp{"border-radius", c28Int(st.BorderRadius), strconv.Itoa(s.BorderRadius)})
	}
	if st.Shadow != nil {
		out = append(out, c28Cmp{"shadow", c28Bool(st.Shadow), strconv.FormatBool(s.Shadow)})
	}
	if st.ThreeDee != nil {
		out = append(out, c28Cmp{"3d", c28Bool(st.ThreeDee), strconv.FormatBool(s.ThreeDee)})
	}
	if st.Multiple != nil {
		out = append(out, c28Cmp{"multiple", c28Bool(st.Multiple), strconv.FormatBool(s.Multiple)})
	}
	if st.DoubleBorder != nil {
		out = append(out, c28Cmp{"double-border", c28Bool(st.DoubleBorder), strconv.FormatBool(s.DoubleBorder)})
	}
	if st.Font != nil {
		out = append(out, c28Cmp{"font", st.Font.Value, s.FontFamily})
	}
	if st.FontSize != nil {
		out = append(out, c28Cmp{"font-size", c28Int(st.FontSize), strconv.Itoa(s.FontSize)})
	}
	if st.FontColor != nil {
		out = append(out, c28Cmp{"font-color", st.FontColor.Value, s.Color})
	}
	if st.Animated != nil {
		out = append(out, c28Cmp{"animated", c28Bool(st.Animated), strconv.FormatBool(s.Animated)})
	}
	if st.Bold != nil {
		out = append(out, c28Cmp{"bold", c28Bool(st.Bold), strconv.FormatBool(s.Bold)})
	}
	if st.Italic != nil {
		out = append(out, c28Cmp{"italic", c28Bool(st.Italic), strconv.FormatBool(s.Italic)})
	}
	if st.Underline != nil {
		out = append(out, c28Cmp{"underline", c28Bool(st.Underline), strconv.FormatBool(s.Underline)})
	}
	if st.TextTransform != nil {
		unchecked++
	}
	if st.Filled != nil {
		unchecked++
	}
	return
}

func c28ConnCmps(st d2graph.Style, c *d2target.Connection) (out []c28Cmp, unchecked int) {
	f := func(v float64) string { return strconv.FormatFloat(v, 'g', -1, 64) }
	if st.Opacity != nil {
		out = append(out, c28Cmp{"opacity", c28Float(st.Opacity), f(c.Opacity)})
	}
	if st.Stroke != nil {
		out = append(out, c28Cmp{"stroke", st.Stroke.Value, c.Stroke})
	}
	if st.Fill != nil {
		out = append(out, c28Cmp{"fill", st.Fill.Value, c.Fill})
	}
	if st.StrokeWidth != nil {
		out = append(out, c28Cmp{"stroke-width", c28Int(st.StrokeWidth), strconv.Itoa(c.StrokeWidth)})
	}
	if st.StrokeDash != nil {
		out = append(out, c28Cmp{"stroke-dash", c28Float(st.StrokeDash), f(c.StrokeDash)})
	}
	if st.BorderRadius != nil {
		out = append(out, c28Cmp{"border-radius", c28Float(st.BorderRadius), f(c.BorderRadius)})
	}
	if st.Font != nil {
		out = append(out, c28Cmp{"font", st.Font.Value, c.FontFamily})
	}
	if st.FontSize != nil {
		out = append(out, c28Cmp{"font-size", c28Int(st.FontSize), strconv.Itoa(c.FontSize)})
	}
	if st.FontColor != nil {
		out = append(out, c28Cmp{"font-color", st.FontColor.Value, c.Color})
	}
	if st.Animated != nil {
		out = append(out, c28Cmp{"animated", c28Bool(st.Animated), strconv.FormatBool(c.Animated)})
	}
	if st.Bold != nil {
		out = append(out, c28Cmp{"bold", c28Bool(st.Bold), strconv.FormatBool(c.Bold)})
	}
	if st.Italic != nil {
		out = append(out, c28Cmp{"italic", c28Bool(st.Italic), strconv.FormatBool(c.Italic)})
	}
	if st.Underline != nil {
		out = append(out, c28Cmp{"underline", c28Bool(st.Underline), strconv.FormatBool(c.Underline)})
	}
	for _, p := range []*d2graph.Scalar{st.TextTransform, st.Filled, st.Shadow, st.Multiple, st.ThreeDee, st.DoubleBorder, st.FillPattern} {
		if p != nil {
			unchecked++
		}
	}
	return
}

func c28Multiset(xs []string) map[string]int {
	m := map[string]int{}
	for _, x := range xs {
		m[x]++
	}
	return m
}

func c28MultisetDiff(want, got map[string]int) string {
	var d []string
	for k, n := range want {
		if got[k] != n {
			d = append(d, fmt.Sprintf("%q: graph×%d export×%d", k, n, got[k]))
		}
	}
	for k, n := range got {
		if _, ok := want[k]; !ok {
			d = append(d, fmt.Sprintf("%q: graph×0 export×%d", k, n))
		}
	}
	sort.Strings(d)
	if len(d) > 6 {
		d = d[:6]
	}
	return strings.Join(d, "; ")
}

func execC28(c run.Case) (res run.Result) {
	var in c28In
	c.Decode(&in)
	g0, _, err := compile(in.Text)
	if err != nil || g0 == nil {
		res.Inc("vacuous_compile_error")
		return
	}
	c2rFeatures(in.Text, res.Inc)
	seenSig := map[string]bool{}
	viol := func(clause, sig, msg string) {
		if seenSig[sig] {
			res.Inc("repeat_violations_same_case")
			return
		}
		seenSig[sig] = true
		res.Viol(clause, sig, msg)
	}
	ref := c2rGraphs(g0)
	themesDone, stylesCompared, maxStyles := 0, 0, 0
	nObj, nEdge := 0, 0
	for _, b := range ref {
		nObj += len(b.Objects)
		nEdge += len(b.Edges)
	}
	runOne := func(theme d2themes.Theme, layout d2graph.LayoutGraph, layoutName string) {
		ro := &d2svg.RenderOpts{ThemeID: c2rPtr(theme.ID)}
		diagram, g, err := c2rCompileShared(in.Text, "dagre", layout, ro)
		if err != nil || diagram == nil {
			res.Inc("vacuous_layout_error_" + layoutName)
			return
		}
		themesDone++
		tcls := c28ThemeClass(theme)
		res.Inc("theme_runs_" + layoutName)
		boards := c2rBoards(diagram)
		graphs := c2rGraphs(g)
		if len(boards) != len(ref) || len(graphs) != len(ref) {
			viol("C28.board-count", "C28.board-count", fmt.Sprintf("compile-only graph has %d boards, export has %d\n%s", len(ref), len(boards), in.Text))
			return
		}
		caseStyles := 0
		for bi, b := range boards {
			rg := ref[bi]
			// ---- one shape per object
			res.Inc("clause_bijection_evaluated")
			var wantIDs, gotIDs []string
			byID := map[string]*d2target.Shape{}
			for _, o := range rg.Objects {
				wantIDs = append(wantIDs, o.AbsID())
			}
			for i := range b.Shapes {
				gotIDs = append(gotIDs, b.Shapes[i].ID)
				byID[b.Shapes[i].ID] = &b.Shapes[i]
			}
			if d := c28MultisetDiff(c28Multiset(wantIDs), c28Multiset(gotIDs)); d != "" {
				viol("C28.shapes-not-one-to-one", "C28.shapes-not-one-to-one:"+layoutName, fmt.Sprintf("theme %s board %d: %s\n%s", theme.Name, bi, d, in.Text))
			} else if strings.Join(wantIDs, "\x00") == strings.Join(gotIDs, "\x00") {
				res.Inc("shape_order_equals_declaration_order")
			} else {
				res.Inc("shape_order_differs_from_declaration_order")
			}
			// ---- one connection per connection (lifelines set aside)
			var wantE, gotE []string
			byEdge := map[string]*d2target.Connection{}
			for _, e := range rg.Edges {
				wantE = append(wantE, e.AbsID()+"\x1f"+e.Src.AbsID()+"\x1f"+e.Dst.AbsID())
			}
			for i := range b.Connections {
				cn := &b.Connections[i]
				if _, isObj := byID[cn.Dst]; !isObj && strings.Contains(cn.Dst, "-lifeline-end-") && byID[cn.Src] != nil {
					res.Inc("lifeline_connections_set_aside")
					continue
				}
				gotE = append(gotE, cn.ID+"\x1f"+cn.Src+"\x1f"+cn.Dst)
				byEdge[cn.ID] = cn
			}
			if d := c28MultisetDiff(c28Multiset(wantE), c28Multiset(gotE)); d != "" {
				viol("C28.connections-not-one-to-one", "C28.connections-not-one-to-one:"+layoutName, fmt.Sprintf("theme %s board %d: %s\n%s", theme.Name, bi, strings.ReplaceAll(d, "\x1f", " | "), in.Text))
			}
			// ---- user styles
			for _, o := range rg.Objects {
				s := byID[o.AbsID()]
				if s == nil {
					continue
				}
				cmps, un := c28ShapeCmps(o.Style, s)
				res.Add("style_values_not_exported_as_field", un)
				for _, cm := range cmps {
					caseStyles++
					res.Inc("style_obj_" + cm.key)
					if cm.want != cm.got {
						viol("C28.style-lost", fmt.Sprintf("C28.style-lost:object.%s:%s:%s", cm.key, c28ObjClass(o), tcls),
							fmt.Sprintf("theme %s (%s layout) board %d: object %q style.%s set to %q by the user, exported as %q\n%s", theme.Name, layoutName, bi, o.AbsID(), cm.key, cm.want, cm.got, in.Text))
					}
				}
			}
			for _, e := range rg.Edges {
				cn := byEdge[e.AbsID()]
				if cn == nil {
					continue
				}
				cmps, un := c28ConnCmps(e.Style, cn)
				res.Add("style_values_not_exported_as_field", un)
				ecls := "edge"
				if e.Src.OuterSequenceDiagram() != nil {
					ecls = "sequence-message"
				}
				for _, cm := range cmps {
					caseStyles++
					res.Inc("style_edge_" + cm.key)
					if cm.want != cm.got {
						viol("C28.style-lost", fmt.Sprintf("C28.style-lost:connection.%s:%s:%s", cm.key, ecls, tcls),
							fmt.Sprintf("theme %s (%s layout) board %d: connection %q style.%s set to %q by the user, exported as %q\n%s", theme.Name, layoutName, bi, e.AbsID(), cm.key, cm.want, cm.got, in.Text))
					}
				}
			}
		}
		stylesCompared += caseStyles
		if caseStyles > maxStyles {
			maxStyles = caseStyles
		}
	}
	for _, th := range c28Themes() {
		runOne(th, c28TrivialLayout, "trivial")
	}
	runOne(d2themescatalog.Find(in.DagreTheme), nil, "dagre")
	res.Add("style_comparisons", stylesCompared)
	res.Nontrivial = nObj >= 2 && nEdge >= 1 && maxStyles >= 3 && themesDone >= 20
	res.Sample = map[string]any{"objects": nObj, "edges": nEdge, "user_styles": maxStyles, "text": trunc(in.Text, 300)}
	return
}
