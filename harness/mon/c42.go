package mon

import (
	"fmt"
	"runtime/debug"
	"sort"
	"strings"

	"verif/gen"
	"verif/run"

	"oss.terrastruct.com/d2/d2ast"
	"oss.terrastruct.com/d2/d2lsp"
	"oss.terrastruct.com/d2/d2parser"
)

// C42 — editor support returns exact reference ranges and board positions.
//
// Structured cases (gen.LspProgram, rendered by the monitor's own renderer which records the
// byte span of every key segment and of every board block):
//   - GetRefRanges(key): every returned range, sliced out of the file named in the range, must
//     parse (d2parser.ParseKey) to one key segment equal, case-insensitively, to the last segment
//     of the requested key; every declaration of the key that the renderer recorded for that
//     board (a statement whose object path is the key) must be among the returned ranges.
//   - GetBoardAtPosition at *every* (line, column) of the text must equal the innermost board
//     whose block (`{` … `}` of `layers|scenarios|steps: { name: {…} }`) contains the position,
//     per the renderer's spans.
//   - GetCompletionItems at every position (and a few outside the text) must not crash.
//
// Text cases (syntax-profile programs, corpus scripts, truncations and mutations, ≤1.5 KB):
// GetCompletionItems and GetBoardAtPosition at every position: no crash (PanicIsViolation).
// File-set cases (gen.ImportProgram): the "names the key" clause across files.
//
// A panic inside GetRefRanges is recovered and counted, not judged: it compiles the program and
// compilation crashes belong to C07.

func init() {
	run.Register(&run.Check{
		ID: "C42", Title: "Editor support returns exact reference ranges and board positions",
		LevelText: "Exploration (positions exhaustive per text): for generated programs with nested boards the monitor calls GetRefRanges for every key and board, GetBoardAtPosition and GetCompletionItems at every (line, column) of the text, and judges them against byte spans recorded by its own renderer; for broken / hostile texts (truncations, mutations, corpus) it requires that completion and board lookup never crash at any position.",
		Technique: "runtime monitoring: slice-and-parse oracle for reference ranges, independent span walk for board positions, totality oracle for completion; positions enumerated exhaustively per text",
		DesignRef: "§4 C42",
		Rule:      "cases: gen.LspProgram (structured), gen.ImportProgram (file sets), syntax/corpus texts with truncations and mutations (≤1.5 KB); distinct by sha256 of the text; non-trivial when ≥20 positions were evaluated and (structured) ≥1 board block and ≥1 key were judged",
		Chunk:     8,
		CPUBudget: 120,

		PanicIsViolation: true,
		Gen:              genC42,
		Exec:             execC42,
	})
}

type c42In struct {
	Prog []*gen.LStmt   `json:"prog,omitempty"`
	Set  *gen.ImportSet `json:"set,omitempty"`
	Text string         `json:"text,omitempty"`
	Src  string         `json:"src,omitempty"`
	// Style seeds the renderer's one-line choices for structured programs (0 = multi-line only).
	Style int64 `json:"style,omitempty"`
}

func genC42(seed int64, tier string, emit func(run.Case)) {
	r := gen.New(seed)
	n := tierN(tier, 420, 4000)
	cor := Corpus()
	var small []string
	for _, s := range cor {
		if len(s) <= 1500 {
			small = append(small, s)
		}
	}
	syn := gen.ProfileSyntax
	syn.MaxStmts = 12
	for i := 0; i < n; i++ {
		q := r.Sub(i)
		id := fmt.Sprintf("c%07d", i)
		switch i % 6 {
		case 0, 1, 2:
			in := c42In{Prog: gen.LspProgram(q, tier == "thorough" && q.P(0.3)), Src: "structured"}
			if i%6 != 0 {
				in.Style = 1 + q.Int63n(1<<40)
			}
			emit(run.MkCase(id, "lsp", in))
		case 3:
			emit(run.MkCase(id, "fileset", c42In{Set: gen.ImportProgram(q, false), Src: "fileset"}))
		default:
			var t, src string
			switch q.Intn(5) {
			case 0:
				t, src = gen.Program(q, syn), "syntax"
			case 1:
				t, src = gen.Mutate(q, gen.Program(q, syn)), "syntax-mut"
			case 2:
				t, src = gen.Pick(q, small), "corpus"
			case 3:
				t, src = gen.Mutate(q, gen.Pick(q, small)), "corpus-mut"
			default:
				t = gen.LRender(gen.LspProgram(q, false))
				if len(t) > 0 {
					t = t[:q.Intn(len(t))]
				}
				src = "structured-truncated"
			}
			if len(t) > 1500 {
				t = t[:1500]
			}
			emit(run.MkCase(id, "text", c42In{Text: t, Src: src}))
		}
	}
}

// ---------------------------------------------------------------------------------------
// the monitor's own renderer with span recording

type c42Occ struct {
	board []string // board names, outermost first
	abs   []string // object path inside the board (unquoted, as written)
	start int
	end   int
	decl  bool // last object segment of a key statement (a declaration of abs)
}

type c42Span struct {
	path        []string // alternating kind, name (as GetBoardAtPosition reports)
	open, close int      // byte offsets: `{` and one past `}`
	pathForm    bool
}

type c42Renderer struct {
	sb    strings.Builder
	occs  []c42Occ
	spans []c42Span
	// spans of the board keyword maps (`layers: {…}`); path = the board that holds the block
	kw []c42Span
	// one-line rendering choices (nil = all multi-line) and what was produced
	rnd                                *gen.R
	oneLineKw, oneLineBoards, trailing int
}

func c42Unquote(seg string) string {
	if len(seg) >= 2 && (seg[0] == '"' && seg[len(seg)-1] == '"' || seg[0] == '\'' && seg[len(seg)-1] == '\'') {
		return seg[1 : len(seg)-1]
	}
	return seg
}

func c42IsAttrHead(seg string) bool {
	switch strings.ToLower(seg) {
	case "shape", "label", "style", "tooltip", "source-arrowhead", "target-arrowhead", "icon", "class", "near", "link", "width", "height", "direction":
		return true
	}
	return false
}

func (x *c42Renderer) segs(segs []string, board, scope []string, declLast bool) {
	obj := len(segs)
	for i, s := range segs {
		if c42IsAttrHead(s) {
			obj = i
			break
		}
	}
	cur := append([]string(nil), scope...)
	for i, s := range segs {
		if i > 0 {
			x.sb.WriteString(".")
		}
		st := x.sb.Len()
		x.sb.WriteString(s)
		if i < obj {
			cur = append(cur, c42Unquote(s))
			x.occs = append(x.occs, c42Occ{board: board, abs: append([]string(nil), cur...), start: st, end: x.sb.Len(), decl: declLast && i == obj-1})
		}
	}
}

func (x *c42Renderer) value(s *gen.LStmt) {
	if s.Val != nil {
		x.sb.WriteString(": " + s.Val.Render())
	}
}

// inline decides whether the next block is written on one line (`k: { a; b }`). Style 0
// renders everything multi-line.
func (x *c42Renderer) inline(body []*gen.LStmt) bool {
	if x.rnd == nil || !x.rnd.P(0.35) {
		return false
	}
	return true
}

// open / close write the braces of a block and return the byte offset of `{`.
func (x *c42Renderer) open(one bool, empty bool) int {
	at := x.sb.Len()
	switch {
	case one && empty:
		x.sb.WriteString("{")
	case one:
		x.sb.WriteString("{ ")
	default:
		x.sb.WriteString("{\n")
	}
	return at
}

func (x *c42Renderer) close(one bool, empty bool, ind string) int {
	switch {
	case one && empty:
		x.sb.WriteString("}")
	case one:
		x.sb.WriteString(" }")
	default:
		x.sb.WriteString(ind + "}")
	}
	return x.sb.Len()
}

func c42NoRaw(stmts []*gen.LStmt) []*gen.LStmt {
	var out []*gen.LStmt
	for _, s := range stmts {
		if s.Raw == "" {
			out = append(out, s)
		}
	}
	return out
}

// attrs writes a body of plain `key: value` statements.
func (x *c42Renderer) attrs(body []*gen.LStmt, depth int, one bool) {
	ind := strings.Repeat("  ", depth)
	for i, b := range body {
		if one {
			if i > 0 {
				x.sb.WriteString("; ")
			}
			x.sb.WriteString(strings.Join(b.Key, ".") + ": " + b.Val.Render())
			continue
		}
		x.sb.WriteString(ind + strings.Join(b.Key, ".") + ": " + b.Val.Render() + "\n")
	}
}

// block writes statements; one = everything on the current line, separated by `;` (comments
// are dropped there, a comment would swallow the rest of the line).
func (x *c42Renderer) block(stmts []*gen.LStmt, depth int, board, boardAlt, scope []string, one bool) {
	ind := strings.Repeat("  ", depth)
	if one {
		stmts = c42NoRaw(stmts)
	}
	for si, s := range stmts {
		if one {
			if si > 0 {
				x.sb.WriteString("; ")
			}
		} else {
			x.sb.WriteString(ind)
		}
		// eol ends a statement written in multi-line mode; after a block closed on this line a
		// trailing comment may follow
		closedInline := false
		eol := func() {
			if one {
				return
			}
			if closedInline && x.rnd != nil && x.rnd.P(0.4) {
				x.sb.WriteString(" # todo after block")
				x.trailing++
			}
			x.sb.WriteString("\n")
		}
		if s.Raw != "" {
			x.sb.WriteString(s.Raw + "\n")
			continue
		}
		kind := c15BoardKind(s)
		switch {
		case kind != "" && len(scope) == 0:
			// `layers: { name: {…} }`
			boards := s.Body
			kwOne := one || x.inline(boards)
			if kwOne {
				boards = c42NoRaw(boards)
				x.oneLineKw++
			}
			x.sb.WriteString(s.Key[0] + ": ")
			kwi := len(x.kw)
			x.kw = append(x.kw, c42Span{path: append([]string(nil), boardAlt...)})
			x.kw[kwi].open = x.open(kwOne, len(boards) == 0)
			for bi, b := range boards {
				if kwOne {
					if bi > 0 {
						x.sb.WriteString("; ")
					}
				} else {
					x.sb.WriteString(ind + "  ")
				}
				if b.Raw != "" {
					x.sb.WriteString(b.Raw + "\n")
					continue
				}
				bOne := kwOne || x.inline(b.Body)
				body := b.Body
				if bOne {
					body = c42NoRaw(body)
					x.oneLineBoards++
				}
				x.sb.WriteString(b.Key[0] + ": ")
				nb := append(append([]string(nil), board...), b.Key[0])
				na := append(append([]string(nil), boardAlt...), kind, b.Key[0])
				idx := len(x.spans)
				x.spans = append(x.spans, c42Span{path: na})
				x.spans[idx].open = x.open(bOne, len(body) == 0)
				x.block(body, depth+2, nb, na, nil, bOne)
				x.spans[idx].close = x.close(bOne, len(body) == 0, ind+"  ")
				if !kwOne {
					if bOne && x.rnd != nil && x.rnd.P(0.4) {
						x.sb.WriteString(" # todo after board")
						x.trailing++
					}
					x.sb.WriteString("\n")
				}
			}
			x.kw[kwi].close = x.close(kwOne, len(boards) == 0, ind)
			closedInline = kwOne
			eol()
		case s.Tag == "board-path-form" && len(scope) == 0:
			k := strings.ToLower(s.Key[0])
			bOne := one || x.inline(s.Body)
			body := s.Body
			if bOne {
				body = c42NoRaw(body)
			}
			x.sb.WriteString(s.Key[0] + "." + s.Key[1] + ": ")
			nb := append(append([]string(nil), board...), s.Key[1])
			na := append(append([]string(nil), boardAlt...), k, s.Key[1])
			idx := len(x.spans)
			x.spans = append(x.spans, c42Span{path: na, pathForm: true})
			x.spans[idx].open = x.open(bOne, len(body) == 0)
			x.block(body, depth+1, nb, na, nil, bOne)
			x.spans[idx].close = x.close(bOne, len(body) == 0, ind)
			closedInline = bOne
			eol()
		case s.IsEdge():
			if s.Idx != "" || len(s.EKey) > 0 {
				x.sb.WriteString("(")
			}
			x.segs(s.Src, board, scope, false)
			ar := s.Arrow
			if ar == "" {
				ar = "->"
			}
			x.sb.WriteString(" " + ar + " ")
			x.segs(s.Dst, board, scope, false)
			if s.Idx != "" || len(s.EKey) > 0 {
				x.sb.WriteString(")")
				if s.Idx != "" {
					x.sb.WriteString("[" + s.Idx + "]")
				}
				if len(s.EKey) > 0 {
					x.sb.WriteString("." + strings.Join(s.EKey, "."))
				}
			}
			x.value(s)
			if len(s.Body) > 0 {
				if s.Val == nil {
					x.sb.WriteString(":")
				}
				x.sb.WriteString(" ")
				bOne := one || x.inline(s.Body)
				x.open(bOne, false)
				x.attrs(s.Body, depth+1, bOne)
				x.close(bOne, false, ind)
				closedInline = bOne
			}
			eol()
		default:
			x.segs(s.Key, board, scope, true)
			x.value(s)
			if s.HasBody || len(s.Body) > 0 {
				if s.Val == nil {
					x.sb.WriteString(":")
				}
				x.sb.WriteString(" ")
				ns := append([]string(nil), scope...)
				attr := false
				for _, k := range s.Key {
					if c42IsAttrHead(k) {
						attr = true
						break
					}
					ns = append(ns, c42Unquote(k))
				}
				bOne := one || x.inline(s.Body)
				body := s.Body
				if bOne {
					body = c42NoRaw(body)
				}
				x.open(bOne, len(body) == 0)
				if attr {
					x.attrs(body, depth+1, bOne)
				} else {
					x.block(body, depth+1, board, boardAlt, ns, bOne)
				}
				x.close(bOne, len(body) == 0, ind)
				closedInline = bOne
			}
			eol()
		}
	}
}

// c42Render renders prog; style 0 = every block multi-line (as d2fmt would), otherwise a seed
// for one-line blocks, `;` separated siblings and trailing comments.
func c42Render(prog []*gen.LStmt, style int64) *c42Renderer {
	x := &c42Renderer{}
	if style != 0 {
		x.rnd = gen.New(style)
	}
	x.block(prog, 0, nil, nil, nil, false)
	return x
}

// ---------------------------------------------------------------------------------------

func c42Positions(text string, f func(line, col, off int)) int {
	n := 0
	off := 0
	for li, ln := range strings.Split(text, "\n") {
		for col := 0; col <= len(ln); col++ {
			f(li, col, off+col)
			n++
		}
		off += len(ln) + 1
	}
	return n
}

func c42PathEq(a, b []string) bool {
	if len(a) != len(b) {
		return false
	}
	for i := range a {
		if a[i] != b[i] {
			return false
		}
	}
	return true
}

func c42Key(abs []string, segs map[string]string) string {
	out := make([]string, len(abs))
	for i, a := range abs {
		out[i] = a
		if strings.ContainsAny(a, " .") {
			out[i] = `"` + a + `"`
		}
	}
	return strings.Join(out, ".")
}

func c42Totality(text string, res *run.Result, boards bool) int {
	n := c42Positions(text, func(line, col, off int) {
		d2lsp.GetCompletionItems(text, line, col)
		if boards {
			d2lsp.GetBoardAtPosition(text, d2ast.Position{Line: line, Column: col})
		}
	})
	// positions outside the text
	lines := strings.Count(text, "\n") + 1
	for _, p := range [][2]int{{lines, 0}, {lines + 3, 7}, {0, 100000}, {lines - 1, 1 << 20}, {-1, 0}, {0, -1}} {
		func() {
			defer func() {
				if e := recover(); e != nil {
					if p[0] < 0 || p[1] < 0 {
						res.Inc("panic_on_negative_position_not_judged")
						return
					}
					panic(e)
				}
			}()
			d2lsp.GetCompletionItems(text, p[0], p[1])
		}()
	}
	res.Add("completion_positions", n+6)
	return n
}

func execC42(c run.Case) (res run.Result) {
	var in c42In
	c.Decode(&in)
	switch c.Kind {
	case "text":
		res.Digest = in.Text
		res.Sample = map[string]any{"src": in.Src, "text": trunc(in.Text, 300)}
		res.Inc("texts_" + in.Src)
		n := c42Totality(in.Text, &res, true)
		res.Add("board_positions_totality_only", n)
		res.Nontrivial = n >= 20
		return
	case "fileset":
		c42FileSet(in.Set, &res)
		return
	}
	x := c42Render(in.Prog, in.Style)
	text := x.sb.String()
	res.Digest = text
	res.Sample = map[string]any{"src": in.Src, "text": trunc(text, 400)}
	if _, err := d2parser.Parse("x.d2", strings.NewReader(text), nil); err != nil {
		res.Inc("vacuous_render_does_not_parse")
		c42Totality(text, &res, true)
		return
	}
	// --- board at every position
	npos, mism := 0, 0
	c42Positions(text, func(line, col, off int) {
		npos++
		got, _ := d2lsp.GetBoardAtPosition(text, d2ast.Position{Line: line, Column: col})
		var want []string
		var wantSpan *c42Span
		for i := range x.spans {
			sp := &x.spans[i]
			if off >= sp.open && off < sp.close && (wantSpan == nil || len(sp.path) > len(wantSpan.path)) {
				wantSpan = sp
			}
		}
		if wantSpan != nil {
			want = wantSpan.path
		}
		if !c42PathEq(got, want) && mism < 3 {
			mism++
			trig := "inside-board-block"
			switch {
			case wantSpan != nil && wantSpan.pathForm:
				trig = "board-declared-in-path-form"
			case len(got) == 0 && len(want) > 0 && c42InKeywordGap(x, wantSpan, off):
				trig = "between-boards-of-a-nested-board-block"
			case len(got) > len(want):
				trig = "reported-deeper-than-innermost"
			case len(got) == 0:
				trig = "no-board-reported"
			}
			res.Viol("C42.board-at-position", "C42.board-at-position:"+trig,
				fmt.Sprintf("at line %d column %d (byte %d) GetBoardAtPosition = %v, innermost board block containing the position = %v\ntext:\n%s", line, col, off, got, want, text))
		}
	})
	res.Add("board_positions_judged", npos)
	res.Add("board_blocks", len(x.spans))
	res.Add("board_blocks_on_one_line", x.oneLineBoards)
	res.Add("board_keyword_blocks_on_one_line", x.oneLineKw)
	res.Add("trailing_comments_after_one_line_block", x.trailing)
	// --- completion at every position
	c42Totality(text, &res, false)
	// --- reference ranges
	type bk struct{ board, key string }
	keys := map[bk][]c42Occ{}
	var order []bk
	for _, o := range x.occs {
		k := bk{strings.Join(o.board, "\x1f"), strings.ToLower(strings.Join(o.abs, "\x1f"))}
		if _, ok := keys[k]; !ok {
			order = append(order, k)
		}
		keys[k] = append(keys[k], o)
	}
	fs := map[string]string{"x.d2": text}
	judgedKeys := 0
	for _, k := range order {
		occs := keys[k]
		o0 := occs[0]
		keyStr := c42Key(o0.abs, nil)
		var ranges []d2ast.Range
		var err error
		crashed := false
		func() {
			defer func() {
				if e := recover(); e != nil {
					crashed = true
					sig, _ := run.PanicSig(fmt.Sprint(e), string(debug.Stack()))
					res.Inc("refranges_panic_not_judged:" + sig)
					res.Sample = map[string]any{"refranges_panic": sig, "board": o0.board, "key": keyStr, "text": trunc(text, 600)}
				}
			}()
			ranges, _, err = d2lsp.GetRefRanges("x.d2", fs, o0.board, keyStr)
		}()
		if crashed {
			res.Inc("refranges_panic_not_judged")
			continue
		}
		if err != nil {
			res.Inc("refranges_error:" + c12ErrClass(c14StripPos(err.Error())))
			continue
		}
		judgedKeys++
		last := o0.abs[len(o0.abs)-1]
		have := map[[2]int]bool{}
		for _, rg := range ranges {
			have[[2]int{rg.Start.Byte, rg.End.Byte}] = true
			if msg := c42RangeNames(rg, fs, last); msg != "" {
				res.Viol("C42.ref-range-does-not-name-key", "C42.ref-range-does-not-name-key:"+c42RangeClass(msg),
					fmt.Sprintf("GetRefRanges(board=%v, key=%s): %s\ntext:\n%s", o0.board, keyStr, msg, text))
				break
			}
		}
		res.Add("ref_ranges_checked", len(ranges))
		for _, o := range occs {
			if !o.decl {
				continue
			}
			res.Inc("declarations_expected")
			if !have[[2]int{o.start, o.end}] {
				res.Viol("C42.declaration-not-returned", "C42.declaration-not-returned:"+c42DeclClass(o, len(ranges)),
					fmt.Sprintf("GetRefRanges(board=%v, key=%s) returned %d ranges, none is the declaration at bytes [%d,%d) %q\ntext:\n%s", o.board, keyStr, len(ranges), o.start, o.end, text[o.start:o.end], text))
				break
			}
		}
	}
	res.Add("keys_judged", judgedKeys)
	res.Nontrivial = npos >= 20 && len(x.spans) >= 1 && judgedKeys >= 1
	return
}

// c42InKeywordGap: the position is inside the wanted board but inside one of its
// `layers|scenarios|steps: {` blocks and outside every board of that block.
func c42InKeywordGap(x *c42Renderer, want *c42Span, off int) bool {
	if want == nil {
		return false
	}
	for _, k := range x.kw {
		if off >= k.open && off < k.close && c42PathEq(k.path, want.path) {
			return true
		}
	}
	return false
}

func c42DeclClass(o c42Occ, n int) string {
	switch {
	case n == 0:
		return "key-not-found"
	case len(o.board) > 0:
		return "in-nested-board"
	case len(o.abs) > 1:
		return "nested-key"
	}
	return "root-key"
}

func c42RangeClass(msg string) string {
	if i := strings.Index(msg, ":"); i > 0 {
		return strings.ReplaceAll(msg[:i], " ", "-")
	}
	return "other"
}

// c42RangeNames checks that the range, sliced out of its file, is one key segment naming last.
func c42RangeNames(rg d2ast.Range, fs map[string]string, last string) string {
	src, ok := fs[rg.Path]
	if !ok {
		return fmt.Sprintf("range names unknown file: %q", rg.Path)
	}
	if rg.Start.Byte < 0 || rg.End.Byte > len(src) || rg.Start.Byte > rg.End.Byte {
		return fmt.Sprintf("range outside file: %v (file has %d bytes)", rg, len(src))
	}
	sl := src[rg.Start.Byte:rg.End.Byte]
	kp, err := d2parser.ParseKey(sl)
	if err != nil || kp == nil || len(kp.Path) == 0 {
		return fmt.Sprintf("slice does not parse as key: %q (%v)", sl, err)
	}
	if len(kp.Path) != 1 {
		return fmt.Sprintf("slice is not one segment: %q", sl)
	}
	if !strings.EqualFold(kp.Path[0].Unbox().ScalarString(), last) {
		return fmt.Sprintf("slice names another key: %q, wanted %q", sl, last)
	}
	return ""
}

func c42FileSet(set *gen.ImportSet, res *run.Result) {
	fs := map[string]string{}
	var names []string
	for p, st := range set.Files {
		fs[p] = gen.LRender(st)
		names = append(names, p)
	}
	sort.Strings(names)
	var all strings.Builder
	for _, p := range names {
		fmt.Fprintf(&all, "-- %s --\n%s", p, fs[p])
	}
	res.Digest = all.String()
	res.Sample = map[string]any{"files": trunc(all.String(), 400)}
	var keys []string
	for _, a := range []string{"a", "b", "c", "d", "e"} {
		keys = append(keys, a)
		for _, b := range []string{"a", "b", "c"} {
			keys = append(keys, a+"."+b)
		}
	}
	for i := 1; i <= 8; i++ {
		m := fmt.Sprintf("m%d", i)
		keys = append(keys, m, m+".a", m+".b", m+".c.a", m+".k1", m+".k2")
	}
	n := 0
	for _, k := range keys {
		var ranges, imps []d2ast.Range
		var err error
		crashed := false
		func() {
			defer func() {
				if e := recover(); e != nil {
					crashed = true
					sig, _ := run.PanicSig(fmt.Sprint(e), string(debug.Stack()))
					res.Inc("refranges_panic_not_judged:" + sig)
					res.Sample = map[string]any{"refranges_panic": sig, "key": k, "files": trunc(all.String(), 700)}
				}
			}()
			ranges, imps, err = d2lsp.GetRefRanges(set.Main, fs, nil, k)
		}()
		if crashed {
			res.Inc("refranges_panic_not_judged")
			return
		}
		if err != nil {
			res.Inc("refranges_error:" + c12ErrClass(c14StripPos(err.Error())))
			return
		}
		last := k[strings.LastIndex(k, ".")+1:]
		for _, rg := range ranges {
			n++
			if rg.Path != set.Main {
				res.Inc("ref_ranges_in_imported_files")
			}
			if msg := c42RangeNames(rg, fs, last); msg != "" {
				res.Viol("C42.ref-range-does-not-name-key", "C42.ref-range-does-not-name-key:fileset:"+c42RangeClass(msg),
					fmt.Sprintf("GetRefRanges(%s, key=%s): %s\nfiles:\n%s", set.Main, k, msg, all.String()))
				return
			}
		}
		for _, rg := range imps {
			src := fs[rg.Path]
			if rg.Start.Byte < 0 || rg.End.Byte > len(src) || !strings.Contains(src[rg.Start.Byte:rg.End.Byte], "@") {
				res.Viol("C42.import-range-is-not-an-import", "C42.import-range-is-not-an-import", fmt.Sprintf("key %s: import range %v\nfiles:\n%s", k, rg, all.String()))
				return
			}
			res.Inc("import_ranges_checked")
		}
	}
	res.Add("ref_ranges_checked", n)
	res.Nontrivial = n >= 3
}
