package mon

import (
	"fmt"
	"strings"
	"unicode/utf8"

	"verif/gen"
	"verif/run"

	"oss.terrastruct.com/d2/d2ast"
	"oss.terrastruct.com/d2/d2format"
	"oss.terrastruct.com/d2/d2graph"
	"oss.terrastruct.com/d2/d2oracle"
	"oss.terrastruct.com/d2/d2parser"
)

// C05: strings survive quoting.
//
// Oracle: round trips through the real tools.
//   key:    ParseKey(Format(KeyPath{RawString(s, true)})) is one segment with value s
//   value:  ParseValue(Format(RawString(s, false))) is a string node with value s
//           (a Number is accepted when its text is s; never Null/Boolean/Suspension)
//   edit:   d2oracle.Set(g, "x.label", s) — the label of x in the returned graph is s and
//           the written source (Format(g.AST)) compiles to label s again.

type c05In struct {
	S   string `json:"s"`
	Src string `json:"src"`
}

func init() {
	run.Register(&run.Check{
		ID: "C05", Title: "Strings survive quoting",
		LevelText: "Exploration with an exhaustive core: every string of ≤2 symbols over a 40-symbol hostile alphabet, every keyword in four letter cases, and tens of thousands of random hostile Unicode strings (≤64 runes) are rendered as a key segment (RawString(s,true) → Format → ParseKey), as a value (RawString(s,false) → Format → ParseValue) and written through d2oracle.Set as a label; the parsed/compiled string must equal s exactly and must stay a string.",
		Technique: "runtime monitoring: round-trip oracle (generate syntax → parse back) over exhaustive short and random hostile strings",
		DesignRef: "§4 C05",
		Rule:      "cases: all strings of length ≤2 over gen.HostileAlphabet (1641), keywords × {lower, UPPER, Title, mIxEd}, numbers/whitespace/escape specials, gen.Name(hostile) and gen.UnicodeText up to 64 runes; valid UTF-8 only; distinct by the string; non-trivial when the string needs quoting or escaping (differs from its own formatted form) or is keyword/number-like",
		Chunk:     128,
		Gen:       genC05,
		Exec:      execC05,
	})
}

func genC05(seed int64, tier string, emit func(run.Case)) {
	r := gen.New(seed)
	n := tierN(tier, 20000, 800000)
	id := 0
	seen := map[string]bool{}
	add := func(s, src string) {
		if seen[s] || !utf8.ValidString(s) {
			return
		}
		seen[s] = true
		id++
		emit(run.MkCase(fmt.Sprintf("c%07d", id), src, c05In{S: s, Src: src}))
	}
	add("", "exhaustive")
	for _, a := range gen.HostileAlphabet {
		add(a, "exhaustive")
		for _, b := range gen.HostileAlphabet {
			add(a+b, "exhaustive")
		}
	}
	for _, k := range gen.Keywords {
		add(k, "keyword")
		add(strings.ToUpper(k), "keyword")
		add(strings.ToUpper(k[:1])+k[1:], "keyword")
		add(r.RandCase(k), "keyword")
		add(k+" ", "keyword")
		add(" "+k, "keyword")
		add(k+".x", "keyword")
		// Unicode simple case folding: ſ (U+017F) folds to s, K (U+212A, Kelvin) to k
		for _, v := range c05FoldVariants(k) {
			add(v, "keyword-fold")
			add(r.RandCase(v), "keyword-fold")
		}
	}
	for _, s := range []string{"0", "1", "-1", "1.5", "1e3", "0x10", "007", "+5", ".5", "5.", "NaN", "Inf", "1_000", "١٢٣",
		"\\", "\\\\", "\\n", "\\\"", "a\\", "a\nb", "a\r\nb", "\ta", "a\t", "a  b", "${x}", "$x", "a${b}c", "$", "${", "#", "a#b", "a #b",
		"|", "||", "|md x|", "`", "'a'", "\"a\"", "'\"", "a'b\"c", "a'b\"c\nd", "...", "...@x", "@x", "a;b", "a:b", "a: b", "{a}", "[a]", "(a -> b)[0]",
		"a -> b", "a--b", "a<-b", "*", "**", "a*", "&a", "!&a", "_", "__", "-", "--", "->", "<-", "a-", "-a", "x.y", "x\\.y", " a", "a ", " ", "\ufeff"} {
		add(s, "special")
	}
	for i := 0; i < n; i++ {
		q := r.Sub(i)
		switch q.Intn(3) {
		case 0:
			add(gen.Name(q, true, 64), "hostile")
		case 1:
			add(gen.UnicodeText(q, 64), "unicode")
		default:
			// three to four hostile symbols
			s := ""
			for k := q.Range(3, 4); k > 0; k-- {
				s += gen.Pick(q, gen.HostileAlphabet)
			}
			add(s, "alphabet34")
		}
	}
}

// c05FoldVariants returns spellings of k that are equal to k under Unicode simple case
// folding (strings.EqualFold) but not under ASCII lower-casing.
func c05FoldVariants(k string) []string {
	var out []string
	for i, c := range k {
		var repl string
		switch c {
		case 's':
			repl = "\u017f"
		case 'k':
			repl = "\u212a"
		default:
			continue
		}
		out = append(out, k[:i]+repl+k[i+1:])
	}
	if strings.ContainsAny(k, "sk") {
		all := strings.NewReplacer("s", "\u017f", "k", "\u212a").Replace(k)
		out = append(out, all, strings.ToUpper(k[:1])+all[len(k[:1]):])
	}
	return out
}

// c05Class names what kind of string s is (for signatures; never the string itself).
func c05Class(s string) string {
	ls := strings.ToLower(strings.TrimSpace(s))
	switch {
	case s == "":
		return "empty"
	case ls == "null" || ls == "true" || ls == "false" || ls == "suspend" || ls == "unsuspend":
		if s != ls {
			return "literal-keyword-in-other-case-or-padded"
		}
		return "literal-keyword"
	}
	if _, ok := d2ast.ReservedKeywords[ls]; ok {
		if s == ls {
			return "reserved-keyword"
		}
		return "reserved-keyword-in-other-case-or-padded"
	}
	for _, k := range gen.Keywords {
		if strings.EqualFold(k, strings.TrimSpace(s)) {
			return "keyword-under-unicode-case-folding"
		}
	}
	switch {
	case strings.ContainsAny(s, "\n\r"):
		return "contains-newline"
	case strings.Contains(s, "\\"):
		return "contains-backslash"
	case strings.Contains(s, "$"):
		return "contains-dollar"
	case strings.ContainsAny(s, "'\"") && strings.ContainsAny(s, "|`"):
		return "contains-quote-and-pipe-or-backtick"
	case strings.ContainsAny(s, "'\""):
		return "contains-quote"
	case strings.TrimSpace(s) != s:
		return "surrounding-whitespace"
	case strings.ContainsAny(s, "#;:{}[]()|&*@!<>-._"):
		return "contains-syntax-character"
	}
	return "plain"
}

func execC05(c run.Case) (res run.Result) {
	var in c05In
	c.Decode(&in)
	s := in.S
	cls := c05Class(s)
	res.Inc("class_" + cls)
	res.Inc("src_" + in.Src)
	q := fmt.Sprintf("%q", s)

	// key side
	ktxt := d2format.Format(&d2ast.KeyPath{Path: []*d2ast.StringBox{d2ast.RawStringBox(s, true)}})
	kp, err := d2parser.ParseKey(ktxt)
	switch {
	case err != nil:
		res.Viol("C05.key-does-not-parse", "C05.key-does-not-parse:"+cls, fmt.Sprintf("string %s rendered as key %q: %v", q, ktxt, err))
	case len(kp.Path) != 1:
		res.Viol("C05.key-splits", "C05.key-splits:"+cls, fmt.Sprintf("string %s rendered as key %q parses to %d segments", q, ktxt, len(kp.Path)))
	case kp.Path[0].Unbox().ScalarString() != s:
		res.Viol("C05.key-roundtrip", "C05.key-roundtrip:"+cls, fmt.Sprintf("string %s rendered as key %q parses back to %q", q, ktxt, kp.Path[0].Unbox().ScalarString()))
	}

	// value side
	vtxt := d2format.Format(d2ast.RawString(s, false))
	pv, err := d2parser.ParseValue(vtxt)
	if err != nil {
		res.Viol("C05.value-does-not-parse", "C05.value-does-not-parse:"+cls, fmt.Sprintf("string %s rendered as value %q: %v", q, vtxt, err))
	} else {
		switch t := pv.(type) {
		case d2ast.String:
			if t.ScalarString() != s {
				res.Viol("C05.value-roundtrip", "C05.value-roundtrip:"+cls, fmt.Sprintf("string %s rendered as value %q parses back to %q", q, vtxt, t.ScalarString()))
			}
			if len(pv.Children()) > 0 {
				res.Viol("C05.value-gains-substitution", "C05.value-gains-substitution:"+cls, fmt.Sprintf("string %s rendered as value %q parses back with a substitution", q, vtxt))
			}
		case *d2ast.Number:
			if t.Raw != s {
				res.Viol("C05.value-roundtrip", "C05.value-roundtrip:number:"+cls, fmt.Sprintf("string %s rendered as value %q parses back to number %q", q, vtxt, t.Raw))
			}
		default:
			res.Viol("C05.value-changes-type", fmt.Sprintf("C05.value-changes-type:%s:%s", strings.TrimPrefix(fmt.Sprintf("%T", pv), "*d2ast."), cls), fmt.Sprintf("string %s rendered as value %q parses back as %T", q, vtxt, pv))
		}
	}

	// through the editing API
	g, _, err := compile("x\n")
	if err == nil {
		g2, err := d2oracle.Set(g, nil, "x.label", nil, &s)
		if err != nil {
			res.Inc("set_refused")
		} else {
			res.Inc("set_ok")
			if lbl := c05Label(g2); lbl != s {
				res.Viol("C05.set-label", "C05.set-label:returned-graph:"+cls, fmt.Sprintf("Set(x.label, %s): label in the returned graph is %q", q, lbl))
			}
			src := d2format.Format(g2.AST)
			g3, _, err := compile(src)
			if err != nil {
				res.Viol("C05.set-source-does-not-compile", "C05.set-source-does-not-compile:"+cls, fmt.Sprintf("Set(x.label, %s) wrote %q: %v", q, src, err))
			} else if lbl := c05Label(g3); lbl != s {
				res.Viol("C05.set-label", "C05.set-label:written-source:"+cls, fmt.Sprintf("Set(x.label, %s) wrote %q which compiles to label %q", q, src, lbl))
			}
		}
	}
	res.Nontrivial = cls != "plain"
	res.Digest = "s:" + s
	res.Sample = map[string]any{"s": trunc(s, 80), "class": cls, "as_key": trunc(ktxt, 100), "as_value": trunc(vtxt, 100)}
	return
}

func c05Label(g *d2graph.Graph) string {
	for _, o := range g.Objects {
		if strings.EqualFold(o.ID, "x") {
			return o.Label.Value
		}
	}
	return "<object x missing>"
}
