package mon

import (
	"fmt"
	"path"
	"sort"
	"strings"
	"testing/fstest"

	"verif/gen"
	"verif/proj"
	"verif/run"

	"oss.terrastruct.com/d2/d2compiler"
	"oss.terrastruct.com/d2/d2graph"
)

// C14 — imports behave like inlining, and import cycles are always reported.
//
// Oracle 1 (metamorphic, through the real compiler): the monitor's own inliner replaces every
// import of a generated file set (in-memory fs.FS) by the imported file's statements — resolving
// the import path itself (relative to the importing file, `./`, `../`, redundant spellings,
// extension present or absent), rebasing relative icons by the import's directory — and
// requires π(Compile(main, FS)) == π(Compile(inline(main))) as a multiset per board.
// The generator only produces the import positions the statement covers: a spread at the very
// top of a file, a spread as the only content of a map, a value import into a fresh key, an
// import key; imported files only hold board-wide (***) globs.
//
// Oracle 2: for file sets whose import chain leads back to a file being imported (length 1–4,
// every import form, equivalent spellings of the same file) compilation must return — within
// the CPU budget — an error containing `detected cyclic import chain`, never a graph. A crash
// or a hang of such a case is converted into a violation by the Post step (unbounded recursion
// is exactly what the clause forbids).

func init() {
	run.Register(&run.Check{
		ID: "C14", Title: "Imports behave like inlining, and import cycles are always reported",
		LevelText: "Exploration: for every generated file set (1–4 imported files; top-level spread, spread in an otherwise empty map, value import, import key; nested imports; ./ ../ redundant and extension spellings; relative icons; *** globs) the monitor compiles main through an in-memory fs.FS and the inlined twin built by its own inliner and requires equal projections (multiset per board); for cyclic sets of every length 1–4 through every import form it requires the error `detected cyclic import chain` within the CPU budget.",
		Technique: "runtime monitoring: metamorphic oracle compile(main, FS) = compile(inline(main)); error oracle for cyclic import chains",
		DesignRef: "§4 C14",
		Rule:      "cases: gen.ImportProgram / gen.ImportCycle (structured file sets rendered in the worker); distinct by sha256 of the rendered files; non-trivial when ≥1 import was inlined and both compilations succeeded with ≥2 objects, or a cyclic set was judged",
		Chunk:     32,
		CPUBudget: 30,
		Gen:       genC14,
		Exec:      execC14,
		Post:      postC14,
	})
}

type c14In struct {
	Set *gen.ImportSet `json:"set"`
}

func genC14(seed int64, tier string, emit func(run.Case)) {
	r := gen.New(seed)
	n := tierN(tier, 2500, 40000)
	for i := 0; i < n; i++ {
		q := r.Sub(i)
		if i%5 == 4 {
			if (i/5)%4 == 3 && q.P(0.5) {
				// a cycle through a file whose written import path collides with another file's
				emit(run.MkCase(fmt.Sprintf("c%07d", i), "cycle", c14In{Set: gen.ImportCollision(q, true)}))
				continue
			}
			emit(run.MkCase(fmt.Sprintf("c%07d", i), "cycle", c14In{Set: gen.ImportCycle(q, 1+(i/5)%4)}))
			continue
		}
		if i%5 == 2 {
			// the same written import path in files of different directories
			emit(run.MkCase(fmt.Sprintf("c%07d", i), "inline", c14In{Set: gen.ImportCollision(q, false)}))
			continue
		}
		if i%50 == 7 {
			emit(run.MkCase(fmt.Sprintf("c%07d", i), "inline", c14In{Set: gen.ImportVarsBlockString(q)}))
			continue
		}
		emit(run.MkCase(fmt.Sprintf("c%07d", i), "inline", c14In{Set: gen.ImportProgram(q, tier == "thorough" && q.P(0.5))}))
	}
}

// c14Resolve is the monitor's own import path resolution.
func c14Resolve(from string, imp *gen.LImp) (target, dir string) {
	p := path.Clean(imp.Path)
	dir = path.Dir(p)
	if !strings.HasSuffix(p, ".d2") {
		p += ".d2"
	}
	return path.Join(path.Dir(from), p), dir
}

func c14Remote(v string) bool {
	return strings.Contains(v, "://") || strings.HasPrefix(v, "/")
}

func c14Rebase(stmts []*gen.LStmt, dir string, n *int) {
	for _, s := range stmts {
		if s.Raw == "" && !s.IsEdge() && len(s.Key) > 0 && s.Key[len(s.Key)-1] == "icon" && s.Val != nil && len(s.Val.Parts) == 1 {
			v := s.Val.Parts[0].Lit
			if !c14Remote(v) {
				s.Val.Parts[0].Lit = path.Join(dir, v)
				*n++
			}
		}
		c14Rebase(s.Body, dir, n)
	}
}

type c14Info struct {
	forms    map[string]int
	inlined  int
	rebased  int
	depth    int
	missing  string
	unjudged string
}

func c14HasGlob(stmts []*gen.LStmt) bool {
	for _, s := range stmts {
		if s.Tag == "glob" || c14HasGlob(s.Body) {
			return true
		}
	}
	return false
}

type c14Inliner struct {
	set     *gen.ImportSet
	info    c14Info
	written map[string]string // written import path -> first resolved target
}

func (x *c14Inliner) file(p string, depth int) []*gen.LStmt {
	if depth > x.info.depth {
		x.info.depth = depth
	}
	if depth > 8 {
		x.info.missing = "import depth > 8"
		return nil
	}
	return x.stmts(x.set.Files[p], p, depth)
}

func (x *c14Inliner) stmts(in []*gen.LStmt, file string, depth int) []*gen.LStmt {
	var out []*gen.LStmt
	for _, s := range in {
		if s.Imp == nil {
			c := *s
			if s.Body != nil {
				c.Body = x.stmts(s.Body, file, depth)
			}
			out = append(out, &c)
			continue
		}
		target, dir := c14Resolve(file, s.Imp)
		if _, ok := x.set.Files[target]; !ok {
			x.info.missing = fmt.Sprintf("import %q from %s resolves to %s which is not in the set", s.Imp.Path, file, target)
			continue
		}
		x.info.inlined++
		x.info.forms[s.Tag]++
		if x.written == nil {
			x.written = map[string]string{}
		}
		if first, ok := x.written[s.Imp.Path]; ok && first != target {
			x.info.forms["same-written-path-denotes-different-files"]++
		} else if !ok {
			x.written[s.Imp.Path] = target
		}
		if c14HasGlob(x.set.Files[target]) {
			x.info.forms["imported-file-has-triple-glob"]++
			if len(s.Imp.Key) > 0 {
				// the glob acts on the key's object inside the imported file; the monitor's
				// inliner only carries the object's own definition: not judged
				x.info.unjudged = "import_key_from_file_with_glob"
			}
		}
		if s.Imp.Quoted {
			x.info.forms["path-quoted"]++
		}
		if strings.Contains(s.Imp.Path, "zz/..") {
			x.info.forms["path-redundant-spelling"]++
		}
		if strings.HasSuffix(s.Imp.Path, ".d2") {
			x.info.forms["path-with-extension"]++
		}
		if strings.HasPrefix(s.Imp.Path, "../") {
			x.info.forms["path-parent-dir"]++
		}
		if depth > 0 {
			x.info.forms["nested-import"]++
		}
		body := gen.LClone(x.file(target, depth+1))
		c14Rebase(body, dir, &x.info.rebased)
		switch {
		case len(s.Imp.Key) > 0:
			var ko *gen.LStmt
			for _, b := range body {
				if b.Imp == nil && !b.IsEdge() && len(b.Key) == 1 && strings.EqualFold(b.Key[0], s.Imp.Key[0]) {
					ko = b
				}
			}
			if ko == nil {
				x.info.missing = "import key not defined by one statement"
				continue
			}
			out = append(out, &gen.LStmt{Key: s.Key, Val: ko.Val, Body: ko.Body, HasBody: ko.HasBody})
		case s.Imp.Spread:
			out = append(out, body...)
		default:
			out = append(out, &gen.LStmt{Key: s.Key, Body: body, HasBody: true})
		}
	}
	return out
}

func c14FS(set *gen.ImportSet) (fstest.MapFS, string) {
	fs := fstest.MapFS{}
	var names []string
	for p := range set.Files {
		names = append(names, p)
	}
	sort.Strings(names)
	var all strings.Builder
	for _, p := range names {
		t := gen.LRender(set.Files[p])
		fs[p] = &fstest.MapFile{Data: []byte(t)}
		fmt.Fprintf(&all, "-- %s --\n%s", p, t)
	}
	return fs, all.String()
}

func c14Compile(set *gen.ImportSet) (*d2graph.Graph, error, string) {
	fs, all := c14FS(set)
	g, _, err := d2compiler.Compile(set.Main, strings.NewReader(string(fs[set.Main].Data)), &d2compiler.CompileOptions{FS: fs})
	return g, err, all
}

type c14Verdict struct {
	clause, detail, vacuous string
	info                    c14Info
	all                     string
	iconOnly                bool
}

func c14StripIcons(s string) string {
	// compare modulo icon values: drop the lines of the icon URL rendering
	var out []string
	lines := strings.Split(s, "\n")
	for i := 0; i < len(lines); i++ {
		if strings.Contains(lines[i], `"icon": {`) {
			depth := 0
			for ; i < len(lines); i++ {
				depth += strings.Count(lines[i], "{") - strings.Count(lines[i], "}")
				if depth <= 0 {
					break
				}
			}
			out = append(out, `"icon": <any>`)
			continue
		}
		out = append(out, lines[i])
	}
	return strings.Join(out, "\n")
}

func c14Judge(set *gen.ImportSet) (v c14Verdict) {
	x := &c14Inliner{set: set, info: c14Info{forms: map[string]int{}}}
	twin := x.file(set.Main, 0)
	v.info = x.info
	gP, errP, all := c14Compile(set)
	v.all = all
	if x.info.missing != "" {
		v.vacuous = "vacuous_generator:" + x.info.missing
		return
	}
	if x.info.unjudged != "" {
		v.vacuous = "unjudged_" + x.info.unjudged
		return
	}
	textT := gen.LRender(twin)
	gT, _, errT := d2compiler.Compile(set.Main, strings.NewReader(textT), nil)
	switch {
	case errP != nil && errT != nil:
		v.vacuous = "vacuous_both_rejected:" + c12ErrClass(c14StripPos(errT.Error()))
		return
	case errT != nil:
		v.vacuous = "vacuous_twin_error:" + c12ErrClass(c14StripPos(errT.Error()))
		v.detail = fmt.Sprintf("%v\n%s", errT, textT)
		return
	case errP != nil:
		v.clause = "C14.import-rejected"
		v.detail = fmt.Sprintf("the inlined twin compiles but the file set fails: %v\nfiles:\n%s\ntwin:\n%s", errP, all, textT)
		return
	}
	pP, pT := proj.Graph(gP, proj.Opts{}).Sorted().String(), proj.Graph(gT, proj.Opts{}).Sorted().String()
	if pP != pT {
		v.clause = "C14.inline-differs"
		v.iconOnly = c14StripIcons(pP) == c14StripIcons(pT)
		v.detail = fmt.Sprintf("files:\n%s\ninlined twin:\n%s\nπ(import) vs π(inline): %s", all, textT, proj.Diff(pP, pT))
	}
	if len(gP.Objects) < 2 {
		v.vacuous = "trivial"
	}
	return
}

func c14StripPos(s string) string {
	if i := strings.Index(s, ": "); i >= 0 && strings.Contains(s[:i], ".d2:") {
		return s[i+2:]
	}
	return s
}

func c14Sig(v c14Verdict) string {
	var ks []string
	for k := range v.info.forms {
		ks = append(ks, k)
	}
	sort.Strings(ks)
	s := v.clause + ":" + strings.Join(ks, "+")
	switch {
	case v.info.forms["imported-file-has-triple-glob"] > 0 && v.clause == "C14.inline-differs":
		s = v.clause + ":imported-file-has-triple-glob"
	case v.iconOnly && v.info.forms["import-key"] > 0:
		s = v.clause + ":icon-not-rebased-through-import-key"
	case v.iconOnly:
		s = v.clause + ":only-icon-values-differ:" + strings.Join(ks, "+")
	}
	if v.clause == "C14.import-rejected" {
		d := strings.TrimPrefix(v.detail, "the inlined twin compiles but the file set fails: ")
		s += ":" + c12ErrClass(c14StripPos(d))
	}
	return s
}

// c14Shrink removes statements file by file while the same clause keeps failing.
func c14Shrink(set *gen.ImportSet, clause string) *gen.ImportSet {
	cur := &gen.ImportSet{Main: set.Main, Files: map[string][]*gen.LStmt{}}
	var names []string
	for p, st := range set.Files {
		cur.Files[p] = gen.LClone(st)
		names = append(names, p)
	}
	sort.Strings(names)
	for round := 0; round < 1; round++ {
		for _, p := range names {
			cur.Files[p] = gen.LShrink(cur.Files[p], func(cand []*gen.LStmt) bool {
				try := &gen.ImportSet{Main: cur.Main, Files: map[string][]*gen.LStmt{}}
				for q, st := range cur.Files {
					try.Files[q] = st
				}
				try.Files[p] = cand
				w := c14Judge(try)
				return w.clause == clause
			}, 40)
		}
	}
	return cur
}

func execC14(c run.Case) (res run.Result) {
	var in c14In
	c.Decode(&in)
	set := in.Set
	if c.Kind == "cycle" {
		g, err, all := c14Compile(set)
		res.Digest = all
		res.Sample = map[string]any{"files": trunc(all, 500), "cycle": set.Cycle}
		res.Inc(fmt.Sprintf("cycle_length_%d_judged", len(set.Cycle)))
		for _, p := range set.Cycle {
			for _, s := range set.Files[p] {
				c14CountImports(s, &res)
			}
		}
		switch {
		case err == nil:
			res.Viol("C14.cycle-accepted", fmt.Sprintf("C14.cycle-accepted:length-%d", len(set.Cycle)), fmt.Sprintf("cyclic file set compiled without error (graph=%v)\n%s", g != nil, all))
		case !strings.Contains(err.Error(), "detected cyclic import chain"):
			res.Viol("C14.cycle-other-error", "C14.cycle-other-error:"+c12ErrClass(c14StripPos(err.Error())), fmt.Sprintf("expected `detected cyclic import chain`, got: %v\n%s", err, all))
		case g != nil:
			res.Viol("C14.cycle-graph-returned", "C14.cycle-graph-returned", all)
		}
		res.Nontrivial = true
		return
	}
	v := c14Judge(set)
	res.Digest = v.all
	res.Sample = map[string]any{"files": trunc(v.all, 600)}
	for k, n := range v.info.forms {
		res.Add("form_"+k, n)
	}
	res.Add("imports_inlined", v.info.inlined)
	res.Add("icons_rebased", v.info.rebased)
	res.Inc(fmt.Sprintf("import_depth_%d", v.info.depth))
	if v.vacuous != "" && v.clause == "" {
		res.Inc(v.vacuous)
		return
	}
	if v.clause != "" {
		small := c14Shrink(set, v.clause)
		if w := c14Judge(small); w.clause == v.clause {
			w.detail = "(shrunk) " + w.detail
			res.Viol(v.clause, c14Sig(w), w.detail)
		} else {
			res.Viol(v.clause, c14Sig(v), v.detail)
		}
		return
	}
	res.Inc("judged")
	res.Nontrivial = v.info.inlined >= 1
	return
}

func c14CountImports(s *gen.LStmt, res *run.Result) {
	if s.Imp != nil {
		res.Inc("cycle_form_" + s.Tag)
	}
	for _, b := range s.Body {
		c14CountImports(b, res)
	}
}

// postC14 turns a crash or hang of a *cyclic* case into a violation: unbounded recursion on a
// cyclic import chain is what the property forbids (for acyclic cases a crash belongs to C07).
func postC14(d *run.Driver, results []run.Result) {
	cases := map[string]run.Case{}
	genC14(d.Seed, d.Tier, func(c run.Case) { cases[c.ID] = c })
	for _, r := range results {
		c, ok := cases[r.ID]
		if !ok || c.Kind != "cycle" || r.CrashSkipped == "" {
			continue
		}
		d.ReportViolation(c, run.Violation{
			Clause: "C14.cycle-not-reported",
			Sig:    "C14.cycle-not-reported:" + r.CrashSkipped,
			Msg:    "compilation of a cyclic file set crashed or exceeded its CPU budget instead of reporting the cycle: " + r.CrashSkipped,
		})
	}
}
