package mon

import (
	"encoding/json"
	"fmt"
	"os"
	"testing"

	"verif/run"
)

func TestBWDump(t *testing.T) {
	id := os.Getenv("BW_ID")
	tier := os.Getenv("BW_TIER")
	if tier == "" {
		tier = "quick"
	}
	chk := run.Lookup(id)
	os.MkdirAll("/tmp/builder-watch/cases/"+id, 0o755)
	chk.Gen(1, tier, func(c run.Case) {
		b, _ := json.Marshal(run.ReplayFile{Property: id, Tier: tier, Seed: 1, Case: c})
		os.WriteFile(fmt.Sprintf("/tmp/builder-watch/cases/%s/%s.json", id, c.ID), b, 0o644)
	})
}
