package mon

import (
	"bytes"
	"context"
	"crypto/sha256"
	"encoding/hex"
	"encoding/json"
	"fmt"
	"os"
	"os/exec"
	"path/filepath"
	"regexp"
	"runtime"
	"runtime/debug"
	"sort"
	"strings"
	"sync"
	"time"

	"verif/gen"
	"verif/run"

	"oss.terrastruct.com/d2/d2renderers/d2svg"
)

// C25: compiling, laying out and rendering the same input with the same options produces
// byte-identical SVG every time: repeatedly in one process, in separate processes, and
// while other diagrams are processed concurrently in the same process.
//
// Workload per case (one input × engine × sketch on/off), executed in a `-race` worker:
//
//	seq    the input is rendered (d2lib.Compile → layout → d2svg.Render of every board, fonts
//	       embedded, fresh ruler) twice in a row;
//	conc   GOMAXPROCS is set to the case's value (1, 2, 4 or 16) and 8 goroutines (4 for ELK / sketch)
//	       start behind a barrier: half render this input, the others render two different
//	       diagrams (one of them in the opposite sketch mode, so both font families, the sketch JS
//	       runner and the plain path are in flight together);
//	cli    two fresh `d2` processes (built from the tree under test, --bundle=false so that no
//	       icon is fetched) render the input to files.
//
// Oracle: all in-process SVG byte strings of one (input, options) are identical (seq = conc,
// and each bystander diagram equals its own other render); the two CLI outputs are identical
// file by file. The race detector's reports are collected by the substrate (run/race.go):
// any report with a d2 frame is a violation of clause C25.data-race.
//
//	after  once the concurrent phase is over the input is rendered once more: the n-th render
//	       in a long-lived process, after other diagrams were processed, must equal the first;
//	cli=   for single-board inputs the file a fresh `d2` process writes is the library's
//	       d2svg.Render output plus a final newline (same code, same default options): the bytes
//	       of the fresh process must equal the bytes rendered in the long-lived worker.
//
// Besides gen.Diagram inputs, one case in ten is a "stateful labels" scenario
// (gen.Render1StatefulLabels): LaTeX blocks that use a control sequence which a LATER block,
// another board or ANOTHER diagram (a bystander rendered concurrently) declares
// (\DeclareMathOperator, \definecolor, \DeclarePairedDelimiter, \newcommand), plus markdown
// and code labels. A label renderer that keeps a runtime between calls leaks such
// declarations; the outputs then depend on what was rendered before. MathJax in goja under
// the race detector costs minutes per diagram, so these cases are delegated to the plain
// (non -race) build of the same harness binary (bin/vd next to bin/vd-race); the race
// detector keeps watching all other cases.
//
// Not demanded: wall-clock anything.
func init() {
	run.Register(&run.Check{
		ID: "C25", Title: "Rendering is deterministic regardless of scheduling",
		LevelText: "Exploration under the race detector: each generated diagram is rendered by dagre or ELK, with sketch mode on or off, twice sequentially, then from 4–8 goroutines at once together with other diagrams at GOMAXPROCS ∈ {1,2,4,16}, once more after the other diagrams, and by two fresh d2 CLI processes; all SVG outputs of the same (input, options) — including fresh process vs. long-lived worker for single-board inputs — must be byte-identical and the race detector must stay silent on d2 frames.",
		Technique: "runtime monitoring: byte-equality oracle across sequential / concurrent / cross-process renders + Go race detector",
		DesignRef: "§4 C25",
		Rule:      "cases per 10: 8 gen.Diagram × dagre (3 with sketch), 1 × elk, 1 stateful-labels scenario (gen.Render1StatefulLabels: LaTeX use-before-declare in the same diagram / another board / another diagram, markdown, code; run by the plain build) × GOMAXPROCS ∈ {1,2,4,16}; distinct by sha256(case); non-trivial when the input has ≥2 shapes, ≥2 sequential and ≥2 concurrent renders of it succeeded and were compared while ≥2 other renders were in flight",
		Race:      true,
		// The first (sequential) render of a case is run under recover and a panic there is
		// skipped (totality of layout/render belongs to C17). Once that render has succeeded, a
		// panic or a dead worker in a later render of the same input is non-determinism.
		PanicIsViolation: true,
		Needs:            []string{"d2"},
		Chunk:            1,
		Workers:          8,
		CPUBudget:        1500,
		WallBudget:       3600,
		Gen:              genC25,
		Exec:             execC25,
	})
}

type c25In struct {
	Text   string   `json:"text"`
	Others []string `json:"others"` // bystander diagrams rendered concurrently
	Engine string   `json:"engine"`
	Sketch bool     `json:"sketch"`
	Procs  int      `json:"procs"`
	// Stateful: a gen.Render1StatefulLabels scenario (variant name); executed by the plain build
	Stateful string `json:"stateful,omitempty"`
}

func c25Opts() gen.DiagramOpts {
	return gen.DiagramOpts{MinObjects: 2, MaxObjects: 8, MaxDepth: 3, Latex: .15, Special: .25, Icons: .2, Styles: .3, Mods: .25,
		EdgeLabels: .5, Arrowheads: .25, Near: .2, Boards: .06, Tooltips: .1, Links: .1}
}

func genC25(seed int64, tier string, emit func(run.Case)) {
	r := gen.New(seed)
	n := tierN(tier, 16, 1500)
	if tier == "mutant" {
		n = 8 // `vd run C25 mutant`: the first cases of the quick list, for validating the monitor against seeded mutants
	}
	procs := []int{1, 2, 4, 16}
	for i := 0; i < n; i++ {
		q := r.Sub(i)
		// per 10 cases: 5 dagre plain, 3 dagre sketch, 1 stateful-labels scenario, 1 elk (sketch on
		// every other one). A render under -race costs ≈1 s dagre, ≈3 s dagre+sketch, ≈5–8 s elk on
		// an idle machine.
		eng, sketch := "dagre", false
		switch i % 10 {
		case 3, 6, 8:
			sketch = true
		case 9:
			eng, sketch = "elk", (i/10)%2 == 1
		}
		if i%10 == 1 {
			main, by, variant := gen.Render1StatefulLabels(q)
			in := c25In{Text: main, Others: by, Engine: "dagre", Sketch: (i/10)%3 == 2, Procs: procs[(i/10)%len(procs)], Stateful: variant}
			emit(run.MkCase(fmt.Sprintf("c%05d", i), "stateful", in))
			continue
		}
		o := c25Opts()
		o.Engine = eng
		if tier != "thorough" {
			o.Latex = -1 // MathJax in goja under -race: tens of seconds per label (see the stateful cases)
			o.MaxObjects = 6
		}
		if eng == "elk" {
			o.MaxObjects = 5
			o.Latex = -1
		}
		in := c25In{Text: gen.Diagram(q, o), Engine: eng, Sketch: sketch, Procs: procs[i%len(procs)]}
		small := o
		small.MaxObjects = 3
		small.Latex = -1
		for k := 0; k < 2; k++ {
			in.Others = append(in.Others, gen.Diagram(q.Sub(100+k), small))
		}
		emit(run.MkCase(fmt.Sprintf("c%05d", i), eng, in))
	}
}

// c25Panic is the error a recovered panic of a render is turned into.
type c25Panic struct {
	val   any
	stack string
}

func (p *c25Panic) Error() string { return fmt.Sprintf("panic: %v", p.val) }

// c25Render is one full in-process render: compile, layout, export, render every board. A
// panic on the calling goroutine is returned as *c25Panic.
func c25Render(text, engine string, sketch bool) (svg []byte, nShapes int, err error) {
	defer func() {
		if e := recover(); e != nil {
			st := string(debug.Stack())
			if i := strings.Index(st, "\npanic("); i >= 0 {
				st = st[i+1:]
			}
			svg, err = nil, &c25Panic{val: e, stack: st}
		}
	}()
	return c25RenderRaw(text, engine, sketch)
}

func c25RenderRaw(text, engine string, sketch bool) ([]byte, int, error) {
	ro := &d2svg.RenderOpts{Sketch: c2rPtr(sketch)}
	d, _, err := c2rCompile(text, engine, nil, ro)
	if err != nil {
		return nil, 0, err
	}
	svg, err := c2rRenderAll(d, ro)
	return svg, len(d.Shapes), err
}

func c25Hash(b []byte) string {
	h := sha256.Sum256(b)
	return hex.EncodeToString(h[:6])
}

// c25DiffClass names where two documents first differ: the nearest enclosing element / CSS
// construct before the first differing byte (stable, input independent).
func c25DiffClass(a, b []byte) string {
	n := len(a)
	if len(b) < n {
		n = len(b)
	}
	i := 0
	for i < n && a[i] == b[i] {
		i++
	}
	head := a[:i]
	// inside a code snippet line (<text class="text-mono">…</text>): same characters, different
	// token boundaries / colours = the syntax highlighter tokenised the same text differently
	if k := bytes.LastIndex(head, []byte(`<text class="text-mono"`)); k >= 0 && !bytes.Contains(head[k:], []byte("</text>")) {
		strip := func(x []byte) string {
			e := bytes.Index(x[k:], []byte("</text>"))
			if e < 0 {
				return ""
			}
			return string(c25TagRe.ReplaceAll(x[k:k+e], nil))
		}
		if ta, tb := strip(a), strip(b); ta != "" && ta == tb {
			return "code-token-boundaries"
		}
		return "in-code-snippet"
	}
	lt := bytes.LastIndexByte(head, '<')
	cls := "document"
	if lt >= 0 {
		j := lt + 1
		for j < len(a) && (a[j] == '/' || a[j] == '!' || (a[j] >= 'a' && a[j] <= 'z') || (a[j] >= 'A' && a[j] <= 'Z') || a[j] == '[') {
			j++
		}
		cls = "in-" + strings.Trim(string(a[lt+1:j]), "/!")
	}
	if k := bytes.LastIndex(head, []byte("@font-face")); k >= 0 && k > bytes.LastIndex(head, []byte("]]>")) {
		cls = "in-font-face"
	}
	if len(a) != len(b) {
		cls += ":length-differs"
	}
	return cls
}

var c25TagRe = regexp.MustCompile(`<[^>]*>`)

// c25Sig: "C25.svg-differs:<phase>:<mode>:<where>", except that the one cause that is
// independent of phase and mode (the highlighter's token boundaries) leads the signature.
func c25Sig(phase, mode, where string) string {
	if where == "code-token-boundaries" {
		return "C25.svg-differs:code-token-boundaries:" + phase + ":" + mode
	}
	return "C25.svg-differs:" + phase + ":" + mode + ":" + where
}

func c25Context(a, b []byte) string {
	n := len(a)
	if len(b) < n {
		n = len(b)
	}
	i := 0
	for i < n && a[i] == b[i] {
		i++
	}
	lo := i - 120
	if lo < 0 {
		lo = 0
	}
	cut := func(x []byte) string {
		hi := i + 120
		if hi > len(x) {
			hi = len(x)
		}
		if lo > len(x) {
			return ""
		}
		return string(x[lo:hi])
	}
	return fmt.Sprintf("first difference at byte %d (lengths %d / %d)\n A: …%s…\n B: …%s…", i, len(a), len(b), cut(a), cut(b))
}

func execC25(c run.Case) (res run.Result) {
	var in c25In
	c.Decode(&in)
	if in.Stateful != "" && c25RaceBuild {
		if r, ok := c25Delegate(c); ok {
			return r
		}
		// no plain build next to this binary: run it here (slow, but still correct)
	}
	mode := in.Engine
	if in.Sketch {
		mode += "+sketch"
	}
	seenSig := map[string]bool{}
	viol := func(clause, sig, msg string) {
		if seenSig[sig] {
			res.Inc("repeat_violations_same_case")
			return
		}
		seenSig[sig] = true
		res.Viol(clause, sig, msg)
	}

	// ---- sequential
	ref, nShapes, err := c25Render(in.Text, in.Engine, in.Sketch)
	if err != nil {
		if p, ok := err.(*c25Panic); ok {
			sig, harness := run.PanicSig(fmt.Sprint(p.val), p.stack)
			if harness {
				panic(p.val)
			}
			res.CrashSkipped = sig // deterministic-looking crash of the very first render: C17's
			return
		}
		res.Inc("vacuous_compile_or_layout_error")
		return
	}
	errText := func(e error) string {
		if p, ok := e.(*c25Panic); ok {
			return p.Error() + "\n" + trunc(p.stack, 1500)
		}
		return e.Error()
	}
	errClass := func(e error) string {
		if p, ok := e.(*c25Panic); ok {
			sig, _ := run.PanicSig(fmt.Sprint(p.val), p.stack)
			return ":" + sig
		}
		return ""
	}
	c2rFeatures(in.Text, res.Inc)
	if in.Stateful != "" {
		res.Inc("stateful_" + in.Stateful)
		mode += ":stateful-labels"
	}
	res.Inc("mode_" + mode)
	res.Inc(fmt.Sprintf("gomaxprocs_%d", in.Procs))
	seqOK := 1
	again, _, err := c25Render(in.Text, in.Engine, in.Sketch)
	if err != nil {
		viol("C25.error-differs", "C25.error-differs:sequential:"+mode+errClass(err), fmt.Sprintf("first render succeeded, second failed: %s\n%s", errText(err), in.Text))
	} else {
		seqOK++
		res.Inc("renders_sequential")
		if !bytes.Equal(ref, again) {
			viol("C25.svg-differs", c25Sig("sequential", mode, c25DiffClass(ref, again)), fmt.Sprintf("two sequential renders differ: %s\n%s", c25Context(ref, again), in.Text))
		}
	}
	res.Inc("renders_sequential")

	// ---- concurrent, other diagrams in flight
	type job struct {
		text   string
		sketch bool
		self   bool
		other  int
	}
	nSelf := 4 // 8 goroutines: 4 × this input, 4 × bystanders
	if in.Engine == "elk" || in.Sketch || in.Stateful != "" {
		nSelf = 2 // 4 goroutines for the expensive modes
	}
	var jobs []job
	for i := 0; i < nSelf; i++ {
		jobs = append(jobs, job{text: in.Text, sketch: in.Sketch, self: true})
		oi := i % len(in.Others)
		// bystander 0 keeps the case's sketch mode, bystander 1 uses the opposite one
		jobs = append(jobs, job{text: in.Others[oi], sketch: in.Sketch != (oi == 1), other: oi})
	}
	prev := runtime.GOMAXPROCS(in.Procs)
	outs := make([][]byte, len(jobs))
	errs := make([]error, len(jobs))
	start := make(chan struct{})
	var wg sync.WaitGroup
	for i := range jobs {
		wg.Add(1)
		go func(i int) {
			defer wg.Done()
			<-start
			eng := in.Engine
			if !jobs[i].self {
				eng = "dagre" // bystanders of an ELK case run dagre: both engines in flight at once
			}
			outs[i], _, errs[i] = c25Render(jobs[i].text, eng, jobs[i].sketch)
		}(i)
	}
	close(start)
	wg.Wait()
	runtime.GOMAXPROCS(prev)
	concOK, othersOK := 0, 0
	otherRef := map[int][]byte{}
	for i, j := range jobs {
		if j.self {
			if errs[i] != nil {
				viol("C25.error-differs", "C25.error-differs:concurrent:"+mode+errClass(errs[i]), fmt.Sprintf("sequential render succeeded, a concurrent one (GOMAXPROCS %d) failed: %s\n%s", in.Procs, errText(errs[i]), in.Text))
				continue
			}
			concOK++
			res.Inc("renders_concurrent_self")
			if !bytes.Equal(ref, outs[i]) {
				viol("C25.svg-differs", c25Sig("concurrent", mode, c25DiffClass(ref, outs[i])),
					fmt.Sprintf("concurrent render (goroutine %d of %d, GOMAXPROCS %d) differs from the sequential one: %s\n%s", i, len(jobs), in.Procs, c25Context(ref, outs[i]), in.Text))
			}
			continue
		}
		if errs[i] != nil {
			res.Inc("bystander_render_error")
			continue
		}
		othersOK++
		res.Inc("renders_concurrent_bystander")
		if r0, ok := otherRef[j.other]; !ok {
			otherRef[j.other] = outs[i]
		} else if !bytes.Equal(r0, outs[i]) {
			viol("C25.svg-differs", c25Sig("concurrent-bystander", "dagre", c25DiffClass(r0, outs[i])),
				fmt.Sprintf("two concurrent renders of the same bystander diagram differ (GOMAXPROCS %d): %s\n%s", in.Procs, c25Context(r0, outs[i]), jobs[i].text))
		}
	}

	// ---- once more, after the other diagrams went through this process
	if last, _, err := c25Render(in.Text, in.Engine, in.Sketch); err != nil {
		viol("C25.error-differs", "C25.error-differs:after-others:"+mode+errClass(err), fmt.Sprintf("first render succeeded, the render after the concurrent phase failed: %s\n%s", errText(err), in.Text))
	} else {
		res.Inc("renders_after_others")
		if !bytes.Equal(ref, last) {
			viol("C25.svg-differs", c25Sig("after-others", mode, c25DiffClass(ref, last)),
				fmt.Sprintf("the render after other diagrams were processed differs from the first render of the same input: %s\n%s", c25Context(ref, last), in.Text))
		}
	}

	// ---- fresh CLI processes
	cliOK := c25CLI(&res, viol, in, mode, ref)

	res.Nontrivial = nShapes >= 2 && seqOK >= 2 && concOK >= 2 && othersOK >= 2
	res.Add("cli_pairs_compared", cliOK)
	res.Sample = map[string]any{"engine": in.Engine, "sketch": in.Sketch, "procs": in.Procs, "svg_bytes": len(ref), "svg_sha": c25Hash(ref), "text": trunc(in.Text, 240)}
	return
}

// c25CLI renders the input with two fresh d2 processes and compares their output trees.
func c25CLI(res *run.Result, viol func(clause, sig, msg string), in c25In, mode string, inproc []byte) int {
	root := os.Getenv("VERIF_ROOT")
	if root == "" {
		root = "/verif"
	}
	bin := filepath.Join(root, "bin", "d2")
	if _, err := os.Stat(bin); err != nil {
		res.Inc("vacuous_cli_binary_missing")
		return 0
	}
	dir, err := os.MkdirTemp("", "c25-")
	if err != nil {
		res.Inc("vacuous_cli_tmpdir")
		return 0
	}
	defer os.RemoveAll(dir)
	src := filepath.Join(dir, "in.d2")
	if err := os.WriteFile(src, []byte(in.Text), 0o644); err != nil {
		res.Inc("vacuous_cli_tmpdir")
		return 0
	}
	runOne := func(k int) (map[string][]byte, error) {
		out := filepath.Join(dir, fmt.Sprintf("out%d", k))
		os.MkdirAll(out, 0o755)
		args := []string{"--layout=" + in.Engine, "--bundle=false", "--timeout=1500"}
		if in.Sketch {
			args = append(args, "--sketch")
		}
		args = append(args, src, filepath.Join(out, "o.svg"))
		ctx, cancel := context.WithTimeout(context.Background(), 25*time.Minute)
		defer cancel()
		cmd := exec.CommandContext(ctx, bin, args...)
		cmd.Env = []string{"HOME=" + dir, "PATH=/nonexistent", "BROWSER=0", "NO_COLOR=1"}
		cmd.Dir = dir
		var eb bytes.Buffer
		cmd.Stderr, cmd.Stdout = &eb, &eb
		if err := cmd.Run(); err != nil {
			if ctx.Err() != nil {
				return nil, fmt.Errorf("timeout")
			}
			return nil, fmt.Errorf("%v: %s", err, trunc(eb.String(), 600))
		}
		files := map[string][]byte{}
		filepath.Walk(out, func(p string, fi os.FileInfo, err error) error {
			if err == nil && !fi.IsDir() {
				b, _ := os.ReadFile(p)
				rel, _ := filepath.Rel(out, p)
				files[rel] = b
			}
			return nil
		})
		return files, nil
	}
	var outs [2]map[string][]byte
	var errs [2]error
	var wg sync.WaitGroup
	for k := 0; k < 2; k++ {
		wg.Add(1)
		go func(k int) { defer wg.Done(); outs[k], errs[k] = runOne(k) }(k)
	}
	wg.Wait()
	for k := 0; k < 2; k++ {
		if errs[k] != nil && errs[k].Error() == "timeout" {
			res.Inconclusive = "d2 CLI process hit the harness wall-clock limit (machine starved)"
			return 0
		}
	}
	if (errs[0] == nil) != (errs[1] == nil) {
		viol("C25.error-differs", "C25.error-differs:cli:"+mode, fmt.Sprintf("one of two fresh d2 processes failed, the other did not: %v / %v\n%s", errs[0], errs[1], in.Text))
		return 0
	}
	if errs[0] != nil {
		res.Inc("cli_both_failed")
		return 0
	}
	res.Add("renders_cli", 2)
	var names []string
	for n := range outs[0] {
		names = append(names, n)
	}
	sort.Strings(names)
	if len(outs[0]) != len(outs[1]) {
		viol("C25.svg-differs", "C25.svg-differs:cli:"+mode+":file-set", fmt.Sprintf("two fresh d2 processes wrote %d and %d files\n%s", len(outs[0]), len(outs[1]), in.Text))
		return 0
	}
	for _, n := range names {
		a, b := outs[0][n], outs[1][n]
		if !bytes.Equal(a, b) {
			viol("C25.svg-differs", c25Sig("cli", mode, c25DiffClass(a, b)), fmt.Sprintf("two fresh d2 processes produced different %s: %s\n%s", n, c25Context(a, b), in.Text))
		}
	}
	res.Add("cli_files_compared", len(names))
	// fresh process vs. long-lived process: a single-board input is written as one file that is
	// d2svg.Render's output plus a newline
	if len(names) == 1 && !bytes.Contains(inproc, []byte("\n<!--board-->\n")) {
		a := bytes.TrimSuffix(outs[0][names[0]], []byte("\n"))
		res.Inc("cli_vs_inprocess_compared")
		if !bytes.Equal(a, inproc) {
			viol("C25.svg-differs", c25Sig("fresh-process-vs-long-lived", mode, c25DiffClass(a, inproc)),
				fmt.Sprintf("a fresh d2 process and the long-lived worker process render the same input differently: %s\n%s", c25Context(a, inproc), in.Text))
		}
	} else {
		res.Inc("cli_vs_inprocess_skipped_multiboard")
	}
	return 1
}

// c25Delegate runs the case in the plain (non -race) build of this binary, which the check
// script builds next to the race build, through the ordinary worker protocol.
func c25Delegate(c run.Case) (run.Result, bool) {
	self, err := os.Executable()
	if err != nil {
		return run.Result{}, false
	}
	plain := filepath.Join(filepath.Dir(self), strings.TrimSuffix(filepath.Base(self), "-race"))
	if plain == self {
		return run.Result{}, false
	}
	if _, err := os.Stat(plain); err != nil {
		return run.Result{}, false
	}
	pr, pw, err := os.Pipe()
	if err != nil {
		return run.Result{}, false
	}
	defer pr.Close()
	ctx, cancel := context.WithTimeout(context.Background(), 50*time.Minute)
	defer cancel()
	cmd := exec.CommandContext(ctx, plain, "worker", "C25")
	cmd.Env = os.Environ()
	cmd.ExtraFiles = []*os.File{pw}
	b, _ := json.Marshal(c)
	cmd.Stdin = bytes.NewReader(append(b, '\n'))
	var eb bytes.Buffer
	cmd.Stdout, cmd.Stderr = &eb, &eb
	if err := cmd.Start(); err != nil {
		pw.Close()
		return run.Result{}, false
	}
	pw.Close()
	var out run.Result
	got := false
	dec := json.NewDecoder(pr)
	for {
		var m struct {
			Begin  string      `json:"begin,omitempty"`
			Result *run.Result `json:"result,omitempty"`
		}
		if err := dec.Decode(&m); err != nil {
			break
		}
		if m.Result != nil {
			out, got = *m.Result, true
		}
	}
	werr := cmd.Wait()
	if ctx.Err() != nil {
		return run.Result{ID: c.ID, Inconclusive: "plain-build helper hit the harness wall-clock limit (machine starved)"}, true
	}
	if !got {
		// the helper died while rendering: after-first-render crashes are violations there too,
		// but a dead helper tells us nothing about which render it was
		r := run.Result{ID: c.ID}
		r.Viol("C25.crash", "C25.crash:plain-helper-died", fmt.Sprintf("plain-build helper died (%v): %s", werr, trunc(eb.String(), 1500)))
		return r, true
	}
	out.Inc("delegated_to_plain_build")
	return out, true
}
