package mon

// C30 — rendered SVG is well-formed XML and user strings cannot inject markup.
//
// Workload (gen.InjSpec): a compilable diagram skeleton touching every place a user string
// reaches the SVG (shape/container/edge/arrowhead/sequence/legend labels, tooltips,
// positioned tooltips, links, IDs, class names, icon URLs, gradient colour-stop positions,
// class fields/methods, sql_table columns/types/constraints, markdown, code), with one
// sentinel payload kind per hostile field class. Every field class has its own sentinel
// tag (zq??), so markup whose *name* carries a tag names the guilty field.
// Cases: the complete (field class × payload kind) matrix with one hostile field each,
// plus mixed cases with several hostile fields; each with a random render-option set
// (theme, dark theme, sketch, pad, scale, center, appendix, no-xml-tag), dagre or ELK.
//
// Oracle (independent of d2's escaping code):
//   1. every rune of the output satisfies the XML 1.0 Char production and the bytes are
//      valid UTF-8;
//   2. encoding/xml in Strict mode tokenises the whole document; exactly one root element;
//      no duplicate attribute names on an element (encoding/xml does not check that);
//   3. no element name, attribute name, comment, processing instruction or directive
//      contains a sentinel tag of a field class the statement lists (labels outside
//      markdown, tooltips, links, IDs, class names, colours/gradients): such strings may
//      only surface in character data or attribute values.
// Not demanded: markdown, code, positioned (markdown-rendered) tooltips, sql constraints
// and icon URLs are outside the statement's list — for them only 1–2 apply (markup they
// create is counted, not reported). Diagrams that do not compile / render with an error
// are vacuous (counted per payload).
//
// Mixed cases that fail are re-run with each hostile field class alone to name the field.

import (
	"bytes"
	"encoding/xml"
	"fmt"
	"io"
	"regexp"
	"sort"
	"strings"
	"unicode/utf8"

	"verif/gen"
	"verif/run"

	"oss.terrastruct.com/d2/d2renderers/d2svg"
	"oss.terrastruct.com/d2/d2renderers/d2svg/appendix"
	"oss.terrastruct.com/d2/lib/textmeasure"
)

type c30Opt struct {
	Engine   string  `json:"engine"`
	Theme    int64   `json:"theme"`
	Dark     int64   `json:"dark"` // -1: none
	Sketch   bool    `json:"sketch"`
	Pad      int64   `json:"pad"`   // -1: default
	Scale    float64 `json:"scale"` // 0: unset
	Center   bool    `json:"center"`
	Appendix bool    `json:"appendix"`
	NoXML    bool    `json:"noxml"`
}

type c30In struct {
	Spec gen.InjSpec `json:"spec"`
	Opt  c30Opt      `json:"opt"`
	Text string      `json:"text"` // rendered program, for the reader of a replay file
}

func init() {
	run.Register(&run.Check{
		ID: "C30", Title: "Rendered SVG is well-formed and user text cannot inject markup",
		LevelText: "Exploration: the complete matrix of 21 user-string field classes × 18 payload kinds (XML metacharacters, quote break-outs, CDATA/comment terminators, entity forms, control characters, non-characters, invalid UTF-8) with one hostile field per diagram, plus mixed diagrams with several hostile fields, each compiled (dagre/ELK) and rendered under a random option set (20 themes, dark theme, sketch, pad, scale, center, appendix, no-xml-tag); every output is checked rune-by-rune against the XML 1.0 Char production, tokenised by a strict XML parser (single root, unique attributes) and scanned for sentinel-named elements/attributes/comments/PIs.",
		Technique: "runtime monitoring: independent strict XML tokenisation + sentinel scan of real d2svg.Render / appendix.Append output on generated hostile diagrams",
		DesignRef: "§4 C30",
		Rule:      "cases: (skeleton seed, hostile field→payload map, render options); distinct by sha256 of the case; non-trivial when the diagram compiled and rendered and at least one hostile sentinel reached the SVG bytes",
		Chunk:     8, CPUBudget: 300,
		Gen:  genC30,
		Exec: execC30,
		Assumptions: []string{
			"sql_table constraints, icon URLs, markdown, code and positioned (markdown-rendered) tooltips are not in the statement's list of user strings: only well-formedness is demanded for them",
			"a diagram that fails to compile or whose Render returns an error produces no SVG and is vacuous",
		},
	})
}

func c30RandOpt(q *gen.R) c30Opt {
	o := c30Opt{Engine: "dagre", Dark: -1, Pad: -1}
	if q.P(0.12) {
		o.Engine = "elk"
	}
	o.Theme = gen.Pick(q, c3rThemeIDs(false))
	if q.P(0.3) {
		o.Dark = gen.Pick(q, c3rThemeIDs(true))
	}
	o.Sketch = q.P(0.15)
	if q.P(0.4) {
		o.Pad = gen.Pick(q, []int64{0, 1, 100, 500})
	}
	if q.P(0.3) {
		o.Scale = []float64{0.5, 1, 2, 0.1}[q.Intn(4)]
	}
	o.Center = q.P(0.3)
	o.Appendix = q.P(0.4)
	o.NoXML = q.P(0.2)
	return o
}

func genC30(seed int64, tier string, emit func(run.Case)) {
	r := gen.New(seed)
	fields, kinds := gen.InjFieldList(), gen.InjPayloadList()
	id := 0
	add := func(kind string, spec gen.InjSpec, o c30Opt) {
		id++
		emit(run.MkCase(fmt.Sprintf("c%06d", id), kind, c30In{Spec: spec, Opt: o, Text: spec.Text()}))
	}
	reps := tierN(tier, 1, 8)
	for rep := 0; rep < reps; rep++ {
		for fi, f := range fields {
			for ki, k := range kinds {
				q := r.Sub(rep*100000 + fi*100 + ki)
				spec := gen.InjSpec{Pay: map[string]string{f: k}}
				// a skeleton in which the field class occurs
				for try := 0; try < 200; try++ {
					spec.Struct = q.Int63()
					if strings.Contains(spec.Text(), gen.InjFieldClasses[f]) {
						break
					}
				}
				add("single", spec, c30RandOpt(q))
			}
		}
	}
	n := tierN(tier, 250, 8000)
	for i := 0; i < n; i++ {
		q := r.Sub(7000000 + i)
		spec := gen.InjSpec{Struct: q.Int63(), Pay: map[string]string{}}
		for _, f := range fields {
			if q.P(0.45) {
				spec.Pay[f] = gen.Pick(q, kinds)
			}
		}
		add("mixed", spec, c30RandOpt(q))
	}
}

type c30Issue struct {
	clause string // not-wellformed | injection
	tag    string // sentinel tag involved ("" when unknown)
	exact  bool   // the tag is part of an element/attribute *name*: the field is certain
	sink   string // element in which it happened (local name)
	msg    string
}

var c30TagRe = regexp.MustCompile(`zq[a-z]{2}`)

// c30XMLChar is the XML 1.0 (5th ed.) Char production.
func c30XMLChar(r rune) bool {
	return r == 0x9 || r == 0xA || r == 0xD || r >= 0x20 && r <= 0xD7FF || r >= 0xE000 && r <= 0xFFFD || r >= 0x10000 && r <= 0x10FFFF
}

var c30OpenRe = regexp.MustCompile(`<([A-Za-z_][A-Za-z0-9_.-]*)`)

// c30SinkAt names the element whose start tag most closely precedes offset i (the element
// in whose tag or content position i lies, for the flat text/attribute sinks of d2svg).
func c30SinkAt(doc []byte, i int) string {
	if i > len(doc) {
		i = len(doc)
	}
	a := i - 4000
	if a < 0 {
		a = 0
	}
	ms := c30OpenRe.FindAllSubmatch(doc[a:i], -1)
	for k := len(ms) - 1; k >= 0; k-- {
		n := strings.ToLower(string(ms[k][1]))
		if !strings.HasPrefix(n, "zq") && n != "x" {
			return n
		}
	}
	return "?"
}

// c30CheckXML judges one document. stats receives element/attribute counts.
func c30CheckXML(doc []byte, stats func(k string, n int)) []c30Issue {
	var out []c30Issue
	// 1. characters
	for i := 0; i < len(doc); {
		r, sz := utf8.DecodeRune(doc[i:])
		if r == utf8.RuneError && sz <= 1 {
			out = append(out, c30Issue{"not-wellformed", c30NearTag(doc, i), false, c30SinkAt(doc, i), fmt.Sprintf("invalid UTF-8 byte 0x%02x at offset %d: …%q…", doc[i], i, c30Ctx(doc, i))})
			return out
		}
		if !c30XMLChar(r) {
			out = append(out, c30Issue{"not-wellformed", c30NearTag(doc, i), false, c30SinkAt(doc, i), fmt.Sprintf("U+%04X at offset %d is not an XML 1.0 Char: …%q…", r, i, c30Ctx(doc, i))})
			return out
		}
		i += sz
	}
	// 2. strict tokenisation
	d := xml.NewDecoder(bytes.NewReader(doc))
	d.Strict = true
	roots := 0
	elems, attrs := 0, 0
	var stack []string
	parent := func() string {
		if len(stack) == 0 {
			return "?"
		}
		return stack[len(stack)-1]
	}
	for {
		off := int(d.InputOffset())
		tok, err := d.Token()
		if err == io.EOF {
			break
		}
		if err != nil {
			o := int(d.InputOffset())
			out = append(out, c30Issue{"not-wellformed", c30NearTag(doc, o), false, c30SinkAt(doc, o), fmt.Sprintf("strict XML parse failed at offset %d: %v: …%q…", o, err, c30Ctx(doc, o))})
			return out
		}
		switch t := tok.(type) {
		case xml.StartElement:
			elems++
			if len(stack) == 0 {
				roots++
				if roots > 1 {
					out = append(out, c30Issue{"not-wellformed", c30NearTag(doc, off), false, "?", fmt.Sprintf("second root element <%s> at offset %d", t.Name.Local, off)})
				}
			}
			lname := strings.ToLower(t.Name.Local)
			if m := c30TagRe.FindString(lname); m != "" {
				out = append(out, c30Issue{"injection", m, true, parent(), fmt.Sprintf("element <%s> inside <%s> at offset %d: …%q…", t.Name.Local, parent(), off, c30Ctx(doc, off+40))})
			}
			seen := map[xml.Name]bool{}
			for _, a := range t.Attr {
				attrs++
				if seen[a.Name] {
					out = append(out, c30Issue{"not-wellformed", c30NearTag(doc, off), false, lname, fmt.Sprintf("duplicate attribute %q on <%s> at offset %d: …%q…", a.Name.Local, t.Name.Local, off, c30Ctx(doc, off+40))})
				}
				seen[a.Name] = true
				if m := c30TagRe.FindString(strings.ToLower(a.Name.Local)); m != "" {
					out = append(out, c30Issue{"injection", m, true, lname, fmt.Sprintf("attribute %s=%q on <%s> at offset %d: …%q…", a.Name.Local, trunc(a.Value, 40), t.Name.Local, off, c30Ctx(doc, off+40))})
				}
			}
			stack = append(stack, lname)
		case xml.EndElement:
			if len(stack) > 0 {
				stack = stack[:len(stack)-1]
			}
		case xml.CharData:
			if len(stack) == 0 && len(bytes.TrimSpace(t)) > 0 {
				out = append(out, c30Issue{"not-wellformed", c30NearTag(doc, off), false, "?", fmt.Sprintf("character data outside the root element at offset %d: %q", off, trunc(string(t), 60))})
			}
		case xml.Comment:
			if m := c30TagRe.FindString(strings.ToLower(string(t))); m != "" {
				out = append(out, c30Issue{"injection", m, false, parent(), fmt.Sprintf("comment containing user text inside <%s> at offset %d: %q", parent(), off, trunc(string(t), 80))})
			}
		case xml.ProcInst:
			if m := c30TagRe.FindString(strings.ToLower(t.Target + " " + string(t.Inst))); m != "" {
				out = append(out, c30Issue{"injection", m, false, parent(), fmt.Sprintf("processing instruction containing user text inside <%s> at offset %d: <?%s %s?>", parent(), off, t.Target, trunc(string(t.Inst), 60))})
			}
		case xml.Directive:
			if m := c30TagRe.FindString(strings.ToLower(string(t))); m != "" {
				out = append(out, c30Issue{"injection", m, false, parent(), fmt.Sprintf("directive containing user text inside <%s> at offset %d: %q", parent(), off, trunc(string(t), 80))})
			}
		}
	}
	if len(stack) != 0 {
		out = append(out, c30Issue{"not-wellformed", "", false, "?", fmt.Sprintf("document ends at element depth %d", len(stack))})
	}
	if roots == 0 {
		out = append(out, c30Issue{"not-wellformed", "", false, "?", "no root element"})
	}
	stats("xml_elements_seen", elems)
	stats("xml_attributes_seen", attrs)
	return out
}

func c30Ctx(doc []byte, i int) string {
	a, b := i-60, i+40
	if a < 0 {
		a = 0
	}
	if b > len(doc) {
		b = len(doc)
	}
	if a > b {
		a = b
	}
	return string(doc[a:b])
}

// c30NearTag: the sentinel tag closest before offset i (within 200 bytes), if any.
func c30NearTag(doc []byte, i int) string {
	a := i - 200
	if a < 0 {
		a = 0
	}
	if i > len(doc) {
		i = len(doc)
	}
	b := i + 40
	if b > len(doc) {
		b = len(doc)
	}
	ms := c30TagRe.FindAll(bytes.ToLower(doc[a:b]), -1)
	if len(ms) == 0 {
		return ""
	}
	return string(ms[len(ms)-1])
}

var c30ClassOfTag = func() map[string]string {
	m := map[string]string{}
	for c, t := range gen.InjFieldClasses {
		m[t] = c
	}
	return m
}()

type c30Outcome struct {
	vacuous string // non-empty: why no SVG was produced
	issues  []c30Issue
	svg     []byte
}

// c30Run compiles and renders one spec under the option set and judges the output.
func c30Run(spec gen.InjSpec, o c30Opt, stats func(k string, n int)) c30Outcome {
	ro := &d2svg.RenderOpts{ThemeID: c3rPtr(o.Theme)}
	if o.Dark >= 0 {
		ro.DarkThemeID = c3rPtr(o.Dark)
	}
	if o.Sketch {
		ro.Sketch = c3rPtr(true)
	}
	if o.Pad >= 0 {
		ro.Pad = c3rPtr(o.Pad)
	}
	if o.Scale > 0 {
		ro.Scale = c3rPtr(o.Scale)
	}
	if o.Center {
		ro.Center = c3rPtr(true)
	}
	if o.NoXML {
		ro.NoXMLTag = c3rPtr(true)
	}
	diagram, _, err := c3rCompile(spec.Text(), o.Engine, ro)
	if err != nil {
		return c30Outcome{vacuous: "compile: " + c30ErrClass(err)}
	}
	svg, err := d2svg.Render(diagram, ro)
	if err != nil {
		return c30Outcome{vacuous: "render: " + c30ErrClass(err)}
	}
	if o.Appendix {
		ruler, err := textmeasure.NewRuler()
		if err != nil {
			return c30Outcome{vacuous: "ruler: " + err.Error()}
		}
		svg = appendix.Append(diagram, ro, ruler, svg)
	}
	return c30Outcome{issues: c30CheckXML(svg, stats), svg: svg}
}

var c30ErrNoise = regexp.MustCompile(`"[^"]*"|\d+`)

func c30ErrClass(err error) string {
	s := err.Error()
	if i := strings.IndexByte(s, '\n'); i >= 0 {
		s = s[:i]
	}
	s = c30ErrNoise.ReplaceAllString(s, "_")
	return trunc(s, 70)
}

func execC30(c run.Case) (res run.Result) {
	var in c30In
	c.Decode(&in)
	spec, o := in.Spec, in.Opt
	stats := func(k string, n int) { res.Add(k, n) }
	out := c30Run(spec, o, stats)
	hostile := make([]string, 0, len(spec.Pay))
	for f := range spec.Pay {
		hostile = append(hostile, f)
	}
	sort.Strings(hostile)
	res.Sample = map[string]any{"pay": spec.Pay, "opt": o}
	if out.vacuous != "" {
		res.Inc("vacuous_no_svg")
		res.Inc("vacuous:" + out.vacuous)
		for _, f := range hostile {
			res.Inc("vacuous_payload:" + f + ":" + spec.Pay[f])
		}
		return
	}
	res.Inc("docs_judged")
	res.Inc("engine_" + o.Engine)
	for k, v := range map[string]bool{"sketch": o.Sketch, "dark": o.Dark >= 0, "pad": o.Pad >= 0, "scale": o.Scale > 0, "center": o.Center, "appendix": o.Appendix, "noxml": o.NoXML} {
		if v {
			res.Inc("opt_" + k)
		}
	}
	low := bytes.ToLower(out.svg)
	for _, f := range hostile {
		if bytes.Contains(low, []byte(gen.InjFieldClasses[f])) {
			res.Inc("reached_svg:" + f)
			res.Inc("reached_svg_kind:" + spec.Pay[f])
			res.Nontrivial = true
		}
	}
	isHostile := func(f string) bool { k, ok := spec.Pay[f]; return ok && k != "benign" }
	// A parse error is often detected far behind the place where a payload broke out; when
	// the same field also produced sentinel-named markup, that markup's position is the sink.
	exactSink := func(issues []c30Issue, field string) string {
		for _, is := range issues {
			if is.exact && c30ClassOfTag[is.tag] == field {
				return is.sink
			}
		}
		return ""
	}
	cur := out.issues
	report := func(is c30Issue, field string) {
		kind := spec.Pay[field]
		if field == "" {
			field, kind = "unattributed", "-"
		}
		if s := exactSink(cur, field); s != "" && !is.exact {
			is.sink = s
		}
		switch is.clause {
		case "injection":
			if !gen.InjListed(field) {
				res.Inc("unlisted_field_markup:" + field)
				return
			}
			res.Viol("C30.injection", fmt.Sprintf("C30.injection:%s@%s:%s", field, is.sink, kind), is.msg)
		default:
			res.Viol("C30.not-wellformed", fmt.Sprintf("C30.not-wellformed:%s@%s:%s", field, is.sink, kind), is.msg)
		}
	}
	// Issues whose field is certain (the sentinel is part of an element/attribute name of a
	// hostile field) are reported directly; the others need attribution.
	var open []c30Issue
	for _, is := range out.issues {
		if f := c30ClassOfTag[is.tag]; is.exact && isHostile(f) {
			report(is, f)
		} else {
			open = append(open, is)
		}
	}
	if len(open) == 0 {
		return
	}
	var cands []string
	for _, f := range hostile {
		if isHostile(f) {
			cands = append(cands, f)
		}
	}
	if len(cands) == 1 {
		for _, is := range open {
			report(is, cands[0])
		}
		return
	}
	// Several hostile fields: re-run with one hostile field at a time (same skeleton, same
	// options), trying first the fields whose sentinel stands next to the failure.
	sort.SliceStable(cands, func(i, j int) bool {
		near := func(f string) bool {
			for _, is := range open {
				if c30ClassOfTag[is.tag] == f {
					return true
				}
			}
			return false
		}
		return near(cands[i]) && !near(cands[j])
	})
	for _, f := range cands {
		one := c30Run(spec.Only(f), o, func(string, int) {})
		res.Inc("isolation_reruns")
		if len(one.issues) > 0 {
			cur = one.issues
			for _, is := range one.issues {
				report(is, f)
			}
			return
		}
	}
	for _, is := range open {
		res.Viol("C30."+is.clause, "C30."+is.clause+":combination-of-fields@"+is.sink, is.msg)
	}
	return
}
