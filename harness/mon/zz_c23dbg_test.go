package mon

import (
	"fmt"
	"os"
	"testing"

	"verif/run"
)

func TestC2xDump(t *testing.T) {
	id, want := os.Getenv("C2X_ID"), os.Getenv("C2X_CASE")
	ck := run.Lookup(id)
	ck.Gen(1, "quick", func(c run.Case) {
		if c.ID == want {
			fmt.Println(string(c.In))
		}
	})
}
