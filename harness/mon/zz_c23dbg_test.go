package mon

import (
	"fmt"
	"os"
	"strconv"
	"strings"
	"testing"

	"verif/run"
)

func TestC2xDump(t *testing.T) {
	id, want, sub := os.Getenv("C2X_ID"), os.Getenv("C2X_CASE"), os.Getenv("C2X_GREP")
	seed, _ := strconv.Atoi(os.Getenv("VERIF_SEED"))
	if seed == 0 {
		seed = 1
	}
	ck := run.Lookup(id)
	ck.Gen(int64(seed), "quick", func(c run.Case) {
		if c.ID == want || (sub != "" && strings.Contains(string(c.In), sub)) {
			fmt.Println(c.ID)
			fmt.Println(string(c.In))
		}
	})
}
