package mon

import (
	"fmt"
	"testing"

	"verif/run"
)

func TestNearOnlyCompiles(t *testing.T) {
	for _, tier := range []string{"quick", "thorough"} {
		for _, share := range []int{1, 3} {
			n, bad := 0, 0
			eng := map[string]int{}
			layNearOnlyCases(1, tier, share, func(c run.Case) {
				var in layCase
				c.Decode(&in)
				n++
				eng[c.Kind]++
				if _, _, err := compile(in.Text); err != nil {
					bad++
					if bad < 3 {
						t.Errorf("does not compile: %v\n%s", err, in.Text)
					}
				}
			})
			fmt.Println(tier, share, n, bad, eng)
		}
	}
}
