package mon

import (
	"fmt"
	"strings"

	"verif/gen"
	"verif/proj"
	"verif/run"

	"oss.terrastruct.com/d2/d2ast"
	"oss.terrastruct.com/d2/d2format"
	"oss.terrastruct.com/d2/d2graph"
)

// C04: formatting preserves the diagram's meaning.
// Oracle (metamorphic, through the real compiler): π(Compile(x)) == π(Compile(Format(Parse(x))))
// and the compiled configuration is equal. π has no AST pointers and no ranges.

func init() {
	run.Register(&run.Check{
		ID: "C04", Title: "Formatting preserves the diagram's meaning",
		LevelText: "Exploration: every compilable generated/corpus program x is compiled, formatted (Format(Parse(x))) and compiled again; the canonical projections π (boards, objects with IDs/labels/shapes/attributes/styles in order, connections with endpoints/direction/index/labels/attributes, nested boards) and the compiled configuration must be equal.",
		Technique: "runtime monitoring: metamorphic oracle Compile(x) ≡ Compile(Format(x)) on the π projection over generated programs",
		DesignRef: "§4 C04",
		Rule:      "cases: gen.Program(core|lang) (keywords in random case, boards before/after other content, keyword-like values, globs, vars), corpus scripts; single-file (imports excluded: they need a file set and are covered by reading the same FS in C14); distinct by sha256(text); non-trivial when x compiled and has ≥2 objects or ≥1 edge",
		Chunk:     32,
		Gen:       genC04,
		Exec:      execC04,
	})
}

func genC04(seed int64, tier string, emit func(run.Case)) {
	r := gen.New(seed)
	n := tierN(tier, 5000, 300000)
	id := 0
	add := func(s, src string) {
		id++
		emit(run.MkCase(fmt.Sprintf("c%07d", id), src, textCase{Text: s, Src: src}))
	}
	for _, s := range Corpus() {
		add(s, "corpus")
	}
	core := gen.ProfileCore
	core.KwCase = .3
	lang := gen.ProfileLang
	lang.KwCase = .25
	lang.Boards = .35
	lang.HostileLabels = .15
	core.HostileLabels = .15
	for i := 0; i < n; i++ {
		q := r.Sub(i)
		switch q.Intn(3) {
		case 0:
			add(gen.Program(q, core), "core")
		default:
			add(gen.Program(q, lang), "lang")
		}
	}
}

func execC04(c run.Case) (res run.Result) {
	var in textCase
	c.Decode(&in)
	m, ok := parseOK(in.Text)
	if !ok {
		res.Inc("skipped_parse_error")
		return
	}
	g1, cfg1, err := compile(in.Text)
	if err != nil {
		res.Inc("skipped_compile_error")
		return
	}
	res.Inc("compiled_" + in.Src)
	t1 := d2format.Format(m)
	g2, cfg2, err2 := compile(t1)
	trig := c04Trigger(m, in.Text, t1)
	if err2 != nil {
		res.Viol("C04.formatted-does-not-compile", "C04.formatted-does-not-compile:"+trig, fmt.Sprintf("input:\n%s\nformatted:\n%s\nerror: %v", in.Text, t1, err2))
		return
	}
	p1, p2 := proj.Graph(g1, proj.Opts{}).String(), proj.Graph(g2, proj.Opts{}).String()
	if p1 != p2 {
		res.Viol("C04.meaning-changed", "C04.meaning-changed:"+trig, fmt.Sprintf("input:\n%s\nformatted:\n%s\n%s", in.Text, t1, proj.Diff(p1, p2)))
	}
	if c1, c2 := proj.Config(cfg1), proj.Config(cfg2); c1 != c2 {
		res.Viol("C04.config-changed", "C04.config-changed:"+trig, fmt.Sprintf("input:\n%s\nformatted:\n%s\n%s", in.Text, t1, proj.Diff(c1, c2)))
	}
	nb := 0
	proj.Walk(g1, func(string, *d2graph.Graph) { nb++ })
	if nb > 1 {
		res.Inc("programs_with_boards")
	}
	if t1 != in.Text {
		res.Inc("format_changed_text")
	}
	res.Nontrivial = len(g1.Objects) >= 2 || len(g1.Edges) >= 1
	res.Sample = map[string]any{"src": in.Src, "text": trunc(in.Text, 300)}
	return
}

// c04Trigger names the syntactic trigger present in the input (most specific first) so
// that known findings are matched by cause. "none" = no known trigger present.
func c04Trigger(m *d2ast.Map, in, t1 string) string {
	kwValue, kwKeyCase, boardUnusual, quotedKw, emptyBoardMap, boardBeforeContent := false, false, false, false, false, false
	isKw := func(s string) bool {
		_, ok := d2ast.ReservedKeywords[strings.ToLower(s)]
		return ok
	}
	d2ast.Walk(m, func(n d2ast.Node) bool {
		switch t := n.(type) {
		case *d2ast.Key:
			for _, v := range []d2ast.Node{t.Primary.Unbox(), t.Value.Unbox()} {
				if u, ok := v.(*d2ast.UnquotedString); ok && isKw(u.ScalarString()) && u.ScalarString() != strings.ToLower(u.ScalarString()) {
					kwValue = true
				}
			}
			if t.Key != nil {
				for i, sb := range t.Key.Path {
					if sb == nil || sb.Unbox() == nil {
						continue
					}
					k := sb.Unbox().ScalarString()
					lk := strings.ToLower(k)
					_, unq := sb.Unbox().(*d2ast.UnquotedString)
					if isKw(k) && !unq {
						quotedKw = true
					}
					if isKw(k) && unq && k != lk {
						kwKeyCase = true
					}
					if lk == "layers" || lk == "scenarios" || lk == "steps" {
						proper := k == lk && unq && len(t.Key.Path) == 1 && i == 0 && len(t.Edges) == 0 &&
							t.Value.Map != nil && len(t.Value.Map.Nodes) > 0 && t.Primary.Unbox() == nil
						if !proper {
							boardUnusual = true
						}
					}
				}
			}
		case *d2ast.Map:
			seenBoard := false
			for _, nb := range t.Nodes {
				if nb.IsBoardNode() {
					seenBoard = true
					// children of a board keyword map declared with an empty map: `v: {}`
					if nb.MapKey.Value.Map != nil {
						for _, ch := range nb.MapKey.Value.Map.Nodes {
							if ch.MapKey != nil && ch.MapKey.Value.Map != nil && len(ch.MapKey.Value.Map.Nodes) == 0 {
								emptyBoardMap = true
							}
						}
					}
				} else if seenBoard && nb.MapKey != nil {
					boardBeforeContent = true
				}
			}
		case *d2ast.Array:
			for _, nb := range t.Nodes {
				if u, ok := nb.Unbox().(*d2ast.UnquotedString); ok && isKw(u.ScalarString()) && u.ScalarString() != strings.ToLower(u.ScalarString()) {
					kwValue = true
				}
			}
		}
		return true
	})
	switch {
	case boardUnusual:
		return "board-keyword-in-unusual-form"
	case kwKeyCase:
		return "unquoted-keyword-key-in-mixed-case"
	case boardBeforeContent:
		return "board-block-before-other-content"
	case emptyBoardMap:
		return "board-declared-with-empty-map"
	case quotedKw:
		return "quoted-key-spelled-like-keyword"
	case kwValue:
		return "unquoted-value-spelled-like-keyword-in-mixed-case"
	}
	return "none"
}
