package mon

import (
	"fmt"
	"testing"
	"time"

	"verif/run"
)

func TestLayTime(t *testing.T) {
	var cases []run.Case
	genC20(1, "quick", func(c run.Case) { cases = append(cases, c) })
	for _, i := range []int{0, 1, 2, 3, 4, 5, 6, 7, 8, 9, 10, 11, 300, 301, 302, 303, 304, 305} {
		c := cases[i]
		var in layCase
		c.Decode(&in)
		t0 := time.Now()
		_, g, err := layCompile(in.Engine, in.Text)
		d1 := time.Since(t0)
		t0 = time.Now()
		execC20(c)
		n := 0
		if g != nil {
			n = len(g.Objects)
		}
		fmt.Printf("%s %s objs=%d layout=%v exec=%v err=%v\n", c.ID, c.Kind, n, d1, time.Since(t0), err != nil)
	}
}
