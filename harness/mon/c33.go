package mon

// C33 — animated SVGs show exactly one board at a time, in order.
//
// Workload: d2animate.Wrap(root, svgs, opts, T) for n boards: every n ∈ 1..300 × T ∈
// {1,2,3,5,10,16,100,1000,1200} (complete enumeration, both tiers) plus random (n ≤ 2000,
// n·T ≤ 2·10⁹).
//
// Oracle (independent of makeKeyframe): the emitted document is parsed; every board's <g>
// carries `animation: <name> <dur>ms infinite`; the @keyframes rule <name> is parsed with
// CSS semantics (a keyframe selector list gives every listed offset the block's
// declarations; for equal offsets the later declaration wins; keyframes are ordered by
// offset; a missing 0%/100% keyframe takes the underlying value, opacity 1) into a
// piecewise function of time. Printed percentages have 6 decimals, so a time is the exact
// integer P·dur in units of 10⁻⁸ ms (P in 10⁻⁶ %); all comparisons are exact int64.
// A board is "fully visible" on the closed segments whose two end keyframes both have
// opacity 1 — this set does not depend on the animation timing function (CSS default
// `ease` is strictly between its end values inside a segment), so no assumption about
// linear interpolation is needed.
// Clauses:
//   - percentages ∈ [0,100] and non-decreasing in order of appearance within a rule;
//   - animation duration of every board = n·T ms;
//   - for every interval i, on R_i = [i·T + ε, (i+1)·T − 1 − ε] (the i-th interval minus
//     its 1 ms transition window at the end; ε = 10⁻⁶ % of the cycle, the print precision
//     of the percentages) board i is fully visible and no other board is.
// R_i empty (T = 1, or a cycle so long that ε ≥ (T−1)/2) is counted vacuous.
//
// No claim is made for all positive integers (DESIGN §5): held on what was enumerated.

import (
	"fmt"
	"regexp"
	"sort"
	"strconv"
	"strings"
	"sync"

	"verif/gen"
	"verif/run"

	"oss.terrastruct.com/d2/d2renderers/d2animate"
	"oss.terrastruct.com/d2/d2renderers/d2fonts"
	"oss.terrastruct.com/d2/d2renderers/d2svg"
	"oss.terrastruct.com/d2/d2target"
	"oss.terrastruct.com/d2/lib/font"
)

type c33In struct {
	N int `json:"n"`
	T int `json:"t"`
}

func init() {
	run.Register(&run.Check{
		ID: "C33", Title: "Animated SVGs show exactly one board at a time, in order",
		LevelText: "Exhaustive on small ranges, exploration beyond: d2animate.Wrap is run for every board count n ∈ 1..300 × interval T ∈ {1,2,3,5,10,16,100,1000,1200} ms (complete enumeration in both tiers) and for random (n ≤ 2000, n·T ≤ 2·10⁹ ms); the emitted @keyframes rules and per-board animation declarations are parsed with CSS semantics into exact (int64, units of 10⁻⁸ ms) visibility intervals and checked against 'board i and only board i is fully visible throughout interval i minus its 1 ms transition window', 'percentages in [0,100], non-decreasing per rule', 'duration = n·T'. No claim for all positive integers.",
		Technique: "runtime monitoring: independent CSS keyframe interpreter over the real Wrap output, exact integer arithmetic, complete enumeration of the small range",
		DesignRef: "§4 C33",
		Rule:      "cases: (n,T) pairs — all of 1..300 × 9 intervals, plus random pairs; distinct by (n,T); non-trivial when n ≥ 2 and at least one interval had a non-empty region to judge",
		Chunk:     32, CPUBudget: 120,
		Gen:  genC33,
		Exec: execC33,
		Assumptions: []string{
			"CSS Animations Level 1 keyframe semantics: offsets sorted, equal offsets cascade (later wins), missing 0%/100% keyframes use the underlying value (opacity 1)",
			"the set where opacity is exactly 1 is timing-function independent (segments with both end keyframes at 1)",
			"ε = 10⁻⁶ % of the cycle (the precision the percentages are printed with) is removed from both ends of every judged region",
		},
	})
}

// Above this cycle length (ms) the 1 ms transition is less than two units of the printed
// precision (10⁻⁶ %), so "end of visible" and "start of fade-out" can print identically.
const c33PrecisionLimit = 50_000_000

var c33Intervals = []int{1, 2, 3, 5, 10, 16, 100, 1000, 1200}

func genC33(seed int64, tier string, emit func(run.Case)) {
	for n := 1; n <= 300; n++ {
		for _, t := range c33Intervals {
			emit(run.MkCase(fmt.Sprintf("x%03d-%04d", n, t), "exhaustive", c33In{N: n, T: t}))
		}
	}
	r := gen.New(seed)
	k := tierN(tier, 800, 30000)
	for i := 0; i < k; i++ {
		q := r.Sub(i)
		var n, t int
		switch q.Intn(10) {
		case 0, 1, 2: // many boards, short interval
			n, t = q.Range(301, 2000), q.Range(1, 50)
		case 3, 4: // few boards, long interval
			n, t = q.Range(1, 50), q.Range(1, 1000000)
		case 5, 6: // around the 100-board boundary
			n, t = q.Range(95, 210), q.Range(1, 5000)
		case 7, 8: // anything with a cycle ≤ 5·10⁷ ms
			n = q.Range(1, 2000)
			t = q.Range(1, 50_000_000/n)
		default: // cycles of 14 h … 23 days: 1 ms is below the printed precision
			n, t = q.Range(51, 2000), q.Range(1_000_000, 1_000_000)
			t = q.Range(50_000_000/n+1, 1_000_000)
		}
		emit(run.MkCase(fmt.Sprintf("r%06d", i), "random", c33In{N: n, T: t}))
	}
}

var (
	c33Once sync.Once
	c33Root *d2target.Diagram
	c33Err  error
)

func c33RootDiagram() (*d2target.Diagram, error) {
	c33Once.Do(func() {
		// Wrap embeds 8 font subsets per call whether or not any text is drawn; that cost is
		// irrelevant to the keyframe arithmetic under test, so the root diagram uses a
		// font family whose faces were cut down to one glyph (workload only, not oracle).
		c33Root = d2target.NewDiagram()
		face := d2fonts.FontFaces.Get(d2fonts.SourceSansPro.Font(0, d2fonts.FONT_STYLE_REGULAR))
		cut := font.UTF8CutFont(append([]byte{}, face...), "a")
		fam, err := d2fonts.AddFontFamily("c33tiny", cut, cut, cut, cut)
		if err != nil {
			c33Err = err
			return
		}
		c33Root.FontFamily, c33Root.MonoFontFamily = fam, fam
	})
	return c33Root, c33Err
}

var (
	c33AnimRe = regexp.MustCompile(`<g style="animation: (\S+) (-?\d+)ms infinite" data-b="(\d+)"`)
	c33KfRe   = regexp.MustCompile(`@keyframes\s+(\S+)\s*\{`)
)

type c33Kf struct {
	p  int64 // offset in 10⁻⁶ %
	op float64
}

type c33Rule struct {
	appear []int64 // offsets in order of appearance
	frames []c33Kf // sorted by offset, equal offsets resolved (later wins)
}

// c33ParsePct parses "12.345678%" into 10⁻⁶ % units, exactly. ok=false when the token is
// not a decimal percentage with at most 6 fractional digits.
func c33ParsePct(s string) (int64, bool) {
	s = strings.TrimSpace(s)
	if !strings.HasSuffix(s, "%") {
		switch s {
		case "from":
			return 0, true
		case "to":
			return 100_000_000, true
		}
		return 0, false
	}
	s = strings.TrimSuffix(s, "%")
	neg := false
	if strings.HasPrefix(s, "-") {
		neg, s = true, s[1:]
	} else if strings.HasPrefix(s, "+") {
		s = s[1:]
	}
	ip, fp, _ := strings.Cut(s, ".")
	if ip == "" && fp == "" || len(fp) > 6 || len(ip) > 9 {
		return 0, false
	}
	for _, c := range ip + fp {
		if c < '0' || c > '9' {
			return 0, false
		}
	}
	for len(fp) < 6 {
		fp += "0"
	}
	if ip == "" {
		ip = "0"
	}
	a, _ := strconv.ParseInt(ip, 10, 64)
	b, _ := strconv.ParseInt(fp, 10, 64)
	v := a*1_000_000 + b
	if neg {
		v = -v
	}
	return v, true
}

// c33ParseKeyframes parses every @keyframes rule of css.
func c33ParseKeyframes(css string) (map[string]*c33Rule, map[string]error) {
	out := map[string]*c33Rule{}
	bad := map[string]error{}
	for _, loc := range c33KfRe.FindAllStringSubmatchIndex(css, -1) {
		name := css[loc[2]:loc[3]]
		rule, err := c33ParseRule(name, css[loc[1]:])
		if err != nil {
			bad[name] = err
			continue
		}
		out[name] = rule // a later rule of the same name replaces an earlier one (CSS)
	}
	return out, bad
}

func c33ParseRule(name, rest string) (*c33Rule, error) {
	{
		rule := &c33Rule{}
		val := map[int64]float64{}
		for {
			rest = strings.TrimLeft(rest, " \t\r\n")
			if rest == "" {
				return nil, fmt.Errorf("@keyframes %s: unterminated rule", name)
			}
			if rest[0] == '}' {
				break
			}
			ob := strings.IndexByte(rest, '{')
			if ob < 0 {
				return nil, fmt.Errorf("@keyframes %s: selector without block", name)
			}
			cb := strings.IndexByte(rest[ob:], '}')
			if cb < 0 {
				return nil, fmt.Errorf("@keyframes %s: unterminated block", name)
			}
			sel, body := rest[:ob], rest[ob+1:ob+cb]
			rest = rest[ob+cb+1:]
			op, has := 0.0, false
			for _, decl := range strings.Split(body, ";") {
				k, v, ok := strings.Cut(decl, ":")
				if ok && strings.TrimSpace(k) == "opacity" {
					f, err := strconv.ParseFloat(strings.TrimSpace(v), 64)
					if err != nil {
						return nil, fmt.Errorf("@keyframes %s: bad opacity %q", name, v)
					}
					op, has = f, true
				}
			}
			for _, tok := range strings.Split(sel, ",") {
				p, ok := c33ParsePct(tok)
				if !ok {
					return nil, fmt.Errorf("@keyframes %s: bad keyframe selector %q", name, strings.TrimSpace(tok))
				}
				rule.appear = append(rule.appear, p)
				if has {
					val[p] = op // later declaration for the same offset wins
				}
			}
		}
		for p, o := range val {
			rule.frames = append(rule.frames, c33Kf{p, o})
		}
		sort.Slice(rule.frames, func(i, j int) bool { return rule.frames[i].p < rule.frames[j].p })
		return rule, nil
	}
}

type c33Seg struct{ a, b int64 } // closed, units of 10⁻⁸ ms

// c33Visible returns the closed segments on which the rule holds opacity exactly 1.
func c33Visible(rule *c33Rule, dur int64) []c33Seg {
	fr := append([]c33Kf{}, rule.frames...)
	// keyframes outside [0,100] are ignored by CSS (the range clause reports them)
	k := fr[:0]
	for _, f := range fr {
		if f.p >= 0 && f.p <= 100_000_000 {
			k = append(k, f)
		}
	}
	fr = k
	if len(fr) == 0 || fr[0].p != 0 {
		fr = append([]c33Kf{{0, 1}}, fr...)
	}
	if fr[len(fr)-1].p != 100_000_000 {
		fr = append(fr, c33Kf{100_000_000, 1})
	}
	var segs []c33Seg
	for i, f := range fr {
		if f.op != 1 {
			continue
		}
		a := f.p * dur
		b := a
		if i+1 < len(fr) && fr[i+1].op == 1 {
			b = fr[i+1].p * dur
		}
		if n := len(segs); n > 0 && segs[n-1].b >= a {
			if b > segs[n-1].b {
				segs[n-1].b = b
			}
		} else {
			segs = append(segs, c33Seg{a, b})
		}
	}
	return segs
}

func execC33(c run.Case) (res run.Result) {
	var in c33In
	c.Decode(&in)
	n, T := in.N, in.T
	res.Digest = fmt.Sprintf("%d/%d", n, T)
	res.Sample = map[string]any{"n": n, "T": T}
	root, err := c33RootDiagram()
	if err != nil {
		res.Inconclusive = "harness: cannot compile root diagram: " + err.Error()
		return
	}
	svgs := make([][]byte, n)
	for i := range svgs {
		svgs[i] = []byte(fmt.Sprintf(`<g data-b="%d"><rect width="1" height="1"/></g>`, i))
	}
	out, err := d2animate.Wrap(root, svgs, d2svg.RenderOpts{Pad: c3rPtr(int64(10))}, T)
	if err != nil {
		res.Viol("C33.wrap-error", "C33.wrap-error", fmt.Sprintf("Wrap(n=%d,T=%d): %v", n, T, err))
		return
	}
	doc := string(out)
	rules, badRules := c33ParseKeyframes(doc)
	anims := c33AnimRe.FindAllStringSubmatch(doc, -1)
	if len(anims) != n {
		res.Viol("C33.board-count", "C33.board-count", fmt.Sprintf("n=%d T=%d: %d boards carry an animation declaration", n, T, len(anims)))
		return
	}
	total := int64(n) * int64(T)
	vis := make([][]c33Seg, n)
	seen := map[string]bool{}
	viols := 0
	viol := func(clause, sig, msg string) {
		viols++
		if viols <= 6 {
			res.Viol(clause, sig, fmt.Sprintf("n=%d T=%d: %s", n, T, msg))
		}
	}
	for _, m := range anims {
		b, _ := strconv.Atoi(m[3])
		dur, _ := strconv.ParseInt(m[2], 10, 64)
		if b < 0 || b >= n || vis[b] != nil {
			viol("C33.board-count", "C33.board-count", "board index "+m[3]+" out of range or repeated")
			return
		}
		if dur != total {
			viol("C33.animation-duration", "C33.animation-duration", fmt.Sprintf("board %d animates over %d ms, want n·T = %d", b, dur, total))
			return
		}
		if seen[m[1]] {
			viol("C33.animation-shared", "C33.animation-shared", "two boards share animation "+m[1])
		}
		seen[m[1]] = true
		rule := rules[m[1]]
		if err := badRules[m[1]]; err != nil {
			viol("C33.keyframes-malformed", "C33.keyframes-malformed", err.Error())
			return
		}
		if rule == nil {
			viol("C33.keyframes-missing", "C33.keyframes-missing", fmt.Sprintf("board %d: no @keyframes %s", b, m[1]))
			return
		}
		res.Add("keyframe_rules_parsed", 1)
		res.Add("keyframe_offsets_parsed", len(rule.appear))
		for i, p := range rule.appear {
			if p < 0 {
				viol("C33.percent-out-of-range", "C33.percent-out-of-range:negative", fmt.Sprintf("board %d: keyframe offset %d·10⁻⁶%% < 0", b, p))
			} else if p > 100_000_000 {
				viol("C33.percent-out-of-range", "C33.percent-out-of-range:over-100", fmt.Sprintf("board %d: keyframe offset %d·10⁻⁶%% > 100", b, p))
			}
			if i > 0 && p < rule.appear[i-1] {
				viol("C33.percent-order", "C33.percent-order", fmt.Sprintf("board %d: keyframe offsets decrease: %d·10⁻⁶%% after %d·10⁻⁶%%", b, p, rule.appear[i-1]))
			}
		}
		vis[b] = c33Visible(rule, total)
		if vis[b] == nil {
			vis[b] = []c33Seg{}
		}
	}
	// regions
	const unit = int64(100_000_000) // 10⁻⁸ ms per ms
	eps := total                    // 10⁻⁶ % of the cycle in 10⁻⁸ ms
	lo := func(i int) int64 { return int64(i)*int64(T)*unit + eps }
	hi := func(i int) int64 { return (int64(i+1)*int64(T)-1)*unit - eps }
	judged := 0
	for i := 0; i < n; i++ {
		l, h := lo(i), hi(i)
		if l > h {
			res.Inc("intervals_vacuous")
			continue
		}
		judged++
		ok := false
		for _, s := range vis[i] {
			if s.a <= l && s.b >= h {
				ok = true
				break
			}
		}
		if !ok {
			sig := "C33.board-not-visible:own-interval"
			if total > c33PrecisionLimit {
				sig = "C33.board-not-visible:cycle-over-5e7ms-transition-below-print-precision"
			}
			viol("C33.board-not-visible", sig, fmt.Sprintf("board %d is not fully visible throughout its interval [%d ms, %d ms − 1): visible segments (10⁻⁸ ms) %v", i, i*T, (i+1)*T, vis[i]))
		}
	}
	res.Add("intervals_judged", judged)
	for j := 0; j < n; j++ {
		for _, s := range vis[j] {
			i0 := int(s.a/unit/int64(T)) - 1
			i1 := int(s.b/unit/int64(T)) + 1
			if i0 < 0 {
				i0 = 0
			}
			if i1 > n-1 {
				i1 = n - 1
			}
			for i := i0; i <= i1; i++ {
				if i == j {
					continue
				}
				l, h := lo(i), hi(i)
				if l > h || s.a > h || s.b < l {
					continue
				}
				sig := "C33.extra-board-visible:other"
				if total > c33PrecisionLimit {
					sig = "C33.extra-board-visible:cycle-over-5e7ms-transition-below-print-precision"
				}
				if j < n-1 && i > j && s.b == 100_000_000*total {
					// board j (not the last) is held at opacity 1 until the end of the cycle
					sig = "C33.extra-board-visible:earlier-board-held-to-cycle-end"
				}
				viol("C33.extra-board-visible", sig, fmt.Sprintf("board %d is fully visible during interval %d (segment %d..%d ·10⁻⁸ ms overlaps [%d,%d])", j, i, s.a, s.b, l, h))
			}
		}
	}
	if viols > 6 {
		res.Add("violations_not_listed", viols-6)
	}
	res.Nontrivial = n >= 2 && judged > 0
	switch {
	case n <= 100:
		res.Inc("n_le_100")
	case n <= 300:
		res.Inc("n_101_300")
	default:
		res.Inc("n_gt_300")
	}
	if judged == 0 {
		res.Inc("cases_all_vacuous")
	}
	if total > c33PrecisionLimit {
		res.Inc("cycle_over_5e7ms")
	}
	return
}
