package mon

// C34 — multi-board output stays inside the output location, one file per board.
// (also hosts the board-tree generator, sandbox and CLI runner shared with C35)
//
// Workload: board trees (≤3 deep, ≤4 wide) whose names are drawn from plain, dotted,
// slash / backslash / `..` bearing, keyword-like (`index`, `layers`, …), trailing dot /
// space, unicode and shell-hostile classes, rendered by the real bin/d2
// (`d2 --layout dagre in.d2 <sandbox>/L01/…/L12/out/x.svg`, BROWSER=0, no network) into a
// sandbox whose every ancestor level holds a sentinel file and a canary directory; `out/`
// holds a sentinel, an old `x.svg`, a stale `x/` directory and look-alike siblings.
// The generator bounds the number of `..` path components of a whole tree (≤ 6 < 12
// levels) so that even a violating run cannot leave the sandbox root.
//
// Oracle: snapshot (path, kind, size, sha256) of the whole sandbox before/after:
//   - C34.outside: nothing outside `out/x/` and `out/x.svg` is created, modified or removed;
//   - C34.count: on success the number of .svg files below the output location equals the
//     number of boards that have content (every generated board declares its own uniquely
//     labelled shape; boards generated without any shape are "folder only" and may be
//     skipped), and every board's own label occurs in some written file.
//
// Signatures are C34.board-name-<class>:<clause>[:created|modified|removed] where <class> is
// the trigger class of the tree's most hostile board name:
// dotdot-component > slash > keyword-index > other.
//
// A quarter of the trees ("edge") plant the whole-name edge cases of a name→path-component
// mapping: boards named exactly `.` / `..` / `...` / dots-and-spaces only / `%2E%2E` / `%2F`,
// and siblings one of which is named like the escape of the other (`a/b` next to `a%2Fb`),
// each as leaf board and as folder board (with sub-boards), at the first and deeper levels.

import (
	"bytes"
	"crypto/sha256"
	"encoding/hex"
	"fmt"
	"io/fs"
	"os"
	"os/exec"
	"path/filepath"
	"runtime"
	"sort"
	"strconv"
	"strings"
	"sync"
	"syscall"
	"time"
	"unicode"

	"verif/gen"
	"verif/run"
)

func init() {
	run.Register(&run.Check{
		ID: "C34", Title: "Multi-board output stays inside the output location, one file per board",
		LevelText:     "Exploration: generated board trees (≤3 deep, ≤4 wide, layers/scenarios/steps) whose names contain dots, slashes, backslashes, `..`, `index`, `layers`, trailing dots/spaces, unicode and shell-hostile runes are rendered by the real d2 binary into a sandbox directory 12 levels below a fresh temp root with sentinel files and canary directories at every ancestor level; a full (path,size,sha256) snapshot before/after decides whether anything outside the output location changed and whether every board got its own file.",
		Technique:     "runtime monitoring: real CLI in a sentinel sandbox + snapshot-diff oracle",
		DesignRef:     "§4 C34",
		Rule:          "cases: board trees from gen (half with only benign names, half with 1–3 hostile names); distinct by sha256 of the tree; non-trivial when the tree has ≥2 boards and the CLI ran to completion (exit 0 or a clean error) with both snapshots taken",
		Needs:         []string{"d2"},
		Custom:        func(d *run.Driver) { c34Custom(d, "C34") },
		Exec:          func(c run.Case) run.Result { return c34Exec(c, "C34", "") },
		MinNontrivial: 20,
	})
}

// ---------------------------------------------------------------------------------
// board tree model

type c34Link struct {
	Key    string   `json:"key"`            // shape key (declared in the board, possibly nested "c.d")
	Label  string   `json:"label"`          // unique label of the shape
	Text   string   `json:"text"`           // link value as written
	Kind   string   `json:"kind"`           // abs | rel | up | self | missing | url | imported-…
	Expect []string `json:"expect"`         // expected absolute board path elements (root, layers, a, …); nil = dropped
	URL    bool     `json:"url,omitempty"`  // not a board link: must survive unchanged
	Case   bool     `json:"case,omitempty"` // keyword written in another case (not judged exactly)
}

type c34Board struct {
	Kind      string      `json:"kind"` // "" (root) | layers | scenarios | steps
	Name      string      `json:"name"`
	Class     string      `json:"class,omitempty"` // name class
	Marker    string      `json:"marker"`          // label of the board's own shape ("" = no own shape)
	Links     []c34Link   `json:"links,omitempty"`
	Import    string      `json:"import,omitempty"` // "" | value | spread : body lives in an imported file
	ImpFile   string      `json:"imp_file,omitempty"`
	Layers    []*c34Board `json:"layers,omitempty"`
	Scenarios []*c34Board `json:"scenarios,omitempty"`
	Steps     []*c34Board `json:"steps,omitempty"`
}

type c34Tree struct {
	Root  *c34Board         `json:"root"`
	Text  string            `json:"text"`  // in.d2
	Files map[string]string `json:"files"` // imported files (name -> text)
	Class string            `json:"class"` // trigger class of the most hostile name
}

func (b *c34Board) kids() []*c34Board {
	var out []*c34Board
	out = append(out, b.Layers...)
	out = append(out, b.Scenarios...)
	out = append(out, b.Steps...)
	return out
}

func (b *c34Board) walk(path []string, f func(b *c34Board, path []string)) {
	f(b, path)
	for _, k := range b.kids() {
		k.walk(append(append([]string{}, path...), k.Kind, k.Name), f)
	}
}

// c34Quote renders a board name / key segment as a D2 key.
func c34Quote(s string) string {
	plain := s != ""
	for _, r := range s {
		if !(unicode.IsLetter(r) || r >= '0' && r <= '9' || r == '_') {
			plain = false
		}
	}
	switch strings.ToLower(s) {
	case "null", "true", "false", "_", "layers", "scenarios", "steps", "link", "label", "shape", "style", "near", "icon", "class", "classes", "vars", "width", "height", "top", "left", "direction", "tooltip", "constraint", "suspend", "unsuspend":
		plain = false
	}
	if plain {
		return s
	}
	if !strings.ContainsAny(s, "'\n") {
		return "'" + s + "'"
	}
	r := strings.NewReplacer(`\`, `\\`, `"`, `\"`, "\n", `\n`)
	return `"` + r.Replace(s) + `"`
}

func c34PathKey(elems []string) string {
	var out []string
	if len(elems) > 0 && elems[0] == "root" {
		out = append(out, "root")
		elems = elems[1:]
	}
	for j, e := range elems {
		if j%2 == 0 { // layers | scenarios | steps
			out = append(out, e)
		} else {
			out = append(out, c34Quote(e))
		}
	}
	return strings.Join(out, ".")
}

var c34NameClasses = map[string][]string{
	"plain":     {"a", "b1", "Main", "x_y", "zeta"},
	"dots":      {"a.b", "v1.2.3", ".hidden", "a..b", "...", "a.b.svg"},
	"trailing":  {"a.", "a ", " a", "a. ", "a..", "tab\t"},
	"backslash": {`a\b`, `..\x`, `\\srv\share`, `c:\x`},
	"slash":     {"a/b", "/abs", "a/", "a//b", "./a", "a/b/c", "/"},
	"dotdot":    {"..", "../x", "a/../b", "../../y", "x/..", "../out/x", "../sentinel"},
	"keyword":   {"index", "layers", "scenarios", "steps", "Index", "index.svg", "x", "x.svg"},
	// whole-name edge cases of a name→path-component mapping: names that ARE a dot path, names
	// made of dots/spaces only, and names that look like the escapes of other names
	"wholedot": {".", "..", "...", ". ", " .", "  ", " ", ". .", ".. ", " ..", "%2E", "%2E%2E", "%2e%2e", "%2F", "%252F", "%5C", "%25", "%"},
	"unicode":  {"ü中", "日本語", "😀", "e\u0301", "\u202eabc"},
	"shell":    {"a:b", "a*b", "a?b", "a|b", "<x>", "a&b", "%2e%2e", "~", "-rf", "$HOME", "a;b", "`id`", "a'b", `a"b`, "#h", "{b}", strings.Repeat("n", 120)},
}

// c34TriggerClass is the class used in violation signatures.
func c34TriggerClass(t *c34Tree) string {
	cls := "other"
	rank := map[string]int{"other": 0, "keyword-index": 1, "slash": 2, "dotdot-component": 3}
	t.Root.walk([]string{"root"}, func(b *c34Board, _ []string) {
		c := "other"
		hasDD := false
		for _, p := range strings.Split(b.Name, "/") {
			if p == ".." {
				hasDD = true
			}
		}
		switch {
		case hasDD:
			c = "dotdot-component"
		case strings.Contains(b.Name, "/"):
			c = "slash"
		case b.Name == "index" || b.Name == "layers" || b.Name == "scenarios" || b.Name == "steps":
			c = "keyword-index"
		}
		if rank[c] > rank[cls] {
			cls = c
		}
	})
	return cls
}

type c34GenOpts struct {
	Hostile  int      // number of hostile names to plant
	Edge     int      // >0: plant whole-name / escape-collision edge cases; the value selects the first plant
	Links    bool     // generate link-bearing shapes (C35)
	Imports  bool     // move some board bodies into imported files (C35)
	BenignC  []string // classes for the remaining names
	MaxDepth int
}

// c34GenTree builds a board tree.
func c34GenTree(q *gen.R, o c34GenOpts) *c34Tree {
	t := &c34Tree{Files: map[string]string{}}
	n := 0
	ddBudget := 6
	var all []*c34Board
	used := map[*c34Board]map[string]bool{}
	mk := func(parent *c34Board, kind string) *c34Board {
		n++
		b := &c34Board{Kind: kind, Marker: fmt.Sprintf("MK%dX", n)}
		for try := 0; ; try++ {
			cls := gen.Pick(q, o.BenignC)
			b.Name = gen.Pick(q, c34NameClasses[cls])
			b.Class = cls
			if try > 3 {
				b.Name = fmt.Sprintf("%s%d", b.Name, n)
			}
			if used[parent] == nil {
				used[parent] = map[string]bool{}
			}
			// d2 refuses two boards of one name under one parent (any kind)
			if !used[parent][b.Name] {
				used[parent][b.Name] = true
				break
			}
		}
		all = append(all, b)
		return b
	}
	t.Root = &c34Board{Marker: "MK0X"}
	var grow func(b *c34Board, depth int)
	grow = func(b *c34Board, depth int) {
		if depth >= o.MaxDepth {
			return
		}
		kinds := []string{"layers", "scenarios", "steps"}
		nk := q.Weighted(6, 3, 1) + 1
		if depth > 0 && q.P(0.45) {
			return
		}
		q.Shuffle(3, func(i, j int) { kinds[i], kinds[j] = kinds[j], kinds[i] })
		for _, kind := range kinds[:nk] {
			w := q.Range(1, 4)
			if depth > 0 {
				w = q.Range(1, 2)
			}
			for i := 0; i < w && n < 8; i++ {
				c := mk(b, kind)
				switch kind {
				case "layers":
					b.Layers = append(b.Layers, c)
				case "scenarios":
					b.Scenarios = append(b.Scenarios, c)
				default:
					b.Steps = append(b.Steps, c)
				}
				grow(c, depth+1)
			}
		}
	}
	grow(t.Root, 0)
	if len(all) == 0 {
		c := mk(t.Root, "layers")
		t.Root.Layers = append(t.Root.Layers, c)
	}
	// plant hostile names
	hostile := []string{"slash", "dotdot", "keyword", "backslash", "trailing", "dots", "shell", "unicode"}
	for k := 0; k < o.Hostile; k++ {
		b := gen.Pick(q, all)
		cls := gen.Pick(q, hostile)
		name := gen.Pick(q, c34NameClasses[cls])
		dd := 0
		for _, p := range strings.Split(name, "/") {
			if p == ".." {
				dd++
			}
		}
		if dd > ddBudget {
			continue
		}
		// keep names unique among the siblings
		var parent *c34Board
		t.Root.walk(nil, func(p *c34Board, _ []string) {
			for _, c := range p.kids() {
				if c == b {
					parent = p
				}
			}
		})
		if used[parent][name] {
			continue
		}
		delete(used[parent], b.Name)
		used[parent][name] = true
		ddBudget -= dd
		b.Name, b.Class = name, cls
	}
	if o.Edge > 0 {
		c34PlantEdge(q, t, o.Edge-1, mk, used, &ddBudget)
	}
	// folder-only candidates: a layer without own shape but with children
	if !o.Links && q.P(0.2) {
		for _, b := range all {
			if b.Kind == "layers" && len(b.kids()) > 0 {
				b.Marker = ""
				break
			}
		}
	}
	if o.Links {
		c35AddLinks(q, t, o.Imports)
	}
	t.Text = c34Render(t, t.Root, 0, true)
	t.Class = c34TriggerClass(t)
	return t
}

// c34PlantEdge renames boards to the edge cases of a "board name → one path component"
// mapping. Plant 0 is chosen by sel (cycling through {"..", "."} × {leaf, folder board} ×
// {first level, deeper}); 1–3 further plants are random: a whole-name case on a leaf or on a
// folder board, or a pair of siblings one of which is named like the escape of the other.
func c34PlantEdge(q *gen.R, t *c34Tree, sel int, mk func(parent *c34Board, kind string) *c34Board, used map[*c34Board]map[string]bool, ddBudget *int) {
	type ref struct {
		b, parent *c34Board
		depth     int
	}
	collect := func() []ref {
		var out []ref
		var rec func(p *c34Board, d int)
		rec = func(p *c34Board, d int) {
			for _, c := range p.kids() {
				out = append(out, ref{c, p, d + 1})
				rec(c, d+1)
			}
		}
		rec(t.Root, 0)
		return out
	}
	addKid := func(b *c34Board) *c34Board {
		c := mk(b, "layers")
		b.Layers = append(b.Layers, c)
		return c
	}
	rename := func(r ref, name string) bool {
		dd := 0
		if name == ".." {
			dd = 1
		}
		if dd > *ddBudget || used[r.parent][name] {
			return false
		}
		if used[r.parent] == nil {
			used[r.parent] = map[string]bool{}
		}
		delete(used[r.parent], r.b.Name)
		used[r.parent][name] = true
		*ddBudget -= dd
		r.b.Name, r.b.Class = name, "wholedot"
		if r.b.Marker == "" {
			r.b.Marker = "MKE" + fmt.Sprint(len(name)) + "X"
		}
		return true
	}
	pick := func(deeper, folder bool) ref {
		refs := collect()
		var cands []ref
		for _, r := range refs {
			if (r.depth >= 2) == deeper {
				cands = append(cands, r)
			}
		}
		if len(cands) == 0 && deeper {
			// make a deeper level
			for _, r := range refs {
				if r.depth == 1 {
					addKid(r.b)
					break
				}
			}
			for _, r := range collect() {
				if r.depth >= 2 {
					cands = append(cands, r)
				}
			}
		}
		if len(cands) == 0 {
			cands = refs
		}
		r := gen.Pick(q, cands)
		if folder && len(r.b.kids()) == 0 {
			addKid(r.b)
		}
		if !folder && len(r.b.kids()) > 0 {
			// prefer a leaf among the candidates
			for _, c := range cands {
				if len(c.b.kids()) == 0 {
					r = c
					break
				}
			}
		}
		return r
	}
	// plant 0: deterministic cycle
	name := []string{"..", "."}[sel%2]
	folder := sel/2%2 == 1
	deeper := sel/4%2 == 1
	rename(pick(deeper, folder), name)
	for k := q.Range(1, 3); k > 0; k-- {
		switch q.Intn(3) {
		case 0, 1:
			rename(pick(q.P(0.5), q.P(0.5)), gen.Pick(q, c34NameClasses["wholedot"]))
		default:
			// siblings: a name and the escape of that name
			pairs := [][2]string{{"a/b", "a%2Fb"}, {"..", "%2E%2E"}, {".", "%2E"}, {"a%2Fb", "a%252Fb"}, {"a/", "a"}, {"%", "%25"}, {`a\b`, "a%5Cb"}, {"a/b", "a"}}
			pr := gen.Pick(q, pairs)
			r := pick(q.P(0.4), q.P(0.4))
			// a sibling under the same parent
			var sib *c34Board
			for _, c := range r.parent.kids() {
				if c != r.b {
					sib = c
				}
			}
			if sib == nil {
				sib = mk(r.parent, "layers")
				r.parent.Layers = append(r.parent.Layers, sib)
			}
			if rename(r, pr[0]) {
				rename(ref{sib, r.parent, r.depth}, pr[1])
			}
		}
	}
}

// c34Render renders a board body. Imported bodies are written to t.Files.
func c34Render(t *c34Tree, b *c34Board, depth int, isRoot bool) string {
	var sb strings.Builder
	ind := strings.Repeat("  ", depth)
	if b.Marker != "" {
		fmt.Fprintf(&sb, "%sk%s: %s\n", ind, strings.ToLower(strings.TrimSuffix(b.Marker, "X")), b.Marker)
	}
	for _, l := range b.Links {
		fmt.Fprintf(&sb, "%s%s: %s {link: %s}\n", ind, l.Key, l.Label, c35QuoteValue(l.Text))
	}
	for _, grp := range []struct {
		kind string
		bs   []*c34Board
	}{{"layers", b.Layers}, {"scenarios", b.Scenarios}, {"steps", b.Steps}} {
		if len(grp.bs) == 0 {
			continue
		}
		fmt.Fprintf(&sb, "%s%s: {\n", ind, grp.kind)
		for _, c := range grp.bs {
			switch c.Import {
			case "value":
				t.Files[c.ImpFile+".d2"] = c34Render(t, c, 0, false)
				fmt.Fprintf(&sb, "%s  %s: @%s\n", ind, c34Quote(c.Name), c.ImpFile)
			case "spread":
				t.Files[c.ImpFile+".d2"] = c34Render(t, c, 0, false)
				fmt.Fprintf(&sb, "%s  %s: {\n%s    ...@%s\n%s  }\n", ind, c34Quote(c.Name), ind, c.ImpFile, ind)
			default:
				fmt.Fprintf(&sb, "%s  %s: {\n%s%s  }\n", ind, c34Quote(c.Name), c34Render(t, c, depth+2, false), ind)
			}
		}
		fmt.Fprintf(&sb, "%s}\n", ind)
	}
	return sb.String()
}

// ---------------------------------------------------------------------------------
// sandbox + snapshot

const c34Levels = 12

type c34Snap map[string]string // relative path -> "d" | "f:<size>:<sha>" | "l:<target>"

func c34Snapshot(root string) (c34Snap, error) {
	s := c34Snap{}
	err := filepath.WalkDir(root, func(p string, de fs.DirEntry, err error) error {
		if err != nil {
			return err
		}
		rel, _ := filepath.Rel(root, p)
		switch {
		case de.IsDir():
			s[rel] = "d"
		case de.Type()&fs.ModeSymlink != 0:
			tg, _ := os.Readlink(p)
			s[rel] = "l:" + tg
		default:
			b, err := os.ReadFile(p)
			if err != nil {
				return err
			}
			h := sha256.Sum256(b)
			s[rel] = fmt.Sprintf("f:%d:%s", len(b), hex.EncodeToString(h[:8]))
		}
		return nil
	})
	return s, err
}

type c34Sandbox struct {
	Top    string // temp dir (removed afterwards)
	Root   string // Top/sb
	Work   string // Root/L01/…/L12
	In     string // Work/in/in.d2
	Out    string // Work/out/x.svg
	OutRel string // relative path of Work/out from Root
}

func c34MakeSandbox(t *c34Tree) (*c34Sandbox, error) {
	top, err := os.MkdirTemp("", "c34-")
	if err != nil {
		return nil, err
	}
	top, _ = filepath.EvalSymlinks(top)
	sb := &c34Sandbox{Top: top, Root: filepath.Join(top, "sb")}
	cur := sb.Root
	w := func(p, content string) {
		os.MkdirAll(filepath.Dir(p), 0o755)
		os.WriteFile(p, []byte(content), 0o644)
	}
	for i := 0; i <= c34Levels; i++ {
		if i > 0 {
			cur = filepath.Join(cur, fmt.Sprintf("L%02d", i))
		}
		w(filepath.Join(cur, fmt.Sprintf("sentinel-%02d.txt", i)), fmt.Sprintf("sentinel at level %d\n", i))
		w(filepath.Join(cur, fmt.Sprintf("canary-%02d", i), "keep.txt"), "canary\n")
		// names a careless join could hit
		w(filepath.Join(cur, "x.svg"), "<svg>decoy</svg>\n")
		w(filepath.Join(cur, "y.svg"), "<svg>decoy y</svg>\n")
		w(filepath.Join(cur, "index.svg"), "<svg>decoy index</svg>\n")
	}
	sb.Work = cur
	sb.In = filepath.Join(cur, "in", "in.d2")
	w(sb.In, t.Text)
	for name, text := range t.Files {
		w(filepath.Join(cur, "in", name), text)
	}
	out := filepath.Join(cur, "out")
	sb.Out = filepath.Join(out, "x.svg")
	w(filepath.Join(out, "sentinel.txt"), "sentinel in out\n")
	w(filepath.Join(out, "x.svg"), "<svg>old single board output</svg>\n")
	w(filepath.Join(out, "x", "stale.svg"), "<svg>stale board from an earlier run</svg>\n")
	w(filepath.Join(out, "x", "deep", "stale2.svg"), "<svg>stale</svg>\n")
	w(filepath.Join(out, "xy.svg"), "<svg>sibling</svg>\n")
	w(filepath.Join(out, "xy", "index.svg"), "<svg>sibling dir</svg>\n")
	w(filepath.Join(out, "x.svg.bak"), "backup\n")
	w(filepath.Join(out, "sentinel"), "sentinel without extension\n")
	sb.OutRel, _ = filepath.Rel(sb.Root, out)
	return sb, nil
}

func (sb *c34Sandbox) Close() { os.RemoveAll(sb.Top) }

type c34RunOut struct {
	Exit    int
	Output  string
	Timeout bool
	Dur     time.Duration
}

var c34EmptyPathOnce sync.Once
var c34EmptyPath string

func c34RunD2(d2bin string, sb *c34Sandbox, extra ...string) c34RunOut {
	c34EmptyPathOnce.Do(func() {
		c34EmptyPath, _ = os.MkdirTemp("", "c34-emptypath-")
	})
	args := append([]string{"--layout", "dagre"}, extra...)
	args = append(args, sb.In, sb.Out)
	cmd := exec.Command(d2bin, args...)
	cmd.Dir = sb.Work
	cmd.Env = []string{"PATH=" + c34EmptyPath, "HOME=" + sb.Top, "BROWSER=0", "NO_COLOR=1", "TZ=UTC"}
	cmd.SysProcAttr = &syscall.SysProcAttr{Setpgid: true}
	var buf bytes.Buffer
	cmd.Stdout, cmd.Stderr = &buf, &buf
	t0 := time.Now()
	if err := cmd.Start(); err != nil {
		return c34RunOut{Exit: -1, Output: err.Error()}
	}
	done := make(chan error, 1)
	go func() { done <- cmd.Wait() }()
	var ro c34RunOut
	select {
	case err := <-done:
		if err != nil {
			ro.Exit = 1
			if ee, ok := err.(*exec.ExitError); ok {
				ro.Exit = ee.ExitCode()
			}
		}
	case <-time.After(600 * time.Second):
		syscall.Kill(-cmd.Process.Pid, syscall.SIGKILL)
		<-done
		ro.Timeout = true
		ro.Exit = -1
	}
	ro.Dur = time.Since(t0)
	ro.Output = buf.String()
	return ro
}

func c34D2Bin() string {
	root := os.Getenv("VERIF_ROOT")
	if root == "" {
		root = "/verif"
	}
	return filepath.Join(root, "bin", "d2")
}

// c34SvgFiles lists the .svg files of the output location after the run.
func c34SvgFiles(sb *c34Sandbox, before, after c34Snap) []string {
	var out []string
	pre := filepath.Join(sb.OutRel, "x") + "/"
	single := filepath.Join(sb.OutRel, "x.svg")
	for p, v := range after {
		if v[0] != 'f' {
			continue
		}
		if strings.HasPrefix(p, pre) && strings.HasSuffix(p, ".svg") {
			out = append(out, p)
		}
		if p == single && before[p] != v {
			out = append(out, p) // out/x.svg rewritten by this run (the output of a single board)
		}
	}
	sort.Strings(out)
	return out
}

// ---------------------------------------------------------------------------------
// C34 check

type c34In struct {
	Tree *c34Tree `json:"tree"`
	Src  string   `json:"src"`
}

func c34Cases(seed int64, tier string, forLinks bool) []run.Case {
	r := gen.New(seed)
	n := tierN(tier, 100, 4000)
	if forLinks {
		n = tierN(tier, 120, 6000)
	}
	// development aid only: VERIF_LIMIT=<k> runs the first k trees of the list
	if v, err := strconv.Atoi(os.Getenv("VERIF_LIMIT")); err == nil && v > 0 && v < n {
		n = v
	}
	var out []run.Case
	for i := 0; i < n; i++ {
		q := r.Sub(i)
		var o c34GenOpts
		o.MaxDepth = 3
		src := "benign"
		if forLinks {
			o.Links = true
			o.Imports = q.P(0.4)
			o.BenignC = []string{"plain"}
			if i%2 == 1 {
				o.BenignC = []string{"plain", "plain", "plain", "dots", "unicode", "trailing"}
			}
			if o.Imports {
				src = "links+imports"
			} else {
				src = "links"
			}
			if i%2 == 1 {
				src += "+quoted-names"
			}
		} else {
			o.BenignC = []string{"plain", "plain", "dots", "backslash", "trailing", "unicode", "shell"}
			if i%2 == 1 {
				o.Hostile = q.Range(1, 3)
				src = "hostile"
			}
			if i%4 == 2 {
				o.Edge = i/4%8 + 1
				src = "edge"
			}
		}
		t := c34GenTree(q, o)
		out = append(out, run.MkCase(fmt.Sprintf("t%05d", i), src, c34In{Tree: t, Src: src}))
	}
	return out
}

func c34Custom(d *run.Driver, id string) {
	if _, err := os.Stat(filepath.Join(d.Root, "bin", "d2")); err != nil {
		d.Inconclusive = append(d.Inconclusive, "missing bin/d2 (run through ./check, which builds it)")
		return
	}
	cases := c34Cases(d.Seed, d.Tier, id == "C35")
	d.Logf("generated %d board trees", len(cases))
	workers := runtime.GOMAXPROCS(0)
	if workers > 16 {
		workers = 16
	}
	ch := make(chan run.Case)
	var wg sync.WaitGroup
	for w := 0; w < workers; w++ {
		wg.Add(1)
		go func() {
			defer wg.Done()
			for c := range ch {
				d.Record(c, c34Exec(c, id, filepath.Join(d.Root, "bin", "d2")))
			}
		}()
	}
	for _, c := range cases {
		ch <- c
	}
	close(ch)
	wg.Wait()
	if c34EmptyPath != "" {
		os.RemoveAll(c34EmptyPath)
	}
}

func c34Exec(c run.Case, id, d2bin string) (res run.Result) {
	defer func() {
		if e := recover(); e != nil {
			res.Inconclusive = fmt.Sprintf("harness panic: %v", e)
		}
	}()
	if d2bin == "" {
		d2bin = c34D2Bin()
	}
	var in c34In
	c.Decode(&in)
	if id == "C35" {
		return c35Exec(&in, d2bin)
	}
	t := in.Tree
	sb, err := c34MakeSandbox(t)
	if err != nil {
		res.Inconclusive = "sandbox: " + err.Error()
		return
	}
	defer sb.Close()
	before, err := c34Snapshot(sb.Root)
	if err != nil {
		res.Inconclusive = "snapshot: " + err.Error()
		return
	}
	ro := c34RunD2(d2bin, sb)
	after, err2 := c34Snapshot(sb.Root)
	if err2 != nil {
		res.Inconclusive = "snapshot after: " + err2.Error()
		return
	}
	if ro.Timeout {
		res.Inconclusive = "d2 did not finish within 600 s"
		return
	}
	nBoards, nContent := 0, 0
	var markers []string
	classes := map[string]bool{}
	t.Root.walk([]string{"root"}, func(b *c34Board, _ []string) {
		nBoards++
		if b.Marker != "" {
			nContent++
			markers = append(markers, b.Marker)
		}
		if b.Class != "" {
			classes[b.Class] = true
		}
	})
	for k := range classes {
		res.Inc("name_class_" + k)
	}
	res.Inc("src_" + in.Src)
	res.Add("boards", nBoards)
	res.Inc("trigger_" + t.Class)
	if ro.Exit != 0 {
		res.Inc("d2_exit_nonzero")
	} else {
		res.Inc("d2_exit_zero")
	}

	// (1) nothing outside the output location changed
	outDir := filepath.Join(sb.OutRel, "x")
	single := filepath.Join(sb.OutRel, "x.svg")
	rootHasBoards := len(t.Root.kids()) > 0
	allowed := func(p string) bool {
		if p == single {
			// a root with sub-boards is a folder out/x/: out/x.svg is not its output
			return !rootHasBoards
		}
		return p == outDir || strings.HasPrefix(p, outDir+"/")
	}
	var outside []string
	for p, v := range before {
		if a, ok := after[p]; !ok {
			if !allowed(p) {
				outside = append(outside, "removed "+p)
			}
		} else if a != v && !allowed(p) {
			outside = append(outside, "modified "+p)
		}
	}
	for p := range after {
		if _, ok := before[p]; !ok && !allowed(p) {
			outside = append(outside, "created "+p)
		}
	}
	sort.Strings(outside)
	res.Inc("outside_clause_judged")
	if len(outside) > 0 {
		kind := "created"
		for _, o := range outside {
			if strings.HasPrefix(o, "removed") {
				kind = "removed"
				break
			}
			if strings.HasPrefix(o, "modified") {
				kind = "modified"
			}
		}
		res.Viol("C34.outside", "C34.board-name-"+t.Class+":outside:"+kind,
			fmt.Sprintf("rendering to %s changed %d paths outside out/x/ and out/x.svg (exit %d):\n  %s\nboard names: %q\nd2 output: %s",
				filepath.Join(sb.OutRel, "x.svg"), len(outside), ro.Exit, strings.Join(c34Head(outside, 12), "\n  "), c34Names(t), trunc(ro.Output, 300)))
	}

	// (2) one file per board
	if ro.Exit == 0 {
		files := c34SvgFiles(sb, before, after)
		res.Inc("count_clause_judged")
		res.Add("board_files_written", len(files))
		lo, hi := nContent, nBoards
		// stale files of an earlier run inside out/x/ are legitimately removed when the
		// root has sub-boards (documented "self-contained folder" reset), and kept otherwise
		nStale := 0
		for _, f := range files {
			if strings.HasSuffix(f, "stale.svg") || strings.HasSuffix(f, "stale2.svg") {
				nStale++
			}
		}
		got := len(files) - nStale
		if got < lo || got > hi {
			res.Viol("C34.count", "C34.board-name-"+t.Class+":count",
				fmt.Sprintf("%d boards with content (%d boards in total) but %d .svg files below the output location: %q\nboard names: %q", nContent, nBoards, got, c34Head(files, 20), c34Names(t)))
		} else {
			// every board's own label occurs in some written file
			var all []byte
			for _, f := range files {
				b, _ := os.ReadFile(filepath.Join(sb.Root, f))
				all = append(all, b...)
			}
			for _, m := range markers {
				if !bytes.Contains(all, []byte(m)) {
					res.Viol("C34.count", "C34.board-name-"+t.Class+":missing-board", fmt.Sprintf("no written file contains the shape %s of one of the boards; files %q; names %q", m, c34Head(files, 20), c34Names(t)))
					break
				}
			}
		}
	} else {
		res.Inc("vacuous_count_clause_d2_failed")
	}
	res.Nontrivial = nBoards >= 2
	res.Sample = map[string]any{"boards": nBoards, "names": c34Head(c34Names(t), 8), "exit": ro.Exit, "class": t.Class, "ms": ro.Dur.Milliseconds()}
	return
}

func c34Names(t *c34Tree) []string {
	var out []string
	t.Root.walk([]string{"root"}, func(b *c34Board, _ []string) {
		if b.Kind != "" {
			out = append(out, b.Kind+":"+b.Name)
		}
	})
	return out
}

func c34Head(xs []string, n int) []string {
	if len(xs) > n {
		return append(append([]string{}, xs[:n]...), fmt.Sprintf("… %d more", len(xs)-n))
	}
	return xs
}
