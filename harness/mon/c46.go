package mon

// C46 — image bundling is independent of worker scheduling and failures.
//
// Workload: SVG texts with n eligible image references (local files next to the input
// path, or URLs served by an in-process httptest.Server on 127.0.0.1), duplicated
// references, data: URIs, HTML-escaped hrefs, references that are ineligible for the
// bundling mode, and noise that merely mentions an href. Three schedule modes:
//
//	enum  n ≤ 4 (thorough 5): ALL n! delivery orders × ALL 2ⁿ failing subsets. An order
//	      is enforced exactly through imgbundler.VerifGate (hook commit in /repo, build
//	      tag verif): every worker parks at "deliver" with its result in hand until all
//	      workers have arrived and it is its turn; the next one is released only after
//	      "consumed". The monitor checks the observed hand-over sequence equals the plan.
//	gated n ∈ 5..40 (16-slot semaphore): random feasible orders enforced the same way
//	      (a worker can only be released if the semaphore let it start: it must be among
//	      the first 16+done references).
//	free  n ∈ 5..40: no gate (or gate that only sleeps, no synchronisation) so that
//	      the race detector sees the workers unsynchronised.
//
// Oracle (independent single-pass reference rewrite, c46Walk): walking the ORIGINAL text,
// every `<image href="X"` whose X is eligible and loadable must appear in the output as
// `<image href="data:<mime>;base64,<base64 of the content the harness stored>"`, every other
// byte must be identical; the returned error is nil iff nothing failed and otherwise lists
// exactly the failing hrefs (as a multiset of tokens, any order); outputs and error sets are
// identical across all orders of one case; zero data-race reports (-race build).
//
// Legitimate d2 behaviour noted from the code: the output is returned together with the
// error (successful images are still bundled); mime comes from the Content-Type header or
// the extension or content sniffing (text/xml → image/svg+xml) — the mime is only checked
// (clause C46.mime) where the harness controls it unambiguously.

import (
	"context"
	"crypto/sha256"
	"encoding/base64"
	"encoding/hex"
	"encoding/json"
	"fmt"
	"net/http"
	"net/http/httptest"
	"os"
	"path/filepath"
	"sort"
	"strings"
	"sync"
	"sync/atomic"
	"time"

	"verif/gen"
	"verif/run"

	"oss.terrastruct.com/d2/lib/imgbundler"
	"oss.terrastruct.com/d2/lib/simplelog"
)

type c46Img struct {
	Href    string `json:"href"`           // as written in the SVG (HTML-escaped form) with placeholders {U} {BASE} {BASEUP} {DEAD} {DIR}
	Name    string `json:"name"`           // local: file path (unescaped; relative to the case dir unless it starts with {DIR}); remote: request URI the server sees
	Mime    string `json:"mime,omitempty"` // expected mime type, "" = not judged
	CT      string `json:"ct,omitempty"`   // remote: Content-Type header to send; "-" = send none
	Fail    string `json:"fail,omitempty"` // "", missing, isdir, 404, 500, drop, refused
	Content []byte `json:"content"`
	Elig    bool   `json:"elig"` // eligible for this bundling mode
	DelayUs int    `json:"delay_us,omitempty"`
}

type c46In struct {
	Mode   string   `json:"mode"` // enum | gated | free
	Remote bool     `json:"remote"`
	Cache  bool     `json:"cache"`
	N      int      `json:"n"` // eligible unique hrefs
	Svg    string   `json:"svg"`
	Imgs   []c46Img `json:"imgs"`             // eligible ones first (index = image number), then ineligible ones that have a resource
	Orders [][]int  `json:"orders,omitempty"` // gated: explicit orders; enum: empty = all permutations
	Runs   int      `json:"runs,omitempty"`   // free: number of runs (run 0 ungated, others with sleeping gate)
}

func init() {
	run.Register(&run.Check{
		ID: "C46", Title: "Image bundling is independent of worker scheduling and failures",
		Level:     "fault_enumeration",
		LevelText: "Fault/schedule enumeration: for every generated SVG with n ≤ 4 eligible images (thorough: n ≤ 5) ALL n! worker hand-over orders × ALL 2ⁿ failing subsets (missing file, directory, HTTP 404/500, dropped connection) are enforced exactly through the verif delivery gate in lib/imgbundler and judged against an independent single-pass reference rewrite; n ∈ 5..40 (16-slot semaphore) with random feasible enforced orders and ungated/sleep-perturbed runs under the race detector. Local files and an in-process HTTP server on 127.0.0.1; duplicates, data: URIs, HTML-escaped hrefs, ineligible hrefs.",
		LevelNote: "Complete for the enumerated (SVG, order, failing subset) triples with n ≤ 4 (5); the hand-over order is the order in which results reach the collector / failing hrefs are recorded — interleavings inside worker() (fetch) are left to the scheduler. Trusted base: the gate hook (3 added calls, no-op without the tag), Go's race detector, the harness reference rewrite.",
		Technique: "runtime monitoring: schedule/fault enumeration through a delivery gate + independent reference rewrite + race detector",
		DesignRef: "§2.3, §4 C46",
		Rule:      "cases: (SVG template, failing subset) with all n! orders (enum), or n∈5..40 with 3 enforced random feasible orders (gated) / 3 unsynchronised runs (free); distinct by sha256 of the case; non-trivial when ≥2 eligible images, every planned order was observed to be enforced exactly (enum/gated) and the reference rewrite was evaluated on every run",
		Race:      true, Chunk: 4, CPUBudget: 120, MinNontrivial: 20,
		Gen:  genC46,
		Exec: execC46,
		Post: postC46,
		Assumptions: []string{
			"an order is the sequence of hand-overs (result sent to the collector / failing href recorded); it is enforced by parking every worker at the gate until all started workers hold their result",
			"failures are injected as real failures of the resource (missing file, directory, HTTP status, dropped connection, refused connection), not by stubbing worker()",
		},
	})
}

// ---------------------------------------------------------------------------------
// generator

var c46Exts = []struct{ ext, mime string }{
	{".png", "image/png"}, {".svg", "image/svg+xml"}, {".jpg", "image/jpeg"}, {".gif", "image/gif"}, {"", "image/png"},
}

func c46Content(q *gen.R, ext string, big bool) []byte {
	n := q.Range(4, 200)
	if big {
		n = q.Range(3000, 70000)
	}
	body := q.Bytes(n)
	switch ext {
	case ".svg":
		return []byte(fmt.Sprintf(`<svg xmlns="http://www.w3.org/2000/svg" width="4" height="4"><!-- %x --></svg>`, body))
	case ".jpg":
		return append([]byte("\xff\xd8\xff\xe0"), body...)
	case ".gif":
		return append([]byte("GIF89a"), body...)
	}
	return append([]byte("\x89PNG\r\n\x1a\n"), body...)
}

// c46Build builds one case (without schedule). fails[i] says whether eligible image i
// must fail. The shape depends only on (tseed, n, remote): the same template is used for
// every failing subset.
func c46Build(tseed int64, n int, remote bool, fails []bool, big bool) c46In {
	q := gen.New(tseed)
	in := c46In{Remote: remote, N: n}
	var elems []string
	elem := func(href string) string {
		return fmt.Sprintf(`<g class="shape" ><image href="%s" x="%d" y="%d" width="128" height="128" style="fill:#FFFFFF;stroke:#0D32B2;opacity:1.000000;stroke-width:2;" /></g>`, href, q.Intn(900), q.Intn(900))
	}
	prevHref, prevName := "", ""
	for i := 0; i < n; i++ {
		e := c46Exts[q.Intn(len(c46Exts))]
		img := c46Img{Elig: true, Mime: e.mime}
		shape := q.Intn(10)
		failKind := ""
		if remote {
			stem := fmt.Sprintf("i%d", i)
			base := "{BASE}"
			switch shape {
			case 0:
				img.Href = base + "/{U}/" + stem + e.ext + "?x=1&amp;y=" + stem
				img.Name = "/{U}/" + stem + e.ext + "?x=1&y=" + stem
			case 1:
				img.Href = "{BASEUP}/{U}/" + stem + e.ext
				img.Name = "/{U}/" + stem + e.ext
			case 2:
				img.Href = base + "/{U}/d/e/" + stem + "%20x" + e.ext
				img.Name = "/{U}/d/e/" + stem + "%20x" + e.ext
			case 3:
				if prevHref != "" && strings.HasPrefix(prevHref, "{BASE}/") && !strings.Contains(prevHref, "?") {
					sfx := e.ext
					if sfx == "" {
						sfx = ".2"
						img.Mime = ""
					}
					img.Href = prevHref + sfx
					img.Name = prevName + sfx
					break
				}
				fallthrough
			default:
				img.Href = base + "/{U}/" + stem + e.ext
				img.Name = "/{U}/" + stem + e.ext
			}
			// content type
			switch q.Intn(5) {
			case 0:
				img.CT = "-" // none: d2 falls back to the URL extension / sniffing
				if e.ext == "" {
					img.Mime = "image/png"
				}
			case 1:
				if e.ext == ".svg" {
					img.CT = "text/xml" // documented: text/xml → image/svg+xml
					img.Mime = "image/svg+xml"
				} else {
					img.CT = e.mime
				}
			default:
				img.CT = e.mime
			}
			failKind = q.Str("404", "500", "drop", "404", "refused")
		} else {
			stem := fmt.Sprintf("{U}i%d", i)
			switch shape {
			case 0:
				img.Href, img.Name = stem+"a&amp;b"+e.ext, stem+"a&b"+e.ext
			case 1:
				img.Href, img.Name = stem+"q&#34;x"+e.ext, stem+"q\"x"+e.ext
			case 2:
				img.Href, img.Name = "img/"+stem+e.ext, "img/"+stem+e.ext
			case 3:
				img.Href, img.Name = "./"+stem+" with space"+e.ext, stem+" with space"+e.ext
			case 4:
				img.Href, img.Name = "{DIR}/abs/"+stem+e.ext, "{DIR}/abs/"+stem+e.ext
			case 5:
				img.Href, img.Name = "sub/../"+stem+"ünï中"+e.ext, stem+"ünï中"+e.ext
			case 6:
				img.Href, img.Name = "http"+stem+e.ext, "http"+stem+e.ext // local file whose name merely starts with http
			case 7:
				if prevHref != "" {
					img.Href, img.Name = prevHref+e.ext, prevName+e.ext
					break
				}
				fallthrough
			default:
				img.Href, img.Name = stem+e.ext, stem+e.ext
			}
			if shape == 7 && prevHref != "" && e.ext == "" {
				// same href as the previous one: make it distinct
				img.Href, img.Name = prevHref+".2", prevName+".2"
				img.Mime = ""
			}
			failKind = q.Str("missing", "missing", "isdir")
		}
		// the mime of a name with two extensions is decided by the last one (already e.mime),
		// except when the last one is empty: then d2 sniffs content of a name that still has
		// the previous extension.
		if e.ext == "" && (strings.HasSuffix(img.Name, ".png") || strings.HasSuffix(img.Name, ".svg") || strings.HasSuffix(img.Name, ".jpg") || strings.HasSuffix(img.Name, ".gif")) {
			img.Mime = ""
		}
		img.Content = c46Content(q, e.ext, big && q.P(0.15))
		img.DelayUs = q.Intn(4) * q.Intn(700)
		if i < len(fails) && fails[i] {
			img.Fail = failKind
			if failKind == "refused" {
				img.Href = strings.Replace(strings.Replace(img.Href, "{BASEUP}", "{DEAD}", 1), "{BASE}", "{DEAD}", 1)
			}
		}
		prevHref, prevName = img.Href, img.Name
		if failKind == "refused" {
			prevHref = "" // do not derive a sibling from a href whose host depends on the failing subset
		}
		in.Imgs = append(in.Imgs, img)
		occ := 1
		if q.P(0.35) {
			occ = q.Range(2, 3)
		}
		for k := 0; k < occ; k++ {
			elems = append(elems, elem(img.Href))
		}
		// noise that mentions the href without being an image element
		if q.P(0.3) {
			elems = append(elems, fmt.Sprintf(`<text class="text" x="1" y="2">%s</text>`, img.Href))
		}
		if q.P(0.2) {
			elems = append(elems, fmt.Sprintf(`<a href="%s" xlink:href="%s"><rect width="3" height="3" /></a>`, img.Href, img.Href))
		}
	}
	// already bundled references
	for k := q.Intn(3); k > 0; k-- {
		elems = append(elems, elem("data:image/png;base64,"+base64.StdEncoding.EncodeToString(q.Bytes(q.Range(1, 40)))))
	}
	// references that are not eligible in this mode (they have a loadable resource, so a
	// bundler that took them would change the output)
	for k := q.Intn(3); k > 0; k-- {
		x := c46Img{Elig: false, Content: c46Content(q, ".png", false)}
		if remote {
			x.Href = fmt.Sprintf("{DIR}/{U}inel%d.png", k)
			x.Name = x.Href
		} else {
			x.Href = fmt.Sprintf("{BASE}/{U}/inel%d.png", k)
			x.Name = fmt.Sprintf("/{U}/inel%d.png", k)
			x.CT = "image/png"
			if q.P(0.3) {
				x.Href = strings.Replace(x.Href, "{BASE}", "https://127.0.0.1:1", 1)
			}
		}
		in.Imgs = append(in.Imgs, x)
		elems = append(elems, elem(x.Href))
	}
	// keep the first occurrence order random but keep it a function of the template only
	q.Shuffle(len(elems), func(i, j int) { elems[i], elems[j] = elems[j], elems[i] })
	var sb strings.Builder
	sb.WriteString(`<?xml version="1.0" encoding="utf-8"?><svg xmlns="http://www.w3.org/2000/svg" xmlns:xlink="http://www.w3.org/1999/xlink" d2Version="v0.7.1-HEAD" preserveAspectRatio="xMinYMin meet" viewBox="0 0 1000 1000"><svg class="d2-1 d2-svg" width="1000" height="1000" viewBox="-1 -1 1000 1000"><rect x="-1" y="-1" width="1000" height="1000" rx="0" class=" fill-N7" stroke-width="0" />`)
	for i, e := range elems {
		fmt.Fprintf(&sb, `<g class="%s">%s</g>`, base64.RawURLEncoding.EncodeToString([]byte(fmt.Sprint("n", i))), e)
	}
	sb.WriteString("</svg></svg>\n")
	in.Svg = sb.String()
	return in
}

// c46FirstOcc returns the eligible image indices in order of first occurrence in svg
// (the order in which the bundler starts its workers).
func c46FirstOcc(in *c46In) []int {
	type po struct{ pos, idx int }
	var ps []po
	for i, im := range in.Imgs {
		if !im.Elig {
			continue
		}
		p := strings.Index(in.Svg, `<image href="`+im.Href+`"`)
		ps = append(ps, po{p, i})
	}
	sort.Slice(ps, func(a, b int) bool { return ps[a].pos < ps[b].pos })
	out := make([]int, len(ps))
	for i, p := range ps {
		out[i] = p.idx
	}
	return out
}

// c46FeasibleOrder draws a random hand-over order that the 16-slot semaphore permits.
func c46FeasibleOrder(q *gen.R, start []int) []int {
	var order []int
	window := []int{}
	next := 0
	for len(order) < len(start) {
		for next < len(start) && len(window) < 16 {
			window = append(window, start[next])
			next++
		}
		k := q.Intn(len(window))
		if q.P(0.15) {
			k = len(window) - 1 // bias: the youngest worker first
		}
		order = append(order, window[k])
		window = append(window[:k], window[k+1:]...)
	}
	return order
}

func genC46(seed int64, tier string, emit func(run.Case)) {
	r := gen.New(seed)
	maxN, tmpl := 4, 3
	nGated, nFree := 120, 120
	if tier == "thorough" {
		maxN, tmpl = 5, 10
		nGated, nFree = 6000, 6000
	}
	idx := 0
	for n := 0; n <= maxN; n++ {
		for _, remote := range []bool{false, true} {
			for t := 0; t < tmpl; t++ {
				idx++
				tseed := r.Sub(idx).Int63()
				if n == 0 && t > 0 {
					continue
				}
				for mask := 0; mask < 1<<n; mask++ {
					fails := make([]bool, n)
					for i := range fails {
						fails[i] = mask>>i&1 == 1
					}
					in := c46Build(tseed, n, remote, fails, tier == "thorough")
					in.Mode = "enum"
					in.Cache = t%3 == 2
					rm := "l"
					if remote {
						rm = "r"
					}
					emit(run.MkCase(fmt.Sprintf("e-n%d-%s-t%d-m%02d", n, rm, t, mask), "enum", in))
				}
			}
		}
	}
	for i := 0; i < nGated+nFree; i++ {
		q := r.Sub(100000 + i)
		n := q.Range(5, 40)
		if q.P(0.3) {
			n = q.Range(15, 20) // around the semaphore size
		}
		pf := []float64{0, 0.15, 0.5, 1}[q.Intn(4)]
		fails := make([]bool, n)
		for j := range fails {
			fails[j] = q.P(pf)
		}
		in := c46Build(q.Int63(), n, q.P(0.4), fails, tier == "thorough")
		in.Cache = q.P(0.2)
		if i < nGated {
			in.Mode = "gated"
			start := c46FirstOcc(&in)
			for k := 0; k < 3; k++ {
				in.Orders = append(in.Orders, c46FeasibleOrder(q, start))
			}
			emit(run.MkCase(fmt.Sprintf("g%05d", i), "gated", in))
		} else {
			in.Mode = "free"
			in.Runs = 3
			emit(run.MkCase(fmt.Sprintf("f%05d", i-nGated), "free", in))
		}
	}
}

// ---------------------------------------------------------------------------------
// HTTP server (one per worker process)

type c46Route struct {
	ct      string
	fail    string
	content []byte
}

var c46Srv struct {
	once sync.Once
	srv  *httptest.Server
	mu   sync.RWMutex
	tab  map[string]c46Route
	hits map[string]int
}

func c46Server() *httptest.Server {
	c46Srv.once.Do(func() {
		c46Srv.tab = map[string]c46Route{}
		c46Srv.hits = map[string]int{}
		c46Srv.srv = httptest.NewServer(http.HandlerFunc(func(w http.ResponseWriter, r *http.Request) {
			uri := r.URL.RequestURI()
			c46Srv.mu.Lock()
			rt, ok := c46Srv.tab[uri]
			c46Srv.hits[uri]++
			c46Srv.mu.Unlock()
			if !ok {
				http.Error(w, "unknown "+uri, 418)
				return
			}
			switch rt.fail {
			case "404":
				http.Error(w, "not found", 404)
				return
			case "500":
				http.Error(w, "boom", 500)
				return
			case "drop":
				if hj, ok := w.(http.Hijacker); ok {
					if c, _, err := hj.Hijack(); err == nil {
						c.Close()
						return
					}
				}
				panic(http.ErrAbortHandler)
			}
			if rt.ct == "-" {
				w.Header()["Content-Type"] = nil
			} else if rt.ct != "" {
				w.Header().Set("Content-Type", rt.ct)
			}
			w.Write(rt.content)
		}))
	})
	return c46Srv.srv
}

// ---------------------------------------------------------------------------------
// gate

type c46Plan struct {
	// enforced order (hrefs); nil = sleep-only plan
	order []string
	n     int
	sleep map[string]time.Duration

	mu      sync.Mutex
	cond    *sync.Cond
	pos     int
	busy    bool
	arrived int
	abort   bool
	log     []string // "d:<href>" on arrival, "r:<href>" on release, "c:<href>" when consumed
}

var (
	c46Cur      atomic.Pointer[c46Plan]
	c46HookOnce sync.Once
	c46Uniq     int
)

func c46Gate(href, phase string) {
	p := c46Cur.Load()
	if p == nil {
		return
	}
	if p.order == nil {
		if phase == "deliver" {
			if d := p.sleep[href]; d > 0 {
				time.Sleep(d)
			}
		}
		return
	}
	p.mu.Lock()
	defer p.mu.Unlock()
	switch phase {
	case "deliver":
		p.arrived++
		p.log = append(p.log, "d:"+href)
		p.cond.Broadcast()
		for !p.abort {
			need := p.pos + 16
			if need > p.n {
				need = p.n
			}
			if !p.busy && p.pos < len(p.order) && p.order[p.pos] == href && p.arrived >= need {
				break
			}
			p.cond.Wait()
		}
		p.busy = true
		p.log = append(p.log, "r:"+href)
	case "consumed":
		p.log = append(p.log, "c:"+href)
		p.busy = false
		p.pos++
		p.cond.Broadcast()
	}
}

// ---------------------------------------------------------------------------------
// reference

// c46Walk is the independent reference: single pass over the original text.
// loadable maps an href (as written) to the content that must be embedded. It returns
// the mime found per href and "" when the output is the reference rewrite, else the
// signature suffix and a message.
func c46Walk(orig, out string, loadable map[string][]byte) (mimes map[string]string, sig, msg string) {
	const pre = `<image href="`
	mimes = map[string]string{}
	seen := map[string]int{}
	i, j := 0, 0
	ctx := func(s string, k int) string {
		a, b := k-60, k+60
		if a < 0 {
			a = 0
		}
		if b > len(s) {
			b = len(s)
		}
		if a > b {
			a = b
		}
		return fmt.Sprintf("%q", s[a:b])
	}
	for i < len(orig) {
		if strings.HasPrefix(orig[i:], pre) {
			k := strings.IndexByte(orig[i+len(pre):], '"')
			if k > 0 {
				href := orig[i+len(pre) : i+len(pre)+k]
				if content, ok := loadable[href]; ok {
					seen[href]++
					dup := ""
					if seen[href] > 1 {
						dup = ":duplicate-occurrence"
					}
					if !strings.HasPrefix(out[min(j, len(out)):], pre+"data:") {
						if strings.HasPrefix(out[min(j, len(out)):], pre+href+`"`) {
							return mimes, "eligible-not-replaced" + dup, fmt.Sprintf("occurrence %d of eligible, loadable href %q was not replaced; output there: %s", seen[href], href, ctx(out, j))
						}
						return mimes, "other-bytes-changed", fmt.Sprintf("at eligible href %q (occurrence %d) the output has neither the reference nor a data URI: %s", href, seen[href], ctx(out, j))
					}
					rest := out[j+len(pre)+len("data:"):]
					m := strings.Index(rest, ";base64,")
					q := strings.IndexByte(rest, '"')
					if m < 0 || q < 0 || m > q {
						return mimes, "malformed-data-uri", fmt.Sprintf("href %q: replacement is not data:<mime>;base64,<data>\": %s", href, ctx(out, j))
					}
					mime := rest[:m]
					got := rest[m+len(";base64,") : q]
					want := base64.StdEncoding.EncodeToString(content)
					if got != want {
						dec, _ := base64.StdEncoding.DecodeString(got)
						return mimes, "wrong-content" + dup, fmt.Sprintf("href %q occurrence %d: embedded data (%d bytes decoded) is not the image content (%d bytes)", href, seen[href], len(dec), len(content))
					}
					if old, ok := mimes[href]; ok && old != mime {
						return mimes, "wrong-content" + dup, fmt.Sprintf("href %q: occurrences carry different mime types %q vs %q", href, old, mime)
					}
					mimes[href] = mime
					i += len(pre) + k + 1
					j += len(pre) + len("data:") + q + 1
					continue
				}
			}
		}
		if j >= len(out) {
			return mimes, "other-bytes-changed", fmt.Sprintf("output ends early (len %d) at original offset %d: %s", len(out), i, ctx(orig, i))
		}
		if out[j] != orig[i] {
			return mimes, "other-bytes-changed", fmt.Sprintf("byte outside any eligible loadable reference differs at original offset %d: original %s, output %s", i, ctx(orig, i), ctx(out, j))
		}
		i++
		j++
	}
	if j != len(out) {
		return mimes, "other-bytes-changed", fmt.Sprintf("output has %d trailing bytes: %s", len(out)-j, ctx(out, j))
	}
	return mimes, "", ""
}

// c46ErrTokens extracts the bracketed href list of the bundler error as space-split tokens.
func c46ErrTokens(err error) ([]string, bool) {
	s := err.Error()
	a := strings.IndexByte(s, '[')
	b := strings.LastIndexByte(s, ']')
	if a < 0 || b < a {
		return nil, false
	}
	t := strings.Split(s[a+1:b], " ")
	sort.Strings(t)
	return t, true
}

func c46Perms(n int) [][]int {
	var out [][]int
	a := make([]int, n)
	for i := range a {
		a[i] = i
	}
	var rec func(k int)
	rec = func(k int) {
		if k == n {
			out = append(out, append([]int{}, a...))
			return
		}
		for i := k; i < n; i++ {
			a[k], a[i] = a[i], a[k]
			rec(k + 1)
			a[k], a[i] = a[i], a[k]
		}
	}
	rec(0)
	return out
}

// ---------------------------------------------------------------------------------
// exec

type c46Obs struct {
	Fingerprints []string `json:"fp"`
}

func execC46(c run.Case) (res run.Result) {
	var in c46In
	c.Decode(&in)
	c46HookOnce.Do(func() { imgbundler.VerifGate = c46Gate })
	srv := c46Server()
	c46Uniq++
	U := fmt.Sprintf("u%dx%d", os.Getpid(), c46Uniq)
	dir, err := os.MkdirTemp("", "c46-")
	if err != nil {
		res.Inconclusive = "mkdtemp: " + err.Error()
		return
	}
	dir, _ = filepath.EvalSymlinks(dir)
	defer os.RemoveAll(dir)
	base := srv.URL
	rep := strings.NewReplacer("{U}", U, "{BASEUP}", "HTTP"+strings.TrimPrefix(base, "http"), "{BASE}", base, "{DEAD}", "http://127.0.0.1:1", "{DIR}", dir)
	svg := rep.Replace(in.Svg)

	// materialise resources
	loadable := map[string][]byte{}
	var failing []string
	var routes []string
	nElig := 0
	hrefOf := make([]string, len(in.Imgs))
	sleep := map[string]time.Duration{}
	for i, im := range in.Imgs {
		href := rep.Replace(im.Href)
		name := rep.Replace(im.Name)
		hrefOf[i] = href
		isHTTP := strings.HasPrefix(im.Href, "{BASE") || strings.HasPrefix(im.Href, "{DEAD}") || strings.HasPrefix(im.Href, "https://")
		if isHTTP {
			if strings.HasPrefix(im.Href, "{BASE") {
				c46Srv.mu.Lock()
				c46Srv.tab[name] = c46Route{ct: im.CT, fail: im.Fail, content: im.Content}
				c46Srv.mu.Unlock()
				routes = append(routes, name)
			}
		} else {
			p := name
			if !filepath.IsAbs(p) {
				p = filepath.Join(dir, p)
			}
			os.MkdirAll(filepath.Dir(p), 0o755)
			switch im.Fail {
			case "":
				if err := os.WriteFile(p, im.Content, 0o644); err != nil {
					res.Inconclusive = "write image: " + err.Error()
					return
				}
			case "isdir":
				os.MkdirAll(p, 0o755)
			}
		}
		if im.Elig {
			nElig++
			sleep[href] = time.Duration(im.DelayUs) * time.Microsecond
			if im.Fail == "" {
				loadable[href] = im.Content
			} else {
				failing = append(failing, href)
				res.Inc("fail_" + im.Fail)
			}
		}
	}
	os.MkdirAll(filepath.Join(dir, "sub"), 0o755)
	defer func() {
		c46Srv.mu.Lock()
		for _, r := range routes {
			delete(c46Srv.tab, r)
			delete(c46Srv.hits, r)
		}
		c46Srv.mu.Unlock()
	}()
	var wantTok []string
	for _, h := range failing {
		wantTok = append(wantTok, strings.Split(h, " ")...)
	}
	sort.Strings(wantTok)

	// schedules
	type sched struct {
		order []int // nil = ungated
		kind  string
	}
	var scheds []sched
	switch in.Mode {
	case "enum":
		for _, p := range c46Perms(in.N) {
			scheds = append(scheds, sched{p, "enum"})
		}
	case "gated":
		for _, o := range in.Orders {
			scheds = append(scheds, sched{o, "gated"})
		}
	default:
		for k := 0; k < max(1, in.Runs); k++ {
			scheds = append(scheds, sched{nil, []string{"free", "sleep"}[min(k, 1)]})
		}
	}
	mode := "local"
	if in.Remote {
		mode = "remote"
	}
	res.Inc("mode_" + in.Mode + "_" + mode)
	res.Inc(fmt.Sprintf("n_%02d", min(in.N, 99)))
	if in.Cache {
		res.Inc("cache_on")
	}
	res.Add("eligible_images", nElig)
	res.Add("failing_images", len(failing))

	l := simplelog.Make(nil, nil, nil)
	inputPath := filepath.Join(dir, "in.d2")
	var firstOut string
	var firstSched string
	haveFirst := false
	enforced := 0
	var obs c46Obs
	mask := ""
	for _, im := range in.Imgs {
		if im.Elig {
			if im.Fail != "" {
				mask += "1"
			} else {
				mask += "0"
			}
		}
	}
	t0 := time.Now()
	defer func() { res.Add("ms_in_"+in.Mode+"_"+mode, int(time.Since(t0).Milliseconds())) }()
	for si, sc := range scheds {
		var plan *c46Plan
		switch {
		case sc.order != nil:
			plan = &c46Plan{n: len(sc.order)}
			plan.cond = sync.NewCond(&plan.mu)
			plan.order = make([]string, len(sc.order))
			for k, ix := range sc.order {
				plan.order[k] = hrefOf[ix]
			}
			if len(plan.order) == 0 {
				plan.order = []string{}
			}
		case sc.kind == "sleep":
			plan = &c46Plan{sleep: map[string]time.Duration{}}
			for h, d := range sleep {
				plan.sleep[h] = d * time.Duration(si)
			}
		}
		c46Cur.Store(plan)
		input := []byte(svg)
		type ret struct {
			out []byte
			err error
		}
		done := make(chan ret, 1)
		go func() {
			var o []byte
			var e error
			if in.Remote {
				o, e = imgbundler.BundleRemote(context.Background(), l, input, in.Cache)
			} else {
				o, e = imgbundler.BundleLocal(context.Background(), l, inputPath, input, in.Cache)
			}
			done <- ret{o, e}
		}()
		var rt ret
		select {
		case rt = <-done:
		case <-time.After(60 * time.Second):
			if plan != nil && plan.order != nil {
				plan.mu.Lock()
				plan.abort = true
				lg := strings.Join(plan.log, " ")
				plan.cond.Broadcast()
				plan.mu.Unlock()
				res.Inconclusive = fmt.Sprintf("schedule %v: bundle did not return within 60 s under the gate (log: %s)", sc.order, trunc(lg, 600))
			} else {
				res.Inconclusive = "bundle did not return within 60 s"
			}
			<-done
			c46Cur.Store(nil)
			return
		}
		c46Cur.Store(nil)
		res.Inc("bundle_calls")
		desc := fmt.Sprintf("mode=%s/%s n=%d failing=%s order=%v cache=%v", in.Mode, mode, in.N, mask, sc.order, in.Cache)

		// was the planned order enforced exactly?
		if plan != nil && plan.order != nil {
			plan.mu.Lock()
			lg := append([]string{}, plan.log...)
			plan.mu.Unlock()
			var consumed []string
			arrivedBeforeFirstRelease := 0
			released := false
			for _, e := range lg {
				switch e[0] {
				case 'd':
					if !released {
						arrivedBeforeFirstRelease++
					}
				case 'r':
					released = true
				case 'c':
					consumed = append(consumed, e[2:])
				}
			}
			ok := len(consumed) == len(plan.order)
			for k := 0; ok && k < len(consumed); k++ {
				ok = consumed[k] == plan.order[k]
			}
			if nElig > 0 && len(lg) == 0 {
				res.Inconclusive = "gate hook never reached (harness or d2 built without -tags verif?)"
				return
			}
			if !ok || arrivedBeforeFirstRelease < min(len(plan.order), 16) {
				res.Inconclusive = fmt.Sprintf("planned order not enforced: plan %v, log %s", plan.order, trunc(strings.Join(lg, " "), 800))
				return
			}
			enforced++
			res.Inc("orders_enforced_exactly")
			if in.Mode == "enum" {
				res.Inc(fmt.Sprintf("enum_runs_n%d", in.N))
			}
			obs.Fingerprints = append(obs.Fingerprints, c46Sha([]byte(fmt.Sprint(in.N, mode, mask, sc.order)))[:12])
		}

		out := string(rt.out)
		// (1) reference rewrite
		mimes, sig, msg := c46Walk(svg, out, loadable)
		res.Inc("rewrites_judged")
		if sig != "" {
			res.Viol("C46.rewrite", "C46.rewrite:"+sig, desc+"\n"+msg)
		} else {
			res.Add("references_replaced_ok", len(mimes))
			for i, im := range in.Imgs {
				if m, ok := mimes[hrefOf[i]]; ok && im.Mime != "" {
					res.Inc("mime_judged")
					if m != im.Mime {
						res.Viol("C46.mime", "C46.mime:"+mode, fmt.Sprintf("%s\nhref %q embedded with mime %q, expected %q (ct=%q)", desc, hrefOf[i], m, im.Mime, im.CT))
					}
				}
			}
		}
		// (2) error lists exactly the failing hrefs
		res.Inc("error_sets_judged")
		switch {
		case len(failing) == 0 && rt.err != nil:
			res.Viol("C46.error-set", "C46.error-set:error-without-failure", fmt.Sprintf("%s\nno image fails but error returned: %v", desc, rt.err))
		case len(failing) > 0 && rt.err == nil:
			res.Viol("C46.error-set", "C46.error-set:failure-not-reported", fmt.Sprintf("%s\n%d failing hrefs %q but nil error", desc, len(failing), failing))
		case len(failing) > 0:
			got, ok := c46ErrTokens(rt.err)
			if !ok {
				res.Viol("C46.error-set", "C46.error-set:unparseable", fmt.Sprintf("%s\nerror has no [href list]: %v", desc, rt.err))
			} else if strings.Join(got, "\x00") != strings.Join(wantTok, "\x00") {
				sg := "C46.error-set:wrong-href-set"
				if len(got) < len(wantTok) {
					sg = "C46.error-set:missing-href"
				} else if len(got) > len(wantTok) {
					sg = "C46.error-set:extra-href"
				}
				res.Viol("C46.error-set", sg, fmt.Sprintf("%s\nerror lists %q\nfailing are %q\nerror: %s", desc, got, wantTok, trunc(rt.err.Error(), 600)))
			}
			if sc.order == nil {
				// the order of the recorded failures is the only schedule fingerprint an
				// unsynchronised run exposes
				s := rt.err.Error()
				obs.Fingerprints = append(obs.Fingerprints, "free:"+c46Sha([]byte(strings.ReplaceAll(s, U, "U")))[:12])
			}
		}
		// (3) identical across orders
		if !haveFirst {
			firstOut, firstSched, haveFirst = out, fmt.Sprint(sc.order), true
		} else {
			res.Inc("cross_order_comparisons")
			if out != firstOut {
				k := 0
				for k < len(out) && k < len(firstOut) && out[k] == firstOut[k] {
					k++
				}
				res.Viol("C46.order-dependence", "C46.order-dependence:output-differs", fmt.Sprintf("%s\noutput differs from the output under order %s at offset %d (len %d vs %d)", desc, firstSched, k, len(out), len(firstOut)))
			}
		}
		if len(res.Violations) > 6 {
			break
		}
	}
	// requests the server saw (evidence only)
	c46Srv.mu.RLock()
	for _, r := range routes {
		res.Add("http_requests_served", c46Srv.hits[r])
	}
	c46Srv.mu.RUnlock()

	switch in.Mode {
	case "enum", "gated":
		res.Nontrivial = nElig >= 2 && enforced == len(scheds)
	default:
		res.Nontrivial = nElig >= 2
	}
	if nElig < 2 {
		res.Inc("vacuous_fewer_than_2_images")
	}
	res.Obs, _ = json.Marshal(obs)
	res.Sample = map[string]any{"mode": in.Mode + "/" + mode, "n": in.N, "failing_mask": mask, "schedules": len(scheds), "svg_len": len(svg), "hrefs": c46TruncList(hrefOf, 6)}
	return
}

func c46Sha(b []byte) string {
	h := sha256.Sum256(b)
	return hex.EncodeToString(h[:])
}

func c46TruncList(xs []string, n int) []string {
	if len(xs) > n {
		return append(append([]string{}, xs[:n]...), fmt.Sprintf("… %d more", len(xs)-n))
	}
	return xs
}

func postC46(d *run.Driver, rs []run.Result) {
	set := map[string]bool{}
	for _, r := range rs {
		var o c46Obs
		if json.Unmarshal(r.Obs, &o) == nil {
			for _, f := range o.Fingerprints {
				set[f] = true
			}
		}
	}
	d.Extra["distinct_schedule_fingerprints"] = len(set)
	d.Extra["schedule_fingerprint"] = "enforced runs: hash(n, mode, failing mask, hand-over order); ungated runs: hash of the order in which failing hrefs were recorded"
}
