package mon

import (
	"fmt"
	"sort"
	"strings"

	"verif/gen"
	"verif/proj"
	"verif/run"
)

// C13 — variable substitution equals textual replacement from the innermost scope.
//
// Oracle (metamorphic, through the real compiler): the monitor's own static resolver rewrites
// every substitution of the generated program P by the value the *statement* prescribes
// (innermost enclosing vars block that defines the path; a definition `x: ${x}…` refers to the
// enclosing x) and compiles the twin; π(Compile(P)) must equal π(Compile(twin)). The vars blocks
// stay in the twin ("deletes nothing else"); they are not part of π. Because single-quoted
// values are identical in P and twin, they are judged separately: every single-quoted value
// carries a unique marker, and the marker followed by the *substituted* text must not occur
// anywhere in π(P). A reference to an undefined variable must be an error
// `could not resolve variable`.
//
// Legitimate behaviours noted while reading d2ir/compile.go (not judged, counted):
//   - forward references inside one vars block resolve to whatever the later field holds at
//     that moment (generator never emits them);
//   - map-valued variables and spreads are outside "substitution of a scalar variable".

func init() {
	run.Register(&run.Check{
		ID: "C13", Title: "Variable substitution equals textual replacement from the innermost scope",
		LevelText: "Exploration: for every generated program with 1–3 nested vars scopes (shadowing, var-in-var, substitutions alone / in unquoted / double-quoted / single-quoted text, in labels, attributes, edge labels, arrays) the monitor compiles the program and its textually substituted twin (own static resolver) and requires equal projections; single-quoted text must stay unsubstituted; undefined references must be reported.",
		Technique: "runtime monitoring: metamorphic oracle compile(P) = compile(subst(P)) with an independent scope resolver",
		DesignRef: "§4 C13",
		Rule:      "cases: gen.VarsProgram (structured AST, rendered in the worker); distinct by sha256 of the rendered text; non-trivial when the program holds ≥2 resolved substitutions and both compilations succeeded, or an undefined reference was judged",
		Chunk:     32,
		Gen:       genC13,
		Exec:      execC13,
	})
}

type c13In struct {
	Prog []*gen.LStmt `json:"prog"`
}

func genC13(seed int64, tier string, emit func(run.Case)) {
	r := gen.New(seed)
	n := tierN(tier, 3000, 150000)
	for i := 0; i < n; i++ {
		q := r.Sub(i)
		emit(run.MkCase(fmt.Sprintf("c%07d", i), "vars", c13In{Prog: gen.VarsProgram(q, tier == "thorough" && q.P(0.5))}))
	}
}

type c13Var struct {
	val   *gen.LVal // literal-only value (as it stands alone)
	str   string    // scalar string
	kids  map[string]*c13Var
	isMap bool
}

// c13Node is one map of the merged program structure (d2 merges re-opened objects and key
// paths into one map per object, and resolves substitutions against the vars of the maps that
// enclose the *field*, not the lexical block): `g.style.stroke: ${c}` at the root is enclosed
// by g's vars.
type c13Node struct {
	parent  *c13Node
	kids    map[string]*c13Node
	seq     int // creation order (field order inside the parent map)
	defs    []*c13Def
	defIdx  map[string]*c13Def
	varsSeq int // creation order of this map's `vars` field; 0 = none
}

type c13Def struct {
	name      string
	owner     *c13Node
	val       *gen.LVal // latest scalar definition
	kidVals   map[string]*gen.LVal
	isMap     bool
	composite bool // definition holds substitutions
	order     int  // position of the first definition inside the merged vars map
	state     int  // 0 unresolved, 1 resolving, 2 resolved
	res       *c13Var
}

type c13Use struct {
	scope   *c13Node // map holding the field / edge whose value this is
	field   *c13Node // node of the field itself; for an edge: the map holding it
	def     *c13Def  // set for variable definitions (self-name rule)
	isKid   bool
	kidName string
}

type c13Info struct {
	subs, undefined, mapSub, shadowed, sq, varInVar, forwardRef int
	// useBeforeVars: a substitution resolved to a *composed* variable (its definition holds
	// substitutions) from a field that was declared before the vars block of the defining map.
	useBeforeVars int
	ctx           map[string]int
	sqForbidden   []string // marker+substituted text that must not appear in π(P)
	undefMarked   []*gen.LVal
	depth         int
}

func c13Str(v *gen.LVal) string {
	var sb strings.Builder
	for _, p := range v.Parts {
		sb.WriteString(p.Lit)
	}
	return sb.String()
}

type c13Twinner struct {
	info c13Info
	seq  int
	uses map[*gen.LStmt]*c13Use
	root *c13Node
}

func (t *c13Twinner) child(n *c13Node, name string) *c13Node {
	k := strings.ToLower(name)
	if c := n.kids[k]; c != nil {
		return c
	}
	t.seq++
	c := &c13Node{parent: n, kids: map[string]*c13Node{}, seq: t.seq, defIdx: map[string]*c13Def{}}
	n.kids[k] = c
	return c
}

func c13IsVars(s *gen.LStmt) bool {
	return !s.IsEdge() && len(s.Key) == 1 && s.Key[0] == "vars" && (s.HasBody || len(s.Body) > 0)
}

// collect is pass 1: merged structure, variable definitions, the scope of every value.
func (t *c13Twinner) collect(stmts []*gen.LStmt, cur *c13Node, depth int) {
	if depth > t.info.depth {
		t.info.depth = depth
	}
	for _, s := range stmts {
		if s.Raw != "" {
			continue
		}
		if c13IsVars(s) {
			vn := t.child(cur, "vars")
			if cur.varsSeq == 0 {
				cur.varsSeq = vn.seq
			}
			for _, d := range s.Body {
				name := strings.ToLower(d.Key[0])
				def := cur.defIdx[name]
				if def == nil {
					def = &c13Def{name: name, owner: cur, order: len(cur.defs)}
					cur.defIdx[name] = def
					cur.defs = append(cur.defs, def)
				}
				t.uses[d] = &c13Use{scope: cur, field: vn, def: def}
				if len(d.Body) > 0 {
					def.isMap = true
					def.val = nil
					if def.kidVals == nil {
						def.kidVals = map[string]*gen.LVal{}
					}
					for _, k := range d.Body {
						def.kidVals[strings.ToLower(k.Key[0])] = k.Val
						t.uses[k] = &c13Use{scope: cur, field: vn, def: def, isKid: true, kidName: strings.ToLower(k.Key[0])}
					}
				} else if d.Val != nil {
					def.isMap = false
					def.val = d.Val
					def.composite = false
					for _, p := range d.Val.Parts {
						if p.Sub != nil && d.Val.Quote != "s" {
							def.composite = true
						}
					}
				}
			}
			continue
		}
		n := cur
		for _, k := range s.Key {
			n = t.child(n, k)
		}
		if s.IsEdge() {
			// the edge lives in the map n (single-segment endpoints: no common prefix)
			// an edge is resolved together with the map n that holds it (after n's fields)
			t.uses[s] = &c13Use{scope: n, field: n}
			// endpoints are fields of n, created here if new (field order matters for the
			// use-before-vars trigger)
			for _, ep := range [][]string{s.Src, s.Dst} {
				q := n
				for _, k := range ep {
					q = t.child(q, k)
				}
			}
			en := &c13Node{parent: n, kids: map[string]*c13Node{}, defIdx: map[string]*c13Def{}}
			t.collect(s.Body, en, depth+1)
			continue
		}
		scope := cur
		if n.parent != nil && len(s.Key) > 0 {
			scope = n.parent
		}
		t.uses[s] = &c13Use{scope: scope, field: n}
		t.collect(s.Body, n, depth+1)
	}
}

func (n *c13Node) lookupIn(t *c13Twinner, path []string) (*c13Var, *c13Def) {
	def := n.defIdx[strings.ToLower(path[0])]
	if def == nil {
		return nil, nil
	}
	v := t.resolveDef(def)
	for _, p := range path[1:] {
		if v == nil || !v.isMap {
			return nil, def
		}
		v = v.kids[strings.ToLower(p)]
	}
	return v, def
}

// lookup resolves path for a use: innermost enclosing map whose vars define the whole path.
func (t *c13Twinner) lookup(u *c13Use, path []string) (v *c13Var, shadowed bool) {
	start := u.scope
	if u.def != nil && !u.isKid && strings.ToLower(path[0]) == u.def.name {
		// `x: ${x}-b` directly inside vars refers to the enclosing x
		start = u.scope.parent
	}
	var hit *c13Def
	var hitNode *c13Node
	for q := start; q != nil; q = q.parent {
		if x, d := q.lookupIn(t, path); x != nil {
			if v == nil {
				v, hit, hitNode = x, d, q
			} else {
				shadowed = true
			}
		}
	}
	if hit != nil && hit.composite && u.def != nil && hit.owner == u.def.owner && hit.order > u.def.order {
		// forward reference to a composed variable inside one (merged) vars map: d2 resolves the
		// fields of a vars map in order, outside the judged fragment
		t.info.forwardRef++
	}
	if hit != nil && hit.composite && u.field != nil && hitNode.varsSeq != 0 {
		// which child of the defining map leads to the using field?
		f := u.field
		if f == hitNode {
			f = nil // an edge of the defining map itself: resolved after all of its fields
		}
		for f != nil && f.parent != hitNode {
			f = f.parent
		}
		if f != nil && f.seq < hitNode.varsSeq {
			t.info.useBeforeVars++
		}
	}
	return
}

func (t *c13Twinner) resolveDef(d *c13Def) *c13Var {
	switch d.state {
	case 2:
		return d.res
	case 1:
		t.info.forwardRef++
		return nil
	}
	d.state = 1
	u := &c13Use{scope: d.owner, def: d}
	if vn := d.owner.kids["vars"]; vn != nil {
		u.field = vn
	}
	nv := &c13Var{}
	if d.isMap {
		nv.isMap = true
		nv.kids = map[string]*c13Var{}
		for k, kv := range d.kidVals {
			if kv == nil {
				continue
			}
			ku := *u
			ku.isKid = true
			rv := t.rewriteVal(kv, &ku, "var-def", true)
			nv.kids[k] = &c13Var{val: rv, str: c13Str(rv)}
		}
	} else if d.val != nil {
		rv := t.rewriteVal(d.val, u, "var-def", true)
		nv.val, nv.str = rv, c13Str(rv)
	}
	d.res = nv
	d.state = 2
	return nv
}

// rewriteVal returns the substituted value; quiet suppresses counting (definitions are
// resolved once for their value and once more when the twin statement is written).
func (t *c13Twinner) rewriteVal(v *gen.LVal, u *c13Use, where string, quiet bool) *gen.LVal {
	if v == nil || v.Null {
		return v
	}
	if v.Arr != nil {
		out := &gen.LVal{Arr: make([]*gen.LVal, len(v.Arr))}
		for i, e := range v.Arr {
			out.Arr[i] = t.rewriteVal(e, u, "array", quiet)
		}
		return out
	}
	nsub := 0
	for _, p := range v.Parts {
		if p.Sub != nil {
			nsub++
		}
	}
	if nsub == 0 {
		return v.Clone()
	}
	saved := t.info
	if quiet {
		t.info.ctx = map[string]int{}
	}
	defer func() {
		if quiet {
			fr, ub := t.info.forwardRef, t.info.useBeforeVars
			t.info = saved
			t.info.forwardRef, t.info.useBeforeVars = fr, ub
		}
	}()
	if v.Quote == "s" {
		t.info.sq++
		t.info.ctx[where+"/single-quoted"]++
		// what a wrong substitution would produce
		var sb strings.Builder
		ok := true
		for _, p := range v.Parts {
			if p.Sub != nil {
				x, _ := t.lookup(u, p.Sub)
				if x == nil || x.isMap {
					ok = false
					break
				}
				sb.WriteString(x.str)
			} else {
				sb.WriteString(p.Lit)
			}
		}
		if ok && !quiet {
			t.info.sqForbidden = append(t.info.sqForbidden, sb.String())
		}
		return v.Clone()
	}
	if v.Quote == "" && len(v.Parts) == 1 {
		x, sh := t.lookup(u, v.Parts[0].Sub)
		if x == nil {
			t.info.undefined++
			t.info.ctx[where+"/undefined-alone"]++
			t.info.undefMarked = append(t.info.undefMarked, v)
			return v.Clone()
		}
		if x.isMap {
			t.info.mapSub++
			return v.Clone()
		}
		t.info.subs++
		t.info.ctx[where+"/alone"]++
		if sh {
			t.info.shadowed++
		}
		return x.val.Clone()
	}
	out := &gen.LVal{Quote: v.Quote}
	var sb strings.Builder
	for _, p := range v.Parts {
		if p.Sub == nil {
			sb.WriteString(p.Lit)
			continue
		}
		x, sh := t.lookup(u, p.Sub)
		if x == nil {
			t.info.undefined++
			t.info.ctx[where+"/undefined-in-"+map[string]string{"": "unquoted", "d": "double-quoted"}[v.Quote]]++
			t.info.undefMarked = append(t.info.undefMarked, v)
			return v.Clone()
		}
		if x.isMap {
			t.info.mapSub++
			return v.Clone()
		}
		t.info.subs++
		if sh {
			t.info.shadowed++
		}
		sb.WriteString(x.str)
	}
	if v.Quote == "d" {
		t.info.ctx[where+"/double-quoted"]++
	} else {
		t.info.ctx[where+"/unquoted-mixed"]++
	}
	out.Parts = []gen.LPart{{Lit: sb.String()}}
	return out
}

func c13Where(s *gen.LStmt) string {
	switch {
	case s.IsEdge() && len(s.EKey) > 0:
		return "edge-ref"
	case s.IsEdge():
		return "edge-label"
	case len(s.Key) > 0 && s.Key[len(s.Key)-1] == "label":
		return "label-field"
	case len(s.Key) > 0 && (s.Key[0] == "style" || (len(s.Key) > 1 && s.Key[1] == "style") || s.Key[len(s.Key)-1] == "shape" || s.Key[len(s.Key)-1] == "tooltip"):
		return "attribute"
	}
	return "label"
}

// rewrite is pass 3: the twin statements.
func (t *c13Twinner) rewrite(stmts []*gen.LStmt) []*gen.LStmt {
	out := make([]*gen.LStmt, len(stmts))
	for i, s := range stmts {
		c := *s
		if s.Raw == "" {
			if u := t.uses[s]; u != nil {
				where := c13Where(s)
				if u.def != nil {
					where = "var-def"
					before := t.info.subs
					c.Val = t.rewriteVal(s.Val, u, where, false)
					if t.info.subs > before {
						t.info.varInVar++
					}
				} else {
					c.Val = t.rewriteVal(s.Val, u, where, false)
				}
			}
			if s.Body != nil {
				c.Body = t.rewrite(s.Body)
			}
		}
		out[i] = &c
	}
	return out
}

func c13Twin(prog []*gen.LStmt) ([]*gen.LStmt, c13Info) {
	t := &c13Twinner{info: c13Info{ctx: map[string]int{}}, uses: map[*gen.LStmt]*c13Use{}}
	t.root = &c13Node{kids: map[string]*c13Node{}, defIdx: map[string]*c13Def{}}
	t.collect(prog, t.root, 0)
	tw := t.rewrite(prog)
	return tw, t.info
}

// c13Judge evaluates one program; clause "" = held / not judged.
func c13Judge(prog []*gen.LStmt) (clause, detail string, info c13Info, vacuous string) {
	twin, info := c13Twin(prog)
	textP, textT := gen.LRender(prog), gen.LRender(twin)
	gP, _, errP := compile(textP)
	if info.undefined > 0 {
		if errP == nil {
			// Only a *live* reference is judged: a value that a later declaration overwrites is
			// gone before substitutions are resolved. Liveness is decided through the compiler
			// itself: replace the undefined references by a marker literal and look for it in π.
			saved := make([]gen.LVal, len(info.undefMarked))
			for i, v := range info.undefMarked {
				saved[i] = *v
				*v = gen.LVal{Parts: []gen.LPart{{Lit: "UNDEFMARK"}}, Quote: "d"}
			}
			textM := gen.LRender(prog)
			for i, v := range info.undefMarked {
				*v = saved[i]
			}
			gM, _, errM := compile(textM)
			if errM != nil {
				return "", "", info, "vacuous_undefined_marker_error"
			}
			if !strings.Contains(proj.Graph(gM, proj.Opts{}).String(), "UNDEFMARK") {
				return "", "", info, "vacuous_undefined_reference_overwritten"
			}
			return "C13.undefined-accepted", "program with a live undefined variable reference compiled:\n" + textP, info, ""
		}
		if !strings.Contains(errP.Error(), "could not resolve variable") {
			return "C13.undefined-other-error", fmt.Sprintf("expected `could not resolve variable`, got %v\n%s", errP, textP), info, ""
		}
		return "", "", info, ""
	}
	if info.mapSub > 0 {
		return "", "", info, "unjudged_map_substitution"
	}
	if info.forwardRef > 0 {
		return "", "", info, "unjudged_forward_reference_in_vars"
	}
	gT, _, errT := compile(textT)
	if errT != nil {
		return "", fmt.Sprintf("twin does not compile: %v\n%s", errT, textT), info, "vacuous_twin_error"
	}
	if errP != nil {
		return "C13.substitution-rejected", fmt.Sprintf("twin compiles but the program fails: %v\nprogram:\n%s\ntwin:\n%s", errP, textP, textT), info, ""
	}
	pP, pT := proj.Graph(gP, proj.Opts{}).String(), proj.Graph(gT, proj.Opts{}).String()
	if pP != pT {
		return "C13.twin-differs", fmt.Sprintf("program:\n%s\ntwin:\n%s\nπ(program) vs π(twin): %s", textP, textT, proj.Diff(pP, pT)), info, ""
	}
	for _, f := range info.sqForbidden {
		if strings.Contains(pP, f) {
			return "C13.single-quoted-substituted", fmt.Sprintf("substituted form %q of a single-quoted value occurs in the compiled graph\nprogram:\n%s", f, textP), info, ""
		}
	}
	return "", "", info, ""
}

func c13Sig(clause string, info c13Info) string {
	var ks []string
	for k := range info.ctx {
		ks = append(ks, k)
	}
	sort.Strings(ks)
	if info.useBeforeVars > 0 && clause == "C13.twin-differs" {
		// trigger predicate evaluated on the shrunk witness
		return clause + ":composed-variable-used-by-field-declared-before-its-vars-block"
	}
	s := clause + ":" + strings.Join(ks, "+")
	if info.shadowed > 0 {
		s += "+shadowed"
	}
	if info.varInVar > 0 {
		s += "+var-in-var"
	}
	return s
}

func execC13(c run.Case) (res run.Result) {
	var in c13In
	c.Decode(&in)
	clause, detail, info, vac := c13Judge(in.Prog)
	text := gen.LRender(in.Prog)
	res.Digest = text
	res.Add("substitutions_resolved", info.subs)
	res.Add("substitutions_shadowed", info.shadowed)
	res.Add("single_quoted_with_dollar", info.sq)
	res.Add("var_in_var_definitions", info.varInVar)
	res.Add("uses_before_vars_block_of_composed_variable", info.useBeforeVars)
	for k, v := range info.ctx {
		res.Add("ctx_"+k, v)
	}
	res.Inc(fmt.Sprintf("scope_depth_%d", info.depth))
	res.Sample = map[string]any{"text": trunc(text, 400)}
	if vac != "" {
		res.Inc(vac)
		if vac == "vacuous_twin_error" {
			res.Inc("vacuous_twin_error:" + c12ErrClass(detail))
		}
		return
	}
	if info.undefined > 0 {
		res.Inc("undefined_reference_judged")
	}
	if clause != "" {
		// shrink under "same clause still fails"
		small := gen.LShrink(in.Prog, func(p []*gen.LStmt) bool {
			cl, _, _, _ := c13Judge(p)
			return cl == clause
		}, 150)
		cl2, det2, info2, _ := c13Judge(small)
		if cl2 == clause {
			detail, info = "(shrunk) "+det2, info2
		}
		res.Viol(clause, c13Sig(clause, info), detail)
		return
	}
	res.Inc("judged")
	res.Nontrivial = info.subs >= 2 || info.undefined > 0
	return
}
