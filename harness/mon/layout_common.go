package mon

// layout_common.go — shared helpers of the layout monitors (C17–C24, C28, C29).
// Owner: builder-layout1. Signatures below are STABLE; add new helpers, do not change these.
//
// Pipeline
//
//	layCompile(engine, text) (*d2target.Diagram, *d2graph.Graph, error)
//	    the real pipeline: d2lib.Compile(ctx, text, &CompileOptions{Layout: &engine,
//	    LayoutResolver: dagre|elk DefaultLayout, Ruler: textmeasure.NewRuler() (one per process)}, nil).
//	    engine is "dagre" or "elk". error != nil: compile error OR layout/export error; use
//	    layIsCompileError(err) to tell them apart (or compile first with mon.compile).
//	layCompileOpts(engine, text, *d2svg.RenderOpts)   same with render options (theme, sketch, pad …)
//	layRender(d *d2target.Diagram) ([]byte, error)     d2svg.Render with default options
//	layLayoutBoard(engine, g *d2graph.Graph) error     lay out one compiled board in place (theme, dimensions,
//	    LayoutNested) without export — for before/after comparisons on the same graph
//	layBoards(d, g) []layBoard                          root board + layers/scenarios/steps, recursively,
//	    each with its board path, its exported diagram and its laid-out graph (paired by index).
//	    In one board, D.Shapes[i] is the export of G.Objects[i] and D.Connections[i] of G.Edges[i].
//
// Geometry (all float64, pixel units of the layout)
//
//	type layRect struct{ X, Y, W, H float64 }    .X2() .Y2() .Finite() .Contains(px,py,tol) .ContainsRect(r,tol)
//	                                             .Overlap(r) (w,h of the intersection, 0 if disjoint)
//	                                             .BorderDist(px,py) (distance to the rectangle's border line)
//	                                             .Depth(px,py) (>0: that deep inside; <0: outside)
//	layObjRect(o *d2graph.Object) layRect        box of a laid-out graph object (TopLeft, Width, Height)
//	layShapeRect(s *d2target.Shape) layRect      box of an exported shape (ints)
//	type layPart struct{ Kind string; R layRect } Kind: "box" | "label" | "icon" | "3d" | "multiple"
//	layExtent(s *d2target.Shape) []layPart       VISUAL EXTENT of an exported shape: its box, its outside (or
//	    border) label rectangle, its outside icon rectangle and the offset copy drawn for 3d / multiple.
//	    Computed like the renderer places these things: label.Position.GetPointOnBox(box, label.PADDING, w, h)
//	    (lib/label), d2target.GetIconSize, d2target.THREE_DEE_OFFSET / MULTIPLE_OFFSET — never via
//	    Object.GetMargin / Spacing / the layout engines' own adjustments.
//	layExtentObj(o *d2graph.Object) []layPart    same from the graph object (float geometry)
//	layUnion(parts []layPart) layRect            bounding rectangle of the parts
//	layPerimeterNear(o, px, py, tol) bool        (px,py) within tol of the drawn border of o's shape
//	    (lib/shape Perimeter(); rectangular shapes: the box border)
//	layPerimeterNearAt(shapeValue, r, ratio, px, py, tol) bool   same for an arbitrary box (offset copies)
//
// Structure predicates (on the laid-out graph)
//
//	layInSequence(o) bool        o is strictly inside a sequence diagram (actor, span, note, group …)
//	layIsSequenceEdge(e) bool    an endpoint of e is inside a sequence diagram (message)
//	layNearRoot(o) *Object       the constant-near root object o belongs to (o itself or an ancestor), or nil
//	layIsGridCell(o) bool        o's parent is a grid diagram
//	layFeatures(g, add func(key string, n int))   feature histogram of one board for evidence counters
//	layFinite(f) bool
//
// Workload
//
//	layCase{Text, Engine, Src}   JSON case body used by C17–C20 (others may reuse)
//	laySha(s) string             short digest for run.Result.Digest
//	layNearOnlyCases(seed, tier, share, emit)   boards whose root consists ONLY of constant-near shapes (all
//	    subsets of the 8 constants up to size 3 + random larger sets; leaves/containers/grids/sequence
//	    diagrams; root board and layers); share=1 all patterns, share=k every k-th (dagre only in quick)
//	layGenCases(seed, tier, salt, nDagreQuick, nElkQuick, mult, opts func(engine string, i int, r *gen.R) (gen.DiagramOpts, srcLabel string), emit)
//	    emits nDagre dagre cases + nElk ELK cases (×mult in thorough) of gen.Diagram programs.

import (
	"context"
	"crypto/sha256"
	"encoding/hex"
	"errors"
	"fmt"
	"io"
	"log/slog"
	"math"
	"os"
	"strconv"
	"strings"
	"sync"

	"oss.terrastruct.com/d2/d2graph"
	"oss.terrastruct.com/d2/d2layouts"
	"oss.terrastruct.com/d2/d2layouts/d2dagrelayout"
	"oss.terrastruct.com/d2/d2layouts/d2elklayout"
	"oss.terrastruct.com/d2/d2lib"
	"oss.terrastruct.com/d2/d2parser"
	"oss.terrastruct.com/d2/d2renderers/d2svg"
	"oss.terrastruct.com/d2/d2target"
	"oss.terrastruct.com/d2/lib/geo"
	"oss.terrastruct.com/d2/lib/label"
	d2log "oss.terrastruct.com/d2/lib/log"
	"oss.terrastruct.com/d2/lib/shape"
	"oss.terrastruct.com/d2/lib/textmeasure"

	"verif/gen"
	"verif/run"
)

var (
	layRulerOnce sync.Once
	layRuler     *textmeasure.Ruler
	layRulerErr  error
)

func layCtx() context.Context {
	return d2log.With(context.Background(), slog.New(slog.NewTextHandler(io.Discard, nil)))
}

func layResolver(engine string) (d2graph.LayoutGraph, error) {
	switch engine {
	case "dagre":
		return d2dagrelayout.DefaultLayout, nil
	case "elk":
		return d2elklayout.DefaultLayout, nil
	}
	return nil, fmt.Errorf("harness: unknown engine %q", engine)
}

// layCompile runs compile → SetDimensions → LayoutNested(engine) → export for every board.
func layCompile(engine, text string) (*d2target.Diagram, *d2graph.Graph, error) {
	return layCompileOpts(engine, text, nil)
}

func layCompileOpts(engine, text string, ro *d2svg.RenderOpts) (*d2target.Diagram, *d2graph.Graph, error) {
	layRulerOnce.Do(func() { layRuler, layRulerErr = textmeasure.NewRuler() })
	if layRulerErr != nil {
		panic("harness: textmeasure.NewRuler: " + layRulerErr.Error())
	}
	eng := engine
	return d2lib.Compile(layCtx(), text, &d2lib.CompileOptions{
		Layout:         &eng,
		LayoutResolver: layResolver,
		Ruler:          layRuler,
	}, ro)
}

// layLayoutBoard lays out ONE compiled board in place, exactly like d2lib.compile does for it
// (ApplyTheme(0) → SetDimensions(ruler) → d2layouts.LayoutNested(engine, DefaultRouter)), without
// export and without descending into layers/scenarios/steps. For monitors that need the graph
// before and after layout (C18).
func layLayoutBoard(engine string, g *d2graph.Graph) error {
	layRulerOnce.Do(func() { layRuler, layRulerErr = textmeasure.NewRuler() })
	if layRulerErr != nil {
		panic("harness: textmeasure.NewRuler: " + layRulerErr.Error())
	}
	if err := g.ApplyTheme(0); err != nil {
		return err
	}
	if len(g.Objects) == 0 {
		return nil
	}
	if err := g.SetDimensions(nil, layRuler, nil, nil); err != nil {
		return err
	}
	core, err := layResolver(engine)
	if err != nil {
		return err
	}
	return d2layouts.LayoutNested(layCtx(), g, d2layouts.NestedGraphInfo(g.Root), core, d2layouts.DefaultRouter)
}

// layIsCompileError: the error comes from parsing/compiling (not from layout or export).
func layIsCompileError(err error) bool {
	// d2compiler reports through *d2parser.ParseError as well (compiler.errorf → d2parser.Errorf)
	var pe *d2parser.ParseError
	return errors.As(err, &pe)
}

// layRender renders the exported diagram to SVG with default options.
func layRender(d *d2target.Diagram) ([]byte, error) {
	return d2svg.Render(d, &d2svg.RenderOpts{})
}

type layBoard struct {
	Path string
	D    *d2target.Diagram
	G    *d2graph.Graph
}

// layBoards pairs every exported board with its graph (same order as d2lib.compile).
func layBoards(d *d2target.Diagram, g *d2graph.Graph) []layBoard {
	var out []layBoard
	var walk func(path string, d *d2target.Diagram, g *d2graph.Graph)
	walk = func(path string, d *d2target.Diagram, g *d2graph.Graph) {
		if d == nil || g == nil {
			return
		}
		out = append(out, layBoard{Path: path, D: d, G: g})
		sub := func(kind string, ds []*d2target.Diagram, gs []*d2graph.Graph) {
			for i := 0; i < len(ds) && i < len(gs); i++ {
				walk(path+"/"+kind+"."+gs[i].Name, ds[i], gs[i])
			}
		}
		sub("layers", d.Layers, g.Layers)
		sub("scenarios", d.Scenarios, g.Scenarios)
		sub("steps", d.Steps, g.Steps)
	}
	walk("root", d, g)
	return out
}

// ---------------------------------------------------------------- rectangles

type layRect struct{ X, Y, W, H float64 }

func (r layRect) X2() float64 { return r.X + r.W }
func (r layRect) Y2() float64 { return r.Y + r.H }
func (r layRect) Finite() bool {
	return layFinite(r.X) && layFinite(r.Y) && layFinite(r.W) && layFinite(r.H)
}
func (r layRect) String() string { return fmt.Sprintf("[x=%g y=%g w=%g h=%g]", r.X, r.Y, r.W, r.H) }

// Contains: the point is inside r grown by tol.
func (r layRect) Contains(px, py, tol float64) bool {
	return px >= r.X-tol && px <= r.X2()+tol && py >= r.Y-tol && py <= r.Y2()+tol
}

// ContainsRect: q ⊆ r grown by tol.
func (r layRect) ContainsRect(q layRect, tol float64) bool {
	return q.X >= r.X-tol && q.Y >= r.Y-tol && q.X2() <= r.X2()+tol && q.Y2() <= r.Y2()+tol
}

// Overlap returns the width and height of the intersection (0,0 if the interiors are disjoint).
func (r layRect) Overlap(q layRect) (w, h float64) {
	w = math.Min(r.X2(), q.X2()) - math.Max(r.X, q.X)
	h = math.Min(r.Y2(), q.Y2()) - math.Max(r.Y, q.Y)
	if w <= 0 || h <= 0 {
		return 0, 0
	}
	return w, h
}

// Depth: > 0 how far inside r the point is (distance to the nearest side), < 0 how far outside.
func (r layRect) Depth(px, py float64) float64 {
	dx := math.Min(px-r.X, r.X2()-px)
	dy := math.Min(py-r.Y, r.Y2()-py)
	if dx >= 0 && dy >= 0 {
		return math.Min(dx, dy)
	}
	// outside: negative euclidean distance
	ox := math.Max(math.Max(r.X-px, px-r.X2()), 0)
	oy := math.Max(math.Max(r.Y-py, py-r.Y2()), 0)
	return -math.Hypot(ox, oy)
}

// BorderDist: distance from the point to the border line of r.
func (r layRect) BorderDist(px, py float64) float64 { return math.Abs(r.Depth(px, py)) }

// laySha is a short hex digest used as distinctness key.
func laySha(s string) string {
	h := sha256.Sum256([]byte(s))
	return hex.EncodeToString(h[:12])
}

func layFinite(f float64) bool { return !math.IsNaN(f) && !math.IsInf(f, 0) }

func layObjRect(o *d2graph.Object) layRect {
	if o.TopLeft == nil {
		return layRect{math.NaN(), math.NaN(), o.Width, o.Height}
	}
	return layRect{o.TopLeft.X, o.TopLeft.Y, o.Width, o.Height}
}

func layShapeRect(s *d2target.Shape) layRect {
	return layRect{float64(s.Pos.X), float64(s.Pos.Y), float64(s.Width), float64(s.Height)}
}

// ---------------------------------------------------------------- visual extent

type layPart struct {
	Kind string // box | label | icon | 3d | multiple
	R    layRect
}

func layUnion(parts []layPart) layRect {
	x1, y1, x2, y2 := math.Inf(1), math.Inf(1), math.Inf(-1), math.Inf(-1)
	for _, p := range parts {
		x1, y1 = math.Min(x1, p.R.X), math.Min(y1, p.R.Y)
		x2, y2 = math.Max(x2, p.R.X2()), math.Max(y2, p.R.Y2())
	}
	return layRect{x1, y1, x2 - x1, y2 - y1}
}

// layExtentOf is the common calculator. labelPos/iconPos are label.Position strings
// ("OUTSIDE_TOP_CENTER" …, "" = none). shapeValue is the DSL shape ("" = rectangle).
func layExtentOf(box layRect, shapeValue string, hasLabel bool, labelPos string, lw, lh float64, hasIcon bool, iconPos string, threeD, multiple bool) []layPart {
	parts := []layPart{{"box", box}}
	gb := geo.NewBox(geo.NewPoint(box.X, box.Y), box.W, box.H)
	off3 := 0.0
	if threeD {
		off3 = d2target.THREE_DEE_OFFSET
		dy := off3
		if strings.EqualFold(shapeValue, d2target.ShapeHexagon) {
			dy = off3 / 2
		}
		parts = append(parts, layPart{"3d", layRect{box.X + off3, box.Y - dy, box.W, box.H}})
	} else if multiple {
		parts = append(parts, layPart{"multiple", layRect{box.X + d2target.MULTIPLE_OFFSET, box.Y - d2target.MULTIPLE_OFFSET, box.W, box.H}})
	}
	if hasLabel && labelPos != "" {
		pos := label.FromString(labelPos)
		if pos.IsOutside() || pos.IsBorder() {
			tl := pos.GetPointOnBox(gb, label.PADDING, lw, lh)
			// the renderer shifts outside labels of 3d shapes with the offset copy (d2target.BoundingBox, d2svg)
			if threeD {
				o := off3
				if strings.EqualFold(shapeValue, d2target.ShapeHexagon) {
					o /= 2
				}
				if strings.HasPrefix(labelPos, "OUTSIDE_RIGHT") {
					tl.X += o
				}
				if strings.HasPrefix(labelPos, "OUTSIDE_TOP") {
					tl.Y -= o
				}
			}
			parts = append(parts, layPart{"label", layRect{tl.X, tl.Y, lw, lh}})
		}
	}
	if hasIcon && iconPos != "" && !strings.EqualFold(shapeValue, d2target.ShapeImage) {
		pos := label.FromString(iconPos)
		if pos.IsOutside() || pos.IsBorder() {
			sz := float64(d2target.GetIconSize(gb, iconPos))
			tl := pos.GetPointOnBox(gb, label.PADDING, sz, sz)
			parts = append(parts, layPart{"icon", layRect{tl.X, tl.Y, sz, sz}})
		}
	}
	return parts
}

// layExtent: visual extent of an exported shape.
func layExtent(s *d2target.Shape) []layPart {
	hasLabel := s.Label != "" && s.Type != d2target.ShapeText && s.Type != d2target.ShapeClass && s.Type != d2target.ShapeSQLTable && s.Type != d2target.ShapeCode
	return layExtentOf(layShapeRect(s), s.Type, hasLabel, s.LabelPosition, float64(s.LabelWidth), float64(s.LabelHeight),
		s.Icon != nil, s.IconPosition, s.ThreeDee, s.Multiple)
}

// layExtentObj: visual extent of a laid-out graph object (float geometry).
func layExtentObj(o *d2graph.Object) []layPart {
	lp, ip := "", ""
	if o.LabelPosition != nil {
		lp = *o.LabelPosition
	}
	if o.IconPosition != nil {
		ip = *o.IconPosition
	}
	sv := strings.ToLower(o.Shape.Value)
	hasLabel := o.Label.Value != "" && sv != d2target.ShapeText && sv != d2target.ShapeClass && sv != d2target.ShapeSQLTable && sv != d2target.ShapeCode
	threeD := o.Style.ThreeDee != nil && o.Style.ThreeDee.Value == "true"
	multiple := o.Style.Multiple != nil && o.Style.Multiple.Value == "true"
	return layExtentOf(layObjRect(o), sv, hasLabel, lp, float64(o.LabelDimensions.Width), float64(o.LabelDimensions.Height),
		o.Icon != nil, ip, threeD, multiple)
}

// layPerimeterNearAt: (px,py) is within tol of the drawn border of a shape of the given DSL
// type occupying box r. The border is lib/shape's Perimeter(); a point is "near" when one of
// 8 probe segments of half-length tol through it crosses the perimeter.
func layPerimeterNearAt(shapeValue string, r layRect, contentAspect *float64, px, py, tol float64) bool {
	st, ok := d2target.DSL_SHAPE_TO_SHAPE_TYPE[strings.ToLower(shapeValue)]
	if !ok {
		st = shape.SQUARE_TYPE
	}
	s := shape.NewShape(st, geo.NewBox(geo.NewPoint(r.X, r.Y), r.W, r.H))
	if st == shape.CLOUD_TYPE && contentAspect != nil {
		s.SetInnerBoxAspectRatio(*contentAspect)
	}
	if s.IsRectangular() || s.Is("") {
		return r.BorderDist(px, py) <= tol
	}
	per := s.Perimeter()
	for k := 0; k < 8; k++ {
		a := float64(k) * math.Pi / 8
		dx, dy := math.Cos(a)*tol, math.Sin(a)*tol
		seg := geo.Segment{Start: geo.NewPoint(px-dx, py-dy), End: geo.NewPoint(px+dx, py+dy)}
		for _, it := range per {
			if len(it.Intersections(seg)) > 0 {
				return true
			}
		}
	}
	return false
}

func layPerimeterNear(o *d2graph.Object, px, py, tol float64) bool {
	return layPerimeterNearAt(o.Shape.Value, layObjRect(o), o.ContentAspectRatio, px, py, tol)
}

// ---------------------------------------------------------------- structure predicates

func layInSequence(o *d2graph.Object) bool {
	for p := o.Parent; p != nil; p = p.Parent {
		if p.IsSequenceDiagram() {
			return true
		}
	}
	return false
}

func layIsSequenceEdge(e *d2graph.Edge) bool {
	return (e.Src != nil && layInSequence(e.Src)) || (e.Dst != nil && layInSequence(e.Dst))
}

func layIsNearConst(o *d2graph.Object) bool {
	if o.NearKey == nil {
		return false
	}
	k := d2graph.Key(o.NearKey)
	if len(k) != 1 {
		return false
	}
	for _, c := range gen.NearConstants {
		if k[0] == c {
			// a root shape with that very id makes it an object near (d2graph.IsConstantNear)
			if o.Graph != nil && o.Graph.Root != nil {
				if _, isKey := o.Graph.Root.HasChild(k); isKey {
					return false
				}
			}
			return true
		}
	}
	return false
}

// layNearRoot: the constant-near root-level object that o is or belongs to.
func layNearRoot(o *d2graph.Object) *d2graph.Object {
	for p := o; p != nil && p.Parent != nil; p = p.Parent {
		if p.Parent.Parent == nil && layIsNearConst(p) {
			return p
		}
	}
	return nil
}

func layIsGridCell(o *d2graph.Object) bool {
	return o.Parent != nil && (o.Parent.GridRows != nil || o.Parent.GridColumns != nil)
}

func layIsGrid(o *d2graph.Object) bool { return o.GridRows != nil || o.GridColumns != nil }

// layFeatures adds a feature histogram of one board (what the generated diagram really
// contained after compilation) to evidence counters.
func layFeatures(g *d2graph.Graph, add func(key string, n int)) {
	add("f_objects", len(g.Objects))
	add("f_edges", len(g.Edges))
	if g.Root != nil {
		if d := g.Root.Direction.Value; d != "" {
			add("f_direction_"+d, 1)
		}
		if g.Root.IsSequenceDiagram() {
			add("f_root_sequence", 1)
		}
		if layIsGrid(g.Root) {
			add("f_root_grid", 1)
		}
	}
	maxDepth := 0
	for _, o := range g.Objects {
		d := 0
		for p := o.Parent; p != nil && p.Parent != nil; p = p.Parent {
			d++
		}
		if d > maxDepth {
			maxDepth = d
		}
		if len(o.ChildrenArray) > 0 {
			add("f_containers", 1)
		}
		if o.Shape.Value != "" && o.Shape.Value != d2target.ShapeRectangle {
			add("f_shape_"+strings.ToLower(o.Shape.Value), 1)
		}
		if layIsGrid(o) {
			add("f_grids", 1)
		}
		if layIsNearConst(o) {
			add("f_near_const", 1)
		}
		if o.LabelPosition != nil {
			p := label.FromString(*o.LabelPosition)
			switch {
			case p.IsOutside():
				add("f_label_outside", 1)
			case p.IsBorder():
				add("f_label_border", 1)
			}
		}
		if o.Icon != nil {
			add("f_icons", 1)
			if o.IconPosition != nil && label.FromString(*o.IconPosition).IsOutside() {
				add("f_icon_outside", 1)
			}
		}
		if o.WidthAttr != nil || o.HeightAttr != nil {
			add("f_dims", 1)
		}
		if o.Style.ThreeDee != nil && o.Style.ThreeDee.Value == "true" {
			add("f_3d", 1)
		}
		if o.Style.Multiple != nil && o.Style.Multiple.Value == "true" {
			add("f_multiple", 1)
		}
		if o.Language != "" {
			add("f_lang_"+o.Language, 1)
		}
		if layInSequence(o) {
			add("f_in_sequence", 1)
		}
	}
	add("f_depth_"+fmt.Sprint(maxDepth), 1)
	for _, e := range g.Edges {
		if e.Src == e.Dst {
			add("f_self_loops", 1)
		}
		if e.Label.Value != "" {
			add("f_edge_labels", 1)
		}
		if e.Src != nil && e.Dst != nil && (len(e.Src.ChildrenArray) > 0 || len(e.Dst.ChildrenArray) > 0) {
			add("f_container_edges", 1)
		}
		if layIsSequenceEdge(e) {
			add("f_seq_messages", 1)
		}
	}
}

// ---------------------------------------------------------------- workload

type layCase struct {
	Text   string `json:"text"`
	Engine string `json:"engine"`
	Src    string `json:"src,omitempty"`
}

// layGenCases emits nDagre dagre cases followed by nElk ELK cases of gen.Diagram programs
// (thorough: ×mult). opts chooses the generator options per case (i counts within the engine).
// salt decorrelates the workloads of different properties for the same seed.
func layGenCases(seed int64, tier string, salt int64, nDagre, nElk, mult int, opts func(engine string, i int, r *gen.R) (gen.DiagramOpts, string), emit func(run.Case)) {
	if tier == "thorough" {
		nDagre *= mult
		nElk *= mult
	}
	// development knob (mutant validation on a loaded machine): VERIF_LAY_DIV=n keeps the first
	// 1/n of each engine's list. Unset in every recorded run.
	if v, err := strconv.Atoi(os.Getenv("VERIF_LAY_DIV")); err == nil && v > 1 {
		nDagre, nElk = (nDagre+v-1)/v, (nElk+v-1)/v
	}
	r := gen.New(seed*1000003 + salt)
	id := 0
	for _, eng := range []string{"dagre", "elk"} {
		n := nDagre
		if eng == "elk" {
			n = nElk
		}
		for i := 0; i < n; i++ {
			q := r.Sub(i)
			o, src := opts(eng, i, q)
			text := gen.Diagram(q, o)
			id++
			emit(run.MkCase(fmt.Sprintf("%s%06d", eng[:1], id), eng+"/"+src, layCase{Text: text, Engine: eng, Src: src}))
		}
	}
}

// ---------------------------------------------------------------- near-only boards

// layNearOnlyText renders a board whose root consists ONLY of constant-near shapes at the given
// constants. kinds[i] selects the i-th shape: 0 leaf, 1 container with children and a labelled
// edge, 2 grid, 3 sequence diagram. Always compilable.
func layNearOnlyText(consts []string, kinds []int, labels bool) string {
	var sb strings.Builder
	for i, c := range consts {
		name := fmt.Sprintf("n%d", i)
		lbl := ""
		if labels && i%2 == 0 {
			lbl = ": " + gen.Quote("near "+c)
		}
		switch kinds[i] % 4 {
		case 0:
			fmt.Fprintf(&sb, "%s%s {\n  near: %s\n}\n", name, lbl, c)
		case 1:
			fmt.Fprintf(&sb, "%s%s {\n  near: %s\n  a -> b: go\n  c: {d}\n}\n", name, lbl, c)
		case 2:
			fmt.Fprintf(&sb, "%s%s {\n  near: %s\n  grid-rows: 2\n  x; y; z\n}\n", name, lbl, c)
		case 3:
			fmt.Fprintf(&sb, "%s%s {\n  near: %s\n  shape: sequence_diagram\n  p -> q: m\n  q -> p\n}\n", name, lbl, c)
		}
	}
	return sb.String()
}

// layNearOnlyCases emits the "all root shapes are constant nears" sub-workload (d2near.boundingBox
// then has nothing but nears to measure): every non-empty subset of the 8 constants of size ≤ 3
// (92 patterns) plus random larger sets, the shapes being leaves / containers with children and
// edges / grids / sequence diagrams (kind assignment rotates with the seed), as the root board
// and as a layer below a near-only or an ordinary root. share = 1: all patterns under dagre and a
// seed-rotated quarter under ELK in the quick tier (d2near runs after either engine; ELK costs 7×);
// share = k > 1: every k-th pattern (seed-rotated), dagre only in the quick tier. thorough: all
// patterns, both engines. Pure function of (seed, tier, share).
func layNearOnlyCases(seed int64, tier string, share int, emit func(run.Case)) {
	cs := gen.NearConstants
	var patterns [][]string
	n := len(cs)
	for a := 0; a < n; a++ {
		patterns = append(patterns, []string{cs[a]})
	}
	for a := 0; a < n; a++ {
		for b := a + 1; b < n; b++ {
			patterns = append(patterns, []string{cs[a], cs[b]})
		}
	}
	for a := 0; a < n; a++ {
		for b := a + 1; b < n; b++ {
			for c := b + 1; c < n; c++ {
				patterns = append(patterns, []string{cs[a], cs[b], cs[c]})
			}
		}
	}
	r := gen.New(seed*7919 + 4242)
	nLarge := 12
	if tier == "thorough" {
		nLarge = 200
	}
	for i := 0; i < nLarge; i++ {
		k := r.Range(4, 10) // > 8: constants repeat
		p := make([]string, k)
		for j := range p {
			p[j] = gen.Pick(r, cs)
		}
		patterns = append(patterns, p)
	}
	div := 1
	if v, err := strconv.Atoi(os.Getenv("VERIF_LAY_DIV")); err == nil && v > 1 {
		div = v // development knob, see layGenCases
	}
	rot := int(seed%1000+1000) % 1000
	id := 0
	for pi, p := range patterns {
		if share > 1 && tier != "thorough" && (pi+rot)%share != 0 {
			continue
		}
		if div > 1 && (pi+rot)%div != 0 {
			continue
		}
		kinds := make([]int, len(p))
		for j := range kinds {
			kinds[j] = pi + j + rot // every pattern meets every kind over 4 consecutive seeds
		}
		root := layNearOnlyText(p, kinds, pi%2 == 0)
		for _, eng := range []string{"dagre", "elk"} {
			if eng == "elk" && tier != "thorough" && (share > 1 || (pi+rot)%4 != 0) {
				continue
			}
			id++
			emit(run.MkCase(fmt.Sprintf("n%s%04d", eng[:1], id), eng+"/near-only", layCase{Text: root, Engine: eng, Src: "near-only"}))
			// the same content as a layer: below a near-only root (even patterns) or an ordinary root
			if tier == "thorough" || (pi+rot)%3 == 0 {
				base := "m -> k\n"
				if pi%2 == 0 {
					base = layNearOnlyText(p[:1], []int{kinds[0] + 1}, false)
				}
				text := base + "layers: {\n  l1: {\n    " + strings.ReplaceAll(strings.TrimSuffix(root, "\n"), "\n", "\n    ") + "\n  }\n}\n"
				id++
				emit(run.MkCase(fmt.Sprintf("n%s%04d", eng[:1], id), eng+"/near-only-layer", layCase{Text: text, Engine: eng, Src: "near-only-layer"}))
			}
		}
	}
}
