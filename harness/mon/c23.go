package mon

// C23 — sequence diagrams keep actor and message order.
//
// Workload: gen.L2SeqBoard — 1–8 actors (all shapes incl. person/image, explicit sizes, icons),
// 0–30 messages (all arrow kinds, short/long/multi-line/no labels), spans and nested spans,
// notes, groups and nested groups, self / sibling-span / descendant messages; as the root board
// or as a container between other shapes. The generator returns, from the text it wrote, the
// actors in order of first appearance and the messages in text order: the expectation does not
// come from d2 (d2sequence sorts by the line numbers of references).
//
// Oracle, on the EXPORTED shapes and connections:
//   actor-order   centre x of the actors strictly increasing in declaration order
//   baseline      one common baseline: every actor's box bottom — or, for an actor whose label is
//                 placed OUTSIDE_BOTTOM_* (person/image: placeActors lifts the box by the label
//                 height), box bottom + label height — equals it (±1)
//   message-order Route[0].Y strictly increasing in declaration order (k-th message of the text
//                 = k-th exported non-lifeline connection; checked on src/dst/label first)
//   horizontal    a message between different actors has exactly two points with equal Y
//   endpoints     each end lies on the lifeline of its actor (x = lifeline x, y within the
//                 lifeline) or, when it attaches to a span, on the vertical border of that span
//                 that faces the other end (same actor: either border), y within the span (±1)
//
// Lifelines are the exported connections whose destination is the synthetic
// "<actor>-lifeline-end-<hash>" object; their x is the independent reference for "on the lifeline".

import (
	"fmt"
	"math"
	"strings"

	"verif/gen"
	"verif/run"

	"oss.terrastruct.com/d2/d2target"
	"oss.terrastruct.com/d2/lib/geo"
)

type c23In struct {
	Text   string    `json:"text"`
	Engine string    `json:"engine"`
	Ex     gen.L2Seq `json:"ex"`
}

func init() {
	run.Register(&run.Check{
		ID: "C23", Title: "Sequence diagrams keep actor and message order",
		LevelText: "Exploration: generated sequence diagrams (1–8 actors of all shapes, 0–30 messages of all arrow kinds with short/long/multi-line/no labels, spans, nested spans, notes, groups, nested groups, self/sibling/descendant messages; root board or nested container; dagre and ELK as outer engine) are laid out through d2lib.Compile; on the exported shapes and connections the monitor checks actor order, the common baseline, message order, horizontality of inter-actor messages and that every end lies on its actor's lifeline or on the facing border of its span. Expected orders come from the generator's own record of the text.",
		Technique: "runtime monitoring: geometric invariant oracle over generated sequence diagrams; expectation recorded by the generator",
		DesignRef: "§4 C23",
		Rule:      "cases: gen.L2SeqBoard(seed,i) × engine; distinct by sha256(engine,text); non-trivial when the diagram has ≥2 actors and ≥2 messages and all clauses were evaluated. Counters: actors_judged, messages_judged, inter_actor_messages, self_like_messages, span_endpoints, lifeline_endpoints, feature histogram",
		Chunk:     8,
		CPUBudget: 120,
		Gen:       genC23,
		Exec:      execC23,
	})
}

func genC23(seed int64, tier string, emit func(run.Case)) {
	r := gen.New(seed*7919 + 23)
	nd, ne := 360, 24
	if tier == "thorough" {
		nd, ne = 7200, 480
	}
	id := 0
	for _, eng := range []string{"dagre", "elk"} {
		n := nd
		if eng == "elk" {
			n = ne
		}
		for i := 0; i < n; i++ {
			q := r.Sub(i)
			text, ex := gen.L2SeqBoard(q)
			id++
			emit(run.MkCase(fmt.Sprintf("%s%06d", eng[:1], id), eng, c23In{Text: text, Engine: eng, Ex: ex}))
		}
	}
}

func execC23(c run.Case) (res run.Result) {
	var in c23In
	c.Decode(&in)
	res.Digest = laySha(in.Engine + "\x00" + in.Text)
	res.Sample = map[string]any{"engine": in.Engine, "text": trunc(in.Text, 700)}
	res.Inc("engine_" + in.Engine)
	d, _, err := layCompile(in.Engine, in.Text)
	if err != nil {
		if layIsCompileError(err) {
			res.Inc("vacuous_compile_error")
			res.Inconclusive = "harness: generated sequence diagram does not compile: " + trunc(err.Error(), 300)
		} else {
			res.Inc("vacuous_layout_error") // C17
		}
		return
	}
	for _, f := range in.Ex.Feats {
		res.Inc("f_" + f)
	}
	ex := in.Ex
	shapeOf := map[string]*d2target.Shape{}
	for i := range d.Shapes {
		shapeOf[d.Shapes[i].ID] = &d.Shapes[i]
	}
	where := "root"
	if ex.Prefix != "" {
		where = "nested"
	}

	// ---- actors
	type actor struct {
		id       string
		box      layRect
		s        *d2target.Shape
		lifeX    float64
		lifeY0   float64
		lifeY1   float64
		hasLife  bool
		baseline []float64
	}
	actors := map[string]*actor{}
	var order []*actor
	for _, id := range ex.Actors {
		s := shapeOf[id]
		if s == nil {
			res.Viol("C23.actor-missing", "C23.actor-missing:"+where, fmt.Sprintf("actor %q is not among the exported shapes", id))
			return
		}
		a := &actor{id: id, box: layShapeRect(s), s: s}
		a.baseline = []float64{a.box.Y2()}
		if s.Label != "" && strings.HasPrefix(s.LabelPosition, "OUTSIDE_BOTTOM") {
			a.baseline = append(a.baseline, a.box.Y2()+float64(s.LabelHeight))
		}
		actors[id] = a
		order = append(order, a)
	}
	var msgs []*d2target.Connection
	for i := range d.Connections {
		cn := &d.Connections[i]
		if k := strings.Index(cn.Dst, "-lifeline-end-"); k >= 0 {
			if a := actors[cn.Src]; a != nil && len(cn.Route) == 2 {
				a.lifeX, a.lifeY0, a.lifeY1, a.hasLife = cn.Route[0].X, math.Min(cn.Route[0].Y, cn.Route[1].Y), math.Max(cn.Route[0].Y, cn.Route[1].Y), true
			}
			continue
		}
		if ex.Prefix != "" && !(strings.HasPrefix(cn.Src, ex.Prefix) && strings.HasPrefix(cn.Dst, ex.Prefix)) {
			continue // edges of the surrounding board
		}
		msgs = append(msgs, cn)
	}
	res.Add("actors_judged", len(order))
	// actor order
	for i := 1; i < len(order); i++ {
		p, a := order[i-1], order[i]
		if !(a.box.X+a.box.W/2 > p.box.X+p.box.W/2) {
			res.Viol("C23.actor-order", "C23.actor-order:"+where, fmt.Sprintf("actor %q (declared #%d, centre x %g) is not to the right of %q (declared #%d, centre x %g)", a.id, i, a.box.X+a.box.W/2, p.id, i-1, p.box.X+p.box.W/2))
			break
		}
	}
	// baseline: some common value is a candidate of every actor
	if len(order) > 0 {
		ok := false
		for _, b := range order[0].baseline {
			all := true
			for _, a := range order[1:] {
				hit := false
				for _, x := range a.baseline {
					if math.Abs(x-b) <= 1 {
						hit = true
					}
				}
				all = all && hit
			}
			ok = ok || all
		}
		if !ok {
			var desc []string
			kind := "inside-labels-only"
			for _, a := range order {
				desc = append(desc, fmt.Sprintf("%s:%v", a.id, a.baseline))
				if len(a.baseline) > 1 {
					kind = "with-outside-bottom-label"
				}
			}
			res.Viol("C23.baseline", "C23.baseline:"+where+":"+kind, "actors do not share a baseline (box bottom, or bottom+label height for outside-bottom labels): "+strings.Join(desc, " "))
		}
	}
	for _, a := range order {
		if !a.hasLife {
			res.Viol("C23.lifeline-missing", "C23.lifeline-missing:"+where, fmt.Sprintf("actor %q has no exported lifeline", a.id))
			return
		}
		if math.Abs(a.lifeX-(a.box.X+a.box.W/2)) > 1 {
			res.Viol("C23.lifeline-off-centre", "C23.lifeline-off-centre:"+where, fmt.Sprintf("lifeline of %q at x=%g, actor centre %g", a.id, a.lifeX, a.box.X+a.box.W/2))
		}
	}

	// ---- messages: k-th message of the text = k-th exported message
	if len(msgs) != len(ex.Msgs) {
		res.Viol("C23.message-count", "C23.message-count:"+where, fmt.Sprintf("%d messages written, %d exported", len(ex.Msgs), len(msgs)))
		return
	}
	for k, m := range ex.Msgs {
		cn := msgs[k]
		if cn.Src != m.Src || cn.Dst != m.Dst || cn.Label != m.Label {
			res.Inc("vacuous_message_mapping")
			res.Inconclusive = fmt.Sprintf("harness: exported connection %d is %s -> %s %q, the text has %s -> %s %q", k, cn.Src, cn.Dst, cn.Label, m.Src, m.Dst, m.Label)
			return
		}
	}
	res.Add("messages_judged", len(msgs))
	prevY := math.Inf(-1)
	for k, m := range ex.Msgs {
		cn := msgs[k]
		if len(cn.Route) < 2 {
			res.Viol("C23.route", "C23.route:short", fmt.Sprintf("message %d %s -> %s has %d route points", k, m.Src, m.Dst, len(cn.Route)))
			return
		}
		kind := "inter-actor"
		if m.SrcActor == m.DstActor {
			kind = "same-actor"
			res.Inc("self_like_messages")
		} else {
			res.Inc("inter_actor_messages")
		}
		y0 := cn.Route[0].Y
		if !(y0 > prevY) {
			res.Viol("C23.message-order", "C23.message-order:"+where+":"+kind, fmt.Sprintf("message %d (%s -> %s %q) starts at y=%g, not below its predecessor at y=%g", k, m.Src, m.Dst, m.Label, y0, prevY))
			return
		}
		prevY = y0
		if kind == "inter-actor" {
			if len(cn.Route) != 2 || math.Abs(cn.Route[0].Y-cn.Route[1].Y) > 0.5 {
				res.Viol("C23.horizontal", "C23.horizontal:"+where, fmt.Sprintf("message %d (%s -> %s) between different actors is not one horizontal segment: %v", k, m.Src, m.Dst, c23Route(cn)))
				return
			}
		}
		// endpoints
		ends := []struct {
			id, actor string
			p, other  *geo.Point
			name      string
		}{
			{m.Src, m.SrcActor, cn.Route[0], cn.Route[len(cn.Route)-1], "start"},
			{m.Dst, m.DstActor, cn.Route[len(cn.Route)-1], cn.Route[0], "end"},
		}
		for _, e := range ends {
			a := actors[e.actor]
			if a == nil {
				res.Inconclusive = "harness: unknown actor " + e.actor
				return
			}
			if e.id == e.actor {
				res.Inc("lifeline_endpoints")
				if math.Abs(e.p.X-a.lifeX) > 1 || e.p.Y < a.lifeY0-1 || e.p.Y > a.lifeY1+1 {
					res.Viol("C23.endpoint", "C23.endpoint:lifeline:"+kind+":"+where, fmt.Sprintf("message %d (%s -> %s): %s (%g,%g) is not on the lifeline of %q (x=%g, y in [%g,%g])", k, m.Src, m.Dst, e.name, e.p.X, e.p.Y, a.id, a.lifeX, a.lifeY0, a.lifeY1))
					return
				}
				continue
			}
			sp := shapeOf[e.id]
			if sp == nil {
				res.Viol("C23.span-missing", "C23.span-missing:"+where, fmt.Sprintf("span %q is not among the exported shapes", e.id))
				return
			}
			res.Inc("span_endpoints")
			b := layShapeRect(sp)
			nested := strings.Count(strings.TrimPrefix(e.id, e.actor+"."), ".") > 0
			trig := "span"
			if nested {
				trig = "nested-span"
			}
			if math.Abs(b.X+b.W/2-a.lifeX) > 1 {
				res.Viol("C23.span-off-lifeline", "C23.span-off-lifeline:"+trig+":"+where, fmt.Sprintf("span %q %v is not centred on the lifeline x=%g of %q", e.id, b, a.lifeX, a.id))
				return
			}
			onLeft, onRight := math.Abs(e.p.X-b.X) <= 1, math.Abs(e.p.X-b.X2()) <= 1
			okX := onLeft || onRight
			if kind == "inter-actor" {
				// the border facing the other end
				if e.other.X > e.p.X {
					okX = onRight
				} else {
					okX = onLeft
				}
			}
			if !okX || e.p.Y < b.Y-1 || e.p.Y > b.Y2()+1 {
				// known root cause: adjustGroupLabel makes room for a group's label by moving
				// everything below the group's top down — a same-actor (4-point) message whose
				// start is above that top and whose end is below is left in place while the
				// span it ends on moves
				if kind == "same-actor" && c23StraddlesGroupTop(d, ex.Prefix, cn) {
					trig = "same-actor-message-straddles-group-top:" + trig
				}
				res.Viol("C23.endpoint", "C23.endpoint:"+trig+":"+kind+":"+where, fmt.Sprintf("message %d (%s -> %s): %s (%g,%g) is not on the facing border of span %q %v", k, m.Src, m.Dst, e.name, e.p.X, e.p.Y, e.id, b))
				return
			}
		}
	}
	res.Nontrivial = len(order) >= 2 && len(msgs) >= 2
	return
}

// c23StraddlesGroupTop: some group shape (generator ids g<n>) has its top strictly between the
// first and the last point of the message.
func c23StraddlesGroupTop(d *d2target.Diagram, prefix string, cn *d2target.Connection) bool {
	y0, y1 := cn.Route[0].Y, cn.Route[len(cn.Route)-1].Y
	if y0 > y1 {
		y0, y1 = y1, y0
	}
	for i := range d.Shapes {
		s := &d.Shapes[i]
		id := strings.TrimPrefix(s.ID, prefix)
		seg := id[strings.LastIndex(id, ".")+1:]
		if len(seg) < 2 || seg[0] != 'g' || strings.Trim(seg[1:], "0123456789") != "" {
			continue
		}
		if top := float64(s.Pos.Y); top > y0 && top < y1+float64(s.LabelHeight)+10 {
			return true
		}
	}
	return false
}

func c23Route(cn *d2target.Connection) string {
	var s []string
	for _, p := range cn.Route {
		s = append(s, fmt.Sprintf("(%g,%g)", p.X, p.Y))
	}
	return strings.Join(s, " ")
}
