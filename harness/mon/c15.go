package mon

import (
	"fmt"
	"sort"
	"strings"

	"verif/gen"
	"verif/proj"
	"verif/run"

	"oss.terrastruct.com/d2/d2graph"
)

// C15 — boards inherit from their base and never leak changes back.
//
// Oracle (metamorphic, through the real compiler): for every board B of a generated program P
// the monitor derives, from the statement alone, a *single-board* program D(B):
//
//	root      : P without any board block
//	scenario S: what the parent board declares before the scenarios block ⊕ body(S)
//	step i    : what the parent declares before the steps block ⊕ body(1) ⊕ … ⊕ body(i)
//	layer L   : the parent's classes and vars and the board-wide (***) globs it declares before
//	            the layers block ⊕ body(L) — none of its objects and connections
//
// (recursively for nested boards; ⊕ is concatenation at the board's root; nested board blocks
// are dropped from D), and requires objects+connections of B in Compile(P) to equal those of
// the root board of Compile(D(B)), as multisets. Leaks into the base or into a sibling show up
// as a difference, because D(B) contains nothing of B's children or siblings.

func init() {
	run.Register(&run.Check{
		ID: "C15", Title: "Boards inherit from their base and never leak changes back",
		LevelText: "Exploration: for every generated program with nested layers/scenarios/steps (bodies add, modify and null base objects, connections, classes, globs; statements before and after the board blocks) the monitor compiles the program once and, for every board, a derived single-board program built from the inheritance rule, and requires the board's objects and connections to equal the derived program's.",
		Technique: "runtime monitoring: metamorphic oracle board(P, B) = compile(derived(P, B)) through the real compiler",
		DesignRef: "§4 C15",
		Rule:      "cases: gen.BoardProgram (structured AST rendered in the worker); distinct by sha256 of the rendered text; non-trivial when the program compiled, has ≥2 boards besides the root and every derived program compiled",
		Chunk:     16,
		Gen:       genC15,
		Exec:      execC15,
	})
}

type c15In struct {
	Prog []*gen.LStmt `json:"prog"`
}

func genC15(seed int64, tier string, emit func(run.Case)) {
	r := gen.New(seed)
	n := tierN(tier, 1200, 15000)
	for i := 0; i < n; i++ {
		q := r.Sub(i)
		emit(run.MkCase(fmt.Sprintf("c%07d", i), "boards", c15In{Prog: gen.BoardProgram(q, tier == "thorough" && q.P(0.5))}))
	}
}

type c15Board struct {
	kind   string // root | layers | scenarios | steps
	name   string
	body   []*gen.LStmt
	parent *c15Board
	pos    int // index of the declaring block in parent.body
	idx    int // position inside the block
	block  []*c15Board
	kids   []*c15Board
	path   string
	depth  int
}

func c15BoardKind(s *gen.LStmt) string {
	if s.Raw != "" || s.IsEdge() || len(s.Key) != 1 {
		return ""
	}
	switch strings.ToLower(s.Key[0]) {
	case "layers", "scenarios", "steps":
		return strings.ToLower(s.Key[0])
	}
	return ""
}

func c15Tree(b *c15Board, all *[]*c15Board) {
	*all = append(*all, b)
	for p, s := range b.body {
		k := c15BoardKind(s)
		if k == "" {
			continue
		}
		var blk []*c15Board
		for _, bs := range s.Body {
			if bs.Raw != "" || len(bs.Key) != 1 {
				continue
			}
			c := &c15Board{kind: k, name: bs.Key[0], body: bs.Body, parent: b, pos: p, idx: len(blk), path: b.path + "." + k + "." + bs.Key[0], depth: b.depth + 1}
			blk = append(blk, c)
		}
		for _, c := range blk {
			c.block = blk
			b.kids = append(b.kids, c)
			c15Tree(c, all)
		}
	}
}

func c15Strip(stmts []*gen.LStmt) []*gen.LStmt {
	var out []*gen.LStmt
	for _, s := range stmts {
		if c15BoardKind(s) == "" {
			out = append(out, s)
		}
	}
	return out
}

func c15IsTriple(s *gen.LStmt) bool {
	return s.Raw == "" && !s.IsEdge() && len(s.Key) > 0 && s.Key[0] == "***"
}

func c15Head(s *gen.LStmt, h string) bool {
	return s.Raw == "" && !s.IsEdge() && len(s.Key) == 1 && strings.EqualFold(s.Key[0], h)
}

// prefix: what board b holds at its root just before statement index p of its body.
func c15Prefix(b *c15Board, p int) []*gen.LStmt {
	return append(c15Inherited(b), c15Strip(b.body[:p])...)
}

func c15Full(b *c15Board) []*gen.LStmt {
	return append(c15Inherited(b), c15Strip(b.body)...)
}

// c15After: board-wide globs that an enclosing board declares *after* the block that holds b
// reach b's content as it exists at that point (C12: *** also acts through nested boards).
func c15After(b *c15Board) []*gen.LStmt {
	if b.parent == nil {
		return nil
	}
	var out []*gen.LStmt
	for _, s := range c15Strip(b.parent.body[b.pos+1:]) {
		if c15IsTriple(s) {
			out = append(out, s)
		}
	}
	return append(out, c15After(b.parent)...)
}

// c15Derived is D(b).
func c15Derived(b *c15Board) []*gen.LStmt {
	return append(c15Full(b), c15After(b)...)
}

func c15Inherited(b *c15Board) []*gen.LStmt {
	switch b.kind {
	case "scenarios":
		return c15Prefix(b.parent, b.pos)
	case "steps":
		out := c15Prefix(b.parent, b.pos)
		for _, s := range b.block[:b.idx] {
			out = append(out, c15Strip(s.body)...)
		}
		return out
	case "layers":
		var out []*gen.LStmt
		for _, s := range c15Full(b.parent) {
			if c15Head(s, "classes") || c15Head(s, "vars") {
				out = append(out, s)
			}
		}
		for _, s := range c15Prefix(b.parent, b.pos) {
			if c15IsTriple(s) {
				out = append(out, s)
			}
		}
		return out
	}
	return nil
}

// c15StepAfterGlobStep: b (or a board it inherits from) is a step whose earlier sibling steps
// declare a glob at their root.
func c15StepAfterGlobStep(b *c15Board) bool {
	for q := b; q != nil && q.parent != nil; q = q.parent {
		if q.kind == "steps" {
			for _, s := range q.block[:q.idx] {
				for _, st := range c15Strip(s.body) {
					if st.Tag == "glob" {
						return true
					}
				}
			}
		}
	}
	return false
}

// c15Content projects objects and connections of one board only.
func c15Content(g *d2graph.Graph) string {
	b := proj.Graph(g, proj.Opts{}).Sorted()
	b.Name, b.IsFolderOnly, b.RootAttrs = "", false, nil
	b.Layers, b.Scenarios, b.Steps = nil, nil, nil
	return b.String()
}

type c15Verdict struct {
	clause, detail, vacuous string
	board                   *c15Board
	nBoards, maxDepth       int
	unjudgedBoards          int
	dupGlob                 bool // the derived program of the differing board repeats a glob declaration verbatim
	feat                    map[string]int
	text                    string
}

func c15Features(stmts []*gen.LStmt, f map[string]int, inBoard string) {
	for _, s := range stmts {
		switch {
		case s.Raw != "":
		case c15BoardKind(s) != "":
			k := c15BoardKind(s)
			f["block_"+k]++
			if inBoard != "" {
				f["nested_"+k+"_in_"+inBoard]++
			}
			for _, b := range s.Body {
				c15Features(b.Body, f, k)
			}
			continue
		case c15IsTriple(s):
			f["glob_triple"]++
			if len(s.Key) == 1 && s.Val != nil {
				f["glob_sets_primary"]++
			}
			if inBoard != "" {
				f["glob_in_board"]++
			}
		case s.Tag == "glob" && s.IsEdge():
			f["glob_connection"]++
			if inBoard != "" {
				f["glob_in_board"]++
			}
		case s.Tag == "glob":
			if len(s.Key) == 1 && s.Val != nil {
				f["glob_sets_primary"]++
			}
			if len(s.Key) > 0 && s.Key[0] == "**" {
				f["glob_double"]++
			} else {
				f["glob_single"]++
			}
			if inBoard != "" {
				f["glob_in_board"]++
			}
		case c15Head(s, "classes"):
			f["classes_block"]++
			if inBoard != "" {
				f["classes_redefined_in_board"]++
			}
		case c15Head(s, "vars"):
		case s.Val != nil && s.Val.Null && s.IsEdge():
			f["connection_nulled"]++
		case s.Val != nil && s.Val.Null:
			f["object_nulled"]++
		case s.IsEdge() && s.Idx != "":
			f["connection_modified_by_index"]++
		case s.IsEdge():
			f["connection"]++
		case len(s.Key) > 0 && s.Key[len(s.Key)-1] == "class":
			f["class_applied"]++
		}
		if s.Val != nil {
			for _, p := range s.Val.Parts {
				if p.Sub != nil {
					f["substitution"]++
				}
			}
		}
		c15Features(s.Body, f, inBoard)
	}
}

func c15Judge(prog []*gen.LStmt) (v c15Verdict) {
	root := &c15Board{kind: "root", name: "root", body: prog, path: "root"}
	var all []*c15Board
	c15Tree(root, &all)
	v.nBoards = len(all)
	v.feat = map[string]int{}
	c15Features(prog, v.feat, "")
	for _, b := range all {
		if b.depth > v.maxDepth {
			v.maxDepth = b.depth
		}
	}
	v.text = gen.LRender(prog)
	gP, _, errP := compile(v.text)
	boards := map[string]*d2graph.Graph{}
	if errP == nil {
		proj.Walk(gP, func(p string, g *d2graph.Graph) { boards[p] = g })
	}
	derivedOK := 0
	for _, b := range all {
		if c15StepAfterGlobStep(b) {
			// a glob declared in an earlier step's block is lexically closed when the next
			// step begins (C12 scope decision); a flat derived program cannot express that
			v.unjudgedBoards++
			continue
		}
		d := gen.LRender(c15Derived(b))
		gD, _, errD := compile(d)
		if errD != nil {
			if errP == nil {
				if _, ok := boards[b.path]; ok {
					v.clause, v.board = "C15.derived-program-rejected", b
					v.detail = fmt.Sprintf("the program compiles but the single-board program derived for board %s does not: %v\nprogram:\n%s\nderived(%s):\n%s", b.path, errD, v.text, b.path, d)
					return
				}
			}
			continue
		}
		derivedOK++
		if errP != nil {
			continue
		}
		gB, ok := boards[b.path]
		if !ok {
			v.clause, v.board = "C15.board-missing", b
			v.detail = fmt.Sprintf("board %s is not in the compiled graph\nprogram:\n%s", b.path, v.text)
			return
		}
		cB, cD := c15Content(gB), c15Content(gD)
		if cB != cD {
			v.clause, v.board = "C15.board-differs", b
			seen := map[string]bool{}
			for _, st := range c15Derived(b) {
				if st.Tag == "glob" {
					t := gen.LRender([]*gen.LStmt{st})
					if seen[t] {
						v.dupGlob = true
					}
					seen[t] = true
				}
			}
			v.detail = fmt.Sprintf("board %s differs from its derived single-board program\nprogram:\n%s\nderived(%s):\n%s\nboard vs derived: %s", b.path, v.text, b.path, d, proj.Diff(cB, cD))
			return
		}
	}
	if errP != nil {
		if derivedOK == len(all) {
			v.clause, v.board = "C15.board-program-rejected", root
			v.detail = fmt.Sprintf("every derived single-board program compiles but the program fails: %v\nprogram:\n%s", errP, v.text)
			return
		}
		v.vacuous = "vacuous_program_rejected:" + c12ErrClass(c14StripPos(errP.Error()))
	}
	return
}

// c15Class names the trigger of a disagreement from the features of the shrunk witness; most
// specific first. "" = no named trigger (the signature then lists the features).
func c15Class(v c15Verdict) string {
	f, k := v.feat, v.board.kind
	glob := f["glob_single"]+f["glob_double"]+f["glob_triple"]+f["glob_connection"] > 0
	steps := f["block_steps"]+f["nested_steps_in_layers"]+f["nested_steps_in_scenarios"]+f["nested_steps_in_steps"] > 0
	belowLayer := f["nested_steps_in_layers"]+f["nested_scenarios_in_layers"] > 0
	switch {
	case v.dupGlob:
		// d2 identifies glob declarations of one block by key equality (C12 FL09): the flat
		// derived program repeats a declaration that the board receives once by inheritance and
		// once literally
		return "identical-glob-declaration-repeated-in-derived-program"
	case f["object_nulled"] > 0 && glob:
		return "glob-and-null-in-inherited-content"
	case f["glob_double"] > 0 && (f["substitution"] > 0 || f["class_applied"] > 0):
		return "double-glob-decorates-vars-or-classes"
	case steps && f["glob_single"]+f["glob_double"]+f["glob_connection"] > 0:
		return "step-shares-glob-applied-set-with-base"
	case f["glob_triple"] > 0 && f["glob_sets_primary"] >= 2 && (k == "scenarios" || k == "steps"):
		// two globs set the primary; the later one is declared in the inheriting board
		return "triple-primary-glob-reapplied-over-later-glob-value-in-" + k
	case f["glob_triple"] > 0 && f["glob_sets_primary"] == 0 && (k == "scenarios" || k == "steps"):
		// (a glob that sets the object's primary is protected by ignoreLazyGlob; only attribute
		// globs are known to be re-applied over explicit values)
		return "triple-glob-reapplied-over-explicit-value-in-" + k
	case (k == "steps" || k == "scenarios") && belowLayer && f["class_applied"] > 0 && !glob:
		return "classes-do-not-reach-board-nested-in-layer"
	}
	return ""
}

func c15Sig(v c15Verdict) string {
	var ks []string
	for k := range v.feat {
		if k == "connection" || k == "block_"+v.board.kind {
			continue
		}
		ks = append(ks, k)
	}
	sort.Strings(ks)
	s := fmt.Sprintf("%s:%s:%s", v.clause, v.board.kind, strings.Join(ks, "+"))
	if c := c15Class(v); c != "" {
		s = v.clause + ":" + c
	}
	if v.clause == "C15.board-program-rejected" || v.clause == "C15.derived-program-rejected" {
		i := strings.Index(v.detail, ": x.d2:")
		if i >= 0 {
			s += ":" + c12ErrClass(c14StripPos(v.detail[i+2:]))
		}
	}
	return s
}

func execC15(c run.Case) (res run.Result) {
	var in c15In
	c.Decode(&in)
	v := c15Judge(in.Prog)
	res.Digest = v.text
	res.Sample = map[string]any{"text": trunc(v.text, 600)}
	for k, n := range v.feat {
		res.Add("feat_"+k, n)
	}
	res.Add("boards", v.nBoards)
	res.Add("unjudged_step_after_step_with_glob", v.unjudgedBoards)
	res.Inc(fmt.Sprintf("board_depth_%d", v.maxDepth))
	if v.vacuous != "" {
		res.Inc(v.vacuous)
		return
	}
	if v.clause != "" {
		kind := v.board.kind
		small := gen.LShrink(in.Prog, func(p []*gen.LStmt) bool {
			w := c15Judge(p)
			return w.clause == v.clause && w.board.kind == kind
		}, 150)
		if w := c15Judge(small); w.clause == v.clause && w.board.kind == kind {
			w.detail = "(shrunk) " + w.detail
			res.Viol(v.clause, c15Sig(w), w.detail)
		} else {
			res.Viol(v.clause, c15Sig(v), v.detail)
		}
		return
	}
	res.Inc("judged")
	res.Add("boards_judged", v.nBoards-v.unjudgedBoards)
	res.Nontrivial = v.nBoards >= 3
	return
}
