package mon

// C35 — board links resolve to existing boards and are rewritten to the right files.
//
// Workload: board trees (generator of c34.go, benign names incl. dotted / unicode ones)
// whose boards declare uniquely labelled shapes carrying links of the forms
//
//	abs      root.layers.a.layers.b          rel   layers.b.steps.c   (below the own board)
//	up       _  _.layers.y  _._.scenarios.z   (one `_` = one board up)
//	self     a link that names the own board  missing  a board that does not exist
//	url      https://…, /path, mailto:…       (not board links)
//
// on top-level and nested (`c.d`) shapes, in inline boards and in boards whose body is an
// imported file (`name: @file` and `name: {...@file}`; inside the file `root` and `_` are
// written relative to the file, i.e. exactly as if the body stood inline).
//
// Oracle, compile-level clause (in-process d2compiler.Compile on the same files):
//   - generic: every obj.Link that survives on any board and is not a URL parses as a key
//     path that starts with `root`, walks the board tree of the reference model (kind/name
//     pairs) to an existing board, and that board is not the object's own board;
//   - exact: for each generated link the reference resolver (c35Resolve: independent of d2,
//     works on the model tree) says "dropped" or an absolute path: the compiled link must be
//     nil resp. that path; links in imported files resolve as if the body stood inline at the
//     importing board (= rebased onto the importing board).
//
// CLI clause (real bin/d2 into the C34 sandbox): every written board file is attributed to a
// board by the set of board markers it shows (marker sets come from the compiled graphs, so
// inheritance is d2's own); for each exactly-judged surviving link the `<a href>` that wraps
// the shape in the file of its board must equal filepath.Rel(dir(own file), file of the target
// board); dropped links must have no `<a>`; every other relative href of a linked shape must
// resolve to a written board file.

import (
	"encoding/base64"
	"encoding/xml"
	"fmt"
	"os"
	"path/filepath"
	"regexp"
	"sort"
	"strings"

	"verif/gen"
	"verif/run"

	"oss.terrastruct.com/d2/d2compiler"
	"oss.terrastruct.com/d2/d2graph"
	"oss.terrastruct.com/d2/d2parser"
)

func init() {
	run.Register(&run.Check{
		ID: "C35", Title: "Board links resolve to existing boards and are rewritten to the right files",
		LevelText:     "Exploration: generated board trees with relative, absolute, underscore, self, missing and URL links on top-level and nested shapes, in inline and imported (value and spread import) boards; compiled in-process and rendered by the real d2 binary into a sandbox; an independent resolver over the generator's board tree decides the expected absolute link (or that it must be dropped), and the hrefs in the written SVG files are compared with filepath.Rel between the files that actually hold the two boards.",
		Technique:     "runtime monitoring: independent link resolver + generic link invariant on compiled boards + href check on the files the CLI wrote",
		DesignRef:     "§4 C35",
		Rule:          "cases: board trees with 1–3 link shapes on most boards, 40% with imported board bodies; distinct by sha256 of the tree; non-trivial when the compiled board tree equals the model tree, ≥1 board link was judged exactly and the CLI wrote the board files",
		Needs:         []string{"d2"},
		Custom:        func(d *run.Driver) { c34Custom(d, "C35") },
		Exec:          func(c run.Case) run.Result { return c34Exec(c, "C35", "") },
		MinNontrivial: 20,
	})
}

func c35QuoteValue(s string) string {
	plain := s != ""
	for _, r := range s {
		if !(r >= 'a' && r <= 'z' || r >= 'A' && r <= 'Z' || r >= '0' && r <= '9' || r == '_' || r == '.' || r == '/' || r == ':' || r == '-') {
			plain = false
		}
	}
	if plain {
		return s
	}
	r := strings.NewReplacer(`\`, `\\`, `"`, `\"`)
	return `"` + r.Replace(s) + `"`
}

type c35BoardRef struct {
	b    *c34Board
	path []string // root, kind, name, …
}

func c35Boards(t *c34Tree) []c35BoardRef {
	var out []c35BoardRef
	t.Root.walk([]string{"root"}, func(b *c34Board, p []string) { out = append(out, c35BoardRef{b, p}) })
	return out
}

func c35HasPrefix(p, pre []string) bool {
	if len(pre) > len(p) {
		return false
	}
	for i := range pre {
		if p[i] != pre[i] {
			return false
		}
	}
	return true
}

// c35AddLinks decorates the tree with imports and link-bearing shapes.
func c35AddLinks(q *gen.R, t *c34Tree, imports bool) {
	boards := c35Boards(t)
	if imports {
		k := 0
		for _, br := range boards[1:] {
			if q.P(0.35) && k < 3 {
				k++
				br.b.Import = q.Str("value", "spread")
				br.b.ImpFile = fmt.Sprintf("imp%d", k)
			}
		}
	}
	fileRoot := func(br c35BoardRef) []string {
		best := []string{"root"}
		for _, o := range boards {
			if o.b.Import != "" && c35HasPrefix(br.path, o.path) && len(o.path) > len(best) {
				best = o.path
			}
		}
		return best
	}
	n := 0
	for _, br := range boards {
		if !q.P(0.8) {
			continue
		}
		fr := fileRoot(br)
		for k := q.Range(1, 3); k > 0; k-- {
			n++
			l := c34Link{Label: fmt.Sprintf("LK%dX", n), Key: fmt.Sprintf("l%d", n)}
			if q.P(0.25) {
				l.Key = fmt.Sprintf("c%d.d%d", n, n)
			}
			depth := (len(br.path) - 1) / 2
			switch q.Weighted(3, 3, 4, 1, 2, 1) {
			case 0: // abs (within the file)
				var cands []c35BoardRef
				for _, o := range boards {
					if c35HasPrefix(o.path, fr) {
						cands = append(cands, o)
					}
				}
				tg := gen.Pick(q, cands)
				l.Kind = "abs"
				l.Text = c34PathKey(append([]string{"root"}, tg.path[len(fr):]...))
			case 1: // rel
				var cands []c35BoardRef
				for _, o := range boards {
					if c35HasPrefix(o.path, br.path) && len(o.path) > len(br.path) {
						cands = append(cands, o)
					}
				}
				if len(cands) == 0 {
					l.Kind = "missing"
					l.Text = "layers.nope" + fmt.Sprint(n)
					break
				}
				tg := gen.Pick(q, cands)
				l.Kind = "rel"
				l.Text = c34PathKey(tg.path[len(br.path):])
			case 2: // up
				up := q.Range(1, depth+1)
				if q.P(0.8) && depth > 0 {
					up = q.Range(1, depth)
				}
				l.Kind = "up"
				us := strings.TrimSuffix(strings.Repeat("_.", up), ".")
				if up > depth {
					l.Text = us + ".layers.a"
					if q.P(0.5) {
						l.Text = us
					}
					break
				}
				anc := br.path[:len(br.path)-2*up]
				var cands []c35BoardRef
				for _, o := range boards {
					if c35HasPrefix(o.path, anc) {
						cands = append(cands, o)
					}
				}
				tg := gen.Pick(q, cands)
				if len(tg.path) == len(anc) {
					l.Text = us
				} else {
					l.Text = us + "." + c34PathKey(tg.path[len(anc):])
				}
			case 3: // self
				l.Kind = "self"
				if depth > 0 && len(br.path) > len(fr) && q.P(0.5) {
					l.Text = "_." + c34PathKey(br.path[len(br.path)-2:])
				} else if len(br.path) >= len(fr) {
					l.Text = c34PathKey(append([]string{"root"}, br.path[len(fr):]...))
				}
			case 4: // missing
				l.Kind = "missing"
				l.Text = q.Str("layers.nope", "root.layers.nope", "_.steps.nope", "scenarios.nope.layers.x", "layers")
			default:
				l.Kind = "url"
				l.URL = true
				l.Text = q.Str("https://example.com/a?b=1", "/docs/page", "mailto:a@b.c", "http://d2lang.com")
			}
			if l.Text == "" {
				continue
			}
			if !l.URL {
				l.Expect = c35Resolve(t, br.path, fr, l.Text)
			}
			br.b.Links = append(br.b.Links, l)
		}
	}
}

// c35SplitKey splits a link text written by c34PathKey / this generator into elements
// (independent of d2parser: handles the two quote styles c34Quote produces).
func c35SplitKey(s string) ([]string, bool) {
	var out []string
	i := 0
	for i <= len(s) {
		if i == len(s) {
			return nil, false
		}
		var el strings.Builder
		switch s[i] {
		case '\'':
			j := strings.IndexByte(s[i+1:], '\'')
			if j < 0 {
				return nil, false
			}
			el.WriteString(s[i+1 : i+1+j])
			i += j + 2
		case '"':
			i++
			for i < len(s) && s[i] != '"' {
				if s[i] == '\\' && i+1 < len(s) {
					i++
					if s[i] == 'n' {
						el.WriteByte('\n')
						i++
						continue
					}
				}
				el.WriteByte(s[i])
				i++
			}
			if i >= len(s) {
				return nil, false
			}
			i++
		default:
			j := i
			for j < len(s) && s[j] != '.' {
				j++
			}
			el.WriteString(s[i:j])
			i = j
		}
		out = append(out, el.String())
		if i == len(s) {
			return out, true
		}
		if s[i] != '.' {
			return nil, false
		}
		i++
	}
	return out, true
}

// c35Resolve is the reference resolver. own = path of the declaring board, fr = path of the
// file root (the importing board, or [root]). It returns the absolute path of the board the
// link names, or nil when the link must be dropped (missing board, own board, above root).
func c35Resolve(t *c34Tree, own, fr []string, text string) []string {
	el, ok := c35SplitKey(text)
	if !ok || len(el) == 0 {
		return nil
	}
	var abs []string
	switch {
	case el[0] == "root":
		abs = append(append([]string{}, fr...), el[1:]...)
	case el[0] == "_":
		cur := append([]string{}, own...)
		for len(el) > 0 && el[0] == "_" {
			if len(cur) < 3 {
				return nil // above the root board
			}
			cur = cur[:len(cur)-2]
			el = el[1:]
		}
		abs = append(cur, el...)
	case el[0] == "layers" || el[0] == "scenarios" || el[0] == "steps":
		abs = append(append([]string{}, own...), el...)
	default:
		return nil
	}
	if !c35Exists(t, abs) {
		return nil
	}
	if strings.Join(abs, "\x00") == strings.Join(own, "\x00") {
		return nil
	}
	return abs
}

func c35Exists(t *c34Tree, abs []string) bool {
	if len(abs) == 0 || abs[0] != "root" || len(abs)%2 != 1 {
		return false
	}
	cur := t.Root
	for i := 1; i+1 < len(abs); i += 2 {
		var next *c34Board
		for _, k := range cur.kids() {
			if k.Kind == abs[i] && k.Name == abs[i+1] {
				next = k
			}
		}
		if next == nil {
			return false
		}
		cur = next
	}
	return true
}

func c35IsURL(v string) bool {
	return strings.Contains(v, "://") || strings.HasPrefix(v, "/") || strings.HasPrefix(v, "mailto:")
}

var (
	c35ReMarker = regexp.MustCompile(`MK[0-9]+X`)
	c35ReHref   = regexp.MustCompile(`<a href="([^"]*)" xlink:href="[^"]*"><g class="([A-Za-z0-9_=\-]+)[" ]`)
)

func c35XMLEscape(s string) string {
	var sb strings.Builder
	xml.EscapeText(&sb, []byte(s))
	return sb.String()
}

func c35XMLUnescape(s string) string {
	r := strings.NewReplacer("&amp;", "&", "&lt;", "<", "&gt;", ">", "&#39;", "'", "&#34;", `"`, "&#x9;", "\t", "&#xA;", "\n", "&#xD;", "\r")
	return r.Replace(s)
}

func c35Exec(in *c34In, d2bin string) (res run.Result) {
	t := in.Tree
	res.Inc("src_" + in.Src)
	sb, err := c34MakeSandbox(t)
	if err != nil {
		res.Inconclusive = "sandbox: " + err.Error()
		return
	}
	defer sb.Close()

	// ---- compile-level clause
	inDir := filepath.Dir(sb.In)
	g, _, cerr := d2compiler.Compile("in.d2", strings.NewReader(t.Text), &d2compiler.CompileOptions{FS: os.DirFS(inDir)})
	if cerr != nil {
		res.Inc("vacuous_compile_error")
		res.Sample = map[string]any{"compile_error": trunc(cerr.Error(), 300), "text": trunc(t.Text, 400)}
		return
	}
	type cb struct {
		g    *d2graph.Graph
		path []string
	}
	compiled := map[string]cb{}
	var walkG func(g *d2graph.Graph, path []string)
	walkG = func(g *d2graph.Graph, path []string) {
		compiled[strings.Join(path, "\x00")] = cb{g, path}
		for _, c := range g.Layers {
			walkG(c, append(append([]string{}, path...), "layers", c.Name))
		}
		for _, c := range g.Scenarios {
			walkG(c, append(append([]string{}, path...), "scenarios", c.Name))
		}
		for _, c := range g.Steps {
			walkG(c, append(append([]string{}, path...), "steps", c.Name))
		}
	}
	walkG(g, []string{"root"})
	boards := c35Boards(t)
	same := len(compiled) == len(boards)
	for _, br := range boards {
		if _, ok := compiled[strings.Join(br.path, "\x00")]; !ok {
			same = false
		}
	}
	if !same {
		res.Inc("vacuous_model_tree_differs_from_compiled_tree")
		var got []string
		for k := range compiled {
			got = append(got, strings.ReplaceAll(k, "\x00", "."))
		}
		sort.Strings(got)
		res.Sample = map[string]any{"model_mismatch": got, "names": c34Names(t)}
		return
	}
	res.Add("boards", len(boards))

	// generic clause
	for _, c := range compiled {
		for _, obj := range c.g.Objects {
			if obj.Link == nil {
				continue
			}
			v := obj.Link.Value
			if c35IsURL(v) {
				res.Inc("url_links_left_alone")
				continue
			}
			res.Inc("generic_links_judged")
			where := fmt.Sprintf("object %q on board %s has link %q", obj.AbsID(), strings.Join(c.path, "."), v)
			k, err := d2parser.ParseKey(v)
			if err != nil {
				res.Viol("C35.stored-link", "C35.stored-link:not-a-key-path", where+": does not parse as a key path: "+err.Error())
				continue
			}
			el := k.StringIDA()
			if len(el) == 0 || el[0] != "root" {
				res.Viol("C35.stored-link", "C35.stored-link:not-absolute", where+": surviving board link is not absolute (does not start with root)")
				continue
			}
			if !c35Exists(t, el) {
				res.Viol("C35.stored-link", "C35.stored-link:names-missing-board", where+": no such board in the tree")
				continue
			}
			if strings.Join(el, "\x00") == strings.Join(c.path, "\x00") {
				sig := "C35.stored-link:self-link-kept"
				if len(c.path) >= 5 {
					sig += ":nested-board"
				}
				res.Viol("C35.stored-link", sig, where+": a link to the object's own board must be dropped")
			}
		}
	}

	// exact clause
	type judged struct {
		br   c35BoardRef
		l    c34Link
		obj  *d2graph.Object
		live bool
	}
	var exact []judged
	for _, br := range boards {
		c := compiled[strings.Join(br.path, "\x00")]
		for _, l := range br.b.Links {
			var obj *d2graph.Object
			for _, o := range c.g.Objects {
				if o.Label.Value == l.Label {
					obj = o
				}
			}
			if obj == nil {
				res.Inc("vacuous_link_shape_not_found")
				continue
			}
			res.Inc("link_kind_" + l.Kind)
			if br.b.Import != "" || len(c35FileRootOf(boards, br)) > 1 {
				res.Inc("links_in_imported_files")
			}
			if l.URL {
				if obj.Link == nil || obj.Link.Value != l.Text {
					res.Inc("url_link_changed")
				}
				continue
			}
			res.Inc("exact_links_judged")
			imp := ""
			if len(c35FileRootOf(boards, br)) > 1 {
				imp = ":imported"
			}
			where := fmt.Sprintf("link %q (%s) declared on %s of board %s", l.Text, l.Kind, l.Key, strings.Join(br.path, "."))
			switch {
			case l.Expect == nil && obj.Link != nil:
				// already reported by the generic clause when it is a self/missing link;
				// otherwise it resolved somewhere the reference says it must not
				k, err := d2parser.ParseKey(obj.Link.Value)
				if err == nil && c35Exists(t, k.StringIDA()) && strings.Join(k.StringIDA(), "\x00") != strings.Join(br.path, "\x00") {
					res.Viol("C35.resolution", "C35.resolution:kept-but-reference-drops:"+l.Kind+imp, where+fmt.Sprintf(": compiled to %q but the reference resolver finds no such board / the own board", obj.Link.Value))
				}
			case l.Expect != nil && obj.Link == nil:
				res.Viol("C35.resolution", "C35.resolution:dropped-but-board-exists:"+l.Kind+imp, where+fmt.Sprintf(": link was dropped, reference resolves it to %s", strings.Join(l.Expect, ".")))
			case l.Expect != nil:
				k, err := d2parser.ParseKey(obj.Link.Value)
				if err != nil || strings.Join(k.StringIDA(), "\x00") != strings.Join(l.Expect, "\x00") {
					res.Viol("C35.resolution", "C35.resolution:wrong-board:"+l.Kind+imp, where+fmt.Sprintf(": compiled to %q, reference resolves it to %s", obj.Link.Value, strings.Join(l.Expect, ".")))
				} else {
					exact = append(exact, judged{br, l, obj, true})
				}
			default:
				exact = append(exact, judged{br, l, obj, false})
			}
		}
	}

	// ---- CLI clause
	before, _ := c34Snapshot(sb.Root)
	ro := c34RunD2(d2bin, sb)
	if ro.Timeout {
		res.Inconclusive = "d2 did not finish within 600 s"
		return
	}
	if ro.Exit != 0 {
		res.Inc("vacuous_cli_failed")
		res.Sample = map[string]any{"cli_error": trunc(ro.Output, 300)}
		res.Nontrivial = false
		return
	}
	after, _ := c34Snapshot(sb.Root)
	var files []string
	pre := filepath.Join(sb.OutRel, "x") + "/"
	for p, v := range after {
		if v[0] == 'f' && strings.HasPrefix(p, pre) && strings.HasSuffix(p, ".svg") && before[p] != v {
			files = append(files, p)
		}
	}
	sort.Strings(files)
	// attribute files to boards by marker sets
	setOf := func(ms []string) string {
		sort.Strings(ms)
		var u []string
		for i, m := range ms {
			if i == 0 || ms[i-1] != m {
				u = append(u, m)
			}
		}
		return strings.Join(u, ",")
	}
	boardOfSet := map[string]string{}
	for key, c := range compiled {
		var ms []string
		for _, o := range c.g.Objects {
			if c35ReMarker.MatchString(o.Label.Value) {
				ms = append(ms, o.Label.Value)
			}
		}
		boardOfSet[setOf(ms)] = key
	}
	fileOf := map[string]string{}
	content := map[string]string{}
	for _, f := range files {
		b, _ := os.ReadFile(filepath.Join(sb.Root, f))
		content[f] = string(b)
		if key, ok := boardOfSet[setOf(c35ReMarker.FindAllString(string(b), -1))]; ok {
			if _, dup := fileOf[key]; dup {
				res.Inc("vacuous_two_files_for_one_board")
			}
			fileOf[key] = f
		} else {
			res.Inc("files_not_attributable")
		}
	}
	res.Add("board_files_written", len(files))
	hrefsOf := func(f string) map[string]string {
		m := map[string]string{}
		for _, sm := range c35ReHref.FindAllStringSubmatch(content[f], -1) {
			m[sm[2]] = c35XMLUnescape(sm[1])
		}
		return m
	}
	nHref := 0
	for _, j := range exact {
		own, ok := fileOf[strings.Join(j.br.path, "\x00")]
		if !ok {
			res.Inc("vacuous_own_board_file_unknown")
			continue
		}
		cls := base64.URLEncoding.EncodeToString([]byte(c35XMLEscape(j.obj.AbsID())))
		href, has := hrefsOf(own)[cls]
		where := fmt.Sprintf("shape %s (link %q → %s) in %s", j.obj.AbsID(), j.l.Text, strings.Join(j.l.Expect, "."), own)
		if !j.live {
			res.Inc("href_absent_judged")
			if has && !c35IsURL(href) {
				res.Viol("C35.href", "C35.href:dropped-link-has-href", where+fmt.Sprintf(": link must be dropped but the SVG has href %q", href))
			}
			continue
		}
		tf, ok := fileOf[strings.Join(j.l.Expect, "\x00")]
		if !ok {
			res.Inc("vacuous_target_board_file_unknown")
			continue
		}
		want, _ := filepath.Rel(filepath.Dir(own), tf)
		res.Inc("href_judged")
		nHref++
		trig := "plain-stored-link:"
		if strings.ContainsAny(j.obj.Link.Value, `'"`) {
			trig = "quoted-segment:"
		}
		if !has {
			res.Viol("C35.href", "C35.href:"+trig+"missing", where+fmt.Sprintf(": no <a href> around the shape; expected %q", want))
		} else if href != want {
			res.Viol("C35.href", "C35.href:"+trig+"wrong-relative-path", where+fmt.Sprintf(": href %q, expected %q (target file %s)", href, want, tf))
		}
	}
	// every other relative href must hit a written board file
	for _, f := range files {
		for _, h := range hrefsOf(f) {
			if c35IsURL(h) {
				continue
			}
			res.Inc("href_resolution_judged")
			p := filepath.Join(filepath.Dir(f), h)
			if v, ok := after[p]; !ok || v[0] != 'f' {
				trig := "plain:"
				if strings.HasPrefix(h, "root.") && strings.ContainsAny(h, `'"`) {
					trig = "quoted-segment:"
				} else if strings.HasPrefix(h, "root.") {
					trig = "unrewritten-link:"
				}
				res.Viol("C35.href", "C35.href:"+trig+"dangling", fmt.Sprintf("file %s has href %q which resolves to %s: no such board file was written", f, h, p))
			}
		}
	}
	res.Nontrivial = res.Feat["exact_links_judged"] > 0 && len(files) > 0
	res.Sample = map[string]any{"boards": len(boards), "links": res.Feat["exact_links_judged"], "hrefs_judged": nHref, "files": len(files), "names": c34Head(c34Names(t), 6)}
	return
}

func c35FileRootOf(boards []c35BoardRef, br c35BoardRef) []string {
	best := []string{"root"}
	for _, o := range boards {
		if o.b.Import != "" && c35HasPrefix(br.path, o.path) && len(o.path) > len(best) {
			best = o.path
		}
	}
	return best
}
