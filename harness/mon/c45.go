package mon

// C45 — watch server shutdown waits for every client handler and admits none afterwards.
//
// Workload: rounds against the REAL watcher (same construction as C44). Each round:
// start the watcher, let N ∈ 0..8 clients of several kinds dial at planned logical points
// (before shutdown / released together with shutdown / after shutdown has begun), then
// shut down, either by calling close() directly (the hostile route: handlers still
// arriving) or by cancelling the context the way a signal does. Failpoints stretch the
// windows hw-enter → closing check, admit → websocket.Accept, Accept → registration and
// closing=true → cancel; one scenario gates admitted handlers before Accept across close().
// A quarter of the rounds run with event tracing OFF so that the log mutex cannot order
// the goroutines and hide a data race from the detector.
//
// Oracle (on events and state, never on time):
//   - log order (admit and close-begin are both emitted inside wsclientsMu, so log order is
//     lock order): no admit after close-begin;
//   - at close-wg-done: #admit == #handler-exit (handler-exit is logged before
//     wsclientsWG.Done);
//   - boundary, independent of hooks: a websocket dial that *starts* after shutdown has
//     begun (close-begin observed, or close() returned in untraced rounds) must not be upgraded;
//   - after shutdown every upgraded client's connection is closed by the server;
//   - goroutine profile after shutdown has no handleWatch / writeLoop / wsHeartbeat frame
//     (polled over a bounded number of yields; still present => inconclusive);
//   - a crash of the worker is a violation; race reports are violations (substrate).
//
// Legitimate: a client whose handler passed the closing check before close-begin is
// admitted and served until its context is cancelled; close() waits for it. A dial that
// started before close-begin may be upgraded, rejected with 503, or refused.

import (
	"bufio"
	"context"
	"encoding/json"
	"fmt"
	"net"
	"net/http"
	"os"
	"runtime"
	"sort"
	"strings"
	"sync"
	"time"

	"verif/gen"
	"verif/run"

	"oss.terrastruct.com/d2/d2cli"
)

func init() {
	run.Register(&run.Check{
		ID: "C45", Title: "Watch server shutdown waits for every client and admits none afterwards",
		LevelText: "Exploration: seeded shutdown rounds (0–8 clients: websocket, aborted upgrade, partial request, bad upgrade, silent peer; dialling before / together with / after shutdown; failpoint sleeps, yields and one gate scenario in the admit→Accept window; shutdown by close() or by context cancellation) against the real watcher under the race detector; interleavings seen are counted.",
		Technique: "runtime monitoring: online event-count monitor (admit/exit/close order) + client-side admission oracle + goroutine profile + race detector + crash isolation",
		DesignRef: "§4 C45, §2.3",
		Rule:      "one case = one shutdown round; non-trivial when ≥1 client handler was admitted (traced rounds: and close-begin/close-wg-done were observed); distinct by plan",
		Race:      true, PanicIsViolation: true, Chunk: 8, CPUBudget: 900, WallBudget: 1800, MinNontrivial: 20,
		Gen: genC45, Exec: execC45, Post: postC45,
		Assumptions: []string{
			"'shutdown has begun' is the anchor state closing=true (event close-begin, emitted inside wsclientsMu)",
			"untraced rounds (a quarter) rely on the race detector, the client-side admission oracle and the goroutine profile only",
			"goroutine-profile leak check: frames still present after the polling bound make the round inconclusive, not violated",
		},
	})
}

type c45Client struct {
	Kind    string `json:"kind"`  // ws | raw-abort | raw-partial | bad-upgrade | silent
	Phase   string `json:"phase"` // before | race | after
	DelayUs int    `json:"delay_us,omitempty"`
	Leave   string `json:"leave,omitempty"` // before-clients: close | abort before shutdown
}

type c45Plan struct {
	Init       string                       `json:"init"`
	Clients    []c45Client                  `json:"clients"`
	Points     map[string]d2cli.VerifAction `json:"points,omitempty"`
	Route      string                       `json:"route"` // close | cancel
	Trace      bool                         `json:"trace"`
	Gate       bool                         `json:"gate,omitempty"`
	CloseDelay int                          `json:"close_delay_us,omitempty"`
	WaitFirst  bool                         `json:"wait_first,omitempty"` // before-clients receive the first result before shutdown
	SilentStay bool                         `json:"silent_stay,omitempty"`
}

func genC45(seed int64, tier string, emit func(run.Case)) {
	r := gen.New(seed)
	n := tierN(tier, 200, 6000)
	for i := 0; i < n; i++ {
		q := r.Sub(i)
		p := c45Plan{Init: "err", Route: "close", Trace: i%4 != 3, Points: map[string]d2cli.VerifAction{}}
		if q.P(0.04) {
			p.Init = "ok"
		}
		if q.P(0.25) {
			p.Route = "cancel"
		}
		p.Gate = p.Trace && p.Route == "close" && q.P(0.25)
		p.WaitFirst = q.P(0.4)
		p.CloseDelay = []int{0, 100, 500, 1000, 3000, 8000}[q.Intn(6)]
		for _, name := range []string{"hw-enter", "hw-admitted", "hw-before-register", "close-after-flag", "wl-before-select"} {
			if name == "hw-admitted" && p.Gate {
				continue
			}
			if q.P(0.4) {
				a := d2cli.VerifAction{Kind: "sleep", Ms: []int{1, 2, 5, 10}[q.Intn(4)], Every: 1 + q.Intn(2)}
				if q.P(0.3) {
					a = d2cli.VerifAction{Kind: "yield", Ms: 1 + q.Intn(4)}
				}
				p.Points[name] = a
			}
		}
		nc := 1 + q.Intn(8)
		if q.P(0.05) {
			nc = 0
		}
		silent := 0
		for c := 0; c < nc; c++ {
			cl := c45Client{Kind: "ws", Phase: []string{"before", "race", "race", "after"}[q.Intn(4)], DelayUs: []int{0, 0, 0, 20, 100, 500}[q.Intn(6)]}
			switch x := q.Intn(100); {
			case x < 62:
			case x < 72:
				cl.Kind = "raw-abort"
			case x < 80:
				cl.Kind = "raw-partial"
			case x < 92:
				cl.Kind = "bad-upgrade"
			default:
				if silent == 0 {
					cl.Kind = "silent"
					silent++
				}
			}
			if p.Gate && cl.Phase == "race" && (cl.Kind == "raw-abort" || cl.Kind == "raw-partial") {
				cl.Kind = "ws" // the gate scenario counts arrivals: only kinds that surely reach the handler
			}
			if cl.Phase == "before" && cl.Kind == "ws" && q.P(0.2) {
				cl.Leave = []string{"close", "abort"}[q.Intn(2)]
			}
			p.Clients = append(p.Clients, cl)
		}
		p.SilentStay = silent > 0 && tier == "thorough" && q.P(0.2)
		kind := p.Route
		if !p.Trace {
			kind += "+untraced"
		}
		if p.Gate {
			kind += "+gate"
		}
		emit(run.MkCase(fmt.Sprintf("r%05d", i), kind, p))
	}
}

const c45UpgradeReq = "GET /watch HTTP/1.1\r\nHost: x\r\nConnection: Upgrade\r\nUpgrade: websocket\r\nSec-WebSocket-Version: 13\r\nSec-WebSocket-Key: dGhlIHNhbXBsZSBub25jZQ==\r\n\r\n"

type c45Outcome struct {
	idx      int
	kind     string
	phase    string
	upgraded bool
	status   int
	err      error
	afterCB  bool // dial started after close-begin was observed / close returned
	ws       *c44Client
	raw      net.Conn
}

func c45DialRaw(server, kind string) (out c45Outcome) {
	conn, err := net.DialTimeout("tcp", server, 5*time.Second)
	if err != nil {
		out.err = err
		return
	}
	out.raw = conn
	switch kind {
	case "raw-abort":
		conn.Write([]byte(c45UpgradeReq))
		if tc, ok := conn.(*net.TCPConn); ok {
			tc.SetLinger(0)
		}
		conn.Close()
		out.raw = nil
	case "raw-partial":
		conn.Write([]byte(c45UpgradeReq[:40]))
	case "silent":
		conn.Write([]byte(c45UpgradeReq))
		conn.SetReadDeadline(time.Now().Add(20 * time.Second))
		br := bufio.NewReader(conn)
		resp, err := http.ReadResponse(br, nil)
		if err != nil {
			out.err = err
			return
		}
		out.status = resp.StatusCode
		out.upgraded = resp.StatusCode == 101
		conn.SetReadDeadline(time.Time{})
	}
	return
}

func c45Dial(server string, idx int, cl c45Client) (out c45Outcome) {
	switch cl.Kind {
	case "ws":
		c, status, err := c44Dial(context.Background(), server, idx, nil)
		out = c45Outcome{ws: c, status: status, err: err, upgraded: err == nil}
	case "bad-upgrade":
		hc := &http.Client{Transport: &http.Transport{DisableKeepAlives: true}, Timeout: 30 * time.Second}
		resp, err := hc.Get("http://" + server + "/watch")
		out.err = err
		if resp != nil {
			out.status = resp.StatusCode
			resp.Body.Close()
		}
	default:
		out = c45DialRaw(server, cl.Kind)
	}
	out.idx, out.kind, out.phase = idx, cl.Kind, cl.Phase
	return
}

type c45Obs struct {
	FP string `json:"fp"`
}

func execC45(c run.Case) (res run.Result) {
	var p c45Plan
	c.Decode(&p)
	h, err := c44Start("C45", &res, c44Content(0, p.Init), p.Trace)
	if err != nil {
		res.Inconclusive = "cannot start watcher: " + err.Error()
		return
	}
	for name, a := range p.Points {
		d2cli.VerifSetPoint(name, a)
	}
	h.goRun()
	server := h.vw.Addr()

	var omu sync.Mutex
	var outcomes []c45Outcome
	add := func(o c45Outcome) { omu.Lock(); outcomes = append(outcomes, o); omu.Unlock() }

	// phase "before"
	var wg sync.WaitGroup
	for i, cl := range p.Clients {
		if cl.Phase != "before" {
			continue
		}
		wg.Add(1)
		go func(i int, cl c45Client) {
			defer wg.Done()
			add(c45Dial(server, i, cl))
		}(i, cl)
	}
	wg.Wait()
	if p.WaitFirst {
		// client-side wait: every upgraded websocket client has received the first result
		deadline := time.Now().Add(c44Watchdog)
		for _, o := range outcomes {
			for o.ws != nil && o.upgraded && len(o.ws.received()) == 0 {
				ended := false
				select {
				case <-o.ws.done:
					ended = true
				default:
				}
				if ended || time.Now().After(deadline) {
					h.pump()
					o.ws.mu.Lock()
					rerr := o.ws.readErr
					o.ws.mu.Unlock()
					h.inconclusive(fmt.Sprintf("first result not delivered to client #%d (connection ended: %v, read error: %v; compiles begun %d ended %d, broadcasts %d, compile loop %s)", o.idx, ended, rerr, h.m.compileBegin, h.m.compileEnd, h.m.bcEnd, h.m.clLast))
					break
				}
				time.Sleep(time.Millisecond)
			}
		}
	}
	for _, o := range outcomes {
		if cl := p.Clients[o.idx]; cl.Leave != "" && o.ws != nil && o.upgraded {
			o.ws.disconnect(cl.Leave)
			res.Inc("clients_left_before_shutdown")
		}
	}

	// shutdown + racing clients
	shutdownReturned := make(chan struct{})
	doShutdown := func() {
		if p.Route == "cancel" {
			h.vw.Cancel()
			h.runErr = <-h.runDone
			h.runReturned = true
		} else {
			h.vw.Close()
		}
		close(shutdownReturned)
	}
	var racers []int
	for i, cl := range p.Clients {
		if cl.Phase == "race" {
			racers = append(racers, i)
		}
	}
	gateHeldAtClose := 0
	if p.Gate && len(racers) > 0 && !h.aborted {
		// Hold every racing handler between admit and Accept, begin close(), check that
		// close() is still waiting, release.
		d2cli.VerifSetPoint("hw-admitted", d2cli.VerifAction{Kind: "gate"})
		for _, i := range racers {
			wg.Add(1)
			go func(i int) {
				defer wg.Done()
				add(c45Dial(server, i, p.Clients[i]))
			}(i)
		}
		if h.waitFor("all racing handlers held after admission", func() bool { return h.m.held["hw-admitted"] >= len(racers) }) {
			go doShutdown()
			if h.waitFor("close-begin", func() bool { return h.m.closeBegin > 0 }) {
				// give close() every chance to run ahead: it must still be in wsclientsWG.Wait()
				for i := 0; i < 20; i++ {
					runtime.Gosched()
				}
				time.Sleep(2 * time.Millisecond)
				h.pump()
				gateHeldAtClose = h.m.held["hw-admitted"]
				// (a close-wg-done logged here is flagged by the model: admits != exits)
				res.Inc("gate_rounds_close_observed_waiting")
			}
		} else {
			go doShutdown()
		}
		d2cli.VerifRelease("hw-admitted")
		wg.Wait()
	} else {
		start := make(chan struct{})
		for _, i := range racers {
			wg.Add(1)
			go func(i int) {
				defer wg.Done()
				<-start
				if d := p.Clients[i].DelayUs; d > 0 {
					time.Sleep(time.Duration(d) * time.Microsecond)
				}
				add(c45Dial(server, i, p.Clients[i]))
			}(i)
		}
		go func() {
			<-start
			if p.CloseDelay > 0 {
				time.Sleep(time.Duration(p.CloseDelay) * time.Microsecond)
			}
			doShutdown()
		}()
		// no log access between here and the racers' dials: the only ordering between
		// close() and the handlers is the one d2 itself establishes
		close(start)
		wg.Wait()
	}

	closeRaw := func() {
		// silent peers and partial requests end (unless the plan lets the server time
		// out its close handshake), so that shutdown is not held up for seconds
		omu.Lock()
		for _, o := range outcomes {
			if o.raw != nil && !(p.SilentStay && o.kind == "silent") {
				o.raw.Close()
			}
		}
		omu.Unlock()
	}
	if p.Route == "cancel" {
		closeRaw() // http.Server.Shutdown waits for connections that never sent a full request
	}

	// phase "after": dial once shutdown has begun (traced: close-begin seen; else: returned)
	afterOK := true
	if p.Trace && p.Route == "close" {
		afterOK = h.waitFor("close-begin", func() bool { return h.m.closeBegin > 0 })
	} else {
		select {
		case <-shutdownReturned:
		case <-time.After(c44Watchdog):
			h.inconclusive("shutdown did not return before the watchdog")
			afterOK = false
		}
	}
	if afterOK {
		for i, cl := range p.Clients {
			if cl.Phase != "after" {
				continue
			}
			wg.Add(1)
			go func(i int, cl c45Client) {
				defer wg.Done()
				if cl.DelayUs > 0 {
					time.Sleep(time.Duration(cl.DelayUs) * time.Microsecond)
				}
				o := c45Dial(server, i, cl)
				o.afterCB = true
				add(o)
			}(i, cl)
		}
		wg.Wait()
	}
	closeRaw()
	select {
	case <-shutdownReturned:
	case <-time.After(c44Watchdog):
		h.inconclusive("shutdown did not return before the watchdog")
		if s := c44LeakedFrames(); len(s) > 0 {
			res.Add("frames_alive_at_watchdog", len(s))
		}
	}
	h.pump()
	hits := d2cli.VerifPointHits()

	// boundary oracles
	omu.Lock()
	outs := append([]c45Outcome(nil), outcomes...)
	omu.Unlock()
	upgraded := 0
	for _, o := range outs {
		res.Inc("client_" + o.kind + "_" + o.phase)
		if o.upgraded {
			upgraded++
			res.Inc("upgraded_" + o.phase)
		} else if o.status == 503 {
			res.Inc("rejected_503_" + o.phase)
		} else if o.err != nil && o.kind == "ws" {
			res.Inc("refused_or_reset_" + o.phase)
		}
		if o.afterCB && o.upgraded {
			res.Viol("C45.admitted-after-shutdown-began", "C45.admitted-after-shutdown-began:client-upgraded", fmt.Sprintf("%s client #%d started dialling after shutdown had begun (%s) and was upgraded to a websocket", o.kind, o.idx, map[bool]string{true: "close-begin observed", false: "shutdown returned"}[p.Trace && p.Route == "close"]))
		}
	}
	if !h.aborted {
		// every upgraded websocket client sees its connection closed by the server
		deadline := time.After(c44Watchdog)
		for _, o := range outs {
			if o.ws == nil || !o.upgraded {
				continue
			}
			select {
			case <-o.ws.done:
			case <-deadline:
				h.inconclusive(fmt.Sprintf("client #%d still connected after shutdown returned", o.idx))
			}
		}
	}
	// wait for run() to return too (direct close: the loops end because close cancelled)
	if !h.runReturned && !h.aborted {
		select {
		case h.runErr = <-h.runDone:
			h.runReturned = true
		case <-time.After(c44Watchdog):
			h.inconclusive("run() did not return after close()")
		}
	}
	for _, o := range outs {
		if o.ws != nil && o.ws.conn != nil {
			o.ws.conn.CloseNow()
		}
		if o.raw != nil {
			o.raw.Close()
		}
	}
	// goroutine profile: no client handler frames after shutdown
	var leaked []string
	for i := 0; i < 250; i++ {
		leaked = c44LeakedFrames()
		if len(leaked) == 0 {
			break
		}
		runtime.Gosched()
		if i >= 50 {
			time.Sleep(10 * time.Millisecond)
		}
	}
	if len(leaked) > 0 && !h.aborted {
		h.inconclusive("client handler goroutines still alive after shutdown and the polling bound: " + strings.Join(leaked, "; "))
	}
	res.Inc("goroutine_profile_checks")
	h.pump()
	d2cli.VerifClearPoints()
	d2cli.VerifSetTracing(true)
	h.flushViolations()
	m := h.m
	if p.Trace && !h.aborted {
		if m.closeBegin == 0 || m.closeDone == 0 {
			h.inconclusive("traced round without close-begin/close-wg-done events")
		}
		if upgraded > m.admits {
			res.Viol("C45.model", "C45.model:more-upgrades-than-admits", fmt.Sprintf("%d clients were upgraded but only %d admit events were logged", upgraded, m.admits))
		}
	}
	inflight := 0
	if p.Trace {
		// how often the interesting window was open: handlers admitted but not finished
		// when shutdown began
		evs := d2cli.VerifEvents(0)
		st := map[string]string{}
		for _, e := range evs {
			switch e.Ev {
			case "admit":
				st[e.Args[0]] = "admitted"
			case "register":
				st[e.Args[1]] = "registered"
			case "handler-exit":
				st[e.Args[0]] = "exited"
			}
			if e.Ev == "close-begin" {
				for _, s := range st {
					if s == "admitted" {
						inflight++
					}
				}
				break
			}
		}
	}
	res.Inc("rounds")
	res.Inc("rounds_route_" + p.Route)
	if p.Trace {
		res.Inc("rounds_traced")
	} else {
		res.Inc("rounds_untraced_race_only")
	}
	res.Add("admits", m.admits)
	res.Add("handler_exits", m.exits)
	res.Add("rejects_closing", m.rejects)
	res.Add("handlers_between_admit_and_register_at_close_begin", inflight)
	res.Add("gate_handlers_held_across_close_begin", gateHeldAtClose)
	res.Add("events_logged", int(m.n))
	for k, v := range hits {
		res.Add("failpoint_hits_"+k, v)
	}
	if p.Trace {
		res.Nontrivial = m.admits >= 1 && m.closeBegin > 0 && m.closeDone > 0
	} else {
		res.Nontrivial = upgraded >= 1
	}
	if !res.Nontrivial {
		res.Inc("vacuous_no_client_admitted")
	}
	// interleaving fingerprint of the shutdown
	var fp []string
	ids := map[string]int{}
	for _, e := range d2cli.VerifEvents(0) {
		switch e.Ev {
		case "admit", "reject", "register", "unregister", "handler-exit", "wl-ctx-done":
			who := ""
			if len(e.Args) > 0 {
				who = "/" + c44Norm(ids, e.Args[0])
			}
			fp = append(fp, e.Ev+who)
		case "close-begin", "close-wg-done", "h-run-returned":
			fp = append(fp, e.Ev)
		}
	}
	if p.Trace {
		ob, _ := json.Marshal(c45Obs{FP: c44Hash(strings.Join(fp, " "))})
		res.Obs = ob
	}
	kinds := map[string]int{}
	for _, cl := range p.Clients {
		kinds[cl.Kind+"/"+cl.Phase]++
	}
	res.Sample = map[string]any{"route": p.Route, "traced": p.Trace, "gate": p.Gate, "clients": kinds, "failpoints": p.Points, "admits": m.admits, "rejects": m.rejects, "exits": m.exits}
	c45Cleanup(h)
	return
}

func c45Cleanup(h *c44Env) {
	if !h.runReturned {
		// make sure nothing of this round survives into the next one
		done := make(chan struct{})
		go func() { h.vw.Close(); close(done) }()
		select {
		case <-done:
		case <-time.After(30 * time.Second):
		}
	}
	os.RemoveAll(h.dir)
}

func postC45(d *run.Driver, results []run.Result) {
	fps := map[string]bool{}
	for _, r := range results {
		var o c45Obs
		if json.Unmarshal(r.Obs, &o) == nil && o.FP != "" {
			fps[o.FP] = true
		}
	}
	var l []string
	for k := range fps {
		l = append(l, k)
	}
	sort.Strings(l)
	d.Extra["distinct_shutdown_interleaving_fingerprints"] = len(l)
	d.Extra["fingerprint_definition"] = "order of {admit, reject, register, unregister, wl-ctx-done, handler-exit, close-begin, close-wg-done, run-returned} with clients renamed by first appearance (traced rounds)"
}
