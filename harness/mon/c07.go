package mon

import (
	"bufio"
	"bytes"
	"encoding/json"
	"errors"
	"fmt"
	"io"
	"io/fs"
	"os"
	"os/exec"
	"sort"
	"strconv"
	"strings"
	"sync"
	"testing/fstest"
	"time"
	"unicode/utf16"

	"verif/gen"
	"verif/proj"
	"verif/run"

	"oss.terrastruct.com/d2/d2ast"
	"oss.terrastruct.com/d2/d2compiler"
	"oss.terrastruct.com/d2/d2graph"
	"oss.terrastruct.com/d2/d2parser"
)

// C07 — compilation is total.
//
// Statement: compiling any input with any set of importable files returns either a
// compiled diagram or a list of errors with source positions; it never crashes and
// finishes within a time bound proportional to the input size.
//
// What the monitor demands (and nothing more):
//   - no panic / worker death (substrate, PanicIsViolation) and CPU budget (HangIsViolation);
//   - exactly one of (graph, error) is non-nil;
//   - the error is a *d2parser.ParseError with ≥1 entries (that is the "list of errors");
//   - every entry has a source position: its range names one of the input files (the main
//     file or a file of the import set), Start ≤ End, and End lies inside that file (in the
//     position unit requested: bytes, or UTF-16 code units with UTF16Pos).
//
// Legitimate behaviours noted from the anchored code: errors for a failed import are
// positioned at the import node of the importing file; parse errors of imported files
// carry the imported file's path (joined relative to the importer's directory, ".d2"
// appended when missing).

const c07Main = "index.d2"

type c07In struct {
	Text  string            `json:"text"`
	Files map[string]string `json:"files,omitempty"` // in-memory import set; value "\x00DIR" = directory
	Src   string            `json:"src"`
	U16   bool              `json:"u16,omitempty"`
	// Trig names a known non-termination trigger class the text matches (see
	// c07HangTrigger). Such cases are executed with a small CPU budget in the sandbox process, see c07Sandboxed (Mode
	// "isolate") so that a non-terminating compile yields a violation with a signature
	// naming the trigger instead of an arbitrary sampled frame; beyond a fixed number per
	// class they are not executed at all (Mode "skip") and counted as vacuous.
	Trig string `json:"trig,omitempty"`
	Mode string `json:"mode,omitempty"`
}

func init() {
	run.Register(&run.Check{
		ID: "C07", Title: "Compilation is total",
		LevelText:        "Exploration: thousands (quick) to hundreds of thousands (thorough) of generated programs — grammar programs over the full language (valid and invalid), their byte/token mutations, the repository's own scripts and mutations of them, a keyword × context × value-shape matrix (every reserved/style/config keyword with scalar, null, map, array, array-with-comment, import, substitution, spread, block string, glob, suspend values on objects, edges, arrowheads, classes, d2-config, boards) and hostile non-ASCII names under globs — each with an in-memory import file set (present, missing, cyclic, directory, unparsable) are compiled with d2compiler.Compile (no layout) in crash-isolated workers; the monitor refutes on panic/worker death, CPU budget exceeded, both-or-neither of (graph, error), a non-ParseError or empty error, or an error whose range is not inside one of the input files.",
		Technique:        "runtime monitoring: totality + CPU-time termination + error-position oracle over generated hostile programs and import sets in crash-isolated workers",
		DesignRef:        "§4 C07",
		Rule:             "cases: gen.Program(syntax|lang) ± gen.Mutate, corpus ± mutation, keyword×context×shape matrix, targeted glob/spread/null interplay programs, each with a generated import set; distinct by sha256(text+files); non-trivial when compilation produced a graph with ≥1 object or ≥1 positioned error",
		PanicIsViolation: true, HangIsViolation: true, CPUBudget: 30, Chunk: 48,
		MinNontrivial: 200,
		Gen:           genC07,
		Exec:          execC07,
	})
}

// ---------------------------------------------------------------------------------
// generators

var c07Shapes = []struct{ name, v string }{
	{"scalar", "hello"},
	{"number", "5"},
	{"float", "0.5"},
	{"neg", "-3"},
	{"bool", "true"},
	{"null", "null"},
	{"empty-map", "{}"},
	{"map", "{a: b}"},
	{"map-nested", "{a: {b: c}; d -> e}"},
	{"map-kw", "{label: q; shape: circle; style.fill: red; near: top-left}"},
	{"scalar+map", "hi {a: b}"},
	{"array", "[a; b]"},
	{"array-empty", "[]"},
	{"array-comment", "[a; \"\"\" hi \"\"\"; b]"},
	{"array-line-comment", "[a\n# c\nb]"},
	{"array-nested", "[[a]; {x: y}; null; 1]"},
	{"array-import", "[@x; ...@y]"},
	{"array-subst", "[${v}; ...${arr}]"},
	{"import", "@x"},
	{"import-key", "@x.k"},
	{"import-missing", "@nope"},
	{"subst", "${v}"},
	{"subst-map", "${m}"},
	{"subst-undefined", "${undefined}"},
	{"subst-into-scalar", "${v.k}"},
	{"subst-into-map", "${m.p.z}"},
	{"subst-in-string", "\"pre ${v} post\""},
	{"spread-in-map", "{...${m}}"},
	{"spread-import-in-map", "{...@x}"},
	{"block-string", "|md # hi |"},
	{"block-empty", "|md  |"},
	{"block-code", "|`go x := 1 `|"},
	{"dquote", "\"a \\\"b\\\" c\""},
	{"squote", "'it''s'"},
	{"empty-string", "\"\""},
	{"glob", "*"},
	{"suspend", "suspend"},
	{"unsuspend", "unsuspend"},
	{"url", "https://example.com/x?y=z#f"},
	{"bad-url", "\"://%zz\""},
	{"nan", "NaN"},
	{"huge", "99999999999999999999"},
	{"keyword", "label"},
	{"underscore", "_"},
	{"dotted", "a.b.c"},
	{"edge-like", "\"a -> b\""},
}

// c07Contexts render "KW: V" in a syntactic position. %k = keyword, %v = value.
var c07Contexts = []struct{ name, tpl string }{
	{"root", "%k: %v\n"},
	{"obj-map", "x: {\n  %k: %v\n}\n"},
	{"obj-path", "x.%k: %v\n"},
	{"obj-deep", "x.y.%k: %v\nx.y.%k.z: %v\n"},
	{"style", "x.style.%k: %v\n"},
	{"style-map", "x: {style: {%k: %v}}\n"},
	{"edge-map", "a -> b: {\n  %k: %v\n}\n"},
	{"edge-idx", "a -> b\n(a -> b)[0].%k: %v\n"},
	{"edge-style", "a -> b\n(a -> b)[0].style.%k: %v\n"},
	{"arrowhead", "a -> b: {source-arrowhead.%k: %v; target-arrowhead: {%k: %v}}\n"},
	{"class-def", "classes: {c: {%k: %v}}\nx.class: c\na -> b: {class: c}\n"},
	{"config", "vars: {d2-config: {%k: %v}}\n"},
	{"vars", "vars: {%k: %v}\nx: ${%k}\n"},
	{"legend", "vars: {d2-legend: {q: {%k: %v}; q -> r: {%k: %v}}}\n"},
	{"layer", "x\nlayers: {l: {%k: %v}}\nscenarios: {s: {x.%k: %v}}\nsteps: {t: {%k: %v}}\n"},
	{"glob", "x; y\n*.%k: %v\n**.%k: %v\n"},
	{"triple-glob", "x; y\nlayers: {l: {z}}\n***.%k: %v\n"},
	{"edge-glob", "a -> b\n(* -> *)[*].%k: %v\n"},
	{"filter", "x; y\n*: {\n  &%k: %v\n  style.fill: red\n}\n"},
	{"sql", "t: {shape: sql_table; c: int {%k: %v}}\n"},
	{"seq", "s: {shape: sequence_diagram; a -> b; a.%k: %v}\n"},
	{"key-as-edge-end", "%k -> z: %v\nz -> q.%k\n"},
	{"board-kw-value", "layers: {%k: %v}\n"},
}

var c07ConfigKeys = []string{"sketch", "theme-id", "dark-theme-id", "pad", "center", "layout-engine", "theme-overrides", "dark-theme-overrides", "data", "bogus"}

const c07Prelude = "vars: {v: 1; m: {p: q}; arr: [s; t]}\n"

// c07FileSets returns a few import sets for the names x, y, dir/z used by the generators.
func c07FileSet(r *gen.R, genBody func(q *gen.R) string) map[string]string {
	fs := map[string]string{}
	names := []string{"x.d2", "y.d2", "dir/z.d2", "nope.d2"}
	for i, n := range names {
		q := r.Sub(100 + i)
		switch q.Weighted(5, 2, 2, 1, 1, 2, 1) {
		case 0:
			fs[n] = genBody(q)
		case 1: // missing
		case 2: // cyclic: imports the main file / another file / itself
			fs[n] = q.Str("...@index\n", "...@x\n", "a: @y\n", "...@dir/z\n", "k: @../index\n", "...@../x\n", "b: {...@y}\n", "c: [@x]\n") + "k: v\n"
		case 3:
			fs[n] = "\x00DIR"
		case 4: // does not parse
			fs[n] = q.Str("{", "a: [", "x: |md", "a -> ", "\"", "...@", "}}}", "\xff\xfe")
		case 5: // small fixed file with the key k
			fs[n] = q.Str("k: v\n", "k: {a -> b}\nx\n", "k: [1; 2]\n", "k: null\n", "***.style.fill: red\nk\n", "vars: {v: 2}\nk: ${v}\n", "layers: {l: {a}}\nk\n", "k.link: layers.l\nk.icon: ./i.png\n", "classes: {c: {shape: circle}}\nk.class: c\n", "scenarios: {s: {k: 2}}\nsteps: {t: {k: 3}}\nk\n")
		default:
			fs[n] = ""
		}
	}
	return fs
}

func genC07(seed int64, tier string, emit func(run.Case)) {
	r := gen.New(seed)
	id := 0
	isoBudget := map[string]int{}
	isoMax := tierN(tier, 2, 12)
	// C07_SAMPLE=k keeps every k-th case of the list (reduced runs of the thorough tier).
	sample := 1
	if v, err := strconv.Atoi(os.Getenv("C07_SAMPLE")); err == nil && v > 1 {
		sample = v
	}
	add := func(text string, files map[string]string, src string, u16 bool) {
		id++
		if id%sample != 0 {
			return
		}
		in := c07In{Text: text, Files: files, Src: src, U16: u16}
		if in.Trig = c07HangTrigger(text, files); in.Trig != "" {
			isoBudget[in.Trig]++
			in.Mode = "isolate"
			if isoBudget[in.Trig] > isoMax {
				in.Mode = "skip"
			}
		}
		emit(run.MkCase(fmt.Sprintf("c%07d", id), src, in))
	}
	body := func(q *gen.R) string { return gen.Program(q, gen.ProfileLang) }
	fixedFS := map[string]string{"x.d2": "k: v\nq: {a -> b}\n", "y.d2": "s; t\n", "dir/z.d2": "...@../x\n", "lay.d2": "layers: {l: {a}}\n"}

	// 1. confirmed/targeted witnesses and their neighbourhood (spread placeholders × null ×
	//    globs, non-ASCII case-length-changing names under every glob form).
	for _, t := range c07Targeted() {
		add(t, fixedFS, "targeted", false)
	}
	// 2. keyword × context × value-shape matrix: every keyword spelled plain, in other
	//    letter case, and quoted (a quoted keyword is an ordinary name). thorough: the
	//    complete matrix; quick: a seed-determined 1/16 sample of it.
	var kws []string
	for _, k := range gen.Keywords {
		kws = append(kws, k, strings.ToUpper(k[:1])+k[1:], "\""+strings.ToUpper(k[:1])+k[1:]+"\"", "'"+k+"'")
	}
	kws = append(kws, c07ConfigKeys...)
	kws = append(kws, "N1", "b1", "AA2", "plain", "STYLE", "\"a.b\"", "*", "**")
	mr := r.Sub(-7)
	for _, kw := range kws {
		for _, ctx := range c07Contexts {
			for _, sh := range c07Shapes {
				if tier != "thorough" && mr.Intn(16) != 0 {
					continue
				}
				t := strings.ReplaceAll(ctx.tpl, "%k", kw)
				t = strings.ReplaceAll(t, "%v", sh.v)
				add(c07Prelude+t, fixedFS, "matrix", false)
			}
		}
	}
	// d2-config nested one level deeper (overrides and data with every shape)
	for _, k := range []string{"theme-overrides", "dark-theme-overrides", "data"} {
		for _, ik := range []string{"N1", "n7", "B3", "AA2", "AB5", "XX", "label", "k"} {
			for _, sh := range c07Shapes {
				add(c07Prelude+fmt.Sprintf("vars: {d2-config: {%s: {%s: %s}}}\n", k, ik, sh.v), fixedFS, "matrix-config", false)
			}
		}
	}
	// 3. corpus and mutations
	cor := Corpus()
	for _, s := range cor {
		if len(s) <= 16<<10 {
			add(s, fixedFS, "corpus", false)
		}
	}
	// 4. random programs
	n := tierN(tier, 6000, 250000)
	syn := gen.ProfileSyntax
	for i := 0; i < n; i++ {
		q := r.Sub(i)
		files := c07FileSet(q, body)
		u16 := q.P(0.15)
		switch q.Intn(8) {
		case 0, 1:
			add(gen.Program(q, syn), files, "syntax", u16)
		case 2:
			lang := gen.ProfileLang
			lang.Imports = []string{"x", "y", "dir/z"}
			add(gen.Program(q, lang), files, "lang", u16)
		case 3:
			add(gen.Mutate(q, gen.Program(q, syn)), files, "syntax-mut", u16)
		case 4:
			s := gen.Pick(q, cor)
			if len(s) > 8<<10 {
				s = s[:8<<10]
			}
			add(gen.Mutate(q, s), files, "corpus-mut", u16)
		case 5:
			add(c07Interplay(q), files, "interplay", u16)
		case 6:
			hl := gen.ProfileLang
			hl.Hostile = true
			hl.Globs, hl.Vars, hl.Nulls = .3, .4, .2
			hl.Imports = []string{"x", "y", "dir/z"}
			add(gen.Program(q, hl), files, "lang-hostile", u16)
		default:
			// two random matrix cells combined in one program
			var sb strings.Builder
			sb.WriteString(c07Prelude)
			for k := 0; k < q.Range(2, 4); k++ {
				ctx := gen.Pick(q, c07Contexts)
				t := strings.ReplaceAll(ctx.tpl, "%k", q.RandCase(gen.Pick(q, kws)))
				sb.WriteString(strings.ReplaceAll(t, "%v", gen.Pick(q, c07Shapes).v))
			}
			add(sb.String(), files, "matrix-mix", u16)
		}
	}
}

// c07Interplay builds programs dense in the constructs whose combination the anchored
// code handles through placeholder fields and lazily re-applied globs: spread
// substitutions / spread imports, nulls, globs of every arity, edge globs, filters,
// boards, case-length-changing names.
func c07Interplay(r *gen.R) string {
	names := []string{"a", "b", "Ⱥa", "İx", "ßs", "ǅ", "K", "aȺ", "x", "éa", "aé", "ſ", "a b", "\"a.b\"", "'*'", "1", "-"}
	nm := func() string { return gen.Pick(r, names) }
	pats := []string{"*", "**", "***", "*a", "a*", "*a*", "a*b", "*Ⱥ*", "İ*", "*x", "ß*", "*.*", "**.a*", "x.*", "*s", "K*", "k*"}
	var sb strings.Builder
	sb.WriteString(r.Str("vars: {a: 1; m: {b: c}; arr: [p; q]; n: null; d: {x -> y}}\n", "vars: {m: {b: {c: d}}; e: {}}\n", "vars: {a: {b: c}}\n", ""))
	n := r.Range(2, 9)
	for i := 0; i < n; i++ {
		switch r.Intn(16) {
		case 0:
			sb.WriteString("..." + r.Str("${a}", "${m}", "${arr}", "${n}", "${d}", "${e}", "${undefined}", "${m.b}", "@x", "@y", "@nope", "@x.k", "@dir/z") + "\n")
		case 1:
			sb.WriteString(nm() + ": null\n")
		case 2:
			sb.WriteString(gen.Pick(r, pats) + "." + r.Str("shape: circle", "style.fill: red", "label: hi", "class: c", "style.opacity: 0.4", "link: layers.l", "near: top-left", "width: 10") + "\n")
		case 3:
			sb.WriteString(gen.Pick(r, pats) + ": " + r.Str("null", "suspend", "unsuspend", "hi", "{shape: circle}", "{&shape: circle; style.fill: red}", "{!&label: a; style.stroke: blue}", "{&leaf: true; label: l}", "{&connected: true}", "{&level: 1}", "{&level: x}", "{&style.opacity: 1}", "{...${m}}", "@x", "[1]") + "\n")
		case 4:
			sb.WriteString(gen.Pick(r, pats) + " " + gen.Pick(r, gen.Arrows) + " " + gen.Pick(r, pats) + r.Str("", ": hi", ": null", ": {style.stroke: red}", ": {&src: a; label: s}", ": {&dst.shape: circle}", ": suspend") + "\n")
		case 5:
			sb.WriteString("(" + gen.Pick(r, pats) + " " + gen.Pick(r, gen.Arrows) + " " + gen.Pick(r, pats) + ")[" + r.Str("*", "0", "1", "*") + "]" + r.Str(": null", ".style.stroke: red", ": hi", ": {&label: hi; style.opacity: 0.1}", ".source-arrowhead.shape: diamond", ": unsuspend", ".label: null") + "\n")
		case 6:
			sb.WriteString(nm() + " " + gen.Pick(r, gen.Arrows) + " " + nm() + r.Str("", ": l", ": {...${m}}", ": ${m}", ": ${arr}", ": null") + "\n")
		case 7:
			sb.WriteString(nm() + ": {\n  ..." + r.Str("${m}", "${a}", "@x", "${d}") + "\n  " + gen.Pick(r, pats) + r.Str(".shape: circle", ": null", " -> _."+nm()) + "\n  " + nm() + r.Str("", ": null", " -> "+nm()) + "\n}\n")
		case 8:
			sb.WriteString(r.Str("layers", "scenarios", "steps") + ": {\n  " + nm() + ": {\n    " + r.Str("...${m}", nm()+": null", gen.Pick(r, pats)+".shape: circle", nm()+" -> "+nm(), "...@x", "vars: {a: 2}", "(* -> *)[*]: null") + "\n  }\n  " + nm() + r.Str(": null", ": x", ": {}", ": @x", ": [1]", "") + "\n}\n")
		case 9:
			sb.WriteString(nm() + "." + nm() + r.Str("", ": null", ".shape: circle", ": {...${m}}") + "\n")
		case 10:
			sb.WriteString(nm() + ": ${" + r.Str("a", "m", "arr", "n", "m.b", "zz", "d") + "}\n")
		case 11:
			sb.WriteString("classes: {c: {" + r.Str("shape: circle", "...${m}", "style.fill: red", "label: null", "class: c") + "}}\n")
		case 12:
			sb.WriteString(nm() + ".class: " + r.Str("c", "[c; d]", "[c; \"\"\" x \"\"\"]", "null", "${arr}", "[...${arr}; c]") + "\n")
		case 13:
			sb.WriteString("vars: {" + r.Str("a: null", "m: null", "m.b: 2", "...${m}", "d2-config: {...${m}}", "d2-config: ${m}", "d2-legend: {...${d}}", "x: ${x}") + "}\n")
		case 14:
			sb.WriteString(nm() + ": {" + r.Str("shape: sql_table", "shape: class", "shape: sequence_diagram", "grid-rows: 2") + "; " + nm() + ": " + r.Str("int", "null", "{constraint: [a; \"\"\" c \"\"\"]}", "${m}") + "; " + gen.Pick(r, pats) + r.Str(".shape: circle", ": null", " -> "+nm()) + "}\n")
		default:
			sb.WriteString(r.Str("_", "_._", "x._") + "." + nm() + r.Str("", ": null", " -> "+nm()) + "\n")
		}
	}
	return sb.String()
}

func c07Targeted() []string {
	out := []string{
		"x: {class: [a; \"\"\" hi \"\"\"; b]}",
		"vars: {d2-config: {theme-overrides: {N1: {a: b}}}}",
		"vars: {a: 1}\n...${a}\nb: null",
		"vars: {a: {b: c}}\n...${a}\n***.shape: circle",
		"Ⱥa\n*a.shape: circle",
		"vars: {w: foo}\na: ${w.k}",
		"a: {\"Shape\": {b}}",
		"vars: {v: 1}\n**.a: ${v}",
		"x: {vars: {v: 1}; **.a: ${v}}",
		"vars: {v: {a: 1}}\n**: ${v}",
		"vars: {m: {p: q}}\nx\n***.a: {...${m}}",
		"classes: {c: {class: c}}\nx.class: c",
		"classes: {c: {x.class: c}}\ny.class: c",
		"a.b.c.d.e.f.g.h.i.j.k.l.m.n.o.p.q.r.s.t\ny\n***.'steps': {a: {b: c}}",
		"k: {shape: class}\nk.f: {_.j <- l}",
		"vars: {a}\nx: \"pre ${a}\"",
		"t: {shape: sql_table; id: int}\nt.id: {_.j -> l}",
		"vars: {m: {p: q}; **: ${m}}\nx: ${m}",
		"vars: {m: {p: q}}\n**.a: ${m}\nl: {...${m}}",
		"vars: {m: {p: q}}\nvars: {*: {...${m}}}\n",
		"x; y\nlayers: {l: {z}}\n***.t: @x\nq: a.b.c\nr.s\nu.v.w\n",
		"classes: {c: {class: d}; d: {class: c}}\na -> b: {class: d}",
		"x\n*: @lay",
		"s{t{s{i{}}}}\nSTEPs{'FONT-COLOR'{L->_.\"FONT-COLOR\".S{}}}",
		"vars: {d2-legend: {...${d}}}\nx: |md ${v} |\n",
		"vars: {...${d}; v: 1}\nx: |md ${v} |\n",
		"k: {_ <- _.x}",
		"y\n*: {&L}",
		"Label.e",
		"vars: {d2-config: {...${x}}}",
		"** -> i\na: {...${z}}",
		"a: {...${z}}\na: @x",
	}
	// sentinel (found by C06's workload, repaired by 55166b23a): quoted keyword-like names
	// as inner segments of connection endpoint paths inside nested maps
	out = append(out, "\"near\": {trUe: {trUe.\"near\".'trUe' -> trUe.\"near\".\"near\".\"trUe\"}}")
	for _, k := range gen.Keywords {
		out = append(out, "\""+k+"\": {a: {a.\""+k+"\".'a' -> a.\""+k+"\".\""+k+"\".\"a\"}}\n",
			"q: {'"+strings.ToUpper(k)+"': {x.\""+k+"\" -> _.\""+k+"\".x: {\""+k+"\": 1}}}\n")
	}
	// quoted keyword-like child keys in random-ish case at several depths
	for _, k := range gen.Keywords {
		t := strings.ToUpper(k[:1]) + k[1:]
		out = append(out, "a: {\""+t+"\": {b}}\n", "a.b: {'"+strings.ToUpper(k)+"': {b -> c}}\n", "a: {\""+t+"\": x}\na.\""+k+"\".c\n", "\""+t+"\" -> b: {\""+t+"\": 1}\n")
	}
	// neighbourhood of the case-folding witness: every hostile letter × pattern shape
	for _, l := range []string{"Ⱥ", "İ", "ı", "ß", "ǅ", "K", "ſ", "Å", "ﬁ", "é", "😀", "́"} {
		for _, p := range []string{"*a", "a*", "*a*", "a*a", "*" + l, l + "*", "*" + l + "*", "*" + strings.ToLower(l), strings.ToUpper(l) + "*"} {
			for _, nm := range []string{l + "a", "a" + l, "a" + l + "a", l, l + l + "a"} {
				out = append(out, nm+"\n"+p+".shape: circle\n", nm+" -> b\n"+p+" -> b\n", "q: {"+nm+"}\nq."+p+": null\n", nm+"\n*: {&label: "+p+"; style.fill: red}\n")
			}
		}
	}
	// neighbourhood of the placeholder-field witnesses
	for _, sp := range []string{"...${a}", "...${m}", "...${arr}", "...${zz}"} {
		for _, after := range []string{"b: null", "***.shape: circle", "**.shape: circle", "*.shape: circle", "* -> *", "(* -> *)[*]: null", "*: null", "**: suspend", "b.c: null", "layers: {l: {x}}", "x: {...${m}}", "B: null", "b -> c\nb: null"} {
			out = append(out, "vars: {a: 1; m: {b: c}; arr: [p; q]}\n"+sp+"\n"+after+"\n", "vars: {a: 1; m: {b: c}; arr: [p; q]}\nq: {\n  "+sp+"\n  "+after+"\n}\n")
		}
	}
	return out
}

// ---------------------------------------------------------------------------------
// execution and oracle

func c07FS(files map[string]string) fs.FS {
	m := fstest.MapFS{}
	for p, s := range files {
		if s == "\x00DIR" {
			m[p] = &fstest.MapFile{Mode: fs.ModeDir | 0o755}
			continue
		}
		m[p] = &fstest.MapFile{Data: []byte(s)}
	}
	return m
}

// c07Len is the length of s in the requested position unit.
func c07Len(s string, u16 bool) int {
	if !u16 {
		return len(s)
	}
	return len(utf16.Encode([]rune(s)))
}

// c07HangTrigger names the known non-termination trigger class a program falls into,
// or "". It is a deliberately simple predicate on the input text: a `**`/`***` token
// whose statement (rest of the line, or the map that opens on that line) contains the
// substitution. The first few matching cases per class are still executed and judged
// normally, with a 6 CPU-second budget in the sandbox process; the rest are counted as not executed.
//
//	(two further classes, `**.a: ${v}` with vars and a class referencing a class, were
//	repaired in /repo — commits ddb7d26b9, f2a99de7b — and are executed normally again.)
//	- multi-glob-with-spread-substitution: a `**`/`***` key with a substitution in its
//	  value, in a program with a spread substitution `...${m}` (in that value or in any
//	  map the glob applies to: `vars: {m: {p: q}}\n**.a: ${m}\nl: {...${m}}`): `vars: {m: {p: q}}\nx\n***.a: {...${m}}` — resolving the spread
//	  re-applies the recursive glob, which creates a deeper `a` holding a new spread
//	  placeholder, whose resolution re-applies the glob, and so on.
//	- glob-inside-vars-with-substitution: see below.
//	- multi-glob-with-import-value: a `**`/`***` key whose value is an import
//	  (`layers: {l: {z}}\n***.t: @x\nq: a.b.c`): the lazily re-applied glob also matches
//	  the fields its own import created (q.t.k.t.k ...), multiplying with every later
//	  declaration and board; a 60-byte program burns minutes of CPU.
func c07HangTrigger(text string, files map[string]string) string {
	// glob-with-quoted-board-keyword: a glob statement that creates a key spelled like a
	// QUOTED board keyword (`***.'steps': {a}`). The "must be declared at a board root
	// scope" check only looks at unquoted keys, but NodeBoardKind treats the field as a
	// board container whatever its quoting, so every matched object becomes the parent of
	// inherited boards, which the recursive glob matches again: the result doubles with
	// every nesting level (x.y.c.z.u.v.w + `***.'steps': {a: {b: c}}` = 4861 elements).
	for _, src := range append([]string{text}, c07SortedValues(files)...) {
		for _, ln := range strings.FieldsFunc(src, func(r rune) bool { return r == '\n' || r == ';' }) {
			if !strings.Contains(ln, "*") {
				continue
			}
			low := strings.ToLower(ln)
			for _, kw := range []string{"steps", "layers", "scenarios"} {
				if strings.Contains(low, "'"+kw+"'") || strings.Contains(low, "\""+kw+"\"") {
					return "glob-with-quoted-board-keyword"
				}
			}
		}
	}
	srcs := append([]string{text}, c07SortedValues(files)...)
	// class-reference-inside-class-body: a `class` reference on an object nested inside a
	// class definition (`classes: {c: {x.class: c}}\ny.class: c`): the graph compiler
	// expands class c into y, creates y.x, expands c again into it, without end. (The direct
	// form `c: {class: c}` was repaired by f2a99de7b and terminates.)
	for _, src := range srcs {
		low := strings.ToLower(src)
		for off := 0; ; {
			i := strings.Index(low[off:], "classes")
			if i < 0 {
				break
			}
			off += i + 7
			j := off
			for j < len(low) && (low[j] == ' ' || low[j] == ':') {
				j++
			}
			if j >= len(low) || low[j] != '{' {
				continue
			}
			depth, k := 0, j
			for ; k < len(low); k++ {
				if low[k] == '{' {
					depth++
				} else if low[k] == '}' {
					depth--
					if depth == 0 {
						break
					}
				}
			}
			if ext := low[j:k]; strings.Contains(ext, "class:") || strings.Contains(ext, "class :") || strings.Contains(ext, "@") {
				return "class-reference-inside-class-body"
			}
		}
	}
	// glob-inside-vars-with-substitution: a glob key written inside a `vars` map matches
	// the variables themselves; with a substitution as value a variable is substituted
	// into itself without end (`vars: {m: {p: q}; **: ${m}}`, `vars: {*: {...${m}}}`).
	for _, src := range srcs {
		low := strings.ToLower(src)
		for off := 0; ; {
			i := strings.Index(low[off:], "vars")
			if i < 0 {
				break
			}
			off += i + 4
			j := off
			for j < len(low) && (low[j] == ' ' || low[j] == ':' || low[j] == '\'' || low[j] == '"') {
				j++
			}
			if j >= len(low) || low[j] != '{' {
				continue
			}
			depth, k := 0, j
			for ; k < len(low); k++ {
				if low[k] == '{' {
					depth++
				} else if low[k] == '}' {
					depth--
					if depth == 0 {
						break
					}
				}
			}
			if ext := low[j:k]; strings.Contains(ext, "*") && strings.Contains(ext, "${") {
				return "glob-inside-vars-with-substitution"
			}
		}
	}
	hasSpread := false
	for _, src := range srcs {
		hasSpread = hasSpread || strings.Contains(src, "...${")
	}
	for _, src := range srcs {
		if !strings.Contains(src, "${") && !strings.Contains(src, "@") {
			continue
		}
		for i := 0; i < len(src); i++ {
			if src[i] != '*' {
				continue
			}
			j := i
			for j < len(src) && src[j] == '*' {
				j++
			}
			stars := j - i
			i = j
			if stars < 2 || stars > 3 {
				continue
			}
			// extent of the statement the glob belongs to: to the end of the line, or
			// through the matching brace when a map opens on that line
			depth, k := 0, j
			for ; k < len(src); k++ {
				c := src[k]
				if c == '{' {
					depth++
				} else if c == '}' {
					depth--
					if depth < 0 {
						break
					}
				} else if (c == '\n' || c == ';') && depth == 0 {
					break
				}
			}
			ext := src[j:k]
			switch {
			case strings.Contains(ext, "${") && hasSpread:
				return "multi-glob-with-spread-substitution"
			case strings.Contains(ext, "@"):
				return "multi-glob-with-import-value"
			}
		}
	}
	return ""
}

func c07SortedValues(m map[string]string) []string {
	var ks []string
	for k := range m {
		ks = append(ks, k)
	}
	sort.Strings(ks)
	out := make([]string, 0, len(ks))
	for _, k := range ks {
		out = append(out, m[k])
	}
	return out
}

func execC07(c run.Case) (res run.Result) {
	var in c07In
	c.Decode(&in)
	if in.Mode == "skip" {
		res.Inc("vacuous_not_executed_known_nontermination_trigger_" + in.Trig)
		return
	}
	// Inside the sandbox process, or when not running under the worker pool (replay,
	// shrink): compile in this process.
	if os.Getenv("C07_DIRECT") != "" || len(os.Args) < 2 || os.Args[1] != "worker" {
		return c07Direct(in)
	}
	return c07Sandboxed(c, in)
}

// ---------------------------------------------------------------------------------
// sandbox: every compile of a worker runs in ONE long-lived child process (`vd worker
// C07` with C07_DIRECT=1, same wire protocol as the substrate's workers), started once
// per worker. The parent watches the child's CPU time per case; a case over budget is
// reported with a signature that is a function of the INPUT (known trigger class, or the
// set of structural features of the text), never of a sampled stack frame, and the child
// is killed and replaced. Panics are recovered inside the child and come back as ordinary
// results; a child that dies of a fatal error (stack exhaustion) is classified likewise.

type c07Wire struct {
	Begin  string      `json:"begin,omitempty"`
	Result *run.Result `json:"result,omitempty"`
}

type c07Box struct {
	cmd   *exec.Cmd
	in    io.WriteCloser
	lines chan c07BoxLine
	errMu sync.Mutex
	err   bytes.Buffer
}

type c07BoxLine struct {
	m   c07Wire
	err error
}

type c07ErrW struct{ b *c07Box }

func (w c07ErrW) Write(p []byte) (int, error) {
	w.b.errMu.Lock()
	defer w.b.errMu.Unlock()
	if w.b.err.Len() < 1<<20 {
		w.b.err.Write(p)
	}
	return len(p), nil
}

var c07TheBox *c07Box

func c07BoxStart() (*c07Box, error) {
	self, err := os.Executable()
	if err != nil {
		return nil, err
	}
	pr, pw, err := os.Pipe()
	if err != nil {
		return nil, err
	}
	b := &c07Box{lines: make(chan c07BoxLine, 4)}
	b.cmd = exec.Command(self, "worker", "C07")
	b.cmd.Env = append(os.Environ(), "C07_DIRECT=1", "GOMAXPROCS=2", "GOTRACEBACK=single")
	b.cmd.ExtraFiles = []*os.File{pw}
	b.cmd.Stdout, b.cmd.Stderr = c07ErrW{b}, c07ErrW{b}
	if b.in, err = b.cmd.StdinPipe(); err != nil {
		return nil, err
	}
	if err = b.cmd.Start(); err != nil {
		return nil, err
	}
	pw.Close()
	go func() {
		rd := bufio.NewReaderSize(pr, 1<<20)
		for {
			ln, err := rd.ReadBytes('\n')
			var m c07Wire
			if err == nil {
				err = json.Unmarshal(ln, &m)
			}
			b.lines <- c07BoxLine{m, err}
			if err != nil {
				pr.Close()
				return
			}
		}
	}()
	return b, nil
}

func (b *c07Box) kill() {
	b.in.Close()
	b.cmd.Process.Kill()
	b.cmd.Wait()
}

func c07ProcCPU(pid int) float64 {
	b, err := os.ReadFile(fmt.Sprintf("/proc/%d/stat", pid))
	if err != nil {
		return -1
	}
	s := string(b)
	f := strings.Fields(s[strings.LastIndexByte(s, ')')+1:])
	if len(f) < 14 {
		return -1
	}
	ut, _ := strconv.ParseFloat(f[11], 64)
	st, _ := strconv.ParseFloat(f[12], 64)
	return (ut + st) / 100
}

// c07Features lists the structural features of the input (stable, input-derived part of
// the signature of an unclassified hang).
func c07Features(in c07In) string {
	all := in.Text
	for _, f := range c07SortedValues(in.Files) {
		all += "\n" + f
	}
	low := strings.ToLower(all)
	var fs []string
	add := func(ok bool, name string) {
		if ok {
			fs = append(fs, name)
		}
	}
	add(strings.Contains(all, "**"), "recursive-glob")
	add(strings.Contains(all, "*") && !strings.Contains(all, "**"), "glob")
	add(strings.Contains(all, "...${"), "spread-substitution")
	add(strings.Contains(all, "${") && !strings.Contains(all, "...${"), "substitution")
	add(strings.Contains(all, "@"), "import")
	add(strings.Contains(low, "layers") || strings.Contains(low, "scenarios") || strings.Contains(low, "steps"), "boards")
	add(strings.Contains(low, "classes"), "classes")
	add(strings.Contains(all, "&"), "filter")
	add(strings.Contains(low, "null"), "null")
	if len(fs) == 0 {
		return "plain"
	}
	return strings.Join(fs, "+")
}

func c07Sandboxed(c run.Case, in c07In) (res run.Result) {
	budget := 30.0
	if in.Trig != "" {
		budget = 6 // known trigger class: a handful of witnesses per run, small budget
		res.Inc("isolated_" + in.Trig)
	}
	direct := in
	direct.Mode = ""
	var err error
	if c07TheBox == nil {
		if c07TheBox, err = c07BoxStart(); err != nil {
			res.Inconclusive = "cannot start sandbox process: " + err.Error()
			return
		}
	}
	b := c07TheBox
	line, _ := json.Marshal(run.MkCase(c.ID, c.Kind, direct))
	if _, err := b.in.Write(append(line, '\n')); err != nil {
		b.kill()
		c07TheBox = nil
		res.Inconclusive = "sandbox process not writable: " + err.Error()
		return
	}
	pid := b.cmd.Process.Pid
	cpu0 := c07ProcCPU(pid)
	start := time.Now()
	tick := time.NewTicker(100 * time.Millisecond)
	defer tick.Stop()
	how := ""
	for how == "" {
		select {
		case ln := <-b.lines:
			if ln.err != nil {
				how = "died"
				break
			}
			if ln.m.Result != nil {
				r := *ln.m.Result
				if in.Trig != "" {
					r.Inc("isolated_terminated")
					r.Inc("isolated_" + in.Trig)
				}
				return r
			}
		case <-tick.C:
			if cpu := c07ProcCPU(pid) - cpu0; cpu > budget {
				how = fmt.Sprintf("burned %.1f CPU-s (budget %.0f)", cpu, budget)
			} else if time.Since(start) > 10*time.Minute {
				b.kill()
				c07TheBox = nil
				res.Inconclusive = "sandboxed compile hit the wall-clock limit (machine starved?)"
				return
			}
		}
	}
	b.kill()
	c07TheBox = nil
	b.errMu.Lock()
	se := b.err.String()
	b.errMu.Unlock()
	stack := strings.Contains(se, "stack exceeds") || strings.Contains(se, "stack overflow")
	res.Nontrivial = true
	res.Sample = map[string]any{"src": in.Src, "text": trunc(in.Text, 240), "sandbox": how}
	detail := fmt.Sprintf("compile of a %d-byte program: sandbox process %s\ninput:\n%s\n%s", len(in.Text), how, trunc(in.Text, 800), trunc(se, 1500))
	switch {
	case in.Trig != "" && (how != "died" || stack):
		res.Inc("nontermination_observed")
		clause := "C07.nontermination"
		if in.Trig == "glob-with-quoted-board-keyword" || in.Trig == "multi-glob-with-import-value" {
			clause = "C07.blowup" // terminates in principle, cost exponential in the input size
		}
		res.Viol(clause, clause+":"+in.Trig, detail)
	case how != "died":
		res.Viol("C07.hang", "C07.hang:cpu-budget@d2compiler.Compile:"+c07Features(in), detail)
	case stack:
		res.Viol("C07.crash", "C07.crash:stack-exhaustion@d2compiler.Compile:"+c07Features(in), detail)
	default:
		cls := "died"
		for _, l := range strings.Split(se, "\n") {
			if strings.HasPrefix(l, "fatal error: ") {
				cls = "fatal-" + strings.ReplaceAll(strings.TrimPrefix(l, "fatal error: "), " ", "-")
				break
			}
		}
		res.Viol("C07.crash", "C07.crash:"+cls+"@d2compiler.Compile:"+c07Features(in), detail)
	}
	return
}

func c07Direct(in c07In) (res run.Result) {
	res.Feat = map[string]int{}
	res.Inc("src_" + in.Src)
	if in.U16 {
		res.Inc("utf16_positions")
	}
	g, _, err := d2compiler.Compile(c07Main, strings.NewReader(in.Text), &d2compiler.CompileOptions{FS: c07FS(in.Files), UTF16Pos: in.U16})
	nobj := 0
	switch {
	case g != nil && err != nil:
		res.Viol("C07.graph-and-error", "C07.graph-and-error", fmt.Sprintf("Compile returned both a graph and an error: %v", err))
	case g == nil && err == nil:
		res.Viol("C07.neither", "C07.neither", "Compile returned neither a graph nor an error")
	case g != nil:
		res.Inc("compiled_ok")
		proj.Walk(g, func(_ string, b *d2graph.Graph) { nobj += len(b.Objects) + len(b.Edges) })
		if len(in.Files) > 0 && strings.Contains(in.Text, "@") {
			res.Inc("compiled_ok_with_imports")
		}
	default:
		res.Inc("compile_error")
		c07CheckErr(&res, in, err)
	}
	res.Add("objects_and_edges", nobj)
	res.Nontrivial = nobj > 0 || err != nil
	res.Sample = map[string]any{"src": in.Src, "text": trunc(in.Text, 240), "files": len(in.Files), "err": err != nil}
	return
}

func c07CheckErr(res *run.Result, in c07In, err error) {
	var pe *d2parser.ParseError
	if !errors.As(err, &pe) {
		res.Viol("C07.error-type", "C07.error-type:"+fmt.Sprintf("%T", err), fmt.Sprintf("Compile returned a %T, not a list of positioned errors: %v", err, err))
		return
	}
	if len(pe.Errors) == 0 {
		res.Viol("C07.empty-error", "C07.empty-error", "Compile returned an error with an empty error list")
		return
	}
	res.Add("errors_positioned_checked", len(pe.Errors))
	for _, e := range pe.Errors {
		cls := c07MsgClass(e)
		res.Inc("err_" + cls)
		p := e.Range.Path
		var content string
		known := false
		if p == c07Main {
			content, known = in.Text, true
		} else if s, ok := in.Files[p]; ok {
			// a directory of the import set reads as an empty file: the only position
			// inside it is offset 0 (d2 reports "io error: read <dir>" there)
			if s != "\x00DIR" {
				content = s
			}
			known = true
			res.Inc("errors_in_imported_file")
		}
		if !known && e.Range == (d2ast.Range{}) {
			res.Viol("C07.error-position", "C07.error-position:no-position:"+cls, fmt.Sprintf("error %q carries no source position at all (zero range)", e.Message))
			continue
		}
		if !known {
			res.Viol("C07.error-position", "C07.error-position:path-not-an-input-file:"+cls, fmt.Sprintf("error %q carries range %q whose path %q is none of the input files %v", e.Message, c07Range(e.Range), p, c07FileNames(in)))
			continue
		}
		n := c07Len(content, in.U16)
		st, en := e.Range.Start, e.Range.End
		if st.Byte < 0 || st.Byte > en.Byte || en.Byte > n || st.Line < 0 || st.Line > en.Line || st.Column < 0 || en.Column < 0 {
			res.Viol("C07.error-position", "C07.error-position:outside-file:"+cls, fmt.Sprintf("error %q has range %s but file %q has length %d", e.Message, c07Range(e.Range), p, n))
		}
	}
}

func c07Range(r d2ast.Range) string {
	b, _ := r.MarshalText()
	return string(b)
}

func c07FileNames(in c07In) []string {
	out := []string{c07Main}
	for k := range in.Files {
		out = append(out, k)
	}
	sort.Strings(out)
	return out
}

// c07MsgClass reduces an error message to a stable class (message without position
// prefix, quoted parts, numbers): used for signatures and the evidence histogram.
func c07MsgClass(e d2ast.Error) string {
	m := e.Message
	// strip the "path:line:col: " prefix that d2parser.Errorf prepends
	if pre := e.Range.String() + ": "; strings.HasPrefix(m, pre) {
		m = m[len(pre):]
	}
	var words []string
	for _, w := range strings.Fields(m) {
		ok := true
		for _, c := range w {
			if !(c >= 'a' && c <= 'z' || c == '-' || c == ':' || c == ',') {
				ok = false
				break
			}
		}
		if !ok {
			if len(words) == 0 {
				continue // messages that start with the offending name: skip it
			}
			break
		}
		w = strings.Trim(w, ":,")
		if len(words) == 0 && (w == "layers" || w == "scenarios" || w == "steps" || w == "classes") {
			w = "board-keyword"
		}
		words = append(words, w)
		if len(words) == 6 {
			break
		}
	}
	if len(words) == 0 {
		return "other"
	}
	return strings.Join(words, "-")
}
