package mon

import (
	"fmt"
	"strings"

	"verif/gen"
	"verif/run"
)

// C38 — Delete removes exactly the target and keeps its children.
//
// Delete(object): the object and the connections attached to it are gone; its children
// are still there (same labels and attributes) under its former parent, keeping their
// names unless the name was taken there in the pre-state; everything else is unchanged
// (connections between surviving objects stay attached to the same objects).
// Delete(connection): exactly that connection is gone, later parallel connections (same
// endpoints and arrows) have their index decremented, everything else is unchanged.
// Delete(attribute): that attribute is back to its default, everything else is unchanged.
//
// Scope (DESIGN.md §4 C38): the hoisting clause is judged for single-file programs edited
// on the root board. For imported or inherited elements Delete can only append
// `key: null`, which removes the whole subtree; there the monitor judges "target gone,
// everything outside the target's subtree unchanged".
// Legitimate behaviour noted from edit.go: deleting a missing key succeeds and changes
// nothing; `near` attributes that pointed at the deleted object are removed with it.
// A renamed child may take any free name ("x 2", …): only *whether* a rename was allowed
// is judged (name taken in the pre-state by a sibling of the deleted object, or by the
// deleted object itself).
func init() {
	run.Register(&run.Check{
		ID: "C38", Title: "Delete removes exactly the target and keeps its children",
		LevelText: "Exploration: along random edit histories every successful Delete of an object, container, connection or attribute is compared with a model of the statement on the addressed board: target and attached connections gone, children hoisted to the former parent with labels/attributes intact and renamed only on a name conflict, later parallel connections renumbered, deleted attribute back to default, every other element unchanged (elements matched by unique labels).",
		Technique: "runtime monitoring: semantic diff of the addressed board before/after each Delete against a reference model of the statement, elements matched by unique label tags",
		DesignRef: "§4 C38",
		Rule:      "cases: gen.Edits histories; non-trivial when ≥2 edits of the history succeeded; counters judged_delete_* say how many deletions of each kind were judged (strict = single-file root board, lenient = imported/nested)",
		Chunk:     8,
		CPUBudget: 30,
		Gen:       orcGen,
		Exec:      execC38,
	})
}

func execC38(c run.Case) (res run.Result) {
	var in gen.EditCase
	c.Decode(&in)
	orcRun(in, &res, orcHooks{
		ID: "C38",
		After: func(s *orcStep, res *run.Result) {
			if s.Call.Kind == "delete" {
				c38Delete(s, res)
			}
		},
	})
	return
}

func c38Delete(s *orcStep, res *run.Result) {
	k := orcParseKey(s.Call.Key)
	if k.Err != nil || k.Odd != "" {
		res.Inc("skipped_delete_key_outside_domain")
		return
	}
	pre, post := s.Pre.snap(s.Call.BoardIdx), orcPostSnap(s)
	if post == nil {
		res.Inc("skipped_board_vanished")
		return
	}
	if s.Pre.hollow(s.Call.BoardIdx) {
		res.Inc("skipped_board_declared_without_map")
		return
	}
	if orcWentHollow(s) {
		res.Inc("skipped_board_emptied_and_printed_without_map")
		return
	}
	if s.Pre.hasGlob() {
		res.Inc("skipped_source_has_glob_keys")
		return
	}
	if len(k.Attr) > 0 {
		switch k.Attr[0] {
		case "layers", "scenarios", "steps", "classes", "vars":
			res.Inc("skipped_delete_board_or_class_key")
			return
		}
	}
	strict := len(s.Call.Board) == 0 && len(s.Files) == 1
	switch {
	case k.Edge && len(k.EdgeAttr) > 0:
		c38EdgeAttr(s, res, k, pre, post)
	case k.Edge:
		c38Edge(s, res, k, pre, post)
	case len(k.Attr) > 0:
		if len(k.Obj) == 0 {
			res.Inc("skipped_delete_key_without_object")
			return
		}
		c38ObjAttr(s, res, k, pre, post)
	default:
		c38Object(s, res, k, pre, post, strict)
	}
}

func c38Noop(s *orcStep, res *run.Result, pre, post *orcSnap, what string) {
	orcJudged(s, res, "delete_missing_target")
	diffs, _ := orcUnchanged(pre, post, orcSame{})
	if len(post.Objs) != len(pre.Objs) || len(post.Edges) != len(pre.Edges) {
		diffs = append(diffs, fmt.Sprintf("element counts changed: objects %d -> %d, connections %d -> %d", len(pre.Objs), len(post.Objs), len(pre.Edges), len(post.Edges)))
	}
	if len(diffs) > 0 {
		orcViol(res, "C38.noop-changed-something", orcSig(s, "C38", "noop-changed-something", what),
			fmt.Sprintf("Delete of a key that addresses nothing changed the board:\n%s\n%s", orcJoinDiffs(diffs), s.describe()))
	}
}

// c38Match finds the post counterpart of a pre object: by tag, or (untagged) not at all.
func c38MatchObj(pre *orcSnap, i int, post *orcSnap) (int, bool) {
	if t := pre.Objs[i].Tag; t != "" {
		j, ok := post.objByTag[t]
		return j, ok
	}
	return -1, false
}

func c38Object(s *orcStep, res *run.Result, k orcKey, pre, post *orcSnap, strict bool) {
	t := pre.findObj(k.Obj)
	if t < 0 {
		c38Noop(s, res, pre, post, "object")
		return
	}
	mode := "strict"
	if !strict {
		mode = "lenient"
	}
	orcJudged(s, res, "delete_object_"+mode)
	to := pre.Objs[t]
	kids := pre.children(t)
	cls := pre.decl(t)
	for _, c := range kids {
		if strings.EqualFold(pre.Objs[c].IDVal, to.IDVal) {
			cls = "child-named-like-target"
		}
	}
	_ = cls
	reported := false
	viol := func(clause, msg string) {
		if reported {
			res.Inc("further_symptoms_of_reported_op")
			return
		}
		reported = true
		orcViol(res, "C38."+clause, orcSig(s, "C38", clause, mode), msg+"\n"+s.describe())
	}
	inSub := func(i int) bool { return i == t || pre.isDesc(i, t) }

	// 1. the target is gone
	if to.Tag != "" {
		if j, still := post.objByTag[to.Tag]; still {
			if to.Parent >= 0 && post.Objs[j].PathKey == pre.Objs[to.Parent].PathKey {
				viol("attributes-landed-on-parent", fmt.Sprintf("the deleted object %s (%s) is gone but its label now sits on its former parent %s: statements that set attributes of the deleted object were re-addressed to the parent", to.Tag, to.AbsID, post.Objs[j].AbsID))
			} else {
				viol("target-survived", fmt.Sprintf("deleted object %s (%s) still exists as %s", to.Tag, to.AbsID, post.Objs[j].AbsID))
			}
			return
		}
	} else {
		res.Inc("delete_object_target_untagged")
	}
	// 2. attached connections are gone, no others
	attached := 0
	for i, e := range pre.Edges {
		if e.Src == t || e.Dst == t {
			attached++
			if e.Tag != "" {
				if _, still := post.edgeByTag[e.Tag]; still {
					viol("attached-connection-survived", fmt.Sprintf("connection %s (%s) was attached to the deleted object and still exists", e.Tag, e.AbsID))
				}
			}
			_ = i
		}
	}
	if !strict {
		// lenient: outside the subtree nothing changes
		var diffs []string
		for i := range pre.Objs {
			if inSub(i) {
				continue
			}
			j, ok := c38MatchObj(pre, i, post)
			if !ok {
				if pre.Objs[i].Tag != "" {
					diffs = append(diffs, fmt.Sprintf("object %s (%s) outside the deleted subtree vanished", pre.ref(i), pre.Objs[i].AbsID))
				}
				continue
			}
			if !strings.EqualFold(pre.Objs[i].AbsID, post.Objs[j].AbsID) {
				diffs = append(diffs, fmt.Sprintf("object %s changed ID %s -> %s", pre.ref(i), pre.Objs[i].AbsID, post.Objs[j].AbsID))
			}
			if a, b := c38ObjContent(pre, i, inSub), c38ObjContent(post, j, nil); a != b && !c38NearInto(pre, i, inSub) {
				diffs = append(diffs, fmt.Sprintf("object %s (%s) changed:\n   before %s\n   after  %s", pre.ref(i), pre.Objs[i].AbsID, a, b))
			}
		}
		for i, e := range pre.Edges {
			if inSub(e.Src) || inSub(e.Dst) || e.Tag == "" {
				continue
			}
			j, ok := post.edgeByTag[e.Tag]
			if !ok {
				diffs = append(diffs, fmt.Sprintf("connection %s (%s) outside the deleted subtree vanished", e.Tag, e.AbsID))
				continue
			}
			if a, b := pre.edgeContent(i, true), post.edgeContent(j, true); a != b || !strings.EqualFold(e.AbsID, post.Edges[j].AbsID) {
				diffs = append(diffs, fmt.Sprintf("connection %s changed: %s -> %s\n   before %s\n   after  %s", e.Tag, e.AbsID, post.Edges[j].AbsID, a, b))
			}
		}
		if len(diffs) > 0 {
			viol("unrelated-changed", "Delete changed elements outside the deleted object's subtree:\n"+orcJoinDiffs(diffs))
		}
		return
	}
	// strict -------------------------------------------------------------------------
	if len(post.Objs) != len(pre.Objs)-1 {
		viol("object-count", fmt.Sprintf("deleting one object changed the number of objects %d -> %d", len(pre.Objs), len(post.Objs)))
	}
	if len(post.Edges) != len(pre.Edges)-attached {
		viol("connection-count", fmt.Sprintf("the deleted object had %d attached connections but the number of connections went %d -> %d", attached, len(pre.Edges), len(post.Edges)))
	}
	parentRef := pre.ref(to.Parent)
	var diffs []string
	// 3. children hoisted
	for _, c := range kids {
		co := pre.Objs[c]
		j, ok := c38MatchObj(pre, c, post)
		if !ok {
			if co.Tag != "" {
				viol("child-lost", fmt.Sprintf("child %s (%s) of the deleted object no longer exists", co.Tag, co.AbsID))
			} else {
				res.Inc("delete_object_child_untagged")
			}
			continue
		}
		qo := post.Objs[j]
		if got := post.ref(qo.Parent); got != parentRef {
			viol("child-not-in-former-parent", fmt.Sprintf("child %s (%s) of the deleted object is now under %s (%s), the deleted object's parent was %s", co.Tag, co.AbsID, got, qo.AbsID, parentRef))
		}
		if !strings.EqualFold(co.IDVal, qo.IDVal) {
			taken := false
			for _, sib := range c38ChildrenOf(pre, to.Parent) {
				if strings.EqualFold(pre.Objs[sib].IDVal, co.IDVal) {
					taken = true
				}
			}
			if !taken {
				viol("child-renamed-without-conflict", fmt.Sprintf("child %s was renamed %q -> %q although no object named %q existed under %s", co.Tag, co.IDVal, qo.IDVal, co.IDVal, parentRef))
			} else {
				res.Inc("delete_object_child_renamed_on_conflict")
			}
		}
		if a, b := c38ObjContent(pre, c, c38Only(t)), c38ObjContent(post, j, nil); a != b && !c38NearInto(pre, c, c38Only(t)) {
			diffs = append(diffs, fmt.Sprintf("hoisted child %s changed:\n   before %s\n   after  %s", co.Tag, a, b))
		}
	}
	// 4. everything else
	for i := range pre.Objs {
		if i == t || pre.Objs[i].Parent == t {
			continue
		}
		j, ok := c38MatchObj(pre, i, post)
		if !ok {
			if pre.Objs[i].Tag != "" {
				diffs = append(diffs, fmt.Sprintf("object %s (%s) vanished", pre.ref(i), pre.Objs[i].AbsID))
			}
			continue
		}
		po, qo := pre.Objs[i], post.Objs[j]
		if pre.isDesc(i, t) {
			// deeper descendant: same parent (by tag), same name
			if pre.ref(po.Parent) != post.ref(qo.Parent) && pre.Objs[po.Parent].Tag != "" {
				diffs = append(diffs, fmt.Sprintf("descendant %s moved from under %s to under %s", po.Tag, pre.ref(po.Parent), post.ref(qo.Parent)))
			}
			if !strings.EqualFold(po.IDVal, qo.IDVal) {
				diffs = append(diffs, fmt.Sprintf("descendant %s renamed %q -> %q", po.Tag, po.IDVal, qo.IDVal))
			}
		} else if !strings.EqualFold(po.AbsID, qo.AbsID) {
			diffs = append(diffs, fmt.Sprintf("unrelated object %s changed ID %s -> %s", po.Tag, po.AbsID, qo.AbsID))
		}
		if a, b := c38ObjContent(pre, i, c38Only(t)), c38ObjContent(post, j, nil); a != b && !c38NearInto(pre, i, c38Only(t)) {
			diffs = append(diffs, fmt.Sprintf("object %s (%s) changed:\n   before %s\n   after  %s", po.Tag, po.AbsID, a, b))
		}
	}
	for i, e := range pre.Edges {
		if e.Src == t || e.Dst == t || e.Tag == "" {
			continue
		}
		j, ok := post.edgeByTag[e.Tag]
		if !ok {
			diffs = append(diffs, fmt.Sprintf("connection %s (%s), not attached to the deleted object, vanished", e.Tag, e.AbsID))
			continue
		}
		qe := post.Edges[j]
		if pre.ref(e.Src) != post.ref(qe.Src) || pre.ref(e.Dst) != post.ref(qe.Dst) {
			if pre.Objs[e.Src].Tag != "" && pre.Objs[e.Dst].Tag != "" {
				diffs = append(diffs, fmt.Sprintf("connection %s was %s -> %s, now %s -> %s", e.Tag, pre.ref(e.Src), pre.ref(e.Dst), post.ref(qe.Src), post.ref(qe.Dst)))
			}
		}
		if a, b := pre.edgeContent(i, true), post.edgeContent(j, true); a != b {
			diffs = append(diffs, fmt.Sprintf("connection %s changed:\n   before %s\n   after  %s", e.Tag, a, b))
		}
		if !inSub(e.Src) && !inSub(e.Dst) && !strings.EqualFold(e.AbsID, qe.AbsID) {
			diffs = append(diffs, fmt.Sprintf("unrelated connection %s changed ID %s -> %s", e.Tag, e.AbsID, qe.AbsID))
		}
	}
	if len(diffs) > 0 {
		viol("unrelated-changed", "Delete changed more than the statement allows:\n"+orcJoinDiffs(diffs))
	}
}

func c38Only(t int) func(int) bool { return func(i int) bool { return i == t } }

func c38ChildrenOf(s *orcSnap, parent int) []int { return s.children(parent) }

// c38ObjContent: attributes of an object with an object-valued near rendered by tag; a
// near that points at a deleted object (gone(i)) is rendered as removed.
func c38ObjContent(s *orcSnap, i int, gone func(int) bool) string {
	return s.objContent(i, false)
}

// c38NearInto: does object i's near point at an object that is being deleted?
func c38NearInto(s *orcSnap, i int, gone func(int) bool) bool {
	raw := s.Objs[i].NearRaw
	if raw == "" || gone == nil {
		return false
	}
	if j, ok := s.byPath[orcPathKey(strings.Split(raw, "\x1f"))]; ok {
		return gone(j)
	}
	return false
}

func c38Edge(s *orcStep, res *run.Result, k orcKey, pre, post *orcSnap) {
	if k.Index == nil {
		res.Inc("skipped_delete_unindexed_connection_key")
		return
	}
	t := pre.findEdge(k)
	if t < 0 {
		c38Noop(s, res, pre, post, "connection")
		return
	}
	orcJudged(s, res, "delete_connection")
	te := pre.Edges[t]
	cls := "simple"
	if pre.Objs[te.Src].Foreign || pre.Objs[te.Dst].Foreign {
		cls = "imported-endpoint"
	} else if pre.Objs[te.Src].RefChain && pre.Objs[te.Dst].RefChain {
		cls = "maybe-in-chain"
	}
	_ = cls
	reported := false
	viol := func(clause, msg string) {
		if reported {
			res.Inc("further_symptoms_of_reported_op")
			return
		}
		reported = true
		orcViol(res, "C38."+clause, orcSig(s, "C38", clause, "connection"), msg+"\n"+s.describe())
	}
	if te.Tag != "" {
		if _, still := post.edgeByTag[te.Tag]; still {
			viol("target-survived", fmt.Sprintf("deleted connection %s (%s) still exists", te.Tag, te.AbsID))
			return
		}
	}
	if len(post.Edges) != len(pre.Edges)-1 {
		viol("connection-count", fmt.Sprintf("deleting one connection changed the number of connections %d -> %d", len(pre.Edges), len(post.Edges)))
	}
	diffs, _ := orcUnchanged(pre, post, orcSame{SkipEdge: func(i int) bool { return true }})
	if len(post.Objs) != len(pre.Objs) {
		diffs = append(diffs, fmt.Sprintf("number of objects changed %d -> %d", len(pre.Objs), len(post.Objs)))
	}
	for i, e := range pre.Edges {
		if i == t || e.Tag == "" {
			continue
		}
		j, ok := post.edgeByTag[e.Tag]
		if !ok {
			diffs = append(diffs, fmt.Sprintf("connection %s (%s) vanished", e.Tag, e.AbsID))
			continue
		}
		qe := post.Edges[j]
		wantIdx := e.Index
		if e.Src == te.Src && e.Dst == te.Dst && e.SrcArrow == te.SrcArrow && e.DstArrow == te.DstArrow && e.Index > te.Index {
			wantIdx--
		}
		if qe.Index != wantIdx {
			viol("parallel-index", fmt.Sprintf("connection %s (%s) has index %d afterwards, expected %d (deleted %s)", e.Tag, e.AbsID, qe.Index, wantIdx, te.AbsID))
		}
		if pre.Objs[e.Src].PathKey != post.Objs[qe.Src].PathKey || pre.Objs[e.Dst].PathKey != post.Objs[qe.Dst].PathKey {
			diffs = append(diffs, fmt.Sprintf("connection %s is attached to other objects now (%s)", e.Tag, qe.AbsID))
		}
		if a, b := pre.edgeContent(i, true), post.edgeContent(j, true); a != b {
			diffs = append(diffs, fmt.Sprintf("connection %s changed:\n   before %s\n   after  %s", e.Tag, a, b))
		}
	}
	if len(diffs) > 0 {
		viol("unrelated-changed", "deleting a connection changed other elements:\n"+orcJoinDiffs(diffs))
	}
}

// c38AttrPath maps a reserved key suffix to the JSON path in the projection.
func c38AttrPath(attr []string) (path []string, kind string) {
	switch {
	case len(attr) == 2 && attr[0] == "style":
		return []string{"style", orcStyleKey(attr[1])}, "style"
	case len(attr) == 1 && (attr[0] == "tooltip" || attr[0] == "link" || attr[0] == "width" || attr[0] == "height" || attr[0] == "icon" || attr[0] == "top" || attr[0] == "left"):
		return []string{attr[0]}, attr[0]
	case len(attr) == 1 && attr[0] == "near":
		return []string{"near"}, "near"
	case len(attr) == 2 && attr[0] == "label" && attr[1] == "near":
		return []string{"labelPosition"}, "label.near"
	case len(attr) == 1 && attr[0] == "shape":
		return []string{"shape"}, "shape"
	case len(attr) == 1 && attr[0] == "label":
		return []string{"label"}, "label"
	}
	return nil, ""
}

func c38ObjAttr(s *orcStep, res *run.Result, k orcKey, pre, post *orcSnap) {
	t := pre.findObj(k.Obj)
	if t < 0 {
		res.Inc("skipped_delete_attribute_of_missing_object")
		return
	}
	path, kind := c38AttrPath(k.Attr)
	if path == nil {
		res.Inc("skipped_delete_attribute_not_modelled")
		return
	}
	if pre.underSpecial(k.Obj[:len(k.Obj)-1]) {
		res.Inc("skipped_delete_inside_class_or_table")
		return
	}
	j := post.findObj(k.Obj)
	viol := func(clause, msg string) {
		orcViol(res, "C38."+clause, orcSig(s, "C38", clause, "object."+kind), msg+"\n"+s.describe())
	}
	if j < 0 {
		viol("attribute-delete-removed-object", fmt.Sprintf("deleting attribute %s removed object %s", strings.Join(k.Attr, "."), pre.Objs[t].AbsID))
		return
	}
	orcJudged(s, res, "delete_object_attribute")
	po, qo := pre.Objs[t], post.Objs[j]
	// was it set?
	wasSet := false
	switch kind {
	case "near":
		wasSet = po.NearRaw != ""
	case "shape":
		wasSet = !strings.EqualFold(po.Shape, "rectangle")
	case "label":
		v, _ := orcScalar(po.Attrs, "label")
		wasSet = v != po.IDVal
	default:
		_, wasSet = orcGet(po.Attrs, path...)
	}
	if wasSet {
		res.Inc("judged_delete_object_attribute_that_was_set")
		reset := false
		switch kind {
		case "near":
			reset = qo.NearRaw == ""
		case "shape":
			reset = strings.EqualFold(qo.Shape, "rectangle")
		case "label":
			v, _ := orcScalar(qo.Attrs, "label")
			reset = v == qo.IDVal
		default:
			_, still := orcGet(qo.Attrs, path...)
			reset = !still
		}
		if !reset {
			viol("attribute-not-reset", fmt.Sprintf("attribute %s of %s was deleted but is still set afterwards", strings.Join(k.Attr, "."), po.AbsID))
		}
	}
	var diffs []string
	drop := [][]string{path}
	if kind == "label" {
		drop = append(drop, []string{"language"})
	}
	a := orcJSONWithout(po.Attrs, drop...) + fmt.Sprintf("|class=%v|sql=%v", po.Class, po.SQL)
	b := orcJSONWithout(qo.Attrs, drop...) + fmt.Sprintf("|class=%v|sql=%v", qo.Class, qo.SQL)
	if kind != "near" {
		a += "|near=" + po.NearRaw
		b += "|near=" + qo.NearRaw
	}
	if a != b {
		diffs = append(diffs, fmt.Sprintf("other attributes of %s changed:\n   before %s\n   after  %s", po.AbsID, a, b))
	}
	d2, _ := orcUnchanged(pre, post, orcSame{SkipObj: func(i int) bool { return i == t }})
	diffs = append(diffs, d2...)
	if len(post.Objs) != len(pre.Objs) || len(post.Edges) != len(pre.Edges) {
		diffs = append(diffs, fmt.Sprintf("element counts changed: objects %d -> %d, connections %d -> %d", len(pre.Objs), len(post.Objs), len(pre.Edges), len(post.Edges)))
	}
	if len(diffs) > 0 {
		viol("unrelated-changed", "deleting an attribute changed more than that attribute:\n"+orcJoinDiffs(diffs))
	}
}

func c38EdgeAttr(s *orcStep, res *run.Result, k orcKey, pre, post *orcSnap) {
	if k.Index == nil {
		res.Inc("skipped_delete_unindexed_connection_key")
		return
	}
	t := pre.findEdge(k)
	if t < 0 {
		res.Inc("skipped_delete_attribute_of_missing_connection")
		return
	}
	attr := k.EdgeAttr
	head := ""
	var path []string
	kind := ""
	switch {
	case len(attr) >= 1 && (attr[0] == "source-arrowhead" || attr[0] == "target-arrowhead"):
		head = attr[0]
		kind = strings.Join(attr, ".")
		if len(attr) == 2 && (attr[1] == "shape" || attr[1] == "label") {
			path = []string{attr[1]}
		} else if len(attr) != 1 {
			res.Inc("skipped_delete_attribute_not_modelled")
			return
		}
	default:
		path, kind = c38AttrPath(attr)
		if path == nil || kind == "near" || kind == "shape" {
			res.Inc("skipped_delete_attribute_not_modelled")
			return
		}
	}
	viol := func(clause, msg string) {
		orcViol(res, "C38."+clause, orcSig(s, "C38", clause, "connection."+kind), msg+"\n"+s.describe())
	}
	j := post.findEdge(k)
	if j < 0 {
		viol("attribute-delete-removed-connection", fmt.Sprintf("deleting attribute %s removed connection %s", kind, pre.Edges[t].AbsID))
		return
	}
	orcJudged(s, res, "delete_connection_attribute")
	pe, qe := pre.Edges[t], post.Edges[j]
	headOf := func(e orcEdge) map[string]any {
		if head == "source-arrowhead" {
			return e.SrcHead
		}
		return e.DstHead
	}
	wasSet, reset := false, false
	switch {
	case head != "" && path == nil:
		wasSet, reset = headOf(pe) != nil, headOf(qe) == nil
	case head != "":
		v, ok := orcScalar(headOf(pe), path...)
		wasSet = ok && v != ""
		v2, ok2 := orcScalar(headOf(qe), path...)
		reset = !ok2 || v2 == "" || (path[0] == "shape" && headOf(qe) == nil)
	case kind == "label":
		v, _ := orcScalar(pe.Attrs, "label")
		wasSet = v != ""
		v2, _ := orcScalar(qe.Attrs, "label")
		reset = v2 == ""
	default:
		_, wasSet = orcGet(pe.Attrs, path...)
		_, still := orcGet(qe.Attrs, path...)
		reset = !still
	}
	if wasSet {
		res.Inc("judged_delete_connection_attribute_that_was_set")
		if !reset {
			viol("attribute-not-reset", fmt.Sprintf("attribute %s of %s was deleted but is still set afterwards", kind, pe.AbsID))
		}
	}
	var diffs []string
	if head == "" {
		drop := [][]string{path}
		if kind == "label" {
			drop = append(drop, []string{"language"})
		}
		if a, b := pre.edgeContent(t, true, drop...), post.edgeContent(j, true, drop...); a != b {
			diffs = append(diffs, fmt.Sprintf("other attributes of the connection changed:\n   before %s\n   after  %s", a, b))
		}
	} else {
		if a, b := c37DropHead(pre.edgeContent(t, true), head), c37DropHead(post.edgeContent(j, true), head); a != b {
			diffs = append(diffs, fmt.Sprintf("other attributes of the connection changed:\n   before %s\n   after  %s", a, b))
		}
	}
	d2, _ := orcUnchanged(pre, post, orcSame{SkipEdge: func(i int) bool { return i == t }})
	diffs = append(diffs, d2...)
	if len(post.Objs) != len(pre.Objs) || len(post.Edges) != len(pre.Edges) {
		diffs = append(diffs, fmt.Sprintf("element counts changed: objects %d -> %d, connections %d -> %d", len(pre.Objs), len(post.Objs), len(pre.Edges), len(post.Edges)))
	}
	if len(diffs) > 0 {
		viol("unrelated-changed", "deleting a connection attribute changed more than that attribute:\n"+orcJoinDiffs(diffs))
	}
}

// c38Quoted: objects whose ID needs quoting are a trigger class of their own (d2oracle
// compares key segments with the formatted ID in places).
func c38Quoted(s *orcSnap, i int) string {
	if s.Objs[i].ID != s.Objs[i].IDVal {
		return "quoted-id+"
	}
	return ""
}

func c38EdgeDecl(s *orcSnap, i int) string {
	e := s.Edges[i]
	if s.Objs[e.Src].Foreign || s.Objs[e.Dst].Foreign {
		return "imported-endpoint"
	}
	return "local"
}
