package mon

// Shared machinery of the watch-server monitors C44 and C45: the event model fed from
// the verif trace log of d2cli/watch.go (see DESIGN.md §2.3), real websocket clients,
// and the environment that builds and drives the real watcher.

import (
	"bytes"
	"context"
	"crypto/sha256"
	"encoding/hex"
	"encoding/json"
	"fmt"
	"net"
	"net/http"
	"os"
	"path/filepath"
	"regexp"
	"runtime"
	"sort"
	"strconv"
	"strings"
	"sync"
	"time"

	"github.com/coder/websocket"

	"verif/run"

	"oss.terrastruct.com/d2/d2cli"
)

// Content of version k: `v<k>: v<k>` compiles and renders (slow: dagre under -race);
// `v<k>: @nofile_v<k>` fails in the compiler with an error that names the version (fast).
// Both are version stamped, so every result a client receives identifies what was read.
var c44TagRE = regexp.MustCompile(`>(v\d+)<|nofile_(v\d+)`)

func c44Content(k int, kind string) []byte {
	if kind == "ok" {
		return []byte(fmt.Sprintf("v%d: v%d\n", k, k))
	}
	return []byte(fmt.Sprintf("v%d: @nofile_v%d\n", k, k))
}

func c44Tag(svg, errs string) string {
	for _, s := range []string{svg, errs} {
		if m := c44TagRE.FindStringSubmatch(s); m != nil {
			for _, g := range m[1:] {
				if g != "" {
					return g
				}
			}
		}
	}
	return "-"
}

// c44Ver is the version number of a tag ("v12" -> 12), -1 for untagged results (empty
// file seen between truncate and write).
func c44Ver(tag string) int {
	if i := strings.IndexByte(tag, ':'); i >= 0 { // "r3:v12"
		tag = tag[i+1:]
	}
	if strings.HasPrefix(tag, "v") {
		if n, err := strconv.Atoi(tag[1:]); err == nil {
			return n
		}
	}
	return -1
}

func c44Serial(rid string) int { // "r3:v12" -> 3, "r0" -> 0
	rid = strings.TrimPrefix(rid, "r")
	if i := strings.IndexByte(rid, ':'); i >= 0 {
		rid = rid[:i]
	}
	n, _ := strconv.Atoi(rid)
	return n
}

func c44ResTag(rid string) string {
	if i := strings.IndexByte(rid, ':'); i >= 0 {
		return rid[i+1:]
	}
	return "nil"
}

// ---------------------------------------------------------------------------------
// event model

type c44Cl struct {
	id       string
	addr     string
	reg      bool
	unreg    bool
	sigSent  int
	sigCoal  int
	wakes    int
	lastEv   string
	maxSer   int
	writes   []string // tags written without error, in order
	regSlot  string   // slot content when it registered
	regSeq   int64
	writeErr bool
	// swallowed: state (not the log) showed this client blocked in its select with an
	// empty resultsCh while the log counts a wake-up sent and never consumed by a wl-wake:
	// something took the wake-up without re-reading the slot.
	swallowed     bool
	swallowedEver int
}

type c44Model struct {
	prop string // "C44" or "C45": which clauses are reported
	n    int64  // last sequence number consumed
	prog int64  // events other than poll ticks (progress indicator for the watchdog)

	reqEnter, reqSent, reqCoal int
	clWake                     int
	clLast                     string
	compileBegin, compileEnd   int
	lastCompileTag             string
	lastCompileBeginSeq        int64
	lastReqEnterSeq            int64
	compiled                   map[string]int
	slot                       string
	slotSer                    int
	stores                     int
	bcOpen                     bool
	bcSig                      map[string]bool
	bcEnd                      int
	slotReads                  int

	cls    map[string]*c44Cl
	byAddr map[string]*c44Cl
	reg    map[string]bool
	hand   map[string]string // remote addr -> admitted|registered|exited

	admits, exits, rejects int
	closeBegin, closeDone  int64
	admitsAtDone           int
	exitsAtDone            int

	lastWriteK   int
	lastWriteSeq int64
	writesDone   int
	hrecv        map[string][]string
	hmax         map[string]int

	fsEvents, pollTicks, burstFires int
	emptyNameEvents                 int
	watchRetry                      map[string]int
	held                            map[string]int

	viol []run.Violation

	// interleaving fingerprints
	winOpen bool
	win     []string
	winIDs  map[string]int
	cycles  map[string]bool
	hist    []string
	histIDs map[string]int
}

func c44NewModel(prop string) *c44Model {
	return &c44Model{prop: prop, compiled: map[string]int{}, slot: "r0", cls: map[string]*c44Cl{}, byAddr: map[string]*c44Cl{},
		reg: map[string]bool{}, hand: map[string]string{}, hrecv: map[string][]string{}, hmax: map[string]int{},
		watchRetry: map[string]int{}, held: map[string]int{}, cycles: map[string]bool{}, histIDs: map[string]int{}, lastWriteK: -1}
}

func (m *c44Model) violate(clause, trigger, msg string, e d2cli.VerifEvent) {
	if !strings.HasPrefix(clause, m.prop+".") {
		return
	}
	sig := clause
	if trigger != "" {
		sig += ":" + trigger
	}
	for _, v := range m.viol {
		if v.Sig == sig {
			return // one per signature and history is enough
		}
	}
	m.viol = append(m.viol, run.Violation{Clause: clause, Sig: sig, Msg: fmt.Sprintf("%s (at event #%d %s %v)", msg, e.Seq, e.Ev, e.Args)})
}

func (m *c44Model) cl(id string) *c44Cl {
	c := m.cls[id]
	if c == nil {
		c = &c44Cl{id: id}
		m.cls[id] = c
	}
	return c
}

var c44FPKinds = map[string]bool{"req-sent": true, "req-coalesced": true, "cl-wake": true, "cl-park": true, "compile-begin": true,
	"compile-end": true, "bc-store": true, "sig-sent": true, "sig-coalesced": true, "bc-end": true, "slot-read": true, "wl-wake": true,
	"wl-park": true, "wl-write-end": true, "register": true, "unregister": true, "admit": true, "reject": true, "handler-exit": true,
	"close-begin": true, "close-wg-done": true, "wl-ctx-done": true}

func c44Norm(ids map[string]int, id string) string {
	n, ok := ids[id]
	if !ok {
		n = len(ids) + 1
		ids[id] = n
	}
	return strconv.Itoa(n)
}

// fp records the event into the interleaving fingerprints: kinds only, client identities
// renamed by order of first appearance, versions dropped.
func (m *c44Model) fp(e d2cli.VerifEvent) {
	if !c44FPKinds[e.Ev] {
		return
	}
	who := ""
	if len(e.Args) > 0 && (strings.HasPrefix(e.Args[0], "c") || strings.Contains(e.Args[0], ".")) && e.Ev != "slot-read" && e.Ev != "bc-store" && e.Ev != "compile-end" {
		who = e.Args[0]
	}
	h := e.Ev
	if who != "" {
		h += "/" + c44Norm(m.histIDs, who)
	}
	m.hist = append(m.hist, h)
	if e.Ev == "cl-wake" {
		m.winOpen, m.win, m.winIDs = true, nil, map[string]int{}
	}
	if m.winOpen {
		w := e.Ev
		if who != "" {
			w += "/" + c44Norm(m.winIDs, who)
		}
		m.win = append(m.win, w)
		if e.Ev == "cl-park" {
			m.cycles[c44Hash(strings.Join(m.win, " "))] = true
			m.winOpen = false
		}
	}
}

func c44Hash(s string) string {
	h := sha256.Sum256([]byte(s))
	return hex.EncodeToString(h[:6])
}

func (m *c44Model) feed(e d2cli.VerifEvent) {
	m.n = e.Seq
	if e.Ev != "poll-tick" {
		m.prog++
	}
	a := e.Args
	arg := func(i int) string {
		if i < len(a) {
			return a[i]
		}
		return ""
	}
	m.fp(e)
	switch e.Ev {
	case "req-enter":
		m.reqEnter++
		m.lastReqEnterSeq = e.Seq
	case "req-sent":
		m.reqSent++
	case "req-coalesced":
		m.reqCoal++
	case "cl-park":
		m.clLast = "park"
	case "cl-wake":
		m.clWake++
		m.clLast = "wake"
	case "compile-begin":
		m.compileBegin++
		m.lastCompileBeginSeq = e.Seq
		m.clLast = "compiling"
	case "compile-end":
		tag := arg(0)
		if tag == "-" && strings.HasPrefix(arg(1), "err:") {
			tag = strings.TrimPrefix(arg(1), "err:")
		}
		m.compileEnd++
		m.lastCompileTag = tag
		m.compiled[tag]++
		m.clLast = "compiled"
	case "bc-begin":
		m.bcOpen = true
		m.bcSig = map[string]bool{}
	case "bc-store":
		ser := c44Serial(arg(0))
		if ser <= m.slotSer {
			m.violate("C44.slot-model", "store-not-fresh", "broadcast stored a result that is not newer than the slot content "+m.slot, e)
		}
		m.slot, m.slotSer = arg(0), ser
		m.stores++
	case "sig-sent", "sig-coalesced":
		c := m.cl(arg(0))
		if !m.bcOpen {
			m.violate("C44.signal-model", "signal-outside-broadcast", "client signalled outside a broadcast", e)
		}
		if e.Ev == "sig-sent" {
			c.sigSent++
		} else {
			c.sigCoal++
			// The buffer was full, so a wake-up sent earlier is still unconsumed; the
			// signal loop is the only sender and logs under wsclientsMu, so the log agrees.
			if c.sigSent-c.wakes < 1 {
				m.violate("C44.lost-wakeup", "signal-dropped-with-nothing-pending", fmt.Sprintf("wake-up for %s dropped although none was pending (sent %d, consumed %d)", c.id, c.sigSent, c.wakes), e)
			}
		}
		if m.bcSig != nil {
			m.bcSig[c.id] = true
		}
	case "bc-end":
		// register/unregister/signals all happen under wsclientsMu, so at bc-end the
		// registry is exactly the set the signal loop iterated.
		var miss []string
		for id := range m.reg {
			if !m.bcSig[id] {
				miss = append(miss, id)
			}
		}
		if len(miss) > 0 {
			sort.Strings(miss)
			m.violate("C44.signal-model", "registered-client-not-signalled", "broadcast did not signal registered client(s) "+strings.Join(miss, ","), e)
		}
		m.bcOpen = false
		m.bcEnd++
	case "slot-read":
		m.slotReads++
		if arg(0) != m.slot {
			m.violate("C44.slot-model", "read-not-latest-store", fmt.Sprintf("slot read returned %s but the latest stored result is %s", arg(0), m.slot), e)
		}
	case "wl-read":
		m.cl(arg(0)).lastEv = "read"
	case "wl-write-begin":
		c := m.cl(arg(0))
		ser := c44Serial(arg(1))
		if ser < c.maxSer {
			m.violate("C44.client-order", "server-wrote-older-result", fmt.Sprintf("%s is sent result #%d after #%d", c.id, ser, c.maxSer), e)
		}
		if ser > c.maxSer {
			c.maxSer = ser
		}
		c.lastEv = "writing"
	case "wl-write-end":
		c := m.cl(arg(0))
		if arg(2) == "nil" {
			c.writes = append(c.writes, c44ResTag(arg(1)))
		} else {
			c.writeErr = true
		}
		c.lastEv = "written"
	case "wl-park":
		m.cl(arg(0)).lastEv = "park"
	case "wl-wake":
		c := m.cl(arg(0))
		c.wakes++
		c.lastEv = "wake"
		if c.swallowed {
			// counts stay shifted by the swallowed wake-up(s): re-base them
			c.wakes = c.sigSent
			c.swallowed = false
			c.swallowedEver++
		}
	case "wl-ctx-done":
		m.cl(arg(0)).lastEv = "ctx-done"
	case "admit":
		m.admits++
		m.hand[arg(0)] = "admitted"
		if m.closeBegin > 0 {
			m.violate("C45.admit-after-closing", "", fmt.Sprintf("client %s admitted after shutdown began (close-begin is event #%d)", arg(0), m.closeBegin), e)
		}
	case "reject":
		m.rejects++
		if m.closeBegin == 0 {
			m.violate("C45.model", "reject-before-closing", "client rejected although shutdown has not begun", e)
		}
	case "register":
		c := m.cl(arg(0))
		c.addr, c.reg, c.regSlot, c.regSeq = arg(1), true, m.slot, e.Seq
		m.reg[c.id] = true
		m.byAddr[c.addr] = c
		m.hand[c.addr] = "registered"
	case "unregister":
		c := m.cl(arg(0))
		c.unreg = true
		delete(m.reg, c.id)
	case "handler-exit":
		m.exits++
		m.hand[arg(0)] = "exited"
	case "close-begin":
		m.closeBegin = e.Seq
	case "close-wg-done":
		m.closeDone = e.Seq
		m.admitsAtDone, m.exitsAtDone = m.admits, m.exits
		if m.admits != m.exits {
			var open []string
			for addr, st := range m.hand {
				if st != "exited" {
					open = append(open, addr+"="+st)
				}
			}
			sort.Strings(open)
			m.violate("C45.close-returned-early", "", fmt.Sprintf("close() finished waiting with %d client handlers admitted but only %d finished; unfinished: %d", m.admits, m.exits, len(open)), e)
		}
	case "h-write-done":
		m.lastWriteK, _ = strconv.Atoi(arg(0))
		m.lastWriteSeq = e.Seq
		m.writesDone++
	case "h-recv":
		m.hrecv[arg(0)] = append(m.hrecv[arg(0)], arg(1))
		if v := c44Ver(arg(1)); v >= 0 {
			if v < m.hmax[arg(0)] {
				m.violate("C44.client-order", "client-received-older-after-newer", fmt.Sprintf("client %s received v%d after v%d", arg(0), v, m.hmax[arg(0)]), e)
			} else {
				m.hmax[arg(0)] = v
			}
		}
	case "fs-event":
		m.fsEvents++
		if arg(0) == "" {
			m.emptyNameEvents++
		}
	case "poll-tick":
		m.pollTicks++
	case "burst-fire":
		m.burstFires++
	case "watch-retry":
		m.watchRetry[arg(0)]++
	case "fp-hold":
		m.held[arg(0)]++
	case "fp-go":
		m.held[arg(0)]--
	}
}

// compileIdle: every request entered has been sent or coalesced, every token sent has
// been consumed by a wake-up whose cycle has ended, and the loop is back at its select.
func (m *c44Model) compileIdle() bool {
	return m.reqEnter == m.reqSent+m.reqCoal && m.reqSent == m.clWake && m.clLast == "park" && !m.bcOpen
}

// clientsIdle: no handler is between admission and registration, every registered client's
// write loop is parked with every wake-up consumed.
func (m *c44Model) clientsIdle() (bool, string) {
	for addr, st := range m.hand {
		if st == "admitted" {
			return false, "handler " + addr + " admitted, not yet registered"
		}
	}
	for id := range m.reg {
		c := m.cls[id]
		if c.lastEv != "park" {
			return false, c.id + " not parked (" + c.lastEv + ")"
		}
		if c.sigSent != c.wakes && !c.swallowed {
			return false, fmt.Sprintf("%s has %d unconsumed wake-up(s)", c.id, c.sigSent-c.wakes)
		}
	}
	return true, ""
}

// suspects are registered clients whose last event is wl-park although the log still
// counts a wake-up as sent and not consumed. Normally that is the instant between the
// channel receive and its wl-wake event; if the real state says otherwise (channel empty,
// goroutine blocked in the select) the wake-up was consumed without a slot read.
func (m *c44Model) suspects() []*c44Cl {
	var out []*c44Cl
	for id := range m.reg {
		c := m.cls[id]
		if c.lastEv == "park" && c.sigSent != c.wakes && !c.swallowed {
			out = append(out, c)
		}
	}
	return out
}

// ---------------------------------------------------------------------------------
// goroutine-state oracles

type c44G struct {
	state  string
	frames []string
}

func c44Goroutines() []c44G {
	buf := make([]byte, 4<<20)
	n := runtime.Stack(buf, true)
	var out []c44G
	for _, blk := range strings.Split(string(buf[:n]), "\n\n") {
		lines := strings.Split(blk, "\n")
		if len(lines) == 0 || !strings.HasPrefix(lines[0], "goroutine ") {
			continue
		}
		g := c44G{}
		if i := strings.IndexByte(lines[0], '['); i >= 0 {
			g.state = strings.TrimSuffix(strings.TrimSpace(lines[0][i+1:]), "]:")
		}
		for _, ln := range lines[1:] {
			if strings.HasPrefix(ln, "\t") || ln == "" {
				continue
			}
			if j := strings.LastIndexByte(ln, '('); j > 0 {
				ln = ln[:j]
			}
			g.frames = append(g.frames, ln)
		}
		out = append(out, g)
	}
	return out
}

// c44BroadcastBlocked reports a goroutine parked on a channel operation directly inside
// watcher.broadcast. The signal loop is `select { case ch <- x: default: }`, which never
// parks, so such a goroutine means broadcast waits for a client while holding wsclientsMu.
func c44BroadcastBlocked() string {
	for _, g := range c44Goroutines() {
		if !(strings.HasPrefix(g.state, "chan send") || strings.HasPrefix(g.state, "select")) {
			continue
		}
		for _, f := range g.frames {
			if strings.HasPrefix(f, "runtime.") {
				continue
			}
			if strings.HasSuffix(f, "d2cli.(*watcher).broadcast") {
				return "goroutine [" + g.state + "] in " + f
			}
			break
		}
	}
	return ""
}

// c44LeakedFrames returns client-handler frames still alive.
func c44LeakedFrames() []string {
	var out []string
	for _, g := range c44Goroutines() {
		for _, f := range g.frames {
			if strings.Contains(f, "d2cli.(*watcher).handleWatch") || strings.Contains(f, "d2cli.(*wsclient).writeLoop") || strings.Contains(f, "d2cli.wsHeartbeat") {
				out = append(out, f+" ["+g.state+"]")
				break
			}
		}
	}
	sort.Strings(out)
	return out
}

// ---------------------------------------------------------------------------------
// websocket client

type c44Client struct {
	idx   int
	hid   string
	conn  *websocket.Conn
	addr  string
	trace func(ev string, args ...any)

	mu      sync.Mutex
	recv    []string
	readErr error
	done    chan struct{}
	closed  bool
}

// c44Dial performs the upgrade; status is the HTTP status when the upgrade was refused.
func c44Dial(ctx context.Context, server string, idx int, trace func(ev string, args ...any)) (cl *c44Client, status int, err error) {
	if trace == nil {
		trace = d2cli.VerifTrace
	}
	var local string
	var lmu sync.Mutex
	tr := &http.Transport{
		DisableKeepAlives: true,
		DialContext: func(ctx context.Context, network, addr string) (net.Conn, error) {
			c, err := (&net.Dialer{}).DialContext(ctx, network, addr)
			if err == nil {
				lmu.Lock()
				local = c.LocalAddr().String()
				lmu.Unlock()
			}
			return c, err
		},
	}
	c, resp, err := websocket.Dial(ctx, "ws://"+server+"/watch", &websocket.DialOptions{HTTPClient: &http.Client{Transport: tr}})
	if resp != nil {
		status = resp.StatusCode
	}
	lmu.Lock()
	addr := local
	lmu.Unlock()
	if err != nil {
		return &c44Client{idx: idx, hid: fmt.Sprintf("h%d", idx), addr: addr}, status, err
	}
	c.SetReadLimit(1 << 28)
	cl = &c44Client{idx: idx, hid: fmt.Sprintf("h%d", idx), conn: c, addr: addr, done: make(chan struct{}), trace: trace}
	go cl.readLoop()
	return cl, status, nil
}

func (cl *c44Client) readLoop() {
	defer close(cl.done)
	for {
		_, data, err := cl.conn.Read(context.Background())
		if err != nil {
			cl.mu.Lock()
			cl.readErr = err
			cl.mu.Unlock()
			return
		}
		var m struct {
			SVG string `json:"svg"`
			Err string `json:"err"`
		}
		json.Unmarshal(data, &m)
		tag := c44Tag(m.SVG, m.Err)
		cl.mu.Lock()
		cl.recv = append(cl.recv, tag)
		cl.mu.Unlock()
		cl.trace("h-recv", cl.hid, tag)
	}
}

func (cl *c44Client) received() []string {
	cl.mu.Lock()
	defer cl.mu.Unlock()
	return append([]string(nil), cl.recv...)
}

func (cl *c44Client) disconnect(mode string) {
	cl.mu.Lock()
	cl.closed = true
	cl.mu.Unlock()
	if cl.conn == nil {
		return
	}
	if mode == "abort" {
		cl.conn.CloseNow()
	} else {
		cl.conn.Close(websocket.StatusNormalClosure, "")
	}
}

func (cl *c44Client) isClosed() bool {
	cl.mu.Lock()
	defer cl.mu.Unlock()
	return cl.closed
}

// ---------------------------------------------------------------------------------
// environment: temp dir + real watcher + clients + model

type c44SyncBuf struct {
	mu sync.Mutex
	b  bytes.Buffer
}

func (s *c44SyncBuf) Write(p []byte) (int, error) {
	s.mu.Lock()
	defer s.mu.Unlock()
	if s.b.Len() > 1<<20 {
		s.b.Reset()
	}
	return s.b.Write(p)
}
func (s *c44SyncBuf) String() string { s.mu.Lock(); defer s.mu.Unlock(); return s.b.String() }

// c44Watchdog: no event logged for this long while waiting => inconclusive (a compile
// under -race on a saturated machine logs nothing for a minute or more).
var c44Watchdog = 900 * time.Second

var c44WatchdogTotal = 40 * time.Minute

type c44Env struct {
	dir, in, out string
	vw           *d2cli.VerifWatcher
	runDone      chan error
	runErr       error
	runReturned  bool
	m            *c44Model
	res          *run.Result
	clients      map[int]*c44Client
	logBuf       *c44SyncBuf
	aborted      bool
	tmpN         int
	recent       []d2cli.VerifEvent // last events fed (diagnostics)

	// black-box mode: a real `d2 --watch` process streaming its trace to a file
	proc *c44Proc
}

func (h *c44Env) addr() string {
	if h.proc != nil {
		return h.proc.addr
	}
	return h.vw.Addr()
}

// trace puts a harness event into the total order.
func (h *c44Env) trace(ev string, args ...any) {
	if h.proc != nil {
		h.proc.harnessEvent(ev, args...)
		return
	}
	d2cli.VerifTrace(ev, args...)
}

func c44Start(prop string, res *run.Result, initial []byte, tracing bool) (*c44Env, error) {
	dir, err := os.MkdirTemp("", "verif-watch-")
	if err != nil {
		return nil, err
	}
	h := &c44Env{dir: dir, in: filepath.Join(dir, "in.d2"), out: filepath.Join(dir, "out.svg"), m: c44NewModel(prop), res: res,
		clients: map[int]*c44Client{}, logBuf: &c44SyncBuf{}, runDone: make(chan error, 1)}
	if err := os.WriteFile(h.in, initial, 0o644); err != nil {
		return nil, err
	}
	d2cli.VerifReset()
	d2cli.VerifSetTagRegexp(c44TagRE)
	d2cli.VerifSetTracing(tracing)
	vw, err := d2cli.VerifNewWatcher(context.Background(), d2cli.VerifWatcherOpts{InputPath: h.in, OutputPath: h.out,
		Env: []string{"BROWSER=0", "HOME=" + dir, "PATH=" + os.Getenv("PATH")}, LogTo: h.logBuf})
	if err != nil {
		os.RemoveAll(dir)
		return nil, err
	}
	h.vw = vw
	return h, nil
}

func (h *c44Env) goRun() {
	go func() {
		err := h.vw.Run()
		d2cli.VerifTrace("h-run-returned")
		h.runDone <- err
	}()
}

func (h *c44Env) pump() {
	var evs []d2cli.VerifEvent
	if h.proc != nil {
		evs = h.proc.read(h.m.n)
	} else {
		evs = d2cli.VerifEvents(h.m.n)
	}
	for _, e := range evs {
		h.m.feed(e)
		h.recent = append(h.recent, e)
	}
	if len(h.recent) > 128 {
		h.recent = append([]d2cli.VerifEvent(nil), h.recent[len(h.recent)-64:]...)
	}
}

func (h *c44Env) inconclusive(msg string) {
	if h.res.Inconclusive == "" {
		h.res.Inconclusive = msg
	}
	h.aborted = true
}

func (h *c44Env) flushViolations() {
	for _, v := range h.m.viol {
		dup := false
		for _, o := range h.res.Violations {
			if o.Sig == v.Sig {
				dup = true
			}
		}
		if !dup {
			h.res.Viol(v.Clause, v.Sig, v.Msg)
		}
	}
}

// waitFor polls the event model until cond holds. The verdict never depends on the
// clock: the watchdog only makes the case inconclusive, and a stall is a violation only
// when the goroutine state shows broadcast parked on a client channel.
func (h *c44Env) waitFor(what string, cond func() bool) bool {
	if h.aborted {
		return false
	}
	start := time.Now()
	lastN, lastProgress := h.m.prog, time.Now()
	for i := 0; ; i++ {
		h.pump()
		if cond() {
			return true
		}
		if h.m.prog != lastN {
			lastN, lastProgress = h.m.prog, time.Now()
		}
		if i%150 == 149 && h.m.prop == "C44" {
			if s := c44BroadcastBlocked(); s != "" {
				heldClient := false
				for _, n := range h.m.held {
					if n > 0 {
						heldClient = true
					}
				}
				if heldClient {
					h.res.Viol("C44.stall", "C44.stall:broadcast-blocked-on-client-wakeup-channel", "while a client write loop is held before its select, broadcast is parked sending that client's wake-up (holding wsclientsMu): no other client can be signalled and no further compile can start; waiting for "+what+"; "+s)
					h.aborted = true
					return false
				}
				if time.Since(lastProgress) > 10*time.Second {
					h.pump()
					if h.m.prog == lastN && c44BroadcastBlocked() != "" {
						h.res.Viol("C44.stall", "C44.stall:broadcast-blocked-on-client-wakeup-channel", "no event for 10 s and broadcast is parked sending a client wake-up while holding wsclientsMu (deadlock with a client handler that is exiting); waiting for "+what+"; "+s)
						h.aborted = true
						return false
					}
				}
			}
		}
		if time.Since(lastProgress) > c44Watchdog || time.Since(start) > c44WatchdogTotal {
			h.inconclusive(fmt.Sprintf("watchdog: %s not reached, no event for %v (events %d, compile loop %s, req %d/%d/%d wakes %d)", what, time.Since(lastProgress).Round(time.Second), h.m.n, h.m.clLast, h.m.reqEnter, h.m.reqSent, h.m.reqCoal, h.m.clWake) + "\nlast events:\n" + h.tailEvents(15) + "d2 log tail:\n" + h.tailLog(6))
			return false
		}
		time.Sleep(2 * time.Millisecond)
	}
}

// write installs version k in the given style and logs h-write-done afterwards.
func (h *c44Env) write(k int, kind, style string, gapMs int) error {
	data := c44Content(k, kind)
	var err error
	switch style {
	case "rename":
		h.tmpN++
		tmp := filepath.Join(h.dir, fmt.Sprintf("stage%d", h.tmpN))
		if err = os.WriteFile(tmp, data, 0o644); err == nil {
			err = os.Rename(tmp, h.in)
		}
	case "trunc":
		var f *os.File
		f, err = os.OpenFile(h.in, os.O_WRONLY|os.O_TRUNC, 0o644)
		if err == nil {
			if gapMs > 0 {
				time.Sleep(time.Duration(gapMs) * time.Millisecond)
			}
			_, err = f.Write(data)
			f.Close()
		}
	default:
		err = os.WriteFile(h.in, data, 0o644)
	}
	if h.proc != nil {
		// everything the process logged up to now is ordered before the write's
		// completion (conservative: some of it may really have happened after)
		h.pump()
	}
	h.trace("h-write-done", k, style)
	return err
}

// connectedClients are the harness clients that completed the upgrade and were not
// closed by the harness.
func (h *c44Env) connectedClients() []*c44Client {
	var out []*c44Client
	for _, cl := range h.clients {
		if cl.conn != nil && !cl.isClosed() {
			out = append(out, cl)
		}
	}
	sort.Slice(out, func(i, j int) bool { return out[i].idx < out[j].idx })
	return out
}

// quiescent: compile loop idle, all client loops idle, every connected harness client is
// registered and has received everything the server wrote to it.
func (h *c44Env) quiescent() (bool, string) {
	m := h.m
	if !m.compileIdle() {
		return false, "compile loop busy"
	}
	if sus := m.suspects(); len(sus) > 0 {
		if !h.stateConfirmsParked(sus) {
			return false, sus[0].id + " has an unconsumed wake-up"
		}
		for _, c := range sus {
			c.swallowed = true
		}
	}
	if ok, why := m.clientsIdle(); !ok {
		return false, why
	}
	for _, cl := range h.connectedClients() {
		sc := m.byAddr[cl.addr]
		if sc == nil {
			return false, cl.hid + " not registered yet"
		}
		if sc.unreg {
			continue // server dropped it (write error); nothing more will arrive
		}
		if len(m.hrecv[cl.hid]) != len(sc.writes) {
			return false, fmt.Sprintf("%s received %d of %d written", cl.hid, len(m.hrecv[cl.hid]), len(sc.writes))
		}
	}
	return true, ""
}

// stateConfirmsParked decides on the real state, not on the log, that the suspect clients
// cannot make another step: compileCh is empty, their resultsCh is empty, every registered
// write loop is blocked in writeLoop's own select (goroutine profile), and no event was
// logged while looking. In that state no further event can happen without a new request.
func (h *c44Env) stateConfirmsParked(sus []*c44Cl) bool {
	if h.proc != nil || h.vw == nil {
		return false
	}
	n0 := d2cli.VerifEventCount()
	if n0 != h.m.n {
		return false // the model is behind the log
	}
	st := h.vw.State()
	if st.CompilePending != 0 {
		return false
	}
	for _, c := range sus {
		if p, ok := st.PendingByID[c.id]; !ok || p != 0 {
			return false
		}
	}
	inSelect := 0
	for _, g := range c44Goroutines() {
		if !strings.HasPrefix(g.state, "select") {
			continue
		}
		for _, f := range g.frames {
			if strings.HasPrefix(f, "runtime.") {
				continue
			}
			if strings.HasSuffix(f, "d2cli.(*wsclient).writeLoop") {
				inSelect++
			}
			break
		}
	}
	if inSelect < len(h.m.reg) {
		return false
	}
	st2 := h.vw.State()
	for _, c := range sus {
		if p, ok := st2.PendingByID[c.id]; !ok || p != 0 {
			return false
		}
	}
	return d2cli.VerifEventCount() == n0
}

// shutdown closes the watcher and waits for run() to return; bounded because a mutant can
// make close() itself hang.
func (h *c44Env) shutdown() {
	if h.proc != nil {
		h.proc.stop(h)
		for _, cl := range h.clients {
			if cl.conn != nil {
				cl.conn.CloseNow()
			}
		}
		h.pump()
		os.RemoveAll(h.dir)
		return
	}
	d2cli.VerifClearPoints()
	done := make(chan struct{})
	go func() {
		h.vw.Close()
		h.runErr = <-h.runDone
		close(done)
	}()
	select {
	case <-done:
		h.runReturned = true
	case <-time.After(60 * time.Second):
		if h.res.Inconclusive == "" && len(h.res.Violations) == 0 {
			h.res.Inconclusive = "watcher did not shut down within 60 s during cleanup"
		}
	}
	for _, cl := range h.clients {
		if cl.conn != nil {
			cl.conn.CloseNow()
		}
	}
	h.pump()
	os.RemoveAll(h.dir)
}

func (h *c44Env) tailLog(n int) string {
	s := h.logBuf.String()
	lines := strings.Split(strings.TrimSpace(s), "\n")
	if len(lines) > n {
		lines = lines[len(lines)-n:]
	}
	return strings.Join(lines, "\n")
}

func (h *c44Env) tailEvents(n int) string {
	evs := h.recent
	if len(evs) > n {
		evs = evs[len(evs)-n:]
	}
	var b strings.Builder
	for _, e := range evs {
		fmt.Fprintf(&b, "#%d %s %s\n", e.Seq, e.Ev, strings.Join(e.Args, " "))
	}
	return b.String()
}
