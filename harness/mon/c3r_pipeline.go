package mon

// c3r…: small compile→layout→export pipeline shared by the render monitors C30 C31 C32
// C33 C47 (builder-render2). It calls the real d2lib.Compile the way d2cli does: a ruler
// from textmeasure.NewRuler, the layout engine chosen by name, d2svg.Render afterwards.

import (
	"context"
	"io"
	"log/slog"
	"strings"

	"oss.terrastruct.com/d2/d2graph"
	"oss.terrastruct.com/d2/d2layouts/d2dagrelayout"
	"oss.terrastruct.com/d2/d2layouts/d2elklayout"
	"oss.terrastruct.com/d2/d2lib"
	"oss.terrastruct.com/d2/d2renderers/d2svg"
	"oss.terrastruct.com/d2/d2target"
	"oss.terrastruct.com/d2/d2themes/d2themescatalog"
	"oss.terrastruct.com/d2/lib/log"
	"oss.terrastruct.com/d2/lib/textmeasure"
)

func c3rCtx() context.Context {
	// a logger that discards: d2 warns loudly when the context carries none
	return log.With(context.Background(), slog.New(slog.NewTextHandler(io.Discard, nil)))
}

// c3rCompile runs compile + layout + export. engine is "dagre" or "elk". ro is filled by
// d2lib with the diagram's own d2-config (theme, overrides, pad, sketch, center) exactly
// as the CLI does, and must then be handed to d2svg.Render.
func c3rCompile(text, engine string, ro *d2svg.RenderOpts) (*d2target.Diagram, *d2graph.Graph, error) {
	ruler, err := textmeasure.NewRuler() // a fresh ruler per compile, as the CLI does
	if err != nil {
		return nil, nil, err
	}
	eng := engine
	co := &d2lib.CompileOptions{
		Ruler:  ruler,
		Layout: &eng,
		LayoutResolver: func(e string) (d2graph.LayoutGraph, error) {
			if strings.EqualFold(e, "elk") {
				return d2elklayout.DefaultLayout, nil
			}
			return d2dagrelayout.DefaultLayout, nil
		},
	}
	return d2lib.Compile(c3rCtx(), text, co, ro)
}

// c3rBoards flattens a diagram tree (root first).
func c3rBoards(d *d2target.Diagram) []*d2target.Diagram {
	if d == nil {
		return nil
	}
	out := []*d2target.Diagram{d}
	for _, l := range d.Layers {
		out = append(out, c3rBoards(l)...)
	}
	for _, l := range d.Scenarios {
		out = append(out, c3rBoards(l)...)
	}
	for _, l := range d.Steps {
		out = append(out, c3rBoards(l)...)
	}
	return out
}

// c3rThemeIDs lists the catalog's theme ids (all, or the dark catalog only).
func c3rThemeIDs(darkOnly bool) []int64 {
	var out []int64
	if !darkOnly {
		for _, t := range d2themescatalog.LightCatalog {
			out = append(out, t.ID)
		}
	}
	for _, t := range d2themescatalog.DarkCatalog {
		out = append(out, t.ID)
	}
	return out
}

func c3rPtr[T any](v T) *T { return &v }
