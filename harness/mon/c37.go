package mon

import (
	"fmt"
	"strings"

	"verif/gen"
	"verif/run"
)

// C37 — Create and Set change exactly what they name.
//
// Create(key) → (g', id):  the object / connection `id` did not exist before, exists
// after; the only other new objects are containers on its path (for a connection: its
// endpoints and their containers); every pre-existing element is unchanged.
// Set(key, value): the addressed attribute (label, shape, style.*, tooltip; for connections
// also arrowhead shape / label) equals the value — exactly for text attributes, up to
// letter case for keyword-valued ones (shape, style.*) — and every other
// (element, attribute) pair is unchanged.
//
// Outside the statement's domain (counted, not judged): keys that do not address an
// object/connection or one of its attributes (globs, `_`, board keywords layers/…,
// keyword-named objects, edge chains), Set with a nil value or a block-string tag (value
// clause only), Set of a special shape (class, sql_table, … re-interpret the children).
// Elements are matched by their unique label tag; untagged ones by path, which is sound
// here because neither operation may change any ID.
func init() {
	run.Register(&run.Check{
		ID: "C37", Title: "Create and Set change exactly what they name",
		LevelText: "Exploration: along random edit histories every successful Create must add exactly the returned, previously absent object/connection (plus missing containers) and every successful Set must make the addressed label/shape/style/tooltip attribute equal to the given value (case-insensitively for keyword-valued attributes); in both cases the projection of every other element and every other attribute of the target must be unchanged (elements matched by unique labels).",
		Technique: "runtime monitoring: semantic diff of the addressed board before/after each edit, elements matched by unique label tags",
		DesignRef: "§4 C37",
		Rule:      "cases: gen.Edits histories; non-trivial when ≥2 edits of the history succeeded; per-op counters judged_create/judged_set_value/judged_set_side_effects say how many operations were actually judged",
		Chunk:     8,
		CPUBudget: 30,
		Gen:       orcGen,
		Exec:      execC37,
	})
}

func execC37(c run.Case) (res run.Result) {
	var in gen.EditCase
	c.Decode(&in)
	orcRun(in, &res, orcHooks{
		ID: "C37",
		After: func(s *orcStep, res *run.Result) {
			switch s.Call.Kind {
			case "create":
				c37Create(s, res)
			case "set":
				c37Set(s, res)
			}
		},
	})
	return
}

// orcUnchanged lists differences of pre-existing elements (IDs expected stable). IDs are
// compared case-insensitively: d2 identifies objects case-insensitively and spells an ID
// the way its first reference does, so removing or adding a reference may legitimately
// change the letter case of an ID.
type orcSame struct {
	SkipObj  func(pre int) bool
	SkipEdge func(pre int) bool
}

func orcObjSameContent(pre *orcSnap, i int, post *orcSnap, j int, drop ...[]string) string {
	la, _ := orcScalar(pre.Objs[i].Attrs, "label")
	lb, _ := orcScalar(post.Objs[j].Attrs, "label")
	if la == pre.Objs[i].IDVal && lb == post.Objs[j].IDVal && strings.EqualFold(la, lb) {
		// default labels follow the spelling of the ID (first reference wins)
		drop = append(drop, []string{"label"})
	}
	a := orcJSONWithout(pre.Objs[i].Attrs, drop...) + "|near=" + pre.Objs[i].NearRaw + fmt.Sprintf("|class=%v|sql=%v", pre.Objs[i].Class, pre.Objs[i].SQL)
	b := orcJSONWithout(post.Objs[j].Attrs, drop...) + "|near=" + post.Objs[j].NearRaw + fmt.Sprintf("|class=%v|sql=%v", post.Objs[j].Class, post.Objs[j].SQL)
	if a != b {
		return fmt.Sprintf("attributes differ:\n   before %s\n   after  %s", a, b)
	}
	return ""
}

func orcUnchanged(pre, post *orcSnap, o orcSame) (diffs []string, judged int) {
	for i := range pre.Objs {
		if o.SkipObj != nil && o.SkipObj(i) {
			continue
		}
		po := pre.Objs[i]
		j, ok := -1, false
		if po.Tag != "" {
			j, ok = post.objByTag[po.Tag]
		}
		if !ok {
			j, ok = post.byPath[po.PathKey]
			if ok && po.Tag != "" && post.Objs[j].Tag != "" {
				// the tag went elsewhere or vanished and another tagged object sits here
				ok = false
			}
		}
		if !ok {
			diffs = append(diffs, fmt.Sprintf("object %s (%s) no longer exists", pre.ref(i), po.AbsID))
			continue
		}
		judged++
		qo := post.Objs[j]
		if !strings.EqualFold(po.AbsID, qo.AbsID) {
			diffs = append(diffs, fmt.Sprintf("object %s changed ID %s -> %s", pre.ref(i), po.AbsID, qo.AbsID))
		}
		if d := orcObjSameContent(pre, i, post, j); d != "" {
			diffs = append(diffs, fmt.Sprintf("object %s (%s) %s", pre.ref(i), po.AbsID, d))
		}
	}
	postEdgeByID := map[string]int{}
	for j, e := range post.Edges {
		postEdgeByID[e.AbsID] = j
	}
	for i := range pre.Edges {
		if o.SkipEdge != nil && o.SkipEdge(i) {
			continue
		}
		pe := pre.Edges[i]
		j, ok := -1, false
		if pe.Tag != "" {
			j, ok = post.edgeByTag[pe.Tag]
		}
		if !ok {
			j, ok = postEdgeByID[pe.AbsID]
			if ok && pe.Tag != "" && post.Edges[j].Tag != "" {
				ok = false
			}
		}
		if !ok {
			diffs = append(diffs, fmt.Sprintf("connection %s (%s) no longer exists", orcEdgeRef(pre, i), pe.AbsID))
			continue
		}
		judged++
		qe := post.Edges[j]
		if !strings.EqualFold(pe.AbsID, qe.AbsID) {
			diffs = append(diffs, fmt.Sprintf("connection %s changed ID %s -> %s", orcEdgeRef(pre, i), pe.AbsID, qe.AbsID))
		}
		if a, b := pre.edgeContent(i, true), post.edgeContent(j, true); a != b {
			diffs = append(diffs, fmt.Sprintf("connection %s (%s) attributes differ:\n   before %s\n   after  %s", orcEdgeRef(pre, i), pe.AbsID, a, b))
		}
		if pre.Objs[pe.Src].PathKey != post.Objs[qe.Src].PathKey || pre.Objs[pe.Dst].PathKey != post.Objs[qe.Dst].PathKey {
			diffs = append(diffs, fmt.Sprintf("connection %s (%s) is attached to other objects: %s -> %s", orcEdgeRef(pre, i), pe.AbsID, post.Objs[qe.Src].AbsID, post.Objs[qe.Dst].AbsID))
		}
	}
	return
}

func orcEdgeRef(s *orcSnap, i int) string {
	if s.Edges[i].Tag != "" {
		return s.Edges[i].Tag
	}
	return "anon#" + s.Edges[i].AbsID
}

func orcHasPrefix(p, prefix []string) bool { // prefix is a (non-strict) prefix of p
	if len(prefix) > len(p) {
		return false
	}
	return orcPathKey(p[:len(prefix)]) == orcPathKey(prefix)
}

func orcJoinDiffs(d []string) string {
	if len(d) > 6 {
		d = append(d[:6], fmt.Sprintf("… and %d more", len(d)-6))
	}
	return strings.Join(d, "\n")
}

func c37Create(s *orcStep, res *run.Result) {
	k := orcParseKey(s.Call.Key)
	if k.Err != nil || k.Odd != "" || len(k.Attr) > 0 || len(k.EdgeAttr) > 0 {
		res.Inc("skipped_create_key_outside_domain")
		return
	}
	nk := orcParseKey(s.NewKey)
	if nk.Err != nil || nk.Odd != "" || len(nk.Attr) > 0 {
		res.Inc("skipped_create_returned_key_outside_domain")
		return
	}
	pre, post := s.Pre.snap(s.Call.BoardIdx), orcPostSnap(s)
	if post == nil {
		res.Inc("skipped_board_vanished")
		return
	}
	if s.Pre.hollow(s.Call.BoardIdx) {
		res.Inc("skipped_board_declared_without_map")
		return
	}
	if orcWentHollow(s) {
		res.Inc("skipped_board_emptied_and_printed_without_map")
		return
	}
	if s.Pre.hasGlob() {
		res.Inc("skipped_source_has_glob_keys")
		return
	}
	if pre.underSpecial(k.Obj) || (k.Edge && (pre.underSpecial(k.Src) || pre.underSpecial(k.Dst))) {
		// children of class / sql_table shapes are fields, not objects
		res.Inc("skipped_create_inside_class_or_table")
		return
	}
	orcJudged(s, res, "create")
	var allowed [][]string
	if nk.Edge {
		if nk.Index == nil {
			orcViol(res, "C37.create-id-not-an-element", orcSig(s, "C37", "create-id-not-an-element", ""), fmt.Sprintf("Create returned %q which names no single connection\n%s", s.NewKey, s.describe()))
			return
		}
		if pre.findEdge(nk) >= 0 {
			orcViol(res, "C37.create-id-existed", orcSig(s, "C37", "create-id-existed", ""), fmt.Sprintf("Create returned %q, a connection that already existed\n%s", s.NewKey, s.describe()))
		}
		if post.findEdge(nk) < 0 {
			orcViol(res, "C37.create-id-missing", orcSig(s, "C37", "create-id-missing", ""), fmt.Sprintf("Create returned %q but no such connection exists afterwards\n%s", s.NewKey, s.describe()))
		}
		if len(post.Edges) != len(pre.Edges)+1 {
			orcViol(res, "C37.create-edge-count", orcSig(s, "C37", "create-edge-count", ""), fmt.Sprintf("creating one connection changed the number of connections %d -> %d\n%s", len(pre.Edges), len(post.Edges), s.describe()))
		}
		allowed = [][]string{nk.Src, nk.Dst}
	} else {
		if pre.findObj(nk.Obj) >= 0 {
			orcViol(res, "C37.create-id-existed", orcSig(s, "C37", "create-id-existed", ""), fmt.Sprintf("Create returned %q, an object that already existed\n%s", s.NewKey, s.describe()))
		}
		if post.findObj(nk.Obj) < 0 {
			orcViol(res, "C37.create-id-missing", orcSig(s, "C37", "create-id-missing", ""), fmt.Sprintf("Create returned %q but no such object exists afterwards\n%s", s.NewKey, s.describe()))
		}
		if len(post.Edges) != len(pre.Edges) {
			orcViol(res, "C37.create-edge-count", orcSig(s, "C37", "create-edge-count", ""), fmt.Sprintf("creating an object changed the number of connections %d -> %d\n%s", len(pre.Edges), len(post.Edges), s.describe()))
		}
		allowed = [][]string{nk.Obj}
	}
	for j := range post.Objs {
		if _, existed := pre.byPath[post.Objs[j].PathKey]; existed {
			continue
		}
		ok := false
		for _, a := range allowed {
			if orcHasPrefix(a, post.Objs[j].Path) {
				ok = true
			}
		}
		if !ok {
			orcViol(res, "C37.create-extra-object", orcSig(s, "C37", "create-extra-object", ""), fmt.Sprintf("Create(%q) also created object %q, which is not on the path of the returned id %q\n%s", s.Call.Key, post.Objs[j].AbsID, s.NewKey, s.describe()))
			break
		}
	}
	if diffs, _ := orcUnchanged(pre, post, orcSame{}); len(diffs) > 0 {
		orcViol(res, "C37.create-changed-existing", orcSig(s, "C37", "create-changed-existing", ""), fmt.Sprintf("Create changed pre-existing elements:\n%s\n%s", orcJoinDiffs(diffs), s.describe()))
	}
}

// orcPostSnap: the snapshot of the addressed board after the edit (nil if it vanished).
func orcPostSnap(s *orcStep) *orcSnap {
	i := s.Post.boardIndex(s.Pre.Boards[s.Call.BoardIdx].Key)
	if i < 0 {
		return nil
	}
	return s.Post.snap(i)
}

var c37SpecialShapes = map[string]bool{"class": true, "sql_table": true, "sequence_diagram": true, "image": true, "text": true, "code": true, "hierarchy": true}

func c37Set(s *orcStep, res *run.Result) {
	k := orcParseKey(s.Call.Key)
	if k.Err != nil || k.Odd != "" {
		res.Inc("skipped_set_key_outside_domain")
		return
	}
	if !k.Edge && len(k.Obj) == 0 {
		// e.g. the AbsID of an object that is named like a keyword ("label.style.fill")
		res.Inc("skipped_set_key_without_object")
		return
	}
	pre, post := s.Pre.snap(s.Call.BoardIdx), orcPostSnap(s)
	if post == nil {
		res.Inc("skipped_board_vanished")
		return
	}
	if s.Pre.hollow(s.Call.BoardIdx) {
		res.Inc("skipped_board_declared_without_map")
		return
	}
	if orcWentHollow(s) {
		res.Inc("skipped_board_emptied_and_printed_without_map")
		return
	}
	if s.Pre.hasGlob() {
		res.Inc("skipped_source_has_glob_keys")
		return
	}
	if pre.underSpecial(k.Obj) && !(len(k.Attr) > 0 && pre.findObj(k.Obj) >= 0 && !pre.underSpecial(k.Obj[:len(k.Obj)-1])) {
		res.Inc("skipped_set_inside_class_or_table")
		return
	}
	if i := pre.findObj(k.Obj); i >= 0 && len(k.Attr) == 1 && k.Attr[0] == "shape" && c37SpecialShapes[strings.ToLower(pre.Objs[i].Shape)] {
		// changing a class / table / sequence diagram into a plain shape re-interprets its content
		res.Inc("skipped_set_special_shape")
		return
	}
	attr := k.Attr
	if k.Edge {
		attr = k.EdgeAttr
		if k.Index == nil {
			// `a -> b: value` appends a new connection: only side effects are judged
			res.Inc("judged_set_unindexed_edge")
			if len(post.Edges) != len(pre.Edges)+1 {
				orcViol(res, "C37.set-edge-count", orcSig(s, "C37", "set-edge-count", ""), fmt.Sprintf("Set on an unindexed connection key changed the number of connections %d -> %d\n%s", len(pre.Edges), len(post.Edges), s.describe()))
			}
			if diffs, _ := orcUnchanged(pre, post, orcSame{}); len(diffs) > 0 {
				orcViol(res, "C37.set-changed-others", orcSig(s, "C37", "set-changed-others", ""), fmt.Sprintf("Set changed other elements:\n%s\n%s", orcJoinDiffs(diffs), s.describe()))
			}
			return
		}
	}
	if len(attr) > 0 {
		switch attr[0] {
		case "layers", "scenarios", "steps", "classes", "vars":
			res.Inc("skipped_set_board_or_class_key")
			return
		}
	}
	if len(attr) == 1 && attr[0] == "shape" && s.Call.Value != nil && c37SpecialShapes[strings.ToLower(*s.Call.Value)] {
		res.Inc("skipped_set_special_shape")
		return
	}
	// locate the target before and after
	var preT, postT int
	if k.Edge {
		preT, postT = pre.findEdge(k), post.findEdge(k)
	} else {
		preT, postT = pre.findObj(k.Obj), post.findObj(k.Obj)
	}
	if postT < 0 {
		orcViol(res, "C37.set-target-missing", orcSig(s, "C37", "set-target-missing", ""), fmt.Sprintf("after Set the addressed element %q does not exist\n%s", s.Call.Key, s.describe()))
		return
	}
	// JSON path of the addressed attribute
	var path []string
	exact := false
	head := ""
	switch {
	case len(attr) == 0 || (len(attr) == 1 && attr[0] == "label"):
		path, exact = []string{"label"}, true
	case len(attr) == 1 && attr[0] == "shape":
		path = []string{"shape"}
	case len(attr) == 2 && attr[0] == "style":
		path = []string{"style", orcStyleKey(attr[1])}
	case len(attr) == 1 && attr[0] == "tooltip":
		path, exact = []string{"tooltip"}, true
	case len(attr) == 1 && attr[0] == "link":
		path = []string{"link"} // value not judged (links are normalised), side effects are
	case len(attr) == 1 && (attr[0] == "width" || attr[0] == "height" || attr[0] == "icon" || attr[0] == "near"):
		path = []string{attr[0]}
	case len(attr) == 2 && attr[0] == "label" && attr[1] == "near":
		path = []string{"labelPosition"}
	case k.Edge && len(attr) == 2 && (attr[0] == "source-arrowhead" || attr[0] == "target-arrowhead") && (attr[1] == "shape" || attr[1] == "label"):
		head = attr[0]
		path = []string{attr[1]}
		exact = attr[1] == "label"
	default:
		res.Inc("skipped_set_attribute_not_modelled")
		return
	}
	valueJudged := s.Call.Value != nil && s.Call.Tag == nil && head == "" &&
		(path[0] == "label" || path[0] == "shape" || path[0] == "style" || path[0] == "tooltip") ||
		s.Call.Value != nil && s.Call.Tag == nil && head != ""
	if valueJudged {
		var attrs map[string]any
		switch {
		case !k.Edge:
			attrs = post.Objs[postT].Attrs
		case head == "source-arrowhead":
			attrs = post.Edges[postT].SrcHead
		case head == "target-arrowhead":
			attrs = post.Edges[postT].DstHead
		default:
			attrs = post.Edges[postT].Attrs
		}
		got, ok := orcScalar(attrs, path...)
		want := *s.Call.Value
		res.Inc("judged_set_value")
		equal := ok && (got == want || (!exact && strings.EqualFold(got, want)))
		if !equal {
			// how it differs (the cause class of the signature)
			var preAttrs map[string]any
			labelKW := false
			if preT >= 0 {
				switch {
				case !k.Edge:
					preAttrs, labelKW = pre.Objs[preT].Attrs, pre.Objs[preT].LabelKW
				case head == "source-arrowhead":
					preAttrs = pre.Edges[preT].SrcHead
				case head == "target-arrowhead":
					preAttrs = pre.Edges[preT].DstHead
				default:
					preAttrs, labelKW = pre.Edges[preT].Attrs, pre.Edges[preT].LabelKW
				}
			}
			was, had := orcScalar(preAttrs, path...)
			how := "other:" + c37ValueClass(want)
			switch {
			case ok && strings.EqualFold(got, want):
				how = "case-folded:" + c37ValueClass(want)
			case had == ok && was == got:
				how = "ineffective"
				if path[0] == "label" && labelKW && len(attr) == 0 {
					how += ":primary-value-shadowed-by-label-keyword"
				}
			case !ok:
				how = "attribute-absent:" + c37ValueClass(want)
			}
			name := strings.TrimPrefix(strings.Join(append([]string{head}, path...), "."), ".")
			elem := "object"
			if k.Edge {
				elem = "connection"
			}
			orcViol(res, "C37.set-value", orcSig(s, "C37", "set-value", elem+"."+name+":"+how),
				fmt.Sprintf("Set(%q, %q): attribute %s is %q (present=%v) afterwards; before it was %q (present=%v)\n%s", s.Call.Key, want, strings.Join(path, "."), got, ok, was, had, s.describe()))
		}
	} else {
		res.Inc("set_value_not_judged")
	}
	// side effects
	orcJudged(s, res, "set_side_effects")
	same := orcSame{}
	if k.Edge {
		same.SkipEdge = func(i int) bool { return i == preT }
	} else {
		same.SkipObj = func(i int) bool { return i == preT }
	}
	diffs, _ := orcUnchanged(pre, post, same)
	if preT >= 0 {
		if k.Edge {
			drop := [][]string{path}
			if path[0] == "label" {
				drop = append(drop, []string{"language"})
			}
			a, b := pre.edgeContent(preT, true, drop...), post.edgeContent(postT, true, drop...)
			if head != "" {
				// arrowhead attributes live outside Attrs: compare Attrs fully and the other head
				a, b = pre.edgeContent(preT, true), post.edgeContent(postT, true)
				a, b = c37DropHead(a, head), c37DropHead(b, head)
			}
			if a != b {
				diffs = append(diffs, fmt.Sprintf("other attributes of the target connection changed:\n   before %s\n   after  %s", a, b))
			}
			if pre.Edges[preT].AbsID != post.Edges[postT].AbsID {
				diffs = append(diffs, "the target connection changed ID")
			}
		} else {
			drop := [][]string{path}
			if path[0] == "near" {
				drop = nil
			}
			if path[0] == "label" {
				// the language of a label is part of the label; a block string label also
				// implies the text shape
				drop = append(drop, []string{"language"})
				if s.Call.Tag != nil || pre.Objs[preT].Shape == "text" || pre.Objs[preT].Shape == "code" {
					drop = append(drop, []string{"shape"})
				}
			}
			if d := orcObjSameContent(pre, preT, post, postT, drop...); d != "" && path[0] != "near" {
				diffs = append(diffs, "other attributes of the target object changed: "+d)
			}
			if pre.Objs[preT].AbsID != post.Objs[postT].AbsID {
				diffs = append(diffs, "the target object changed ID")
			}
		}
	}
	// new elements: only the target and its containers (target absent before)
	for j := range post.Objs {
		if _, existed := pre.byPath[post.Objs[j].PathKey]; existed {
			continue
		}
		if preT < 0 && !k.Edge && orcHasPrefix(k.Obj, post.Objs[j].Path) {
			continue
		}
		diffs = append(diffs, fmt.Sprintf("new object %q appeared", post.Objs[j].AbsID))
	}
	if len(post.Edges) != len(pre.Edges) {
		diffs = append(diffs, fmt.Sprintf("number of connections changed %d -> %d", len(pre.Edges), len(post.Edges)))
	}
	if len(diffs) > 0 {
		orcViol(res, "C37.set-changed-others", orcSig(s, "C37", "set-changed-others", ""), fmt.Sprintf("Set changed more than the addressed attribute:\n%s\n%s", orcJoinDiffs(diffs), s.describe()))
	}
}

func c37DropHead(content, head string) string {
	// content is "...|sh=…|dh=…|arrows=…": blank the addressed head
	key := "|sh="
	next := "|dh="
	if head == "target-arrowhead" {
		key, next = "|dh=", "|arrows="
	}
	i := strings.Index(content, key)
	j := strings.Index(content, next)
	if i < 0 || j < i {
		return content
	}
	return content[:i] + key + "<addressed>" + content[j:]
}

// c37ValueClass names what is special about a value (for signatures).
func c37ValueClass(v string) string {
	lv := strings.ToLower(v)
	switch {
	case v == "":
		return "empty"
	case lv == "null":
		return "null-like"
	case lv == "true" || lv == "false":
		return "boolean-like"
	case lv == "suspend" || lv == "unsuspend":
		return "suspend-like"
	case strings.TrimSpace(v) != v:
		return "edge-whitespace"
	case strings.ContainsAny(v, "\n\r\t"):
		return "control-whitespace"
	}
	for _, kw := range gen.Keywords {
		if lv == kw && v != kw {
			return "keyword-in-other-case"
		}
	}
	if strings.ContainsAny(v, "\\") {
		return "backslash"
	}
	if strings.ContainsAny(v, "$") {
		return "dollar"
	}
	if strings.ContainsAny(v, "{}[]|;#:'\"`*&@!<>-.") {
		return "syntax-characters"
	}
	for _, r := range v {
		if r > 127 {
			return "non-ascii"
		}
	}
	return "plain"
}
