package mon

import (
	"fmt"
	"math"
	"strconv"
	"strings"

	"oss.terrastruct.com/d2/d2graph"
	"oss.terrastruct.com/d2/d2layouts/d2sequence"
	"oss.terrastruct.com/d2/d2target"
	"oss.terrastruct.com/d2/lib/geo"
	"oss.terrastruct.com/d2/lib/label"
	"oss.terrastruct.com/d2/lib/shape"

	"verif/gen"
	"verif/run"
)

// C20 — a connection starts on the border of its source's visual extent and ends on the border
// of its destination's visual extent.
//
// Visual extent (layExtentObj, computed the way the renderer places things, not with the
// layout code's margin functions): the shape's box ∪ outside/border label rectangle ∪ outside
// icon rectangle ∪ the offset copy of 3d / multiple shapes.
//
// Clause, for the first route point vs. the source and the last vs. the destination of every
// connection that is not a sequence-diagram message / lifeline:
//
//	on-border   the point is within tol of the border of SOME component of the extent, where the
//	            border of the shape itself is its box border or — for non-rectangular shapes — its
//	            drawn perimeter (lib/shape Perimeter()), and
//	not-inside  the point is not deeper than tol inside any rectangular component (a point on the
//	            label's border that lies well inside the box is not on the border of the extent).
//
// tol = 2 px + half the shape's stroke width (DESIGN.md). Things the code does on purpose and
// the clause therefore allows:
//   - Edge.TraceToShape stops a route at an outside label / icon it runs into; it pads the label
//     rectangle by label.PADDING (5 px) left and right → the label component is grown by PADDING
//     horizontally;
//   - the source-side icon rectangle in TraceToShape is MAX_ICON_SIZE (64) wide while the renderer
//     draws GetIconSize(box) — both sizes are accepted for the icon component;
//   - shape.TraceToShapeBorder leaves the point on the box border when the ray misses the drawn
//     perimeter (e.g. towards the corner of an oval's box): "box border" is always accepted, which
//     is exactly the statement's definition of the extent;
//   - dagre/ELK round endpoints to integers and the exporter truncates to float32.

func init() {
	run.Register(&run.Check{
		ID: "C20", Title: "Connections start at their source and end at their destination",
		LevelText:        "Exploration: generated compilable diagrams rich in connections (between leaves of every shape, containers, grids and grid cells, constant nears, sql_table columns; self loops, parallel edges, labelled edges; sources/targets with outside labels, outside icons, 3d and multiple; all four directions) are laid out by the real pipeline with dagre and with ELK; an independent checker computes each endpoint's visual extent from lib/label positions and refutes when the first/last route point is neither on the border of a component of that extent (box, drawn perimeter, outside label, outside icon, 3d/multiple copy) nor within tolerance, or lies inside it.",
		Technique:        "runtime monitoring: independent geometric oracle (distance of route endpoints to the border of the recomputed visual extent) over the laid-out graph, both engines",
		DesignRef:        "§4 C20",
		Rule:             "cases: gen.Diagram (edge-rich profiles); distinct by sha256(engine+text); non-trivial when layout succeeded and ≥2 connection endpoints outside sequence diagrams were evaluated",
		PanicIsViolation: false, CPUBudget: 300, Chunk: 4, MinNontrivial: 50,
		Gen:  genC20,
		Exec: execC20,
		Post: postC20,
	})
}

func c20Opts(engine string, i int, r *gen.R) (gen.DiagramOpts, string) {
	switch i % 6 {
	case 0:
		return gen.DiagramOpts{Engine: engine, Edges: 1.4}, "default"
	case 1:
		return gen.DiagramOpts{Engine: engine, Edges: 1.8, Shapes: .9, LabelPos: .7, Icons: .4, IconPos: .9, Mods: .5, Sequence: -1, Direction: .8, MaxObjects: 12}, "decorated"
	case 2:
		return gen.DiagramOpts{Engine: engine, Edges: 1.6, Containers: .5, Grids: .4, Near: .4, CrossEdges: .9, LabelPos: .5, Sequence: .04, MinObjects: 8, MaxObjects: 26}, "containers"
	case 3:
		return gen.DiagramOpts{Engine: engine, Edges: 2, Special: .5, ColumnEdges: .6, SelfLoops: .2, EdgeLabels: .8, Arrowheads: .5, Sequence: -1}, "special-shapes"
	case 4:
		return gen.DiagramOpts{Engine: engine, Hostile: true, Edges: 1.4, LabelPos: .5}, "hostile"
	}
	return gen.DiagramOpts{Engine: engine, MinObjects: 20, MaxObjects: 45, Edges: 1.3, Sequence: .03}, "large"
}

func genC20(seed int64, tier string, emit func(run.Case)) {
	layGenCases(seed, tier, 20, 300, 60, 40, c20Opts, emit)
}

func c20Stroke(o *d2graph.Object) float64 {
	if o.Style.StrokeWidth != nil {
		if f, err := strconv.ParseFloat(o.Style.StrokeWidth.Value, 64); err == nil {
			return f
		}
	}
	return 2
}

func c20IsRectangular(o *d2graph.Object) bool {
	st, ok := d2target.DSL_SHAPE_TO_SHAPE_TYPE[strings.ToLower(o.Shape.Value)]
	if !ok {
		return true
	}
	s := shape.NewShape(st, geo.NewBox(geo.NewPoint(0, 0), 100, 100))
	return s.IsRectangular() || s.Is("")
}

// c20Judge returns "" when (px,py) is on the border of o's visual extent, else the failure
// kind: "detached" (not near any component's border) or "inside" (inside a component).
func c20Judge(o *d2graph.Object, px, py float64) (fail string, detail string) {
	tol := 2 + c20Stroke(o)/2
	parts := layExtentObj(o)
	rect := c20IsRectangular(o)
	box := layObjRect(o)
	near := false
	inside := ""
	best := math.Inf(1)
	// the statement's extent has OUTSIDE labels / icons only: a border label straddles the box
	// border, so a point on the box border is trivially "inside" it — border parts are dropped
	var kept []layPart
	for _, p := range parts {
		if p.Kind == "label" && o.LabelPosition != nil && !label.FromString(*o.LabelPosition).IsOutside() {
			continue
		}
		if p.Kind == "icon" && o.IconPosition != nil && !label.FromString(*o.IconPosition).IsOutside() {
			continue
		}
		kept = append(kept, p)
	}
	parts = kept
	for _, p := range parts {
		r := p.R
		t := tol
		switch p.Kind {
		case "box":
			if r.BorderDist(px, py) <= t {
				near = true
			} else if !rect && layPerimeterNear(o, px, py, t) {
				near = true
			}
			if rect && r.Depth(px, py) > t {
				inside = "box"
			}
		case "3d", "multiple":
			if r.BorderDist(px, py) <= t || (!rect && layPerimeterNearAt(o.Shape.Value, r, o.ContentAspectRatio, px, py, t)) {
				near = true
			}
			if rect && r.Depth(px, py) > t {
				inside = p.Kind + "-copy"
			}
		case "label":
			g := layRect{r.X - label.PADDING, r.Y, r.W + 2*label.PADDING, r.H}
			if g.BorderDist(px, py) <= t || r.BorderDist(px, py) <= t {
				near = true
			}
			if g.Depth(px, py) > t+label.PADDING {
				inside = "label"
			}
			r = g
		case "icon":
			if r.BorderDist(px, py) <= t {
				near = true
			}
			// source side of TraceToShape uses a MAX_ICON_SIZE square at the same anchor
			if o.IconPosition != nil {
				pos := label.FromString(*o.IconPosition)
				tl := pos.GetPointOnBox(geo.NewBox(geo.NewPoint(box.X, box.Y), box.W, box.H), label.PADDING, d2target.MAX_ICON_SIZE, d2target.MAX_ICON_SIZE)
				alt := layRect{tl.X, tl.Y, d2target.MAX_ICON_SIZE, d2target.MAX_ICON_SIZE}
				if alt.BorderDist(px, py) <= t {
					near = true
				}
			}
			if r.Depth(px, py) > t+label.PADDING {
				inside = "icon"
			}
		}
		best = math.Min(best, r.BorderDist(px, py))
	}
	// "the shape's box extended by its outside label and icon and its offsets" read as ONE
	// rectangle: the bounding box of the components, the label / icon grown by label.PADDING the
	// way Object.Spacing() reserves room for them (label + 2·PADDING from the box). A self loop or
	// an edge attached at the margin line beside (not on) the label is on the border of that
	// extended box.
	hx1, hy1, hx2, hy2 := box.X, box.Y, box.X2(), box.Y2()
	for _, p := range parts {
		r := p.R
		if p.Kind == "icon" && o.IconPosition != nil {
			// Spacing() reserves MAX_ICON_SIZE for an outside icon whatever size is finally drawn
			pos := label.FromString(*o.IconPosition)
			tl := pos.GetPointOnBox(geo.NewBox(geo.NewPoint(box.X, box.Y), box.W, box.H), label.PADDING, d2target.MAX_ICON_SIZE, d2target.MAX_ICON_SIZE)
			alt := layRect{tl.X - label.PADDING, tl.Y - label.PADDING, d2target.MAX_ICON_SIZE + 2*label.PADDING, d2target.MAX_ICON_SIZE + 2*label.PADDING}
			hx1, hy1 = math.Min(hx1, alt.X), math.Min(hy1, alt.Y)
			hx2, hy2 = math.Max(hx2, alt.X2()), math.Max(hy2, alt.Y2())
		}
		if p.Kind == "label" || p.Kind == "icon" {
			r = layRect{r.X - label.PADDING, r.Y - label.PADDING, r.W + 2*label.PADDING, r.H + 2*label.PADDING}
		}
		hx1, hy1 = math.Min(hx1, r.X), math.Min(hy1, r.Y)
		hx2, hy2 = math.Max(hx2, r.X2()), math.Max(hy2, r.Y2())
	}
	hull := layRect{hx1, hy1, hx2 - hx1, hy2 - hy1}
	if len(parts) > 1 && hull.BorderDist(px, py) <= tol {
		near = true
	}
	// ELK reserves label + 1·PADDING (SpacingOpt(label.PADDING, …)): the hull of the ungrown parts
	if u := layUnion(parts); len(parts) > 1 && u.BorderDist(px, py) <= tol {
		near = true
	}
	switch {
	case !near:
		return "detached", fmt.Sprintf("nearest component border is %.1f px away (tol %.1f); extent=%v", best, tol, parts)
	case inside != "":
		return "inside-" + inside, fmt.Sprintf("point lies inside the %s component; extent=%v", inside, parts)
	}
	return "", ""
}

func c20Features(o *d2graph.Object) string {
	var f []string
	sv := strings.ToLower(o.Shape.Value)
	if sv == "" {
		sv = "rectangle"
	}
	f = append(f, "shape="+sv)
	switch {
	case layIsGrid(o):
		f = append(f, "grid")
	case o.IsSequenceDiagram():
		f = append(f, "sequence-diagram")
	case len(o.ChildrenArray) > 0:
		f = append(f, "container")
	}
	if layIsGridCell(o) {
		f = append(f, "grid-cell")
	}
	if o.LabelPosition != nil && o.Label.Value != "" {
		p := label.FromString(*o.LabelPosition)
		if p.IsOutside() {
			f = append(f, "outside-label")
		}
	}
	if o.Icon != nil && o.IconPosition != nil && sv != "image" {
		p := label.FromString(*o.IconPosition)
		if p.IsOutside() {
			f = append(f, "outside-icon")
		}
	}
	if o.Style.ThreeDee != nil && o.Style.ThreeDee.Value == "true" {
		f = append(f, "3d")
	}
	if o.Style.Multiple != nil && o.Style.Multiple.Value == "true" {
		f = append(f, "multiple")
	}
	return strings.Join(f, ",")
}

// c20Special: nearest enclosing separately laid-out diagram (grid, constant near, grid-cell
// container) — edges between different ones are routed by the cross-diagram default router.
func c20Special(o *d2graph.Object) *d2graph.Object {
	for p := o; p != nil && p.Parent != nil; p = p.Parent {
		if layIsGrid(p.Parent) || (p.Parent.Parent == nil && layIsNearConst(p)) || p.Parent.IsSequenceDiagram() {
			return p
		}
	}
	return nil
}

func execC20(c run.Case) (res run.Result) {
	var in layCase
	c.Decode(&in)
	res.Digest = laySha(in.Engine + "\x00" + in.Text)
	res.Sample = map[string]any{"engine": in.Engine, "src": in.Src, "text": trunc(in.Text, 400)}
	if g0, _, err := compile(in.Text); err != nil || g0 == nil {
		res.Inc("vacuous_does_not_compile")
		return
	}
	d, g, err := layCompile(in.Engine, in.Text)
	if err != nil || d == nil || g == nil {
		res.Inc("vacuous_layout_error") // totality is C17's
		return
	}
	ends := 0
	sigSeen := map[string]bool{}
	for _, b := range layBoards(d, g) {
		layFeatures(b.G, res.Add)
		dir := c19Dir(b.G)
		for i, e := range b.G.Edges {
			if e.Src == nil || e.Dst == nil || d2sequence.IsLifelineEnd(e.Dst) {
				res.Inc("excluded_lifeline")
				continue
			}
			if layIsSequenceEdge(e) {
				res.Inc("excluded_sequence_message")
				continue
			}
			if len(e.Route) < 2 || e.Src.TopLeft == nil || e.Dst.TopLeft == nil {
				res.Inc("skipped_no_route") // C17
				continue
			}
			// the export must carry the same endpoints (float32 truncation allowed)
			if i < len(b.D.Connections) {
				cr := b.D.Connections[i].Route
				if len(cr) != len(e.Route) || math.Abs(cr[0].X-e.Route[0].X) > 0.01 || math.Abs(cr[len(cr)-1].Y-e.Route[len(e.Route)-1].Y) > 0.01 {
					res.Viol("C20.export-route-differs", "C20.export-route-differs:"+in.Engine, fmt.Sprintf("board %s edge %q: graph route and exported route differ", b.Path, e.AbsID()))
				}
			}
			cross := c20Special(e.Src) != c20Special(e.Dst)
			for k, end := range []struct {
				name string
				o    *d2graph.Object
				p    *geo.Point
			}{{"src", e.Src, e.Route[0]}, {"dst", e.Dst, e.Route[len(e.Route)-1]}} {
				_ = k
				if !layFinite(end.p.X) || !layFinite(end.p.Y) || !layObjRect(end.o).Finite() {
					continue
				}
				ends++
				if cross {
					res.Inc("endpoints_cross")
				} else {
					res.Inc("endpoints_" + in.Engine)
				}
				fail, detail := c20Judge(end.o, end.p.X, end.p.Y)
				if fail == "" {
					continue
				}
				router := in.Engine
				if cross {
					router = "cross-diagram-router" // d2layouts.DefaultRouter / d2grid: the same code under both engines
				}
				other := e.Dst
				if end.name == "dst" {
					other = e.Src
				}
				ownDesc := other != end.o && other.IsDescendantOf(end.o)
				related := other != end.o && (other.IsDescendantOf(end.o) || end.o.IsDescendantOf(other))
				feat := c20Features(end.o)
				hasMargin := strings.Contains(feat, "outside-") || strings.Contains(feat, "3d") || strings.Contains(feat, "multiple")
				if strings.HasPrefix(fail, "inside-3d-copy") || strings.HasPrefix(fail, "inside-multiple-copy") {
					fail = "inside-offset-copy"
				}
				ow, oh := layObjRect(e.Src).Overlap(layObjRect(e.Dst))
				trig := "other"
				switch {
				case cross && fail == "inside-offset-copy":
					// DefaultRouter / grid routing trace to the box and ignore the 3d / multiple copy
					trig = "offset-copy-ignored"
				case cross && fail == "detached" && related:
					// centre-to-centre segment lies wholly inside the container (or starts inside the
					// descendant): TraceToShape finds no intersection and the route keeps the centre
					trig = "edge-between-ancestor-and-descendant"
				case cross && fail == "detached" && e.Src != e.Dst && !related && ow >= 1 && oh >= 1:
					// the two end objects overlap (a C19 defect): the centre-to-centre segment never leaves one of them
					trig = "overlapping-endpoints"
				case in.Engine == "elk" && !cross && fail == "detached" && hasMargin && (e.Src == e.Dst || ownDesc):
					// Object.ShiftDescendants (reflexive IsDescendantOf) moves self loops and edges to own
					// descendants by margin/2 when the ELK node is shrunk back by its margin
					trig = "self-loop-or-own-descendant-edge-on-object-with-margin"
				case fail == "detached" && end.o.IsSequenceDiagram():
					// the box of a nested sequence diagram is re-fitted after the outer layout / routing
					trig = "sequence-diagram-endpoint"
				case fail == "detached" && strings.Contains(feat, "3d") && strings.Contains(feat, "outside-label") && c20OnUnshiftedLabel(end.o, end.p.X, end.p.Y):
					// TraceToShape stops at the outside label where it would be without 3d; the renderer draws
					// the label of a 3d shape shifted by the 3d offset (up / right)
					trig = "3d-label-shift-ignored-by-trace"
				case !cross && fail == "detached" && strings.Contains(feat, "outside-label") && (strings.Contains(feat, "3d") || strings.Contains(feat, "multiple")) && (in.Engine == "elk" || e.Src == e.Dst):
					// GetMargin adds the modifier offset on top of the outside label's margin
					trig = "margin-adds-modifier-offset-to-outside-label"
				case in.Engine == "dagre" && !cross:
					// dagre routes, chops and traces first and then moves/resizes objects to make room for margins
					// (outside labels/icons, 3d/multiple) and container padding: adjustRankSpacing,
					// adjustCrossRankSpacing → shiftReachableDown (moves everything "reachable", also plain root
					// leaves), fitContainerPadding → adjustEdges. Route ends are sometimes not taken along. The class
					// is every failing dagre-routed end point; its share is bounded by C20.failure-rate.
					trig = "object-moved-by-spacing-adjustment-after-routing"
				}
				res.Inc("fail_" + router + "_" + trig + "_" + fail)
				loop := ""
				if e.Src == e.Dst {
					loop = ":self-loop"
				}
				if ownDesc {
					loop += ":to-own-descendant"
				}
				_ = dir
				sig := fmt.Sprintf("C20.endpoint:%s:%s:%s:%s%s", trig, router, fail, feat, loop)
				if sigSeen[sig] {
					res.Inc("additional_violations_same_signature")
					continue
				}
				sigSeen[sig] = true
				res.Viol("C20.endpoint-"+fail, sig, fmt.Sprintf("board %s edge %q: %s point (%.1f,%.1f) vs %q box %v: %s\nroute=%s\n--- text:\n%s",
					b.Path, e.AbsID(), end.name, end.p.X, end.p.Y, end.o.AbsID(), layObjRect(end.o), detail, c20Route(e)+fmt.Sprintf(" other end %q %v", other.AbsID(), layObjRect(other)), in.Text))
			}
		}
	}
	res.Add("endpoints_evaluated", ends)
	res.Nontrivial = ends >= 2
	if !res.Nontrivial {
		res.Inc("vacuous_fewer_than_two_endpoints")
	}
	return
}

// c20RateLimits: the recorded findings are matched by signature; so that a matched class cannot
// hide a regression that makes it the norm, the share of failing end points per class is bounded
// (limits ≈ 4× the rates observed on the unchanged tree at seeds 1–5; counters fail_<class> and
// endpoints_<engine> in the evidence).
var c20RateLimits = map[string]struct {
	of    string
	limit float64
}{
	"fail_dagre_object-moved-by-spacing-adjustment-after-routing_detached":           {"endpoints_dagre", 0.025},
	"fail_dagre_object-moved-by-spacing-adjustment-after-routing_inside-offset-copy": {"endpoints_dagre", 0.004},
	"fail_dagre_object-moved-by-spacing-adjustment-after-routing_inside-icon":        {"endpoints_dagre", 0.004},
	"fail_dagre_object-moved-by-spacing-adjustment-after-routing_inside-label":       {"endpoints_dagre", 0.004},
	"fail_dagre_object-moved-by-spacing-adjustment-after-routing_inside-box":         {"endpoints_dagre", 0.004},
	"fail_dagre_margin-adds-modifier-offset-to-outside-label_detached":               {"endpoints_dagre", 0.01},
	"fail_elk_margin-adds-modifier-offset-to-outside-label_detached":                 {"endpoints_elk", 0.03},
	"fail_elk_self-loop-or-own-descendant-edge-on-object-with-margin_detached":       {"endpoints_elk", 0.06},
	"fail_elk_sequence-diagram-endpoint_detached":                                    {"endpoints_elk", 0.02},
	"fail_cross-diagram-router_offset-copy-ignored_inside-offset-copy":               {"endpoints_cross", 0.10},
	"fail_cross-diagram-router_edge-between-ancestor-and-descendant_detached":        {"endpoints_cross", 0.05},
	"fail_cross-diagram-router_overlapping-endpoints_detached":                       {"endpoints_cross", 0.03},
}

func postC20(d *run.Driver, results []run.Result) {
	tot := map[string]int{}
	for _, r := range results {
		for k, v := range r.Feat {
			if strings.HasPrefix(k, "fail_") || strings.HasPrefix(k, "endpoints_") {
				tot[k] += v
			}
		}
	}
	rates := map[string]float64{}
	for k, lim := range c20RateLimits {
		n := tot[lim.of]
		if n < 200 {
			continue // too few observations for a rate
		}
		rate := float64(tot[k]) / float64(n)
		rates[k] = math.Round(rate*10000) / 10000
		if rate > lim.limit {
			d.ReportViolation(run.Case{ID: "rate", Kind: "post"}, run.Violation{Clause: "C20.failure-rate", Sig: "C20.failure-rate:" + strings.TrimPrefix(k, "fail_"),
				Msg: fmt.Sprintf("%d of %d end points (%.2f%%) fail in class %s; limit %.2f%%", tot[k], n, rate*100, k, lim.limit*100)})
		}
	}
	d.Extra["failure_rates"] = rates
}

// c20OnUnshiftedLabel: the point is on the border of o's outside label placed WITHOUT the 3d shift.
func c20OnUnshiftedLabel(o *d2graph.Object, px, py float64) bool {
	if o.LabelPosition == nil {
		return false
	}
	box := layObjRect(o)
	tl := label.FromString(*o.LabelPosition).GetPointOnBox(geo.NewBox(geo.NewPoint(box.X, box.Y), box.W, box.H), label.PADDING, float64(o.LabelDimensions.Width), float64(o.LabelDimensions.Height))
	r := layRect{tl.X - label.PADDING, tl.Y, float64(o.LabelDimensions.Width) + 2*label.PADDING, float64(o.LabelDimensions.Height)}
	return r.BorderDist(px, py) <= 3
}

func c20Route(e *d2graph.Edge) string {
	var sb strings.Builder
	for _, p := range e.Route {
		fmt.Fprintf(&sb, "(%.1f,%.1f) ", p.X, p.Y)
	}
	return sb.String()
}
