package mon

import (
	"bytes"
	"encoding/json"
	"fmt"
	"net/url"
	"os"
	"path/filepath"
	"reflect"
	"runtime/debug"
	"sort"
	"strings"
	"sync"

	"verif/gen"
	"verif/proj"
	"verif/run"

	"oss.terrastruct.com/d2/d2ast"
	"oss.terrastruct.com/d2/d2graph"
	"oss.terrastruct.com/d2/d2plugin"
	"oss.terrastruct.com/d2/d2renderers/d2svg"
)

// C26: serializing a graph for an external layout plugin and reading it back yields the
// same objects (hierarchy and order), connections (endpoints, direction, index),
// attributes and geometry, so laying a diagram out through the plugin protocol gives the
// same result as laying it out in-process.
//
// O1 (round trip): for every board graph g — as compiled, and as laid out by dagre —
// g' = DeserializeGraph(SerializeGraph(g)) must have
//
//	π⁺(g') = π⁺(g)     (proj.Graph with geometry: ids, hierarchy, order, attributes, boxes,
//	                     label/icon positions, z-index, routes), and
//	ρ(g')  = ρ(g)      ρ = a reflection walk over the exported fields of Object / Edge /
//	                     Attributes that ignores JSON tags — π marshals Attributes with the same
//	                     encoding/json tags the wire format uses, so a field dropped by a tag
//	                     would vanish from both sides of π; ρ sees it.
//
// Not part of the relation (not "objects, connections, attributes, geometry"): AST back
// pointers (Map, References, Scalar.MapKey), Graph-level fields the format does not carry by
// design (name, legend, theme, nested boards — each board is sent on its own).
//
// O2 (plugin path): the same input laid out in-process by d2dagrelayout and through
// d2plugin's execPlugin → `d2plugin-vdagre` (d2plugin.Serve around the bundled dagre plugin,
// built from the tree under test, found on a private PATH) must render to byte-identical SVG.
func init() {
	run.Register(&run.Check{
		ID: "C26", Title: "The layout-plugin wire format round-trips graphs exactly",
		LevelText: "Exploration: generated diagrams (hostile ids with dots/quotes/case differences, classes, sql tables, grids, sequence diagrams, nears) are (1) serialized and deserialized before and after dagre layout and compared by projection π⁺ and by a tag-independent reflection walk, and (2) laid out in-process and through the exec-plugin protocol by a plugin binary built from the same tree, comparing the rendered SVG bytes.",
		Technique: "runtime monitoring: round-trip oracle on graph projections + differential in-process vs. exec-plugin layout (SVG bytes)",
		DesignRef: "§4 C26",
		Rule:      "cases: gen.Diagram (half with hostile names, tables/classes boosted); distinct by sha256(text); non-trivial when ≥2 objects and ≥1 edge round-tripped before and after layout and the exec-plugin SVG was produced and compared",
		Chunk:     4,
		CPUBudget: 300,
		Needs:     []string{"tools"},
		Gen:       genC26,
		Exec:      execC26,
	})
}

func genC26(seed int64, tier string, emit func(run.Case)) {
	r := gen.New(seed)
	n := tierN(tier, 50, 5000)
	for i := 0; i < n; i++ {
		q := r.Sub(i)
		o := gen.DiagramOpts{MinObjects: 2, MaxObjects: 10, MaxDepth: 3, Latex: -1, Special: .3, Styles: .3, EdgeStyles: .3, Arrowheads: .3,
			LabelPos: .4, Icons: .25, ColumnEdges: .6, Near: .3, Boards: .05, Tooltips: .1, Links: .1}
		o.Hostile = q.P(0.5)
		text := gen.Diagram(q, o)
		if o.Hostile {
			// a backtick or ${ in a name makes dagre's generated JS fail (C17's known defect): such
			// inputs never reach the wire format, so re-draw a few times to keep the case useful
			for k := 0; k < 6 && (strings.Contains(text, "`") || strings.Contains(text, "${")); k++ {
				text = gen.Diagram(q.Sub(1000+k), o)
			}
		}
		kind := "plain"
		if o.Hostile {
			kind = "hostile"
		}
		if i%3 == 2 {
			// shapes NAMED after reserved keywords (quoted in the source), as connection endpoints,
			// at the top level and nested: lookups that treat the last path element as a keyword
			// resolve them to the wrong object
			text, kind = c26KeywordDiagram(q), "keyword-names"
		}
		emit(run.MkCase(fmt.Sprintf("c%06d", i), kind, textCase{Text: text, Src: kind}))
	}
}

var c26KeywordNames = []string{"label", "shape", "icon", "tooltip", "link", "near", "width", "height", "direction", "top", "left",
	"grid-rows", "grid-columns", "grid-gap", "class", "classes", "vars", "style", "layers", "scenarios", "steps", "constraint",
	"opacity", "stroke", "fill", "fill-pattern", "stroke-width", "border-radius", "font", "font-size", "font-color", "bold", "italic",
	"shadow", "multiple", "3d", "animated", "filled", "double-border", "text-transform", "source-arrowhead", "target-arrowhead"}

// c26KeywordDiagram builds a small diagram whose shapes are named after reserved keywords
// (double-quoted, which makes them ordinary names), mixed with plain and case-variant names,
// nested up to two levels, connected by edges written with absolute paths. A statement is
// kept only if the program still compiles (the compiler rejects a few of these names).
func c26KeywordDiagram(r *gen.R) string {
	name := func() string {
		switch r.Weighted(6, 2, 1) {
		case 0:
			return gen.Quote(gen.Pick(r, c26KeywordNames))
		case 1:
			return gen.Name(r, false, 8)
		}
		return gen.Quote(r.RandCase(gen.Pick(r, c26KeywordNames)))
	}
	cur := ""
	try := func(stmt string) bool {
		if _, _, err := compile(cur + stmt + "\n"); err != nil {
			return false
		}
		cur += stmt + "\n"
		return true
	}
	var paths []string
	for i, n := 0, r.Range(2, 4); i < n; i++ {
		p := name()
		if try(p + ": " + gen.Quote(gen.Name(r, false, 6))) {
			paths = append(paths, p)
		}
	}
	for c, nc := 0, r.Range(1, 2); c < nc; c++ {
		cont := name()
		if r.P(0.5) {
			cont = gen.Name(r, false, 6)
		}
		for i, n := 0, r.Range(1, 3); i < n; i++ {
			p := cont + "." + name()
			if try(p + ": " + gen.Quote(gen.Name(r, false, 6))) {
				paths = append(paths, p)
				if r.P(0.3) {
					pp := p + "." + name()
					if try(pp) {
						paths = append(paths, pp)
					}
				}
			}
		}
	}
	if len(paths) >= 2 {
		for i, n := 0, r.Range(2, 6); i < n; i++ {
			a, b := gen.Pick(r, paths), gen.Pick(r, paths)
			if a == b || strings.HasPrefix(a, b+".") || strings.HasPrefix(b, a+".") {
				continue
			}
			st := a + " " + gen.Pick(r, gen.Arrows) + " " + b
			if r.P(0.4) {
				st += ": " + gen.Quote(gen.Name(r, false, 6))
			}
			try(st)
		}
	}
	return cur
}

// ---------------------------------------------------------------------------------------
// ρ: reflection walk (tag independent)

var (
	c26TObject  = reflect.TypeOf(&d2graph.Object{})
	c26TGraph   = reflect.TypeOf(&d2graph.Graph{})
	c26TKeyPath = reflect.TypeOf(&d2ast.KeyPath{})
	c26TURL     = reflect.TypeOf(&url.URL{})
)

func c26Walk(v reflect.Value, path string, out *[]string) {
	switch v.Kind() {
	case reflect.Ptr, reflect.Interface:
		if v.IsNil() {
			*out = append(*out, path+"=nil")
			return
		}
		if v.Kind() == reflect.Ptr {
			switch v.Type() {
			case c26TObject:
				*out = append(*out, path+"=obj:"+v.Interface().(*d2graph.Object).AbsID())
				return
			case c26TGraph:
				return
			case c26TURL:
				*out = append(*out, path+"=url:"+v.Interface().(*url.URL).String())
				return
			case c26TKeyPath:
				kp := v.Interface().(*d2ast.KeyPath)
				var parts []string
				for _, p := range kp.Path {
					if p != nil && p.Unbox() != nil {
						parts = append(parts, p.Unbox().ScalarString())
					}
				}
				*out = append(*out, path+"=keypath:"+strings.Join(parts, "\x1f"))
				return
			}
			if strings.HasPrefix(v.Type().Elem().PkgPath(), "oss.terrastruct.com/d2/d2ast") {
				return // AST back pointers are not part of the wire relation
			}
		}
		c26Walk(v.Elem(), path, out)
	case reflect.Struct:
		t := v.Type()
		for i := 0; i < t.NumField(); i++ {
			f := t.Field(i)
			if !f.IsExported() {
				continue
			}
			switch f.Name {
			case "Graph", "Parent", "Map", "References", "Children", "ChildrenArray", "MapKey":
				if t == c26TObject.Elem() || t == reflect.TypeOf(d2graph.Edge{}) || t == reflect.TypeOf(d2graph.Scalar{}) {
					continue
				}
			}
			c26Walk(v.Field(i), path+"."+f.Name, out)
		}
	case reflect.Slice, reflect.Array:
		if v.Kind() == reflect.Slice && v.IsNil() {
			*out = append(*out, path+"=nil")
			return
		}
		*out = append(*out, fmt.Sprintf("%s.len=%d", path, v.Len()))
		for i := 0; i < v.Len(); i++ {
			c26Walk(v.Index(i), fmt.Sprintf("%s[%d]", path, i), out)
		}
	case reflect.Map:
		if v.IsNil() {
			*out = append(*out, path+"=nil")
			return
		}
		keys := v.MapKeys()
		sort.Slice(keys, func(i, j int) bool { return fmt.Sprint(keys[i]) < fmt.Sprint(keys[j]) })
		for _, k := range keys {
			c26Walk(v.MapIndex(k), fmt.Sprintf("%s[%v]", path, k), out)
		}
	case reflect.Float32, reflect.Float64:
		*out = append(*out, fmt.Sprintf("%s=%v", path, v.Float()))
	default:
		*out = append(*out, fmt.Sprintf("%s=%#v", path, v.Interface()))
	}
}

// c26Rho renders ρ(g): one line per leaf field.
func c26Rho(g *d2graph.Graph) []string {
	var out []string
	if g.Root != nil {
		c26Walk(reflect.ValueOf(&g.Root.Attributes), "root.Attributes", &out)
		var kids []string
		for _, c := range g.Root.ChildrenArray {
			kids = append(kids, c.AbsID())
		}
		out = append(out, "root.children="+strings.Join(kids, "\x1e"))
	}
	out = append(out, fmt.Sprintf("rootLevel=%d", g.RootLevel))
	for i, o := range g.Objects {
		p := fmt.Sprintf("obj[%d]", i)
		out = append(out, p+".absid="+o.AbsID())
		par := "<none>"
		if o.Parent != nil {
			par = o.Parent.AbsID()
		}
		out = append(out, p+".parent="+par)
		var kids []string
		for _, c := range o.ChildrenArray {
			kids = append(kids, c.AbsID())
		}
		out = append(out, p+".children="+strings.Join(kids, "\x1e"))
		var keys []string
		for k, c := range o.Children {
			keys = append(keys, k+"→"+c.AbsID())
		}
		sort.Strings(keys)
		out = append(out, p+".childmap="+strings.Join(keys, "\x1e"))
		c26Walk(reflect.ValueOf(o), p, &out)
	}
	for i, e := range g.Edges {
		p := fmt.Sprintf("edge[%d]", i)
		out = append(out, p+".absid="+e.AbsID())
		src, dst := "<nil>", "<nil>"
		if e.Src != nil {
			src = e.Src.AbsID()
		}
		if e.Dst != nil {
			dst = e.Dst.AbsID()
		}
		out = append(out, p+".src="+src, p+".dst="+dst)
		c26Walk(reflect.ValueOf(e), p, &out)
	}
	return out
}

// c26FieldOf extracts the field path of a ρ line ("obj[3].Attributes.Direction.Value=…" →
// "obj.Attributes.Direction.Value") for signatures.
func c26FieldOf(line string) string {
	if i := strings.Index(line, "="); i >= 0 {
		line = line[:i]
	}
	var sb strings.Builder
	depth := 0
	for _, c := range line {
		switch {
		case c == '[':
			depth++
		case c == ']':
			depth--
		case depth == 0:
			sb.WriteRune(c)
		}
	}
	return sb.String()
}

func c26PiBoard(g *d2graph.Graph) string {
	b := proj.Graph(g, proj.Opts{Geometry: true})
	// graph-level fields are not carried by the wire format by design
	b.Name, b.IsFolderOnly, b.Legend, b.Layers, b.Scenarios, b.Steps = "", false, nil, nil, nil, nil
	return b.String()
}

// c26RoundTrip checks O1 for one board graph.
func c26RoundTrip(res *run.Result, viol func(clause, sig, msg string), g *d2graph.Graph, stage, text string) bool {
	if g == nil || g.Root == nil {
		return false
	}
	// A panic inside the serde functions is a failed round trip (this property owns them), not
	// a crash to be skipped.
	var b []byte
	var err error
	g2 := &d2graph.Graph{}
	var derr error
	if pv, st := c26Recover(func() {
		b, err = d2graph.SerializeGraph(g)
		if err == nil {
			derr = d2graph.DeserializeGraph(b, g2)
		}
	}); pv != nil {
		sig, harness := run.PanicSig(fmt.Sprint(pv), st)
		if harness {
			panic(pv)
		}
		viol("C26.roundtrip-panic", "C26.roundtrip-panic:"+stage+":"+sig, fmt.Sprintf("serde round trip panicked (%s): %v\n%s\n%s", stage, pv, trunc(st, 1500), text))
		return false
	}
	if err != nil {
		res.Inc("vacuous_serialize_error_" + stage)
		return false
	}
	if err := derr; err != nil {
		viol("C26.deserialize-error", "C26.deserialize-error:"+stage, fmt.Sprintf("DeserializeGraph(SerializeGraph(g)) failed (%s): %v\n%s", stage, err, text))
		return false
	}
	res.Inc("roundtrips_" + stage)
	if len(g2.Edges) != len(g.Edges) || len(g2.Objects) != len(g.Objects) {
		viol("C26.roundtrip-count", "C26.roundtrip-count:"+stage, fmt.Sprintf("%d objects / %d edges before, %d / %d after the round trip (%s)\n%s", len(g.Objects), len(g.Edges), len(g2.Objects), len(g2.Edges), stage, text))
		return false
	}
	// An endpoint that does not come back (nil) would make every later AbsID() panic: report it
	// by cause and compare the rest of the graph without those edges.
	inGraph := map[*d2graph.Object]bool{g.Root: true}
	for _, o := range g.Objects {
		inGraph[o] = true
	}
	// endpoint identity: an edge of the new graph must point at THE object of the new graph
	// that stands where the original endpoint stands (same index in Objects), not merely at
	// something whose id string looks right
	objIndex := map[*d2graph.Object]int{}
	for i, o := range g.Objects {
		objIndex[o] = i
	}
	sameObj := func(orig, got *d2graph.Object) bool {
		if orig == g.Root {
			return got == g2.Root
		}
		i, ok := objIndex[orig]
		return !ok || got == g2.Objects[i]
	}
	var keep1, keep2 []*d2graph.Edge
	for i, e := range g.Edges {
		e2 := g2.Edges[i]
		if e.Src != nil && e.Dst != nil && e2.Src != nil && e2.Dst != nil {
			res.Inc("endpoint_identity_checked")
			for _, ep := range []struct {
				which     string
				orig, got *d2graph.Object
			}{{"src", e.Src, e2.Src}, {"dst", e.Dst, e2.Dst}} {
				if !sameObj(ep.orig, ep.got) {
					cls := "other-name"
					if _, kw := d2ast.ReservedKeywords[strings.ToLower(ep.orig.ID)]; kw {
						cls = "endpoint-named-like-reserved-keyword"
					}
					to := "another object"
					if ep.got == g2.Root {
						to = "the root"
					} else if ep.orig.Parent != nil && ep.got.AbsID() == ep.orig.Parent.AbsID() {
						to = "the endpoint's parent"
					}
					viol("C26.roundtrip-endpoint-identity", "C26.roundtrip-endpoint-identity:"+stage+":"+cls,
						fmt.Sprintf("edge %d: %s %q comes back attached to %s (%q) (%s)\n%s", i, ep.which, ep.orig.AbsID(), to, ep.got.AbsID(), stage, text))
				}
			}
		}
		if e.Src == nil || e.Dst == nil {
			res.Inc("edges_with_nil_endpoint_before_roundtrip")
			continue
		}
		if e2.Src == nil || e2.Dst == nil {
			trig := "endpoint-is-a-graph-object"
			lost := e.Dst
			if e2.Src == nil {
				lost = e.Src
			}
			if !inGraph[lost] {
				trig = "endpoint-not-in-graph-objects"
				if strings.Contains(lost.ID, "-lifeline-end-") {
					trig = "sequence-lifeline-end"
				}
			}
			viol("C26.roundtrip-endpoint-lost", "C26.roundtrip-endpoint-lost:"+stage+":"+trig,
				fmt.Sprintf("edge %d (%s → %s) comes back from the serde round trip with a nil endpoint (%s)\n%s", i, e.Src.AbsID(), e.Dst.AbsID(), stage, text))
			continue
		}
		keep1, keep2 = append(keep1, e), append(keep2, e2)
	}
	if len(keep1) != len(g.Edges) {
		c1, c2 := *g, *g2
		c1.Edges, c2.Edges = keep1, keep2
		g, g2 = &c1, &c2
	}
	p1, p2 := c26PiBoard(g), c26PiBoard(g2)
	if p1 != p2 {
		viol("C26.roundtrip-pi", "C26.roundtrip-pi:"+stage+":"+c26PiDiffClass(p1, p2), fmt.Sprintf("π⁺ differs after the serde round trip (%s):\n%s\n%s", stage, proj.Diff(p1, p2), text))
	}
	r1, r2 := c26Rho(g), c26Rho(g2)
	if len(r1) != len(r2) {
		viol("C26.roundtrip-rho", "C26.roundtrip-rho:"+stage+":shape-of-graph", fmt.Sprintf("ρ has %d leaves before and %d after the round trip (%s): %s\n%s", len(r1), len(r2), stage, c26FirstDiff(r1, r2), text))
	} else {
		seen := map[string]bool{}
		for i := range r1 {
			if r1[i] != r2[i] {
				f := c26FieldOf(r1[i])
				if seen[f] {
					continue
				}
				seen[f] = true
				viol("C26.roundtrip-rho", "C26.roundtrip-rho:"+stage+":"+f, fmt.Sprintf("field differs after the serde round trip (%s):\n before %s\n after  %s\n%s", stage, r1[i], r2[i], text))
			}
		}
	}
	res.Add("rho_leaves_compared", len(r1))
	return true
}

// c26Recover runs f and returns the panic value and stack, if any.
func c26Recover(f func()) (pv any, stack string) {
	defer func() {
		if e := recover(); e != nil {
			pv, stack = e, string(debug.Stack())
			// drop the frames of this deferred function: keep what is below the panic call
			if i := strings.Index(stack, "\npanic("); i >= 0 {
				stack = stack[i+1:]
			}
		}
	}()
	f()
	return nil, ""
}

func c26FirstDiff(a, b []string) string {
	for i := 0; i < len(a) && i < len(b); i++ {
		if a[i] != b[i] {
			return fmt.Sprintf("first difference: %q vs %q", a[i], b[i])
		}
	}
	return "one is a prefix of the other"
}

// c26PiDiffClass names the JSON key of the first differing π line.
func c26PiDiffClass(a, b string) string {
	la, lb := strings.Split(a, "\n"), strings.Split(b, "\n")
	for i := 0; i < len(la) && i < len(lb); i++ {
		if la[i] != lb[i] {
			ln := strings.TrimSpace(la[i])
			if j := strings.Index(ln, `":`); j > 0 && strings.HasPrefix(ln, `"`) {
				return ln[1:j]
			}
			return "value"
		}
	}
	return "length"
}

// ---------------------------------------------------------------------------------------
// exec plugin

var (
	c26PluginMu  sync.Mutex
	c26Plugin    d2plugin.Plugin
	c26PluginErr error
)

// c26ExecPlugin finds `d2plugin-vdagre` the way the CLI finds external plugins
// (d2plugin.ListPlugins + FindPlugin over $PATH), on a private PATH that holds nothing else.
func c26ExecPlugin() (d2plugin.Plugin, error) {
	c26PluginMu.Lock()
	defer c26PluginMu.Unlock()
	// d2 gives `<plugin> info` 10 s; on a starved machine that can expire, so discovery is
	// retried (a wall-clock effect must never decide anything).
	for try := 0; try < 60 && c26Plugin == nil; try++ {
		c26PluginErr = nil
		c26FindPlugin()
	}
	return c26Plugin, c26PluginErr
}

func c26FindPlugin() {
	func() {
		root := os.Getenv("VERIF_ROOT")
		if root == "" {
			root = "/verif"
		}
		bin := filepath.Join(root, "bin", "vplugin")
		if _, err := os.Stat(bin); err != nil {
			c26PluginErr = fmt.Errorf("plugin binary missing (./check builds it for Needs=tools): %w", err)
			return
		}
		dir := filepath.Join(root, "bin", "c26-path")
		os.MkdirAll(dir, 0o755)
		link := filepath.Join(dir, "d2plugin-vdagre")
		if dst, err := os.Readlink(link); err != nil || dst != bin {
			os.Remove(link)
			if err := os.Symlink(bin, link); err != nil && !os.IsExist(err) {
				c26PluginErr = err
				return
			}
		}
		os.Setenv("PATH", dir)
		ps, err := d2plugin.ListPlugins(c2rCtx())
		if err != nil {
			c26PluginErr = err
			return
		}
		p, err := d2plugin.FindPlugin(c2rCtx(), ps, "vdagre")
		if err != nil {
			c26PluginErr = fmt.Errorf("FindPlugin(vdagre): %w", err)
			return
		}
		info, err := p.Info(c2rCtx())
		if err != nil || info.Type != "binary" {
			c26PluginErr = fmt.Errorf("vdagre is not an exec plugin: %+v %v", info, err)
			return
		}
		c26Plugin = p
	}()
}

// c26Starved: the failure is a wall-clock timeout of the plugin subprocess (d2's own 10 s /
// 2 min limits), which says nothing about the wire format.
func c26Starved(err error) bool {
	s := err.Error()
	return strings.Contains(s, "signal: killed") || strings.Contains(s, "deadline exceeded") || strings.Contains(s, "context canceled")
}

func c26ErrClass(err error) string {
	s := err.Error()
	switch {
	case strings.Contains(s, "failed to unmarshal"):
		return "unmarshal"
	case strings.Contains(s, "could not find object"):
		return "object-lost"
	case strings.Contains(s, "nil pointer") || strings.Contains(s, "panic"):
		return "plugin-panic"
	case strings.Contains(s, "exit status"):
		return "plugin-exit"
	}
	return "other"
}

func execC26(c run.Case) (res run.Result) {
	var in textCase
	c.Decode(&in)
	seenSig := map[string]bool{}
	viol := func(clause, sig, msg string) {
		if seenSig[sig] {
			res.Inc("repeat_violations_same_case")
			return
		}
		seenSig[sig] = true
		res.Viol(clause, sig, msg)
	}
	// ---- O1 before layout
	g0, _, err := compile(in.Text)
	if err != nil || g0 == nil {
		res.Inc("vacuous_compile_error")
		return
	}
	c2rFeatures(in.Text, res.Inc)
	res.Inc("kind_" + in.Src)
	nObj, nEdge := 0, 0
	okPre := true
	for _, g := range c2rGraphs(g0) {
		nObj += len(g.Objects)
		nEdge += len(g.Edges)
		if !c26RoundTrip(&res, viol, g, "compiled", in.Text) {
			okPre = false
		}
	}
	// ---- in-process dagre
	ro1 := &d2svg.RenderOpts{}
	d1, g1, err := c2rCompileShared(in.Text, "dagre", nil, ro1)
	if err != nil || d1 == nil {
		res.Inc("vacuous_inprocess_layout_error")
		return
	}
	okPost := true
	for _, g := range c2rGraphs(g1) {
		if !c26RoundTrip(&res, viol, g, "laid-out", in.Text) {
			okPost = false
		}
	}
	svg1, err := c2rRenderAll(d1, ro1)
	if err != nil {
		res.Inc("vacuous_render_error")
		return
	}
	// ---- O2 exec plugin
	plug, perr := c26ExecPlugin()
	if perr != nil {
		res.Inconclusive = "exec plugin unavailable: " + perr.Error()
		return
	}
	ro2 := &d2svg.RenderOpts{}
	d2, _, err := c2rCompileShared(in.Text, "dagre", plug.Layout, ro2)
	for try := 0; try < 3 && err != nil && c26Starved(err); try++ {
		res.Inc("exec_plugin_timeout_retries")
		ro2 = &d2svg.RenderOpts{}
		d2, _, err = c2rCompileShared(in.Text, "dagre", plug.Layout, ro2)
	}
	compared := false
	if err != nil && c26Starved(err) {
		res.Inconclusive = "exec plugin subprocess timed out repeatedly (machine starved): " + trunc(err.Error(), 300)
		return
	}
	if err != nil || d2 == nil {
		viol("C26.exec-layout-error", "C26.exec-layout-error:"+c26ErrClass(err), fmt.Sprintf("in-process dagre succeeded, the exec plugin path failed: %v\n%s", trunc(fmt.Sprint(err), 1200), in.Text))
	} else {
		svg2, err := c2rRenderAll(d2, ro2)
		if err != nil {
			viol("C26.exec-render-error", "C26.exec-render-error", fmt.Sprintf("render after exec-plugin layout failed: %v\n%s", err, in.Text))
		} else {
			compared = true
			res.Inc("svg_pairs_compared")
			if !bytes.Equal(svg1, svg2) {
				j1, _ := json.MarshalIndent(d1, "", " ")
				j2, _ := json.MarshalIndent(d2, "", " ")
				cls := "svg-only"
				diff := ""
				if !bytes.Equal(j1, j2) {
					cls = c26PiDiffClass(string(j1), string(j2))
					diff = proj.Diff(string(j1), string(j2))
				}
				viol("C26.exec-svg-differs", "C26.exec-svg-differs:"+cls, fmt.Sprintf("SVG of in-process dagre (%d bytes) and of the exec-plugin path (%d bytes) differ; exported diagram: %s\n%s", len(svg1), len(svg2), diff, in.Text))
			}
		}
	}
	res.Nontrivial = nObj >= 2 && nEdge >= 1 && okPre && okPost && compared
	res.Sample = map[string]any{"kind": in.Src, "objects": nObj, "edges": nEdge, "text": trunc(in.Text, 300)}
	return
}
