// Package mon holds one monitor per property (registered from init()).
package mon

import (
	"errors"
	"os"
	"strings"
	"sync"

	"verif/gen"

	"oss.terrastruct.com/d2/d2ast"
	"oss.terrastruct.com/d2/d2compiler"
	"oss.terrastruct.com/d2/d2graph"
	"oss.terrastruct.com/d2/d2parser"
	"oss.terrastruct.com/d2/d2target"
)

func repoDir() string {
	if d := os.Getenv("VERIF_REPO"); d != "" {
		return d
	}
	return "/repo"
}

var (
	corpusOnce sync.Once
	corpus     []string
)

// Corpus returns the repository's own D2 scripts (read once per process).
func Corpus() []string {
	corpusOnce.Do(func() { corpus = gen.Corpus(repoDir()) })
	return corpus
}

// n returns the per-tier case count.
func tierN(tier string, quick, thorough int) int {
	if tier == "thorough" {
		return thorough
	}
	return quick
}

// parseOK parses text and reports whether it is error free.
func parseOK(text string) (*d2ast.Map, bool) {
	m, err := d2parser.Parse("x.d2", strings.NewReader(text), nil)
	return m, err == nil && m != nil
}

// compile compiles text without layout.
func compile(text string) (*d2graph.Graph, *d2target.Config, error) {
	return d2compiler.Compile("x.d2", strings.NewReader(text), nil)
}

func isParseError(err error) bool {
	var pe *d2parser.ParseError
	return errors.As(err, &pe)
}

type textCase struct {
	Text string `json:"text"`
	Src  string `json:"src,omitempty"` // generator that produced it
}
