package mon

import (
	"fmt"
	"strings"

	"verif/gen"
	"verif/model"
	"verif/model/globexp"
	"verif/proj"
	"verif/run"
)

// C12 — globs apply to exactly the matching objects and connections, even later ones.
//
// Oracle (metamorphic, through the real compiler): model.Expand interprets the generated
// program with an independent reference matcher and its own model of what exists at every
// point of the source, and produces a glob-free twin (explicit declarations on the chosen
// targets, placed at the glob's position for existing targets and directly after a bare
// creation statement for later ones). π(Compile(P)) must equal π(Compile(expand(P))) as a
// multiset per board (objects and connections produced by one glob have no source order among
// themselves; order is C09's business).
//
// Scope decisions (DESIGN §4 C12): a glob's scope is its lexical block — programs in which a
// target is created in a re-opened scope after the glob's block closed are generated and
// counted, not judged; so are filtered globs followed by creation events (d2 re-evaluates
// filters on every later creation, the statement is silent), and globs whose key names an
// absent object (`x.*.shape: v` creates x in d2; the statement is silent).

func init() {
	run.Register(&run.Check{
		ID: "C12", Title: "Globs apply to exactly the matching objects and connections, even later ones",
		LevelText: "Exploration: for every generated program with 1–4 glob statements (*, affix patterns, **, ***, filters, connection-creating and connection-reference globs, nested scopes, layers; names with ASCII and non-ASCII case pairs) the monitor compiles the program and the glob-free twin produced by a reference matcher/expander and requires equal projections (multiset per board).",
		Technique: "runtime monitoring: metamorphic oracle compile(P) = compile(expand(P)) with an independent reference glob matcher and expansion model (model/glob.go, model/globexp)",
		DesignRef: "§4 C12",
		Rule:      "cases: gen.GlobProgram (structured AST rendered in the worker); distinct by sha256 of the rendered text; non-trivial when the program was judged (inside the judged fragment, both compilations succeeded) and the reference expansion applied globs to ≥1 later-created target or ≥2 existing targets or created/updated ≥1 connection",
		Chunk:     32,
		Gen:       genC12,
		Exec:      execC12,
	})
}

type c12In struct {
	Prog []*gen.LStmt `json:"prog"`
}

func genC12(seed int64, tier string, emit func(run.Case)) {
	r := gen.New(seed)
	n := tierN(tier, 2400, 120000)
	for i := 0; i < n; i++ {
		q := r.Sub(i)
		emit(run.MkCase(fmt.Sprintf("c%07d", i), "glob", c12In{Prog: gen.GlobProgram(q, tier == "thorough" && q.P(0.5))}))
	}
}

type c12Verdict struct {
	clause, detail string
	info           globexp.GlobInfo
	vacuous        string
	textP, textT   string
	piP            string
}

func c12Judge(prog []*gen.LStmt, match func(string, string) bool) (v c12Verdict) {
	twin, info := globexp.Expand(prog, match)
	v.info = info
	v.textP, v.textT = gen.LRender(prog), gen.LRender(twin)
	gP, _, errP := compile(v.textP)
	if len(info.Unjudged) > 0 {
		v.vacuous = "unjudged"
		return
	}
	gT, _, errT := compile(v.textT)
	switch {
	case errP != nil && errT != nil:
		v.vacuous = "vacuous_both_rejected"
		v.detail = c12ErrClass(errP.Error())
		return
	case errT != nil:
		v.vacuous = "vacuous_twin_error"
		v.detail = fmt.Sprintf("%v\n%s", errT, v.textT)
		return
	case errP != nil:
		v.clause = "C12.glob-program-rejected"
		v.detail = fmt.Sprintf("the glob-free twin compiles but the program fails: %v\nprogram:\n%s\ntwin:\n%s", errP, v.textP, v.textT)
		return
	}
	pP, pT := proj.Graph(gP, proj.Opts{}).Sorted().String(), proj.Graph(gT, proj.Opts{}).Sorted().String()
	v.piP = pP
	if pP != pT {
		v.clause = "C12.expansion-differs"
		v.detail = fmt.Sprintf("program:\n%s\ntwin (reference expansion):\n%s\nπ(program) vs π(twin): %s", v.textP, v.textT, proj.Diff(pP, pT))
	}
	return
}

// c12Sig names the trigger on the shrunk witness. Most specific first; the named triggers are
// predicates evaluated by the reference expander on the witness (globexp.GlobInfo.Feat) or by
// re-judging it under a deliberately defective matcher ("does this defect explain d2?").
func c12Sig(prog []*gen.LStmt, v c12Verdict) string {
	if v.clause == "C12.expansion-differs" {
		if u := c12Judge(prog, model.GlobMatchUnanchored); u.clause == "" && u.vacuous == "" {
			return v.clause + ":pattern-not-anchored-at-end"
		}
		if u := c12Judge(prog, model.GlobMatchLower); u.clause == "" && u.vacuous == "" {
			return v.clause + ":case-compared-by-lower-casing-not-folding"
		}
	}
	f := v.info.Feat
	pre := ""
	if v.clause == "C12.expansion-differs" && f["object_deleted"] > 0 && f["object_deleted_while_glob_active"] == 0 {
		// two defects at once: the unanchored matcher made d2 apply a glob to the object that is
		// deleted afterwards
		if u := c12Judge(prog, model.GlobMatchUnanchored); u.info.Feat["object_deleted_while_glob_active"] > 0 {
			f = u.info.Feat
			pre = "pattern-not-anchored-at-end+"
		}
	}
	errClass := ""
	if v.clause == "C12.glob-program-rejected" {
		d := strings.TrimPrefix(v.detail, "(shrunk) ")
		d = strings.TrimPrefix(d, "the glob-free twin compiles but the program fails: ")
		if i := strings.Index(d, ": "); i >= 0 && strings.HasPrefix(d, "x.d2:") {
			d = d[i+2:]
		}
		errClass = ":" + c12ErrClass(d)
	}
	switch {
	case f["object_deleted"] > 0 && f["deleted_object_recreated_while_glob_active"] > 0:
		return v.clause + ":object-deleted-and-recreated-while-glob-active" + errClass
	case f["object_deleted"] > 0 && f["deleted_object_named_literally_by_active_glob"] > 0:
		return v.clause + ":deleted-object-named-literally-by-active-glob" + errClass
	case f["object_deleted"] > 0 && f["object_deleted_while_glob_active"] > 0:
		return v.clause + ":" + pre + "object-deleted-after-glob-applied" + errClass
	case f["edge_ref_glob_literal_index"] > 0 && v.clause == "C12.glob-program-rejected":
		return v.clause + ":connection-reference-glob-with-literal-index" + errClass
	case f["identical_glob_declaration_repeated"] > 0:
		return v.clause + ":identical-glob-declaration-repeated" + errClass
	case f["new_target_attribute_set_by_two_globs"] > 0:
		return v.clause + ":two-globs-set-same-attribute-of-new-target"
	}
	return v.clause + ":" + strings.Join(v.info.SigKeys(), "+") + errClass
}

func execC12(c run.Case) (res run.Result) {
	var in c12In
	c.Decode(&in)
	v := c12Judge(in.Prog, nil)
	res.Digest = v.textP
	res.Sample = map[string]any{"text": trunc(v.textP, 500)}
	for k, n := range v.info.Feat {
		res.Add("feat_"+k, n)
	}
	res.Add("globs", v.info.Globs)
	res.Add("glob_targets_existing", v.info.EagerTargets)
	res.Add("glob_targets_created_later", v.info.LazyTargets)
	res.Add("connections_created_by_glob", v.info.EdgesByGlob)
	res.Add("connection_reference_applications", v.info.EdgeRefApplied)
	if v.vacuous != "" {
		res.Inc(v.vacuous)
		for k := range v.info.Unjudged {
			res.Inc("unjudged_" + k)
		}
		if v.vacuous == "vacuous_twin_error" {
			res.Inc("vacuous_twin_error:" + c12ErrClass(v.detail))
		}
		if v.vacuous == "vacuous_both_rejected" {
			res.Inc("vacuous_both_rejected:" + v.detail)
		}
		return
	}
	if v.clause == "C12.expansion-differs" {
		// cheap classification first: the unanchored-suffix defect explains most disagreements;
		// those are reported unshrunk (shrinking costs up to 250 compilations per case)
		if u := c12Judge(in.Prog, model.GlobMatchUnanchored); u.clause == "" && u.vacuous == "" {
			res.Viol(v.clause, v.clause+":pattern-not-anchored-at-end", v.detail)
			return
		}
	}
	if v.clause != "" {
		small := gen.LShrink(in.Prog, func(p []*gen.LStmt) bool {
			w := c12Judge(p, nil)
			return w.clause == v.clause && (v.clause != "C12.glob-program-rejected" || c12RejClass(w.detail) == c12RejClass(v.detail))
		}, 90)
		w := c12Judge(small, nil)
		if w.clause == v.clause {
			w.detail = "(shrunk) " + w.detail
			res.Viol(v.clause, c12Sig(small, w), w.detail)
		} else {
			res.Viol(v.clause, c12Sig(in.Prog, v), v.detail)
		}
		return
	}
	res.Inc("judged")
	res.Nontrivial = v.info.LazyTargets >= 1 || v.info.EagerTargets >= 2 || v.info.EdgesByGlob+v.info.EdgeRefApplied >= 1
	return
}

func c12RejClass(detail string) string {
	d := strings.TrimPrefix(detail, "the glob-free twin compiles but the program fails: ")
	if i := strings.Index(d, ": "); i >= 0 && strings.HasPrefix(d, "x.d2:") {
		d = d[i+2:]
	}
	return c12ErrClass(d)
}

// c12ErrClass strips quoted fragments and positions from an error text so that it can be used
// as a counter key / signature component.
func c12ErrClass(s string) string {
	if i := strings.Index(s, "\n"); i >= 0 {
		s = s[:i]
	}
	var sb strings.Builder
	inq := false
	for _, r := range s {
		switch {
		case r == '"':
			inq = !inq
			if !inq {
				sb.WriteString(`"…"`)
			}
		case inq:
		case r >= '0' && r <= '9':
		default:
			sb.WriteRune(r)
		}
	}
	out := []rune(sb.String())
	if len(out) > 90 {
		out = out[:90]
	}
	return string(out)
}
