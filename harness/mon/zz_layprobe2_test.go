package mon

import (
	"fmt"
	"testing"
)

func TestLayProbe2(t *testing.T) {
	for _, text := range []string{"x: {\n shape: sequence_diagram\n h; e\n \"q.n\"\n g: {i: {e -> \"q.n\"}}\n}\n", "x: {\n shape: sequence_diagram\n h; e\n qn\n g: {i: {e -> qn}}\n}\n"} {
		g, _, err := compile(text)
		fmt.Println(text, err)
		for _, o := range g.Objects {
			var kids []string
			for _, c := range o.ChildrenArray {
				kids = append(kids, c.AbsID())
			}
			fmt.Printf("  obj %q parent=%q kids=%v note=%v group=%v\n", o.AbsID(), o.Parent.AbsID(), kids, o.IsSequenceDiagramNote(), o.IsSequenceDiagramGroup())
		}
		for _, e := range g.Edges {
			fmt.Printf("  edge %s src=%q dst=%q\n", e.AbsID(), e.Src.AbsID(), e.Dst.AbsID())
		}
	}
}
