package mon

import (
	"fmt"
	"strings"

	"oss.terrastruct.com/d2/d2format"

	"verif/gen"
	"verif/proj"
	"verif/run"
)

// C41 — edits on a board stay within that board.
//
// An edit addressed to board b may change b and the boards that inherit from b (the C15
// relation: a scenario inherits from its enclosing board, a step from the previous step —
// the first step from the enclosing board —, transitively; layers inherit nothing; the
// generated programs have no vars/classes, which layers would inherit). Every other board —
// in particular the board b itself inherits from, enclosing boards, sibling layers and
// the boards nested *inside* b (they only share b's text) — must compile to the same π as
// before. This is judged
//   - after every successful edit, on the returned graph, and
//   - after every refused edit, on the graph the caller still holds: d2oracle edits the AST
//     of the input graph in place, so the caller's source is Format(g.AST); when that still
//     compiles the unaffected boards must be unchanged (when it does not compile the case is
//     counted vacuous: a whole-file compile error hides every board).
// Keys that themselves name a board of b (`layers.x…`) address that nested board too: boards
// enclosed by b are then not required to be unchanged.
func init() {
	run.Register(&run.Check{
		ID: "C41", Title: "Edits on a board stay within that board",
		LevelText: "Exploration: along random edit histories on generated board trees (layers, scenarios, steps, nested once) every edit — successful or refused — addressed to a board must leave π of every board that is neither that board nor inherits from it unchanged: the base board, enclosing boards, sibling boards and the boards nested inside the target.",
		Technique: "runtime monitoring: per-board semantic diff (π) before/after each edit over the board tree, with the inheritance relation computed independently from the board kinds",
		DesignRef: "§4 C41",
		Rule:      "cases: gen.Edits histories; non-trivial when the program has nested boards and ≥2 edits succeeded; counters boards_compared_after_success / boards_compared_after_refusal / vacuous_refusal_source_does_not_compile",
		Chunk:     8,
		CPUBudget: 30,
		Gen:       orcGen,
		Exec:      execC41,
	})
}

func execC41(c run.Case) (res run.Result) {
	var in gen.EditCase
	c.Decode(&in)
	nested := false
	orcRun(in, &res, orcHooks{
		ID: "C41",
		After: func(s *orcStep, res *run.Result) {
			if len(s.Pre.Boards) > 1 {
				nested = true
			}
			if s.Call.Kind == "updateimport" {
				return
			}
			c41Compare(s, res, s.Post, "success")
		},
		Refused: func(s *orcStep, res *run.Result) {
			if len(s.Pre.Boards) > 1 {
				nested = true
			}
			if s.Call.Kind == "updateimport" || s.Refused == nil || len(s.Pre.Boards) < 2 {
				return
			}
			st := c41AfterRefusal(s, res)
			if st == nil {
				return
			}
			c41Compare(s, res, st, "refused")
		},
	})
	res.Nontrivial = res.Nontrivial && nested
	return
}

// c41AfterRefusal recompiles what the caller is left with after a refused edit.
func c41AfterRefusal(s *orcStep, res *run.Result) (st *orcState) {
	defer func() {
		if e := recover(); e != nil {
			res.Inc("vacuous_refusal_ast_unprintable")
			st = nil
		}
	}()
	text := d2format.Format(s.Refused.AST)
	if text == s.Pre.Text {
		res.Inc("refusal_left_source_untouched")
		return nil
	}
	res.Inc("refusal_left_source_modified")
	g, err := orcCompile(text, s.FS)
	if err != nil {
		res.Inc("vacuous_refusal_source_does_not_compile")
		return nil
	}
	return orcNewState(g, text)
}

func c41Compare(s *orcStep, res *run.Result, after *orcState, outcome string) {
	pre := s.Pre
	if len(pre.Boards) < 2 {
		return
	}
	b := s.Call.BoardIdx
	k := orcParseKey(s.Call.Key)
	addressesNested := false
	for _, path := range [][]string{k.Attr, k.EdgeAttr} {
		if len(path) > 0 {
			switch path[0] {
			case "layers", "scenarios", "steps":
				addressesNested = true
			}
		}
	}
	if k.Err != nil {
		// unparsable keys are refused before anything is touched; still compared
		addressesNested = false
	}
	reported := false
	for x := range pre.Boards {
		if x == b || pre.inherits(x, b) {
			continue
		}
		if reported {
			// boards are visited root first: once a changed board is reported, the boards
			// that inherit from it change as a consequence
			res.Inc("boards_not_compared_after_first_report")
			continue
		}
		// nested inside b or inside a board that inherits from b
		inside := pre.enclosedBy(x, b)
		for y := range pre.Boards {
			if pre.inherits(y, b) && pre.enclosedBy(x, y) {
				inside = true
			}
		}
		if inside && addressesNested {
			continue
		}
		// a board nested in an inheriting board may itself inherit from something that changed
		affectedBase := false
		for p := pre.Boards[x].Base; p >= 0; p = pre.Boards[p].Base {
			if p == b || pre.inherits(p, b) {
				affectedBase = true
			}
		}
		if affectedBase {
			continue
		}
		rel := "unrelated"
		switch {
		case pre.inherits(b, x):
			rel = "base-of-target"
		case pre.enclosedBy(b, x):
			rel = "encloses-target"
		case inside:
			rel = "nested-in-target"
		}
		res.Inc("boards_compared_after_" + outcome)
		if s.Trigger == "" {
			res.Inc("boards_compared_without_trigger")
		}
		res.Inc("boards_compared_" + strings.ReplaceAll(rel, "-", "_"))
		j := after.boardIndex(pre.Boards[x].Key)
		if j < 0 {
			reported = true
			orcViol(res, "C41.other-board-vanished", orcSig(s, "C41", "other-board-vanished", outcome+":"+rel),
				fmt.Sprintf("edit addressed to board %q: board %s (%s) no longer exists\n%s", s.Call.Board, pre.Boards[x].Key, rel, c41Describe(s, after)))
			continue
		}
		a, bb := pre.snap(x).Pi, after.snap(j).Pi
		if a != bb {
			reported = true
			orcViol(res, "C41.other-board-changed", orcSig(s, "C41", "other-board-changed", outcome+":"+c41ChangeClass(pre.snap(x), after.snap(j))+":"+rel),
				fmt.Sprintf("edit addressed to board %q (%s) changed board %s (%s):\n%s\n%s", s.Call.Board, outcome, pre.Boards[x].Key, rel, proj.Diff(a, bb), c41Describe(s, after)))
		}
	}
}

func c41Describe(s *orcStep, after *orcState) string {
	d := s.describe()
	if s.Post == nil && after != nil {
		d += "--- source the caller holds after the refusal ---\n" + after.Text
	}
	return d
}

// c41ChangeClass says what happened to a board that should not have changed (elements
// matched by label tag): elements-removed > elements-added > ids-changed > attributes-changed.
func c41ChangeClass(a, b *orcSnap) string {
	for t := range a.objByTag {
		if _, ok := b.objByTag[t]; !ok {
			return "elements-removed"
		}
	}
	for t := range a.edgeByTag {
		if _, ok := b.edgeByTag[t]; !ok {
			return "elements-removed"
		}
	}
	if len(b.Objs) > len(a.Objs) || len(b.Edges) > len(a.Edges) {
		return "elements-added"
	}
	if len(b.Objs) < len(a.Objs) || len(b.Edges) < len(a.Edges) {
		return "elements-removed"
	}
	for t, i := range a.objByTag {
		if a.Objs[i].AbsID != b.Objs[b.objByTag[t]].AbsID {
			return "ids-changed"
		}
	}
	for t, i := range a.edgeByTag {
		if a.Edges[i].AbsID != b.Edges[b.edgeByTag[t]].AbsID {
			return "ids-changed"
		}
	}
	return "attributes-changed"
}
