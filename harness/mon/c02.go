package mon

import (
	"errors"
	"fmt"
	"strings"
	"unicode/utf8"

	"verif/gen"
	"verif/run"

	"oss.terrastruct.com/d2/d2ast"
	"oss.terrastruct.com/d2/d2parser"
)

// C02: source positions are exact in UTF-8 and UTF-16 modes.
//
// Oracle: an independent position calculator (c02Index) walks the *input text* and
// tabulates, for every rune boundary, (line, column, offset) in UTF-8 bytes and in UTF-16
// code units. Every node range and error range of the real parser is checked against it.

type c02In struct {
	Text string `json:"text"`
	Src  string `json:"src"`
	Mode string `json:"mode"` // utf8 | utf16 | utf16bom (input re-encoded as UTF-16LE with BOM)
}

func init() {
	run.Register(&run.Check{
		ID: "C02", Title: "Source positions are exact in UTF-8 and UTF-16 modes",
		LevelText: "Exploration: for generated valid-UTF-8 inputs (valid and invalid D2, multi-byte and astral characters) in three position modes (UTF-8 bytes, UTF-16 units requested, UTF-16LE+BOM input) every node range and every error range is compared with an independent position calculator over the input text: inside the input, start ≤ end, (line,column,offset) mutually consistent and on a rune boundary, child range ⊆ parent range, and the text under each key segment's range parses back (ParseKey) to that segment's value.",
		Technique: "runtime monitoring: independent position calculator as oracle over parser output for generated inputs, both position modes",
		DesignRef: "§4 C02",
		Rule:      "cases: gen.Program(syntax, hostile names), corpus, corpus/syntax mutations, restricted to valid UTF-8 (invalid UTF-8 is decoded to U+FFFD by the reader, after which byte offsets are defined on the decoded text: counted vacuous); × 3 modes; distinct by sha256(text,mode); non-trivial when ≥3 nodes were checked and the text has a non-ASCII rune or ≥2 lines",
		Chunk:     64,
		Gen:       genC02,
		Exec:      execC02,
	})
}

func genC02(seed int64, tier string, emit func(run.Case)) {
	r := gen.New(seed)
	n := tierN(tier, 7000, 400000)
	id := 0
	add := func(s, src string) {
		for _, mode := range []string{"utf8", "utf16", "utf16bom"} {
			id++
			emit(run.MkCase(fmt.Sprintf("c%07d", id), src, c02In{Text: s, Src: src, Mode: mode}))
		}
	}
	cor := Corpus()
	for _, s := range cor {
		add(s, "corpus")
	}
	for _, s := range []string{"😀: 😀\n", "a😀b.c -> d\n", "é: {\n  ü😀: [1; 2]\n}\n", "x: |md\n  😀 # hi\n|\n", "\"a\\\"😀\".b: 'c''d'\n", "a -> b: {\n  source-arrowhead: 1\n}\n(a -> b)[0].style.opacity: 0.4\n"} {
		add(s, "seed")
	}
	for i := 0; i < n; i++ {
		q := r.Sub(i)
		switch q.Intn(4) {
		case 0:
			add(gen.Program(q, gen.ProfileSyntax), "syntax")
		case 1:
			add(gen.Mutate(q, gen.Pick(q, cor)), "corpus-mut")
		case 2:
			add(gen.Mutate(q, gen.Program(q, gen.ProfileSyntax)), "syntax-mut")
		default:
			// unicode heavy
			s := gen.Program(q, gen.ProfileSyntax)
			s = strings.ReplaceAll(s, "a", gen.UnicodeText(q, 2))
			add(s, "unicode")
		}
	}
}

// c02MsgClass reduces a parser error message to its leading lower-case words (no user text).
func c02MsgClass(m string) string {
	// strip a leading "path:line:col: " location
	if i := strings.Index(m, ": "); i >= 0 && i < 40 && strings.Count(m[:i], ":") >= 2 {
		m = m[i+2:]
	}
	var words []string
	for _, w := range strings.Fields(m) {
		ok := true
		for _, c := range w {
			if !(c >= 'a' && c <= 'z') {
				ok = false
			}
		}
		if !ok || len(words) == 5 {
			break
		}
		words = append(words, w)
	}
	if len(words) == 0 {
		return "other"
	}
	return strings.Join(words, "-")
}

// c02Index tabulates positions of text in one unit system.
type c02Index struct {
	text  string
	u16   bool
	total int
	// per unit offset that is a rune boundary: line, column, byte index in text
	at map[int][3]int
}

func c02NewIndex(text string, u16 bool) *c02Index {
	ix := &c02Index{text: text, u16: u16, at: map[int][3]int{}}
	line, col, off := 0, 0, 0
	for bi, r := range text {
		ix.at[off] = [3]int{line, col, bi}
		size := utf8.RuneLen(r)
		if u16 {
			size = 1
			if r >= 0x10000 {
				size = 2
			}
		}
		if r == '\n' {
			line++
			col = 0
		} else {
			col += size
		}
		off += size
	}
	ix.at[off] = [3]int{line, col, len(text)}
	ix.total = off
	return ix
}

// check returns "" when p is exact, else a description and a class.
func (ix *c02Index) check(p d2ast.Position) (string, string) {
	if p.Byte < 0 || p.Byte > ix.total {
		return fmt.Sprintf("offset %d outside input [0,%d]", p.Byte, ix.total), "outside-input"
	}
	lc, ok := ix.at[p.Byte]
	if !ok {
		return fmt.Sprintf("offset %d is not on a character boundary", p.Byte), "not-on-boundary"
	}
	if lc[0] != p.Line || lc[1] != p.Column {
		return fmt.Sprintf("offset %d is line %d column %d in the input, parser says line %d column %d", p.Byte, lc[0], lc[1], p.Line, p.Column), "line-column-mismatch"
	}
	return "", ""
}

func (ix *c02Index) slice(r d2ast.Range) string {
	a, b := ix.at[r.Start.Byte], ix.at[r.End.Byte]
	return ix.text[a[2]:b[2]]
}

func execC02(c run.Case) (res run.Result) {
	var in c02In
	c.Decode(&in)
	if !utf8.ValidString(in.Text) || strings.ContainsRune(in.Text, utf8.RuneError) {
		res.Inc("vacuous_invalid_utf8")
		return
	}
	if in.Mode == "utf16bom" && strings.HasPrefix(in.Text, "\ufeff") {
		res.Inc("vacuous_text_starts_with_bom")
		return
	}
	var m *d2ast.Map
	var err error
	u16 := in.Mode != "utf8"
	switch in.Mode {
	case "utf8":
		m, err = d2parser.Parse("x.d2", strings.NewReader(in.Text), nil)
	case "utf16":
		m, err = d2parser.Parse("x.d2", strings.NewReader(in.Text), &d2parser.ParseOptions{UTF16Pos: true})
	default:
		m, err = d2parser.Parse("x.d2", strings.NewReader(string(gen.UTF16LE(in.Text, true, false))), nil)
	}
	ix := c02NewIndex(in.Text, u16)
	res.Inc("mode_" + in.Mode)
	nodes := 0
	typ := func(n d2ast.Node) string { return strings.TrimPrefix(fmt.Sprintf("%T", n), "*d2ast.") }
	checkRange := func(what, ty string, r d2ast.Range) bool {
		ok := true
		if d, cls := ix.check(r.Start); d != "" {
			res.Viol("C02.position-inexact", "C02.position-inexact:"+cls+":"+what+":"+ty+".Start:"+in.Mode, fmt.Sprintf("%s %s start: %s\ninput: %q", what, ty, d, trunc(in.Text, 400)))
			ok = false
		}
		if d, cls := ix.check(r.End); d != "" {
			res.Viol("C02.position-inexact", "C02.position-inexact:"+cls+":"+what+":"+ty+".End:"+in.Mode, fmt.Sprintf("%s %s end: %s\ninput: %q", what, ty, d, trunc(in.Text, 400)))
			ok = false
		}
		if r.End.Byte < r.Start.Byte {
			res.Viol("C02.start-after-end", "C02.start-after-end:"+what+":"+ty, fmt.Sprintf("%s %s range %s-%s\ninput: %q", what, ty, r.Start.Debug(), r.End.Debug(), trunc(in.Text, 400)))
			ok = false
		}
		return ok
	}
	// error ranges: the slice clause judges only key segments that no syntax error touches
	var errRanges []d2ast.Range
	{
		var pe0 *d2parser.ParseError
		if errors.As(err, &pe0) {
			for _, e := range pe0.Errors {
				errRanges = append(errRanges, e.Range)
			}
		}
	}
	touchedByError := func(r d2ast.Range) bool {
		for _, e := range errRanges {
			if e.Start.Byte <= r.End.Byte && r.Start.Byte <= e.End.Byte {
				return true
			}
		}
		return false
	}
	var walk func(n, parent d2ast.Node)
	walk = func(n, parent d2ast.Node) {
		nodes++
		r := n.GetRange()
		ok := checkRange("node", typ(n), r)
		if parent != nil {
			pr := parent.GetRange()
			if r.Start.Byte < pr.Start.Byte || r.End.Byte > pr.End.Byte {
				res.Viol("C02.child-outside-parent", "C02.child-outside-parent:"+typ(n)+"-in-"+typ(parent), fmt.Sprintf("%s %s-%s not inside parent %s %s-%s\ninput: %q", typ(n), r.Start.Debug(), r.End.Debug(), typ(parent), pr.Start.Debug(), pr.End.Debug(), trunc(in.Text, 400)))
			}
		}
		if kp, isKP := n.(*d2ast.KeyPath); isKP && ok {
			for _, sb := range kp.Path {
				if sb == nil || sb.Unbox() == nil {
					continue
				}
				seg := sb.Unbox()
				sr := seg.GetRange()
				if d, _ := ix.check(sr.Start); d != "" {
					continue
				}
				if d, _ := ix.check(sr.End); d != "" || sr.End.Byte < sr.Start.Byte {
					continue
				}
				if touchedByError(sr) {
					res.Inc("vacuous_segment_touched_by_syntax_error")
					continue
				}
				if bs, isBS := seg.(*d2ast.BlockString); isBS && sr.Start.Line != sr.End.Line {
					// the value of a multi-line block string depends on the column of its
					// opening (indentation trimming), which the slice alone does not carry
					_ = bs
					res.Inc("vacuous_multiline_block_string_segment")
					continue
				}
				if len(seg.Children()) > 0 {
					res.Inc("vacuous_segment_with_substitution")
					continue
				}
				src := ix.slice(sr)
				back, perr := d2parser.ParseKey(src)
				res.Inc("key_segments_sliced")
				if perr != nil || back == nil || len(back.Path) != 1 || back.Path[0].Unbox().ScalarString() != seg.ScalarString() {
					got := "<error>"
					if perr == nil && back != nil {
						var parts []string
						for _, p := range back.Path {
							parts = append(parts, p.Unbox().ScalarString())
						}
						got = strings.Join(parts, " . ")
					}
					cls := "other"
					v := seg.ScalarString()
					nbs := len(src) - len(strings.TrimRight(src, "\\"))
					if strings.HasPrefix(v, src) && strings.TrimLeft(v[len(src):], " \t") == "-" {
						cls = "range-excludes-trailing-dash"
					} else if b2, e2 := d2parser.ParseKey(src + "-"); e2 == nil && b2 != nil && len(b2.Path) == 1 && strings.TrimRight(strings.TrimSuffix(v, "-"), " \t") == strings.TrimSuffix(b2.Path[0].Unbox().ScalarString(), "-") && strings.HasSuffix(v, "-") {
						cls = "range-excludes-trailing-dash"
					} else if nbs%2 == 1 {
						cls = "range-excludes-trailing-escaped-character"
					}
					res.Viol("C02.segment-slice-mismatch", "C02.segment-slice-mismatch:"+typ(seg)+":"+cls, fmt.Sprintf("key segment %q has range %s-%s covering %q which parses to %q (err %v)\ninput: %q", seg.ScalarString(), sr.Start.Debug(), sr.End.Debug(), src, got, perr, trunc(in.Text, 400)))
				}
			}
		}
		for _, ch := range n.Children() {
			if ch != nil {
				walk(ch, n)
			}
		}
	}
	if m != nil {
		walk(m, nil)
	}
	var pe *d2parser.ParseError
	if errors.As(err, &pe) {
		for _, e := range pe.Errors {
			checkRange("error", "Error["+c02MsgClass(e.Message)+"]", e.Range)
			res.Inc("error_ranges_checked")
		}
	}
	res.Add("node_ranges_checked", nodes)
	nonASCII := false
	for i := 0; i < len(in.Text); i++ {
		if in.Text[i] >= 0x80 {
			nonASCII = true
			break
		}
	}
	if nonASCII {
		res.Inc("inputs_with_multibyte")
	}
	res.Nontrivial = nodes >= 3 && (nonASCII || strings.Count(in.Text, "\n") >= 2)
	res.Sample = map[string]any{"mode": in.Mode, "src": in.Src, "text": trunc(in.Text, 200)}
	return
}
