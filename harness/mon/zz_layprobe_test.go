package mon

import (
	"fmt"
	"os"
	"strings"
	"testing"
	"verif/run"
)

func TestLayProbe(t *testing.T) {
	b, _ := os.ReadFile(os.Getenv("PROBEFILE"))
	for _, text := range strings.Split(string(b), "\n====\n") {
		for _, eng := range strings.Split(os.Getenv("ENGINES"), ",") {
			func() {
				defer func() {
					if e := recover(); e != nil {
						fmt.Printf("%s PANIC %v\n", eng, e)
					}
				}()
				if chk := os.Getenv("CHECK"); chk != "" {
					c := run.MkCase("p", "probe", layCase{Text: text, Engine: eng, Src: "probe"})
					var r run.Result
					switch chk {
					case "C17":
						r = execC17(c)
					case "C18":
						r = execC18(c)
					case "C19":
						r = execC19(c)
					case "C20":
						r = execC20(c)
					}
					fmt.Printf("---- %s %s\n%s\n", chk, eng, text)
					for _, v := range r.Violations {
						m := v.Msg
						if i := strings.Index(m, "--- text"); i > 0 {
							m = m[:i]
						}
						fmt.Printf("   VIOL %s\n        %s\n", v.Sig, m)
					}
					if len(r.Violations) == 0 {
						fmt.Printf("   no violation (nontrivial=%v)\n", r.Nontrivial)
					}
					return
				}
				_, g, err := layCompile(eng, text)
				fmt.Printf("---- %s\n%s\n=> err=%v\n", eng, text, err)
				if err == nil && os.Getenv("DUMP") != "" {
					for _, o := range g.Objects {
						lp := ""
						if o.LabelPosition != nil {
							lp = *o.LabelPosition
						}
						fmt.Printf("   obj %-20s %v lbl=%s %dx%d\n", o.AbsID(), layObjRect(o), lp, o.LabelDimensions.Width, o.LabelDimensions.Height)
					}
					for _, e := range g.Edges {
						fmt.Printf("   edge %-20s", e.AbsID())
						for _, p := range e.Route {
							fmt.Printf(" (%.1f,%.1f)", p.X, p.Y)
						}
						fmt.Println()
					}
				}
			}()
		}
	}
}
