package mon

import (
	"fmt"
	"os"
	"strings"
	"testing"
)

func TestLayProbe(t *testing.T) {
	b, _ := os.ReadFile(os.Getenv("PROBEFILE"))
	for _, text := range strings.Split(string(b), "\n====\n") {
		for _, eng := range strings.Split(os.Getenv("ENGINES"), ",") {
			func() {
				defer func() {
					if e := recover(); e != nil {
						fmt.Printf("%s PANIC %v\n", eng, e)
					}
				}()
				_, g, err := layCompile(eng, text)
				fmt.Printf("---- %s\n%s\n=> err=%v\n", eng, text, err)
				if err == nil && os.Getenv("DUMP") != "" {
					for _, o := range g.Objects {
						lp := ""
						if o.LabelPosition != nil {
							lp = *o.LabelPosition
						}
						fmt.Printf("   obj %-20s %v lbl=%s %dx%d\n", o.AbsID(), layObjRect(o), lp, o.LabelDimensions.Width, o.LabelDimensions.Height)
					}
					for _, e := range g.Edges {
						fmt.Printf("   edge %-20s", e.AbsID())
						for _, p := range e.Route {
							fmt.Printf(" (%.1f,%.1f)", p.X, p.Y)
						}
						fmt.Println()
					}
				}
			}()
		}
	}
}
