package mon

import (
	"fmt"
	"sort"
	"strings"

	"verif/gen"
	"verif/run"
)

// C39 — Rename and Move relocate objects without losing anything.
//
// After a successful Rename / Move of an object T on a board:
//   (a) every object and every connection of the pre-state still exists (matched by unique
//       label) with identical label and attributes; connections are attached to the same
//       objects (by label) with the same arrows;
//   (b) no element appears, except — for Move — unlabeled containers on the destination path;
//   (c) only T, and its descendants when they move with it, change ID: every object
//       outside T's subtree keeps its AbsID; descendants that move along keep their name and
//       their parent (by label); for a cross-container Move without descendants the direct
//       children now sit in T's former parent (a child may be renamed only if its name was
//       taken there in the pre-state, as in C38) and deeper descendants keep name and parent;
//   (d) Move puts T under the parent named by the destination key.
// Renaming a connection key only changes its arrows: everything else as in (a)–(c).
//
// Legitimate behaviour noted from edit.go: a destination name that is taken gets a
// numeric suffix ("x 2") — the final name of T is therefore not judged, only its parent; a
// Move within the same container is a rename (children stay with T); `near` values that
// point at a renamed object are rewritten (compared by the label of the object they point
// to, not by text).
func init() {
	run.Register(&run.Check{
		ID: "C39", Title: "Rename and Move relocate objects without losing anything",
		LevelText: "Exploration: along random edit histories every successful Rename/Move (into containers, out of containers, with and without descendants, name collisions, hostile names) must preserve the multiset of objects and connections with all labels and attributes, keep connections attached to the same objects, change the ID of nothing outside the moved subtree, leave unmoved children in the former parent and put the moved object under the destination parent (elements matched by unique labels).",
		Technique: "runtime monitoring: semantic diff of the addressed board before/after each Rename/Move against a reference model of the statement, elements matched by unique label tags",
		DesignRef: "§4 C39",
		Rule:      "cases: gen.Edits histories; non-trivial when ≥2 edits of the history succeeded; counters judged_rename / judged_move_* say how many operations were judged",
		Chunk:     8,
		CPUBudget: 30,
		Gen:       orcGen,
		Exec:      execC39,
	})
}

func execC39(c run.Case) (res run.Result) {
	var in gen.EditCase
	c.Decode(&in)
	orcRun(in, &res, orcHooks{
		ID: "C39",
		After: func(s *orcStep, res *run.Result) {
			if s.Call.Kind == "rename" || s.Call.Kind == "move" {
				c39Judge(s, res)
			}
		},
	})
	return
}

func c39Judge(s *orcStep, res *run.Result) {
	k := orcParseKey(s.Call.Key)
	if k.Err != nil || k.Odd != "" || len(k.Attr) > 0 || len(k.EdgeAttr) > 0 {
		res.Inc("skipped_key_outside_domain")
		return
	}
	pre, post := s.Pre.snap(s.Call.BoardIdx), orcPostSnap(s)
	if post == nil {
		res.Inc("skipped_board_vanished")
		return
	}
	if s.Pre.hollow(s.Call.BoardIdx) {
		res.Inc("skipped_board_declared_without_map")
		return
	}
	if orcWentHollow(s) {
		res.Inc("skipped_board_emptied_and_printed_without_map")
		return
	}
	if s.Pre.hasGlob() {
		res.Inc("skipped_source_has_glob_keys")
		return
	}
	kind := s.Call.Kind
	t := -1
	var destParent []string
	cross := false
	intoOwn := false
	_ = intoOwn
	if !k.Edge {
		t = pre.findObj(k.Obj)
		if t < 0 {
			res.Inc("skipped_target_missing")
			return
		}
		if pre.underSpecial(k.Obj[:len(k.Obj)-1]) {
			res.Inc("skipped_inside_class_or_table")
			return
		}
		if kind == "move" {
			nk := orcParseKey(s.Call.NewKey)
			if nk.Err != nil || nk.Odd != "" || nk.Edge || len(nk.Attr) > 0 || len(nk.Obj) == 0 {
				res.Inc("skipped_destination_outside_domain")
				return
			}
			if pre.underSpecial(nk.Obj[:len(nk.Obj)-1]) {
				res.Inc("skipped_inside_class_or_table")
				return
			}
			destParent = nk.Obj[:len(nk.Obj)-1]
			cross = orcPathKey(destParent) != orcPathKey(k.Obj[:len(k.Obj)-1])
			if orcHasPrefix(nk.Obj, k.Obj) && len(nk.Obj) > len(k.Obj) {
				res.Inc("move_into_own_subtree")
				intoOwn = true
			}
		} else {
			destParent = k.Obj[:len(k.Obj)-1]
		}
	}
	variant := kind
	if kind == "move" {
		if s.Call.Desc {
			variant += "-with-descendants"
		} else {
			variant += "-without-descendants"
		}
		if cross {
			variant += "-cross"
		} else {
			variant += "-same-scope"
		}
	}
	if k.Edge {
		variant += "-connection"
	}
	orcJudged(s, res, strings.ReplaceAll(variant, "-", "_"))
	cv := kind
	if kind == "move" {
		if cross {
			cv = "move-cross-container"
		} else {
			cv = "move-same-container"
		}
		if s.Call.Desc {
			cv += "-with-descendants"
		}
	}
	if k.Edge {
		cv += "-connection"
	}
	reported := false
	viol := func(clause, msg string) {
		if reported {
			// one broken edit shows many symptoms; the first (most severe) names it
			res.Inc("further_symptoms_of_reported_op")
			return
		}
		reported = true
		orcViol(res, "C39."+clause, orcSig(s, "C39", clause, cv), msg+"\n"+s.describe())
	}
	inSub := func(i int) bool { return t >= 0 && (i == t || pre.isDesc(i, t)) }
	childrenMoveAlong := kind == "rename" || s.Call.Desc || !cross

	type c39Pending struct{ clause, msg string }
	var pend []c39Pending
	later := func(clause, msg string) { pend = append(pend, c39Pending{clause, msg}) }
	// (a) objects
	var lost, changed []string
	for i, po := range pre.Objs {
		if po.Tag == "" {
			continue
		}
		j, ok := post.objByTag[po.Tag]
		if !ok {
			lost = append(lost, fmt.Sprintf("object %s (%s)", po.Tag, po.AbsID))
			continue
		}
		qo := post.Objs[j]
		if a, b := pre.objContent(i, false), post.objContent(j, false); a != b {
			changed = append(changed, fmt.Sprintf("object %s (%s -> %s):\n   before %s\n   after  %s", po.Tag, po.AbsID, qo.AbsID, a, b))
		}
		// (c) IDs
		switch {
		case i == t:
			if kind == "move" {
				if got := orcPathKey(qo.Path[:len(qo.Path)-1]); got != orcPathKey(destParent) {
					// the destination parent may itself have been relocated only if it was inside T
					later("moved-object-not-under-destination", fmt.Sprintf("moved object %s is at %s afterwards, destination key was %q", po.Tag, qo.AbsID, s.Call.NewKey))
				}
			} else if pre.ref(po.Parent) != post.ref(qo.Parent) {
				later("renamed-object-changed-parent", fmt.Sprintf("renamed object %s went from under %s to under %s", po.Tag, pre.ref(po.Parent), post.ref(qo.Parent)))
			}
		case inSub(i):
			direct := po.Parent == t
			if direct && !childrenMoveAlong {
				wantParent := pre.ref(pre.Objs[t].Parent)
				if got := post.ref(qo.Parent); got != wantParent {
					later("child-not-in-former-parent", fmt.Sprintf("child %s (%s) of the moved object is under %s afterwards (%s); the moved object's former parent is %s", po.Tag, po.AbsID, got, qo.AbsID, wantParent))
				}
				if !strings.EqualFold(po.IDVal, qo.IDVal) {
					taken := false
					for _, sib := range pre.children(pre.Objs[t].Parent) {
						if strings.EqualFold(pre.Objs[sib].IDVal, po.IDVal) {
							taken = true
						}
					}
					if !taken {
						later("child-renamed-without-conflict", fmt.Sprintf("child %s was renamed %q -> %q although that name was free under %s", po.Tag, po.IDVal, qo.IDVal, wantParent))
					} else {
						res.Inc("child_renamed_on_conflict")
					}
				}
			} else {
				if pre.Objs[po.Parent].Tag != "" && pre.ref(po.Parent) != post.ref(qo.Parent) {
					later("descendant-changed-parent", fmt.Sprintf("descendant %s (%s) went from under %s to under %s (%s)", po.Tag, po.AbsID, pre.ref(po.Parent), post.ref(qo.Parent), qo.AbsID))
				}
				if !strings.EqualFold(po.IDVal, qo.IDVal) {
					later("descendant-renamed", fmt.Sprintf("descendant %s was renamed %q -> %q", po.Tag, po.IDVal, qo.IDVal))
				}
			}
		default:
			if !strings.EqualFold(po.AbsID, qo.AbsID) {
				later("unrelated-id-changed", fmt.Sprintf("object %s is outside the moved subtree but its ID changed %s -> %s", po.Tag, po.AbsID, qo.AbsID))
			}
		}
	}
	// (a) connections
	for i, pe := range pre.Edges {
		if pe.Tag == "" {
			continue
		}
		j, ok := post.edgeByTag[pe.Tag]
		if !ok {
			lost = append(lost, fmt.Sprintf("connection %s (%s)", pe.Tag, pe.AbsID))
			continue
		}
		qe := post.Edges[j]
		withArrows := !(k.Edge && pre.findEdge(k) == i)
		if a, b := pre.edgeContent(i, withArrows), post.edgeContent(j, withArrows); a != b {
			changed = append(changed, fmt.Sprintf("connection %s (%s -> %s):\n   before %s\n   after  %s", pe.Tag, pe.AbsID, qe.AbsID, a, b))
		}
		if pre.Objs[pe.Src].Tag != "" && pre.Objs[pe.Dst].Tag != "" {
			if pre.ref(pe.Src) != post.ref(qe.Src) || pre.ref(pe.Dst) != post.ref(qe.Dst) {
				later("connection-reattached", fmt.Sprintf("connection %s connected %s -> %s, now %s -> %s (%s)", pe.Tag, pre.ref(pe.Src), pre.ref(pe.Dst), post.ref(qe.Src), post.ref(qe.Dst), qe.AbsID))
			}
		}
		if !inSub(pe.Src) && !inSub(pe.Dst) && !strings.EqualFold(pe.AbsID, qe.AbsID) && withArrows {
			later("unrelated-id-changed", fmt.Sprintf("connection %s touches nothing in the moved subtree but its ID changed %s -> %s", pe.Tag, pe.AbsID, qe.AbsID))
		}
	}
	if len(lost) > 0 {
		viol("element-lost", "elements no longer exist: "+orcJoinDiffs(lost))
	}
	if len(changed) > 0 {
		viol("attributes-changed", "labels/attributes changed:\n"+orcJoinDiffs(changed))
	}
	for _, p := range pend {
		viol(p.clause, p.msg)
	}
	// untagged elements: compare as multisets of content (labels that default to the ID excluded)
	if a, b := c39AnonMultiset(pre), c39AnonMultiset(post); a != b && len(post.Objs) == len(pre.Objs) {
		res.Inc("untagged_multiset_differs_not_judged")
	}
	// (b) counts
	if len(post.Edges) != len(pre.Edges) {
		viol("connection-count", fmt.Sprintf("number of connections changed %d -> %d", len(pre.Edges), len(post.Edges)))
	}
	if len(post.Objs) < len(pre.Objs) {
		viol("object-count", fmt.Sprintf("number of objects shrank %d -> %d", len(pre.Objs), len(post.Objs)))
	} else if len(post.Objs) > len(pre.Objs) {
		extra := len(post.Objs) - len(pre.Objs)
		allowed := 0
		if kind == "move" {
			for _, qo := range post.Objs {
				if _, existed := pre.byPath[qo.PathKey]; !existed && qo.Tag == "" && orcHasPrefix(destParent, qo.Path) {
					allowed++
				}
			}
		}
		if extra > allowed {
			viol("object-count", fmt.Sprintf("number of objects grew %d -> %d (%d new containers on the destination path)", len(pre.Objs), len(post.Objs), allowed))
		}
	}
}

func c39AnonMultiset(s *orcSnap) string {
	var xs []string
	for i, o := range s.Objs {
		if o.Tag == "" {
			xs = append(xs, s.objContent(i, true))
		}
	}
	sort.Strings(xs)
	return strings.Join(xs, "\n")
}
