package mon

import (
	"fmt"
	"sort"
	"strings"

	"oss.terrastruct.com/d2/d2graph"
	"oss.terrastruct.com/d2/d2layouts/d2sequence"

	"verif/gen"
	"verif/run"
)

// C18 — layout preserves structure.
//
// Oracle: a structure snapshot σ(board) is taken from the compiled graph, the SAME graph is
// then laid out in place by the real code (ApplyTheme → SetDimensions → d2layouts.LayoutNested
// with dagre / ELK as core layout and the default cross-diagram router, i.e. what
// d2lib.compile does per board) and σ is taken again. σ =
//
//	objects  ordered list of AbsIDs of g.Objects              (no loss, no addition, no duplicate, same order)
//	parents  AbsID → AbsID of Parent                          (no re-parenting)
//	children per container the set of its ChildrenArray AbsIDs, each object exactly once in
//	         its parent's ChildrenArray and registered in parent.Children
//	edges    ordered list of (Src AbsID, Dst AbsID, SrcArrow, DstArrow, Index)
//
// Legitimate behaviour found in the code and therefore not demanded:
//   - d2sequence.Layout appends one synthetic edge per actor to g.Edges (the lifeline, whose Dst
//     is an object that is not part of the graph, d2sequence.IsLifelineEnd); lifelines are
//     rendering artefacts, not connections of the diagram: they are filtered out (and counted);
//   - d2sequence rebuilds a sequence diagram's ChildrenArray as actors-then-groups, so the
//     ORDER of ChildrenArray is not part of σ (the statement's "element order" is the order of
//     the board's object and connection lists, which is what export and rendering follow);
//   - attributes (shape of notes/spans, labels of spans, label positions) are not structure.
type c18Snap struct {
	Objects  []string
	Parents  map[string]string
	Children map[string][]string // sorted
	Edges    []string
	Dups     []string
	Lifeline int
}

func init() {
	run.Register(&run.Check{
		ID: "C18", Title: "Layout preserves the diagram's structure",
		LevelText:        "Exploration: generated diagrams biased to nested special diagrams (grids in containers in grids, sequence diagrams in containers and grid cells, constant-near groups with children, edges crossing diagram boundaries, the same id recurring in different containers, ids differing only by case or containing dots) plus hand-written nesting templates are compiled, snapshotted, laid out in place by the real LayoutNested with dagre and with ELK, and snapshotted again; the monitor refutes on any lost, added, duplicated, re-parented or re-ordered object or connection.",
		Technique:        "runtime monitoring: before/after structure snapshot (ordered AbsIDs, parent relation, children sets, ordered edge endpoints) around the real LayoutNested on the same graph",
		DesignRef:        "§4 C18",
		Rule:             "cases: gen.Diagram with a small name pool and high grid/sequence/near/cross-edge rates, nesting templates; distinct by sha256(engine+text); non-trivial when layout succeeded on a board with ≥3 objects, ≥1 edge and at least one nested special diagram (grid, sequence diagram or constant near) was extracted and re-injected",
		PanicIsViolation: false, CPUBudget: 300, Chunk: 4, MinNontrivial: 40,
		Gen:  genC18,
		Exec: execC18,
	})
}

var c18Templates = []string{
	// grid in sequence-diagram actor's container in container
	"c: {\n  s: {\n    shape: sequence_diagram\n    a; b\n    a -> b: hi\n    a.sp -> b.sp\n    grp: {\n      a -> b\n    }\n  }\n  g: {\n    grid-rows: 2\n    x; y; z: { p; q; p -> q }\n  }\n  s -> g.x\n  g.z.p -> s\n}\nout -> c.g.z.q\n",
	// near groups with children and edges, cross edges
	"t: {near: top-center; a -> b; c: {d; e}}\nl: {near: center-left; grid-columns: 2; x; y; z}\nm: {k; j}\nm.k -> t.c.d\nl.x -> m.j\nt.a -> l\n",
	// same ids in different containers, case variants, dotted ids
	"a: {a: {a; A2: {a}}; b}\nb: {a; b: {a; b}}\n\"a.b\": {a}\nA: {a}\na.a.a -> b.b.a\n\"a.b\".a -> a.b\nb.a -> A.a\na.a.A2.a -> b.b.b\n",
	// grid in grid with containers as cells and edges between cells and into cells
	"g: {\n  grid-rows: 2\n  a: {x -> y}\n  b: {grid-columns: 2; p; q; r: {s; t; s -> t}}\n  c\n  a -> c\n  a.x -> b.r.s\n}\no -> g.b.r.t\ng.c -> o\n",
	// sequence diagram as grid cell and as near
	"g: {\n  grid-columns: 2\n  s: {shape: sequence_diagram; a -> b; b -> a; a.n: note}\n  t: {u -> v}\n}\nn: {shape: sequence_diagram; near: bottom-center; p -> q: m}\ng.t.u -> n\n",
	// root grid with nested containers
	"grid-rows: 2\na: {b: {c; d; c -> d}}\ne: {f}\ng\na.b.c -> e.f\ng -> a\n",
	// root sequence diagram with groups, notes, spans
	"shape: sequence_diagram\nx; y; z\nx -> y: one\ngrp: {\n  y -> z\n  inner: {\n    z -> x\n  }\n}\nx.s1 -> y.s1\ny.note: hello\nz -> z\n",
}

func c18Opts(engine string, i int, r *gen.R) (gen.DiagramOpts, string) {
	o := gen.DiagramOpts{Engine: engine, NamePool: r.Range(3, 7), MinObjects: 6, MaxObjects: 24,
		Containers: .45, Grids: .4, Sequence: .2, Near: .5, RootSpecial: .12, CrossEdges: .9, SeqCross: .12,
		Edges: 1.1, RelScope: .5, Boards: .08, Special: .08, Latex: -1, Icons: .05, Styles: .03, Mods: .05, Tooltips: -1, Links: -1}
	switch i % 5 {
	case 0:
		o.Hostile = true
		return o, "pool-hostile"
	case 1:
		o.NamePool = 0
		return o, "nested"
	}
	return o, "pool"
}

func genC18(seed int64, tier string, emit func(run.Case)) {
	id := 0
	for _, eng := range []string{"dagre", "elk"} {
		for _, t := range c18Templates {
			id++
			emit(run.MkCase(fmt.Sprintf("t%s%03d", eng[:1], id), eng+"/template", layCase{Text: t, Engine: eng, Src: "template"}))
		}
	}
	layGenCases(seed, tier, 18, 300, 55, 40, c18Opts, emit)
	layNearOnlyCases(seed, tier, 3, emit)
}

func c18Snapshot(g *d2graph.Graph) c18Snap {
	s := c18Snap{Parents: map[string]string{}, Children: map[string][]string{}}
	seen := map[string]int{}
	inGraph := map[*d2graph.Object]bool{}
	for _, o := range g.Objects {
		inGraph[o] = true
	}
	for _, o := range g.Objects {
		id := o.AbsID()
		s.Objects = append(s.Objects, id)
		seen[id]++
		if seen[id] == 2 {
			s.Dups = append(s.Dups, id)
		}
		p := "<nil>"
		if o.Parent != nil {
			p = o.Parent.AbsID()
		}
		s.Parents[id] = p
	}
	var walk func(c *d2graph.Object)
	walk = func(c *d2graph.Object) {
		var ids []string
		for _, k := range c.ChildrenArray {
			ids = append(ids, k.AbsID())
		}
		sort.Strings(ids)
		s.Children[c.AbsID()] = ids
		for _, k := range c.ChildrenArray {
			walk(k)
		}
	}
	if g.Root != nil {
		walk(g.Root)
	}
	for _, e := range g.Edges {
		if e.Dst != nil && d2sequence.IsLifelineEnd(e.Dst) {
			s.Lifeline++
			continue
		}
		src, dst := "<nil>", "<nil>"
		if e.Src != nil {
			src = e.Src.AbsID()
		}
		if e.Dst != nil {
			dst = e.Dst.AbsID()
		}
		s.Edges = append(s.Edges, fmt.Sprintf("%s|%s|%v|%v|%d", src, dst, e.SrcArrow, e.DstArrow, e.Index))
	}
	return s
}

// c18Consistency checks the pointer-level well-formedness of the laid-out board: every object
// belongs to the graph, is listed exactly once in its parent's ChildrenArray and is the object
// registered under its lower-cased id in parent.Children.
func c18Consistency(g *d2graph.Graph) (problems []string) {
	for _, o := range g.Objects {
		if o.Parent == nil {
			problems = append(problems, "object-without-parent:"+o.AbsID())
			continue
		}
		n := 0
		for _, k := range o.Parent.ChildrenArray {
			if k == o {
				n++
			}
		}
		if n != 1 {
			problems = append(problems, fmt.Sprintf("listed-%d-times-in-parent:%s", n, o.AbsID()))
		}
		if reg, ok := o.Parent.Children[strings.ToLower(o.ID)]; !ok || reg != o {
			problems = append(problems, "not-registered-in-parent-children-map:"+o.AbsID())
		}
		if o.Graph != g {
			problems = append(problems, "object-graph-pointer-stale:"+o.AbsID())
		}
	}
	return
}

func c18Context(g *d2graph.Graph, absID string) string {
	// class of the place where the structure broke, for the signature
	for _, o := range g.Objects {
		if o.AbsID() != absID {
			continue
		}
		switch {
		case layInSequence(o):
			return "in-sequence-diagram"
		case layNearRoot(o) != nil:
			return "in-constant-near"
		}
		for p := o.Parent; p != nil; p = p.Parent {
			if layIsGrid(p) {
				return "in-grid"
			}
		}
		return "plain-container"
	}
	return "unknown"
}

func c18HasNested(g *d2graph.Graph) bool {
	if g.Root != nil && (g.Root.IsSequenceDiagram() || layIsGrid(g.Root)) {
		return true
	}
	for _, o := range g.Objects {
		if (o.IsSequenceDiagram() || layIsGrid(o)) && len(o.ChildrenArray) > 0 {
			return true
		}
		if layIsNearConst(o) {
			return true
		}
	}
	return false
}

func c18Boards(g *d2graph.Graph, path string, f func(path string, g *d2graph.Graph)) {
	f(path, g)
	for _, l := range g.Layers {
		c18Boards(l, path+"/layers."+l.Name, f)
	}
	for _, l := range g.Scenarios {
		c18Boards(l, path+"/scenarios."+l.Name, f)
	}
	for _, l := range g.Steps {
		c18Boards(l, path+"/steps."+l.Name, f)
	}
}

func execC18(c run.Case) (res run.Result) {
	var in layCase
	c.Decode(&in)
	res.Digest = laySha(in.Engine + "\x00" + in.Text)
	res.Sample = map[string]any{"engine": in.Engine, "src": in.Src, "text": trunc(in.Text, 400)}
	g0, _, err := compile(in.Text)
	if err != nil || g0 == nil {
		res.Inc("vacuous_does_not_compile_" + in.Src)
		return
	}
	c18Boards(g0, "root", func(path string, g *d2graph.Graph) {
		before := c18Snapshot(g)
		if len(before.Dups) > 0 {
			res.Inc("vacuous_duplicate_absid_before_layout")
			return
		}
		nested := c18HasNested(g)
		ctxBefore := map[string]string{}
		for _, o := range g.Objects {
			ctxBefore[o.AbsID()] = c18Context(g, o.AbsID())
		}
		ctxOf := func(id string) string {
			if c, ok := ctxBefore[id]; ok {
				return c
			}
			return c18Context(g, id)
		}
		if err := layLayoutBoard(in.Engine, g); err != nil {
			res.Inc("vacuous_layout_error") // totality belongs to C17
			return
		}
		after := c18Snapshot(g)
		res.Inc("boards_compared_" + in.Engine)
		res.Add("objects_compared", len(before.Objects))
		res.Add("edges_compared", len(before.Edges))
		res.Add("lifeline_edges_filtered", after.Lifeline)
		if nested {
			res.Inc("boards_with_nested_special_diagram")
		}
		viol := func(clause, ctx, msg string) {
			res.Viol(clause, clause+":"+in.Engine+":"+ctx, fmt.Sprintf("board %s: %s\n--- text:\n%s", path, msg, in.Text))
		}
		// objects: multiset, then order
		bset, aset := map[string]int{}, map[string]int{}
		for _, id := range before.Objects {
			bset[id]++
		}
		for _, id := range after.Objects {
			aset[id]++
		}
		same := true
		for id, n := range bset {
			if aset[id] < n {
				same = false
				viol("C18.object-lost", ctxOf(id), fmt.Sprintf("object %q present after compile, missing after layout", id))
				break
			}
		}
		for id, n := range aset {
			if n > 1 && bset[id] <= 1 {
				same = false
				viol("C18.object-duplicated", ctxOf(id), fmt.Sprintf("object %q listed %d times after layout", id, n))
				break
			}
			if bset[id] == 0 {
				same = false
				viol("C18.object-added", ctxOf(id), fmt.Sprintf("object %q appears only after layout", id))
				break
			}
		}
		if same {
			for i := range before.Objects {
				if before.Objects[i] != after.Objects[i] {
					viol("C18.object-order", ctxOf(after.Objects[i]), fmt.Sprintf("object order differs at index %d: before %q, after %q\nbefore=%q\nafter=%q", i, before.Objects[i], after.Objects[i], before.Objects, after.Objects))
					break
				}
			}
			for id, p := range before.Parents {
				if after.Parents[id] != p {
					viol("C18.reparented", ctxOf(id), fmt.Sprintf("object %q: parent %q before, %q after", id, p, after.Parents[id]))
					break
				}
			}
			for cid, kids := range before.Children {
				if strings.Join(kids, "\x00") != strings.Join(after.Children[cid], "\x00") {
					viol("C18.children-set", ctxOf(cid), fmt.Sprintf("container %q: children %q before, %q after", cid, kids, after.Children[cid]))
					break
				}
			}
			for _, p := range c18Consistency(g) {
				kind, id, _ := strings.Cut(p, ":")
				if strings.HasPrefix(kind, "listed-") {
					kind = "listed-not-exactly-once-in-parent"
				}
				viol("C18.parent-link-inconsistent", kind+":"+ctxOf(id), p)
				break
			}
		}
		// edges
		if len(before.Edges) != len(after.Edges) || strings.Join(before.Edges, "\n") != strings.Join(after.Edges, "\n") {
			bm, am := map[string]int{}, map[string]int{}
			for _, e := range before.Edges {
				bm[e]++
			}
			for _, e := range after.Edges {
				am[e]++
			}
			kind, ex := "edge-order", ""
			for e, n := range bm {
				if am[e] < n {
					kind, ex = "edge-lost", e
				}
			}
			for e, n := range am {
				if bm[e] < n {
					if kind == "edge-lost" {
						kind = "edge-endpoint-changed"
					} else {
						kind = "edge-added-or-duplicated"
					}
					ex += " / " + e
				}
			}
			ctx := "plain"
			if ex != "" {
				parts := strings.Split(strings.TrimPrefix(ex, " / "), "|")
				if len(parts) > 1 {
					ctx = ctxOf(parts[0]) + "-to-" + ctxOf(parts[1])
				}
			}
			viol("C18."+kind, ctx, fmt.Sprintf("edges differ (%s)\nbefore=%q\nafter=%q", ex, before.Edges, after.Edges))
		}
		if len(before.Objects) >= 3 && len(before.Edges) >= 1 && nested {
			res.Nontrivial = true
		}
	})
	if !res.Nontrivial {
		res.Inc("vacuous_no_nested_special_diagram_or_too_small")
	}
	return
}
