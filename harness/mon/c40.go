package mon

import (
	"fmt"
	"os"
	"runtime/debug"
	"sort"
	"strings"

	"oss.terrastruct.com/d2/d2oracle"

	"verif/gen"
	"verif/run"
)

// C40 — ID-change predictions match the edits they predict.
//
// For Delete, Rename, Move and ReconnectEdge the monitor first asks the matching
// *IDDeltas function for its prediction — on a separately compiled copy of the pre-state,
// so that the prediction cannot disturb the edit — then applies the edit, matches elements
// across the edit by their unique labels and requires for every surviving object and
// connection:  newID == deltas[oldID] if present, else newID == oldID;  and no delta key
// names an element that the edit removed.
// Not judged (counted): prediction or edit refused, elements without a unique label.
// A panic inside an *IDDeltas function is reported here (these entry points are called
// by no other monitor): clause C40.deltas-crash, signature = innermost d2 frame.
func init() {
	run.Register(&run.Check{
		ID: "C40", Title: "ID-change predictions match the edits they predict",
		LevelText: "Exploration: along random edit histories DeleteIDDeltas / RenameIDDeltas / MoveIDDeltas / ReconnectEdgeIDDeltas are evaluated on the pre-state of every delete, rename, move and reconnect; after the edit every surviving object and connection (matched by unique label) must carry the predicted ID, or its old ID when none was predicted, and no prediction may name a removed element.",
		Technique: "runtime monitoring: differential oracle between the prediction functions and the edits themselves, elements matched by unique label tags",
		DesignRef: "§4 C40",
		Rule:      "cases: gen.Edits histories; non-trivial when ≥2 edits of the history succeeded; counters judged_<kind>, ids_compared, ids_changed say how much was compared",
		Chunk:     8,
		CPUBudget: 30,
		Gen:       orcGen,
		Exec:      execC40,
	})
}

type c40Pred struct {
	deltas map[string]string
	err    error
	ok     bool
}

func execC40(c run.Case) (res run.Result) {
	var in gen.EditCase
	c.Decode(&in)
	var pred c40Pred
	orcRun(in, &res, orcHooks{
		ID: "C40",
		Before: func(s *orcStep, res *run.Result) {
			pred = c40Predict(s, res)
		},
		After: func(s *orcStep, res *run.Result) {
			switch s.Call.Kind {
			case "delete", "rename", "move", "reconnect":
				c40Judge(s, res, pred)
			}
		},
		Refused: func(s *orcStep, res *run.Result) {
			if pred.ok && pred.err == nil {
				res.Inc("vacuous_prediction_given_edit_refused")
			}
		},
	})
	return
}

func c40Predict(s *orcStep, res *run.Result) (p c40Pred) {
	c := s.Call
	switch c.Kind {
	case "delete", "rename", "move", "reconnect":
	default:
		return
	}
	gd, err := orcCompile(s.Pre.Text, s.FS)
	if err != nil {
		res.Inc("harness_pre_text_recompile_failed")
		return
	}
	defer func() {
		if e := recover(); e != nil {
			st := string(debug.Stack())
			if i := strings.Index(st, "\npanic("); i >= 0 {
				st = st[i+1:]
			}
			sig, harness := run.PanicSig(fmt.Sprint(e), st)
			if harness {
				panic(fmt.Sprintf("harness panic while predicting %s: %v\n%s", c, e, st))
			}
			p = c40Pred{}
			res.Inc("deltas_panicked")
			if s.Trigger != "" {
				sig = "C40." + s.Trigger + ":" + sig
			}
			orcViol(res, "C40.deltas-crash", sig, fmt.Sprintf("panic in the prediction for %s: %v\n%s\n%s", c, e, s.describe(), trunc(st, 1500)))
		}
	}()
	p.ok = true
	if orcTrace {
		fmt.Fprintf(os.Stderr, "ORC_TRACE predicting deltas for op #%d %s\n--- source ---\n%s\n", s.I, c, s.Pre.Text)
	}
	switch c.Kind {
	case "delete":
		p.deltas, p.err = d2oracle.DeleteIDDeltas(gd, c.Board, c.Key)
	case "rename":
		p.deltas, p.err = d2oracle.RenameIDDeltas(gd, c.Board, c.Key, c.NewName)
	case "move":
		// MoveIDDeltas takes the board graph itself
		bg := orcNewState(gd, s.Pre.Text).Boards
		if c.BoardIdx >= len(bg) {
			p.ok = false
			return
		}
		p.deltas, p.err = d2oracle.MoveIDDeltas(bg[c.BoardIdx].G, c.Key, c.NewKey, c.Desc)
	case "reconnect":
		p.deltas, p.err = d2oracle.ReconnectEdgeIDDeltas(gd, c.Board, c.Key, c.Src, c.Dst)
	}
	return
}

func c40Judge(s *orcStep, res *run.Result, p c40Pred) {
	if !p.ok {
		res.Inc("vacuous_no_prediction")
		return
	}
	if p.err != nil {
		res.Inc("vacuous_prediction_refused_edit_succeeded")
		return
	}
	pre, post := s.Pre.snap(s.Call.BoardIdx), orcPostSnap(s)
	if post == nil {
		res.Inc("skipped_board_vanished")
		return
	}
	if s.Pre.hollow(s.Call.BoardIdx) {
		res.Inc("skipped_board_declared_without_map")
		return
	}
	if orcWentHollow(s) {
		res.Inc("skipped_board_emptied_and_printed_without_map")
		return
	}
	if s.Pre.hasGlob() {
		res.Inc("skipped_source_has_glob_keys")
		return
	}
	k := orcParseKey(s.Call.Key)
	if k.Err != nil || k.Odd != "" {
		res.Inc("skipped_key_outside_domain")
		return
	}
	kind := s.Call.Kind
	variant := kind
	switch {
	case kind == "delete" && (len(k.Attr) > 0 || len(k.EdgeAttr) > 0):
		variant = "delete-attribute"
	case kind == "delete" && k.Edge:
		variant = "delete-connection"
	case kind == "delete":
		variant = "delete-object"
	case kind == "move" && s.Call.Desc:
		variant = "move-with-descendants"
	case kind == "move":
		variant = "move-without-descendants"
	case kind == "rename" && k.Edge:
		variant = "rename-connection"
	}
	res.Inc("judged_" + strings.ReplaceAll(variant, "-", "_"))
	res.Add("delta_entries", len(p.deltas))
	tcls := "n/a"
	if !k.Edge {
		tcls = pre.decl(pre.findObj(k.Obj))
	} else if ei := pre.findEdge(k); ei >= 0 && (pre.Objs[pre.Edges[ei].Src].Foreign || pre.Objs[pre.Edges[ei].Dst].Foreign) {
		tcls = "imported-endpoint"
	}
	_ = tcls
	reported := false
	showDeltas := func() string {
		var ks []string
		for k := range p.deltas {
			ks = append(ks, k)
		}
		sort.Strings(ks)
		var sb strings.Builder
		for _, k := range ks {
			fmt.Fprintf(&sb, "  %q -> %q\n", k, p.deltas[k])
		}
		if len(ks) == 0 {
			return "  (empty)\n"
		}
		return sb.String()
	}
	viol := func(clause, what, msg string) {
		if reported {
			res.Inc("further_mismatches_of_reported_op")
			return
		}
		reported = true
		orcViol(res, "C40."+clause, orcSig(s, "C40", clause, what+":"+variant), msg+"\npredicted deltas:\n"+showDeltas()+s.describe())
	}
	// Rename, Move and Reconnect never remove anything, and Delete removes only its target
	// and the connections attached to it: any other disappearance is the edit's own defect
	// (C38/C39 report it) and is not held against the prediction.
	legit := map[string]bool{}
	if kind == "delete" && !k.Edge && len(k.Attr) == 0 {
		if t := pre.findObj(k.Obj); t >= 0 {
			legit[pre.Objs[t].AbsID] = true
			for _, e := range pre.Edges {
				if e.Src == t || e.Dst == t {
					legit[e.AbsID] = true
				}
			}
		}
	} else if kind == "delete" && k.Edge && len(k.EdgeAttr) == 0 {
		if t := pre.findEdge(k); t >= 0 {
			legit[pre.Edges[t].AbsID] = true
		}
	}
	// The prediction is only compared with a sane edit: when the edit itself loses elements
	// it may not lose (C38/C39 report that), IDs after the edit say nothing about the
	// prediction.
	for _, po := range pre.Objs {
		if po.Tag != "" && !legit[po.AbsID] {
			if _, ok := post.objByTag[po.Tag]; !ok {
				res.Inc("skipped_edit_itself_lost_elements_see_C38_C39")
				return
			}
		}
	}
	for _, pe := range pre.Edges {
		if pe.Tag != "" && !legit[pe.AbsID] {
			if _, ok := post.edgeByTag[pe.Tag]; !ok {
				res.Inc("skipped_edit_itself_lost_elements_see_C38_C39")
				return
			}
		}
	}
	if variant == "delete-object" {
		if t := pre.findObj(k.Obj); t >= 0 && pre.Objs[t].Tag != "" {
			if _, still := post.objByTag[pre.Objs[t].Tag]; still {
				// the deleted object's label survived on another object (C38 reports it)
				res.Inc("skipped_edit_itself_defective_see_C38")
				return
			}
		}
	}
	orcJudged(s, res, "compared_"+strings.ReplaceAll(variant, "-", "_"))
	removed := map[string]string{} // old AbsID of removed tagged elements -> tag
	// role of an element relative to the edit's target (part of the signature: a wrong
	// prediction for the target itself, for something inside its subtree, for a connection
	// attached to it, or for an unrelated element are different defects)
	tObj, tEdge := -1, -1
	if k.Edge {
		tEdge = pre.findEdge(k)
	} else {
		tObj = pre.findObj(k.Obj)
	}
	objRole := func(i int) string {
		switch {
		case tObj >= 0 && i == tObj:
			return "target"
		case tObj >= 0 && pre.isDesc(i, tObj):
			return "in-target-subtree"
		}
		return "unrelated"
	}
	edgeRole := func(i int) string {
		e := pre.Edges[i]
		switch {
		case i == tEdge:
			return "target"
		case tObj >= 0 && (e.Src == tObj || e.Dst == tObj):
			return "attached-to-target"
		case tObj >= 0 && (pre.isDesc(e.Src, tObj) || pre.isDesc(e.Dst, tObj)):
			return "in-target-subtree"
		case tEdge >= 0 && e.Src == pre.Edges[tEdge].Src && e.Dst == pre.Edges[tEdge].Dst:
			return "parallel-to-target"
		}
		return "unrelated"
	}
	check := func(what, tag, old, now string, survived bool) {
		if !survived {
			removed[old] = tag
			return
		}
		res.Inc("ids_compared")
		want, predicted := p.deltas[old]
		if !predicted {
			want = old
		}
		if now != old {
			res.Inc("ids_changed")
		}
		if now != want && strings.EqualFold(now, want) {
			// same ID up to letter case: d2 resolves IDs case-insensitively and spells them
			// like their first reference; counted, not a mismatch
			res.Inc("ids_equal_up_to_letter_case")
		} else if now != want {
			how := "unpredicted-change"
			if predicted && now == old {
				how = "predicted-change-did-not-happen"
			} else if predicted {
				how = "predicted-other-id"
			}
			viol("wrong-prediction", what+":"+how, fmt.Sprintf("%s %s: ID before %q, after %q, predicted %q (entry present: %v)", what, tag, old, now, want, predicted))
		}
	}
	for i, po := range pre.Objs {
		if po.Tag == "" {
			res.Inc("untagged_not_compared")
			continue
		}
		j, ok := post.objByTag[po.Tag]
		now := ""
		if ok {
			now = post.Objs[j].AbsID
		}
		check("object."+objRole(i), po.Tag, po.AbsID, now, ok)
	}
	for i, pe := range pre.Edges {
		if pe.Tag == "" {
			res.Inc("untagged_not_compared")
			continue
		}
		j, ok := post.edgeByTag[pe.Tag]
		now := ""
		if ok {
			now = post.Edges[j].AbsID
		}
		check("connection."+edgeRole(i), pe.Tag, pe.AbsID, now, ok)
	}
	// no prediction for a removed element — unless the same old ID also belongs to a
	// survivor (cannot happen: IDs are unique per board)
	for old, tag := range removed {
		if !legit[old] {
			res.Inc("removed_by_defective_edit_not_held_against_prediction")
			continue
		}
		if to, ok := p.deltas[old]; ok {
			viol("delta-for-removed", "removed-element", fmt.Sprintf("the edit removed %s (%q) but the prediction maps it to %q", tag, old, to))
		}
	}
}
