package mon

import (
	"errors"
	"fmt"
	"strings"

	"verif/gen"
	"verif/model"
	"verif/proj"
	"verif/run"

	"oss.terrastruct.com/d2/d2graph"
	"oss.terrastruct.com/d2/d2parser"
)

// C11 — parallel connections are indexed consecutively; indexed references hit one.
//
// Clauses:
//   index.consecutive   in every board, for every (src, dst, src-arrow, dst-arrow) the indices
//                       of the listed connections are exactly 0,1,…,k-1 in list order
//   index.unique-id     all Edge.AbsID() of a board are distinct
//   ref.exactly-one     metamorphic, through the real compiler: for an indexed reference
//                       statement S that sets a label or style, P and P-without-S compile to
//                       graphs that differ in at most one connection, which belongs to the
//                       class S names (and, in programs without any removal, has S's index);
//                       objects and the number of connections are unchanged
//   ref.missing-index   a reference (not a removal) to an index that does not exist at that
//                       point — decided by counting with the reference interpreter
//                       model/core.go — is rejected with "indexed edge does not exist"
//                       positioned on the line of that statement; and a program the
//                       interpreter accepts is not rejected with that error.
//
// The first two clauses are also evaluated on every board of compilable programs of the
// language profile (globs, boards, imports-free), which the core fragment does not reach.

type c11In struct {
	Prog []model.CoreStmt `json:"prog,omitempty"`
	Text string           `json:"text"`
	Src  string           `json:"src"`
}

func init() {
	run.Register(&run.Check{
		ID: "C11", Title: "Edge indexing",
		LevelText: "Exploration: thousands of generated programs dense in repeated, chained, scoped and `_`-relative connections over ≤3 names with mixed arrows, indexed label/style updates, removals and references to missing indices are compiled; consecutive numbering and ID uniqueness are checked on every board, every indexed reference is removed in turn and the two compilations diffed (exactly one connection of the named class may change), and missing-index errors are compared (existence and line) with an independent interpreter.",
		Technique: "runtime monitoring: model-free invariants + metamorphic statement-removal oracle through the real compiler + reference-interpreter oracle for missing indices",
		DesignRef: "§4 C11",
		Rule:      "cases: gen.Core(CoreDense) structured programs, gen.Program(core|lang) texts (numbering clauses only); distinct by sha256(text); non-trivial when some class of parallel connections has ≥2 members or an indexed reference was judged",
		Chunk:     48, MinNontrivial: 300,
		Gen:  genC11,
		Exec: execC11,
	})
}

func genC11(seed int64, tier string, emit func(run.Case)) {
	r := gen.New(seed)
	n := tierN(tier, 7000, 150000)
	for i := 0; i < n; i++ {
		q := r.Sub(i)
		switch q.Intn(10) {
		case 2:
			// removal inside a class of parallel connections followed by new members and
			// indexed references (embedded in a random dense program)
			o := gen.CoreDense
			o.MaxStmts, o.PNull = 8, 0
			prog := gen.Core(q, o)
			a := model.CoreEnd{Path: gen.Pick(q, [][]string{{"a"}, {"p", "q"}, {"A"}})}
			b := model.CoreEnd{Path: gen.Pick(q, [][]string{{"b"}, {"p", "r"}, {"a"}})}
			ar := gen.Pick(q, gen.Arrows)
			edge := func() model.CoreStmt {
				return model.CoreStmt{Kind: "edge", Ends: []model.CoreEnd{a, b}, Arrows: []string{ar}}
			}
			k := q.Range(2, 4)
			for j := 0; j < k; j++ {
				prog = append(prog, edge())
			}
			prog = append(prog, model.CoreStmt{Kind: "eref", Ends: []model.CoreEnd{a, b}, Arrows: []string{ar}, Index: q.Intn(k), Null: true})
			for j := 0; j < q.Range(0, 2); j++ {
				prog = append(prog, edge())
			}
			for j := 0; j < q.Range(1, 3); j++ {
				lbl := fmt.Sprintf("R%d", j)
				prog = append(prog, model.CoreStmt{Kind: "eref", Ends: []model.CoreEnd{a, b}, Arrows: []string{ar}, Index: q.Intn(k + 1), Label: &lbl})
			}
			emit(run.MkCase(fmt.Sprintf("c%07d", i), "removal-scenario", c11In{Prog: prog, Text: gen.CoreText(prog), Src: "removal-scenario"}))
		case 0:
			p := gen.ProfileCore
			p.Edges, p.EdgeIdx, p.NamePool = .5, .2, 4
			emit(run.MkCase(fmt.Sprintf("c%07d", i), "text-core", c11In{Text: gen.Program(q, p), Src: "text-core"}))
		case 1:
			emit(run.MkCase(fmt.Sprintf("c%07d", i), "text-lang", c11In{Text: gen.Program(q, gen.ProfileLang), Src: "text-lang"}))
		default:
			o := gen.CoreDense
			if q.P(0.3) {
				o.PNull = 0
			}
			if q.P(0.2) {
				o.Names = 2
			}
			prog := gen.Core(q, o)
			emit(run.MkCase(fmt.Sprintf("c%07d", i), "dense", c11In{Prog: prog, Text: gen.CoreText(prog), Src: "dense"}))
		}
	}
}

type c11Class struct {
	src, dst string
	sa, da   bool
}

func c11ClassOf(e *d2graph.Edge) c11Class {
	return c11Class{c09ObjKey(e.Src), c09ObjKey(e.Dst), e.SrcArrow, e.DstArrow}
}

// c11Numbering checks index.consecutive and index.unique-id on one board.
//
// strict: the indices follow list (= declaration) order. Programs with globs are judged
// non-strictly — the indices of a class must be the set {0..k-1} — because a lazily
// re-applied glob declared early creates its connection late, so "declaration order" is
// not defined between it and an explicit connection written in between (false alarm
// corrected: `* <-> *` … `q <-> *` lists (q <-> a)[1] before (q <-> a)[0]).
func c11Numbering(res *run.Result, g *d2graph.Graph, kind string, strict bool) (maxParallel int) {
	next := map[c11Class]int{}
	ids := map[string]bool{}
	have := map[c11Class]map[int]bool{}
	for _, e := range g.Edges {
		if e.Src == nil || e.Dst == nil {
			continue
		}
		c := c11ClassOf(e)
		if strict && e.Index != next[c] {
			res.Viol("C11.index.consecutive", "C11.index.consecutive:"+kind, fmt.Sprintf("board %q: connection %s has index %d but is number %d of its class in list order", g.Name, e.AbsID(), e.Index, next[c]))
		}
		if have[c] == nil {
			have[c] = map[int]bool{}
		}
		have[c][e.Index] = true
		next[c]++
		if next[c] > maxParallel {
			maxParallel = next[c]
		}
		id := e.AbsID()
		if ids[id] {
			res.Viol("C11.index.unique-id", "C11.index.unique-id:"+kind, fmt.Sprintf("board %q: two connections share the ID %s", g.Name, id))
		}
		ids[id] = true
	}
	for c, set := range have {
		for i := 0; i < next[c]; i++ {
			if !set[i] {
				res.Viol("C11.index.gap", "C11.index.gap:"+kind, fmt.Sprintf("board %q: the %d connections between %s and %s do not carry the indices 0..%d (index %d is missing)", g.Name, next[c], c09Show(c.src), c09Show(c.dst), next[c]-1, i))
				break
			}
		}
	}
	if strict {
		res.Add("clause_numbering_edges_checked_strict", len(g.Edges))
	} else {
		res.Add("clause_numbering_edges_checked_set_only", len(g.Edges))
	}
	return
}

type c11Ref struct {
	path  []int
	stmt  model.CoreStmt
	scope []string // folded names of the enclosing declarations
}

func c11Refs(prog []model.CoreStmt, pre []int, scope []string, out *[]c11Ref) {
	for i, s := range prog {
		path := append(append([]int{}, pre...), i)
		switch s.Kind {
		case "eref":
			*out = append(*out, c11Ref{path: path, stmt: s, scope: append([]string{}, scope...)})
		case "decl":
			sc := append([]string{}, scope...)
			for _, n := range s.Path {
				sc = append(sc, strings.ToLower(n))
			}
			c11Refs(s.Body, path, sc, out)
		}
	}
}

func c11Without(prog []model.CoreStmt, path []int) []model.CoreStmt {
	out := make([]model.CoreStmt, 0, len(prog))
	for i, s := range prog {
		if i == path[0] {
			if len(path) == 1 {
				continue
			}
			s.Body = c11Without(s.Body, path[1:])
			if s.Body == nil {
				s.Body = []model.CoreStmt{}
			}
		}
		out = append(out, s)
	}
	return out
}

func c11HasRemoval(prog []model.CoreStmt) bool {
	for _, s := range prog {
		switch {
		case s.Kind == "null", s.Kind == "eref" && s.Null:
			return true
		case s.Kind == "eref":
			for _, a := range s.Attrs {
				if a.Value == nil {
					return true
				}
			}
		}
		if c11HasRemoval(s.Body) {
			return true
		}
	}
	return false
}

func c11EndKey(scope []string, e model.CoreEnd) (string, bool) {
	if e.Under > len(scope) {
		return "", false
	}
	p := append([]string{}, scope[:len(scope)-e.Under]...)
	for _, n := range e.Path {
		p = append(p, strings.ToLower(n))
	}
	return strings.Join(p, c09Sep), true
}

func execC11(c run.Case) (res run.Result) {
	var in c11In
	c.Decode(&in)
	res.Inc("src_" + in.Src)
	res.Sample = map[string]any{"src": in.Src, "text": trunc(in.Text, 400)}
	g, _, err := compile(in.Text)
	var m *model.CoreResult
	if in.Prog != nil {
		m = model.CoreRun(in.Prog)
	}
	// ---- ref.missing-index ----
	if m != nil {
		missing := false
		var lines []int
		var pe *d2parser.ParseError
		if errors.As(err, &pe) {
			for _, e := range pe.Errors {
				if strings.Contains(e.Message, "indexed edge does not exist") {
					missing = true
					lines = append(lines, e.Range.Start.Line)
				}
			}
		}
		switch {
		case m.AmbiguousSeen && (missing || m.Err != ""):
			// an index was re-used after a removal before this point: which connection
			// "[i]" names is not well defined (known finding F-C11-index-reused-after-removal,
			// reported by the ref.exactly-one clause); existence of an index is not judged
			res.Inc("vacuous_missing_index_after_index_reuse")
		case m.Err == "indexed edge does not exist":
			res.Inc("clause_missing_index_judged")
			res.Nontrivial = true
			want := gen.CoreLines(in.Prog)[m.ErrAt]
			found := false
			for _, l := range lines {
				if l == want {
					found = true
				}
			}
			trig := "plain"
			if c11HasRemoval(in.Prog) {
				trig = "program-with-removals"
			}
			if !missing {
				res.Viol("C11.ref.missing-index.accepted", "C11.ref.missing-index.accepted:"+trig, fmt.Sprintf("the reference on line %d names an index that does not exist at that point, but no 'indexed edge does not exist' error was reported (err: %v)\n%s", want+1, err, in.Text))
			} else if !found {
				res.Viol("C11.ref.missing-index.position", "C11.ref.missing-index.position:"+trig, fmt.Sprintf("the first reference to a missing index is on line %d, errors are reported on lines %v (0-based %d)\n%s", want+1, lines, want, in.Text))
			}
		case m.Err == "" && missing:
			res.Nontrivial = true
			trig := "plain"
			if c10HasEdgeAttrNull(in.Prog) {
				trig = "program-nulls-a-connection-attribute"
			} else if c11HasRemoval(in.Prog) {
				trig = "program-with-removals"
			}
			res.Viol("C11.ref.existing-index.rejected", "C11.ref.existing-index.rejected:"+trig, fmt.Sprintf("every indexed reference names an existing connection according to the reference interpreter, but compilation reports 'indexed edge does not exist' on line(s) %v\n%s", lines, in.Text))
		}
	}
	if err != nil || g == nil {
		res.Inc("not_compilable")
		return
	}
	// ---- numbering on every board ----
	maxPar := 0
	proj.Walk(g, func(path string, b *d2graph.Graph) {
		kind := "root"
		if path != "root" {
			kind = "nested-board"
		}
		if k := c11Numbering(&res, b, kind, !strings.Contains(in.Text, "*")); k > maxPar {
			maxPar = k
		}
	})
	if maxPar >= 2 {
		res.Nontrivial = true
		res.Inc("programs_with_parallel_connections")
	}
	if maxPar >= 3 {
		res.Inc("programs_with_3plus_parallel_connections")
	}
	if m == nil {
		return
	}
	// ---- ref.exactly-one (metamorphic) ----
	var refs []c11Ref
	c11Refs(in.Prog, nil, nil, &refs)
	base := proj.Graph(g, proj.Opts{})
	removal := c11HasRemoval(in.Prog)
	judged := 0
	for _, rf := range refs {
		if judged >= 5 {
			break
		}
		s := rf.stmt
		if s.Null {
			continue
		}
		setsSomething := s.Label != nil
		for _, a := range s.Attrs {
			if a.Value != nil {
				setsSomething = true
			} else {
				setsSomething = false
				break
			}
		}
		if !setsSomething {
			continue
		}
		p2 := c11Without(in.Prog, rf.path)
		g2, _, err2 := compile(gen.CoreText(p2))
		if err2 != nil || g2 == nil {
			res.Inc("vacuous_ref_program_without_statement_does_not_compile")
			continue
		}
		judged++
		res.Inc("clause_ref_exactly_one_judged")
		res.Nontrivial = true
		other := proj.Graph(g2, proj.Opts{})
		trig := "plain"
		if removal {
			trig = "program-with-removals"
		}
		line := gen.CoreLines(in.Prog)[c11PathKey(rf.path)] + 1
		if fmt.Sprint(base.Objects) != fmt.Sprint(other.Objects) {
			res.Viol("C11.ref.changed-objects", "C11.ref.changed-objects:"+trig, fmt.Sprintf("removing the indexed reference on line %d changes the objects\n%s", line, in.Text))
			continue
		}
		if len(base.Edges) != len(other.Edges) {
			res.Viol("C11.ref.changed-edge-count", "C11.ref.changed-edge-count:"+trig, fmt.Sprintf("removing the indexed reference on line %d changes the number of connections (%d vs %d)\n%s", line, len(base.Edges), len(other.Edges), in.Text))
			continue
		}
		var diff []int
		for i := range base.Edges {
			if fmt.Sprint(base.Edges[i]) != fmt.Sprint(other.Edges[i]) {
				diff = append(diff, i)
			}
		}
		switch {
		case len(diff) == 0:
			res.Inc("ref_without_visible_effect")
		case len(diff) > 1:
			var ids []string
			for _, i := range diff {
				ids = append(ids, base.Edges[i].AbsID)
			}
			// name the trigger: the reference interpreter flags classes whose index
			// bookkeeping became non-unique (a member was removed, a later creation re-used
			// an index that a survivor still carries)
			for _, me := range m.Edges {
				if me.Ambiguous && me.Src.PathKey() == c09ObjKey(g.Edges[diff[0]].Src) && me.Dst.PathKey() == c09ObjKey(g.Edges[diff[0]].Dst) {
					trig = "index-reused-after-removal-in-class"
				}
			}
			res.Viol("C11.ref.changed-several", "C11.ref.changed-several:"+trig, fmt.Sprintf("the indexed reference on line %d changed %d connections: %s\n%s", line, len(diff), strings.Join(ids, ", "), in.Text))
		default:
			e := g.Edges[diff[0]]
			sk, ok1 := c11EndKey(rf.scope, s.Ends[0])
			dk, ok2 := c11EndKey(rf.scope, s.Ends[1])
			ar := s.Arrows[0]
			want := c11Class{sk, dk, ar == "<-" || ar == "<->", ar == "->" || ar == "<->"}
			if ok1 && ok2 && c11ClassOf(e) != want {
				res.Viol("C11.ref.changed-other-class", "C11.ref.changed-other-class:"+trig, fmt.Sprintf("the indexed reference on line %d changed connection %s, which is not between the endpoints it names\n%s", line, e.AbsID(), in.Text))
			} else if !removal && e.Index != s.Index {
				res.Viol("C11.ref.changed-other-index", "C11.ref.changed-other-index:plain", fmt.Sprintf("the indexed reference [%d] on line %d changed connection %s\n%s", s.Index, line, e.AbsID(), in.Text))
			}
		}
	}
	return
}

func c11PathKey(path []int) string {
	var parts []string
	for _, i := range path {
		parts = append(parts, fmt.Sprint(i))
	}
	return strings.Join(parts, "/")
}
