// Package gen holds the workload generators shared by the monitors.
package gen

import (
	"math/rand"
	"strings"
)

// R is a seeded PRNG with helpers. Every case list is a pure function of its seed.
type R struct{ *rand.Rand }

func New(seed int64) *R { return &R{rand.New(rand.NewSource(seed))} }

// Sub derives an independent generator for item i (so inserting cases does not shift
// every later case).
func (r *R) Sub(i int) *R { return New(r.Int63() ^ int64(i)*0x9E3779B97F4A7C) }

func (r *R) P(p float64) bool { return r.Float64() < p }

func (r *R) Range(lo, hi int) int { // inclusive
	if hi <= lo {
		return lo
	}
	return lo + r.Intn(hi-lo+1)
}

func Pick[T any](r *R, xs []T) T { return xs[r.Intn(len(xs))] }

func (r *R) Str(xs ...string) string { return xs[r.Intn(len(xs))] }

// Weighted picks an index with the given integer weights.
func (r *R) Weighted(w ...int) int {
	t := 0
	for _, x := range w {
		t += x
	}
	n := r.Intn(t)
	for i, x := range w {
		if n < x {
			return i
		}
		n -= x
	}
	return len(w) - 1
}

// RandCase randomises letter case of s.
func (r *R) RandCase(s string) string {
	switch r.Intn(4) {
	case 0:
		return strings.ToUpper(s)
	case 1:
		if s == "" {
			return s
		}
		return strings.ToUpper(s[:1]) + s[1:]
	case 2:
		b := []byte(s)
		for i := range b {
			if r.Intn(2) == 0 && b[i] >= 'a' && b[i] <= 'z' {
				b[i] -= 32
			}
		}
		return string(b)
	}
	return s
}

func (r *R) Bytes(n int) []byte {
	b := make([]byte, n)
	r.Read(b)
	return b
}
