package gen

// layout2_near.go — targeted workload of C24: random main content (gen.Diagram without its own
// near objects, special roots and boards) plus 1–8 root-level shapes with a constant `near`
// (leaves of all kinds, containers with children and edges, grids, sequence diagrams; labels at
// inside/outside positions, icons, explicit sizes) covering all 8 constants.

import (
	"fmt"
	"strings"
)

// L2NearBoard returns the text, the ids of the near shapes with their constants, and features.
func L2NearBoard(r *R, engine string, idx int) (string, map[string]string, []string) {
	var feats []string
	main := Diagram(r, DiagramOpts{Engine: engine, Near: -1, RootSpecial: -1, Boards: -1, Latex: -1,
		MinObjects: 1, MaxObjects: Pick(r, []int{1, 3, 6, 10, 14})})
	if r.P(0.05) {
		main = "" // near shapes only
		feats = append(feats, "empty_main")
	}
	w := &l2w{}
	nears := map[string]string{}
	n := r.Weighted(4, 3, 2, 2, 1, 1, 1, 1) + 1
	feats = append(feats, fmt.Sprintf("nears_%d", n))
	for i := 0; i < n; i++ {
		id := fmt.Sprintf("zznear%d", i)
		c := NearConstants[(idx+i)%len(NearConstants)]
		if r.P(0.4) {
			c = Pick(r, NearConstants)
		}
		nears[id] = c
		feats = append(feats, "near_"+c)
		w.ln("%s: {", id)
		w.ind++
		w.ln("near: %s", c)
		lab, kind := L2Label(r)
		switch r.Weighted(5, 3, 1, 1) {
		case 0: // leaf
			shape := "rectangle"
			if r.P(0.6) {
				shape = Pick(r, []string{"text", "text", "square", "page", "document", "cylinder", "queue", "package", "step", "callout", "stored_data", "person", "diamond", "oval", "circle", "hexagon", "cloud", "image", "class", "sql_table", "code"})
				w.ln("shape: %s", shape)
			}
			feats = append(feats, "near_leaf")
			switch shape {
			case "image":
				w.ln("icon: https://icons.terrastruct.com/essentials/004-picture.svg")
			case "class":
				w.ln("+f: int")
			case "sql_table":
				w.ln("id: int")
				if kind == "multiline" || kind == "empty" {
					lab = `"t"`
				}
			case "code":
				w.ln("label: |go\n%s  x := 1\n%s|", strings.Repeat("  ", w.ind), strings.Repeat("  ", w.ind))
			case "text":
				if kind == "empty" {
					lab = `"Title"`
				}
			}
			if shape != "code" {
				w.ln("label: %s", lab)
			}
			plain := shape != "text" && shape != "code" && shape != "class" && shape != "sql_table"
			if plain && r.P(0.4) {
				w.ln("label.near: %s", Pick(r, append(append([]string{}, L2OutsidePositions...), L2InsidePositions...)))
				feats = append(feats, "near_label_pos")
			}
			if plain && shape != "image" && r.P(0.15) {
				w.ln("icon: https://icons.terrastruct.com/essentials/005-programmer.svg")
			}
			if r.P(0.25) {
				d := Pick(r, []int{30, 80, 200, 500})
				w.ln("width: %d", d)
				if shape != "circle" && shape != "square" && r.P(0.7) {
					w.ln("height: %d", Pick(r, []int{30, 80, 200, 500}))
				}
			}
			if r.P(0.2) {
				w.ln("style.font-size: %d", Pick(r, []int{8, 24, 40, 55}))
			}
		case 1: // container with children and edges
			feats = append(feats, "near_container")
			if kind != "empty" {
				w.ln("label: %s", lab)
				if r.P(0.4) {
					w.ln("label.near: %s", Pick(r, append(append([]string{}, L2OutsidePositions...), L2InsidePositions...)))
					feats = append(feats, "near_label_pos")
				}
			}
			if r.P(0.3) {
				w.ln("direction: %s", r.Str("right", "left", "up", "down"))
			}
			k := r.Range(1, 5)
			for j := 0; j < k; j++ {
				if r.P(0.2) {
					w.ln("k%d: {", j)
					w.ind++
					w.ln("kk0")
					w.ln("kk1: {shape: %s}", Pick(r, []string{"oval", "diamond", "cylinder"}))
					w.ln("kk0 -> kk1")
					w.ind--
					w.ln("}")
				} else {
					l2GridLeaf(w, r, fmt.Sprintf("k%d", j), &feats)
				}
			}
			for j := 0; j < k-1; j++ {
				if r.P(0.6) {
					w.ln("k%d -> k%d%s", j, j+1, map[bool]string{true: ": lbl", false: ""}[r.P(0.3)])
				}
			}
		case 2: // grid
			feats = append(feats, "near_grid")
			l2Grid(w, r, "c", 1, &feats, false)
		default: // sequence diagram
			feats = append(feats, "near_sequence")
			w.ln("shape: sequence_diagram")
			w.ln("alice -> bob: hi")
			w.ln("bob -> alice: %s", lab)
		}
		w.ind--
		w.ln("}")
	}
	// near objects first or last in the text
	if r.P(0.5) {
		return w.b.String() + main, nears, feats
	}
	return main + "\n" + w.b.String(), nears, feats
}
