package gen

import (
	"fmt"
	"strings"
)

// Render1StatefulLabels builds diagrams whose labels go through renderers that keep (or
// could keep) state between calls: LaTeX (MathJax in a JS runtime: \DeclareMathOperator,
// \DeclarePairedDelimiter, \definecolor, \newcommand … are document-global in TeX), markdown
// (goldmark) and code (chroma lexers). A renderer that is a pure function of the block's own
// text renders every diagram the same way whatever was rendered before; a cached runtime
// leaks declarations from one block into later ones. The control-sequence names are random
// per call, so a long-lived process has never seen them before.
//
// Variants (returned as the third value):
//
//	same-diagram   the main diagram USES a name in an earlier block and DECLARES it in a later one
//	other-board    the root board uses the names, a layer declares them (or the other way round)
//	other-diagram  the main diagram only uses the names; bystander 0 declares (and uses) them
//
// The bystanders are meant to be rendered concurrently with / before the re-render of main.
// The generator does not import d2.
func Render1StatefulLabels(r *R) (main string, bystanders []string, variant string) {
	letters := func() string {
		const a = "abcdefghijklmnopqrstuvwxyz"
		b := make([]byte, 5)
		for i := range b {
			b[i] = a[r.Intn(len(a))]
		}
		return string(b)
	}
	op, col, del, cmd := "o"+letters(), "c"+letters(), "d"+letters(), "m"+letters()

	uses := []string{
		fmt.Sprintf(`\%s(x) + \frac{1}{%d}`, op, r.Range(2, 9)),
		fmt.Sprintf(`\textcolor{%s}{x^%d + y}`, col, r.Range(2, 5)),
		fmt.Sprintf(`\%s{v} \le %d`, del, r.Range(1, 9)),
		fmt.Sprintf(`\%s + \alpha_%d`, cmd, r.Range(1, 9)),
	}
	decls := []string{
		fmt.Sprintf(`\DeclareMathOperator{\%s}{%s} \%s(z)`, op, op, op),
		fmt.Sprintf(`\definecolor{%s}{RGB}{%d,%d,%d} \textcolor{%s}{w}`, col, r.Range(150, 255), r.Range(0, 60), r.Range(0, 60), col),
		fmt.Sprintf(`\DeclarePairedDelimiter{\%s}{\lVert}{\rVert} \%s{u}`, del, del),
		fmt.Sprintf(`\newcommand{\%s}{\beta\gamma\delta\epsilon} \%s`, cmd, cmd),
	}
	// pick 2–3 of the 4 name kinds
	idx := r.Perm(4)[:r.Range(2, 3)]
	var useB, declB []string
	for _, i := range idx {
		useB = append(useB, uses[i])
		declB = append(declB, decls[i])
	}
	latex := func(name, body string) string { return fmt.Sprintf("%s: |latex %s |\n", name, body) }
	extras := func(p string) string {
		var sb strings.Builder
		if r.P(0.7) {
			fmt.Fprintf(&sb, "%smd: |md # %s\n- *item* `%s`\n- **b** |\n", p, plainName(r), plainName(r))
		}
		if r.P(0.6) {
			fmt.Fprintf(&sb, "%scode: |go x%d := %d // %s |\n", p, r.Intn(9), r.Intn(100), plainName(r))
		}
		if r.P(0.5) {
			fmt.Fprintf(&sb, "%stxt: %s\n", p, plainName(r))
		}
		return sb.String()
	}
	neutral := func(p string) string {
		var sb strings.Builder
		sb.WriteString(extras(p))
		fmt.Fprintf(&sb, "%sn1 -> %sn2: %s\n", p, p, plainName(r))
		if r.P(0.5) {
			sb.WriteString(latex(p+"f", fmt.Sprintf(`\sum_{i=1}^{%d} i^2`, r.Range(2, 9))))
		}
		return sb.String()
	}

	var sb strings.Builder
	switch r.Intn(3) {
	case 0:
		variant = "same-diagram"
		for i, u := range useB {
			sb.WriteString(latex(fmt.Sprintf("u%d", i), u))
		}
		sb.WriteString(extras("x"))
		for i, d := range declB {
			sb.WriteString(latex(fmt.Sprintf("d%d", i), d))
		}
		sb.WriteString("u0 -> d0")
		if r.P(0.5) {
			fmt.Fprintf(&sb, ": |latex %s |", useB[len(useB)-1])
		}
		sb.WriteString("\n")
		main = sb.String()
		bystanders = []string{neutral("a"), neutral("b")}
	case 1:
		variant = "other-board"
		usesOnRoot := r.P(0.5)
		first, second := useB, declB
		if !usesOnRoot {
			first, second = declB, useB
		}
		for i, u := range first {
			sb.WriteString(latex(fmt.Sprintf("r%d", i), u))
		}
		sb.WriteString(extras("x"))
		sb.WriteString("r0 -> xtxt2\nlayers: {\n  deep: {\n")
		for i, d := range second {
			sb.WriteString("    " + latex(fmt.Sprintf("l%d", i), d))
		}
		sb.WriteString("    l0 -> lx\n  }\n}\n")
		main = sb.String()
		bystanders = []string{neutral("a"), neutral("b")}
	default:
		variant = "other-diagram"
		for i, u := range useB {
			sb.WriteString(latex(fmt.Sprintf("u%d", i), u))
		}
		sb.WriteString(extras("x"))
		sb.WriteString("u0 -> u1\n")
		main = sb.String()
		var b0 strings.Builder
		for i, d := range declB {
			b0.WriteString(latex(fmt.Sprintf("d%d", i), d))
		}
		for i, u := range useB {
			b0.WriteString(latex(fmt.Sprintf("v%d", i), u))
		}
		b0.WriteString("d0 -> v0\n")
		bystanders = []string{b0.String(), neutral("b")}
	}
	return main, bystanders, variant
}
