package gen

import (
	"go/ast"
	"go/parser"
	"go/token"
	"io/fs"
	"os"
	"path/filepath"
	"sort"
	"strconv"
	"strings"
)

// Corpus collects D2 scripts from the repository under test: every .d2 file, every
// txtar section of e2etests/txtar.txt and every multi-line or d2-looking string literal in
// *_test.go. It is read from /repo's working tree at run time.
func Corpus(repo string) []string {
	seen := map[string]bool{}
	var out []string
	add := func(s string) {
		if len(s) == 0 || len(s) > 64<<10 || seen[s] {
			return
		}
		seen[s] = true
		out = append(out, s)
	}
	filepath.WalkDir(repo, func(p string, d fs.DirEntry, err error) error {
		if err != nil {
			return nil
		}
		if d.IsDir() {
			n := d.Name()
			if n == ".git" || n == "node_modules" || n == "d2js" {
				return filepath.SkipDir
			}
			return nil
		}
		switch {
		case strings.HasSuffix(p, ".d2"):
			if b, err := os.ReadFile(p); err == nil {
				add(string(b))
			}
		case strings.HasSuffix(p, "txtar.txt"):
			if b, err := os.ReadFile(p); err == nil {
				for _, sec := range splitTxtar(string(b)) {
					add(sec)
				}
			}
		case strings.HasSuffix(p, "_test.go"):
			fset := token.NewFileSet()
			f, err := parser.ParseFile(fset, p, nil, parser.SkipObjectResolution)
			if err != nil {
				return nil
			}
			ast.Inspect(f, func(n ast.Node) bool {
				kv, ok := n.(*ast.KeyValueExpr)
				if !ok {
					return true
				}
				id, ok := kv.Key.(*ast.Ident)
				if !ok {
					return true
				}
				switch strings.ToLower(id.Name) {
				case "text", "script", "in", "dsl", "input", "d2", "exp":
				default:
					return true
				}
				if lit, ok := kv.Value.(*ast.BasicLit); ok && lit.Kind == token.STRING {
					if s, err := strconv.Unquote(lit.Value); err == nil {
						add(s)
					}
				}
				return true
			})
		}
		return nil
	})
	sort.Strings(out)
	return out
}

func splitTxtar(s string) []string {
	var out []string
	var cur []string
	for _, ln := range strings.Split(s, "\n") {
		if strings.HasPrefix(ln, "-- ") && strings.HasSuffix(ln, " --") {
			if len(cur) > 0 {
				out = append(out, strings.Join(cur, "\n"))
			}
			cur = nil
			continue
		}
		cur = append(cur, ln)
	}
	if len(cur) > 0 {
		out = append(out, strings.Join(cur, "\n"))
	}
	return out
}
